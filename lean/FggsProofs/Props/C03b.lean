/-
C03 (Jacobian) — the model `Pipe.jacLabel` of `fggs.sum_product.J` (for every rule of `X` and every edge with
the given label: the sum-product of the REMAINING edges, the edge's nodes kept as extra external nodes — computed
by the model of `sum_product_edges`, identity factors for repeated nodes included) is the derivative of the
equation system `F`: evaluating `F` over the dual numbers `K[ε]/(ε²)` at `x + ε·dx` with weights `w + ε·dw`
gives `F(x)` in the value part and `Σ_labels J[X, l] · d_l` in the ε-part.  Nonterminal labels give `Jx`
(the matrix of the linear systems solved by `newton` and by `backward`), terminal labels give `J_inputs`
(the gradient with respect to the factors).
-/
import FggsModel.Pipeline
import FggsProofs.PipeLemmas
import FggsProofs.Props.C01
import FggsProofs.Props.C01b
import FggsProofs.C03bLemmas
import Mathlib.Tactic.Linarith
import Mathlib.Data.List.Basic

set_option linter.unusedSimpArgs false
set_option linter.unusedVariables false

namespace C03
open Fggs Fggs.Sem Fggs.Pipe PipeL C03L

variable {K : Type}

/-- dual numbers over a semiring record: `(a + a'ε)(b + b'ε) = ab + (ab' + a'b)ε` -/
def dualOf (S : SR K) : SR (K × K) :=
  ⟨(S.zero, S.zero), (S.one, S.zero),
   fun a b => (S.add a.1 b.1, S.add a.2 b.2),
   fun a b => (S.mul a.1 b.1, S.add (S.mul a.1 b.2) (S.mul a.2 b.1))⟩

/-- the dual numbers over a commutative semiring are a commutative semiring -/
theorem dualOf_laws (S : SR K) (hS : C01.SRLaws S) : C01.SRLaws (dualOf S) := by
  constructor
  · rintro ⟨a, a'⟩ ⟨b, b'⟩ ⟨c, c'⟩
    simp only [dualOf, hS.add_assoc]
  · rintro ⟨a, a'⟩ ⟨b, b'⟩
    simp only [dualOf, hS.add_comm a b, hS.add_comm a' b']
  · rintro ⟨a, a'⟩
    simp only [dualOf, hS.zero_add]
  · rintro ⟨a, a'⟩ ⟨b, b'⟩ ⟨c, c'⟩
    simp only [dualOf, Prod.mk.injEq]
    refine ⟨hS.mul_assoc a b c, ?_⟩
    rw [sr_right_distrib hS, hS.left_distrib, hS.mul_assoc, hS.mul_assoc, hS.mul_assoc, hS.add_assoc]
  · rintro ⟨a, a'⟩ ⟨b, b'⟩
    simp only [dualOf, Prod.mk.injEq]
    refine ⟨hS.mul_comm a b, ?_⟩
    rw [hS.add_comm, hS.mul_comm a' b, hS.mul_comm a b']
  · rintro ⟨a, a'⟩
    simp only [dualOf, Prod.mk.injEq]
    refine ⟨hS.one_mul a, ?_⟩
    rw [hS.one_mul, hS.zero_mul, sr_add_zero hS]
  · rintro ⟨a, a'⟩
    simp only [dualOf, Prod.mk.injEq]
    refine ⟨hS.zero_mul a, ?_⟩
    rw [hS.zero_mul, hS.zero_mul, hS.zero_add]
  · rintro ⟨a, a'⟩ ⟨b, b'⟩ ⟨c, c'⟩
    simp only [dualOf, Prod.mk.injEq]
    refine ⟨hS.left_distrib a b c, ?_⟩
    rw [hS.left_distrib, hS.left_distrib, sr_add4 hS]

/-! ### sums and products of dual numbers -/

private theorem dual_foldl_add (S : SR K) (l : List (K × K)) (acc : K × K) :
    l.foldl (dualOf S).add acc = ((l.map Prod.fst).foldl S.add acc.1, (l.map Prod.snd).foldl S.add acc.2) := by
  induction l generalizing acc with
  | nil => rfl
  | cons y l ih =>
    simp only [List.foldl_cons, List.map_cons]
    rw [ih]; rfl

private theorem dual_sum (S : SR K) (l : List (K × K)) :
    (dualOf S).sum l = (S.sum (l.map Prod.fst), S.sum (l.map Prod.snd)) :=
  dual_foldl_add S l _

private theorem dual_foldl_mul_fst (S : SR K) (l : List (K × K)) (acc : K × K) :
    (l.foldl (dualOf S).mul acc).1 = (l.map Prod.fst).foldl S.mul acc.1 := by
  induction l generalizing acc with
  | nil => rfl
  | cons y l ih =>
    simp only [List.foldl_cons, List.map_cons]
    rw [ih]; rfl

private theorem dual_prod_fst (S : SR K) (l : List (K × K)) :
    ((dualOf S).prod l).1 = S.prod (l.map Prod.fst) :=
  dual_foldl_mul_fst S l _

/-- the product rule: the ε-part of a product is `Σ_i d_i · Π_{j ≠ i} w_j` -/
private theorem dual_prod_snd (S : SR K) (hS : C01.SRLaws S) (l : List (K × K)) :
    ((dualOf S).prod l).2 = bsum S (List.range l.length) (fun i =>
      S.mul (l[i]?.getD (S.zero, S.zero)).2 (S.prod ((l.eraseIdx i).map Prod.fst))) := by
  induction l with
  | nil => rfl
  | cons y l ih =>
    rw [prod_cons (dualOf_laws S hS)]
    show S.add (S.mul y.1 ((dualOf S).prod l).2) (S.mul y.2 ((dualOf S).prod l).1) = _
    rw [List.length_cons, List.range_succ_eq_map, bsum_cons hS, bsum_map]
    simp only [List.getElem?_cons_zero, Nat.succ_eq_add_one, List.getElem?_cons_succ, List.eraseIdx_cons_zero,
      List.eraseIdx_cons_succ, List.map_cons, Option.getD_some]
    rw [ih, dual_prod_fst, hS.add_comm, ← bsum_mul_left hS]
    congr 1
    apply bsum_congr
    intro i _
    rw [prod_cons hS, sr_mul_left_comm hS]

/-- the grammar with weights `w + ε·dw` (`dw` missing or too short = 0) -/
def tangentG (S : SR K) (G : Grammar K) (dw : List (List K)) : Grammar (K × K) :=
  { nls := G.nls, terms := G.terms, nts := G.nts, start := G.start, rules := G.rules,
    weights := G.weights.zipIdx.map (fun (w, i) => w.zipIdx.map (fun (c, j) => (c, (dw[i]?.getD [])[j]?.getD S.zero))) }

/-- the value `x + ε·dx` -/
def tangentV (S : SR K) (G : Grammar K) (x dx : Val K) : Val (K × K) :=
  (List.range G.nts.length).map (fun Y =>
    some ((cellsOf S G x Y).zipIdx.map (fun (c, j) => (c, (cellsOf S G dx Y)[j]?.getD S.zero))))

/-- the ε-part of label `l` at the index tuple `b` -/
def tanCell (S : SR K) (G : Grammar K) (dw : List (List K)) (dx : Val K) (l : Nat) (b : List Nat) : K :=
  if l < G.T then getT S (dw[l]?.getD []) (G.shapeOf (G.labelType l)) b
  else C01.valCell S G dx (l - G.T) b

/-- the entry `[a, b]` of the Jacobian block of `F[X]` with respect to label `l` -/
def jacCell (S : SR K) (G : Grammar K) (x : Val K) (X l : Nat) (a b : List Nat) : K :=
  match jacLabel S G x X l with
  | some t => getT S t (G.shapeOf (G.nts[X]?.getD []) ++ G.shapeOf (G.labelType l)) (a ++ b)
  | none => S.zero

/-- values whose tensors have the right number of cells -/
def ValShaped (G : Grammar K) (x : Val K) : Prop :=
  ∀ (X : Nat) (t : List K), x[X]?.join = some t → t.length = numel (G.shapeOf (G.nts[X]?.getD []))

/-! ### the tangent grammar and value -/

@[simp] private theorem tangentG_T (S : SR K) (G : Grammar K) (dw : List (List K)) :
    (tangentG S G dw).T = G.T := rfl
@[simp] private theorem tangentG_nts (S : SR K) (G : Grammar K) (dw : List (List K)) :
    (tangentG S G dw).nts = G.nts := rfl
@[simp] private theorem tangentG_labelType (S : SR K) (G : Grammar K) (dw : List (List K)) (l : Nat) :
    (tangentG S G dw).labelType l = G.labelType l := rfl
@[simp] private theorem tangentG_shapeOf (S : SR K) (G : Grammar K) (dw : List (List K)) (ty : List Nat) :
    (tangentG S G dw).shapeOf ty = G.shapeOf ty := rfl
@[simp] private theorem tangentG_rulesOf (S : SR K) (G : Grammar K) (dw : List (List K)) (X : Nat) :
    (tangentG S G dw).rulesOf X = G.rulesOf X := rfl

/-- reading a tensor of pairs `(t[j], u[j])` -/
private theorem getT_zipIdx (S : SR K) (t u : List K) (shape idx : List Nat) :
    getT (dualOf S) (t.zipIdx.map (fun (c, j) => (c, u[j]?.getD S.zero))) shape idx
      = (getT S t shape idx, if flat shape idx < t.length then getT S u shape idx else S.zero) := by
  unfold getT
  rw [List.getElem?_map, List.getElem?_zipIdx]
  by_cases h : flat shape idx < t.length
  · rw [List.getElem?_eq_getElem h]
    simp [h]
  · rw [List.getElem?_eq_none (by omega)]
    simp [h, dualOf]

private theorem tangentG_weights (S : SR K) (G : Grammar K) (dw : List (List K)) (l : Nat) :
    (tangentG S G dw).weights[l]?.getD []
      = (G.weights[l]?.getD []).zipIdx.map (fun (c, j) => (c, (dw[l]?.getD [])[j]?.getD S.zero)) := by
  show (G.weights.zipIdx.map _)[l]?.getD [] = _
  rw [List.getElem?_map, List.getElem?_zipIdx]
  cases G.weights[l]? with
  | none => rfl
  | some w => simp

private theorem getT_replicate (S : SR K) (n : Nat) (shape idx : List Nat) :
    getT S (List.replicate n S.zero) shape idx = S.zero := by
  unfold getT
  rw [List.getElem?_replicate]
  split <;> rfl

private theorem edgeWeight_eq_cellsOf (S : SR K) (G : Grammar K) (v : Val K) (l : Nat) (hl : ¬ l < G.T)
    (idx : List Nat) :
    edgeWeight S G v l idx = getT S (cellsOf S G v (l - G.T)) (G.shapeOf (G.labelType l)) idx := by
  unfold edgeWeight cellsOf
  simp only [hl, if_false]
  cases v[l - G.T]?.join with
  | none =>
    show S.zero = _
    rw [getT_replicate]
  | some t => rfl

private theorem valCell_eq_cellsOf (S : SR K) (G : Grammar K) (v : Val K) (Y : Nat) (idx : List Nat) :
    C01.valCell S G v Y idx = getT S (cellsOf S G v Y) (G.shapeOf (G.nts[Y]?.getD [])) idx := by
  unfold C01.valCell cellsOf
  cases v[Y]?.join with
  | none =>
    show S.zero = _
    rw [getT_replicate]
  | some t => rfl

private theorem cellsOf_length (S : SR K) (G : Grammar K) (v : Val K) (hv : ValShaped G v) (Y : Nat) :
    (cellsOf S G v Y).length = numel (G.shapeOf (G.nts[Y]?.getD [])) := by
  unfold cellsOf
  cases h : v[Y]?.join with
  | none => simp
  | some t => exact hv Y t h

/-- the dual weight of an edge is `(w, dw)` for a terminal, `(x, dx)` for a nonterminal -/
private theorem edgeWeight_tangent (S : SR K) (G : Grammar K)
    (hw : ∀ l, l < G.T → (G.weights[l]?.getD []).length = numel (G.shapeOf (G.labelType l)))
    (x dx : Val K) (hx : ValShaped G x) (dw : List (List K)) (l : Nat) (hl : l < G.T + G.nts.length)
    (idx : List Nat) (hidx : idx ∈ assigns (G.shapeOf (G.labelType l))) :
    edgeWeight (dualOf S) (tangentG S G dw) (tangentV S G x dx) l idx
      = (edgeWeight S G x l idx, tanCell S G dw dx l idx) := by
  have hlt := flat_lt (mem_assigns.1 hidx)
  by_cases h : l < G.T
  · unfold edgeWeight tanCell
    simp only [tangentG_T, tangentG_labelType, tangentG_shapeOf, h, if_true]
    rw [tangentG_weights, getT_zipIdx, hw l h, if_pos hlt]
  · have hY : l - G.T < G.nts.length := by omega
    have hty : G.labelType l = G.nts[l - G.T]?.getD [] := by
      unfold Grammar.labelType; rw [if_neg h]
    have hv : (tangentV S G x dx)[l - G.T]?.join
        = some ((cellsOf S G x (l - G.T)).zipIdx.map
            (fun (c, j) => (c, (cellsOf S G dx (l - G.T))[j]?.getD S.zero))) := by
      unfold tangentV
      rw [List.getElem?_map, List.getElem?_range hY]
      rfl
    rw [edgeWeight_eq_cellsOf S G x l h]
    unfold edgeWeight tanCell
    simp only [tangentG_T, tangentG_labelType, tangentG_shapeOf, h, if_false, hv]
    rw [getT_zipIdx, valCell_eq_cellsOf, ← hty, cellsOf_length S G x hx, ← hty, if_pos hlt]

/-- a rule's cell over the dual numbers: the rule's cell, and the product rule in the ε-part -/
private theorem ruleCell_dual (S : SR K) (hS : C01.SRLaws S) (G : Grammar K)
    (hw : ∀ l, l < G.T → (G.weights[l]?.getD []).length = numel (G.shapeOf (G.labelType l)))
    (x dx : Val K) (hx : ValShaped G x) (dw : List (List K)) (r : Rule) (hr : C01.RuleWF G r) (a : List Nat) :
    ruleCell (dualOf S) (tangentG S G dw) (tangentV S G x dx) r a
      = (ruleCell S G x r a,
         bsum S ((assigns (G.shapeOf r.nodes)).filter (fun ρ => r.ext.map (fun v => ρ[v]?.getD 0) == a)) (fun ρ =>
          bsum S (List.range r.edges.length) (fun i =>
            S.mul (tanCell S G dw dx (edgeAt r i).1 ((edgeAt r i).2.map (fun v => ρ[v]?.getD 0)))
              (S.prod ((r.edges.eraseIdx i).map
                (fun e => edgeWeight S G x e.1 (e.2.map (fun v => ρ[v]?.getD 0)))))))) := by
  have hedges : ∀ ρ ∈ (assigns (G.shapeOf r.nodes)).filter (fun ρ => r.ext.map (fun v => ρ[v]?.getD 0) == a),
      r.edges.map (fun e => edgeWeight (dualOf S) (tangentG S G dw) (tangentV S G x dx) e.1
          (e.2.map (fun v => ρ[v]?.getD 0)))
        = r.edges.map (fun e => (edgeWeight S G x e.1 (e.2.map (fun v => ρ[v]?.getD 0)),
            tanCell S G dw dx e.1 (e.2.map (fun v => ρ[v]?.getD 0)))) := by
    intro ρ hρ
    apply List.map_congr_left
    intro e he
    apply edgeWeight_tangent S G hw x dx hx dw e.1 (hr.labels e he)
    have := mem_assigns_idx G r.nodes ρ e.2 (List.mem_filter.1 hρ).1 (hr.att e he)
    rw [hr.typed e he] at this
    exact this
  unfold ruleCell
  simp only [tangentG_shapeOf]
  rw [dual_sum, List.map_map, List.map_map]
  congr 1
  · congr 1
    apply List.map_congr_left
    intro ρ hρ
    simp only [Function.comp_def]
    rw [hedges ρ hρ, dual_prod_fst, List.map_map]
    rfl
  · show _ = S.sum (List.map _ _)
    congr 1
    apply List.map_congr_left
    intro ρ hρ
    simp only [Function.comp_def]
    rw [hedges ρ hρ, dual_prod_snd S hS, List.length_map]
    apply bsum_congr
    intro i hi
    rw [List.getElem?_map, edges_getElem? r i (List.mem_range.1 hi), map_eraseIdx, List.map_map]
    rfl

private theorem jacCell_eq (S : SR K) (hS : C01.SRLaws S) (G : Grammar K) (hG : GrammarWF G) (x : Val K)
    (X l : Nat) (a b : List Nat) (ha : a ∈ assigns (G.shapeOf (G.nts[X]?.getD [])))
    (hb : b ∈ assigns (G.shapeOf (G.labelType l))) :
    jacCell S G x X l a b
      = bsum S (G.rulesOf X) (fun r => bsum S (List.range r.edges.length) (fun i =>
          if (edgeAt r i).1 == l then ruleCell S G x (dropEdge r i) (a ++ b) else S.zero)) := by
  rw [← jacLabel_cell hS G hG x X l a b ha hb]
  unfold jacCell optCell
  cases jacLabel S G x X l <;> rfl

/-- **`J` is the derivative of `F`** (value part and ε-part of `F` over the dual numbers) -/
theorem jac_is_derivative (S : SR K) (hS : C01.SRLaws S) (G : Grammar K) (hG : GrammarWF G)
    (hw : ∀ l, l < G.T → (G.weights[l]?.getD []).length = numel (G.shapeOf (G.labelType l)))
    (x dx : Val K) (hx : ValShaped G x) (hdx : ValShaped G dx) (dw : List (List K))
    (X : Nat) (hX : X < G.nts.length) (a : List Nat) (ha : a ∈ assigns (G.shapeOf (G.nts[X]?.getD []))) :
    let D := C01.valCell (dualOf S) (tangentG S G dw)
      (F (dualOf S) (tangentG S G dw) (tangentV S G x dx)) X a
    D.1 = C01.valCell S G (F S G x) X a ∧
    D.2 = S.sum ((List.range (G.T + G.nts.length)).map (fun l =>
            S.sum ((assigns (G.shapeOf (G.labelType l))).map (fun b =>
              S.mul (jacCell S G x X l a b) (tanCell S G dw dx l b))))) := by
  intro D
  have hS' := dualOf_laws S hS
  have hmem : ∀ r ∈ G.rulesOf X, r ∈ G.rules ∧ r.lhs = X := by
    intro r hr
    have := List.mem_filter.1 hr
    exact ⟨this.1, by simpa using this.2⟩
  have hshape : ∀ r ∈ G.rulesOf X,
      G.shapeOf (r.ext.map (fun v => r.nodes[v]?.getD 0)) = G.shapeOf (G.nts[X]?.getD []) := by
    intro r hr
    rw [hG.ext r (hmem r hr).1, (hmem r hr).2]
  have hal : ∀ r ∈ G.rulesOf X, a.length = r.ext.length := by
    intro r hr
    have h1 := mem_assigns_length ha
    have h2 := congrArg List.length (hshape r hr)
    simp only [Grammar.shapeOf, List.length_map] at h1 h2
    omega
  have hD : D = (dualOf S).sum ((G.rulesOf X).map (fun r =>
      ruleCell (dualOf S) (tangentG S G dw) (tangentV S G x dx) r a)) :=
    C01.F_cell (dualOf S) hS' (tangentG S G dw) _ X hX a ha hshape
  have hrc := fun r (hr : r ∈ G.rulesOf X) =>
    ruleCell_dual S hS G hw x dx hx dw r (hG.rule r (hmem r hr).1) a
  rw [hD, List.map_congr_left hrc, dual_sum, List.map_map, List.map_map]
  constructor
  · rw [C01.F_cell S hS G x X hX a ha hshape]
    rfl
  · show bsum S (G.rulesOf X) _ = bsum S (List.range (G.T + G.nts.length)) (fun l =>
      bsum S (assigns (G.shapeOf (G.labelType l))) (fun b =>
        S.mul (jacCell S G x X l a b) (tanCell S G dw dx l b)))
    simp only [Function.comp_def]
    rw [bsum_congr _ _ _ (fun r hr =>
      rule_regroup hS G x r (hG.rule r (hmem r hr).1) (tanCell S G dw dx) a (hal r hr)), bsum_comm hS]
    apply bsum_congr
    intro l _
    rw [bsum_comm hS]
    apply bsum_congr
    intro b hb
    rw [bsum_mul_right hS, jacCell_eq S hS G hG x X l a b ha hb]

/-- sanity check of the statement on a concrete grammar (Real semiring on naturals, `X → a X X | b`, point `x = 2`,
directions `dx = 5`, `da = 7`, `db = 11`): `F = a·x² + b`, `dF = 2·a·x·dx + x²·da + db` -/
example :
    let S : SR Nat := ⟨0, 1, (· + ·), (· * ·)⟩
    let G : Grammar Nat := ⟨[1], [[], []], [[]], 0,
      [⟨0, [], [], [(0, []), (2, []), (2, [])]⟩, ⟨0, [], [], [(1, [])]⟩], [[3], [4]]⟩
    let D := C01.valCell (dualOf S) (tangentG S G [[7], [11]]) (F (dualOf S) (tangentG S G [[7], [11]]) (tangentV S G [some [2]] [some [5]])) 0 []
    D = (3 * 2 * 2 + 4, 2 * 3 * 2 * 5 + 2 * 2 * 7 + 11) ∧
    jacCell S G [some [2]] 0 2 [] [] = 2 * 3 * 2 ∧ jacCell S G [some [2]] 0 0 [] [] = 2 * 2 ∧ jacCell S G [some [2]] 0 1 [] [] = 1 := by
  decide

end C03
