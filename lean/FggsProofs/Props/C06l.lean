/-
C06l — `dim_to_dense`, `__iter__` and `tolist` of a patterned tensor (model FggsModel/Iter.lean, `It.*`):
`dim_to_dense(dim)` returns a well-formed tensor of the same shape and the same dense tensor whose axis `dim` is the unit
axis or a physical axis used nowhere else; iterating yields, for j = 0 … size(0)-1, well-formed tensors that denote the
slices `dense[j]`; `tolist()` is the (flattened) dense tensor — which is what `weights_to_json` writes (C14).
-/
import FggsModel.Iter
import FggsProofs.Props.C06
import FggsProofs.Props.C06d
import FggsProofs.Props.C06g
import FggsProofs.C06dBaseLemmas
import FggsProofs.C06dSideLemmas
import FggsProofs.C06lBaseLemmas
import FggsProofs.C06lDenseLemmas
import FggsProofs.C06lIterLemmas
import Mathlib.Tactic.Linarith
import Mathlib.Data.List.Basic

set_option linter.unusedSimpArgs false
set_option linter.unusedVariables false

namespace C06l
open Fggs Fggs.Ax Fggs.Un Fggs.Sh Fggs.It

/-- the cell of the dense tensor at an index tuple -/
def cell (t : PT) (idx : List Nat) : Ext := t.dense[flat t.vshape idx]?.getD t.default

/-- axis `dim` is dense and independent of the other axes -/
def DenseAt (r : PT) (dim : Nat) : Prop :=
  ∃ e, r.vaxes[dim]? = some e ∧ (isUnit e = true ∨
    ∃ v n, e = Axis.phys v n ∧ ∀ j e', j ≠ dim → r.vaxes[j]? = some e' → ∀ q ∈ e'.fv, q.1 ≠ v)

/-- **dim_to_dense keeps the tensor and makes the axis dense** (`next` above every physical axis of the operand) -/
theorem dimToDense_dense (t : PT) (h : t.wf = true) (dim : Nat) (hd : dim < t.vaxes.length) (next : Nat)
    (hn : ∀ p ∈ t.paxes, p.1 < next) :
    ∃ r, dimToDense t dim next = some r ∧ r.wf = true ∧ r.vshape = t.vshape ∧ r.dense = t.dense ∧ DenseAt r dim ∧
      (∀ p ∈ r.paxes, p.1 < next + t.paxes.length + 1) := by
  obtain ⟨r, h1, h2, h3, h4, _, h6, h7⟩ :=
    C06lL.dimToDense_spec t ((C06dL.wf_iff_struct t).1 h) dim hd next hn
  exact ⟨r, h1, (C06dL.wf_iff_struct r).2 h2, h3, h4, h6, h7⟩

/-- **iteration yields the slices** -/
theorem iter_dense (t : PT) (h : t.wf = true) (hnd : 0 < t.vaxes.length) (next : Nat) (hn : ∀ p ∈ t.paxes, p.1 < next) :
    ∃ ts, iter t next = some ts ∧ ts.length = t.vshape.headD 0 ∧
      ∀ j s, ts[j]? = some s → s.wf = true ∧ s.vshape = t.vshape.tail ∧ (∀ p ∈ s.paxes, p.1 < next + t.paxes.length + 1) ∧
        ∀ rest ∈ assigns s.vshape, cell s rest = cell t (j :: rest) := by
  obtain ⟨ts, h1, h2, h3⟩ := C06lL.iter_spec t ((C06dL.wf_iff_struct t).1 h) hnd next hn
  refine ⟨ts, h1, h2, ?_⟩
  intro j s hjs
  obtain ⟨g1, g2, g3, g4⟩ := h3 j s hjs
  refine ⟨(C06dL.wf_iff_struct s).2 g1, g2, g3, ?_⟩
  intro rest hr
  have e := g4 rest hr
  have hlt : flat s.vshape rest < s.dense.length := by
    rw [C06dL.length_dense]; exact C06dL.flat_lt hr
  unfold cell
  rw [← e, List.getElem?_eq_getElem hlt]
  rfl

/-- **tolist is the dense tensor** (flattened, row-major) -/
theorem tolist_dense (fuel : Nat) (t : PT) (h : t.wf = true) (hf : t.vaxes.length < fuel) (next : Nat)
    (hn : ∀ p ∈ t.paxes, p.1 < next) :
    tolist fuel t next = some t.dense :=
  C06lL.tolist_spec fuel t ((C06dL.wf_iff_struct t).1 h) hf next hn

/-! ### non-vacuity: the diagonal pattern `[k, 1 + k + 0]` (a 2 × 3 tensor) -/

def exT : PT := { physical := [.fin 5, .fin 7], paxes := [(0, 2)], vaxes := [.phys 0 2, .sum 1 (.phys 0 2) 0], default := .fin 0 }

example : exT.wf = true := by decide
example : (iter exT 5).map (fun ts => ts.map (fun s => s.dense)) = some [[.fin 0, .fin 5, .fin 0], [.fin 0, .fin 0, .fin 7]] := by decide
example : tolist 8 exT 5 = some [.fin 0, .fin 5, .fin 0, .fin 0, .fin 0, .fin 7] := by decide

end C06l
