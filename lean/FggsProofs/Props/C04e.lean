/-
C04e — `PatternedTensor.masked_fill_into(dest, value)` (model `Mf.maskedFillInto`): the way `F_viterbi` records the
index of the best rule.  For a well-formed Boolean mask and a dense `dest` of the mask's virtual shape, the strided
in-place update the library performs — in both branches: default false (only covered cells are touched) and default
true (fill everything, then restore the covered cells whose physical mask is false) — computes exactly
`where(mask.to_dense(), value, dest)`: `Mf.spec`.
-/
import FggsProofs.Props.C06i
import FggsProofs.C04eLemmas
import FggsModel.MaskedFill

set_option linter.unusedSimpArgs false
set_option linter.unusedVariables false

namespace C04
open Fggs Fggs.Ax Fggs.Un Fggs.Sd Fggs.Mf

/-- the row-major position of the virtual cell a physical index tuple (with its flat position) is mapped to -/
private def cellAddr (t : PT) (p : List Nat × Nat) : Nat :=
  flat t.vshape (t.vaxes.map (Axis.eval (envOf t.paxes p.1)))

private theorem cellAddr_nodup (t : PT) (h : t.wf = true) :
    ((assigns (t.paxes.map (·.2))).zipIdx.map (cellAddr t)).Nodup := by
  have hsem := ((C06dL.wf_iff_struct t).1 h).sem
  have : (assigns (t.paxes.map (·.2))).zipIdx.map (cellAddr t) = (C06dL.keys t).map (flat t.vshape) := by
    rw [C06dL.keys_eq, List.map_map]
    have : cellAddr t = (flat t.vshape ∘ fun idx => t.vaxes.map (Axis.eval (envOf t.paxes idx))) ∘ Prod.fst := rfl
    rw [this, ← List.map_map, List.zipIdx_map_fst]
  rw [this]
  exact List.Nodup.map_on (fun x hx y hy e => C06dL.flat_inj (hsem.keys_range x hx) (hsem.keys_range y hy) e)
    hsem.keys_nodup

private theorem cellAddr_lt (t : PT) (h : t.wf = true) (p : List Nat × Nat)
    (hp : p.1 ∈ assigns (t.paxes.map (·.2))) : cellAddr t p < numel t.vshape := by
  have hsem := ((C06dL.wf_iff_struct t).1 h).sem
  exact C06dL.flat_lt (hsem.mem_assigns (C06dL.envOf_inRange' hsem hp))

/-- **masked_fill_into computes `where(mask, value, dest)`** -/
theorem maskedFillInto_spec (mask : PT) (h : mask.wf = true) (dest : List Ext) (hd : dest.length = Ax.numel mask.vshape)
    (value : Ext) :
    maskedFillInto mask dest value = some (spec mask dest value) := by
  have hmem : ∀ p ∈ (assigns (mask.paxes.map (·.2))).zipIdx, p.1 ∈ assigns (mask.paxes.map (·.2)) := by
    intro p hp
    obtain ⟨idx, k⟩ := p
    exact (List.mem_zipIdx_iff_getElem?.1 hp |> fun e => List.mem_of_getElem? (by simpa using e))
  have hn := cellAddr_nodup mask h
  have hlt : ∀ p ∈ (assigns (mask.paxes.map (·.2))).zipIdx, cellAddr mask p < dest.length := by
    intro p hp
    rw [hd]
    exact cellAddr_lt mask h p (hmem p hp)
  have hdense : mask.dense = ((assigns (mask.paxes.map (·.2))).zipIdx.foldl (fun (arr : Array Ext) p =>
      arr.setIfInBounds (cellAddr mask p) (mask.physical[p.2]?.getD mask.default))
      (Array.replicate dest.length mask.default)).toList := by
    unfold PT.dense
    rw [hd]
    rfl
  cases hw : projectOnto (contiguous mask.vshape) mask.paxes mask.vaxes [] with
  | none =>
    have := C06i.toDenseImpl_eq_dense mask h
    unfold toDenseImpl at this
    simp [hw] at this
  | some w =>
    have haddr : ∀ p ∈ (assigns (mask.paxes.map (·.2))).zipIdx, w.addr p.1 = cellAddr mask p := by
      intro p hp
      obtain ⟨w', hw', ha⟩ := C06i.toDense_view_addr mask h p.1 (hmem p hp)
      rw [hw] at hw'
      cases hw'
      exact ha
    unfold maskedFillInto spec
    simp only [hw]
    rw [hdense]
    by_cases htd : truthy mask.default = true
    · rw [if_pos htd]
      have e1 : (assigns (mask.paxes.map (·.2))).zipIdx.map (fun (p : List Nat × Nat) =>
            if truthy (mask.physical[p.2]?.getD mask.default) then value else dest[w.addr p.1]?.getD value)
          = (assigns (mask.paxes.map (·.2))).zipIdx.map (fun (p : List Nat × Nat) =>
            if truthy (mask.physical[p.2]?.getD mask.default) then value else dest[cellAddr mask p]?.getD value) :=
        List.map_congr_left (fun p hp => by rw [haddr p hp])
      rw [e1, C06iL.foldl_congr_mem _ (fun (arr : Array Ext) (q : (List Nat × Nat) × Ext) =>
        arr.setIfInBounds (cellAddr mask q.1) q.2) _ _ (fun arr q hq => by rw [haddr q.1 (List.of_mem_zip hq).1])]
      rw [C04eL.fill_true (cellAddr mask) (fun p => mask.physical[p.2]?.getD mask.default) _ hn dest value
        mask.default htd hlt]
    · rw [if_neg htd]
      rw [C06iL.foldl_congr_mem _ (fun (arr : Array Ext) (p : List Nat × Nat) =>
        if truthy (mask.physical[p.2]?.getD mask.default) then arr.setIfInBounds (cellAddr mask p) value else arr)
        _ _ (fun arr p hp => by rw [haddr p hp])]
      rw [C04eL.fill_false (cellAddr mask) (fun p => mask.physical[p.2]?.getD mask.default) _ hn dest value
        mask.default (by simpa using htd) hlt]

/-- cell by cell: the new `dest` holds `value` exactly where the dense mask is true, and is unchanged elsewhere -/
theorem maskedFillInto_cells (mask : PT) (h : mask.wf = true) (dest : List Ext) (hd : dest.length = Ax.numel mask.vshape)
    (value : Ext) (r : List Ext) (hr : maskedFillInto mask dest value = some r) (i : Nat) (hi : i < dest.length) :
    r[i]? = some (if truthy ((mask.dense)[i]?.getD mask.default) then value else dest[i]?.getD value) := by
  rw [maskedFillInto_spec mask h dest hd value] at hr
  cases hr
  have hdl : i < mask.dense.length := by rw [C06dL.length_dense, ← hd]; exact hi
  unfold spec
  rw [C04eL.where_get dest mask.dense value i dest[i] mask.dense[i] (List.getElem?_eq_getElem hi)
    (List.getElem?_eq_getElem hdl)]
  simp [hi, hdl]

example : maskedFillInto ⟨[.fin 1, .fin 0], [(0, 2)], [.phys 0 2, .phys 0 2], .fin 0⟩ [.fin 1, .fin 2, .fin 3, .fin 4] (.fin 9)
    = some [.fin 9, .fin 2, .fin 3, .fin 4] := by decide +kernel

example : maskedFillInto ⟨[.fin 1, .fin 0], [(0, 2)], [.phys 0 2, .phys 0 2], .fin 1⟩ [.fin 1, .fin 2, .fin 3, .fin 4] (.fin 9)
    = some [.fin 9, .fin 9, .fin 9, .fin 4] := by decide +kernel

end C04
