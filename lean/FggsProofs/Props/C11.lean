/-
C11 (and C01/C03 instantiation) — semiring homomorphisms commute with the sum-product, hence:
the Boolean result is the support of the Real result; the executable Real/Viterbi semirings on `Ext`
are, on their carriers, commutative semirings to which the general theorems (C01) apply; so are the
dual numbers used for derivatives (C03).
-/
import FggsModel.Sem
import FggsProofs.Props.C01
import FggsProofs.Props.C08
import Mathlib.Tactic.Linarith
import Mathlib.Data.List.Basic

set_option linter.unusedSimpArgs false
set_option linter.unusedVariables false

namespace C11
open Fggs Fggs.Sem

variable {K K' : Type}

/-- a semiring homomorphism between semiring records -/
structure Hom (S : SR K) (S' : SR K') (f : K → K') : Prop where
  zero : f S.zero = S'.zero
  one : f S.one = S'.one
  add : ∀ a b, f (S.add a b) = S'.add (f a) (f b)
  mul : ∀ a b, f (S.mul a b) = S'.mul (f a) (f b)

/-- change the weights of a grammar along `f` -/
def mapG (f : K → K') (G : Grammar K) : Grammar K' :=
  { nls := G.nls, terms := G.terms, nts := G.nts, start := G.start, rules := G.rules,
    weights := G.weights.map (fun w => w.map f) }

def mapVal (f : K → K') (v : Val K) : Val K' := v.map (fun t => t.map (fun l => l.map f))

/-! ### helpers -/

@[simp] private theorem mapG_T (f : K → K') (G : Grammar K) : (mapG f G).T = G.T := rfl
@[simp] private theorem mapG_nts (f : K → K') (G : Grammar K) : (mapG f G).nts = G.nts := rfl
@[simp] private theorem mapG_labelType (f : K → K') (G : Grammar K) (l : Nat) :
    (mapG f G).labelType l = G.labelType l := rfl
@[simp] private theorem mapG_shapeOf (f : K → K') (G : Grammar K) (ty : List Nat) :
    (mapG f G).shapeOf ty = G.shapeOf ty := rfl
@[simp] private theorem mapG_rulesOf (f : K → K') (G : Grammar K) (X : Nat) :
    (mapG f G).rulesOf X = G.rulesOf X := rfl
@[simp] private theorem mapG_weights (f : K → K') (G : Grammar K) :
    (mapG f G).weights = G.weights.map (fun w => w.map f) := rfl

section hom
variable {S : SR K} {S' : SR K'} {f : K → K'} (hf : Hom S S' f)
include hf

private theorem foldl_add_hom (l : List K) (a : K) :
    f (l.foldl S.add a) = (l.map f).foldl S'.add (f a) := by
  induction l generalizing a with
  | nil => rfl
  | cons b l ih => simp only [List.foldl_cons, List.map_cons]; rw [ih, hf.add]

private theorem foldl_mul_hom (l : List K) (a : K) :
    f (l.foldl S.mul a) = (l.map f).foldl S'.mul (f a) := by
  induction l generalizing a with
  | nil => rfl
  | cons b l ih => simp only [List.foldl_cons, List.map_cons]; rw [ih, hf.mul]

private theorem sum_hom (l : List K) : f (S.sum l) = S'.sum (l.map f) := by
  unfold SR.sum; rw [foldl_add_hom hf, hf.zero]

private theorem prod_hom (l : List K) : f (S.prod l) = S'.prod (l.map f) := by
  unfold SR.prod; rw [foldl_mul_hom hf, hf.one]

private theorem getT_hom (t : List K) (shape idx : List Nat) :
    getT S' (t.map f) shape idx = f (getT S t shape idx) := by
  unfold getT
  rw [List.getElem?_map]
  cases t[flat shape idx]? with
  | none => simp [hf.zero]
  | some a => rfl

private theorem edgeWeight_hom (G : Grammar K) (x : Val K) (l : Nat) (idx : List Nat) :
    edgeWeight S' (mapG f G) (mapVal f x) l idx = f (edgeWeight S G x l idx) := by
  unfold edgeWeight
  simp only [mapG_T, mapG_labelType, mapG_shapeOf, mapG_weights]
  by_cases h : l < G.T
  · simp only [h, if_true]
    rw [← getT_hom hf]
    congr 1
    rw [List.getElem?_map]
    cases G.weights[l]? <;> rfl
  · simp only [h, if_false]
    unfold mapVal
    rw [List.getElem?_map]
    cases hx : x[l - G.T]? with
    | none => simp [hf.zero]
    | some o =>
      cases o with
      | none => simp [hf.zero]
      | some t => simp [getT_hom hf]

private theorem ruleCell_hom (G : Grammar K) (x : Val K) (r : Rule) (a : List Nat) :
    ruleCell S' (mapG f G) (mapVal f x) r a = f (ruleCell S G x r a) := by
  unfold ruleCell
  rw [sum_hom hf, List.map_map]
  simp only [mapG_shapeOf]
  congr 1
  apply List.map_congr_left
  intro ρ _
  simp only [Function.comp_def]
  rw [prod_hom hf, List.map_map]
  congr 1
  apply List.map_congr_left
  intro e _
  simp only [Function.comp_def]
  exact edgeWeight_hom hf G x _ _

private theorem ruleValue_hom (G : Grammar K) (x : Val K) (r : Rule) :
    ruleValue S' (mapG f G) (mapVal f x) r = (ruleValue S G x r).map f := by
  unfold ruleValue
  rw [List.map_map]
  simp only [mapG_shapeOf]
  apply List.map_congr_left
  intro a _
  exact ruleCell_hom hf G x r a

private theorem addT_hom (a b : List K) : addT S' (a.map f) (b.map f) = (addT S a b).map f := by
  unfold addT
  rw [List.map_zipWith, List.zipWith_map]
  congr 1
  funext p q
  exact (hf.add p q).symm

private theorem foldl_addT_hom (G : Grammar K) (x : Val K) (rs : List Rule) (z : List K) :
    rs.foldl (fun acc r => addT S' acc (ruleValue S' (mapG f G) (mapVal f x) r)) (z.map f) =
      (rs.foldl (fun acc r => addT S acc (ruleValue S G x r)) z).map f := by
  induction rs generalizing z with
  | nil => rfl
  | cons r rs ih =>
    simp only [List.foldl_cons]
    rw [ruleValue_hom hf, addT_hom hf, ih]

end hom

/-- **a semiring homomorphism commutes with the equation system** … -/
theorem F_map_hom (S : SR K) (S' : SR K') (f : K → K') (hf : Hom S S' f) (G : Grammar K) (x : Val K) :
    F S' (mapG f G) (mapVal f x) = mapVal f (F S G x) := by
  unfold F
  simp only [mapG_nts, mapG_shapeOf, mapG_rulesOf]
  unfold mapVal
  rw [List.map_map]
  apply List.map_congr_left
  intro X _
  simp only [Function.comp_def, Option.map_some]
  congr 1
  rw [← foldl_addT_hom hf]
  congr 1
  rw [List.map_replicate, hf.zero]

/-- … **and hence with Kleene iteration**: the sum-product in the image semiring is the image of the sum-product -/
theorem kleene_map_hom (S : SR K) (S' : SR K') (f : K → K') (hf : Hom S S' f) (G : Grammar K) (n : Nat) :
    kleene S' (mapG f G) n = mapVal f (kleene S G n) := by
  induction n with
  | zero => simp [kleene, zeroVal, mapVal]
  | succ n ih => rw [kleene, kleene, ih, F_map_hom S S' f hf]

/-! ### the carriers -/

/-- the carrier of the Real semiring: `[0, ∞]` -/
abbrev RealK := { x : Ext // C08.RealC x }

def realK : SR RealK :=
  ⟨⟨Ext.fin 0, by simp [C08.RealC]⟩, ⟨Ext.fin 1, by simp [C08.RealC]⟩,
   fun a b => ⟨Impl.realAdd a.1 b.1, C08.real_add_closed _ _ a.2 b.2⟩,
   fun a b => ⟨Impl.realMul 0 a.1 b.1, C08.real_mul_closed 0 _ _ a.2 b.2⟩⟩

private theorem real_from0 : (Impl.real 0).fromInt 0 = Ext.fin 0 := by simp [Impl.real, Ext.ofNat]
private theorem real_from1 : (Impl.real 0).fromInt 1 = Ext.fin 1 := by simp [Impl.real, Ext.ofNat]

/-- the Real semiring as implemented is a commutative semiring on its carrier, so every C01 theorem applies to it -/
theorem realK_laws : C01.SRLaws realK := by
  constructor
  · intro a b c; exact Subtype.ext (C08.real_add_assoc _ _ _ a.2 b.2 c.2)
  · intro a b; exact Subtype.ext (C08.real_add_comm _ _)
  · intro a; apply Subtype.ext
    have := C08.real_zero_add 0 a.1 a.2
    rw [real_from0] at this; exact this
  · intro a b c; exact Subtype.ext (C08.real_mul_assoc 0 _ _ _ a.2 b.2 c.2)
  · intro a b; exact Subtype.ext (C08.real_mul_comm 0 _ _)
  · intro a; apply Subtype.ext
    have := C08.real_one_mul 0 a.1 a.2
    rw [real_from1] at this; exact this
  · intro a; apply Subtype.ext
    have := C08.real_zero_mul 0 a.1 a.2
    rw [real_from0] at this; exact this
  · intro a b c; exact Subtype.ext (C08.real_distrib 0 _ _ _ a.2 b.2 c.2)

/-- the executable semiring on `Ext` computes, on the carrier, exactly what the carrier semiring computes -/
theorem real_val_hom : Hom realK realSR (fun x => x.1) := by
  constructor <;> intros <;> rfl

private theorem fin_bne (a : Rat) : (Ext.fin a != Ext.fin 0) = decide (a ≠ 0) := by
  by_cases h : a = 0 <;> simp [h]

/-- the support map `x ↦ (x ≠ 0)` -/
def support (x : RealK) : Bool := x.1 != Ext.fin 0

/-- **the Boolean sum-product is the support of the Real sum-product**: `x ≠ 0` is a semiring homomorphism
`[0,∞] → Bool` (no zero divisors; a sum of non-negatives vanishes only if both terms do; 0·∞ = 0) -/
theorem support_hom : Hom realK boolSR support := by
  constructor
  · simp [support, realK, boolSR]
  · simp [support, realK, boolSR]
  · rintro ⟨x, hx⟩ ⟨y, hy⟩
    rcases C08.realC_cases hx with rfl | rfl | ⟨a, ha, rfl⟩ <;>
    rcases C08.realC_cases hy with rfl | rfl | ⟨b, hb, rfl⟩ <;>
    simp [support, realK, boolSR, Impl.realAdd, Ext.add, fin_bne, ne_of_gt, *]
    exact ne_of_gt (add_pos ha hb)
  · rintro ⟨x, hx⟩ ⟨y, hy⟩
    rcases C08.realC_cases hx with rfl | rfl | ⟨a, ha, rfl⟩ <;>
    rcases C08.realC_cases hy with rfl | rfl | ⟨b, hb, rfl⟩ <;>
    simp [support, realK, boolSR, Impl.realMul, Ext.mul, Ext.nanToNum, fin_bne, ne_of_gt, *]

theorem bool_is_support_of_real (G : Grammar RealK) (n : Nat) :
    kleene boolSR (mapG support G) n = mapVal support (kleene realK G n) :=
  kleene_map_hom realK boolSR support support_hom G n

/-- the carrier of the Viterbi/Log semirings `[-∞, ∞]` with (max, +) -/
abbrev VitK := { x : Ext // C08.VitC x }

def vitK : SR VitK :=
  ⟨⟨Ext.ninf, by simp [C08.VitC]⟩, ⟨Ext.fin 0, by simp [C08.VitC]⟩,
   fun a b => ⟨Impl.vitAdd a.1 b.1, C08.vit_add_closed _ _ a.2 b.2⟩,
   fun a b => ⟨Impl.vitMul a.1 b.1, C08.vit_mul_closed _ _ a.2 b.2⟩⟩

private theorem vit_from0 : Impl.viterbi.fromInt 0 = Ext.ninf := by simp [Impl.viterbi, Impl.vitFromInt]
private theorem vit_from1 : Impl.viterbi.fromInt 1 = Ext.fin 0 := by simp [Impl.viterbi, Impl.vitFromInt]

theorem vitK_laws : C01.SRLaws vitK := by
  constructor
  · intro a b c; exact Subtype.ext (C08.vit_add_assoc _ _ _)
  · intro a b; exact Subtype.ext (C08.vit_add_comm _ _)
  · intro a; apply Subtype.ext
    have := C08.vit_zero_add a.1 a.2
    rw [vit_from0] at this; exact this
  · intro a b c; exact Subtype.ext (C08.vit_mul_assoc _ _ _ a.2 b.2 c.2)
  · intro a b; exact Subtype.ext (C08.vit_mul_comm _ _)
  · intro a; apply Subtype.ext
    have := C08.vit_one_mul a.1 a.2
    rw [vit_from1] at this; exact this
  · intro a; apply Subtype.ext
    have := C08.vit_zero_mul a.1 a.2
    rw [vit_from0] at this; exact this
  · intro a b c; exact Subtype.ext (C08.vit_distrib _ _ _ a.2 b.2 c.2)

theorem vit_val_hom : Hom vitK vitSR (fun x => x.1) := by
  constructor <;> intros <;> rfl

/-- dual numbers over the Real carrier: `(a, a')` stands for `a + a' ε`, `ε² = 0` -/
def dualK : SR (RealK × RealK) :=
  ⟨(realK.zero, realK.zero), (realK.one, realK.zero),
   fun a b => (realK.add a.1 b.1, realK.add a.2 b.2),
   fun a b => (realK.mul a.1 b.1, realK.add (realK.mul a.1 b.2) (realK.mul a.2 b.1))⟩

section dual
variable {S : SR K} (hS : C01.SRLaws S)
include hS

private theorem add_zero' (a : K) : S.add a S.zero = a := by rw [hS.add_comm, hS.zero_add]
private theorem mul_zero' (a : K) : S.mul a S.zero = S.zero := by rw [hS.mul_comm, hS.zero_mul]
private theorem mul_one' (a : K) : S.mul a S.one = a := by rw [hS.mul_comm, hS.one_mul]
private theorem right_distrib' (a b c : K) : S.mul (S.add a b) c = S.add (S.mul a c) (S.mul b c) := by
  rw [hS.mul_comm, hS.left_distrib, hS.mul_comm c a, hS.mul_comm c b]
private theorem add4 (a b c d : K) :
    S.add (S.add a b) (S.add c d) = S.add (S.add a c) (S.add b d) := by
  rw [hS.add_assoc, hS.add_assoc, ← hS.add_assoc b c d, ← hS.add_assoc c b d, hS.add_comm b c]

/-- generic: dual numbers over any commutative semiring record are a commutative semiring record -/
private theorem dual_laws_gen :
    C01.SRLaws (⟨(S.zero, S.zero), (S.one, S.zero),
      fun a b => (S.add a.1 b.1, S.add a.2 b.2),
      fun a b => (S.mul a.1 b.1, S.add (S.mul a.1 b.2) (S.mul a.2 b.1))⟩ : SR (K × K)) := by
  constructor
  · rintro ⟨a, a'⟩ ⟨b, b'⟩ ⟨c, c'⟩
    simp only [hS.add_assoc]
  · rintro ⟨a, a'⟩ ⟨b, b'⟩
    simp only [hS.add_comm a b, hS.add_comm a' b']
  · rintro ⟨a, a'⟩
    simp only [hS.zero_add]
  · rintro ⟨a, a'⟩ ⟨b, b'⟩ ⟨c, c'⟩
    simp only [Prod.mk.injEq]
    refine ⟨hS.mul_assoc a b c, ?_⟩
    rw [right_distrib' hS, hS.left_distrib, hS.mul_assoc, hS.mul_assoc, hS.mul_assoc, hS.add_assoc]
  · rintro ⟨a, a'⟩ ⟨b, b'⟩
    simp only [Prod.mk.injEq]
    refine ⟨hS.mul_comm a b, ?_⟩
    rw [hS.add_comm, hS.mul_comm a' b, hS.mul_comm a b']
  · rintro ⟨a, a'⟩
    simp only [Prod.mk.injEq]
    refine ⟨hS.one_mul a, ?_⟩
    rw [hS.one_mul, hS.zero_mul, add_zero' hS]
  · rintro ⟨a, a'⟩
    simp only [Prod.mk.injEq]
    refine ⟨hS.zero_mul a, ?_⟩
    rw [hS.zero_mul, hS.zero_mul, hS.zero_add]
  · rintro ⟨a, a'⟩ ⟨b, b'⟩ ⟨c, c'⟩
    simp only [Prod.mk.injEq]
    refine ⟨hS.left_distrib a b c, ?_⟩
    rw [hS.left_distrib, hS.left_distrib, add4 hS]

end dual

/-- **the dual numbers form a commutative semiring**, so Kleene iteration over them is the sum over
derivations of dual weights; its ε-part is the derivative (product rule = the definition of `mul`) -/
theorem dualK_laws : C01.SRLaws dualK := dual_laws_gen realK_laws

/-- the value part of a dual computation is the ordinary computation -/
theorem dual_fst_hom : Hom dualK realK (fun x => x.1) := by
  constructor <;> intros <;> rfl

end C11
