/-
C19 (stage 2) — the Tarjan model `Impl.scc` itself satisfies the contract, for every digraph:
its output partitions the vertices into strongly connected sets with no edge into a later component.
-/
import FggsModel.Scc
import FggsProofs.Props.C19
import FggsProofs.C19bLemmas
import Mathlib.Tactic.Linarith
import Mathlib.Data.List.Basic
import Mathlib.Data.List.Nodup

set_option linter.unusedSimpArgs false
set_option linter.unusedVariables false

namespace C19
open Fggs Fggs.Scc

/-- an adjacency mapping as Python holds it: distinct keys, every successor is a key -/
structure GraphOK (g : Graph) : Prop where
  keys : (verts g).Nodup
  closed : ∀ v w, w ∈ succs g v → w ∈ verts g

/-- stage 1: the components returned by the Tarjan model partition the vertices -/
theorem scc_partition (g : Graph) (hg : GraphOK g) :
    (∀ v ∈ verts g, ∃ c ∈ Impl.scc g, v ∈ c) ∧ (∀ c ∈ Impl.scc g, ∀ v ∈ c, v ∈ verts g) ∧
    (Impl.scc g).flatten.Nodup := by
  obtain ⟨s, hs, hI, hst, hall⟩ := Tarjan.final_inv g hg.closed
  rw [hs]
  refine ⟨?_, ?_, hI.nd_comps⟩
  · intro v hv
    rcases (hI.idx_iff v).mp (hall v hv) with h | h
    · rw [hst] at h; simp at h
    · exact List.mem_flatten.mp h
  · intro c hc v hv
    exact hI.inverts v ((hI.idx_iff v).mpr (Or.inr (List.mem_flatten.mpr ⟨c, hc, hv⟩)))

/-- **the Tarjan model satisfies the whole contract** -/
theorem scc_ok (g : Graph) (hg : GraphOK g) : SccOk g (Impl.scc g) := by
  obtain ⟨hcover, honly, hnd⟩ := scc_partition g hg
  obtain ⟨s, hs, hI, hst, hall⟩ := Tarjan.final_inv g hg.closed
  rw [hs] at hcover honly hnd ⊢
  refine ⟨hcover, honly, Tarjan.flatten_nodup_disjoint _ hnd, hI.strong, ?_⟩
  intro i j hi hj hij u hu w hw hwj
  obtain ⟨k, hk, hki, hwk⟩ := hI.order i hi u hu w hw
  have := Tarjan.flatten_nodup_disjoint _ hnd j k hj hk w hwj hwk
  omega

end C19
