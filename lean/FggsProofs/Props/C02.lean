/-
C02 — Recursive FGGs: Kleene iteration, stability, least fixed point.
(`kleene_cell_eq_derivSum` in Props/C01.lean identifies `kleene n` with the sum over derivations of
depth ≤ n; here: what the model's exact fixed-point computation delivers.)
-/
import FggsModel.Sem
import FggsProofs.Props.C01

namespace C02
open Fggs Fggs.Sem

variable {K : Type}

theorem kleene_succ (S : SR K) (G : Grammar K) (n : Nat) :
    kleene S G (n + 1) = F S G (kleene S G n) := rfl

/-- once an iterate is a fixed point of F, Kleene iteration stays there: adding deeper derivations
changes nothing, so the iterate is the limit of the sums over derivations of bounded depth -/
theorem kleene_stable (S : SR K) (G : Grammar K) (n : Nat)
    (h : F S G (kleene S G n) = kleene S G n) : ∀ m, kleene S G (n + m) = kleene S G n := by
  intro m
  induction m with
  | zero => rfl
  | succ m ih =>
    have : n + (m + 1) = (n + m) + 1 := by omega
    rw [this, kleene_succ, ih, h]

/-- … and therefore equals, cell by cell, the sum over the derivations of ANY larger depth bound -/
theorem stable_eq_all_deeper_derivSums (S : SR K) (hS : C01.SRLaws S) (G : Grammar K)
    (hty : ∀ r ∈ G.rules, r.lhs < G.nts.length ∧
        G.shapeOf (r.ext.map (fun v => r.nodes[v]?.getD 0)) = G.shapeOf (G.nts[r.lhs]?.getD []) ∧
        ∀ e ∈ r.edges, e.1 < G.T + G.nts.length ∧
          (e.2.map (fun v => r.nodes[v]?.getD 0)) = G.labelType e.1 ∧ ∀ v ∈ e.2, v < r.nodes.length)
    (n : Nat) (h : F S G (kleene S G n) = kleene S G n) (m X : Nat) (hX : X < G.nts.length)
    (a : List Nat) (ha : a ∈ assigns (G.shapeOf (G.nts[X]?.getD []))) :
    C01.valCell S G (kleene S G n) X a = S.sum ((derivs G (n + m) X).map (fun d => derivCell S G (n + m) d a)) := by
  rw [← kleene_stable S G n h m]
  exact C01.kleene_cell_eq_derivSum S hS G hty (n + m) X hX a ha

end C02
