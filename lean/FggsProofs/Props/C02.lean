/-
C02 — placeholder (theorems follow)
-/
import FggsModel.Sem
