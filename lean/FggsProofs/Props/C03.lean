/-
C03 — placeholder (theorems follow)
-/
import FggsModel.Sem
