/-
C03 — gradients.  The derivative oracle of the harness evaluates the equation system over the dual
numbers K[ε]/(ε²).  Here: the dual numbers over the Real carrier are a commutative semiring
(`C11.dualK_laws`), so Kleene iteration over them is — cell by cell — the sum over all derivations of
the *dual* weights: its value part is the ordinary sum-product and its ε-part is the sum over
derivations of the derivative of the derivation's weight (product rule = definition of `dualK.mul`).
-/
import FggsModel.Sem
import FggsProofs.Props.C01
import FggsProofs.Props.C11

namespace C03
open Fggs Fggs.Sem

/-- Kleene iteration over dual numbers = sum over derivations of dual weights (all depths n) -/
theorem dual_kleene_eq_derivSum (G : Grammar (C11.RealK × C11.RealK))
    (hty : ∀ r ∈ G.rules, r.lhs < G.nts.length ∧
        G.shapeOf (r.ext.map (fun v => r.nodes[v]?.getD 0)) = G.shapeOf (G.nts[r.lhs]?.getD []) ∧
        ∀ e ∈ r.edges, e.1 < G.T + G.nts.length ∧
          (e.2.map (fun v => r.nodes[v]?.getD 0)) = G.labelType e.1 ∧ ∀ v ∈ e.2, v < r.nodes.length)
    (n X : Nat) (hX : X < G.nts.length) (a : List Nat) (ha : a ∈ assigns (G.shapeOf (G.nts[X]?.getD []))) :
    C01.valCell C11.dualK G (kleene C11.dualK G n) X a
      = C11.dualK.sum ((derivs G n X).map (fun d => derivCell C11.dualK G n d a)) :=
  C01.kleene_cell_eq_derivSum C11.dualK C11.dualK_laws G hty n X hX a ha

/-- the value part of the dual computation is the ordinary sum-product (so differentiating does not
disturb the value) -/
theorem dual_value_part (G : Grammar (C11.RealK × C11.RealK)) (n : Nat) :
    kleene C11.realK (C11.mapG (fun x => x.1) G) n = C11.mapVal (fun x => x.1) (kleene C11.dualK G n) :=
  C11.kleene_map_hom C11.dualK C11.realK (fun x => x.1) C11.dual_fst_hom G n

/-- product rule, as computed: `(a + a'ε)(b + b'ε) = ab + (ab' + a'b)ε` -/
theorem dual_mul_eps (a b : C11.RealK × C11.RealK) :
    (C11.dualK.mul a b).2 = C11.realK.add (C11.realK.mul a.1 b.2) (C11.realK.mul a.2 b.1) := rfl

end C03
