/-
C15 — Hyperedge replacement is typed, fresh and order-independent.
Theorems about `Fggs.G.replaceEdge` (FggsModel/Replace.lean), the model of fggs.derivations.replace_edge.
-/
import FggsModel.Replace
import FggsProofs.Props.C16
import Mathlib.Tactic.Linarith
import Mathlib.Data.List.Basic
import Mathlib.Data.List.Perm.Basic

set_option linter.unusedSimpArgs false
set_option linter.unusedVariables false

namespace C15
open Fggs Fggs.G

/-! ### helper lemmas (private) -/

theorem bind_ok {α β} {x : Except Err α} {f : α → Except Err β} {b : β}
    (h : (x >>= f) = .ok b) : ∃ a, x = .ok a ∧ f a = .ok b := by
  cases x with
  | error e => cases h
  | ok a => exact ⟨a, rfl, h⟩

private theorem anl_edges (g : Graph) (l : Nat) : (g.addNodeLabel l).edges = g.edges := by
  unfold Graph.addNodeLabel; split <;> rfl
private theorem anl_ext (g : Graph) (l : Nat) : (g.addNodeLabel l).ext = g.ext := by
  unfold Graph.addNodeLabel; split <;> rfl

theorem addMissing_cons (g : Graph) (n : Node) (rest : List Node) :
    Graph.addMissing g (n :: rest) =
      if (g.nodeById n.id).isSome then Graph.addMissing g rest
      else Graph.addMissing { (g.addNodeLabel n.label) with nodes := g.nodes ++ [n] } rest := rfl

private theorem am_edges (g : Graph) (ns : List Node) : (Graph.addMissing g ns).edges = g.edges := by
  induction ns generalizing g with
  | nil => rfl
  | cons n rest ih =>
    rw [addMissing_cons]; split
    · exact ih g
    · rw [ih]; simp [anl_edges]

private theorem am_ext (g : Graph) (ns : List Node) : (Graph.addMissing g ns).ext = g.ext := by
  induction ns generalizing g with
  | nil => rfl
  | cons n rest ih =>
    rw [addMissing_cons]; split
    · exact ih g
    · rw [ih]; simp [anl_ext]

/-- nodes that are all present already: nothing is added -/
theorem am_present (g : Graph) (ns : List Node) (h : ∀ n ∈ ns, n ∈ g.nodes) :
    Graph.addMissing g ns = g := by
  induction ns with
  | nil => rfl
  | cons n rest ih =>
    rw [addMissing_cons]
    have hn : n ∈ g.nodes := h n (by simp)
    have hs : (g.nodeById n.id).isSome = true := by
      simp only [Graph.nodeById, List.find?_isSome]
      exact ⟨n, hn, by simp⟩
    rw [if_pos hs]
    exact ih (fun x hx => h x (List.mem_cons_of_mem _ hx))

theorem removeEdge_ok {g g' : Graph} {e : Edge} (h : g.removeEdge e = .ok g') :
    g'.ext = g.ext ∧ g'.nodes = g.nodes ∧ g'.edges = g.edges.filter (·.id ≠ e.id) := by
  unfold Graph.removeEdge at h
  split at h
  · cases h
  · injection h with h; subst h; exact ⟨rfl, rfl, rfl⟩

private theorem addNode_ok {g g' : Graph} {n : Node} (h : g.addNode n = .ok g') :
    g'.ext = g.ext ∧ g'.nodes = g.nodes ++ [n] ∧ g'.edges = g.edges := by
  unfold Graph.addNode at h
  split at h
  · cases h
  · injection h with h; subst h; exact ⟨anl_ext _ _, rfl, anl_edges _ _⟩

private theorem addEdge_ok {g g' : Graph} {e : Edge} (h : g.addEdge e = .ok g') :
    g'.ext = g.ext ∧ g'.edges = g.edges ++ [e] ∧ g'.nodes = (Graph.addMissing g e.nodes).nodes := by
  unfold Graph.addEdge at h
  split at h
  · cases h
  split at h
  · cases h
  split at h
  · split at h
    · injection h with h; subst h; simp [am_edges, am_ext]
    · cases h
  · injection h with h; subst h; simp [am_edges, am_ext]

theorem mkEdge_ok {l : ELabel} {ns : List Node} {i : Id} {e : Edge} (h : mkEdge l ns i = .ok e) :
    e = ⟨l, ns, i⟩ ∧ l.type = ns.map (·.label) := by
  unfold mkEdge at h
  split at h
  · rename_i ht; injection h with h; exact ⟨h.symm, ht⟩
  · cases h

theorem mapM_ok {α β} (f : α → Except Err β) (q : α → Option β)
    (hf : ∀ a b, f a = .ok b → q a = some b) :
    ∀ (as : List α) (bs : List β), as.mapM f = .ok bs → as.map q = bs.map some := by
  intro as
  induction as with
  | nil =>
    intro bs h
    simp only [List.mapM_nil, pure, Except.pure] at h
    injection h with h; subst h; rfl
  | cons a as ih =>
    intro bs h
    rw [List.mapM_cons] at h
    obtain ⟨b, hb, h⟩ := bind_ok h
    obtain ⟨bs', hbs, h⟩ := bind_ok h
    simp only [pure, Except.pure] at h
    injection h with h; subst h
    simp [hf a b hb, ih bs' hbs]

/-! the node map -/

private theorem get_append_some (m : NodeMap) (p : Node × Node) (r x : Node) (h : m.get r = some x) :
    NodeMap.get (m ++ [p]) r = some x := by
  unfold NodeMap.get at h ⊢
  rw [List.find?_append]
  cases hf : m.find? (fun q => decide (q.1 = r)) with
  | none => simp [hf] at h
  | some q => simpa [hf] using h

private theorem get_append_inv (m : NodeMap) (r0 gn r x : Node)
    (h : NodeMap.get (m ++ [(r0, gn)]) r = some x) : m.get r = some x ∨ x = gn := by
  unfold NodeMap.get at h ⊢
  rw [List.find?_append] at h
  cases hf : m.find? (fun q => decide (q.1 = r)) with
  | none =>
    right
    simp only [hf, Option.none_or, List.find?_cons, List.find?_nil] at h
    split at h
    · simp at h; exact h.symm
    · simp at h
  | some q => left; simpa [hf] using h

private theorem set_get_self (m : NodeMap) (r g : Node) : (m.set r g).get r = some g := by
  unfold NodeMap.set NodeMap.get
  split
  · rename_i ha
    rw [List.find?_map]
    have hfun : ((fun q : Node × Node => decide (q.1 = r)) ∘ fun p => if p.1 = r then (r, g) else p)
        = fun q : Node × Node => decide (q.1 = r) := by
      funext p
      by_cases hp : p.1 = r <;> simp [hp]
    rw [hfun]
    obtain ⟨x, hx, hxr⟩ := List.any_eq_true.1 ha
    cases hf : m.find? (fun q => decide (q.1 = r)) with
    | none =>
      have := List.find?_eq_none.1 hf x hx
      exact absurd hxr this
    | some y =>
      have hy : y.1 = r := by simpa using List.find?_some hf
      simp [hy]
  · rename_i ha
    rw [List.find?_append]
    have hn : m.find? (fun q => decide (q.1 = r)) = none := by
      rw [List.find?_eq_none]
      intro x hx hxr
      exact ha (List.any_eq_true.2 ⟨x, hx, hxr⟩)
    simp [hn]

private theorem set_get_other (m : NodeMap) (r g r' : Node) (hne : r' ≠ r) :
    (m.set r g).get r' = m.get r' := by
  unfold NodeMap.set NodeMap.get
  split
  · rw [List.find?_map]
    have hfun : ((fun q : Node × Node => decide (q.1 = r')) ∘ fun p => if p.1 = r then (r, g) else p)
        = fun q : Node × Node => decide (q.1 = r') := by
      funext p
      by_cases hp : p.1 = r
      · have : ¬ p.1 = r' := fun h => hne (h.symm.trans hp)
        simp [hp, this, Ne.symm hne]
      · simp [hp]
    rw [hfun]
    cases hf : m.find? (fun q => decide (q.1 = r')) with
    | none => rfl
    | some y =>
      have hy : y.1 = r' := by simpa using List.find?_some hf
      have : ¬ y.1 = r := fun h => hne (hy.symm.trans h)
      simp [this]
  · rw [List.find?_append]
    have : ¬ r = r' := fun h => hne h.symm
    simp [this]

/-- the node map built from the attachment nodes and the external nodes -/
def initMap (gs rs : List Node) (m : NodeMap) : NodeMap :=
  (gs.zip rs).foldl (fun (m : NodeMap) (p : Node × Node) => m.set p.2 p.1) m

theorem initMap_cons (g r : Node) (gs rs : List Node) (m : NodeMap) :
    initMap (g :: gs) (r :: rs) m = initMap gs rs (m.set r g) := rfl

private theorem initMap_other (gs rs : List Node) (m : NodeMap) (r : Node) (h : r ∉ rs) :
    (initMap gs rs m).get r = m.get r := by
  induction gs generalizing rs m with
  | nil => simp [initMap]
  | cons g gs ih =>
    cases rs with
    | nil => simp [initMap]
    | cons r0 rs =>
      rw [initMap_cons, ih rs _ (fun hm => h (List.mem_cons_of_mem _ hm))]
      exact set_get_other m r0 g r (fun he => h (he ▸ List.mem_cons_self))

private theorem initMap_get (gs rs : List Node) (m : NodeMap) (hnd : rs.Nodup)
    (i : Nat) (hi : i < rs.length) (hi' : i < gs.length) :
    (initMap gs rs m).get rs[i] = some gs[i] := by
  induction gs generalizing rs m i with
  | nil => simp at hi'
  | cons g gs ih =>
    cases rs with
    | nil => simp at hi
    | cons r0 rs =>
      rw [initMap_cons]
      rw [List.nodup_cons] at hnd
      cases i with
      | zero =>
        simp only [List.getElem_cons_zero]
        rw [initMap_other gs rs _ r0 hnd.1]
        exact set_get_self m r0 g
      | succ i =>
        simp only [List.getElem_cons_succ]
        exact ih rs _ hnd.2 i (by simpa using hi) (by simpa using hi')

/-- every value of the initial node map is an attachment node -/
theorem initMap_values (gs rs : List Node) (m : NodeMap) (r x : Node)
    (h : (initMap gs rs m).get r = some x) : m.get r = some x ∨ x ∈ gs := by
  induction gs generalizing rs m with
  | nil => left; simpa [initMap] using h
  | cons g gs ih =>
    cases rs with
    | nil => left; simpa [initMap] using h
    | cons r0 rs =>
      rw [initMap_cons] at h
      rcases ih rs _ h with h1 | h1
      · by_cases hr : r = r0
        · subst hr
          rw [set_get_self] at h1
          injection h1 with h1
          right; rw [← h1]; exact List.mem_cons_self
        · rw [set_get_other m r0 g r hr] at h1
          exact Or.inl h1
      · exact Or.inr (List.mem_cons_of_mem _ h1)

/-! copying the nodes -/

theorem copyNodes_spec (ns : List Node) : ∀ (g : Graph) (m : NodeMap) (f : Nat)
    (g' : Graph) (m' : NodeMap) (f' : Nat), copyNodes g m f ns = .ok (g', m', f') →
    g'.ext = g.ext ∧ g'.edges = g.edges ∧
    (∃ new, g'.nodes = g.nodes ++ new ∧ (∀ n ∈ new, ∃ k, f ≤ k ∧ n.id = .impl k) ∧
      (∀ r x, m'.get r = some x → m.get r = some x ∨ x ∈ new)) ∧
    (graphInv g = true → graphInv g' = true) ∧
    (∀ r x, m.get r = some x → m'.get r = some x) := by
  induction ns with
  | nil =>
    intro g m f g' m' f' h
    simp only [copyNodes] at h
    injection h with h
    injection h with h1 h2
    injection h2 with h2 h3
    subst h1; subst h2
    exact ⟨rfl, rfl, ⟨[], by simp, by simp, fun r x hx => Or.inl hx⟩, id, fun r x hx => hx⟩
  | cons r0 rest ih =>
    intro g m f g' m' f' h
    simp only [copyNodes] at h
    split at h
    · exact ih g m f g' m' f' h
    · obtain ⟨g1, hg1, h⟩ := bind_ok h
      obtain ⟨e1, e2, ⟨new, e3, e4, e5⟩, e6, e7⟩ := ih _ _ _ _ _ _ h
      obtain ⟨a1, a2, a3⟩ := addNode_ok hg1
      refine ⟨e1.trans a1, e2.trans a3, ⟨⟨r0.label, .impl f⟩ :: new, ?_, ?_, ?_⟩, ?_, ?_⟩
      · rw [e3, a2]; simp
      · intro n hn
        rcases List.mem_cons.1 hn with rfl | hn
        · exact ⟨f, le_refl _, rfl⟩
        · obtain ⟨k, hk, hk'⟩ := e4 n hn
          exact ⟨k, by omega, hk'⟩
      · intro r x hx
        rcases e5 r x hx with h1 | h1
        · rcases get_append_inv m r0 _ r x h1 with h2 | h2
          · exact Or.inl h2
          · right; rw [h2]; exact List.mem_cons_self
        · exact Or.inr (List.mem_cons_of_mem _ h1)
      · intro hi
        exact e6 (C16.addNode_inv g g1 _ hi hg1)
      · intro r x hx
        exact e7 r x (get_append_some m _ r x hx)

/-! copying the edges -/

theorem copyEdges_spec (m : NodeMap) (es : List Edge) : ∀ (g : Graph) (em : List (Edge × Edge))
    (f : Nat) (g' : Graph) (em' : List (Edge × Edge)) (f' : Nat),
    copyEdges g m em f es = .ok (g', em', f') →
    g'.ext = g.ext ∧
    (∃ new : List (Edge × Edge), em' = em ++ new ∧ g'.edges = g.edges ++ new.map (·.2) ∧
      new.map (·.1) = es ∧
      ∀ p ∈ new, p.2.label = p.1.label ∧ p.1.nodes.map (fun n => m.get n) = p.2.nodes.map some) ∧
    (graphInv g = true → graphInv g' = true) ∧
    ((∀ r x, m.get r = some x → x ∈ g.nodes) → g'.nodes = g.nodes) := by
  induction es with
  | nil =>
    intro g em f g' em' f' h
    simp only [copyEdges] at h
    injection h with h
    injection h with h1 h2
    injection h2 with h2 h3
    subst h1; subst h2
    exact ⟨rfl, ⟨[], by simp, by simp, rfl, by simp⟩, id, fun _ => rfl⟩
  | cons r0 rest ih =>
    intro g em f g' em' f' h
    simp only [copyEdges] at h
    obtain ⟨gnodes, hgn, h⟩ := bind_ok h
    obtain ⟨ge, hge, h⟩ := bind_ok h
    obtain ⟨g1, hg1, h⟩ := bind_ok h
    have hmap : r0.nodes.map (fun n => m.get n) = gnodes.map some := by
      refine mapM_ok _ (fun n => m.get n) ?_ r0.nodes gnodes hgn
      intro a b hab
      split at hab
      · rename_i x hx; injection hab with hab; rw [hx, hab]
      · cases hab
    obtain ⟨hge1, hty⟩ := mkEdge_ok hge
    subst hge1
    obtain ⟨a1, a2, a3⟩ := addEdge_ok hg1
    obtain ⟨e1, ⟨new, e2, e3, e4, e5⟩, e6, e7⟩ := ih _ _ _ _ _ _ h
    refine ⟨e1.trans a1, ⟨(r0, ⟨r0.label, gnodes, .impl f⟩) :: new, ?_, ?_, ?_, ?_⟩, ?_, ?_⟩
    · rw [e2]; simp
    · rw [e3, a2]; simp
    · simp [e4]
    · intro p hp
      rcases List.mem_cons.1 hp with rfl | hp
      · exact ⟨rfl, hmap⟩
      · exact e5 p hp
    · intro hi
      exact e6 (C16.addEdge_inv g g1 _ hi hty hg1)
    · intro hm
      have hall : ∀ x ∈ gnodes, x ∈ g.nodes := by
        intro x hx
        have : some x ∈ gnodes.map some := List.mem_map_of_mem hx
        rw [← hmap] at this
        obtain ⟨n, _, hn⟩ := List.mem_map.1 this
        exact hm n x hn
      have hg1n : g1.nodes = g.nodes := by rw [a3, am_present g _ hall]
      rw [e7 (by rw [hg1n]; exact hm), hg1n]

/-! the call as a whole -/

theorem replaceEdge_ok {fresh : Nat} {g : Graph} {e : Edge} {repl : Graph} {r : ReplaceResult}
    (h : replaceEdge fresh g e repl = .ok r) :
    ∃ g0 g1 m1 f1 g2 em f2, e.label.type = repl.type ∧ g.removeEdge e = .ok g0 ∧
      copyNodes g0 (initMap e.nodes repl.ext []) fresh repl.nodes = .ok (g1, m1, f1) ∧
      copyEdges g1 m1 [] f1 repl.edges = .ok (g2, em, f2) ∧ r = ⟨g2, m1, em, f2⟩ := by
  unfold replaceEdge at h
  split at h
  · cases h
  · rename_i ht
    obtain ⟨g0, h0, h⟩ := bind_ok h
    obtain ⟨⟨g1, m1, f1⟩, h1, h⟩ := bind_ok h
    obtain ⟨⟨g2, em, f2⟩, h2, h⟩ := bind_ok h
    simp only [pure, Except.pure] at h
    injection h with h
    exact ⟨g0, g1, m1, f1, g2, em, f2, by simpa using ht, h0, h1, h2, h.symm⟩

/-! ### the property theorems -/

/-- a replacement of the wrong type is rejected with ValueError (and, the model being functional, the graph is untouched) -/
theorem replaceEdge_wrong_type (fresh : Nat) (g : Graph) (e : Edge) (repl : Graph)
    (h : e.label.type ≠ repl.type) : replaceEdge fresh g e repl = .error .valueError := by
  unfold replaceEdge
  rw [if_pos h]

/-- the host graph's external nodes are left untouched -/
theorem replaceEdge_ext (fresh : Nat) (g : Graph) (e : Edge) (repl : Graph) (r : ReplaceResult)
    (h : replaceEdge fresh g e repl = .ok r) : r.graph.ext = g.ext := by
  obtain ⟨g0, g1, m1, f1, g2, em, f2, _, h0, h1, h2, rfl⟩ := replaceEdge_ok h
  obtain ⟨a1, _, _⟩ := removeEdge_ok h0
  obtain ⟨b1, _⟩ := copyNodes_spec _ _ _ _ _ _ _ h1
  obtain ⟨c1, _⟩ := copyEdges_spec _ _ _ _ _ _ _ _ h2
  exact c1.trans (b1.trans a1)

/-- exactly the replaced edge is removed, every other edge stays in place (in order), and the copies of
the replacement's edges are appended in order: one per edge, same label, attachment nodes mapped through
the node map in order -/
theorem replaceEdge_edges (fresh : Nat) (g : Graph) (e : Edge) (repl : Graph) (r : ReplaceResult)
    (h : replaceEdge fresh g e repl = .ok r) :
    r.graph.edges = g.edges.filter (·.id ≠ e.id) ++ r.edgeMap.map (·.2) ∧
    r.edgeMap.map (·.1) = repl.edges ∧
    ∀ p ∈ r.edgeMap, p.2.label = p.1.label ∧ p.1.nodes.map (fun n => r.nodeMap.get n) = p.2.nodes.map some := by
  obtain ⟨g0, g1, m1, f1, g2, em, f2, _, h0, h1, h2, rfl⟩ := replaceEdge_ok h
  obtain ⟨_, _, a3⟩ := removeEdge_ok h0
  obtain ⟨_, b2, _⟩ := copyNodes_spec _ _ _ _ _ _ _ h1
  obtain ⟨_, ⟨new, c1, c2, c3, c4⟩, _⟩ := copyEdges_spec _ _ _ _ _ _ _ _ h2
  simp only [List.nil_append] at c1
  subst c1
  exact ⟨by rw [c2, b2, a3], c3, c4⟩

/- The original statement

    theorem replaceEdge_nodes_prefix (fresh : Nat) (g : Graph) (e : Edge) (repl : Graph) (r : ReplaceResult)
        (h : replaceEdge fresh g e repl = .ok r) : ∃ new, r.graph.nodes = g.nodes ++ new ∧
          ∀ n ∈ new, ∃ k, fresh ≤ k ∧ n.id = .impl k

is false of the model: `removeEdge` only looks at the *id* of `e`, so `e` may carry attachment nodes
that are not nodes of `g`; `add_edge` on a copied edge then inserts them (explicit ids and all).
Falsifying input (see `replaceEdge_nodes_prefix_counterexample`): host with node a = (0, e0) and edge
X(a) with id e5; `e` = X(b) with id e5 where b = (0, e1); replacement with node v, ext [v] and edge Y(v):
the result has nodes [a, b].  The statement holds when `e`'s attachment nodes are nodes of the host
(hypothesis `hatt`), which is the case whenever the host is well formed and `e` is one of its edges. -/

/-- pre-existing nodes are untouched and stay first; only nodes are appended — provided the
attachment nodes of `e` are nodes of the host -/
theorem replaceEdge_nodes_prefix_partial (fresh : Nat) (g : Graph) (e : Edge) (repl : Graph) (r : ReplaceResult)
    (hatt : ∀ n ∈ e.nodes, n ∈ g.nodes)
    (h : replaceEdge fresh g e repl = .ok r) : ∃ new, r.graph.nodes = g.nodes ++ new ∧
      ∀ n ∈ new, ∃ k, fresh ≤ k ∧ n.id = .impl k := by
  obtain ⟨g0, g1, m1, f1, g2, em, f2, _, h0, h1, h2, rfl⟩ := replaceEdge_ok h
  obtain ⟨_, a2, _⟩ := removeEdge_ok h0
  obtain ⟨_, _, ⟨new, b1, b2, b3⟩, _⟩ := copyNodes_spec _ _ _ _ _ _ _ h1
  obtain ⟨_, _, _, c4⟩ := copyEdges_spec _ _ _ _ _ _ _ _ h2
  refine ⟨new, ?_, b2⟩
  show g2.nodes = g.nodes ++ new
  rw [c4, b1, a2]
  intro r x hx
  rw [b1, a2]
  rcases b3 r x hx with h3 | h3
  · rcases initMap_values _ _ _ r x h3 with h4 | h4
    · simp [NodeMap.get] at h4
    · exact List.mem_append_left _ (hatt x h4)
  · exact List.mem_append_right _ h3

/-- the hypothesis `hatt` holds for an edge of a well-formed host -/
theorem replaceEdge_nodes_prefix_of_inv (fresh : Nat) (g : Graph) (e : Edge) (repl : Graph) (r : ReplaceResult)
    (hg : graphInv g = true) (he : e ∈ g.edges)
    (h : replaceEdge fresh g e repl = .ok r) : ∃ new, r.graph.nodes = g.nodes ++ new ∧
      ∀ n ∈ new, ∃ k, fresh ≤ k ∧ n.id = .impl k := by
  refine replaceEdge_nodes_prefix_partial fresh g e repl r ?_ h
  intro n hn
  simp only [graphInv, Bool.and_eq_true, List.all_eq_true, List.contains_iff_mem] at hg
  exact hg.1.1.1.1.1.1.1 e he n hn

/-- the unrestricted `replaceEdge_nodes_prefix` is false: an `e` that shares only its id with an edge
of the (well-formed) host smuggles in its own attachment node, which has an explicit id -/
theorem replaceEdge_nodes_prefix_counterexample :
    ∃ (g : Graph) (e : Edge) (repl : Graph) (r : ReplaceResult),
      graphInv g = true ∧ graphInv repl = true ∧ replaceEdge 1000 g e repl = .ok r ∧
      ¬ ∃ new, r.graph.nodes = g.nodes ++ new ∧ ∀ n ∈ new, ∃ k, 1000 ≤ k ∧ n.id = .impl k := by
  refine ⟨⟨[⟨0, .expl 0⟩], [⟨⟨0, [0], false⟩, [⟨0, .expl 0⟩], .expl 5⟩], [], [0], [⟨0, [0], false⟩]⟩,
    ⟨⟨0, [0], false⟩, [⟨0, .expl 1⟩], .expl 5⟩,
    ⟨[⟨0, .expl 9⟩], [⟨⟨1, [0], true⟩, [⟨0, .expl 9⟩], .expl 7⟩], [⟨0, .expl 9⟩], [0], [⟨1, [0], true⟩]⟩,
    ⟨⟨[⟨0, .expl 0⟩, ⟨0, .expl 1⟩], [⟨⟨1, [0], true⟩, [⟨0, .expl 1⟩], .impl 1000⟩], [], [0],
        [⟨0, [0], false⟩, ⟨1, [0], true⟩]⟩,
      [(⟨0, .expl 9⟩, ⟨0, .expl 1⟩)],
      [(⟨⟨1, [0], true⟩, [⟨0, .expl 9⟩], .expl 7⟩, ⟨⟨1, [0], true⟩, [⟨0, .expl 1⟩], .impl 1000⟩)], 1001⟩,
    by decide, by decide, by rfl, ?_⟩
  rintro ⟨new, h1, h2⟩
  have h1' : [(⟨0, .expl 0⟩ : Node), ⟨0, .expl 1⟩] = [⟨0, .expl 0⟩] ++ new := h1
  have hnew : new = [⟨0, .expl 1⟩] := by
    simp only [List.singleton_append, List.cons.injEq, true_and] at h1'
    exact h1'.symm
  subst hnew
  obtain ⟨k, _, hk⟩ := h2 _ List.mem_cons_self
  cases hk

/-- the replacement's external nodes are identified with the edge's attachment nodes in order —
when the replacement lists no external node twice -/
theorem replaceEdge_ext_identified (fresh : Nat) (g : Graph) (e : Edge) (repl : Graph) (r : ReplaceResult)
    (h : replaceEdge fresh g e repl = .ok r) (hnd : repl.ext.Nodup)
    (i : Nat) (hi : i < repl.ext.length) (hi' : i < e.nodes.length) :
    r.nodeMap.get repl.ext[i] = some e.nodes[i] := by
  obtain ⟨g0, g1, m1, f1, g2, em, f2, _, h0, h1, h2, rfl⟩ := replaceEdge_ok h
  obtain ⟨_, _, _, _, b5⟩ := copyNodes_spec _ _ _ _ _ _ _ h1
  exact b5 _ _ (initMap_get e.nodes repl.ext [] hnd i hi hi')

/-- D14 (known finding, open): with a repeated external node only the *last* attachment node is
identified; the full-strength clause (without `Nodup`) is false of the model, as of the code. -/
theorem replaceEdge_repeated_ext_counterexample :
    ∃ (g : Graph) (e : Edge) (repl : Graph) (r : ReplaceResult),
      replaceEdge 1000 g e repl = .ok r ∧ r.nodeMap.get repl.ext[0]! ≠ some e.nodes[0]! := by
  refine ⟨⟨[⟨0, .expl 0⟩, ⟨0, .expl 1⟩],
      [⟨⟨0, [0, 0], false⟩, [⟨0, .expl 0⟩, ⟨0, .expl 1⟩], .expl 5⟩], [], [0], [⟨0, [0, 0], false⟩]⟩,
    ⟨⟨0, [0, 0], false⟩, [⟨0, .expl 0⟩, ⟨0, .expl 1⟩], .expl 5⟩,
    ⟨[⟨0, .expl 9⟩], [], [⟨0, .expl 9⟩, ⟨0, .expl 9⟩], [0], []⟩,
    ⟨⟨[⟨0, .expl 0⟩, ⟨0, .expl 1⟩], [], [], [0], [⟨0, [0, 0], false⟩]⟩,
      [(⟨0, .expl 9⟩, ⟨0, .expl 1⟩)], [], 1000⟩,
    by rfl, by decide⟩

/-- well-formedness is preserved: if host and replacement are well formed and `fresh` lies above every
implicit id in the host, the result is well formed (uses the C16 invariant lemmas).  The freshness
hypotheses are not needed: a colliding id makes `add_node`/`add_edge` raise, so the call does not
succeed. -/
theorem replaceEdge_inv (fresh : Nat) (g : Graph) (e : Edge) (repl : Graph) (r : ReplaceResult)
    (hg : graphInv g = true)
    (hfresh : ∀ n ∈ g.nodes, ∀ k, n.id = .impl k → k < fresh)
    (hfresh' : ∀ x ∈ g.edges, ∀ k, x.id = .impl k → k < fresh)
    (h : replaceEdge fresh g e repl = .ok r) : graphInv r.graph = true := by
  obtain ⟨g0, g1, m1, f1, g2, em, f2, _, h0, h1, h2, rfl⟩ := replaceEdge_ok h
  obtain ⟨_, _, _, b4, _⟩ := copyNodes_spec _ _ _ _ _ _ _ h1
  obtain ⟨_, _, c3, _⟩ := copyEdges_spec _ _ _ _ _ _ _ _ h2
  exact c3 (b4 (C16.removeEdge_inv g g0 e hg h0))

end C15
