/-
C15 — placeholder (theorems follow)
-/
import FggsModel.Replace
