/-
C14 — placeholder (theorems follow)
-/
import FggsModel.Json
