/-
C14 — JSON serialisation round-trips grammars.
Theorems about `Fggs.J.toJson` / `Fggs.J.fromJson` (FggsModel/Json.lean), the rule-level model of
hrg_to_json / json_to_hrg.
-/
import FggsModel.Json
import Mathlib.Tactic.Linarith
import Mathlib.Data.List.Basic
import Mathlib.Data.List.Nodup
import Mathlib.Data.List.Forall2
import Mathlib.Data.List.Sort
import Mathlib.Data.String.Basic

set_option linter.unusedSimpArgs false
set_option linter.unusedVariables false

namespace C14
open Fggs Fggs.J

/-- a well-formed rule: attachment and external positions are node positions; ids (keys) are unique -/
structure Valid (r : Rule) : Prop where
  att : ∀ e ∈ r.edges, ∀ v ∈ e.att, v < r.nodes.length
  ext : ∀ v ∈ r.ext, v < r.nodes.length
  nodeKeys : (r.nodes.map (·.key)).Nodup
  edgeKeys : (r.edges.map (·.key)).Nodup

/-- the fresh-id supply of the reloading side gives pairwise distinct keys that are not explicit ids of the rule
(Python: `id(obj)` is unique among live objects and is an int, never equal to an explicit string id) -/
structure FreshOk (fresh : Nat → String) (r : Rule) : Prop where
  inj : ∀ i j, fresh i = fresh j → i = j
  notNode : ∀ i, ∀ n ∈ r.nodes, n.explicit = true → fresh i ≠ n.key
  notEdge : ∀ i, ∀ e ∈ r.edges, e.explicit = true → fresh i ≠ e.key


/-! ### helpers: `mapM` in `Option` -/

private theorem mapM_none_of_mem {α β} (f : α → Option β) (l : List α) (a : α) (ha : a ∈ l)
    (hf : f a = none) : l.mapM f = none := by
  induction l with
  | nil => cases ha
  | cons x xs ih =>
    rw [List.mapM_cons]
    rcases List.mem_cons.1 ha with rfl | h
    · simp [hf]
    · rw [ih h]; cases f x <;> simp

private theorem mapM_eq_some {α β} (f : α → Option β) (l : List α) (l' : List β)
    (h : l.mapM f = some l') : List.Forall₂ (fun a b => f a = some b) l l' := by
  induction l generalizing l' with
  | nil => simp at h; subst h; exact .nil
  | cons x xs ih =>
    rw [List.mapM_cons] at h
    cases hx : f x with
    | none => simp [hx] at h
    | some y =>
      cases hxs : xs.mapM f with
      | none => simp [hx, hxs] at h
      | some ys =>
        simp [hx, hxs] at h; subst h
        exact .cons hx (ih _ hxs)

private theorem index?_none (n : Nat) (vi : Int) (hbad : vi < 0 ∨ (n : Int) ≤ vi) :
    index? n vi = none := by
  unfold index?
  rw [if_neg]; omega

private theorem index?_cast (n v : Nat) (h : v < n) : index? n (v : Int) = some v := by
  unfold index?
  rw [if_pos (by omega)]; simp

private theorem index?_some (n : Nat) (vi : Int) (a : Nat) (h : index? n vi = some a) :
    (a : Int) = vi ∧ a < n := by
  unfold index? at h
  split at h
  · simp at h; omega
  · cases h

private theorem mapM_index_cast (n : Nat) (l : List Nat) (h : ∀ v ∈ l, v < n) :
    (List.map (fun (v : Nat) => (v : Int)) l).mapM (index? n) = some l := by
  induction l with
  | nil => rfl
  | cons x xs ih =>
    have h1 := index?_cast n x (h x (by simp))
    have h2 := ih (fun v hv => h v (by simp [hv]))
    rw [List.map_cons, List.mapM_cons, h1, h2]
    rfl

private theorem mem_zipIdx_of_mem {α} (l : List α) (a : α) (h : a ∈ l) : ∃ k, (a, k) ∈ l.zipIdx := by
  obtain ⟨k, hk, rfl⟩ := List.getElem_of_mem h
  exact ⟨k, by simp [List.mem_zipIdx_iff_getElem?]⟩

/-! ### helpers: the reader in closed form -/

private def mkNodes (fresh : Nat → String) (j : JRule) : List RNode :=
  (j.nodes.zipIdx).map (fun (n, k) =>
    match n.id with
    | some s => ⟨n.label, s, true⟩
    | none => ⟨n.label, fresh k, false⟩)

private def mkEdge (fresh : Nat → String) (n : Nat) : JEdge × Nat → Option REdge := fun (e, k) => do
    let att ← e.att.mapM (index? n)
    pure (match e.id with
      | some s => (⟨e.label, att, s, true⟩ : REdge)
      | none => ⟨e.label, att, fresh (n + k), false⟩)

private theorem mkNodes_length (fresh : Nat → String) (j : JRule) :
    (mkNodes fresh j).length = j.nodes.length := by
  simp [mkNodes]

private theorem fromJson_eq (fresh : Nat → String) (j : JRule) :
    fromJson fresh j = (do
      if !((mkNodes fresh j).map (·.key)).Nodup then none
      let edges ← (j.edges.zipIdx).mapM (mkEdge fresh (mkNodes fresh j).length)
      if !(edges.map (·.key)).Nodup then none
      let ext ← j.ext.mapM (index? (mkNodes fresh j).length)
      pure ⟨j.lhs, mkNodes fresh j, edges, ext⟩) := rfl

private theorem fromJson_some_iff (fresh : Nat → String) (j : JRule) (r' : Rule) :
    fromJson fresh j = some r' ↔
      ((mkNodes fresh j).map (·.key)).Nodup ∧
      ∃ edges, (j.edges.zipIdx).mapM (mkEdge fresh (mkNodes fresh j).length) = some edges ∧
        (edges.map (·.key)).Nodup ∧
        ∃ ext, j.ext.mapM (index? (mkNodes fresh j).length) = some ext ∧
          r' = ⟨j.lhs, mkNodes fresh j, edges, ext⟩ := by
  rw [fromJson_eq]
  by_cases hN : ((mkNodes fresh j).map (·.key)).Nodup
  · cases hE : (j.edges.zipIdx).mapM (mkEdge fresh (mkNodes fresh j).length) with
    | none => simp [hN]
    | some edges =>
      by_cases hEN : (edges.map (·.key)).Nodup
      · cases hX : j.ext.mapM (index? (mkNodes fresh j).length) with
        | none => simp [hN]
        | some ext => simp [hN, hEN]; exact eq_comm
      · simp [hN, hEN]
  · simp [hN]

private theorem mkEdge_att_none (fresh : Nat → String) (n : Nat) (e : JEdge) (k : Nat)
    (h : e.att.mapM (index? n) = none) : mkEdge fresh n (e, k) = none := by
  simp [mkEdge, h]

private theorem mkEdge_att_some (fresh : Nat → String) (n : Nat) (e : JEdge) (k : Nat) (att : List Nat)
    (h : e.att.mapM (index? n) = some att) :
    mkEdge fresh n (e, k) = some (match e.id with
      | some s => (⟨e.label, att, s, true⟩ : REdge)
      | none => ⟨e.label, att, fresh (n + k), false⟩) := by
  simp [mkEdge, h]

/-! ### helpers: the sort order -/

private theorem keyLe_iff (a b : String) : keyLe a b = true ↔ a ≤ b := by
  simp only [keyLe, Bool.not_eq_true', decide_eq_false_iff_not, not_lt]

private theorem sortedPositions_length (keys : List String) :
    (sortedPositions keys).length = keys.length := by
  simp [sortedPositions]

private theorem mem_sortedPositions (keys : List String) (p : Nat) :
    p ∈ sortedPositions keys ↔ p < keys.length := by
  simp [sortedPositions]

private theorem sortedPositions_nodup (keys : List String) : (sortedPositions keys).Nodup := by
  have h : (sortedPositions keys).Perm (List.range keys.length) := List.mergeSort_perm _ _
  exact h.nodup_iff.2 List.nodup_range

private theorem sortedPositions_pairwise (keys : List String) :
    (sortedPositions keys).Pairwise
      (fun i j => keyLe (keys[i]?.getD "") (keys[j]?.getD "") = true) := by
  unfold sortedPositions
  apply List.pairwise_mergeSort
  · intro a b c hab hbc
    rw [keyLe_iff] at *
    exact le_trans hab hbc
  · intro a b
    rw [Bool.or_eq_true, keyLe_iff, keyLe_iff]
    exact le_total _ _

private theorem sortedPositions_of_pairwise (keys : List String)
    (h : keys.Pairwise (fun a b => keyLe a b = true)) :
    sortedPositions keys = List.range keys.length := by
  unfold sortedPositions
  apply List.mergeSort_of_pairwise
  refine List.Pairwise.imp_of_mem ?_ List.pairwise_lt_range
  intro i j hi hj hij
  rw [List.mem_range] at hi hj
  rw [List.pairwise_iff_getElem] at h
  simpa [hi, hj] using h i j hi hj hij

private theorem rank_range (n v : Nat) (hv : v < n) : rank (List.range n) v = v := by
  unfold rank
  rw [List.findIdx_eq (by simpa using hv)]
  simp
  omega

private theorem map_range_getD {α β} (l : List α) (d : α) (f : α → β) :
    (List.range l.length).map (fun p => f (l[p]?.getD d)) = l.map f := by
  apply List.ext_getElem
  · simp
  · intro i h1 h2
    simp at h1 h2
    simp [h2]

private theorem nodup_fresh_keys {α} (items : List α) (d : α) (key : α → String) (expl : α → Bool)
    (ord : List Nat) (hnd : ord.Nodup) (hlt : ∀ p ∈ ord, p < items.length)
    (fresh : Nat → String) (off : Nat) (inj : ∀ i j, fresh i = fresh j → i = j)
    (notItem : ∀ i, ∀ a ∈ items, expl a = true → fresh i ≠ key a)
    (hk : (items.map key).Nodup) :
    ((ord.zipIdx).map (fun x => if expl (items[x.1]?.getD d) = true then key (items[x.1]?.getD d)
      else fresh (off + x.2))).Nodup := by
  have hz : ord.zipIdx.Nodup := by
    apply List.Nodup.of_map Prod.fst
    rw [List.zipIdx_map_fst]; exact hnd
  refine List.Nodup.map_on ?_ hz
  rintro ⟨p, k⟩ hx ⟨p', k'⟩ hy hxy
  rw [List.mem_zipIdx_iff_getElem?] at hx hy
  simp only at hx hy hxy
  have hp := hlt p (List.mem_of_getElem? hx)
  have hp' := hlt p' (List.mem_of_getElem? hy)
  have hkk : k = k' → (p, k) = (p', k') := by
    rintro rfl
    rw [hx] at hy
    simpa using hy
  have hpp : p = p' → (p, k) = (p', k') := by
    rintro rfl
    apply hkk
    have hk : k < ord.length := by
      by_contra hc
      rw [List.getElem?_eq_none (by omega)] at hx; cases hx
    exact (List.getElem?_inj hk hnd).1 (hx.trans hy.symm)
  rw [List.getElem?_eq_getElem hp, List.getElem?_eq_getElem hp'] at hxy
  simp only [Option.getD_some] at hxy
  by_cases h1 : expl items[p] = true <;> by_cases h2 : expl items[p'] = true
  · rw [if_pos h1, if_pos h2] at hxy
    apply hpp
    have := hk.getElem_inj_iff (i := p) (j := p') (hi := by simpa using hp) (hj := by simpa using hp')
    rw [List.getElem_map, List.getElem_map] at this
    exact this.1 hxy
  · rw [if_pos h1, if_neg h2] at hxy
    exact absurd hxy.symm (notItem _ _ (List.getElem_mem hp) h1)
  · rw [if_neg h1, if_pos h2] at hxy
    exact absurd hxy (notItem _ _ (List.getElem_mem hp') h2)
  · rw [if_neg h1, if_neg h2] at hxy
    apply hkk
    have := inj _ _ hxy
    omega

private theorem mapM_map_map_some {α β γ} (f : β → Option γ) (m : α → β) (g : α → γ) (l : List α)
    (h : ∀ a ∈ l, f (m a) = some (g a)) : (l.map m).mapM f = some (l.map g) := by
  induction l with
  | nil => rfl
  | cons x xs ih =>
    have h1 := h x (by simp)
    have h2 := ih (fun a ha => h a (by simp [ha]))
    rw [List.map_cons, List.mapM_cons, h1, h2]; rfl

/-! ### helpers: the writer followed by the reader, in closed form -/

private theorem toJson_nodes (r : Rule) : (toJson r).nodes =
    (sortedPositions (r.nodes.map (·.key))).map (fun p =>
      (⟨(r.nodes[p]?.getD default).label,
        if (r.nodes[p]?.getD default).explicit then some (r.nodes[p]?.getD default).key else none⟩ : JNode)) :=
  rfl

private theorem toJson_edges (r : Rule) : (toJson r).edges =
    (sortedPositions (r.edges.map (·.key))).map (fun p =>
      (⟨(r.edges[p]?.getD default).att.map
          (fun v => (rank (sortedPositions (r.nodes.map (·.key))) v : Int)),
        (r.edges[p]?.getD default).label,
        if (r.edges[p]?.getD default).explicit then some (r.edges[p]?.getD default).key else none⟩ : JEdge)) :=
  rfl

private theorem toJson_ext (r : Rule) : (toJson r).ext =
    r.ext.map (fun v => (rank (sortedPositions (r.nodes.map (·.key))) v : Int)) := rfl

private theorem toJson_nodes_length (r : Rule) : (toJson r).nodes.length = r.nodes.length := by
  simp [toJson_nodes, sortedPositions_length]

private def nodeOf (fresh : Nat → String) (r : Rule) (x : Nat × Nat) : RNode :=
  ⟨(r.nodes[x.1]?.getD default).label,
   if (r.nodes[x.1]?.getD default).explicit then (r.nodes[x.1]?.getD default).key else fresh x.2,
   (r.nodes[x.1]?.getD default).explicit⟩

private def edgeOf (fresh : Nat → String) (r : Rule) (x : Nat × Nat) : REdge :=
  ⟨(r.edges[x.1]?.getD default).label,
   (r.edges[x.1]?.getD default).att.map (rank (sortedPositions (r.nodes.map (·.key)))),
   if (r.edges[x.1]?.getD default).explicit then (r.edges[x.1]?.getD default).key
     else fresh (r.nodes.length + x.2),
   (r.edges[x.1]?.getD default).explicit⟩

private theorem mkNodes_toJson (fresh : Nat → String) (r : Rule) :
    mkNodes fresh (toJson r) =
      ((sortedPositions (r.nodes.map (·.key))).zipIdx).map (nodeOf fresh r) := by
  unfold mkNodes
  rw [toJson_nodes, List.zipIdx_map, List.map_map]
  apply List.map_congr_left
  rintro ⟨p, k⟩ _
  simp only [Function.comp, Prod.map, id, nodeOf]
  cases (r.nodes[p]?.getD default).explicit <;> simp

private theorem rank_lt (r : Rule) (v : Nat) (hv : v < r.nodes.length) :
    rank (sortedPositions (r.nodes.map (·.key))) v < r.nodes.length := by
  have hex : ∃ x ∈ sortedPositions (r.nodes.map (·.key)), (x == v) = true :=
    ⟨v, (mem_sortedPositions _ v).2 (by simpa using hv), by simp⟩
  have := List.findIdx_lt_length_of_exists hex
  rw [sortedPositions_length, List.length_map] at this
  exact this

private theorem mkEdges_toJson (fresh : Nat → String) (r : Rule) (hv : Valid r) :
    ((toJson r).edges.zipIdx).mapM (mkEdge fresh r.nodes.length) =
      some (((sortedPositions (r.edges.map (·.key))).zipIdx).map (edgeOf fresh r)) := by
  rw [toJson_edges, List.zipIdx_map]
  apply mapM_map_map_some
  rintro ⟨p, k⟩ hpk
  have hp : p < r.edges.length := by
    have := List.mem_of_getElem? (List.mem_zipIdx_iff_getElem?.1 hpk)
    simpa using (mem_sortedPositions _ p).1 this
  have he : r.edges[p] ∈ r.edges := List.getElem_mem hp
  have hatt : (List.map (fun v => (rank (sortedPositions (r.nodes.map (·.key))) v : Int))
        r.edges[p].att).mapM (index? r.nodes.length) =
      some (r.edges[p].att.map (rank (sortedPositions (r.nodes.map (·.key))))) := by
    have := mapM_index_cast r.nodes.length
      (r.edges[p].att.map (rank (sortedPositions (r.nodes.map (·.key))))) (by
        intro w hw
        obtain ⟨v, hv', rfl⟩ := List.mem_map.1 hw
        exact rank_lt r v (hv.att _ he v hv'))
    rw [List.map_map] at this
    exact this
  simp only [Prod.map, id, List.getElem?_eq_getElem hp, Option.getD_some, edgeOf]
  rw [mkEdge_att_some fresh _ _ _ _ hatt]
  cases r.edges[p].explicit <;> simp


/-! ### helpers: the reader followed by the writer on sorted, fully explicit JSON -/

private theorem mapM_index_some (n : Nat) (l : List Int) (att : List Nat)
    (h : l.mapM (index? n) = some att) :
    att.map (fun (v : Nat) => (v : Int)) = l ∧ ∀ a ∈ att, a < n := by
  have := mapM_eq_some _ _ _ h
  clear h
  induction this with
  | nil => simp
  | cons hab _ ih =>
    obtain ⟨h1, h2⟩ := index?_some _ _ _ hab
    simp [h1, h2, ih.1]
    exact ih.2

private theorem map_rank_range (n : Nat) (att : List Nat) (h : ∀ a ∈ att, a < n) :
    att.map (fun v => (rank (List.range n) v : Int)) = att.map (fun (v : Nat) => (v : Int)) := by
  apply List.map_congr_left
  intro a ha
  rw [rank_range n a (h a ha)]

private theorem edges_spec (fresh : Nat → String) (n : Nat) (l : List JEdge) (edges : List REdge)
    (heid : ∀ e ∈ l, ∃ s, e.id = some s)
    (hE : (l.zipIdx).mapM (mkEdge fresh n) = some edges) :
    edges.length = l.length ∧ ∀ i (h : i < l.length) (h' : i < edges.length),
      ∃ s att, l[i].id = some s ∧ edges[i] = ⟨l[i].label, att, s, true⟩ ∧
        att.map (fun (v : Nat) => (v : Int)) = l[i].att ∧ ∀ a ∈ att, a < n := by
  obtain ⟨hlen, hget⟩ := List.forall₂_iff_get.1 (mapM_eq_some _ _ _ hE)
  rw [List.length_zipIdx] at hlen
  refine ⟨hlen.symm, ?_⟩
  intro i h h'
  have hi := hget i (by simpa using h) h'
  simp only [List.get_eq_getElem, List.getElem_zipIdx, Nat.zero_add] at hi
  obtain ⟨s, hs⟩ := heid _ (List.getElem_mem h)
  cases hatt : l[i].att.mapM (index? n) with
  | none => rw [mkEdge_att_none fresh n _ _ hatt] at hi; cases hi
  | some att =>
    rw [mkEdge_att_some fresh n _ _ att hatt, hs] at hi
    obtain ⟨h1, h2⟩ := mapM_index_some n _ att hatt
    exact ⟨s, att, hs, (Option.some.inj hi).symm, h1, h2⟩

private theorem JRule_ext (a b : JRule) (h1 : a.lhs = b.lhs) (h2 : a.nodes = b.nodes)
    (h3 : a.edges = b.edges) (h4 : a.ext = b.ext) : a = b := by
  cases a; cases b; simp_all

private theorem toJson_fromJson_of_sorted (fresh : Nat → String) (j : JRule) (r' : Rule)
    (hnid : ∀ n ∈ j.nodes, ∃ s, n.id = some s) (heid : ∀ e ∈ j.edges, ∃ s, e.id = some s)
    (hns : (j.nodes.map (fun n => n.id.getD "")).Pairwise (fun a b => keyLe a b = true))
    (hes : (j.edges.map (fun e => e.id.getD "")).Pairwise (fun a b => keyLe a b = true))
    (h : fromJson fresh j = some r') : toJson r' = j := by
  obtain ⟨_, edges, hE, _, ext, hX, rfl⟩ := (fromJson_some_iff fresh j r').1 h
  have hnodes : mkNodes fresh j = j.nodes.map (fun n => (⟨n.label, n.id.getD "", true⟩ : RNode)) := by
    unfold mkNodes
    conv_rhs => rw [← List.zipIdx_map_fst 0 j.nodes, List.map_map]
    apply List.map_congr_left
    rintro ⟨n, k⟩ hnk
    obtain ⟨s, hs⟩ := hnid n (List.mem_of_getElem? (List.mem_zipIdx_iff_getElem?.1 hnk))
    simp [hs]
  have hNlen : (mkNodes fresh j).length = j.nodes.length := mkNodes_length fresh j
  obtain ⟨hElen, hEspec⟩ := edges_spec fresh _ j.edges edges heid hE
  obtain ⟨hX1, hX2⟩ := mapM_index_some _ _ _ hX
  have hordN : sortedPositions ((mkNodes fresh j).map (·.key)) = List.range (mkNodes fresh j).length := by
    have := sortedPositions_of_pairwise ((mkNodes fresh j).map (·.key)) (by
      rw [hnodes, List.map_map]; exact hns)
    simpa using this
  have hEkeys : edges.map (·.key) = j.edges.map (fun e => e.id.getD "") := by
    apply List.ext_getElem
    · simp [hElen]
    · intro i h1 h2
      simp at h1 h2
      obtain ⟨s, att, hs, he, _, _⟩ := hEspec i h2 h1
      simp [he, hs]
  have hordE : sortedPositions (edges.map (·.key)) = List.range edges.length := by
    have := sortedPositions_of_pairwise (edges.map (·.key)) (by rw [hEkeys]; exact hes)
    simpa using this
  apply JRule_ext
  · rfl
  · rw [toJson_nodes]
    simp only [hordN]
    rw [map_range_getD (mkNodes fresh j) default
      (fun nd => (⟨nd.label, if nd.explicit then some nd.key else none⟩ : JNode)), hnodes, List.map_map]
    conv_rhs => rw [← List.map_id j.nodes]
    apply List.map_congr_left
    intro n hn
    obtain ⟨s, hs⟩ := hnid n hn
    cases n
    simp_all
  · rw [toJson_edges]
    simp only [hordN, hordE]
    rw [map_range_getD edges default
      (fun e => (⟨e.att.map (fun v => (rank (List.range (mkNodes fresh j).length) v : Int)), e.label,
        if e.explicit then some e.key else none⟩ : JEdge))]
    apply List.ext_getElem
    · simp [hElen]
    · intro i h1 h2
      simp at h1
      obtain ⟨s, att, hs, he, ha1, ha2⟩ := hEspec i h2 h1
      rw [List.getElem_map, he]
      simp only [if_true]
      rw [map_rank_range _ att ha2, ha1, ← hs]
  · rw [toJson_ext]
    simp only [hordN]
    rw [map_rank_range _ ext hX2, hX1]

/-- the sort order is a permutation of the positions, and `rank` inverts it -/
theorem sortedPositions_perm (keys : List String) :
    (sortedPositions keys).Perm (List.range keys.length) :=
  List.mergeSort_perm _ _

theorem rank_sortedPositions (keys : List String) (v : Nat) (hv : v < keys.length) :
    rank (sortedPositions keys) v < keys.length ∧
    (sortedPositions keys)[rank (sortedPositions keys) v]? = some v := by
  have hex : ∃ x ∈ sortedPositions keys, (x == v) = true :=
    ⟨v, (mem_sortedPositions keys v).2 hv, by simp⟩
  have hlt : rank (sortedPositions keys) v < (sortedPositions keys).length :=
    List.findIdx_lt_length_of_exists hex
  refine ⟨by simpa [sortedPositions_length] using hlt, ?_⟩
  rw [List.getElem?_eq_getElem hlt]
  have := List.findIdx_getElem (p := (· == v)) (xs := sortedPositions keys) (w := hlt)
  exact congrArg some (beq_iff_eq.1 this)

/-- **round trip**: reading back what was written succeeds and yields the rule with its nodes and edges
listed in `str(id)` order — same lhs, node labels, explicit ids preserved, implicit ones fresh, every edge
with its label and its attachment nodes (in order) mapped through the permutation, externals likewise -/
theorem fromJson_toJson (fresh : Nat → String) (r : Rule) (hv : Valid r) (hf : FreshOk fresh r) :
    ∃ r', fromJson fresh (toJson r) = some r' ∧
      r'.lhs = r.lhs ∧
      r'.nodes.length = r.nodes.length ∧ r'.edges.length = r.edges.length ∧
      (∀ k (hk : k < r'.nodes.length), ∃ n ∈ r.nodes,
          r.nodes[(sortedPositions (r.nodes.map (·.key)))[k]?.getD 0]? = some n ∧
          r'.nodes[k].label = n.label ∧ r'.nodes[k].explicit = n.explicit ∧
          (n.explicit = true → r'.nodes[k].key = n.key)) ∧
      (∀ k (hk : k < r'.edges.length), ∃ e ∈ r.edges,
          r.edges[(sortedPositions (r.edges.map (·.key)))[k]?.getD 0]? = some e ∧
          r'.edges[k].label = e.label ∧ r'.edges[k].explicit = e.explicit ∧
          (e.explicit = true → r'.edges[k].key = e.key) ∧
          r'.edges[k].att = e.att.map (rank (sortedPositions (r.nodes.map (·.key))))) ∧
      r'.ext = r.ext.map (rank (sortedPositions (r.nodes.map (·.key)))) := by
  have hlen : (mkNodes fresh (toJson r)).length = r.nodes.length := by
    rw [mkNodes_length, toJson_nodes_length]
  refine ⟨⟨r.lhs, ((sortedPositions (r.nodes.map (·.key))).zipIdx).map (nodeOf fresh r),
      ((sortedPositions (r.edges.map (·.key))).zipIdx).map (edgeOf fresh r),
      r.ext.map (rank (sortedPositions (r.nodes.map (·.key))))⟩, ?_, rfl, ?_, ?_, ?_, ?_, rfl⟩
  · -- the reader succeeds
    rw [fromJson_some_iff]
    refine ⟨?_, ((sortedPositions (r.edges.map (·.key))).zipIdx).map (edgeOf fresh r), ?_, ?_,
      r.ext.map (rank (sortedPositions (r.nodes.map (·.key)))), ?_, ?_⟩
    · -- node ids are distinct
      have := nodup_fresh_keys r.nodes default (·.key) (·.explicit)
        (sortedPositions (r.nodes.map (·.key))) (sortedPositions_nodup _)
        (fun p hp => by simpa using (mem_sortedPositions _ p).1 hp)
        fresh 0 hf.inj hf.notNode hv.nodeKeys
      rw [mkNodes_toJson, List.map_map]
      have e : List.map ((fun x => x.key) ∘ nodeOf fresh r)
            (sortedPositions (r.nodes.map (·.key))).zipIdx =
          List.map (fun x => if (r.nodes[x.1]?.getD default).explicit = true
              then (r.nodes[x.1]?.getD default).key else fresh (0 + x.2))
            (sortedPositions (r.nodes.map (·.key))).zipIdx :=
        List.map_congr_left (by rintro ⟨p, k⟩ _; simp [nodeOf])
      rw [e]; exact this
    · rw [hlen]; exact mkEdges_toJson fresh r hv
    · -- edge ids are distinct
      have := nodup_fresh_keys r.edges default (·.key) (·.explicit)
        (sortedPositions (r.edges.map (·.key))) (sortedPositions_nodup _)
        (fun p hp => by simpa using (mem_sortedPositions _ p).1 hp)
        fresh r.nodes.length hf.inj hf.notEdge hv.edgeKeys
      rw [List.map_map]
      have e : List.map ((fun x => x.key) ∘ edgeOf fresh r)
            (sortedPositions (r.edges.map (·.key))).zipIdx =
          List.map (fun x => if (r.edges[x.1]?.getD default).explicit = true
              then (r.edges[x.1]?.getD default).key else fresh (r.nodes.length + x.2))
            (sortedPositions (r.edges.map (·.key))).zipIdx :=
        List.map_congr_left (by rintro ⟨p, k⟩ _; simp [edgeOf])
      rw [e]; exact this
    · rw [hlen, toJson_ext]
      have := mapM_index_cast r.nodes.length
        (r.ext.map (rank (sortedPositions (r.nodes.map (·.key))))) (by
          intro w hw
          obtain ⟨v, hv', rfl⟩ := List.mem_map.1 hw
          exact rank_lt r v (hv.ext v hv'))
      rw [List.map_map] at this
      exact this
    · rw [mkNodes_toJson]; rfl
  · simp [sortedPositions_length]
  · simp [sortedPositions_length]
  · intro k hk
    have hk' : k < (sortedPositions (r.nodes.map (·.key))).length := by simpa using hk
    have hp : (sortedPositions (r.nodes.map (·.key)))[k] < r.nodes.length := by
      simpa using (mem_sortedPositions _ _).1 (List.getElem_mem hk')
    refine ⟨r.nodes[(sortedPositions (r.nodes.map (·.key)))[k]], List.getElem_mem hp, ?_, ?_⟩
    · simp [List.getElem?_eq_getElem hk', List.getElem?_eq_getElem hp]
    · simp only [List.getElem_map, List.getElem_zipIdx, nodeOf, List.getElem?_eq_getElem hp,
        Option.getD_some, true_and]
      intro h; simp [h]
  · intro k hk
    have hk' : k < (sortedPositions (r.edges.map (·.key))).length := by simpa using hk
    have hp : (sortedPositions (r.edges.map (·.key)))[k] < r.edges.length := by
      simpa using (mem_sortedPositions _ _).1 (List.getElem_mem hk')
    refine ⟨r.edges[(sortedPositions (r.edges.map (·.key)))[k]], List.getElem_mem hp, ?_, ?_⟩
    · simp [List.getElem?_eq_getElem hk', List.getElem?_eq_getElem hp]
    · simp only [List.getElem_map, List.getElem_zipIdx, edgeOf, List.getElem?_eq_getElem hp,
        Option.getD_some, true_and, and_true]
      intro h; simp [h]

/-- **idempotence**: when every id is explicit, a second round trip reproduces the JSON verbatim -/
theorem toJson_fromJson_toJson (fresh : Nat → String) (r : Rule) (hv : Valid r)
    (hn : ∀ n ∈ r.nodes, n.explicit = true) (he : ∀ e ∈ r.edges, e.explicit = true)
    (r' : Rule) (h : fromJson fresh (toJson r) = some r') : toJson r' = toJson r := by
  have hnp : ∀ p ∈ sortedPositions (r.nodes.map (·.key)), ∃ hp : p < r.nodes.length,
      r.nodes[p]?.getD default = r.nodes[p] ∧ r.nodes[p].explicit = true := by
    intro p hp
    have hp' : p < r.nodes.length := by simpa using (mem_sortedPositions _ p).1 hp
    exact ⟨hp', by simp [hp'], hn _ (List.getElem_mem hp')⟩
  have hep : ∀ p ∈ sortedPositions (r.edges.map (·.key)), ∃ hp : p < r.edges.length,
      r.edges[p]?.getD default = r.edges[p] ∧ r.edges[p].explicit = true := by
    intro p hp
    have hp' : p < r.edges.length := by simpa using (mem_sortedPositions _ p).1 hp
    exact ⟨hp', by simp [hp'], he _ (List.getElem_mem hp')⟩
  apply toJson_fromJson_of_sorted fresh (toJson r) r' ?_ ?_ ?_ ?_ h
  · intro n hn'
    rw [toJson_nodes] at hn'
    obtain ⟨p, hp, rfl⟩ := List.mem_map.1 hn'
    obtain ⟨hp', h1, h2⟩ := hnp p hp
    exact ⟨r.nodes[p].key, by simp [h1, h2]⟩
  · intro e he'
    rw [toJson_edges] at he'
    obtain ⟨p, hp, rfl⟩ := List.mem_map.1 he'
    obtain ⟨hp', h1, h2⟩ := hep p hp
    exact ⟨r.edges[p].key, by simp [h1, h2]⟩
  · have e : (toJson r).nodes.map (fun n => n.id.getD "") =
        (sortedPositions (r.nodes.map (·.key))).map
          (fun p => (r.nodes.map (·.key))[p]?.getD "") := by
      rw [toJson_nodes, List.map_map]
      apply List.map_congr_left
      intro p hp
      obtain ⟨hp', h1, h2⟩ := hnp p hp
      simp [h1, h2, hp']
    rw [e, List.pairwise_map]
    exact sortedPositions_pairwise _
  · have e : (toJson r).edges.map (fun n => n.id.getD "") =
        (sortedPositions (r.edges.map (·.key))).map
          (fun p => (r.edges.map (·.key))[p]?.getD "") := by
      rw [toJson_edges, List.map_map]
      apply List.map_congr_left
      intro p hp
      obtain ⟨hp', h1, h2⟩ := hep p hp
      simp [h1, h2, hp']
    rw [e, List.pairwise_map]
    exact sortedPositions_pairwise _

/-- **rejection**: an attachment number that is negative or not below the number of nodes is a ValueError -/
theorem fromJson_rejects_attachment (fresh : Nat → String) (j : JRule) (e : JEdge) (he : e ∈ j.edges)
    (vi : Int) (hvi : vi ∈ e.att) (hbad : vi < 0 ∨ (j.nodes.length : Int) ≤ vi) :
    fromJson fresh j = none := by
  cases h : fromJson fresh j with
  | none => rfl
  | some r' =>
    exfalso
    obtain ⟨_, edges, hE, _⟩ := (fromJson_some_iff fresh j r').1 h
    obtain ⟨k, hk⟩ := mem_zipIdx_of_mem j.edges e he
    rw [mkNodes_length] at hE
    have hatt : e.att.mapM (index? j.nodes.length) = none :=
      mapM_none_of_mem _ _ vi hvi (index?_none _ _ hbad)
    rw [mapM_none_of_mem _ _ (e, k) hk (mkEdge_att_none fresh _ e k hatt)] at hE
    cases hE

/-- … and so is such an external node number -/
theorem fromJson_rejects_external (fresh : Nat → String) (j : JRule)
    (vi : Int) (hvi : vi ∈ j.ext) (hbad : vi < 0 ∨ (j.nodes.length : Int) ≤ vi) :
    fromJson fresh j = none := by
  cases h : fromJson fresh j with
  | none => rfl
  | some r' =>
    exfalso
    obtain ⟨_, edges, _, _, ext, hX, _⟩ := (fromJson_some_iff fresh j r').1 h
    rw [mkNodes_length, mapM_none_of_mem _ _ vi hvi (index?_none _ _ hbad)] at hX
    cases hX

/-- non-vacuity: a concrete rule with mixed ids whose string order differs from numeric order -/
example : toJson ⟨"X", [⟨"A", "10", true⟩, ⟨"B", "9", true⟩, ⟨"A", "140001", false⟩],
                  [⟨"t", [0, 2], "e", true⟩], [1]⟩
    = ⟨"X", [⟨"A", some "10"⟩, ⟨"A", none⟩, ⟨"B", some "9"⟩], [⟨[0, 1], "t", some "e"⟩], [2]⟩ := by
  simp [toJson, rank, sortedPositions, List.mergeSort, List.range, List.range.loop,
    List.MergeSort.Internal.splitInTwo, keyLe, List.findIdx_cons, -String.lt_iff_ltb]

end C14
