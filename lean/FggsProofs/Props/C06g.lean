/-
C06g — `__getitem__` (via `Axis.index`), `permute`, `transpose`, `T`, `flatten`, `unsqueeze` of a patterned tensor
(model FggsModel/ShapeOps.lean, `Sh.*`) denote torch's operations on the dense tensor: the result is well formed, has
the shape torch gives, and every cell of its dense tensor is the corresponding cell of the operand's dense tensor.
-/
import FggsModel.ShapeOps
import FggsProofs.Props.C06
import FggsProofs.Props.C06d
import FggsProofs.C06dBaseLemmas
import FggsProofs.C06dSideLemmas
import FggsProofs.C06gShapeLemmas
import FggsProofs.C06gIndexLemmas
import FggsProofs.C06gGetitemLemmas
import Mathlib.Tactic.Linarith
import Mathlib.Data.List.Basic

set_option linter.unusedSimpArgs false
set_option linter.unusedVariables false

namespace C06g
open Fggs Fggs.Ax Fggs.Un Fggs.Sh C06dL C06gL

/-- the cell of the dense tensor at an index tuple -/
def cell (t : PT) (idx : List Nat) : Ext := t.dense[flat t.vshape idx]?.getD t.default

/-- the statement of `getitem_dense` as originally given (no bound on the nesting depth of the virtual axes); it is kept
for the record: `clone σ FUEL` resolves only axes nested less deeply than `FUEL` = 4000, so for an operand with a
virtual axis nested 4000 deep the model's result would keep a fixed physical axis in its pattern -/
def getitem_dense_statement : Prop :=
  ∀ (t : PT) (h : t.wf = true) (vis : List Nat) (next : Nat)
    (hl : vis.length ≤ t.vaxes.length) (hr : ∀ i, i < vis.length → vis[i]?.getD 0 < t.vshape[i]?.getD 0),
    ∃ r, getitem t vis next = some r ∧ r.wf = true ∧ r.vshape = t.vshape.drop vis.length ∧
      ∀ rest ∈ assigns r.vshape, cell r rest = cell t (vis ++ rest)

/-- **indexing**: `t[vis]` for an in-range prefix `vis` of an index denotes the sub-tensor of the dense tensor.
CORRECTED STATEMENT: extra hypothesis `hd` — the virtual axes of the operand are nested less deeply than the fuel of
`clone` (`C06gL.depth`: a physical axis has depth 0, a product or sum one more than its deepest component). -/
theorem getitem_dense (t : PT) (h : t.wf = true) (vis : List Nat) (next : Nat)
    (hl : vis.length ≤ t.vaxes.length) (hr : ∀ i, i < vis.length → vis[i]?.getD 0 < t.vshape[i]?.getD 0)
    (hd : ∀ e ∈ t.vaxes, depth e < FUEL) :
    ∃ r, getitem t vis next = some r ∧ r.wf = true ∧ r.vshape = t.vshape.drop vis.length ∧
      ∀ rest ∈ assigns r.vshape, cell r rest = cell t (vis ++ rest) := by
  have hS := (wf_iff_struct t).1 h
  obtain ⟨⟨b, pi⟩, hidx⟩ := indexAll_some _ [] (inRange_zip t vis hl hr)
  have hv := inRange_forall₂ t vis hl hr
  cases b with
  | false =>
    refine ⟨_, getitem_of_false t vis next hl pi hidx, ?_⟩
    obtain ⟨f1, f2, f3⟩ := full_spec ((t.vaxes.drop vis.length).map Axis.numel) t.default next
    have hsh := vshape_drop t vis.length
    refine ⟨f1, f2.trans hsh, ?_⟩
    intro rest hrest
    unfold cell
    rw [f2] at hrest ⊢
    rw [f3 rest hrest]
    rw [hsh] at hrest
    rw [dense_unbacked hS.sem (append_mem_assigns hv hrest) (unbacked_of_indexAll_false hS hl hidx rest)]
    rfl
  | true =>
    have hk := selOK_of_indexAll hS hl hidx hd
    refine ⟨_, getitem_of_true t vis next hl pi hidx, ?_⟩
    rw [normalize_selected hk]
    refine ⟨(wf_iff_struct _).2 (selected_struct hk), selected_vshape hk, ?_⟩
    intro rest hrest
    unfold cell
    rw [selected_cell hk hv hrest]
    rfl

/-- an index out of range raises (IndexError), whatever the pattern -/
theorem getitem_out_of_range (t : PT) (h : t.wf = true) (vis : List Nat) (next : Nat)
    (hl : vis.length ≤ t.vaxes.length) (i : Nat) (hi : i < vis.length)
    (hbefore : ∀ j, j < i → vis[j]?.getD 0 < t.vshape[j]?.getD 0) (hout : t.vshape[i]?.getD 0 ≤ vis[i]?.getD 0) :
    getitem t vis next = none ∨
      ∃ r, getitem t vis next = some r ∧ r.vshape = t.vshape.drop vis.length ∧ ∀ rest ∈ assigns r.vshape, cell r rest = t.default := by
  obtain ⟨hil, e1, e2⟩ := zip_getElem_facts t vis hl i hi
  have hoor := indexAll_oor (t.vaxes.zip vis) [] i hil (fun j hj => by
    obtain ⟨_, a1, a2⟩ := zip_getElem_facts t vis hl j (by omega)
    rw [a1, a2]; exact hbefore j hj) (by rw [e1, e2]; exact hout)
  rcases hoor with h0 | ⟨pi', h0⟩
  · exact .inl (getitem_of_none t vis next h0)
  · right
    refine ⟨_, getitem_of_false t vis next hl pi' h0, ?_⟩
    obtain ⟨f1, f2, f3⟩ := full_spec ((t.vaxes.drop vis.length).map Axis.numel) t.default next
    refine ⟨f2.trans (vshape_drop t vis.length), ?_⟩
    intro rest hrest
    unfold cell
    rw [f2] at hrest ⊢
    rw [f3 rest hrest]
    rfl

/-- **permute**: dimension `j` of the result is dimension `dims[j]` of the operand -/
theorem permute_dense (t : PT) (h : t.wf = true) (dims : List Nat) (hp : dims.Perm (List.range t.vaxes.length)) :
    ∃ r, permute t dims = some r ∧ r.wf = true ∧ r.vshape = dims.map (fun i => t.vshape[i]?.getD 0) ∧
      ∀ idx ∈ assigns t.vshape, cell r (dims.map (fun i => idx[i]?.getD 0)) = cell t idx := by
  have hS := (wf_iff_struct t).1 h
  refine ⟨permuted t dims, permute_of_perm t dims hp, (wf_iff_struct _).2 (permuted_struct hS hp),
    permuted_vshape hp, ?_⟩
  intro idx hidx
  unfold cell
  rw [permuted_cell hS hp hidx]
  rfl

/-- `permute` rejects anything that is not a permutation of the dimensions -/
theorem permute_none (t : PT) (dims : List Nat) (hp : ¬ dims.Perm (List.range t.vaxes.length)) :
    permute t dims = none :=
  permute_of_not_perm t dims hp

/-- `transpose(d0, d1)` is the permutation that swaps the two dimensions -/
theorem transpose_eq_permute (t : PT) (d0 d1 : Nat) (h0 : d0 < t.vaxes.length) (h1 : d1 < t.vaxes.length) :
    transpose t d0 d1 = permute t ((List.range t.vaxes.length).map (fun i => if i = d0 then d1 else if i = d1 then d0 else i)) :=
  transpose_eq t d0 d1 h0 h1

/-- `T` reverses the dimensions -/
theorem transposeAll_eq_permute (t : PT) :
    some (transposeAll t) = permute t (List.range t.vaxes.length).reverse :=
  transposeAll_eq t

/-- `flatten` and `unsqueeze` keep the flat data -/
theorem flatten_dense (t : PT) (h : t.wf = true) :
    (flatten t).wf = true ∧ (flatten t).vshape = (if t.vaxes.length = 1 then t.vshape else [numel t.vshape]) ∧
    (flatten t).dense = t.dense := by
  have hS := (wf_iff_struct t).1 h
  refine ⟨(wf_iff_struct _).2 (flatten_struct hS), flatten_vshape t, ?_⟩
  rw [sh_flatten_eq]
  exact C06.dense_flatten' t

theorem unsqueeze_dense (t : PT) (h : t.wf = true) (d : Nat) :
    (unsqueeze t d).wf = true ∧ (unsqueeze t d).vshape = t.vshape.take d ++ [1] ++ t.vshape.drop d ∧
    (unsqueeze t d).dense = t.dense := by
  have hS := (wf_iff_struct t).1 h
  refine ⟨(wf_iff_struct _).2 (unsqueeze_struct hS d), unsqueeze_vshape t d, ?_⟩
  rw [sh_unsqueeze_eq]
  exact C06.dense_unsqueeze' t d

/-! ### non-vacuity: the diagonal pattern `[k, 1 + k + 0]` over one physical axis of size 2 (a 2 × 3 tensor) -/

def exT : PT := { physical := [.fin 5, .fin 7], paxes := [(0, 2)], vaxes := [.phys 0 2, .sum 1 (.phys 0 2) 0], default := .fin 0 }

example : exT.wf = true := by decide
example : ∀ e ∈ exT.vaxes, depth e < FUEL := by decide
example : (getitem exT [1] 5).map (fun r => r.dense) = some [.fin 0, .fin 0, .fin 7] := by decide
example : (permute exT [1, 0]).map (fun r => r.dense) = some [.fin 0, .fin 0, .fin 5, .fin 0, .fin 0, .fin 7] := by decide

end C06g
