/-
C20 — Domains and factors index consistently and reject ill-shaped bindings.
Theorems about `Fggs.Interp` (model of domains.py, factors.py, InterpretationMixin).
-/
import FggsModel.Interp
import Mathlib.Tactic.Linarith
import Mathlib.Data.List.Basic
import Mathlib.Data.List.Nodup

set_option linter.unusedSimpArgs false
set_option linter.unusedVariables false

namespace C20
open Fggs Fggs.Interp

/-! ### the value index of a FiniteDomain -/

theorem lastIdx_spec {vs : List Int} {v : Int} {i : Nat} (h : lastIdx vs v = some i) :
    vs[i]? = some v := by
  induction vs generalizing i with
  | nil => simp [lastIdx] at h
  | cons x xs ih =>
    unfold lastIdx at h
    cases hr : lastIdx xs v with
    | some j => simp [hr] at h; subst h; simpa using ih hr
    | none =>
      simp [hr] at h
      obtain ⟨hx, rfl⟩ := h
      simp [hx]

theorem lastIdx_none_iff {vs : List Int} {v : Int} : lastIdx vs v = none ↔ v ∉ vs := by
  induction vs with
  | nil => simp [lastIdx]
  | cons x xs ih =>
    unfold lastIdx
    cases hr : lastIdx xs v with
    | some j =>
      have : v ∈ xs := by
        by_contra hc; rw [← ih] at hc; rw [hc] at hr; cases hr
      simp [this]
    | none =>
      have hn : v ∉ xs := ih.mp hr
      by_cases hx : x = v
      · simp [hx]
      · simp [hx, hn, Ne.symm hx]

/-- with distinct values, the index of the value at position `i` is `i` -/
theorem lastIdx_getElem {vs : List Int} (hnd : vs.Nodup) {i : Nat} (hi : i < vs.length) :
    lastIdx vs vs[i] = some i := by
  induction vs generalizing i with
  | nil => simp at hi
  | cons x xs ih =>
    rw [List.nodup_cons] at hnd
    cases i with
    | zero =>
      simp only [List.getElem_cons_zero]
      unfold lastIdx
      have : lastIdx xs x = none := lastIdx_none_iff.mpr hnd.1
      simp [this]
    | succ j =>
      simp only [List.getElem_cons_succ]
      have hj : j < xs.length := by simpa using hi
      unfold lastIdx
      simp [ih hnd.2 hj]

/-! ### numberize / denumberize / contains -/

def Dom.Distinct : Dom → Prop
  | .finite vs => vs.Nodup
  | .range n => 0 ≤ n

/-- `denumberize (numberize v) = v` for every value of the domain; the number is in `0..size-1` -/
theorem denumberize_numberize (d : Dom) (v : Int) (hv : d.contains v = true) :
    ∃ i : Nat, d.numberize v = some (i : Int) ∧ (i : Int) < d.size ∧ d.denumberize i = some v := by
  cases d with
  | finite vs =>
    simp only [Dom.contains, List.contains_iff_mem] at hv
    cases hl : lastIdx vs v with
    | none => exact absurd hv (lastIdx_none_iff.mp hl)
    | some i =>
      have hs := lastIdx_spec hl
      have hi : i < vs.length := by
        by_contra hc
        rw [List.getElem?_eq_none (by omega)] at hs; cases hs
      exact ⟨i, by simp [Dom.numberize, hl], by simp [Dom.size, hi], by simpa [Dom.denumberize] using hs⟩
  | range n =>
    simp only [Dom.contains, Bool.and_eq_true, decide_eq_true_eq] at hv
    refine ⟨v.toNat, ?_, ?_, ?_⟩
    · simp [Dom.numberize, Int.toNat_of_nonneg hv.1]
    · simp [Dom.size, Int.toNat_of_nonneg hv.1, hv.2]
    · simp [Dom.denumberize, Int.toNat_of_nonneg hv.1]

/-- `numberize (denumberize i) = i` for every `i` in `0..size-1` (distinct values) -/
theorem numberize_denumberize (d : Dom) (hd : Dom.Distinct d) (i : Nat) (hi : (i : Int) < d.size) :
    ∃ v, d.denumberize i = some v ∧ d.contains v = true ∧ d.numberize v = some (i : Int) := by
  cases d with
  | finite vs =>
    have hi' : i < vs.length := by simpa [Dom.size] using hi
    refine ⟨vs[i], by simp [Dom.denumberize, hi'], by simp [Dom.contains], ?_⟩
    simp [Dom.numberize, lastIdx_getElem hd hi']
  | range n =>
    refine ⟨i, by simp [Dom.denumberize], ?_, by simp [Dom.numberize]⟩
    simp only [Dom.size] at hi
    simp [Dom.contains, hi]

/-- `contains` agrees with numberize: the values are exactly what numberize maps into `0..size-1` -/
theorem contains_iff (d : Dom) (v : Int) :
    d.contains v = true ↔ ∃ i : Nat, d.numberize v = some (i : Int) ∧ (i : Int) < d.size := by
  constructor
  · intro h
    obtain ⟨i, h1, h2, _⟩ := denumberize_numberize d v h
    exact ⟨i, h1, h2⟩
  · rintro ⟨i, h1, h2⟩
    cases d with
    | finite vs =>
      simp only [Dom.numberize] at h1
      cases hl : lastIdx vs v with
      | none => simp [hl] at h1
      | some j =>
        have := lastIdx_spec hl
        simp only [Dom.contains, List.contains_iff_mem]
        exact List.mem_of_getElem? this
    | range n =>
      simp only [Dom.numberize, Option.some.injEq] at h1
      simp only [Dom.size] at h2
      simp [Dom.contains, h1, h2]

/-- numberize is injective on the values -/
theorem numberize_injective (d : Dom) (u v : Int) (hu : d.contains u = true) (hv : d.contains v = true)
    (h : d.numberize u = d.numberize v) : u = v := by
  obtain ⟨i, h1, _, h3⟩ := denumberize_numberize d u hu
  obtain ⟨j, h1', _, h3'⟩ := denumberize_numberize d v hv
  rw [h1, h1'] at h
  have : i = j := by simpa using h
  subst this
  rw [h3] at h3'; simpa using h3'

/-- equality is by content; a range domain never equals a finite one -/
theorem dom_eq_iff (a b : Dom) : a.eq b = true ↔ a = b := by simp [Dom.eq]

theorem range_ne_finite (n : Int) (vs : List Int) : (Dom.range n).eq (Dom.finite vs) = false := by
  simp [Dom.eq]

/-! ### FiniteFactor -/

/-- a factor accepts exactly the weights whose shape is the tuple of its domains' sizes -/
theorem mkFactor_ok_iff (doms : List Dom) (shape : List Nat) (data : List Ext) :
    (∃ f, mkFactor doms shape data = .ok f) ↔ shape.map (fun (n : Nat) => (n : Int)) = doms.map Dom.size := by
  unfold mkFactor
  split <;> simp_all

theorem mkFactor_fields (doms : List Dom) (shape : List Nat) (data : List Ext) (f : Factor)
    (h : mkFactor doms shape data = .ok f) : f.doms = doms ∧ f.shape = shape ∧ f.data = data := by
  unfold mkFactor at h
  split at h
  · cases h; exact ⟨rfl, rfl, rfl⟩
  · cases h

theorem factor_eq_iff (a b : Factor) :
    a.eq b = true ↔ (a.doms = b.doms ∧ a.shape = b.shape ∧ a.data = b.data) := by
  simp [Factor.eq, and_assoc]

/-! ### binding domains and factors -/

theorem addEdgeLabel_err_or (s : St) (el : ELabel) :
    (∃ s', addEdgeLabel s el = .ok s' ∧ s'.nodeLabels = s.nodeLabels ∧ s'.domains = s.domains ∧
        s'.factors = s.factors) ∨ addEdgeLabel s el = .error "ValueError" := by
  unfold addEdgeLabel
  split
  · split
    · exact Or.inl ⟨s, rfl, rfl, rfl, rfl⟩
    · exact Or.inr rfl
  · exact Or.inl ⟨_, rfl, rfl, rfl, rfl⟩

/-- a rejected `add_factor` leaves the interpretation (and the label tables) unchanged -/
theorem addFactor_err_unchanged (s : St) (el : ELabel) (ds : List Dom) (e : String)
    (h : (addFactor s el ds).2 = .error e) : (addFactor s el ds).1 = s := by
  unfold addFactor at *
  by_cases hg : factorGuard s el ds = true
  · rw [if_pos hg] at h ⊢
    cases hl : addEdgeLabel s el with
    | error e' => rfl
    | ok s' => rw [hl] at h; cases h
  · rw [if_neg hg]

/-- `add_factor` succeeds only for a terminal label that is not yet bound, whose arity matches and
whose node labels are all bound to domains equal to the factor's; then exactly the label (if new)
and the binding are added -/
theorem addFactor_ok_imp (s : St) (el : ELabel) (ds : List Dom)
    (h : (addFactor s el ds).2 = .ok ()) :
    el.terminal = true ∧ (s.factors.lookup el.name).isNone = true ∧ ds.length = el.type.length ∧
    (∀ p ∈ el.type.zip ds, s.domainOf p.1 = some p.2) ∧
    (∃ s', addEdgeLabel s el = .ok s' ∧
      (addFactor s el ds).1 = { s' with factors := s'.factors ++ [(el.name, ds)] }) := by
  unfold addFactor at *
  by_cases hg : factorGuard s el ds = true
  · rw [if_pos hg] at h ⊢
    have hg' := hg
    unfold factorGuard at hg'
    simp only [Bool.and_eq_true, beq_iff_eq, List.all_eq_true] at hg'
    obtain ⟨⟨⟨h1, h2⟩, h3⟩, h4⟩ := hg'
    refine ⟨h1, h2, h3, fun p hp => h4 p hp, ?_⟩
    cases hl : addEdgeLabel s el with
    | error e' => rw [hl] at h; cases h
    | ok s' => exact ⟨s', rfl, rfl⟩
  · rw [if_neg hg] at h; cases h

/-- and conversely: under exactly those conditions (and no *different* label of that name) it succeeds -/
theorem addFactor_ok_of (s : St) (el : ELabel) (ds : List Dom)
    (h1 : el.terminal = true) (h2 : (s.factors.lookup el.name).isNone = true) (h3 : ds.length = el.type.length)
    (h4 : ∀ p ∈ el.type.zip ds, s.domainOf p.1 = some p.2)
    (h5 : ∀ old, s.edgeLabels.find? (·.name = el.name) = some old → old = el) :
    (addFactor s el ds).2 = .ok () := by
  have hg : factorGuard s el ds = true := by
    unfold factorGuard
    simp only [Bool.and_eq_true, beq_iff_eq, List.all_eq_true]
    exact ⟨⟨⟨h1, h2⟩, h3⟩, fun p hp => h4 p hp⟩
  unfold addFactor
  rw [if_pos hg]
  unfold addEdgeLabel
  cases hf : s.edgeLabels.find? (·.name = el.name) with
  | none => rfl
  | some old => simp only; rw [if_pos (h5 old hf)]

/-- a rejected `add_domain` changes nothing but (at most) registering the node label, and
happens exactly when the node label is already mapped -/
theorem addDomain_err (s : St) (nl : Nat) (d : Dom) (e : String)
    (h : (addDomain s nl d).2 = .error e) :
    (addDomain s nl d).1 = addNodeLabel s nl ∧ (s.domains.lookup nl).isSome = true := by
  unfold addDomain at *
  have hd : (addNodeLabel s nl).domains = s.domains := by unfold addNodeLabel; split <;> rfl
  simp only [hd] at *
  by_cases hs : (s.domains.lookup nl).isSome = true
  · rw [if_pos hs]; exact ⟨rfl, hs⟩
  · rw [if_neg hs] at h; cases h

theorem addDomain_ok_iff (s : St) (nl : Nat) (d : Dom) :
    (addDomain s nl d).2 = .ok () ↔ (s.domains.lookup nl).isSome = false := by
  unfold addDomain
  have hd : (addNodeLabel s nl).domains = s.domains := by unfold addNodeLabel; split <;> rfl
  simp only [hd]
  by_cases hs : (s.domains.lookup nl).isSome = true
  · rw [if_pos hs]
    constructor
    · intro h; cases h
    · intro h; rw [h] at hs; cases hs
  · rw [if_neg hs]
    constructor
    · intro _; exact Bool.eq_false_iff.mpr hs
    · intro _; rfl

/-- `shape` reports the sizes of the bound domains, in the order of the label's type -/
theorem shapeOf_eq (s : St) (ty : List Nat) (sz : List Int) (h : shapeOf s ty = some sz) :
    sz.length = ty.length ∧ ∀ i (hi : i < ty.length) (hi' : i < sz.length),
      ∃ d, s.domainOf ty[i] = some d ∧ sz[i] = d.size := by
  unfold shapeOf at h
  induction ty generalizing sz with
  | nil => simp at h; subst h; simp
  | cons t ts ih =>
    simp only [List.mapM_cons, Option.bind_eq_bind, Option.pure_def] at h
    cases hd : s.domainOf t with
    | none => simp [hd] at h
    | some d =>
      simp only [hd, Option.map_some, Option.bind_some] at h
      cases hr : ts.mapM (fun nl => (s.domainOf nl).map Dom.size) with
      | none => simp [hr] at h
      | some rest =>
        simp [hr] at h
        subst h
        obtain ⟨hl, hrest⟩ := ih rest hr
        refine ⟨by simp [hl], ?_⟩
        intro i hi hi'
        cases i with
        | zero => exact ⟨d, by simpa using hd, rfl⟩
        | succ j =>
          have := hrest j (by simpa using hi) (by simpa using hi')
          simpa using this

/-! ### non-vacuity -/
example : Dom.Distinct (.finite [7, 3, 5]) := by simp [Dom.Distinct]
example : (Dom.finite [7, 3, 5]).numberize 5 = some 2 := by decide
example : (Dom.finite [7, 3, 7]).numberize 7 = some 2 := by decide   -- duplicates: last wins
example : (addFactor (addDomain {} 0 (.finite [1,2])).1 ⟨0, [0], true⟩ [.finite [1,2]]).2 = .ok () := by decide
example : (addFactor (addDomain {} 0 (.finite [1,2])).1 ⟨0, [0, 0], true⟩ [.finite [1,2]]).2 = .error "ValueError" := by decide

end C20
