/-
C09c — `multi_solve` (fggs/multi.py): block Gauss–Jordan elimination over a dictionary of matrix blocks, in ANY
elimination order that lists every nonterminal once (the order chosen by `_order_nonterminals` depends on Python
set iteration order and only influences cost), returns the LEAST solution of the block system `x = A x + b`:
it is a solution, and it lies below every pre-fixed point, in every ordered commutative semiring whose `star`
obeys the star law and star induction (Boolean, Viterbi, Real: `C09b.boolOrdStar`, `vitOrdStar`, `realOrdStar`).
An absent block is a zero block.  `multi_mv` is the block matrix–vector product.
-/
import FggsModel.Multi
import FggsProofs.Props.C01
import FggsProofs.Props.C09
import FggsProofs.Props.C09b
import FggsProofs.C09bLemmas
import FggsProofs.C09cAlgLemmas
import FggsProofs.C09cDictLemmas
import FggsProofs.C09cStepLemmas
import FggsProofs.C09cLemmas
import FggsProofs.C09cSpecLemmas
import Mathlib.Tactic.Linarith
import Mathlib.Data.List.Basic
import Mathlib.Data.List.Perm.Basic

set_option linter.unusedSimpArgs false
set_option linter.unusedVariables false

namespace C09c
open Fggs Fggs.Sem Fggs.Sv Fggs.Ms C09cL

variable {K : Type}

/-- a block system as `multi_solve` receives it: dictionaries (unique keys) over the nonterminals `nts` -/
structure SysOK (nts : List Nat) (a : MBlocks K) (b : VBlocks K) : Prop where
  ntsNodup : nts.Nodup
  keysA : ∀ p ∈ a, p.1.1 ∈ nts ∧ p.1.2 ∈ nts
  keysB : ∀ p ∈ b, p.1 ∈ nts
  nodupA : (a.map (fun p => p.1)).Nodup
  nodupB : (b.map (fun p => p.1)).Nodup

/-- pointwise order on two vectors of `n` cells -/
def VLe (S : SR K) (le : K → K → Prop) (n : Nat) (u v : List K) : Prop :=
  ∀ i, i < n → le (getV S u i) (getV S v i)

/-- `y` is a pre-fixed point of the block system -/
def PreFixedB (S : SR K) (le : K → K → Prop) (sz : Nat → Nat) (nts : List Nat) (a : MBlocks K) (b y : VBlocks K) : Prop :=
  ∀ x ∈ nts, VLe S le (sz x) (blockAffine S sz nts a b y x) (cellsB S sz y x)

/-- **`multi_solve` returns the least solution of `x = A x + b`**, for every elimination order -/
theorem multiSolve_isLeast (S : SR K) (le : K → K → Prop) (star : K → K) (h : C09b.OrdStarLaws S le star)
    (hzero : ∀ a, le S.zero a)
    (sz : Nat → Nat) (nts order : List Nat) (hperm : order.Perm nts) (a : MBlocks K) (b : VBlocks K)
    (hok : SysOK nts a b) :
    let x := multiSolve S star sz order a b false
    (∀ X ∈ nts, blockAffine S sz nts a b x X = cellsB S sz x X) ∧
    (∀ y, PreFixedB S le sz nts a b y → ∀ X ∈ nts, VLe S le (sz X) (cellsB S sz x X) (cellsB S sz y X)) := by
  have hS := h.sr
  have hnd : ([] ++ order).Nodup := by
    rw [List.nil_append]; exact hperm.nodup_iff.2 hok.ntsNodup
  have hx : multiSolve S star sz order a b false =
      backAux S star sz (luPhase S star sz order (a, b)).1 [] order (luPhase S star sz order (a, b)).2 := by
    rw [← backPhase_eq]; rfl
  intro x
  have hx' : x = backAux S star sz (luPhase S star sz order (a, b)).1 [] order
      (luPhase S star sz order (a, b)).2 := hx
  have hsound := C09cL.lu_back_sound hS star h.star_law sz order [] a b hnd
  have hleast := fun Y => C09cL.lu_back_least h sz Y order [] a b hnd
  rw [← hx'] at hsound hleast
  refine ⟨?_, ?_⟩
  · intro X hX
    obtain ⟨hl, hc⟩ := blockAffine_spec hS sz nts a b x X
    apply list_eq_of_getV S (sz X) _ _ hl (cellsB_length S sz x X)
    intro i hi
    rw [hc i hi, getV_cellsB S sz x X i hi,
      hsound X (by rw [List.nil_append]; exact hperm.mem_iff.2 hX) i hi, hS.add_comm,
      rowSum_perm hS sz _ order nts hperm]
  · intro y hy X hX i hi
    rw [getV_cellsB S sz x X i hi, getV_cellsB S sz y X i hi]
    apply hleast (dB S y) _ X (hperm.mem_iff.2 hX) i hi
    intro X' hX' i' hi'
    have hX'' : X' ∈ nts := hperm.mem_iff.1 hX'
    have := hy X' hX'' i' hi'
    rw [(blockAffine_spec hS sz nts a b y X').2 i' hi', getV_cellsB S sz y X' i' hi', hS.add_comm,
      ← rowSum_perm hS sz _ order nts hperm] at this
    exact this

/-- the transposed system: `multi_solve(a, b, transpose=True)` solves `x = Aᵀ x + b` -/
theorem multiSolve_transpose (S : SR K) (star : K → K) (sz : Nat → Nat) (order : List Nat) (a : MBlocks K) (b : VBlocks K)
    (hnd : (a.map (fun p => p.1)).Nodup) :
    multiSolve S star sz order a b true
      = multiSolve S star sz order (a.map (fun p => ((p.1.2, p.1.1), transpose S (sz p.1.1) (sz p.1.2) p.2))) b false := by
  unfold multiSolve
  simp only [if_true, Bool.false_eq_true, if_false]
  rw [transpose_fold_nil S sz a hnd]

/-- **`multi_mv` is the block matrix–vector product**: block `x` of the result is `Σ_y a[x,y]·b[y]` (absent blocks are zero) -/
theorem multiMv_spec (S : SR K) (hS : C01.SRLaws S) (sz : Nat → Nat) (nts : List Nat) (a : MBlocks K) (b : VBlocks K)
    (hok : SysOK nts a b) (x : Nat) (hx : x ∈ nts) :
    cellsB S sz (multiMv S sz a b false) x = blockAffine S sz nts a [] b x := by
  obtain ⟨hl, hc⟩ := blockAffine_spec hS sz nts a [] b x
  apply list_eq_of_getV S (sz x) _ _ (cellsB_length S sz _ x) hl
  intro i hi
  rw [hc i hi, getV_cellsB S sz _ x i hi, multiMv_eq, mvFold hS sz b x i hi a []]
  have e1 : dB S ([] : VBlocks K) x i = S.zero := rfl
  rw [e1, hS.zero_add, hS.add_comm, hS.zero_add]
  exact sum_dict_row hS nts hok.ntsNodup x i (fun y r => dot S (sz y) r (dB S b y))
    (fun y => dot_zero_left hS _ _ _ (fun _ _ => rfl)) a (fun p hp => (hok.keysA p hp).2) hok.nodupA

/-- non-vacuity: the Boolean system x0 = a·x1 + 1, x1 = x0 (two scalar blocks) in both orders -/
example : (multiSolve boolSR (fun _ => true) (fun _ => 1) [0, 1]
      [((0, 1), [[true]]), ((1, 0), [[true]])] [(0, [true])] false,
    multiSolve boolSR (fun _ => true) (fun _ => 1) [1, 0]
      [((0, 1), [[true]]), ((1, 0), [[true]])] [(0, [true])] false)
    = ([(0, [true]), (1, [true])], [(0, [true]), (1, [true])]) := by decide

end C09c
