/-
C06h — `expand` and `any` of a patterned tensor (model FggsModel/ShapeOps.lean, `Sh.expand`, `Sh.any`) denote torch's
operations on the dense tensor.
-/
import FggsModel.ShapeOps
import FggsProofs.Props.C06
import FggsProofs.Props.C06d
import FggsProofs.C06dBaseLemmas
import FggsProofs.C06dSideLemmas
import FggsProofs.C06hExpandLemmas
import FggsProofs.C06hAnyLemmas
import Mathlib.Tactic.Linarith
import Mathlib.Data.List.Basic

set_option linter.unusedSimpArgs false
set_option linter.unusedVariables false

namespace C06h
open Fggs Fggs.Ax Fggs.Un Fggs.Sh C06dL C06hL

/-- the cell of the dense tensor at an index tuple -/
def cell (t : PT) (idx : List Nat) : Ext := t.dense[flat t.vshape idx]?.getD t.default

/-- torch's rule: the target has at least as many dimensions, and every dimension of the operand (aligned at the
right) either has the target's size or has size 1 -/
def Expandable (shape sizes : List Nat) : Prop :=
  shape.length ≤ sizes.length ∧
  ∀ i, i < shape.length → (shape[i]?.getD 0 = (sizes.drop (sizes.length - shape.length))[i]?.getD 0 ∨ shape[i]?.getD 0 = 1)

/-- the index of the operand that a cell of the expanded tensor reads: leading new dimensions dropped, index 0 in the
dimensions of size 1 -/
def source (shape sizes idx : List Nat) : List Nat :=
  (List.zip shape (idx.drop (sizes.length - shape.length))).map (fun p => if p.1 = 1 then 0 else p.2)

/-- **expand** succeeds exactly on expandable targets … -/
theorem expand_isSome_iff (t : PT) (h : t.wf = true) (sizes : List Nat) (next : Nat) :
    (expand t sizes next).isSome = true ↔ Expandable t.vshape sizes := by
  rw [expand_eq]
  unfold Expandable
  have hlen : t.vshape.length = t.vaxes.length := by simp [PT.vshape]
  by_cases hl : sizes.length < t.vaxes.length
  · rw [if_pos hl]
    simp only [Option.isSome_none, Bool.false_eq_true, false_iff, not_and]
    intro h'; omega
  · rw [if_neg hl]
    have hl' : t.vaxes.length ≤ sizes.length := by omega
    rw [← loopList_all_ok_iff t sizes hl']
    by_cases hok : (loopList t sizes).all stepOK = true
    · rw [if_pos hok]
      simp only [Option.isSome_some, true_iff]
      exact ⟨by omega, hok⟩
    · rw [if_neg hok]
      simp only [Option.isSome_none, Bool.false_eq_true, false_iff, not_and]
      intro _; exact hok

/-- … and then denotes torch's broadcast of the dense tensor (`next` above every physical axis of the operand) -/
theorem expand_dense (t : PT) (h : t.wf = true) (sizes : List Nat) (next : Nat) (hn : ∀ p ∈ t.paxes, p.1 < next)
    (r : PT) (hr : expand t sizes next = some r) :
    r.wf = true ∧ r.vshape = sizes ∧ ∀ idx ∈ assigns sizes, cell r idx = cell t (source t.vshape sizes idx) := by
  rw [expand_eq] at hr
  by_cases hl : sizes.length < t.vaxes.length
  · rw [if_pos hl] at hr; cases hr
  rw [if_neg hl] at hr
  by_cases hok : (loopList t sizes).all stepOK = true
  swap
  · rw [if_neg hok] at hr; cases hr
  rw [if_pos hok] at hr
  have hr' : r = Bn.normalize (rawR t sizes next) := by cases hr; rfl
  have ctx : ExpCtx t sizes next := ⟨(wf_iff_struct t).1 h, hn, by omega, hok⟩
  obtain ⟨h1, h2, h3⟩ := normalize_spec (raw_normOK ctx)
  subst hr'
  refine ⟨h1, by rw [h2, raw_vshape ctx], ?_⟩
  intro idx hi
  unfold cell
  rw [h2, h3, normalize_default]
  exact raw_cell ctx idx hi

/-- a Boolean tensor: every physical element and the default are 0 or 1 -/
def IsBool (t : PT) : Prop := (∀ x ∈ t.physical, x = Ext.fin 0 ∨ x = Ext.fin 1) ∧ (t.default = Ext.fin 0 ∨ t.default = Ext.fin 1)

/-- **any** along a dimension: a cell of the result is true iff some cell of the operand along that dimension is -/
theorem any_dense (t : PT) (h : t.wf = true) (hb : IsBool t) (dim : Nat) (hd : dim < t.vaxes.length) (keepdim : Bool) :
    ∃ r, Sh.any t dim keepdim = some r ∧ r.wf = true ∧ IsBool r ∧
      r.vshape = (if keepdim then t.vshape.set dim 1 else t.vshape.eraseIdx dim) ∧
      ∀ idx ∈ assigns (t.vshape.eraseIdx dim),
        truthy (cell r (if keepdim then idx.take dim ++ [0] ++ idx.drop dim else idx))
          = (List.range (t.vshape[dim]?.getD 0)).any (fun j => truthy (cell t (idx.take dim ++ [j] ++ idx.drop dim))) := by
  obtain ⟨A, ed, B, hsplit, hAlen⟩ : ∃ A ed B, t.vaxes = A ++ ed :: B ∧ A.length = dim :=
    ⟨_, _, _, split_at t dim hd, by rw [List.length_take]; omega⟩
  subst hAlen
  have c : AnyCtx t A ed B := ⟨(wf_iff_struct t).1 h, hsplit⟩
  have heq := any_eq t _ _ _ keepdim hsplit
  have hvs := c.vshape
  have hvd : t.vshape[A.length]?.getD 0 = ed.numel := by
    rw [hvs]; simp
  have hes : t.vshape.eraseIdx A.length = A.map Axis.numel ++ B.map Axis.numel := by
    rw [hvs, List.eraseIdx_append_of_length_le (by simp)]
    simp
  refine ⟨_, heq, (wf_iff_struct _).2 (anyR_struct c keepdim), ⟨physOf_bool _ _ _, by show Bn.boolExt _ = _ ∨ Bn.boolExt _ = _; generalize (truthy t.default && decide (ed.numel > 0)) = b; cases b <;> simp [Bn.boolExt]⟩, ?_, ?_⟩
  · rw [anyR_vshape]
    cases keepdim with
    | true =>
      simp only [if_true]
      rw [hvs, List.set_append_right _ _ (by simp)]
      simp
    | false =>
      simp only [Bool.false_eq_true, if_false]
      rw [hes]
  · intro idx hi
    rw [hvd]
    rw [hes, mem_assigns_iff] at hi
    have hA : List.Forall₂ (· < ·) (idx.take A.length) (A.map Axis.numel) := by
      have := List.forall₂_take A.length hi
      rwa [List.take_left' (by simp)] at this
    have hB : List.Forall₂ (· < ·) (idx.drop A.length) (B.map Axis.numel) := by
      have := List.forall₂_drop A.length hi
      rwa [List.drop_left' (by simp)] at this
    have key := any_cell c keepdim _ _ hA hB
    unfold cellOf crOf at key
    unfold cell
    rw [← key]
    cases keepdim with
    | true => rfl
    | false =>
      simp only [Bool.false_eq_true, if_false]
      rw [List.take_append_drop]

/-! ### non-vacuity -/

def exT : PT := { physical := [.fin 1, .fin 0], paxes := [(0, 2)], vaxes := [.phys 0 2, .sum 1 (.phys 0 2) 0], default := .fin 0 }

example : exT.wf = true ∧ (∀ x ∈ exT.physical, x = Ext.fin 0 ∨ x = Ext.fin 1) := by decide
example : (Sh.any exT 1 false).map (fun r => r.dense) = some [.fin 1, .fin 0] := by decide
example : (expand (Sh.unsqueeze exT 0) [2, 2, 3] 5).map (fun r => r.dense) =
    some [.fin 0, .fin 1, .fin 0, .fin 0, .fin 0, .fin 0, .fin 0, .fin 1, .fin 0, .fin 0, .fin 0, .fin 0] := by decide

/-- the 0 × 2 tensor with default true on which the unrepaired `any` left the default in an unbacked cell (defect found by
the first version of `any_dense`): reducing the empty dimension now gives false everywhere -/
def cexT : PT := { physical := [], paxes := [(0, 0)], vaxes := [.phys 0 0, .sum 1 unitAxis 0], default := .fin 1 }

example : cexT.wf = true := by decide
example : (Sh.any cexT 0 false).map (fun r => r.dense) = some [.fin 0, .fin 0] := by decide

end C06h
