/-
C06r — the hypotheses of `C06p.projectPT_cells` on the run and on the request are what the driver evaluates for every job
of the correspondence stream (`Pj.faithful && Pj.covers`, last reply field of `C06.projectPT`).
-/
import FggsProofs.Props.C06p

namespace C06r
open Fggs Fggs.Ax Fggs.Pj

theorem covers_sound (paxes : List (Nat × Nat)) (vaxes : List Axis) (h : covers paxes vaxes = true) :
    ∀ q ∈ paxes, ∃ e ∈ vaxes, q ∈ e.fv := by
  unfold covers at h
  rw [List.all_eq_true] at h
  intro q hq
  have := h q hq
  rw [List.any_eq_true] at this
  obtain ⟨e, he, hc⟩ := this
  exact ⟨e, he, by simpa using hc⟩

end C06r
