/-
C02 (driver loop) — the model of `sum_products(method='fixed-point')`: components in the order delivered by the
Tarjan model, each solved by `fixed_point` (or by one application of `F` when it is a single non-looping
nonterminal) with the values of the earlier components as inputs.  If no component ran out of its iteration
budget (no warning), the value returned is a fixed point of the WHOLE equation system and lies below every
pre-fixed point: per-component least fixed points, taken in dependency order, compose to the least fixed point
of the grammar.
-/
import FggsModel.Pipeline
import FggsProofs.PipeLemmas
import FggsProofs.C02cLemmas
import FggsProofs.Props.C01
import FggsProofs.Props.C01b
import FggsProofs.Props.C02b
import FggsProofs.Props.C19b
import Mathlib.Tactic.Linarith
import Mathlib.Data.List.Basic

set_option linter.unusedSimpArgs false
set_option linter.unusedVariables false

namespace C02
open Fggs Fggs.Sem Fggs.Pipe PipeL C02cL

variable {K : Type}


/-! ### fixed point: the invariant of the driver loop -/

/-- the invariant: the nonterminals of the processed components satisfy their equations -/
private structure Inv (S : SR K) (G : Grammar K) (pre : List (List Nat)) (v : Val K) : Prop where
  len : v.length = G.nts.length
  fixed : ∀ c ∈ pre, ∀ X ∈ c, cellsOf S G (F S G v) X = cellsOf S G v X

private theorem comp_lt (G : Grammar K) (hG : GrammarWF G) (c : List Nat) (hc : c ∈ sccOrder G) (X : Nat)
    (hX : X ∈ c) : X < G.nts.length := by
  have := (sccOrder_ok G hG).only c hc X hX
  rw [verts_ntGraph] at this
  simpa using this

/-- a rule of an earlier component mentions no nonterminal of the current component -/
private theorem earlier_not_mem (G : Grammar K) (hG : GrammarWF G) (pre rest : List (List Nat)) (comp : List Nat)
    (hcs : sccOrder G = pre ++ comp :: rest) (c : List Nat) (hc : c ∈ pre) (X : Nat) (hX : X ∈ c)
    (r : Rule) (hr : r ∈ G.rulesOf X) (Y : Nat) (hY : Y ∈ ntEdgesOf G r) : Y ∉ comp := by
  have hok := sccOrder_ok G hG
  have hXn : X < G.nts.length := comp_lt G hG c (by rw [hcs]; simp [hc]) X hX
  have hs : Y ∈ Scc.succs (ntGraph G) X := (succs_ntGraph G X Y hXn).mpr ⟨r, hr, hY⟩
  rw [hcs] at hok
  obtain ⟨i, hi, rfl⟩ := List.getElem_of_mem hc
  have h1 : i < (pre ++ comp :: rest).length := by simp; omega
  have h2 : pre.length < (pre ++ comp :: rest).length := by simp
  have := hok.order i pre.length h1 h2 hi X (by rw [List.getElem_append_left hi]; exact hX) Y hs
  simpa using this

private theorem earlier_disjoint (G : Grammar K) (hG : GrammarWF G) (pre rest : List (List Nat)) (comp : List Nat)
    (hcs : sccOrder G = pre ++ comp :: rest) (c : List Nat) (hc : c ∈ pre) (X : Nat) (hX : X ∈ c) : X ∉ comp := by
  intro hXc
  have hok := sccOrder_ok G hG
  rw [hcs] at hok
  obtain ⟨i, hi, rfl⟩ := List.getElem_of_mem hc
  have h1 : i < (pre ++ comp :: rest).length := by simp; omega
  have h2 : pre.length < (pre ++ comp :: rest).length := by simp
  have := hok.disjoint i pre.length h1 h2 X (by rw [List.getElem_append_left hi]; exact hX) (by simpa using hXc)
  omega

/-- the equations of the earlier components survive the update of the current component -/
private theorem fixed_pre (S : SR K) (G : Grammar K) (hG : GrammarWF G) (pre rest : List (List Nat))
    (comp : List Nat) (hcs : sccOrder G = pre ++ comp :: rest) (v w : Val K) (hlen : v.length = G.nts.length)
    (c : List Nat) (hc : c ∈ pre) (X : Nat) (hX : X ∈ c)
    (hfix : cellsOf S G (F S G v) X = cellsOf S G v X) :
    cellsOf S G (F S G (overlay G.nts.length v w comp)) X = cellsOf S G (overlay G.nts.length v w comp) X := by
  rw [cellsOf_overlay_out S G v w hlen comp X (earlier_disjoint G hG pre rest comp hcs c hc X hX), ← hfix]
  apply cellsOf_F_congr
  intro r hr Y hY
  exact cellsOf_overlay_out S G v w hlen comp Y (earlier_not_mem G hG pre rest comp hcs c hc X hX r hr Y hY)

private theorem length_overlay (n : Nat) (x y : Val K) (comp : List Nat) : (overlay n x y comp).length = n := by
  simp [overlay]

private theorem inv_step [BEq K] (hbeq : ∀ a b : K, (a == b) = true → a = b)
    (S : SR K) (hS : C01.SRLaws S) (G : Grammar K) (hG : GrammarWF G) (kmax : Nat)
    (pre rest : List (List Nat)) (comp : List Nat) (hcs : sccOrder G = pre ++ comp :: rest)
    (o : Outcome K) (hI : Inv S G pre o.value) (hw : (stepFP S G kmax o comp).warned = false) :
    Inv S G (pre ++ [comp]) (stepFP S G kmax o comp).value := by
  have hcomp : ∀ X ∈ comp, X < G.nts.length := fun X hX => comp_lt G hG comp (by rw [hcs]; simp) X hX
  unfold stepFP at hw ⊢
  split at hw
  · -- one-step
    rename_i hm
    rw [if_pos hm]
    simp only [Bool.and_eq_true, beq_iff_eq] at hm
    refine ⟨length_overlay _ _ _ _, ?_⟩
    intro c hc X hX
    rcases List.mem_append.mp hc with hc | hc
    · exact fixed_pre S G hG pre rest comp hcs _ _ hI.len c hc X hX (hI.fixed c hc X hX)
    · rw [List.mem_singleton] at hc
      subst hc
      rw [cellsOf_overlay_compF S hS G hG _ _ c X (hcomp X hX) hX]
      apply cellsOf_F_congr
      intro r hr Y hY
      have hYc : Y ∉ c := not_mem_ntEdges_of_compEdges_nil G c r (maxRhs_zero G c hm.2 X hX r hr) Y hY
      rw [cellsOf_overlay_out S G _ _ hI.len c Y hYc, cellsOf_overlay_out S G _ _ hI.len c Y hYc]
  · -- fixed-point without warning
    rename_i hm
    rw [if_neg hm]
    simp only [Bool.or_eq_false_iff] at hw
    refine ⟨length_overlay _ _ _ _, ?_⟩
    intro c hc X hX
    rcases List.mem_append.mp hc with hc | hc
    · exact fixed_pre S G hG pre rest comp hcs _ _ hI.len c hc X hX (hI.fixed c hc X hX)
    · rw [List.mem_singleton] at hc
      subst hc
      have hw2 := hw.2
      unfold fixedPoint at hw2 ⊢
      have heq := valEqOn_eq hbeq S G c _ _ (fpGo_no_warning S G o.value c _ _ hw2) X hX
      rw [cellsOf_overlay_in S G _ _ c X (hcomp X hX) hX, heq,
        cellsOf_compF S hS G hG _ _ c X (hcomp X hX) hX]

private theorem inv_fold [BEq K] (hbeq : ∀ a b : K, (a == b) = true → a = b)
    (S : SR K) (hS : C01.SRLaws S) (G : Grammar K) (hG : GrammarWF G) (kmax : Nat) (rest : List (List Nat)) :
    ∀ (pre : List (List Nat)) (o : Outcome K), sccOrder G = pre ++ rest → Inv S G pre o.value →
      (rest.foldl (stepFP S G kmax) o).warned = false →
      Inv S G (pre ++ rest) (rest.foldl (stepFP S G kmax) o).value := by
  induction rest with
  | nil => intro pre o _ hI _; simpa using hI
  | cons comp rest ih =>
    intro pre o hcs hI hw
    rw [List.foldl_cons] at hw ⊢
    have hw' := foldl_stepFP_warned_false S G kmax rest _ hw
    have := ih (pre ++ [comp]) (stepFP S G kmax o comp) (by rw [hcs]; simp)
      (inv_step hbeq S hS G hG kmax pre rest comp hcs o hI hw') hw
    simpa using this

/-- **the value returned without a warning is a fixed point of the whole system** -/
theorem sumProducts_fixedPoint_isFixed [BEq K] (hbeq : ∀ a b : K, (a == b) = true → a = b)
    (S : SR K) (hS : C01.SRLaws S) (star : K → K) (G : Grammar K) (hG : GrammarWF G) (kmax : Nat)
    (o : Outcome K) (h : sumProducts S star G .fixedPoint kmax = .ok o) (hw : o.warned = false) :
    ∀ X, X < G.nts.length → cellsOf S G (F S G o.value) X = cellsOf S G o.value X := by
  rw [sumProducts_fixedPoint_eq] at h
  injection h with h
  subst h
  have hI0 : Inv S G [] ({ value := zeroVal G } : Outcome K).value :=
    ⟨by simp [zeroVal], by intro c hc; simp at hc⟩
  have hI := inv_fold hbeq S hS G hG kmax (sccOrder G) [] _ (by simp) hI0 hw
  intro X hX
  obtain ⟨c, hc, hXc⟩ := (sccOrder_ok G hG).cover X (by rw [verts_ntGraph]; simpa using hX)
  exact hI.fixed c (by simpa using hc) X hXc


/-! ### below every pre-fixed point -/

private theorem ent_overlay_out (n : Nat) (v w w' : Val K) (comp : List Nat) (X : Nat)
    (h : ¬ (X < n ∧ X ∈ comp)) :
    (overlay n v w comp)[X]?.join = (overlay n v w' comp)[X]?.join := by
  rw [ent_overlay, ent_overlay]
  by_cases hX : X < n
  · have : X ∉ comp := fun hc => h ⟨hX, hc⟩
    simp [hX, this]
  · simp [hX]

private theorem valCell_congr (S : SR K) (G : Grammar K) (v v' : Val K) (X : Nat) (a : List Nat)
    (h : v[X]?.join = v'[X]?.join) : C01.valCell S G v X a = C01.valCell S G v' X a := by
  unfold C01.valCell; rw [h]

private theorem valLe_overlay_zero (S : SR K) (le : K → K → Prop) (hle : OrdLaws S le) (G : Grammar K)
    (v y : Val K) (comp : List Nat) (h : ValLe S le G v y) :
    ValLe S le G (overlay G.nts.length v (List.replicate G.nts.length none) comp) y := by
  intro X a
  have hv := h X a
  unfold C01.valCell at hv ⊢
  rw [ent_overlay, ent_replicate_none]
  by_cases hX : X < G.nts.length
  · by_cases hc : X ∈ comp
    · simp only [hX, if_true, List.contains_iff_mem, hc]
      exact hle.zero_le _
    · simp only [hX, if_true, List.contains_iff_mem, hc, if_false]
      exact hv
  · simp only [hX, if_false]
    exact hle.zero_le _

private theorem valLe_overlay_step (S : SR K) (hS : C01.SRLaws S) (le : K → K → Prop) (hle : OrdLaws S le)
    (G : Grammar K) (hG : GrammarWF G) (y : Val K) (hy : ValLe S le G (F S G y) y)
    (v : Val K) (comp : List Nat) (w : Val K)
    (h : ValLe S le G (overlay G.nts.length v w comp) y) :
    ValLe S le G (overlay G.nts.length v (compF S G v comp w) comp) y := by
  intro X a
  by_cases hX : X < G.nts.length ∧ X ∈ comp
  · rw [valCell_eq_getT, cellsOf_overlay_compF S hS G hG v w comp X hX.1 hX.2, ← valCell_eq_getT]
    exact hle.trans _ _ _ (F_mono S le hle G _ _ h X a) (hy X a)
  · rw [valCell_congr S G _ _ X a (ent_overlay_out G.nts.length v _ w comp X hX)]
    exact h X a

private theorem valLe_stepFP [BEq K] (S : SR K) (hS : C01.SRLaws S) (le : K → K → Prop) (hle : OrdLaws S le)
    (G : Grammar K) (hG : GrammarWF G) (kmax : Nat) (y : Val K) (hy : ValLe S le G (F S G y) y)
    (o : Outcome K) (comp : List Nat) (h : ValLe S le G o.value y) :
    ValLe S le G (stepFP S G kmax o comp).value y := by
  have h0 := valLe_overlay_zero S le hle G o.value y comp h
  have h1 := valLe_overlay_step S hS le hle G hG y hy o.value comp _ h0
  unfold stepFP
  split
  · exact h1
  · unfold fixedPoint
    exact fpGo_invariant S G o.value comp (fun w => ValLe S le G (overlay G.nts.length o.value w comp) y)
      (fun w hw => valLe_overlay_step S hS le hle G hG y hy o.value comp w hw) _ _ _ h0 h1

private theorem valLe_zeroVal (S : SR K) (le : K → K → Prop) (hle : OrdLaws S le) (G : Grammar K) (y : Val K) :
    ValLe S le G (zeroVal G) y := by
  intro X a
  have : C01.valCell S G (zeroVal G) X a = S.zero := by
    unfold C01.valCell zeroVal
    rw [ent_replicate_none]
  rw [this]; exact hle.zero_le _

/-- **… and it is below every pre-fixed point** (with or without a warning: every iterate is) -/
theorem sumProducts_fixedPoint_le_prefixed [BEq K]
    (S : SR K) (hS : C01.SRLaws S) (le : K → K → Prop) (hle : OrdLaws S le)
    (star : K → K) (G : Grammar K) (hG : GrammarWF G) (kmax : Nat)
    (o : Outcome K) (h : sumProducts S star G .fixedPoint kmax = .ok o)
    (y : Val K) (hy : ValLe S le G (F S G y) y) : ValLe S le G o.value y := by
  rw [sumProducts_fixedPoint_eq] at h
  injection h with h
  subst h
  have : ∀ (l : List (List Nat)) (o : Outcome K), ValLe S le G o.value y →
      ValLe S le G (l.foldl (stepFP S G kmax) o).value y := by
    intro l
    induction l with
    | nil => intro o ho; exact ho
    | cons c l ih =>
      intro o ho
      rw [List.foldl_cons]
      exact ih _ (valLe_stepFP S hS le hle G hG kmax y hy o c ho)
  exact this _ _ (valLe_zeroVal S le hle G y)

/-- the method `fixed-point` never raises and never leaves the model -/
theorem sumProducts_fixedPoint_ok [BEq K] (S : SR K) (star : K → K) (G : Grammar K) (kmax : Nat) :
    ∃ o, sumProducts S star G .fixedPoint kmax = .ok o ∧ o.unmodelled = false := by
  refine ⟨_, sumProducts_fixedPoint_eq S star G kmax, ?_⟩
  rw [foldl_stepFP_unmodelled]

/-- non-vacuity: `X → X a | b` (Boolean) converges in two steps; with budget 0 the model warns -/
example : ((sumProducts boolSR (fun _ => true)
    ({ nls := [2], terms := [[0, 0], [0]], nts := [[0]], start := 0,
       rules := [⟨0, [0, 0], [0], [(2, [1]), (0, [1, 0])]⟩, ⟨0, [0], [0], [(1, [0])]⟩],
       weights := [[false, true, true, false], [true, false]] } : Grammar Bool) .fixedPoint 5).toOption.map
        (fun o => (o.value, o.warned))) = some ([some [true, true]], false) := by decide

example : ((sumProducts boolSR (fun _ => true)
    ({ nls := [2], terms := [[0, 0], [0]], nts := [[0]], start := 0,
       rules := [⟨0, [0, 0], [0], [(2, [1]), (0, [1, 0])]⟩, ⟨0, [0], [0], [(1, [0])]⟩],
       weights := [[false, true, true, false], [true, false]] } : Grammar Bool) .fixedPoint 0).toOption.map
        (fun o => o.warned)) = some true := by decide

end C02
