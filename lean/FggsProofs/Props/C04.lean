/-
C04 — no derivation beats the Viterbi value: in an idempotent commutative semiring (max-plus), the weight
of every well-formed derivation with assignments (as accepted by the checker `checkDeriv`) is below the
Kleene iterate at its root cell.
-/
import FggsModel.Sem
import FggsProofs.Props.C01
import Mathlib.Tactic.Linarith
import Mathlib.Data.List.Basic
import Mathlib.Data.List.Forall2

set_option linter.unusedSimpArgs false
set_option linter.unusedVariables false

namespace C04
open Fggs Fggs.Sem

variable {K : Type}

/-- the order of an idempotent semiring: `a ≤ b ↔ a + b = b` -/
def le (S : SR K) (a b : K) : Prop := S.add a b = b

/-! ### order toolkit -/
section toolkit
variable {S : SR K} (hS : C01.SRLaws S) (hid : ∀ a, S.add a a = a)

include hid in
private theorem le_refl (a : K) : le S a a := hid a

include hS in
private theorem le_trans {a b c : K} (h1 : le S a b) (h2 : le S b c) : le S a c := by
  unfold le at *
  rw [← h2, ← hS.add_assoc, h1]

include hS hid in
private theorem le_add_left (a b : K) : le S a (S.add a b) := by
  unfold le
  rw [← hS.add_assoc, hid]

include hS hid in
private theorem le_add_right (a b : K) : le S b (S.add a b) := by
  unfold le
  rw [hS.add_comm a b, ← hS.add_assoc, hid]

include hS in
private theorem add_zero (a : K) : S.add a S.zero = a := by rw [hS.add_comm, hS.zero_add]

include hS in
private theorem foldl_add (l : List K) (a : K) : l.foldl S.add a = S.add a (S.sum l) := by
  induction l generalizing a with
  | nil => simp [SR.sum, add_zero hS]
  | cons b l ih =>
    simp only [SR.sum, List.foldl_cons]
    rw [ih, ih (S.add S.zero b), hS.zero_add, hS.add_assoc]

include hS in
private theorem sum_cons (a : K) (l : List K) : S.sum (a :: l) = S.add a (S.sum l) := by
  show (a :: l).foldl S.add S.zero = _
  rw [List.foldl_cons, foldl_add hS, hS.zero_add]

include hS in
private theorem mul_le_mul_left (a : K) {c d : K} (h : le S c d) : le S (S.mul a c) (S.mul a d) := by
  unfold le at *
  rw [← hS.left_distrib, h]

include hS in
private theorem mul_le_mul_right (c : K) {a b : K} (h : le S a b) : le S (S.mul a c) (S.mul b c) := by
  rw [hS.mul_comm a c, hS.mul_comm b c]
  exact mul_le_mul_left hS c h

end toolkit

/-- in an idempotent semiring every term is below the sum -/
theorem le_sum_of_mem (S : SR K) (hS : C01.SRLaws S) (hid : ∀ a, S.add a a = a) (l : List K) (a : K) (h : a ∈ l) :
    le S a (S.sum l) := by
  induction l with
  | nil => cases h
  | cons x l ih =>
    rw [sum_cons hS]
    rcases List.mem_cons.1 h with rfl | h'
    · exact le_add_left hS hid _ _
    · exact le_trans hS (ih h') (le_add_right hS hid _ _)

/-- multiplication is monotone -/
theorem mul_le_mul (S : SR K) (hS : C01.SRLaws S) (hid : ∀ a, S.add a a = a) (a b c d : K)
    (h1 : le S a b) (h2 : le S c d) : le S (S.mul a c) (S.mul b d) :=
  le_trans hS (mul_le_mul_left hS a h2) (mul_le_mul_right hS d h1)

/-! ### assignments -/

private theorem mem_assigns {shape a : List Nat} :
    a ∈ assigns shape ↔ List.Forall₂ (· < ·) a shape := by
  induction shape generalizing a with
  | nil => simp [assigns]
  | cons n rest ih =>
    simp only [assigns, List.mem_flatMap, List.mem_range, List.mem_map]
    constructor
    · rintro ⟨i, hi, is, his, rfl⟩
      exact List.Forall₂.cons hi (ih.1 his)
    · intro h
      cases h with
      | cons hi his => exact ⟨_, hi, _, ih.2 his, rfl⟩

private theorem mem_assigns_idx (G : Grammar K) (nodes ρ att : List Nat)
    (hρ : ρ ∈ assigns (G.shapeOf nodes)) (hatt : ∀ v ∈ att, v < nodes.length) :
    att.map (fun v => ρ[v]?.getD 0) ∈ assigns (G.shapeOf (att.map (fun v => nodes[v]?.getD 0))) := by
  rw [mem_assigns] at hρ ⊢
  unfold Grammar.shapeOf at hρ ⊢
  rw [List.map_map, List.forall₂_map_left_iff, List.forall₂_map_right_iff, List.forall₂_same]
  intro v hv
  have hv' := hatt v hv
  rw [List.forall₂_map_right_iff] at hρ
  have hlen := hρ.length_eq
  have := List.Forall₂.get hρ (i := v) (by omega) hv'
  simpa [List.getElem?_eq_getElem hv', List.getElem?_eq_getElem (show v < ρ.length by omega)] using this

/-- the node values of an accepted rule instance form an assignment of the rule's nodes -/
private theorem asst_mem_assigns (G : Grammar K) (nodes asst : List Nat)
    (hlen : asst.length = nodes.length)
    (hall : (asst.zip nodes).all (fun (v, l) => decide (v < G.dom l)) = true) :
    asst ∈ assigns (G.shapeOf nodes) := by
  rw [mem_assigns]
  unfold Grammar.shapeOf
  rw [List.forall₂_map_right_iff, List.forall₂_iff_zip]
  refine ⟨hlen, ?_⟩
  intro v l hvl
  rw [List.all_eq_true] at hall
  simpa using hall (v, l) hvl

/-! ### the checker, one level unfolded -/

private theorem edgeWeight_term (S : SR K) (G : Grammar K) (x : Val K) (l : Nat) (idx : List Nat)
    (h : l < G.T) : edgeWeight S G x l idx = edgeWeight S G [] l idx := by
  simp [edgeWeight, h]

private theorem edgeWeight_nt (S : SR K) (G : Grammar K) (x : Val K) (l : Nat) (idx : List Nat)
    (h : ¬ l < G.T) : edgeWeight S G x l idx = C01.valCell S G x (l - G.T) idx := by
  simp only [edgeWeight, C01.valCell, Grammar.labelType, h, if_false]
  rfl

private def stepC (S : SR K) (G : Grammar K) (fuel : Nat) (asst : List Nat) :
    Option (K × List ADeriv) → Nat × List Nat → Option (K × List ADeriv) :=
  fun acc e =>
    match acc with
    | none => none
    | some (w, rest) =>
      let idx := e.2.map (fun v => asst[v]?.getD 0)
      if e.1 < G.T then some (S.mul w (edgeWeight S G [] e.1 idx), rest)
      else match rest with
        | c :: rest' => (checkDeriv S G fuel c (e.1 - G.T) idx).map (fun wc => (S.mul w wc, rest'))
        | [] => none

private theorem checkDeriv_succ (S : SR K) (G : Grammar K) (fuel ri : Nat) (asst : List Nat)
    (cs : List ADeriv) (X : Nat) (a : List Nat) :
    checkDeriv S G (fuel+1) (.mk ri asst cs) X a =
      match G.rules[ri]? with
      | none => none
      | some r =>
        if r.lhs != X then none
        else if asst.length != r.nodes.length then none
        else if !((asst.zip r.nodes).all (fun (v, l) => decide (v < G.dom l))) then none
        else if r.ext.map (fun v => asst[v]?.getD 0) != a then none
        else
          match r.edges.foldl (stepC S G fuel asst) (some (S.one, cs)) with
          | some (w, []) => some w
          | _ => none := by
  rw [checkDeriv]; rfl

private theorem foldl_stepC_none (S : SR K) (G : Grammar K) (fuel : Nat) (asst : List Nat)
    (es : List (Nat × List Nat)) : es.foldl (stepC S G fuel asst) none = none := by
  induction es with
  | nil => rfl
  | cons e es ih => rw [List.foldl_cons]; exact ih

/-- the fold over the edges: accumulated weight ≤ accumulated product of edge weights -/
private theorem fold_bound (S : SR K) (hS : C01.SRLaws S) (hid : ∀ a, S.add a a = a) (G : Grammar K)
    (x : Val K) (fuel : Nat) (asst : List Nat) (es : List (Nat × List Nat))
    (hch : ∀ e ∈ es, ¬ e.1 < G.T → ∀ c wc,
      checkDeriv S G fuel c (e.1 - G.T) (e.2.map (fun v => asst[v]?.getD 0)) = some wc →
      le S wc (edgeWeight S G x e.1 (e.2.map (fun v => asst[v]?.getD 0))))
    (w0 : K) (cs0 : List ADeriv) (c0 : K) (h0 : le S w0 c0) (w : K) (rest : List ADeriv)
    (h : es.foldl (stepC S G fuel asst) (some (w0, cs0)) = some (w, rest)) :
    le S w ((es.map (fun e => edgeWeight S G x e.1 (e.2.map (fun v => asst[v]?.getD 0)))).foldl S.mul c0) := by
  induction es generalizing w0 cs0 c0 with
  | nil =>
    simp only [List.foldl_nil, Option.some.injEq, Prod.mk.injEq] at h
    obtain ⟨rfl, _⟩ := h
    simpa using h0
  | cons e es ih =>
    have ih' := ih (fun e he => hch e (List.mem_cons_of_mem _ he))
    rw [List.foldl_cons] at h
    rw [List.map_cons, List.foldl_cons]
    by_cases hT : e.1 < G.T
    · have hs : stepC S G fuel asst (some (w0, cs0)) e =
          some (S.mul w0 (edgeWeight S G [] e.1 (e.2.map (fun v => asst[v]?.getD 0))), cs0) := by
        simp only [stepC, hT, if_true]
      rw [hs] at h
      refine ih' _ _ _ ?_ h
      rw [edgeWeight_term S G x _ _ hT]
      exact mul_le_mul_right hS _ h0
    · cases cs0 with
      | nil =>
        have hs : stepC S G fuel asst (some (w0, [])) e = none := by
          simp only [stepC, hT, if_false]
        rw [hs, foldl_stepC_none] at h
        cases h
      | cons c cs1 =>
        have hs : stepC S G fuel asst (some (w0, c :: cs1)) e =
            (checkDeriv S G fuel c (e.1 - G.T) (e.2.map (fun v => asst[v]?.getD 0))).map
              (fun wc => (S.mul w0 wc, cs1)) := by
          simp only [stepC, hT, if_false]
        rw [hs] at h
        cases hc : checkDeriv S G fuel c (e.1 - G.T) (e.2.map (fun v => asst[v]?.getD 0)) with
        | none =>
          rw [hc, Option.map_none, foldl_stepC_none] at h
          cases h
        | some wc =>
          rw [hc, Option.map_some] at h
          refine ih' _ _ _ ?_ h
          exact mul_le_mul S hS hid _ _ _ _ h0 (hch e (List.mem_cons_self ..) hT c wc hc)

/-- **a well-formed derivation never weighs more than the Kleene iterate at its root cell** (idempotent
commutative semiring, e.g. Viterbi): `checkDeriv … = some w → w ≤ F^fuel(0)[X][a]`.

With respect to the first draft of this statement the hypothesis
`ha : a ∈ assigns (G.shapeOf (G.nts[X]?.getD []))` (the requested external values are an index tuple of
the tensor of `X`) has been ADDED.  It holds for every call with a valid start assignment, and it is
derivable from the checker's own tests as soon as the external nodes of every rule are node positions of
the rule (`checkDeriv_le_kleene_of_ext` below); the recursive calls satisfy it because of the conjunct
`∀ v ∈ e.2, v < r.nodes.length` of `hty`.

Without it the statement is FALSE (`checkDeriv_le_kleene_original_false` below, machine checked): `hty`
does not bound the entries of `r.ext`; an out-of-range external node reads node label `0` and value `0`,
and if `G.dom 0 = 0` the tensor of `X` is empty (every cell reads as zero) while the checker accepts.
Falsifying input: `fuel = 1`, `d = .mk 0 [] []`, `X = 0`, `a = [0]`,
`G = ⟨nls := [], terms := [], nts := [[0]], start := 0, rules := [⟨0, [], [5], []⟩], weights := []⟩`;
it satisfies `hty`, `checkDeriv … = some 1` (`some true` in `boolSR`, `some 0` in `vitSR`), but
`kleene 1 = [some []]`, so the cell is `zero` (`false`, resp. `-inf`) and `one ≤ zero` fails.

Original statement:
```
theorem checkDeriv_le_kleene (S : SR K) (hS : C01.SRLaws S) (hid : ∀ a, S.add a a = a) (G : Grammar K)
    (hty : ∀ r ∈ G.rules, r.lhs < G.nts.length ∧
        G.shapeOf (r.ext.map (fun v => r.nodes[v]?.getD 0)) = G.shapeOf (G.nts[r.lhs]?.getD []) ∧
        ∀ e ∈ r.edges, e.1 < G.T + G.nts.length ∧
          (e.2.map (fun v => r.nodes[v]?.getD 0)) = G.labelType e.1 ∧ ∀ v ∈ e.2, v < r.nodes.length)
    (fuel : Nat) (d : ADeriv) (X : Nat) (hX : X < G.nts.length) (a : List Nat) (w : K)
    (h : checkDeriv S G fuel d X a = some w) :
    le S w (C01.valCell S G (kleene S G fuel) X a)
```
-/
theorem checkDeriv_le_kleene (S : SR K) (hS : C01.SRLaws S) (hid : ∀ a, S.add a a = a) (G : Grammar K)
    (hty : ∀ r ∈ G.rules, r.lhs < G.nts.length ∧
        G.shapeOf (r.ext.map (fun v => r.nodes[v]?.getD 0)) = G.shapeOf (G.nts[r.lhs]?.getD []) ∧
        ∀ e ∈ r.edges, e.1 < G.T + G.nts.length ∧
          (e.2.map (fun v => r.nodes[v]?.getD 0)) = G.labelType e.1 ∧ ∀ v ∈ e.2, v < r.nodes.length)
    (fuel : Nat) (d : ADeriv) (X : Nat) (hX : X < G.nts.length) (a : List Nat)
    (ha : a ∈ assigns (G.shapeOf (G.nts[X]?.getD []))) (w : K)
    (h : checkDeriv S G fuel d X a = some w) :
    le S w (C01.valCell S G (kleene S G fuel) X a) := by
  induction fuel generalizing d X a w with
  | zero => simp [checkDeriv] at h
  | succ fuel ih =>
    obtain ⟨ri, asst, cs⟩ := d
    rw [checkDeriv_succ] at h
    cases hri : G.rules[ri]? with
    | none => simp [hri] at h
    | some r =>
      simp only [hri] at h
      split_ifs at h with h1 h2 h3 h4
      have hr : r ∈ G.rules := List.mem_of_getElem? hri
      have hlhs : r.lhs = X := by simpa using h1
      have hlen : asst.length = r.nodes.length := by simpa using h2
      have hall : (asst.zip r.nodes).all (fun (v, l) => decide (v < G.dom l)) = true := by simpa using h3
      have hext : r.ext.map (fun v => asst[v]?.getD 0) = a := by simpa using h4
      obtain ⟨_, hshape, hedges⟩ := hty r hr
      have hasst := asst_mem_assigns G r.nodes asst hlen hall
      rw [kleene, C01.F_cell S hS G _ X hX a ha]
      · have hrX : r ∈ G.rulesOf X := by
          unfold Grammar.rulesOf
          exact List.mem_filter.2 ⟨hr, by simpa using hlhs⟩
        refine le_trans hS ?_ (le_sum_of_mem S hS hid _ _ (List.mem_map.2 ⟨r, hrX, rfl⟩))
        unfold ruleCell
        refine le_trans hS ?_ (le_sum_of_mem S hS hid _ _ (List.mem_map.2 ⟨asst,
          List.mem_filter.2 ⟨hasst, by simpa using hext⟩, rfl⟩))
        cases hf : r.edges.foldl (stepC S G fuel asst) (some (S.one, cs)) with
        | none => simp [hf] at h
        | some p =>
          obtain ⟨w', rest⟩ := p
          rw [hf] at h
          cases rest with
          | cons _ _ => simp at h
          | nil =>
            simp only [Option.some.injEq] at h
            subst h
            refine fold_bound S hS hid G (kleene S G fuel) fuel asst r.edges ?_ S.one cs S.one
              (le_refl hid _) _ _ hf
            intro e he hT c wc hc
            obtain ⟨e1, e2, e3⟩ := hedges e he
            rw [edgeWeight_nt S G _ _ _ hT]
            refine ih c (e.1 - G.T) (by omega) _ ?_ wc hc
            have := mem_assigns_idx G r.nodes asst e.2 hasst e3
            rw [e2] at this
            simpa [Grammar.labelType, hT] using this
      · intro r' hr'
        have := List.mem_filter.1 hr'
        obtain ⟨_, h2', _⟩ := hty r' this.1
        have hl : r'.lhs = X := by simpa using this.2
        rw [h2', hl]

/-- what the checker's tests give at the root: if the external nodes of the root rule are node positions,
the accepted external values are an index tuple of the tensor of `X` -/
private theorem root_mem_assigns (S : SR K) (G : Grammar K)
    (hty : ∀ r ∈ G.rules,
        G.shapeOf (r.ext.map (fun v => r.nodes[v]?.getD 0)) = G.shapeOf (G.nts[r.lhs]?.getD []) ∧
        ∀ v ∈ r.ext, v < r.nodes.length)
    (fuel : Nat) (d : ADeriv) (X : Nat) (a : List Nat) (w : K)
    (h : checkDeriv S G fuel d X a = some w) :
    a ∈ assigns (G.shapeOf (G.nts[X]?.getD [])) := by
  cases fuel with
  | zero => simp [checkDeriv] at h
  | succ fuel =>
    obtain ⟨ri, asst, cs⟩ := d
    rw [checkDeriv_succ] at h
    cases hri : G.rules[ri]? with
    | none => simp [hri] at h
    | some r =>
      simp only [hri] at h
      split_ifs at h with h1 h2 h3 h4
      have hr : r ∈ G.rules := List.mem_of_getElem? hri
      have hlhs : r.lhs = X := by simpa using h1
      have hlen : asst.length = r.nodes.length := by simpa using h2
      have hall : (asst.zip r.nodes).all (fun (v, l) => decide (v < G.dom l)) = true := by simpa using h3
      have hext : r.ext.map (fun v => asst[v]?.getD 0) = a := by simpa using h4
      obtain ⟨hshape, hbound⟩ := hty r hr
      have := mem_assigns_idx G r.nodes asst r.ext (asst_mem_assigns G r.nodes asst hlen hall) hbound
      rwa [hshape, hlhs, hext] at this

/-- the same bound without the hypothesis on `a`, for grammars whose external nodes are node positions of
their rule (`hty` strengthened by the conjunct `∀ v ∈ r.ext, v < r.nodes.length`): then the checker's own
tests imply that `a` is an index tuple of the tensor of `X` -/
theorem checkDeriv_le_kleene_of_ext (S : SR K) (hS : C01.SRLaws S) (hid : ∀ a, S.add a a = a) (G : Grammar K)
    (hty : ∀ r ∈ G.rules, r.lhs < G.nts.length ∧
        G.shapeOf (r.ext.map (fun v => r.nodes[v]?.getD 0)) = G.shapeOf (G.nts[r.lhs]?.getD []) ∧
        (∀ v ∈ r.ext, v < r.nodes.length) ∧
        ∀ e ∈ r.edges, e.1 < G.T + G.nts.length ∧
          (e.2.map (fun v => r.nodes[v]?.getD 0)) = G.labelType e.1 ∧ ∀ v ∈ e.2, v < r.nodes.length)
    (fuel : Nat) (d : ADeriv) (X : Nat) (hX : X < G.nts.length) (a : List Nat) (w : K)
    (h : checkDeriv S G fuel d X a = some w) :
    le S w (C01.valCell S G (kleene S G fuel) X a) :=
  checkDeriv_le_kleene S hS hid G (fun r hr => ⟨(hty r hr).1, (hty r hr).2.1, (hty r hr).2.2.2⟩)
    fuel d X hX a
    (root_mem_assigns S G (fun r hr => ⟨(hty r hr).2.1, (hty r hr).2.2.1⟩) fuel d X a w h) w h

/-- the grammar of the counterexample to the first draft of `checkDeriv_le_kleene` -/
private def cexG : Grammar Bool :=
  ⟨[], [], [[0]], 0, [⟨0, [], [5], []⟩], []⟩

/-- the first draft of `checkDeriv_le_kleene` (without `ha`) is false, already in the Boolean semiring -/
theorem checkDeriv_le_kleene_original_false :
    ¬ (∀ (S : SR Bool) (hS : C01.SRLaws S) (hid : ∀ a, S.add a a = a) (G : Grammar Bool)
      (hty : ∀ r ∈ G.rules, r.lhs < G.nts.length ∧
        G.shapeOf (r.ext.map (fun v => r.nodes[v]?.getD 0)) = G.shapeOf (G.nts[r.lhs]?.getD []) ∧
        ∀ e ∈ r.edges, e.1 < G.T + G.nts.length ∧
          (e.2.map (fun v => r.nodes[v]?.getD 0)) = G.labelType e.1 ∧ ∀ v ∈ e.2, v < r.nodes.length)
      (fuel : Nat) (d : ADeriv) (X : Nat) (hX : X < G.nts.length) (a : List Nat) (w : Bool)
      (h : checkDeriv S G fuel d X a = some w),
      le S w (C01.valCell S G (kleene S G fuel) X a)) := by
  intro H
  have := H boolSR C01.boolSR_laws (by decide) cexG (by decide) 1 (.mk 0 [] []) 0 (by decide) [0] true
    (by decide)
  unfold le at this
  revert this
  decide

end C04
