/-
C04 — placeholder (theorems follow)
-/
import FggsModel.Sem
