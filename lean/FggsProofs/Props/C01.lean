/-
C01/C02 — the equation system computes the sums over derivations: Kleene iteration F^n(0) equals,
cell by cell, the sum over all derivations of depth ≤ n (and all assignments) of the product of weights.
Theorems about `Fggs.Sem` (FggsModel/Sem.lean).
-/
import FggsModel.Sem
import Mathlib.Tactic.Linarith
import Mathlib.Data.List.Basic
import Mathlib.Data.List.Forall2
import Mathlib.Tactic.Ring

set_option linter.unusedSimpArgs false
set_option linter.unusedVariables false

namespace C01
open Fggs Fggs.Sem

/-- commutative-semiring laws for a semiring record -/
structure SRLaws {K : Type} (S : SR K) : Prop where
  add_assoc : ∀ a b c, S.add (S.add a b) c = S.add a (S.add b c)
  add_comm : ∀ a b, S.add a b = S.add b a
  zero_add : ∀ a, S.add S.zero a = a
  mul_assoc : ∀ a b c, S.mul (S.mul a b) c = S.mul a (S.mul b c)
  mul_comm : ∀ a b, S.mul a b = S.mul b a
  one_mul : ∀ a, S.mul S.one a = a
  zero_mul : ∀ a, S.mul S.zero a = S.zero
  left_distrib : ∀ a b c, S.mul a (S.add b c) = S.add (S.mul a b) (S.mul a c)

variable {K : Type}

/-! ### algebra toolkit -/
section toolkit
variable {S : SR K} (hS : SRLaws S)
include hS

private theorem add_zero (a : K) : S.add a S.zero = a := by rw [hS.add_comm, hS.zero_add]
private theorem mul_one (a : K) : S.mul a S.one = a := by rw [hS.mul_comm, hS.one_mul]
private theorem mul_zero (a : K) : S.mul a S.zero = S.zero := by rw [hS.mul_comm, hS.zero_mul]
private theorem right_distrib (a b c : K) : S.mul (S.add a b) c = S.add (S.mul a c) (S.mul b c) := by
  rw [hS.mul_comm, hS.left_distrib, hS.mul_comm c a, hS.mul_comm c b]

private theorem foldl_add (l : List K) (a : K) : l.foldl S.add a = S.add a (S.sum l) := by
  induction l generalizing a with
  | nil => simp [SR.sum, add_zero hS]
  | cons b l ih =>
    simp only [SR.sum, List.foldl_cons]
    rw [ih, ih (S.add S.zero b), hS.zero_add, hS.add_assoc]

omit hS in
private theorem sum_nil' : S.sum ([] : List K) = S.zero := rfl

private theorem sum_cons (a : K) (l : List K) : S.sum (a :: l) = S.add a (S.sum l) := by
  show (a :: l).foldl S.add S.zero = _
  rw [List.foldl_cons, foldl_add hS, hS.zero_add]

private theorem sum_singleton (a : K) : S.sum [a] = a := by
  rw [sum_cons hS, sum_nil', add_zero hS]

private theorem sum_append (l₁ l₂ : List K) : S.sum (l₁ ++ l₂) = S.add (S.sum l₁) (S.sum l₂) := by
  induction l₁ with
  | nil => simp [sum_nil', hS.zero_add]
  | cons a l ih => rw [List.cons_append, sum_cons hS, sum_cons hS, ih, hS.add_assoc]

private theorem sum_flatMap {α : Type} (l : List α) (g : α → List K) :
    S.sum (l.flatMap g) = S.sum (l.map (fun x => S.sum (g x))) := by
  induction l with
  | nil => rfl
  | cons a l ih => rw [List.flatMap_cons, sum_append hS, List.map_cons, sum_cons hS, ih]

private theorem sum_map_zero {α : Type} (l : List α) : S.sum (l.map (fun _ => S.zero)) = S.zero := by
  induction l with
  | nil => rfl
  | cons a l ih => rw [List.map_cons, sum_cons hS, ih, hS.zero_add]

private theorem sum_map_add {α : Type} (l : List α) (f g : α → K) :
    S.sum (l.map (fun x => S.add (f x) (g x))) = S.add (S.sum (l.map f)) (S.sum (l.map g)) := by
  induction l with
  | nil => simp [sum_nil', hS.zero_add]
  | cons a l ih =>
    simp only [List.map_cons, sum_cons hS, ih]
    rw [hS.add_assoc, hS.add_assoc, ← hS.add_assoc (g a), ← hS.add_assoc (S.sum (l.map f)),
      hS.add_comm (g a)]

private theorem sum_comm {α β : Type} (l₁ : List α) (l₂ : List β) (f : α → β → K) :
    S.sum (l₁.map (fun x => S.sum (l₂.map (fun y => f x y)))) =
    S.sum (l₂.map (fun y => S.sum (l₁.map (fun x => f x y)))) := by
  induction l₁ with
  | nil => simp only [List.map_nil, sum_nil', sum_map_zero hS]
  | cons a l ih =>
    simp only [List.map_cons, sum_cons hS, ih]
    rw [sum_map_add hS]

private theorem sum_mul_left (c : K) (l : List K) : S.mul c (S.sum l) = S.sum (l.map (S.mul c)) := by
  induction l with
  | nil => simp [sum_nil', mul_zero hS]
  | cons a l ih => rw [List.map_cons, sum_cons hS, sum_cons hS, hS.left_distrib, ih]

private theorem sum_mul_right (c : K) (l : List K) :
    S.mul (S.sum l) c = S.sum (l.map (fun x => S.mul x c)) := by
  induction l with
  | nil => simp [sum_nil', hS.zero_mul]
  | cons a l ih => rw [List.map_cons, sum_cons hS, sum_cons hS, right_distrib hS, ih]

private theorem foldl_mul (l : List K) (c : K) : l.foldl S.mul c = S.mul c (S.prod l) := by
  induction l generalizing c with
  | nil => simp [SR.prod, mul_one hS]
  | cons b l ih =>
    simp only [SR.prod, List.foldl_cons]
    rw [ih, ih (S.mul S.one b), hS.one_mul, hS.mul_assoc]

end toolkit

/-! ### index arithmetic -/

private theorem foldl_mul_nat (l : List Nat) (a : Nat) : l.foldl (· * ·) a = a * l.foldl (· * ·) 1 := by
  induction l generalizing a with
  | nil => simp
  | cons b l ih => simp only [List.foldl_cons]; rw [ih, ih (1 * b)]; ring

private theorem numel_cons (n : Nat) (rest : List Nat) : numel (n :: rest) = n * numel rest := by
  unfold numel; rw [List.foldl_cons, foldl_mul_nat]; ring

private theorem length_flatMap_uniform {α β : Type} (l : List α) (g : α → List β) (m : Nat)
    (hg : ∀ x ∈ l, (g x).length = m) : (l.flatMap g).length = l.length * m := by
  induction l with
  | nil => simp
  | cons a l ih =>
    rw [List.flatMap_cons, List.length_append, ih (fun x hx => hg x (List.mem_cons_of_mem _ hx)),
      hg a (List.mem_cons_self ..), List.length_cons]; ring

private theorem length_assigns (shape : List Nat) : (assigns shape).length = numel shape := by
  induction shape with
  | nil => rfl
  | cons n rest ih =>
    rw [assigns, length_flatMap_uniform _ _ (numel rest) (by intro x _; simp [ih]), numel_cons]
    simp

private theorem getElem?_flatMap_uniform {α β : Type} (l : List α) (g : α → List β) (m : Nat)
    (hg : ∀ x ∈ l, (g x).length = m) (i j : Nat) (hj : j < m) (x : α) (hi : l[i]? = some x) :
    (l.flatMap g)[i * m + j]? = (g x)[j]? := by
  induction l generalizing i with
  | nil => simp at hi
  | cons a l ih =>
    have ha := hg a (List.mem_cons_self ..)
    rw [List.flatMap_cons]
    cases i with
    | zero =>
      simp only [List.getElem?_cons_zero, Option.some.injEq] at hi
      subst hi
      rw [List.getElem?_append_left (by omega)]; simp
    | succ i =>
      simp only [List.getElem?_cons_succ] at hi
      rw [List.getElem?_append_right (by rw [ha]; nlinarith)]
      rw [← ih (fun x hx => hg x (List.mem_cons_of_mem _ hx)) i hi]
      congr 1; rw [ha]; ring_nf; omega

private theorem mem_assigns {shape a : List Nat} :
    a ∈ assigns shape ↔ List.Forall₂ (· < ·) a shape := by
  induction shape generalizing a with
  | nil => simp [assigns]
  | cons n rest ih =>
    simp only [assigns, List.mem_flatMap, List.mem_range, List.mem_map]
    constructor
    · rintro ⟨i, hi, is, his, rfl⟩
      exact List.Forall₂.cons hi (ih.1 his)
    · intro h
      cases h with
      | cons hi his => exact ⟨_, hi, _, ih.2 his, rfl⟩

private theorem flat_lt {shape a : List Nat} (h : List.Forall₂ (· < ·) a shape) :
    flat shape a < numel shape := by
  induction h with
  | nil => simp [flat, numel]
  | @cons i n is rest hi his ih =>
    rw [flat, numel_cons]
    calc i * numel rest + flat rest is < i * numel rest + numel rest := by omega
      _ = (i + 1) * numel rest := by ring
      _ ≤ n * numel rest := Nat.mul_le_mul_right _ hi

private theorem getElem?_assigns {shape a : List Nat} (h : List.Forall₂ (· < ·) a shape) :
    (assigns shape)[flat shape a]? = some a := by
  induction h with
  | nil => simp [flat, assigns]
  | @cons i n is rest hi his ih =>
    rw [flat, assigns, ← length_assigns]
    rw [getElem?_flatMap_uniform _ _ (assigns rest).length (by intro x _; simp) i _
      (by rw [length_assigns]; exact flat_lt his) i (by simp [hi])]
    rw [List.getElem?_map, ih]; rfl

/-- the cell of a nonterminal's value (absent value = zero tensor) -/
def valCell (S : SR K) (G : Grammar K) (v : Val K) (X : Nat) (a : List Nat) : K :=
  match v[X]?.join with
  | some t => getT S t (G.shapeOf (G.nts[X]?.getD [])) a
  | none => S.zero

/-- reading the row-major tensor built from a function at a valid index gives the function's value -/
theorem getT_assigns_map (S : SR K) (shape : List Nat) (f : List Nat → K) (a : List Nat)
    (ha : a ∈ assigns shape) : getT S ((assigns shape).map f) shape a = f a := by
  unfold getT
  rw [List.getElem?_map, getElem?_assigns (mem_assigns.1 ha)]; rfl

private theorem foldl_addT_cell {α : Type} (S : SR K) (rs : List α) (tv : α → List K) (cell : α → K)
    (m k : Nat) (hk : k < m) (z : List K) (hz : z.length = m)
    (h : ∀ r ∈ rs, (tv r).length = m ∧ (tv r)[k]?.getD S.zero = cell r) :
    (rs.foldl (fun acc r => addT S acc (tv r)) z)[k]?.getD S.zero =
      rs.foldl (fun acc r => S.add acc (cell r)) (z[k]?.getD S.zero) := by
  induction rs generalizing z with
  | nil => rfl
  | cons r rs ih =>
    obtain ⟨h1, h2⟩ := h r (List.mem_cons_self ..)
    rw [List.foldl_cons, List.foldl_cons, ih _ (by simp [addT, hz, h1])
      (fun r hr => h r (List.mem_cons_of_mem _ hr))]
    congr 1
    rw [← h2]
    have hk1 : k < z.length := by omega
    have hk2 : k < (tv r).length := by omega
    simp [addT, List.getElem?_zipWith, List.getElem?_eq_getElem hk1, List.getElem?_eq_getElem hk2]

/-- one unfolding: `F(x)[X][a] = Σ_{rules r of X} ruleCell r a` -/
theorem F_cell (S : SR K) (hS : SRLaws S) (G : Grammar K) (x : Val K) (X : Nat) (hX : X < G.nts.length)
    (a : List Nat) (ha : a ∈ assigns (G.shapeOf (G.nts[X]?.getD [])))
    (hshape : ∀ r ∈ G.rulesOf X, G.shapeOf (r.ext.map (fun v => r.nodes[v]?.getD 0)) = G.shapeOf (G.nts[X]?.getD [])) :
    valCell S G (F S G x) X a = S.sum ((G.rulesOf X).map (fun r => ruleCell S G x r a)) := by
  have hlt := flat_lt (mem_assigns.1 ha)
  unfold valCell F
  rw [List.getElem?_map, List.getElem?_range hX]
  simp only [Option.map_some, Option.join_some]
  unfold getT
  rw [foldl_addT_cell S _ _ (fun r => ruleCell S G x r a) _ _ hlt _ (by simp)]
  · rw [SR.sum, List.foldl_map]
    congr 1
    simp [List.getElem?_replicate, hlt]
  · intro r hr
    unfold ruleValue
    rw [hshape r hr]
    refine ⟨by simp [length_assigns], ?_⟩
    exact getT_assigns_map S _ _ a ha

/-! ### main theorem -/

private def stepFn (S : SR K) (G : Grammar K) (fuel : Nat) (ρ : List Nat) :
    K × List Deriv → Nat × List Nat → K × List Deriv :=
  fun acc e =>
    let idx := e.2.map (fun v => ρ[v]?.getD 0)
    if e.1 < G.T then (S.mul acc.1 (edgeWeight S G [] e.1 idx), acc.2)
    else match acc.2 with
      | c :: rest => (S.mul acc.1 (derivCell S G fuel c idx), rest)
      | [] => (S.mul acc.1 S.zero, [])

private theorem derivCell_succ (S : SR K) (G : Grammar K) (fuel ri : Nat) (cs : List Deriv) (a : List Nat) :
    derivCell S G (fuel+1) (.mk ri cs) a =
      S.sum (((assigns (G.shapeOf (G.rules[ri]?.getD default).nodes)).filter
        (fun ρ => (G.rules[ri]?.getD default).ext.map (fun v => ρ[v]?.getD 0) == a)).map (fun ρ =>
          ((G.rules[ri]?.getD default).edges.foldl (stepFn S G fuel ρ) (S.one, cs)).1)) := by
  rw [derivCell]; rfl

private theorem edgeWeight_term (S : SR K) (G : Grammar K) (x : Val K) (l : Nat) (idx : List Nat)
    (h : l < G.T) : edgeWeight S G x l idx = edgeWeight S G [] l idx := by
  simp [edgeWeight, h]

private theorem edgeWeight_nt (S : SR K) (G : Grammar K) (x : Val K) (l : Nat) (idx : List Nat)
    (h : ¬ l < G.T) : edgeWeight S G x l idx = valCell S G x (l - G.T) idx := by
  simp only [edgeWeight, valCell, Grammar.labelType, h, if_false]
  rfl

private theorem core (S : SR K) (hS : SRLaws S) (G : Grammar K) (x : Val K) (n : Nat) (ρ : List Nat)
    (es : List (Nat × List Nat))
    (hnt : ∀ e ∈ es, ¬ e.1 < G.T → edgeWeight S G x e.1 (e.2.map (fun v => ρ[v]?.getD 0)) =
        S.sum ((derivs G n (e.1 - G.T)).map
          (fun d => derivCell S G n d (e.2.map (fun v => ρ[v]?.getD 0)))))
    (c : K) :
    S.sum ((tuples ((es.filter (fun e => e.1 ≥ G.T)).map (fun e => derivs G n (e.1 - G.T)))).map
      (fun cs => (es.foldl (stepFn S G n ρ) (c, cs)).1)) =
    (es.map (fun e => edgeWeight S G x e.1 (e.2.map (fun v => ρ[v]?.getD 0)))).foldl S.mul c := by
  induction es generalizing c with
  | nil => simp [tuples, sum_singleton hS]
  | cons e es ih =>
    have ih' := ih (fun e he => hnt e (List.mem_cons_of_mem _ he))
    by_cases h : e.1 < G.T
    · have hd : (e :: es).filter (fun e => decide (e.1 ≥ G.T)) = es.filter (fun e => decide (e.1 ≥ G.T)) :=
        List.filter_cons_of_neg (by simpa using h)
      rw [hd, List.map_cons, List.foldl_cons, ← ih']
      congr 1
      apply List.map_congr_left
      intro cs _
      rw [List.foldl_cons]
      congr 2
      simp only [stepFn, h, if_true]
      rw [edgeWeight_term S G x _ _ h]
    · have hd : (e :: es).filter (fun e => decide (e.1 ≥ G.T)) = e :: es.filter (fun e => decide (e.1 ≥ G.T)) :=
        List.filter_cons_of_pos (by simpa using h)
      rw [hd, List.map_cons, tuples, List.map_flatMap, sum_flatMap hS]
      rw [List.map_cons, List.foldl_cons, hnt e (List.mem_cons_self ..) h, foldl_mul hS,
        sum_mul_left hS, sum_mul_right hS, List.map_map, List.map_map]
      congr 1
      apply List.map_congr_left
      intro d _
      rw [List.map_map]
      simp only [Function.comp_def, List.foldl_cons]
      have : ∀ cs, stepFn S G n ρ (c, d :: cs) e =
          (S.mul c (derivCell S G n d (e.2.map (fun v => ρ[v]?.getD 0))), cs) := by
        intro cs; simp only [stepFn, h, if_false]
      simp only [this]
      rw [ih', foldl_mul hS]

private theorem mem_assigns_idx (G : Grammar K) (nodes ρ att : List Nat)
    (hρ : ρ ∈ assigns (G.shapeOf nodes)) (hatt : ∀ v ∈ att, v < nodes.length) :
    att.map (fun v => ρ[v]?.getD 0) ∈ assigns (G.shapeOf (att.map (fun v => nodes[v]?.getD 0))) := by
  rw [mem_assigns] at hρ ⊢
  unfold Grammar.shapeOf at hρ ⊢
  rw [List.map_map, List.forall₂_map_left_iff, List.forall₂_map_right_iff, List.forall₂_same]
  intro v hv
  have hv' := hatt v hv
  rw [List.forall₂_map_right_iff] at hρ
  have hlen := hρ.length_eq
  have := List.Forall₂.get hρ (i := v) (by omega) hv'
  simpa [List.getElem?_eq_getElem hv', List.getElem?_eq_getElem (show v < ρ.length by omega)] using this

private theorem rule_lemma (S : SR K) (hS : SRLaws S) (G : Grammar K) (n : Nat) (r : Rule) (ri : Nat)
    (hri : G.rules[ri]? = some r) (a : List Nat)
    (hnt : ∀ ρ ∈ assigns (G.shapeOf r.nodes), ∀ e ∈ r.edges, ¬ e.1 < G.T →
        edgeWeight S G (kleene S G n) e.1 (e.2.map (fun v => ρ[v]?.getD 0)) =
        S.sum ((derivs G n (e.1 - G.T)).map
          (fun d => derivCell S G n d (e.2.map (fun v => ρ[v]?.getD 0))))) :
    S.sum ((tuples ((r.edges.filter (fun e => e.1 ≥ G.T)).map (fun e => derivs G n (e.1 - G.T)))).map
      (fun cs => derivCell S G (n+1) (Deriv.mk ri cs) a)) = ruleCell S G (kleene S G n) r a := by
  simp only [derivCell_succ, hri, Option.getD_some]
  rw [sum_comm hS]
  unfold ruleCell
  congr 1
  apply List.map_congr_left
  intro ρ hρ
  rw [core S hS G (kleene S G n) n ρ r.edges (hnt ρ (List.mem_filter.1 hρ).1)]
  rfl

/-- **Kleene iteration = sums over derivations of bounded depth** (any commutative semiring):
`F^n(0)[X][a] = Σ_{d ∈ derivs X n} weight d a`, where the weight of a derivation is the sum over the
assignments of its rule's nodes of the product of the terminal weights and the children's weights.

`hty` is strengthened w.r.t. the first draft of this statement by the conjunct
`∀ v ∈ e.2, v < r.nodes.length` (attachment nodes of every edge are node positions of the rule).
Without it the statement is false: an out-of-range attachment node reads node label `0` and index `0`,
and if `G.dom 0 = 0` the child's tensor is empty (cell = zero) while the derivation weight is not.
Falsifying input (semiring ℕ with + and *), `n = 2`, `X = 0`, `a = []`:
`G = ⟨nls := [], terms := [], nts := [[], [0]], start := 0,
      rules := [⟨0, [], [], [(1, [3])]⟩, ⟨1, [], [7], []⟩], weights := []⟩`
satisfies the original `hty`, `kleene 2 = [some [0], some []]` but `derivSum 2 0 = [1]`.

Original hypothesis:
```
    (hty : ∀ r ∈ G.rules, r.lhs < G.nts.length ∧
        G.shapeOf (r.ext.map (fun v => r.nodes[v]?.getD 0)) = G.shapeOf (G.nts[r.lhs]?.getD []) ∧
        ∀ e ∈ r.edges, e.1 < G.T + G.nts.length ∧
          (e.2.map (fun v => r.nodes[v]?.getD 0)) = G.labelType e.1)
```
-/
theorem kleene_cell_eq_derivSum (S : SR K) (hS : SRLaws S) (G : Grammar K)
    (hty : ∀ r ∈ G.rules, r.lhs < G.nts.length ∧
        G.shapeOf (r.ext.map (fun v => r.nodes[v]?.getD 0)) = G.shapeOf (G.nts[r.lhs]?.getD []) ∧
        ∀ e ∈ r.edges, e.1 < G.T + G.nts.length ∧
          (e.2.map (fun v => r.nodes[v]?.getD 0)) = G.labelType e.1 ∧
          ∀ v ∈ e.2, v < r.nodes.length)
    (n X : Nat) (hX : X < G.nts.length) (a : List Nat) (ha : a ∈ assigns (G.shapeOf (G.nts[X]?.getD []))) :
    valCell S G (kleene S G n) X a = S.sum ((derivs G n X).map (fun d => derivCell S G n d a)) := by
  induction n generalizing X a with
  | zero =>
    simp [kleene, zeroVal, valCell, derivs, sum_nil', List.getElem?_replicate, hX]
  | succ n ih =>
    rw [kleene, F_cell S hS G _ X hX a ha]
    · rw [derivs, List.map_flatMap, sum_flatMap hS]
      have key : ∀ p ∈ G.rules.zipIdx.filter (fun p => p.1.lhs == X),
          S.sum (List.map (fun d => derivCell S G (n + 1) d a)
            (match p with
              | (r, ri) =>
                List.map (fun cs => Deriv.mk ri cs)
                  (tuples (List.map (fun e => derivs G n (e.1 - G.T))
                    (List.filter (fun e => decide (e.1 ≥ G.T)) r.edges))))) =
          (fun r => ruleCell S G (kleene S G n) r a) p.1 := by
        rintro ⟨r, ri⟩ hp
        have hmem := (List.mem_filter.1 hp).1
        have hri : G.rules[ri]? = some r := List.mk_mem_zipIdx_iff_getElem?.1 hmem
        have hr : r ∈ G.rules := List.mem_of_getElem? hri
        obtain ⟨_, _, hedges⟩ := hty r hr
        simp only [List.map_map, Function.comp_def]
        apply rule_lemma S hS G n r ri hri a
        intro ρ hρ e he hT
        obtain ⟨h1, h2, h3⟩ := hedges e he
        rw [edgeWeight_nt S G _ _ _ hT]
        apply ih (e.1 - G.T) (by omega)
        have := mem_assigns_idx G r.nodes ρ e.2 hρ h3
        rw [h2] at this
        simpa [Grammar.labelType, hT] using this
      rw [List.map_congr_left key]
      have hfilt : (G.rules.zipIdx.filter (fun p => p.1.lhs == X)).map Prod.fst = G.rulesOf X := by
        unfold Grammar.rulesOf
        conv_rhs => rw [← List.zipIdx_map_fst 0 G.rules, List.filter_map]
        rfl
      rw [← hfilt, List.map_map]
      rfl
    · intro r hr
      have := List.mem_filter.1 hr
      obtain ⟨_, h2, _⟩ := hty r this.1
      have hl : r.lhs = X := by simpa using this.2
      rw [h2, hl]

/-- the three executable semirings satisfy the laws on their carriers is C08; here: Bool, exactly -/
theorem boolSR_laws : SRLaws boolSR := by
  constructor <;> simp [boolSR]

end C01
