/-
C01 — placeholder (theorems follow)
-/
import FggsModel.Sem
