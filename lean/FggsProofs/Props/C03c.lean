/-
C03c — `J_log` (model `Jl.jlogLabel`), the Jacobian of `F` in the LOG semiring that the backward pass of Log-semiring
sum-products uses, is the LOGARITHMIC derivative of `F`: with log-values represented by their exponentials (nonnegative
rationals), the two softmaxes of `J_log` — over the rules of `X`, and over the assignments of the edge's nodes within
each cell of `X` — combine to

    J_log[X, l][a, b] · F[X][a]  =  x_l[b] · J[X, l][a, b]

where `J = Pipe.jacLabel` is the Jacobian of `F` in the real semiring (`C03.jac_is_derivative`: it IS the derivative
of `F`), `x_l[b]` the value of the label at the cell (a terminal's weight or a nonterminal's current value) and
`F[X][a]` the sum over the rules: `∂ log F_a / ∂ log x_b = (x_b / F_a) · ∂F_a/∂x_b`.  Where `F[X][a] = 0` the entry is 0
(the library's convention for a slice without probability mass, fix 538f4ed).
-/
import FggsProofs.Props.C03b
import FggsProofs.C03cLemmas
import FggsModel.JLog
import Mathlib.Tactic.Linarith
import Mathlib.Tactic.Ring
import Mathlib.Tactic.FieldSimp

set_option linter.unusedSimpArgs false
set_option linter.unusedVariables false

namespace C03
open Fggs Fggs.Sem Fggs.Pipe Fggs.Jl PipeL C03L

/-- weights and values are exponentials: nonnegative -/
def NonNeg (G : Grammar Rat) (x : Val Rat) : Prop :=
  (∀ w ∈ G.weights, ∀ c ∈ w, 0 ≤ c) ∧ (∀ (X : Nat) (t : List Rat), x[X]?.join = some t → ∀ c ∈ t, 0 ≤ c)

/-- the entry `[a, b]` of the block `(X, l)` of `J_log` -/
def jlogCell (G : Grammar Rat) (x : Val Rat) (X l : Nat) (a b : List Nat) : Rat :=
  match jlogLabel ratSR ratDiv G x X l with
  | some t => getT ratSR t (G.shapeOf (G.nts[X]?.getD []) ++ G.shapeOf (G.labelType l)) (a ++ b)
  | none => 0

/-- `F[X][a]` as `J_log` computes it: the sum over the rules that have a sum-product -/
def totCell (G : Grammar Rat) (x : Val Rat) (X : Nat) (a : List Nat) : Rat :=
  getT ratSR (ruleTotals ratSR G x X) (G.shapeOf (G.nts[X]?.getD [])) a

theorem ratSR_laws : C01.SRLaws ratSR := C03cL.ratSR_laws

/-- the denominator of the softmax over the rules is `F[X]` -/
theorem totCell_eq_F (G : Grammar Rat) (hG : GrammarWF G) (x : Val Rat) (X : Nat) (hX : X < G.nts.length)
    (a : List Nat) (ha : a ∈ assigns (G.shapeOf (G.nts[X]?.getD []))) :
    totCell G x X a = C01.valCell ratSR G (Impl.F ratSR G x) X a :=
  C03cL.totals_eq_implF ratSR G x X hX a

private theorem jlogCell_eq (G : Grammar Rat) (x : Val Rat) (X l : Nat) (a b : List Nat) :
    jlogCell G x X l a b = optCell ratSR (jlogLabel ratSR ratDiv G x X l)
      (flat (G.shapeOf (G.nts[X]?.getD []) ++ G.shapeOf (G.labelType l)) (a ++ b)) := by
  unfold jlogCell optCell
  cases jlogLabel ratSR ratDiv G x X l <;> rfl

private theorem jacCell_eq' (G : Grammar Rat) (x : Val Rat) (X l : Nat) (a b : List Nat) :
    C03.jacCell ratSR G x X l a b = optCell ratSR (jacLabel ratSR G x X l)
      (flat (G.shapeOf (G.nts[X]?.getD []) ++ G.shapeOf (G.labelType l)) (a ++ b)) := by
  unfold C03.jacCell optCell
  cases jacLabel ratSR G x X l <;> rfl

/-- **`J_log` is the logarithmic derivative of `F`**

(proof: `C03cL.jlog_times_total` — both sides are `Σ_{rules r of X, edges i of r labelled l} ruleCell (r with the edge's
nodes as extra externals) (a ++ b)`; a rule without a sum-product contributes 0 to both.  The hypotheses `hw`, `hx`,
`hl` are not used: cells outside a too short tensor read as 0 on both sides.) -/
theorem jlog_is_logDerivative (G : Grammar Rat) (hG : GrammarWF G)
    (hw : ∀ l, l < G.T → (G.weights[l]?.getD []).length = numel (G.shapeOf (G.labelType l)))
    (x : Val Rat) (hx : C03.ValShaped G x) (hnn : NonNeg G x)
    (X l : Nat) (hX : X < G.nts.length) (hl : l < G.T + G.nts.length)
    (a b : List Nat) (ha : a ∈ assigns (G.shapeOf (G.nts[X]?.getD [])))
    (hb : b ∈ assigns (G.shapeOf (G.labelType l))) :
    jlogCell G x X l a b * totCell G x X a = edgeWeight ratSR G x l b * C03.jacCell ratSR G x X l a b := by
  rw [jlogCell_eq, jacCell_eq']
  exact C03cL.jlog_times_total_jac G hG x hnn.1 hnn.2 X l hX a b ha hb

/-- sanity check on a concrete grammar: one node label with two values, terminals `a`, `b` (labels 0, 1),
nonterminals `X`, `Y` (labels 2, 3), rules `X(v) → a(v) | b(v) Y(v)`, weights `a = [1, 2]`, `b = [3, 4]`, value
`Y = [5, 6]`: `F[X] = [1 + 3·5, 2 + 4·6] = [16, 26]`, `J[X, Y] = diag(3, 4)`, `J[X, b] = diag(5, 6)`,
`J_log[X, Y] = J_log[X, b] = diag(15/16, 24/26)`, `J_log[X, a] = diag(1/16, 2/26)` -/
example :
    let G : Grammar Rat := ⟨[2], [[0], [0]], [[0], [0]], 0,
      [⟨0, [0], [0], [(0, [0])]⟩, ⟨0, [0], [0], [(1, [0]), (3, [0])]⟩], [[1, 2], [3, 4]]⟩
    let x : Val Rat := [none, some [5, 6]]
    totCell G x 0 [0] = 16 ∧ totCell G x 0 [1] = 26 ∧
    jlogCell G x 0 3 [0] [0] = 15 / 16 ∧ edgeWeight ratSR G x 3 [0] = 5 ∧ C03.jacCell ratSR G x 0 3 [0] [0] = 3 ∧
    jlogCell G x 0 3 [1] [1] = 24 / 26 ∧ edgeWeight ratSR G x 3 [1] = 6 ∧ C03.jacCell ratSR G x 0 3 [1] [1] = 4 ∧
    jlogCell G x 0 3 [0] [1] = 0 ∧ C03.jacCell ratSR G x 0 3 [0] [1] = 0 ∧
    jlogCell G x 0 0 [0] [0] = 1 / 16 ∧ edgeWeight ratSR G x 0 [0] = 1 ∧ C03.jacCell ratSR G x 0 0 [0] [0] = 1 ∧
    jlogCell G x 0 1 [1] [1] = 24 / 26 ∧ edgeWeight ratSR G x 1 [1] = 4 ∧ C03.jacCell ratSR G x 0 1 [1] [1] = 6 := by
  decide +kernel

/-- … and where `F[X][a]` is zero the entry is zero (every term has the factor `ratDiv _ 0 = 0`; `hw`, `hx`, `hnn`,
`hX`, `hl` are not used) -/
theorem jlog_zero_of_no_mass (G : Grammar Rat) (hG : GrammarWF G)
    (hw : ∀ l, l < G.T → (G.weights[l]?.getD []).length = numel (G.shapeOf (G.labelType l)))
    (x : Val Rat) (hx : C03.ValShaped G x) (hnn : NonNeg G x)
    (X l : Nat) (hX : X < G.nts.length) (hl : l < G.T + G.nts.length)
    (a b : List Nat) (ha : a ∈ assigns (G.shapeOf (G.nts[X]?.getD [])))
    (hb : b ∈ assigns (G.shapeOf (G.labelType l)))
    (h0 : totCell G x X a = 0) :
    jlogCell G x X l a b = 0 := by
  rw [jlogCell_eq]
  exact C03cL.jlog_zero_of_total_zero G hG x X l a b ha hb h0

end C03
