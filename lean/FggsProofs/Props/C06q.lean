/-
C06q — reductions along one dimension (`norm(p, dim, keepdim)`; model `It.reduceDense`, for an ARBITRARY function `g` from
fibres to elements): the result is well formed, has the operand's shape without (or with size 1 at) the reduced dimension,
and every cell is `g` applied to the fibre of the operand's DENSE tensor along `dim` through that cell.
-/
import FggsModel.Iter
import FggsProofs.Props.C06l
import FggsProofs.Props.C06n
import FggsProofs.C06lIterLemmas
import FggsProofs.C06nLemmas
import FggsProofs.C06qLemmas
import Mathlib.Tactic.Linarith
import Mathlib.Data.List.Basic

set_option linter.unusedSimpArgs false
set_option linter.unusedVariables false

namespace C06q
open Fggs Fggs.Ax Fggs.Un Fggs.Sh Fggs.It C06dL

/-- the cell of the dense tensor at an index tuple -/
def cell (t : PT) (idx : List Nat) : Ext := t.dense[flat t.vshape idx]?.getD t.default

/-- the fibre of the dense tensor along `dim` through the cell obtained by inserting `j` at position `dim` into `idx` -/
def fibreAt (t : PT) (dim : Nat) (idx : List Nat) : List Ext :=
  (List.range (t.vshape[dim]?.getD 0)).map (fun j => cell t (idx.take dim ++ [j] ++ idx.drop dim))

/-- **a reduction along a dimension of a patterned tensor is the reduction along that dimension of the dense tensor** -/
theorem reduceDense_dense (g : List Ext → Ext) (t : PT) (h : t.wf = true) (dim : Nat) (hd : dim < t.vaxes.length)
    (keepdim : Bool) (next : Nat) (hn : ∀ p ∈ t.paxes, p.1 < next) :
    ∃ r, reduceDense g t dim keepdim next = some r ∧ r.wf = true ∧
      r.vshape = (if keepdim then t.vshape.set dim 1 else t.vshape.eraseIdx dim) ∧
      ∀ idx ∈ assigns (t.vshape.eraseIdx dim),
        cell r (if keepdim then idx.take dim ++ [0] ++ idx.drop dim else idx) = g (fibreAt t dim idx) := by
  obtain ⟨d, hdd, hds, hdsh, hdde, hddf, ⟨e, he, hda⟩, _⟩ :=
    C06lL.dimToDense_spec t ((C06dL.wf_iff_struct t).1 h) dim hd next hn
  obtain ⟨hlt, hex⟩ := List.getElem?_eq_some_iff.1 he
  have hv := C06lL.split_at d.vaxes dim hlt
  rw [hex] at hv
  have hAl : (d.vaxes.take dim).length = dim := by rw [List.length_take]; omega
  have hset : d.vaxes.set dim unitAxis = d.vaxes.take dim ++ [unitAxis] ++ d.vaxes.drop (dim + 1) := by
    rw [List.set_eq_take_append_cons_drop, if_pos hlt]; simp
  have her : d.vaxes.eraseIdx dim = d.vaxes.take dim ++ d.vaxes.drop (dim + 1) :=
    List.eraseIdx_eq_take_drop_succ _ _
  generalize d.vaxes.take dim = A at hv hAl hset her
  generalize d.vaxes.drop (dim + 1) = B at hv hset her
  obtain ⟨U, hUdef⟩ : ∃ U : List Axis, U = if keepdim then [unitAxis] else [] := ⟨_, rfl⟩
  have hU : C06qL.Units U := by
    intro x hx
    cases keepdim <;> simp [hUdef] at hx
    exact hx
  have hvax : (if keepdim = true then d.vaxes.set dim unitAxis else d.vaxes.eraseIdx dim) = A ++ U ++ B := by
    cases keepdim <;> simp [hUdef, hset, her]
  have hAsl : (A.map Axis.numel).length = dim := by simpa using hAl
  have hsh : t.vshape = A.map Axis.numel ++ [e.numel] ++ B.map Axis.numel := by
    rw [← hdsh]; unfold PT.vshape; rw [hv]; simp
  have hshn : t.vshape[dim]? = some e.numel := by
    rw [hsh, List.append_assoc, List.getElem?_append_right (by omega), hAsl]; simp
  have hshE : t.vshape.eraseIdx dim = A.map Axis.numel ++ B.map Axis.numel := by
    rw [hsh, List.append_assoc, List.eraseIdx_append_of_length_le (by omega), hAsl]; simp
  have hshS : t.vshape.set dim 1 = A.map Axis.numel ++ [1] ++ B.map Axis.numel := by
    rw [hsh, List.append_assoc, List.set_append_right _ _ (by omega), hAsl]; simp
  -- the common conclusion from a description of the result's cells
  have key : ∀ r : PT, Struct r → r.vaxes = A ++ U ++ B →
      (∀ cA cB, cA ∈ assigns (A.map Axis.numel) → cB ∈ assigns (B.map Axis.numel) →
        r.dense[flat r.vshape (cA ++ List.replicate U.length 0 ++ cB)]? =
          some (g ((List.range e.numel).map (fun j => d.dense[flat d.vshape (cA ++ [j] ++ cB)]?.getD d.default)))) →
      r.wf = true ∧ r.vshape = (if keepdim = true then t.vshape.set dim 1 else t.vshape.eraseIdx dim) ∧
      ∀ idx ∈ assigns (t.vshape.eraseIdx dim),
        cell r (if keepdim = true then idx.take dim ++ [0] ++ idx.drop dim else idx) = g (fibreAt t dim idx) := by
    intro r hrs hrv hcell
    refine ⟨(C06dL.wf_iff_struct r).2 hrs, ?_, ?_⟩
    · rw [hshS, hshE]
      show r.vaxes.map Axis.numel = _
      rw [hrv]
      cases keepdim <;> simp [hUdef, C06b.unitAxis_numel]
    · intro idx hidx
      rw [hshE] at hidx
      obtain ⟨h1, h2⟩ := C06qL.mem_assigns_split hidx
      rw [hAsl] at h1 h2
      have hc := hcell _ _ h1 h2
      have hi : (if keepdim = true then idx.take dim ++ [0] ++ idx.drop dim else idx) =
          idx.take dim ++ List.replicate U.length 0 ++ idx.drop dim := by
        cases keepdim <;> simp [hUdef]
      unfold cell fibreAt cell
      rw [hi, hc, hshn, ← hdsh, ← hdde, ← hddf]
      rfl
  unfold reduceDense
  rw [hdd]
  simp only
  rw [he, hvax]
  rcases hda with hu | ⟨v, n, rfl, hind⟩
  · have heu : e = unitAxis := by
      cases e with
      | prod fs => cases fs with
        | nil => rfl
        | cons _ _ => simp [isUnit] at hu
      | phys _ _ => simp [isUnit] at hu
      | sum _ _ _ => simp [isUnit] at hu
    subst heu
    refine ⟨C06qL.unitT g d (A ++ U ++ B), rfl, key _ (C06qL.unitT_struct hds hv hU) rfl ?_⟩
    intro cA cB hcA hcB
    rw [C06qL.unitT_cell hds hv hU cA cB hcA hcB]
    rfl
  · dsimp only
    have hind' : ∀ e' ∈ A ++ B, ∀ q ∈ e'.fv, q.1 ≠ v := by
      intro e' he' q hq
      obtain ⟨k, hk, hke⟩ := List.getElem_of_mem he'
      by_cases hkA : k < A.length
      · refine hind k e' (by omega) ?_ q hq
        rw [hv, List.append_assoc, List.getElem?_append_left hkA]
        rw [List.getElem_append_left hkA] at hke
        rw [← hke]; exact List.getElem?_eq_getElem hkA
      · refine hind (k + 1) e' (by omega) ?_ q hq
        rw [List.getElem_append_right (by omega)] at hke
        rw [hv, List.append_assoc, List.getElem?_append_right (by omega),
          show k + 1 - A.length = (k - A.length) + 1 by omega, List.singleton_append, List.getElem?_cons_succ, ← hke]
        exact List.getElem?_eq_getElem _
    have hvn : (v, n) ∈ d.paxes :=
      hds.fvsub (.phys v n) (List.mem_of_getElem? he) (v, n) (by simp [Axis.fv])
    have hex' : ∃ x ∈ d.paxes, (fun x : Nat × Nat => x.1 == v) x = true := ⟨(v, n), hvn, by simp⟩
    have hlt' := List.findIdx_lt_length_of_exists hex'
    have hget := List.findIdx_getElem (w := hlt')
    set i := List.findIdx (fun x : Nat × Nat => x.1 == v) d.paxes with hi
    have hpi : d.paxes[i] = (v, n) :=
      C06dL.eq_of_mem_nodup_fst hds.nodup (List.getElem_mem hlt') hvn (by simpa using hget)
    have hp := C06lL.split_at d.paxes i hlt'
    rw [hpi] at hp
    have hPl : (d.paxes.take i).length = i := by rw [List.length_take]; omega
    generalize d.paxes.take i = P at hp hPl
    generalize d.paxes.drop (i + 1) = Q at hp
    clear_value i
    subst hPl
    have hst := C06qL.reduceT_struct (g := g) hds hv hind' hU hp
    refine ⟨C06qL.reduceT g d (A ++ U ++ B) P.length n, ?_, key _ hst rfl ?_⟩
    · exact congrArg some (C06lL.normalize_id _ hst.no1)
    · intro cA cB hcA hcB
      exact C06qL.reduceT_cell hds hv hind' hU hp cA cB hcA hcB

/-! ### non-vacuity: `g` = the last element of the fibre, on the diagonal pattern `[k, 1 + k + 0]` -/

def exT : PT := { physical := [.fin 5, .fin 7], paxes := [(0, 2)], vaxes := [.phys 0 2, .sum 1 (.phys 0 2) 0], default := .fin 0 }

example : (reduceDense (fun l => l.getLastD (.fin 9)) exT 1 false 5).map (fun r => r.dense) = some [.fin 0, .fin 7] := by decide
example : (reduceDense (fun l => l.getLastD (.fin 9)) exT 0 true 5).map (fun r => (r.vshape, r.dense)) = some ([1, 3], [.fin 0, .fin 0, .fin 7]) := by decide

end C06q
