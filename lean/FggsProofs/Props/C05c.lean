/-
C05 (meaning) — every output the relational model of `factorize_rule` admits, for ANY valid tree decomposition,
MEANS the same as the original rule: for all values of the external nodes, the recursive evaluation of the
factorized rules (sum over the internal nodes of each bag, product of the bag's original edges and of the
sub-rules' values) equals the sum over all internal nodes of the original rule of the product of all its edges
(variable elimination along the tree; commutative semiring).
-/
import FggsModel.FactorizeSem
import FggsProofs.Props.C01
import FggsProofs.Props.C05
import FggsProofs.Props.C05b
import FggsProofs.C05cLemmas
import Mathlib.Tactic.Linarith
import Mathlib.Data.List.Basic
import Mathlib.Data.List.Nodup

set_option linter.unusedSimpArgs false
set_option linter.unusedVariables false

namespace C05
open Fggs Fggs.Cj Fggs.Fz Fggs.TD

variable {K : Type}

/-- a rule as the library holds it: distinct nodes, distinct edges, edges and externals on the rule's nodes -/
structure RuleOK (orig : Rule) : Prop where
  nodes : orig.nodes.Nodup
  edges : orig.edges.Nodup
  att : ∀ e ∈ orig.edges, ∀ v ∈ e.nodes, v ∈ orig.nodes
  ext : ∀ v ∈ orig.ext, v ∈ orig.nodes

/-- **factorization preserves the meaning of the rule** -/
theorem factorization_preserves_value (S : Sem.SR K) (hS : C01.SRLaws S) (I : Meaning K)
    (orig : Rule) (avoid : List String) (out : List Rule) (hok : RuleOK orig)
    (h : factorizationOf orig avoid out = true)
    (hv : validTD (primal orig) (tdOf orig avoid out) = true)
    (root : Rule) (hroot : root ∈ out) (hlhs : root.lhs = orig.lhs) (ρ0 : Node → Nat) :
    factValue S I avoid out out.length root (root.ext.map (fun v => (v, ρ0 v)))
      = origValue S I orig (orig.ext.map (fun v => (v, ρ0 v))) := by
  obtain ⟨root', C⟩ := C05c.Ctx.of h hv
  have hroot' : root = root' := C.F.root_only root hroot hlhs
  subst hroot'
  have hext : root.ext = orig.ext := C.F.root_ext
  -- the factorized side: sum over the nodes collected below the root of the product of the edges collected
  rw [C05c.main_claim hS I C out.length root 0 hroot (C05b.AncN.refl _) (by omega) ρ0]
  -- the original side, as an iterated sum over valuations
  have hint_nd : (internal orig).Nodup := hok.nodes.filter _
  have hdis : ∀ v ∈ internal orig, v ∉ (orig.ext.map (fun v => (v, ρ0 v))).map (·.1) := by
    intro v hv
    rw [List.map_map]
    simp only [Function.comp_def, List.map_id']
    exact (C05c.mem_internal.1 hv).2
  have horig : origValue S I orig (orig.ext.map (fun v => (v, ρ0 v))) =
      C05c.bsum S I.dom (internal orig) (valOf (orig.ext.map (fun v => (v, ρ0 v)))) (C05c.eprod S I orig.edges) :=
    C05c.sum_asgs_eq_bsum hS I.dom (internal orig) _ (C05c.eprod S I orig.edges) hint_nd hdis
  rw [horig]
  -- nodes: collected = internal nodes of `orig`, up to order
  have hpn : (C05c.collect avoid out internal out.length root).Perm (internal orig) := by
    rw [List.perm_ext_iff_of_nodup
      (C.collect_nodup internal (fun d hd => (C.nodes_nodup d hd).filter _) C.internal_inj _ hroot) hint_nd]
    intro v
    constructor
    · intro hv'
      obtain ⟨hne, d, hd, _, hvd⟩ := C.below_spec _ hroot hv'
      rw [hext] at hne
      exact C05c.mem_internal.2 ⟨C.F.nodes_sub d hd v hvd, hne⟩
    · intro hv'
      obtain ⟨hvn, hne⟩ := C05c.mem_internal.1 hv'
      obtain ⟨d, hd, hvd⟩ := C05b.nodes_covered orig avoid out h hv v hvn
      rcases C.below_complete out.length hroot (C05b.AncN.refl _) (by omega)
        ⟨d, hd, C.T.reach d hd, hvd⟩ with h' | h'
      · rw [hext] at h'; exact absurd h' hne
      · exact h'
  -- edges: collected = edges of `orig`, up to order
  have hpe : (C05c.collect avoid out (oldEdges avoid) out.length root).Perm orig.edges := by
    rw [List.perm_ext_iff_of_nodup
      (C.collect_nodup (oldEdges avoid) C.F.old_nodup ?_ _ hroot) hok.edges]
    · intro e
      constructor
      · intro he
        obtain ⟨d, hd, _, hed⟩ := C.collect_sub (oldEdges avoid) _ hroot he
        exact (C.F.old_sub d hd e hed).1
      · intro he
        obtain ⟨d, ⟨hd, hed⟩, _⟩ := C05b.edges_partition orig avoid out h hv e he (hok.att e he)
        exact C.collect_complete (oldEdges avoid) out.length hroot (C05b.AncN.refl _) (by omega) hd
          (C.T.reach d hd) hed
    · intro d hd d' hd' e hed hed'
      have he : e ∈ orig.edges := (C.F.old_sub d hd e hed).1
      exact (C05b.edges_partition orig avoid out h hv e he (hok.att e he)).unique ⟨hd, hed⟩ ⟨hd', hed'⟩
  rw [C05c.bsum_perm hS I.dom hpn]
  have hprod : ∀ σ, C05c.eprod S I (C05c.collect avoid out (oldEdges avoid) out.length root) σ =
      C05c.eprod S I orig.edges σ := fun σ => C05c.prod_perm hS _ _ (hpe.map _)
  rw [C05c.bsum_congr S I.dom _ _ hprod]
  apply C05c.bsum_dep S I.dom (P := fun v => v ∈ orig.nodes) (C05c.eprod_dep S I orig.edges _ hok.att)
  intro v hvn
  by_cases hve : v ∈ orig.ext
  · right
    exact (C05c.valOf_map_self orig.ext ρ0 v hve).symm
  · exact Or.inl (C05c.mem_internal.2 ⟨hvn, hve⟩)

/-! non-vacuity: a chain `S(x0) → a(x0,x1) b(x1,x2)` factorized into `S(x0) → a(x0,x1) X_1(x1)`, `X_1(x1) → b(x1,x2)` -/
private def n0 : Node := ⟨"N", .int 0⟩
private def n1 : Node := ⟨"N", .int 1⟩
private def n2 : Node := ⟨"N", .int 2⟩
private def exS : Label := ⟨"S", ["N"], false⟩
private def exX : Label := ⟨"X_1", ["N"], false⟩
private def ea : Edge := ⟨⟨"a", ["N", "N"], true⟩, [n0, n1], .int 10⟩
private def eb : Edge := ⟨⟨"b", ["N", "N"], true⟩, [n1, n2], .int 11⟩
private def exOrig : Rule := ⟨exS, [n0, n1, n2], [ea, eb], [n0]⟩
private def exOut : List Rule := [⟨exS, [n0, n1], [ea, ⟨exX, [n1], .int 12⟩], [n0]⟩, ⟨exX, [n1, n2], [eb], [n1]⟩]

example : factorizationOf exOrig ["S", "a", "b"] exOut = true := by decide

end C05
