/-
C12b — Results do not depend on how the grammar is written down, lifted from the one-step / one-rule
lemmas of C12 to whole Kleene iterations (every `n`):

1. two presentations of a grammar (rule list permuted; in every rule the edge list permuted and the nodes
   renumbered) have *exactly* the same Kleene iterates;
2. permuting the values of a domain together with the corresponding axes of all terminal weight tensors
   permutes the corresponding axes of every Kleene iterate (in particular of the start tensor).
-/
import FggsModel.Sem
import FggsProofs.Props.C01
import FggsProofs.Props.C12
import FggsProofs.C12bLemmas

set_option linter.unusedSimpArgs false
set_option linter.unusedVariables false

namespace C12b
open Fggs Fggs.Sem

variable {K : Type}

/-! ## 1. presentation invariance -/

/-- `G'` is `G` written down differently: the rule list is permuted, and in every rule the edge list is
permuted and the nodes are renumbered by a permutation `σ` of the node positions (`C12.renumber`). -/
structure SamePresentation (G G' : Grammar K) : Prop where
  nls : G'.nls = G.nls
  terms : G'.terms = G.terms
  nts : G'.nts = G.nts
  start : G'.start = G.start
  weights : G'.weights = G.weights
  rules : ∃ rs : List Rule, G'.rules.Perm rs ∧
    List.Forall₂ (fun r r' => ∃ σ : List Nat, σ.Perm (List.range r.nodes.length) ∧
      r'.lhs = r.lhs ∧ r'.nodes = (C12.renumber σ r).nodes ∧ r'.ext = (C12.renumber σ r).ext ∧
      r'.edges.Perm (C12.renumber σ r).edges) G.rules rs

/-- **One application of the equation system is the same for two presentations** — the whole value, not
only cell by cell, and for every argument `x`.  (No shape side condition is needed.) -/
theorem F_samePresentation (S : SR K) (hS : C01.SRLaws S) (G G' : Grammar K) (h : SamePresentation G G')
    (hext : ∀ r ∈ G.rules, ∀ v ∈ r.ext, v < r.nodes.length)
    (hatt : ∀ r ∈ G.rules, ∀ e ∈ r.edges, ∀ v ∈ e.2, v < r.nodes.length) (x : Val K) :
    F S G' x = F S G x := by
  obtain ⟨h1, h2, h3, _, h5, rs, hp, hf⟩ := h
  exact C12bLemmas.F_samePresentation S hS G G' h1 h2 h3 h5 rs hp hf hext hatt x

/-- **Presentation invariance of the Kleene iterates, for every `n`**: reordering the rules, reordering
the edges of every rule and renumbering the nodes of every rule leaves `F^n(0)` unchanged — exact equality
of the values of all nonterminals. -/
theorem kleene_samePresentation (S : SR K) (hS : C01.SRLaws S) (G G' : Grammar K) (h : SamePresentation G G')
    (hext : ∀ r ∈ G.rules, ∀ v ∈ r.ext, v < r.nodes.length)
    (hatt : ∀ r ∈ G.rules, ∀ e ∈ r.edges, ∀ v ∈ e.2, v < r.nodes.length) (n : Nat) :
    kleene S G' n = kleene S G n := by
  induction n with
  | zero => simp only [kleene, zeroVal, h.nts]
  | succ n ih => rw [kleene, kleene, ih, F_samePresentation S hS G G' h hext hatt]

/-- the cell-wise form: every cell of every nonterminal (in particular of the start nonterminal
`G'.start = G.start`) agrees, for every `n` -/
theorem kleene_cell_samePresentation (S : SR K) (hS : C01.SRLaws S) (G G' : Grammar K)
    (h : SamePresentation G G')
    (hext : ∀ r ∈ G.rules, ∀ v ∈ r.ext, v < r.nodes.length)
    (hatt : ∀ r ∈ G.rules, ∀ e ∈ r.edges, ∀ v ∈ e.2, v < r.nodes.length) (n X : Nat) (a : List Nat) :
    C01.valCell S G' (kleene S G' n) X a = C01.valCell S G (kleene S G n) X a := by
  rw [kleene_samePresentation S hS G G' h hext hatt n]
  unfold C01.valCell
  rw [h.nts, C12bLemmas.shapeOf_congr G G' h.nls]

/-! ### non-vacuity: a concrete grammar (domain of size 2, two rules, one of them recursive) -/

/-- `X(a) = Σ_b w(a,b)` and `X(a) = Σ_b w(a,b)·X(b)` -/
private def exG : Grammar Bool :=
  { nls := [2], terms := [[0, 0]], nts := [[0]], start := 0,
    rules := [⟨0, [0, 0], [0], [(0, [0, 1])]⟩, ⟨0, [0, 0], [0], [(0, [0, 1]), (1, [1])]⟩],
    weights := [[true, false, false, false]] }

/-- the same grammar: rules swapped; in the recursive rule the two nodes are swapped and the two edges too -/
private def exG' : Grammar Bool :=
  { nls := [2], terms := [[0, 0]], nts := [[0]], start := 0,
    rules := [⟨0, [0, 0], [1], [(1, [0]), (0, [1, 0])]⟩, ⟨0, [0, 0], [0], [(0, [0, 1])]⟩],
    weights := [[true, false, false, false]] }

private theorem exSame : SamePresentation exG exG' where
  nls := rfl
  terms := rfl
  nts := rfl
  start := rfl
  weights := rfl
  rules := by
    refine ⟨[⟨0, [0, 0], [0], [(0, [0, 1])]⟩, ⟨0, [0, 0], [1], [(1, [0]), (0, [1, 0])]⟩], by decide, ?_⟩
    refine List.Forall₂.cons ⟨[0, 1], by decide, rfl, by decide, by decide, by decide⟩
      (List.Forall₂.cons ⟨[1, 0], by decide, rfl, by decide, by decide, by decide⟩ List.Forall₂.nil)

example (n : Nat) : kleene boolSR exG' n = kleene boolSR exG n :=
  kleene_samePresentation boolSR C01.boolSR_laws exG exG' exSame (by decide) (by decide) n

/-! ## 2. permuting the values of a domain -/

/-- the value map: values of node label `l` go through `π`, all other values stay -/
def permVal (l : Nat) (π : List Nat) (lab i : Nat) : Nat := if lab = l then π[i]?.getD 0 else i

/-- an index tuple of type `ty` with every position of label `l` mapped through `π` -/
def permIdx (l : Nat) (π : List Nat) (ty a : List Nat) : List Nat := List.zipWith (permVal l π) ty a

/-- a tensor of type `ty` with every axis of label `l` permuted: the new entry at `idx` is the old entry
at `permIdx idx` (new index `i` of such an axis holds the old value at index `π[i]`) -/
def permTensor (G : Grammar K) (l : Nat) (π : List Nat) (ty : List Nat) (w : List K) : List K :=
  (assigns (G.shapeOf ty)).filterMap (fun idx => w[flat (G.shapeOf ty) (permIdx l π ty idx)]?)

/-- the grammar whose terminal weight tensors have every axis of node label `l` permuted by `π` -/
def permuteDomain (G : Grammar K) (l : Nat) (π : List Nat) : Grammar K :=
  { G with weights := G.weights.zipIdx.map (fun p => permTensor G l π (G.terms[p.2]?.getD []) p.1) }

private theorem permVal_lt (G : Grammar K) (l : Nat) (π : List Nat) (hπ : π.Perm (List.range (G.dom l)))
    (lab i : Nat) (hi : i < G.dom lab) : permVal l π lab i < G.dom lab := by
  unfold permVal
  split
  · next h =>
    subst h
    have hlen : π.length = G.dom lab := by simpa using hπ.length_eq
    rw [List.getElem?_eq_getElem (by omega), Option.getD_some]
    exact List.mem_range.1 (hπ.mem_iff.1 (List.getElem_mem _))
  · exact hi

private theorem permVal_inj (G : Grammar K) (l : Nat) (π : List Nat) (hπ : π.Perm (List.range (G.dom l)))
    (lab i j : Nat) (hi : i < G.dom lab) (hj : j < G.dom lab) (h : permVal l π lab i = permVal l π lab j) :
    i = j := by
  unfold permVal at h
  split at h
  · next hl =>
    subst hl
    have hlen : π.length = G.dom lab := by simpa using hπ.length_eq
    have hnd : π.Nodup := hπ.nodup_iff.2 List.nodup_range
    rw [List.getElem?_eq_getElem (show i < π.length by omega),
      List.getElem?_eq_getElem (show j < π.length by omega), Option.getD_some, Option.getD_some] at h
    exact (hnd.getElem_inj_iff).1 h
  · exact h

private theorem permIdx_mem (G : Grammar K) (l : Nat) (π : List Nat) (hπ : π.Perm (List.range (G.dom l)))
    (ty a : List Nat) (ha : a ∈ assigns (G.shapeOf ty)) : permIdx l π ty a ∈ assigns (G.shapeOf ty) :=
  C12bLemmas.zipWith_mem_assigns G.dom (permVal l π) (permVal_lt G l π hπ) ty a ha

private theorem getT_permTensor (S : SR K) (G : Grammar K) (l : Nat) (π : List Nat)
    (hπ : π.Perm (List.range (G.dom l))) (ty : List Nat) (w : List K)
    (hlen : numel (G.shapeOf ty) ≤ w.length) (idx : List Nat) (hidx : idx ∈ assigns (G.shapeOf ty)) :
    getT S (permTensor G l π ty w) (G.shapeOf ty) idx = getT S w (G.shapeOf ty) (permIdx l π ty idx) := by
  have e : permTensor G l π ty w =
      (assigns (G.shapeOf ty)).map (fun idx => getT S w (G.shapeOf ty) (permIdx l π ty idx)) := by
    unfold permTensor
    rw [← List.filterMap_eq_map]
    apply List.filterMap_congr
    intro a ha
    have := C12bLemmas.flat_lt (C12bLemmas.mem_assigns.1 (permIdx_mem G l π hπ ty a ha))
    simp only [Function.comp_def, getT]
    rw [List.getElem?_eq_getElem (by omega), Option.getD_some]
  rw [e, C01.getT_assigns_map S _ _ idx hidx]

private theorem getT_nil (S : SR K) (shape idx : List Nat) : getT S [] shape idx = S.zero := by
  simp [getT]

private theorem edgeWeight_perm_term (S : SR K) (G : Grammar K) (l : Nat) (π : List Nat)
    (hπ : π.Perm (List.range (G.dom l)))
    (hw : ∀ p ∈ G.weights.zipIdx, numel (G.shapeOf (G.terms[p.2]?.getD [])) ≤ p.1.length)
    (x x' : Val K) (t : Nat) (ht : t < G.T) (idx : List Nat)
    (hidx : idx ∈ assigns (G.shapeOf (G.labelType t))) :
    edgeWeight S (permuteDomain G l π) x' t idx = edgeWeight S G x t (permIdx l π (G.labelType t) idx) := by
  have hT : (permuteDomain G l π).T = G.T := rfl
  have hlab : G.labelType t = G.terms[t]?.getD [] := by simp [Grammar.labelType, ht]
  have hL : (permuteDomain G l π).labelType t = G.labelType t := rfl
  have hsh : ∀ ty, (permuteDomain G l π).shapeOf ty = G.shapeOf ty := fun _ => rfl
  unfold edgeWeight
  simp only [hT, ht, if_true, hL, hsh]
  have hwt : (permuteDomain G l π).weights[t]? =
      (G.weights[t]?).map (fun w => permTensor G l π (G.terms[t]?.getD []) w) := by
    simp only [permuteDomain, List.getElem?_map, List.getElem?_zipIdx, Option.map_map, Nat.zero_add]
    rfl
  rw [hwt]
  cases hwe : G.weights[t]? with
  | none => simp only [Option.map_none, Option.getD_none, getT_nil]
  | some w =>
    simp only [Option.map_some, Option.getD_some]
    rw [hlab] at hidx ⊢
    exact getT_permTensor S G l π hπ _ w (hw (w, t) (List.mk_mem_zipIdx_iff_getElem?.2 hwe)) idx hidx

private theorem edgeWeight_nt (S : SR K) (G : Grammar K) (x : Val K) (l : Nat) (idx : List Nat)
    (h : ¬ l < G.T) : edgeWeight S G x l idx = C01.valCell S G x (l - G.T) idx := by
  simp only [edgeWeight, C01.valCell, Grammar.labelType, h, if_false]
  rfl

/-- **One application of the equation system commutes with the domain permutation** (cell-wise congruence:
`F` only looks at the cells of its argument): if `x'` is `x` with the axes of label `l` permuted, then
`F (permuteDomain G l π) x'` is `F G x` with the axes of label `l` permuted. -/
theorem F_permuteDomain (S : SR K) (hS : C01.SRLaws S) (G : Grammar K) (l : Nat) (π : List Nat)
    (hπ : π.Perm (List.range (G.dom l)))
    (hw : ∀ p ∈ G.weights.zipIdx, numel (G.shapeOf (G.terms[p.2]?.getD [])) ≤ p.1.length)
    (hty : ∀ r ∈ G.rules, r.ext.map (fun v => r.nodes[v]?.getD 0) = G.nts[r.lhs]?.getD [] ∧
        (∀ v ∈ r.ext, v < r.nodes.length) ∧
        ∀ e ∈ r.edges, e.2.map (fun v => r.nodes[v]?.getD 0) = G.labelType e.1 ∧ ∀ v ∈ e.2, v < r.nodes.length)
    (x x' : Val K)
    (hx : ∀ X a, a ∈ assigns (G.shapeOf (G.nts[X]?.getD [])) →
      C01.valCell S (permuteDomain G l π) x' X a = C01.valCell S G x X (permIdx l π (G.nts[X]?.getD []) a))
    (X : Nat) (a : List Nat) (ha : a ∈ assigns (G.shapeOf (G.nts[X]?.getD []))) :
    C01.valCell S (permuteDomain G l π) (F S (permuteDomain G l π) x') X a =
      C01.valCell S G (F S G x) X (permIdx l π (G.nts[X]?.getD []) a) := by
  have hs : ∀ r ∈ G.rulesOf X, r ∈ G.rules ∧ r.lhs = X := by
    intro r hr
    have := List.mem_filter.1 hr
    exact ⟨this.1, by simpa using this.2⟩
  have hshape : ∀ r ∈ G.rulesOf X,
      G.shapeOf (r.ext.map (fun v => r.nodes[v]?.getD 0)) = G.shapeOf (G.nts[X]?.getD []) := by
    intro r hr
    obtain ⟨hr1, hr2⟩ := hs r hr
    rw [(hty r hr1).1, hr2]
  by_cases hX : X < G.nts.length
  · rw [C01.F_cell S hS (permuteDomain G l π) x' X hX a ha hshape,
      C01.F_cell S hS G x X hX _ (permIdx_mem G l π hπ _ a ha) hshape]
    show S.sum ((G.rulesOf X).map _) = _
    congr 1
    apply List.map_congr_left
    intro r hr
    obtain ⟨hr1, hr2⟩ := hs r hr
    obtain ⟨h1, h2, h3⟩ := hty r hr1
    have key := C12bLemmas.ruleCell_reindex S hS G (permuteDomain G l π) x x' r (permVal l π) rfl
      (permVal_lt G l π hπ) (permVal_inj G l π hπ) h2 (fun e he => (h3 e he).2) (by
        intro e he idx hidx
        rw [(h3 e he).1] at hidx ⊢
        by_cases hT : e.1 < G.T
        · exact edgeWeight_perm_term S G l π hπ hw x x' e.1 hT idx hidx
        · rw [edgeWeight_nt S (permuteDomain G l π) x' e.1 idx hT, edgeWeight_nt S G x e.1 _ hT]
          have hlab : G.labelType e.1 = G.nts[e.1 - G.T]?.getD [] := by simp [Grammar.labelType, hT]
          rw [hlab] at hidx ⊢
          exact hx (e.1 - G.T) idx hidx) a (by rw [h1, hr2]; exact ha)
    rw [h1, hr2] at key
    exact key
  · have e1 : ∀ (G : Grammar K) (x : Val K) (b : List Nat), G.nts.length ≤ X →
        C01.valCell S G (F S G x) X b = S.zero := by
      intro G x b h
      unfold C01.valCell F
      rw [List.getElem?_eq_none (by simpa using h)]
      rfl
    rw [e1 _ _ _ (by exact Nat.le_of_not_lt hX), e1 _ _ _ (Nat.le_of_not_lt hX)]

/-- **Domain permutation, for every `n`**: permuting the values of the domain of node label `l` by `π`
together with the corresponding axes of all terminal weight tensors permutes the corresponding axes of
every Kleene iterate of every nonterminal — in particular the start tensor is permuted accordingly. -/
theorem kleene_permuteDomain (S : SR K) (hS : C01.SRLaws S) (G : Grammar K) (l : Nat) (π : List Nat)
    (hπ : π.Perm (List.range (G.dom l)))
    (hw : ∀ p ∈ G.weights.zipIdx, numel (G.shapeOf (G.terms[p.2]?.getD [])) ≤ p.1.length)
    (hty : ∀ r ∈ G.rules, r.ext.map (fun v => r.nodes[v]?.getD 0) = G.nts[r.lhs]?.getD [] ∧
        (∀ v ∈ r.ext, v < r.nodes.length) ∧
        ∀ e ∈ r.edges, e.2.map (fun v => r.nodes[v]?.getD 0) = G.labelType e.1 ∧ ∀ v ∈ e.2, v < r.nodes.length)
    (n X : Nat) (a : List Nat) (ha : a ∈ assigns (G.shapeOf (G.nts[X]?.getD []))) :
    C01.valCell S (permuteDomain G l π) (kleene S (permuteDomain G l π) n) X a =
      C01.valCell S G (kleene S G n) X (permIdx l π (G.nts[X]?.getD []) a) := by
  induction n generalizing X a with
  | zero =>
    have e0 : ∀ (G : Grammar K) (b : List Nat), C01.valCell S G (kleene S G 0) X b = S.zero := by
      intro G b
      unfold C01.valCell kleene zeroVal
      by_cases h : X < G.nts.length <;> simp [List.getElem?_replicate, h]
    rw [e0, e0]
  | succ n ih =>
    rw [kleene, kleene]
    exact F_permuteDomain S hS G l π hπ hw hty _ _ (fun X a ha => ih X a ha) X a ha

/-! ### non-vacuity: the grammar `exG` above (domain of size 2, two rules), values swapped by `π = [1, 0]` -/

example (n X : Nat) (a : List Nat) (ha : a ∈ assigns (exG.shapeOf (exG.nts[X]?.getD []))) :
    C01.valCell boolSR (permuteDomain exG 0 [1, 0]) (kleene boolSR (permuteDomain exG 0 [1, 0]) n) X a =
      C01.valCell boolSR exG (kleene boolSR exG n) X (permIdx 0 [1, 0] (exG.nts[X]?.getD []) a) :=
  kleene_permuteDomain boolSR C01.boolSR_laws exG 0 [1, 0] (by decide) (by decide) (by decide) n X a ha

/-- the permuted grammar and its value are what one expects (the result is not symmetric in the two values) -/
example : (permuteDomain exG 0 [1, 0]).weights = [[false, false, false, true]] ∧
    kleene boolSR exG 2 = [some [true, false]] ∧
    kleene boolSR (permuteDomain exG 0 [1, 0]) 2 = [some [false, true]] := by decide

/-! ### the hypotheses of `kleene_permuteDomain` cannot be dropped -/

/-- Excluded point of `hw` (a weight tensor shorter than its shape; the missing cells read as zero):
`permTensor` can only permute cells that exist, so the statement fails.  Terminal of type `[0]`, domain
size 2, weight tensor `[true]` (instead of two cells), one rule `X(a) = w(a)`, `π = [1, 0]`. -/
theorem kleene_permuteDomain_needs_weight_length :
    let G : Grammar Bool := ⟨[2], [[0]], [[0]], 0, [⟨0, [0], [0], [(0, [0])]⟩], [[true]]⟩
    C01.valCell boolSR (permuteDomain G 0 [1, 0]) (kleene boolSR (permuteDomain G 0 [1, 0]) 1) 0 [0] = true ∧
    C01.valCell boolSR G (kleene boolSR G 1) 0 (permIdx 0 [1, 0] [0] [0]) = false := by decide

/-- Excluded point of `hty` (the type of the external nodes of a rule is the type of its left-hand side):
equality of the *shapes* (the side condition of `C01.F_cell` / `C12.F_perm_rules`) is not enough.  Two node
labels with domains of size 2, nonterminal of type `[0]` whose only rule has an external node of label `1`,
terminal of type `[1]`: permuting the domain of label `0` permutes nothing in the permuted grammar. -/
theorem kleene_permuteDomain_needs_ext_type :
    let G : Grammar Bool := ⟨[2, 2], [[1]], [[0]], 0, [⟨0, [1], [0], [(0, [0])]⟩], [[true, false]]⟩
    G.shapeOf ([0].map (fun v => [1][v]?.getD 0)) = G.shapeOf (G.nts[0]?.getD []) ∧
    C01.valCell boolSR (permuteDomain G 0 [1, 0]) (kleene boolSR (permuteDomain G 0 [1, 0]) 1) 0 [0] = true ∧
    C01.valCell boolSR G (kleene boolSR G 1) 0 (permIdx 0 [1, 0] [0] [0]) = false := by decide

/-- Excluded point of `hty` (external nodes are node positions of the rule): an out-of-range external node
reads node label `0` (so the types still match) and value `0`, which no permutation moves.  Domain of
size 2, nonterminal of type `[0]`, one rule without nodes whose external node is position `5`. -/
theorem kleene_permuteDomain_needs_ext_range :
    let G : Grammar Bool := ⟨[2], [], [[0]], 0, [⟨0, [], [5], []⟩], []⟩
    [5].map (fun v => ([] : List Nat)[v]?.getD 0) = G.nts[0]?.getD [] ∧
    C01.valCell boolSR (permuteDomain G 0 [1, 0]) (kleene boolSR (permuteDomain G 0 [1, 0]) 1) 0 [0] = true ∧
    C01.valCell boolSR G (kleene boolSR G 1) 0 (permIdx 0 [1, 0] [0] [0]) = false := by decide

end C12b
