/-
C08 — The four semirings obey the semiring laws on their whole value domain.

Theorems about `Fggs.Impl.real/viterbi/bool` and the log-side `logMul/logAdd?/logStar?`
(the literal compositions of IEEE primitives transcribed from fggs/semirings.py), over exact
rationals: every finite float is a rational, so the carriers below contain every float the
semirings can hold.  Rounding is outside the model (DESIGN 2.9).
-/
import FggsModel.Semiring
import Mathlib.Tactic.Linarith
import Mathlib.Tactic.Ring
import Mathlib.Tactic.SplitIfs
import Mathlib.Tactic.Positivity
import Mathlib.Tactic.FieldSimp
import Mathlib.Algebra.Order.Field.Rat

set_option linter.unusedSimpArgs false
set_option linter.unusedVariables false

namespace C08
open Fggs Fggs.Ext Fggs.Impl

/-! ### Carriers -/

/-- carrier of RealSemiring: `[0, ∞]` -/
def RealC : Ext → Prop
  | .fin a => 0 ≤ a
  | .pinf => True
  | _ => False

/-- carrier of Viterbi/LogSemiring: `[-∞, ∞]` -/
def VitC : Ext → Prop
  | .nan => False
  | _ => True

theorem realC_cases {x : Ext} (h : RealC x) :
    x = pinf ∨ x = fin 0 ∨ ∃ a, 0 < a ∧ x = fin a := by
  cases x with
  | nan => exact absurd h id
  | ninf => exact absurd h id
  | pinf => exact Or.inl rfl
  | fin a =>
    rcases (show (0:Rat) ≤ a from h).eq_or_lt with h0 | h0
    · exact Or.inr (Or.inl (by rw [← h0]))
    · exact Or.inr (Or.inr ⟨a, h0, rfl⟩)

/-! ### RealSemiring -/
section Real
variable (big : Rat)

theorem real_add_closed (x y : Ext) (hx : RealC x) (hy : RealC y) : RealC (realAdd x y) := by
  rcases realC_cases hx with rfl | rfl | ⟨a, ha, rfl⟩ <;>
  rcases realC_cases hy with rfl | rfl | ⟨b, hb, rfl⟩ <;>
  simp [RealC, realAdd, Ext.add, *, le_of_lt, add_nonneg]

theorem real_mul_closed (x y : Ext) (hx : RealC x) (hy : RealC y) : RealC (realMul big x y) := by
  rcases realC_cases hx with rfl | rfl | ⟨a, ha, rfl⟩ <;>
  rcases realC_cases hy with rfl | rfl | ⟨b, hb, rfl⟩ <;>
  simp [RealC, realMul, Ext.mul, nanToNum, *, ne_of_gt, le_of_lt]

theorem real_add_comm (x y : Ext) : realAdd x y = realAdd y x := by
  cases x <;> cases y <;> simp [realAdd, Ext.add, add_comm]

theorem real_add_assoc (x y z : Ext) (hx : RealC x) (hy : RealC y) (hz : RealC z) :
    realAdd (realAdd x y) z = realAdd x (realAdd y z) := by
  rcases realC_cases hx with rfl | rfl | ⟨a, ha, rfl⟩ <;>
  rcases realC_cases hy with rfl | rfl | ⟨b, hb, rfl⟩ <;>
  rcases realC_cases hz with rfl | rfl | ⟨c, hc, rfl⟩ <;>
  simp [realAdd, Ext.add, add_assoc]

theorem real_zero_add (x : Ext) (hx : RealC x) : realAdd ((real big).fromInt 0) x = x := by
  rcases realC_cases hx with rfl | rfl | ⟨a, ha, rfl⟩ <;> simp [real, ofNat, realAdd, Ext.add]

theorem real_mul_comm (x y : Ext) : realMul big x y = realMul big y x := by
  cases x <;> cases y <;> simp [realMul, Ext.mul, mul_comm]

theorem real_mul_assoc (x y z : Ext) (hx : RealC x) (hy : RealC y) (hz : RealC z) :
    realMul big (realMul big x y) z = realMul big x (realMul big y z) := by
  rcases realC_cases hx with rfl | rfl | ⟨a, ha, rfl⟩ <;>
  rcases realC_cases hy with rfl | rfl | ⟨b, hb, rfl⟩ <;>
  rcases realC_cases hz with rfl | rfl | ⟨c, hc, rfl⟩ <;>
  simp [realMul, Ext.mul, nanToNum, *, ne_of_gt, mul_assoc]

theorem real_one_mul (x : Ext) (hx : RealC x) : realMul big ((real big).fromInt 1) x = x := by
  rcases realC_cases hx with rfl | rfl | ⟨a, ha, rfl⟩ <;>
  simp [real, ofNat, realMul, Ext.mul, nanToNum]

/-- zero annihilates every element of the carrier, including the infinite one: `0 × ∞ = 0` -/
theorem real_zero_mul (x : Ext) (hx : RealC x) :
    realMul big ((real big).fromInt 0) x = (real big).fromInt 0 := by
  rcases realC_cases hx with rfl | rfl | ⟨a, ha, rfl⟩ <;>
  simp [real, ofNat, realMul, Ext.mul, nanToNum]

theorem real_distrib (x y z : Ext) (hx : RealC x) (hy : RealC y) (hz : RealC z) :
    realMul big x (realAdd y z) = realAdd (realMul big x y) (realMul big x z) := by
  rcases realC_cases hx with rfl | rfl | ⟨a, ha, rfl⟩ <;>
  rcases realC_cases hy with rfl | rfl | ⟨b, hb, rfl⟩ <;>
  rcases realC_cases hz with rfl | rfl | ⟨c, hc, rfl⟩ <;>
  simp [realMul, realAdd, Ext.add, Ext.mul, nanToNum, *, ne_of_gt, add_pos, mul_add]

/-- `from_int` is a homomorphism from the naturals … -/
theorem real_fromInt_succ (n : Nat) :
    (real big).fromInt (n + 1) = (real big).add ((real big).fromInt n) ((real big).fromInt 1) := by
  simp [real, ofNat, realAdd, Ext.add]

/-- … and the only one. -/
theorem real_fromInt_unique (f : Nat → Ext) (h0 : f 0 = (real big).fromInt 0)
    (hs : ∀ n, f (n + 1) = (real big).add (f n) ((real big).fromInt 1)) :
    ∀ n, f n = (real big).fromInt n := by
  intro n
  induction n with
  | zero => exact h0
  | succ n ih => rw [hs, ih]; exact (real_fromInt_succ big n).symm

theorem real_fromInt_mul (m n : Nat) :
    (real big).fromInt (m * n) = (real big).mul ((real big).fromInt m) ((real big).fromInt n) := by
  simp [real, ofNat, realMul, Ext.mul, nanToNum]

theorem realStar_zero : realStar (fin 0) = fin 1 := by
  norm_num [realStar, Ext.ge, Ext.le, Ext.sub, Ext.neg, Ext.add, Ext.div]

theorem le_pinf (x : Ext) (hx : x ≠ nan) : x.le pinf = true := by
  cases x <;> simp_all [Ext.le]

theorem real_star_closed (x : Ext) (hx : RealC x) : RealC (realStar x) := by
  rcases realC_cases hx with rfl | rfl | ⟨a, ha, rfl⟩
  · simp [realStar, Ext.ge, Ext.le, RealC]
  · rw [realStar_zero]; norm_num [RealC]
  · unfold realStar
    by_cases h1 : 1 ≤ a
    · simp [Ext.ge, Ext.le, h1, RealC]
    · have : (1:Rat) + -a ≠ 0 := by linarith
      have h2 : (0:Rat) ≤ 1 / (1 + -a) := by apply div_nonneg <;> linarith
      simp [Ext.ge, Ext.le, h1, Ext.sub, Ext.neg, Ext.add, Ext.div, this, RealC]
      simpa using h2

/-- `star x` solves `y = 1 + x·y` … -/
theorem real_star_solves (x : Ext) (hx : RealC x) :
    realStar x = realAdd ((real big).fromInt 1) (realMul big x (realStar x)) := by
  rcases realC_cases hx with rfl | rfl | ⟨a, ha, rfl⟩
  · simp [realStar, Ext.ge, Ext.le, real, ofNat, realMul, Ext.mul, nanToNum, realAdd, Ext.add]
  · rw [realStar_zero]; simp [real, ofNat, realMul, Ext.mul, nanToNum, realAdd, Ext.add]
  · unfold realStar
    by_cases h1 : 1 ≤ a
    · simp [Ext.ge, Ext.le, h1, real, ofNat, realMul, Ext.mul, nanToNum, realAdd, Ext.add,
        ne_of_gt, ha]
    · have hne : (1:Rat) + -a ≠ 0 := by linarith
      simp [Ext.ge, Ext.le, h1, Ext.sub, Ext.neg, Ext.add, Ext.div, hne, real, ofNat, realMul,
        Ext.mul, nanToNum, realAdd]
      field_simp
      ring

/-- … and is the least such element of the carrier (`star 1 = ∞`, the only solution). -/
theorem real_star_least (x y : Ext) (hx : RealC x) (hy : RealC y)
    (hsol : y = realAdd ((real big).fromInt 1) (realMul big x y)) :
    (realStar x).le y = true := by
  rcases realC_cases hx with rfl | rfl | ⟨a, ha, rfl⟩
  · -- x = ∞: y = 1 + ∞·y forces y = ∞
    rcases realC_cases hy with rfl | rfl | ⟨b, hb, rfl⟩
    · simp [realStar, Ext.ge, Ext.le]
    · simp [real, ofNat, realMul, Ext.mul, nanToNum, realAdd, Ext.add] at hsol
    · simp [real, ofNat, realMul, Ext.mul, nanToNum, realAdd, Ext.add, ne_of_gt, hb] at hsol
  · rw [realStar_zero]
    rcases realC_cases hy with rfl | rfl | ⟨b, hb, rfl⟩
    · simp [Ext.le]
    · simp [real, ofNat, realMul, Ext.mul, nanToNum, realAdd, Ext.add] at hsol
    · simp [real, ofNat, realMul, Ext.mul, nanToNum, realAdd, Ext.add] at hsol
      simp [Ext.le, hsol]
  · rcases realC_cases hy with rfl | rfl | ⟨b, hb, rfl⟩
    · apply le_pinf
      intro h
      have := real_star_closed _ (show RealC (fin a) from le_of_lt ha)
      rw [h] at this; exact this
    · simp [real, ofNat, realMul, Ext.mul, nanToNum, realAdd, Ext.add] at hsol
    · simp [real, ofNat, realMul, Ext.mul, nanToNum, realAdd, Ext.add] at hsol
      -- b = 1 + a b with b > 0 forces a < 1 and b = 1/(1-a)
      have ha1 : a < 1 := by nlinarith
      have hne : (1:Rat) + -a ≠ 0 := by linarith
      have hb' : b = 1 / (1 + -a) := by field_simp; linarith
      simp [realStar, Ext.ge, Ext.le, not_le.mpr ha1, Ext.sub, Ext.neg, Ext.add, Ext.div, hne]
      rw [hb']; simp

/-- `sub(x,y) + y = x` whenever `y ≤ x` (including `∞ - ∞`: `relu(nan)→nan→0`, `0 + ∞ = ∞`). -/
theorem real_sub_add (x y : Ext) (hx : RealC x) (hy : RealC y) (hle : y.le x = true) :
    realAdd (realSub big x y) y = x := by
  rcases realC_cases hx with rfl | rfl | ⟨a, ha, rfl⟩ <;>
  rcases realC_cases hy with rfl | rfl | ⟨b, hb, rfl⟩ <;>
  simp_all [realSub, realAdd, Ext.sub, Ext.neg, Ext.add, Ext.relu, nanToNum, Ext.le]

end Real

/-! ### ViterbiSemiring (log domain: add = max, mul = +, zero = -∞, one = 0) -/
section Viterbi

theorem vit_add_closed (x y : Ext) (hx : VitC x) (hy : VitC y) : VitC (vitAdd x y) := by
  cases x <;> cases y <;> simp_all [VitC, vitAdd, Ext.maximum]

theorem vit_mul_closed (x y : Ext) (hx : VitC x) (hy : VitC y) : VitC (vitMul x y) := by
  cases x <;> cases y <;> simp_all [VitC, vitMul, Ext.add, nanToNum]

theorem vit_add_comm (x y : Ext) : vitAdd x y = vitAdd y x := by
  cases x <;> cases y <;> simp [vitAdd, Ext.maximum, max_comm]

theorem vit_add_assoc (x y z : Ext) : vitAdd (vitAdd x y) z = vitAdd x (vitAdd y z) := by
  cases x <;> cases y <;> cases z <;> simp [vitAdd, Ext.maximum, max_assoc]

theorem vit_add_idem (x : Ext) : vitAdd x x = x := by
  cases x <;> simp [vitAdd, Ext.maximum]

theorem vit_zero_add (x : Ext) (hx : VitC x) : vitAdd (viterbi.fromInt 0) x = x := by
  cases x <;> simp_all [VitC, viterbi, vitFromInt, vitAdd, Ext.maximum]

theorem vit_mul_comm (x y : Ext) : vitMul x y = vitMul y x := by
  cases x <;> cases y <;> simp [vitMul, Ext.add, add_comm]

theorem vit_mul_assoc (x y z : Ext) (hx : VitC x) (hy : VitC y) (hz : VitC z) :
    vitMul (vitMul x y) z = vitMul x (vitMul y z) := by
  cases x <;> cases y <;> cases z <;> simp_all [VitC, vitMul, Ext.add, nanToNum, add_assoc]

theorem vit_one_mul (x : Ext) (hx : VitC x) : vitMul (viterbi.fromInt 1) x = x := by
  cases x <;> simp_all [VitC, viterbi, vitFromInt, vitMul, Ext.add, nanToNum]

/-- zero annihilates every element including the infinite one: `-∞ + ∞ = -∞` -/
theorem vit_zero_mul (x : Ext) (hx : VitC x) :
    vitMul (viterbi.fromInt 0) x = viterbi.fromInt 0 := by
  cases x <;> simp_all [VitC, viterbi, vitFromInt, vitMul, Ext.add, nanToNum]

theorem vit_distrib (x y z : Ext) (hx : VitC x) (hy : VitC y) (hz : VitC z) :
    vitMul x (vitAdd y z) = vitAdd (vitMul x y) (vitMul x z) := by
  cases x <;> cases y <;> cases z <;>
    simp_all [VitC, vitMul, vitAdd, Ext.add, Ext.maximum, nanToNum, max_add_add_left]

theorem vit_fromInt_succ (n : Nat) :
    viterbi.fromInt (n + 1) = viterbi.add (viterbi.fromInt n) (viterbi.fromInt 1) := by
  cases n <;> simp [viterbi, vitFromInt, vitAdd, Ext.maximum]

theorem vit_fromInt_unique (f : Nat → Ext) (h0 : f 0 = viterbi.fromInt 0)
    (hs : ∀ n, f (n + 1) = viterbi.add (f n) (viterbi.fromInt 1)) :
    ∀ n, f n = viterbi.fromInt n := by
  intro n
  induction n with
  | zero => exact h0
  | succ n ih => rw [hs, ih]; exact (vit_fromInt_succ n).symm

theorem vit_star_solves (x : Ext) (hx : VitC x) :
    vitStar x = vitAdd (viterbi.fromInt 1) (vitMul x (vitStar x)) := by
  cases x with
  | nan => exact absurd hx id
  | ninf => simp [vitStar, Ext.gt, Ext.lt, viterbi, vitFromInt, vitMul, Ext.add, nanToNum, vitAdd, Ext.maximum]
  | pinf => simp [vitStar, Ext.gt, Ext.lt, viterbi, vitFromInt, vitMul, Ext.add, nanToNum, vitAdd, Ext.maximum]
  | fin a =>
    by_cases h : 0 < a
    · simp [vitStar, Ext.gt, Ext.lt, h, viterbi, vitFromInt, vitMul, Ext.add, nanToNum, vitAdd, Ext.maximum]
    · have : a ≤ 0 := not_lt.mp h
      simp [vitStar, Ext.gt, Ext.lt, h, viterbi, vitFromInt, vitMul, Ext.add, nanToNum, vitAdd,
        Ext.maximum, this]

/-- `star x` is the least solution of `y = 1 + x·y`; in particular `star one = one`. -/
theorem vit_star_least (x y : Ext) (hx : VitC x) (hy : VitC y)
    (hsol : y = vitAdd (viterbi.fromInt 1) (vitMul x y)) : (vitStar x).le y = true := by
  cases x with
  | nan => exact absurd hx id
  | ninf =>
    cases y <;> simp_all [VitC, vitStar, Ext.gt, Ext.lt, Ext.le, viterbi, vitFromInt, vitMul, Ext.add,
      nanToNum, vitAdd, Ext.maximum]
  | pinf =>
    cases y <;> simp_all [VitC, vitStar, Ext.gt, Ext.lt, Ext.le, viterbi, vitFromInt, vitMul, Ext.add,
      nanToNum, vitAdd, Ext.maximum]
  | fin a =>
    cases y with
    | nan => exact absurd hy id
    | ninf => simp [viterbi, vitFromInt, vitMul, Ext.add, nanToNum, vitAdd, Ext.maximum] at hsol
    | pinf => apply le_pinf; unfold vitStar; split <;> simp
    | fin b =>
      simp [viterbi, vitFromInt, vitMul, Ext.add, nanToNum, vitAdd, Ext.maximum] at hsol
      -- b = max 0 (a + b): b ≥ 0, and a > 0 is impossible
      have hb0 : 0 ≤ b := by rw [hsol]; exact le_max_left _ _
      have ha : ¬ 0 < a := by
        intro ha
        have : a + b ≤ max 0 (a + b) := le_max_right _ _
        rw [← hsol] at this
        linarith
      simp [vitStar, Ext.gt, Ext.lt, ha, Ext.le, hb0]

theorem vit_star_one : vitStar (viterbi.fromInt 1) = viterbi.fromInt 1 := by
  simp [vitStar, viterbi, vitFromInt, Ext.gt, Ext.lt]

theorem vit_sub_add (x y : Ext) (hx : VitC x) (hy : VitC y) (hle : y.le x = true) :
    vitAdd (vitSub x y) y = x := by
  cases x <;> cases y <;> simp_all [VitC, vitSub, vitAdd, Ext.maximum, Ext.le]

/-- Historical (D2, repaired by a `fix:` commit): the pinned tree's `star` (`x >= 0 → inf`)
is *not* the least solution at the multiplicative identity. -/
theorem Historical.vit_star_old_not_least :
    ¬ (∀ x y, VitC x → VitC y → y = vitAdd (viterbi.fromInt 1) (vitMul x y) →
        (vitStarOld x).le y = true) := by
  intro h
  have := h (fin 0) (fin 0) trivial trivial (by
    simp [viterbi, vitFromInt, vitMul, Ext.add, nanToNum, vitAdd, Ext.maximum])
  simp [vitStarOld, Ext.ge, Ext.le] at this

end Viterbi

/-! ### BoolSemiring -/
section Bool

theorem bool_laws :
    (∀ x y : Bool, Impl.bool.add x y = Impl.bool.add y x) ∧
    (∀ x y z : Bool, Impl.bool.add (Impl.bool.add x y) z = Impl.bool.add x (Impl.bool.add y z)) ∧
    (∀ x y : Bool, Impl.bool.mul x y = Impl.bool.mul y x) ∧
    (∀ x y z : Bool, Impl.bool.mul (Impl.bool.mul x y) z = Impl.bool.mul x (Impl.bool.mul y z)) ∧
    (∀ x y z : Bool, Impl.bool.mul x (Impl.bool.add y z) =
        Impl.bool.add (Impl.bool.mul x y) (Impl.bool.mul x z)) ∧
    (∀ x : Bool, Impl.bool.add (Impl.bool.fromInt 0) x = x) ∧
    (∀ x : Bool, Impl.bool.mul (Impl.bool.fromInt 1) x = x) ∧
    (∀ x : Bool, Impl.bool.mul (Impl.bool.fromInt 0) x = Impl.bool.fromInt 0) := by
  simp [Impl.bool]

theorem bool_fromInt_succ (n : Nat) :
    Impl.bool.fromInt (n + 1) = Impl.bool.add (Impl.bool.fromInt n) (Impl.bool.fromInt 1) := by
  simp [Impl.bool]

theorem bool_star (x y : Bool) (hsol : y = Impl.bool.add (Impl.bool.fromInt 1) (Impl.bool.mul x y)) :
    Impl.bool.star x = y := by
  simp [Impl.bool] at *; exact hsol

theorem bool_sub_add (x y : Bool) (hle : y = true → x = true) :
    Impl.bool.add (Impl.bool.sub x y) y = x := by
  cases x <;> cases y <;> simp_all [Impl.bool]

end Bool

/-! ### LogSemiring, log side: multiplication and all special values -/
section Log

/-- `LogSemiring.mul` and `ViterbiSemiring.mul` are the same composition, so every `vit_mul_*`
theorem (commutativity, associativity, identity, annihilation `-∞ + ∞ = -∞`) is a theorem about
`LogSemiring.mul`. -/
theorem log_mul_eq_vit_mul : logMul = vitMul := rfl

theorem log_add_zero (x : Ext) (hx : VitC x) : logAdd? ninf x = some x ∧ logAdd? x ninf = some x := by
  cases x <;> simp_all [VitC, logAdd?]

theorem log_add_comm (x y : Ext) (h : (logAdd? x y).isSome) : logAdd? x y = logAdd? y x := by
  cases x <;> cases y <;> simp_all [logAdd?]

theorem log_add_top (x : Ext) (hx : VitC x) : logAdd? pinf x = some pinf ∧ logAdd? x pinf = some pinf := by
  cases x <;> simp_all [VitC, logAdd?]

/-- `star` of anything at or above the multiplicative identity diverges; `star zero = one`. -/
theorem log_star_special :
    logStar? ninf = some (fin 0) ∧ logStar? pinf = some pinf ∧
    ∀ a : Rat, 0 ≤ a → logStar? (fin a) = some pinf := by
  refine ⟨rfl, rfl, ?_⟩
  intro a ha; simp [logStar?, ha]

end Log

/-! ### Non-vacuity: the hypotheses are met by concrete non-trivial elements -/
example : RealC (fin (3/4)) ∧ RealC pinf ∧ RealC (realStar (fin (3/4))) := by
  refine ⟨by simp [RealC]; norm_num, trivial, real_star_closed _ (by simp [RealC]; norm_num)⟩
example : realStar (fin (3/4)) = fin 4 := by
  simp [realStar, Ext.ge, Ext.le, Ext.sub, Ext.neg, Ext.add, Ext.div]; norm_num
example : realMul 7 (fin 0) pinf = fin 0 := by simp [realMul, Ext.mul, nanToNum]
example : vitMul ninf pinf = ninf := by simp [vitMul, Ext.add, nanToNum]
example : (fin 0) = vitAdd (viterbi.fromInt 1) (vitMul (fin 0) (fin 0)) := by
  simp [viterbi, vitFromInt, vitMul, Ext.add, nanToNum, vitAdd, Ext.maximum]

end C08
