/-
C06k — the side condition `C06j.StackResolved` of `C06j.stack_dense` is decided by the executable `Sh.stackResolved`,
which the driver evaluates for every job of the stack correspondence stream (last reply field of `C06.stack`).
-/
import FggsProofs.Props.C06j

set_option linter.unusedSimpArgs false
set_option linter.unusedVariables false

namespace C06k
open Fggs Fggs.Ax Fggs.Un Fggs.Sh

/-- `Sh.stackResolved` is sound for `C06j.StackResolved` -/
theorem stackResolved_sound (fuel : Nat) (ts : List PT) (next : Nat) (h : Sh.stackResolved fuel ts next = true) :
    C06j.StackResolved fuel ts next := by
  unfold C06j.StackResolved
  unfold Sh.stackResolved at h
  rcases ts with _ | ⟨h0, _ | ⟨t1, rest⟩⟩
  · trivial
  · trivial
  · simp only [] at h ⊢
    intro t ht st hst
    rw [List.all_eq_true] at h
    have := h t ht
    rw [hst] at this
    simp only [Bool.and_eq_true, List.all_eq_true] at this
    obtain ⟨⟨h1, h2⟩, h3⟩ := this
    refine ⟨(C06dL.nodupNat_iff _).1 h1, ?_, ?_⟩
    · intro g hg q hq
      simpa using h2 g hg q hq
    · intro p hp q hq
      simpa using h3 p hp q hq

end C06k
