/-
C06f — the side condition `C06e.Resolved` of `C06e.reshape_dense` is decided by the executable `Rs.resolved`, which the
driver evaluates for every reshape job of the correspondence stream (reply field 3 of `C06.reshape`): the jobs on which
model and implementation are compared are jobs the theorem speaks about.
-/
import FggsProofs.Props.C06e

set_option linter.unusedSimpArgs false
set_option linter.unusedVariables false

namespace C06f
open Fggs Fggs.Ax Fggs.Un Fggs.Rs

/-- `Rs.resolved` is sound for `C06e.Resolved` -/
theorem resolved_sound (fuel : Nat) (t : PT) (s : List Nat) (next : Nat) (h : Rs.resolved fuel t s next = true) :
    C06e.Resolved fuel t s next := by
  intro st hst
  unfold Rs.resolved at h
  simp only [] at h
  have hst' : unify fuel (productAxis (List.map (fun (x : Nat × Nat) => if x.1 == 1 then unitAxis else Axis.phys (next + x.2) x.1) s.zipIdx))
      (productAxis t.vaxes) ⟨[], next + s.length⟩ = (true, st) := hst
  rw [hst'] at h
  simp only [Bool.and_eq_true, List.all_eq_true] at h
  obtain ⟨⟨h1, h2⟩, h3⟩ := h
  refine ⟨(C06dL.nodupNat_iff _).1 h1, ?_, ?_⟩
  · intro k hk e he
    have := h2 k hk e he
    cases e with
    | phys v n => exact ⟨v, n, rfl, by simpa using this⟩
    | prod fs => simp at this
    | sum b e a => simp at this
  · intro a ha q hq
    have := h3 a ha q hq
    simpa using this

/-- the corollary the correspondence relies on: a job that the driver reports as resolved and successful denotes torch's
reshape -/
theorem reshape_dense_of_resolved (fuel : Nat) (t : PT) (s : List Nat) (next : Nat) (h : C06e.OperandOK t next)
    (hres : Rs.resolved fuel t s next = true) (r : PT) (hr : reshape fuel t s next = .ok r) :
    r.wf = true ∧ r.vshape = s ∧ r.dense = t.dense :=
  C06e.reshape_dense fuel t s next h (resolved_sound fuel t s next hres) r hr

end C06f
