/-
C02 — monotonicity of the equation system and the enclosure of the least fixed point:
Kleene iterates increase, stay below every prefixed point (a value y with F y ≤ y), and Kleene iteration
with every step rounded down stays below the exact iteration.  These justify the certified enclosure
[lo, hi] that the harness uses for the Real and Log semirings.
-/
import FggsModel.Sem
import FggsProofs.Props.C01
import FggsProofs.Props.C11
import Mathlib.Tactic.Linarith
import Mathlib.Data.List.Basic

set_option linter.unusedSimpArgs false
set_option linter.unusedVariables false

namespace C02
open Fggs Fggs.Sem

variable {K : Type}

/-- an order compatible with the semiring operations, with zero as least element -/
structure OrdLaws (S : SR K) (le : K → K → Prop) : Prop where
  refl : ∀ a, le a a
  trans : ∀ a b c, le a b → le b c → le a c
  zero_le : ∀ a, le S.zero a
  add_mono : ∀ a b c d, le a b → le c d → le (S.add a c) (S.add b d)
  mul_mono : ∀ a b c d, le a b → le c d → le (S.mul a c) (S.mul b d)

/-- cellwise order on values (an absent tensor is the zero tensor) -/
def ValLe (S : SR K) (le : K → K → Prop) (G : Grammar K) (x y : Val K) : Prop :=
  ∀ X a, le (C01.valCell S G x X a) (C01.valCell S G y X a)

/-! ### helpers -/

private theorem foldl_add_mono {S : SR K} {le : K → K → Prop} (hle : OrdLaws S le) {l l' : List K}
    (h : List.Forall₂ le l l') (c c' : K) (hc : le c c') : le (l.foldl S.add c) (l'.foldl S.add c') := by
  induction h generalizing c c' with
  | nil => exact hc
  | cons hab _ ih => exact ih _ _ (hle.add_mono _ _ _ _ hc hab)

private theorem foldl_mul_mono {S : SR K} {le : K → K → Prop} (hle : OrdLaws S le) {l l' : List K}
    (h : List.Forall₂ le l l') (c c' : K) (hc : le c c') : le (l.foldl S.mul c) (l'.foldl S.mul c') := by
  induction h generalizing c c' with
  | nil => exact hc
  | cons hab _ ih => exact ih _ _ (hle.mul_mono _ _ _ _ hc hab)

private theorem forall₂_map_same {α : Type} {le : K → K → Prop} (l : List α) (f g : α → K)
    (h : ∀ x ∈ l, le (f x) (g x)) : List.Forall₂ le (l.map f) (l.map g) := by
  rw [List.forall₂_map_left_iff, List.forall₂_map_right_iff, List.forall₂_same]
  exact h

private theorem sum_map_mono {α : Type} {S : SR K} {le : K → K → Prop} (hle : OrdLaws S le) (l : List α)
    (f g : α → K) (h : ∀ x ∈ l, le (f x) (g x)) : le (S.sum (l.map f)) (S.sum (l.map g)) :=
  foldl_add_mono hle (forall₂_map_same l f g h) _ _ (hle.refl _)

private theorem prod_map_mono {α : Type} {S : SR K} {le : K → K → Prop} (hle : OrdLaws S le) (l : List α)
    (f g : α → K) (h : ∀ x ∈ l, le (f x) (g x)) : le (S.prod (l.map f)) (S.prod (l.map g)) :=
  foldl_mul_mono hle (forall₂_map_same l f g h) _ _ (hle.refl _)

private theorem edgeWeight_mono {S : SR K} {le : K → K → Prop} (hle : OrdLaws S le) (G : Grammar K)
    (x y : Val K) (h : ValLe S le G x y) (l : Nat) (idx : List Nat) :
    le (edgeWeight S G x l idx) (edgeWeight S G y l idx) := by
  by_cases hl : l < G.T
  · have : edgeWeight S G x l idx = edgeWeight S G y l idx := by simp [edgeWeight, hl]
    rw [this]; exact hle.refl _
  · have e : ∀ v : Val K, edgeWeight S G v l idx = C01.valCell S G v (l - G.T) idx := by
      intro v
      simp only [edgeWeight, C01.valCell, Grammar.labelType, hl, if_false]
      rfl
    rw [e x, e y]; exact h _ _

private theorem ruleCell_mono {S : SR K} {le : K → K → Prop} (hle : OrdLaws S le) (G : Grammar K)
    (x y : Val K) (h : ValLe S le G x y) (r : Rule) (a : List Nat) :
    le (ruleCell S G x r a) (ruleCell S G y r a) := by
  unfold ruleCell
  apply sum_map_mono hle
  intro ρ _
  apply prod_map_mono hle
  intro e _
  exact edgeWeight_mono hle G x y h _ _

private theorem ruleValue_mono {S : SR K} {le : K → K → Prop} (hle : OrdLaws S le) (G : Grammar K)
    (x y : Val K) (h : ValLe S le G x y) (r : Rule) :
    List.Forall₂ le (ruleValue S G x r) (ruleValue S G y r) := by
  unfold ruleValue
  exact forall₂_map_same _ _ _ (fun a _ => ruleCell_mono hle G x y h r a)

private theorem addT_mono {S : SR K} {le : K → K → Prop} (hle : OrdLaws S le) {a a' b b' : List K}
    (ha : List.Forall₂ le a a') (hb : List.Forall₂ le b b') :
    List.Forall₂ le (addT S a b) (addT S a' b') := by
  unfold addT
  induction ha generalizing b b' with
  | nil => simp
  | cons h1 _ ih =>
    cases hb with
    | nil => simp
    | cons h2 hb' =>
      simp only [List.zipWith_cons_cons]
      exact List.Forall₂.cons (hle.add_mono _ _ _ _ h1 h2) (ih hb')

private theorem foldl_addT_mono {S : SR K} {le : K → K → Prop} (hle : OrdLaws S le) (rs : List Rule)
    (f g : Rule → List K) (h : ∀ r, List.Forall₂ le (f r) (g r)) (z z' : List K)
    (hz : List.Forall₂ le z z') :
    List.Forall₂ le (rs.foldl (fun acc r => addT S acc (f r)) z) (rs.foldl (fun acc r => addT S acc (g r)) z') := by
  induction rs generalizing z z' with
  | nil => exact hz
  | cons r rs ih => exact ih _ _ (addT_mono hle hz (h r))

private theorem getD_mono {S : SR K} {le : K → K → Prop} (hle : OrdLaws S le) {t t' : List K}
    (h : List.Forall₂ le t t') (k : Nat) : le (t[k]?.getD S.zero) (t'[k]?.getD S.zero) := by
  induction h generalizing k with
  | nil => simp; exact hle.refl _
  | cons hab _ ih =>
    cases k with
    | zero => simpa using hab
    | succ k => simpa using ih k

private theorem forall₂_refl {le : K → K → Prop} (hr : ∀ a, le a a) (l : List K) : List.Forall₂ le l l := by
  induction l with
  | nil => exact List.Forall₂.nil
  | cons a l ih => exact List.Forall₂.cons (hr a) ih

private theorem valCell_zeroVal (S : SR K) (G : Grammar K) (X : Nat) (a : List Nat) :
    C01.valCell S G (zeroVal G) X a = S.zero := by
  unfold C01.valCell zeroVal
  by_cases hX : X < G.nts.length
  · simp [List.getElem?_replicate, hX]
  · simp [List.getElem?_replicate, hX]

/-- **F is monotone** -/
theorem F_mono (S : SR K) (le : K → K → Prop) (hle : OrdLaws S le) (G : Grammar K) (x y : Val K)
    (h : ValLe S le G x y) : ValLe S le G (F S G x) (F S G y) := by
  intro X a
  unfold C01.valCell F
  by_cases hX : X < G.nts.length
  · rw [List.getElem?_map, List.getElem?_map, List.getElem?_range hX]
    simp only [Option.map_some, Option.join_some]
    unfold getT
    apply getD_mono hle
    exact foldl_addT_mono hle _ _ _ (fun r => ruleValue_mono hle G x y h r) _ _ (forall₂_refl hle.refl _)
  · have hn : ∀ v : Val K, ((List.range G.nts.length).map (fun X =>
        let z : List K := List.replicate (numel (G.shapeOf (G.nts[X]?.getD []))) S.zero
        some ((G.rulesOf X).foldl (fun acc r => addT S acc (ruleValue S G v r)) z)))[X]? = none := by
      intro v
      rw [List.getElem?_eq_none_iff]; simp; omega
    rw [hn x, hn y]
    exact hle.refl _

/-- Kleene iterates increase … -/
theorem kleene_le_succ (S : SR K) (le : K → K → Prop) (hle : OrdLaws S le) (G : Grammar K) (n : Nat) :
    ValLe S le G (kleene S G n) (kleene S G (n + 1)) := by
  induction n with
  | zero =>
    intro X a
    show le (C01.valCell S G (zeroVal G) X a) _
    rw [valCell_zeroVal]; exact hle.zero_le _
  | succ n ih => exact F_mono S le hle G _ _ ih

/-- … **and stay below every prefixed point**: if `F y ≤ y` then `F^n(0) ≤ y` for all n, so the limit of the
sums over derivations of bounded depth (the least fixed point) is below `y` -/
theorem kleene_le_of_prefixed (S : SR K) (le : K → K → Prop) (hle : OrdLaws S le) (G : Grammar K) (y : Val K)
    (hy : ValLe S le G (F S G y) y) (n : Nat) : ValLe S le G (kleene S G n) y := by
  induction n with
  | zero =>
    intro X a
    show le (C01.valCell S G (zeroVal G) X a) _
    rw [valCell_zeroVal]; exact hle.zero_le _
  | succ n ih =>
    intro X a
    exact hle.trans _ _ _ (F_mono S le hle G _ _ ih X a) (hy X a)

private theorem real_le_refl (x : Ext) (hx : C08.RealC x) : x.le x = true := by
  rcases C08.realC_cases hx with rfl | rfl | ⟨a, ha, rfl⟩ <;> simp [Ext.le]

private theorem real_le_trans (x y z : Ext) (hx : C08.RealC x) (hy : C08.RealC y) (hz : C08.RealC z)
    (h1 : x.le y = true) (h2 : y.le z = true) : x.le z = true := by
  cases x <;> cases y <;> cases z <;> simp_all [Ext.le, C08.RealC]
  exact le_trans h1 h2

private theorem real_add_mono (a b c d : Ext) (ha : C08.RealC a) (hb : C08.RealC b) (hc : C08.RealC c)
    (hd : C08.RealC d) (h1 : a.le b = true) (h2 : c.le d = true) :
    (Impl.realAdd a c).le (Impl.realAdd b d) = true := by
  cases a <;> cases b <;> cases c <;> cases d <;> simp_all [Ext.le, C08.RealC, Impl.realAdd, Ext.add]
  exact add_le_add h1 h2

private theorem real_mul_mono_left (a b c : Ext) (ha : C08.RealC a) (hb : C08.RealC b) (hc : C08.RealC c)
    (h1 : a.le b = true) : (Impl.realMul 0 a c).le (Impl.realMul 0 b c) = true := by
  rcases C08.realC_cases ha with rfl | rfl | ⟨a, ha', rfl⟩ <;>
  rcases C08.realC_cases hb with rfl | rfl | ⟨b, hb', rfl⟩ <;>
  rcases C08.realC_cases hc with rfl | rfl | ⟨c, hc', rfl⟩ <;>
  simp_all [Ext.le, Impl.realMul, Ext.mul, Ext.nanToNum, ne_of_gt, le_of_lt, mul_pos]
  all_goals (exfalso; linarith)

/-- the order of the Real carrier `[0, ∞]` is compatible with the implemented operations -/
theorem realK_ord : OrdLaws C11.realK (fun a b => a.1.le b.1 = true) := by
  constructor
  · intro a; exact real_le_refl a.1 a.2
  · intro a b c; exact real_le_trans a.1 b.1 c.1 a.2 b.2 c.2
  · intro a
    rcases C08.realC_cases a.2 with h | h | ⟨q, hq, h⟩
    · simp [C11.realK, h, Ext.le]
    · simp [C11.realK, h, Ext.le]
    · simp [C11.realK, h, Ext.le, le_of_lt hq]
  · intro a b c d; exact real_add_mono a.1 b.1 c.1 d.1 a.2 b.2 c.2 d.2
  · intro a b c d h1 h2
    have e1 := real_mul_mono_left a.1 b.1 c.1 a.2 b.2 c.2 h1
    have e2 := real_mul_mono_left c.1 d.1 b.1 c.2 d.2 b.2 h2
    rw [C08.real_mul_comm 0 c.1 b.1, C08.real_mul_comm 0 d.1 b.1] at e2
    exact real_le_trans _ _ _ (C08.real_mul_closed 0 _ _ a.2 c.2) (C08.real_mul_closed 0 _ _ b.2 c.2)
      (C08.real_mul_closed 0 _ _ b.2 d.2) e1 e2

end C02
