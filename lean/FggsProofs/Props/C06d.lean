/-
C06d — the generic binary operation on patterned tensors denotes the elementwise operation on the dense tensors.

`Bn.binary` (FggsModel/Binary.lean) is the model of `PatternedTensor.expansion` + `PatternedTensor.binary`
(lt, le, gt, ge, eq, and the unoptimised path of add, sub, mul, div, maximum, logaddexp, logical_and/or, whose
sparsity shortcuts build the same representation): anti-unify the virtual axes right to left, lay each operand
out densely over the fresh axes, apply the operation cell by cell, and let the constructor squeeze axes of size 1.
For well-formed operands of the same shape the result is well formed (every virtual element is backed by at most
one physical element), has that shape, and denotes `op` applied cell by cell to the operands' dense tensors —
cells outside both patterns carry `op t.default u.default`.
-/
import FggsModel.Binary
import FggsProofs.Props.C06
import FggsProofs.Props.C06b
import FggsProofs.Props.C06c
import FggsProofs.Props.C13
import FggsProofs.C06bLemmas
import FggsProofs.C06cLemmas
import FggsProofs.C06dBaseLemmas
import FggsProofs.C06dAntiLemmas
import FggsProofs.C06dSideLemmas
import FggsProofs.C06dExpLemmas
import Mathlib.Tactic.Linarith
import Mathlib.Data.List.Basic

set_option linter.unusedSimpArgs false
set_option linter.unusedVariables false

namespace C06d
open Fggs Fggs.Ax Fggs.Un Fggs.Bn

/-- the two operands as the library holds them: well formed, same number of dimensions and same shape, identities of
physical axes below the counter, no physical axis of size zero -/
structure OperandsOK (t u : PT) (next : Nat) : Prop where
  wft : t.wf = true
  wfu : u.wf = true
  shape : t.vshape = u.vshape
  freshT : ∀ p ∈ t.paxes, p.1 < next
  freshU : ∀ p ∈ u.paxes, p.1 < next
  posT : ∀ p ∈ t.paxes, 0 < p.2
  posU : ∀ p ∈ u.paxes, 0 < p.2
  /-- the same identity carries the same size in both operands (the same `PhysicalAxis` object may occur in both) -/
  sized : ∀ p ∈ t.paxes, ∀ q ∈ u.paxes, p.1 = q.1 → p.2 = q.2


/-! ### the size of a physical axis, by identity -/

/-- the size carried by an identity: as in the operands; 1 for the identities not in use (the broadcast axes) -/
private def szOf (t u : PT) : Nat → Nat := fun v =>
  match (t.paxes ++ u.paxes).find? (fun p => p.1 == v) with
  | some p => p.2
  | none => 1

private theorem szOf_spec {t u : PT} {next : Nat} (h : OperandsOK t u next) :
    (∀ q ∈ t.paxes, q.2 = szOf t u q.1) ∧ (∀ q ∈ u.paxes, q.2 = szOf t u q.1) ∧
    (∀ v, next ≤ v → szOf t u v = 1) := by
  have st := (C06dL.wf_iff_struct t).1 h.wft
  have su := (C06dL.wf_iff_struct u).1 h.wfu
  have key : ∀ q ∈ t.paxes ++ u.paxes, q.2 = szOf t u q.1 := by
    intro q hq
    unfold szOf
    cases hf : (t.paxes ++ u.paxes).find? (fun p => p.1 == q.1) with
    | none =>
      rw [List.find?_eq_none] at hf
      exact absurd (by simp) (hf q hq)
    | some p =>
      have hp := List.mem_of_find?_eq_some hf
      have hpq : p.1 = q.1 := by simpa using List.find?_some hf
      show q.2 = p.2
      rcases List.mem_append.1 hp with hp | hp <;> rcases List.mem_append.1 hq with hq | hq
      · rw [C06dL.eq_of_mem_nodup_fst st.nodup hp hq hpq]
      · exact (h.sized p hp q hq hpq).symm
      · exact h.sized q hq p hp hpq.symm
      · rw [C06dL.eq_of_mem_nodup_fst su.nodup hp hq hpq]
  refine ⟨fun q hq => key q (List.mem_append_left _ hq), fun q hq => key q (List.mem_append_right _ hq), ?_⟩
  intro v hv
  unfold szOf
  cases hf : (t.paxes ++ u.paxes).find? (fun p => p.1 == v) with
  | none => rfl
  | some p =>
    exfalso
    have hp := List.mem_of_find?_eq_some hf
    have hpv : p.1 = v := by simpa using List.find?_some hf
    rcases List.mem_append.1 hp with hp | hp
    · have := h.freshT p hp; omega
    · have := h.freshU p hp; omega

/-! ### the invariant of `expansion` for the two operands -/

private theorem pairHyp {t u : PT} {next : Nat} (h : OperandsOK t u next) :
    ∀ p ∈ t.vaxes.zip u.vaxes, C06dE.PairHyp (szOf t u) (· ∈ t.paxes) (· ∈ u.paxes) p := by
  have st := (C06dL.wf_iff_struct t).1 h.wft
  have su := (C06dL.wf_iff_struct u).1 h.wfu
  obtain ⟨s1, s2, _⟩ := szOf_spec h
  intro p hp
  have h1 := (List.of_mem_zip hp).1
  have h2 := (List.of_mem_zip hp).2
  refine ⟨st.fvsub p.1 h1, su.fvsub p.2 h2, fun q hq => s1 q (st.fvsub p.1 h1 q hq),
    fun q hq => s2 q (su.fvsub p.2 h2 q hq), ?_⟩
  exact C06dE.zip_numel_eq t.vaxes u.vaxes h.shape p hp

private theorem zip_map_fst' {α β γ : Type} (f : α → γ) (l1 : List α) (l2 : List β) (h : l1.length = l2.length) :
    (l1.zip l2).map (fun p => f p.1) = l1.map f := by
  rw [← C06dE.zip_map_fst_of_length l1 l2 h, List.map_map]
  simp [C06dE.zip_map_fst_of_length l1 l2 h]

private theorem zip_map_snd' {α β γ : Type} (f : β → γ) (l1 : List α) (l2 : List β) (h : l1.length = l2.length) :
    (l1.zip l2).map (fun p => f p.2) = l2.map f := by
  rw [← C06dE.zip_map_snd_of_length l1 l2 h, List.map_map]
  simp [C06dE.zip_map_snd_of_length l1 l2 h]

private theorem length_vaxes {t u : PT} {next : Nat} (h : OperandsOK t u next) : t.vaxes.length = u.vaxes.length := by
  have := congrArg List.length h.shape
  simpa [PT.vshape] using this

open C06dE C06dL C06cL in
theorem sideL {t u : PT} {next : Nat} (h : OperandsOK t u next) (fuel : Nat) :
    SideOK t (expFold fuel t u next).2.2.2.pairs Prod.fst (expFold fuel t u next).1 (expFold fuel t u next).2.1 := by
  have st := (wf_iff_struct t).1 h.wft
  obtain ⟨s1, s2, s3⟩ := szOf_spec h
  have inv := expFold_inv (sz := szOf t u) (Q1 := (· ∈ t.paxes)) (Q2 := (· ∈ u.paxes)) fuel t u next s3 (pairHyp h)
  have hlen := length_vaxes h
  refine ⟨st.sem, inv.ok.nodup, fun x hx => (inv.ok.size x hx).1, ?_, ?_, fun x hx => (inv.cls x hx).2.1,
    fun k hk => (inv.new1 k hk).1, ?_, ?_, ?_⟩
  · rw [forall₂_map_eq Axis.numel (fun p => p.1.numel) (fun a b hab => hab.1) inv.gen, PT.vshape,
      zip_map_fst' Axis.numel _ _ hlen]
  · intro g hg
    obtain ⟨p, _, hgp⟩ := forall₂_mem_left inv.gen g hg
    exact hgp.2.1
  · rw [List.map_append, List.nodup_append]
    refine ⟨inv.new1nd, st.nodup, ?_⟩
    intro a ha b hb e
    obtain ⟨k, hk, rfl⟩ := List.mem_map.1 ha
    obtain ⟨q, hq, rfl⟩ := List.mem_map.1 hb
    obtain ⟨_, p, hp, rfl⟩ := inv.new1 k hk
    have h1 := (inv.cls p hp).1
    have h2 := h.freshT q hq
    have e' : p.2.1 = q.1 := e
    omega
  · intro x hx q hq
    rcases (inv.cls x hx).2.2 with ⟨_, a, _⟩ | ⟨_, a, b, _⟩ | ⟨_, _, _, a⟩
    · exact List.mem_append_right _ (a q hq)
    · have hq' : q ∈ x.1.1.fv := hq
      rw [a] at hq'
      simp only [Axis.fv, List.mem_singleton] at hq'
      rw [hq']
      exact List.mem_append_left _ b
    · exact List.mem_append_right _ (a q hq)
  · intro ρ hρ
    rw [forall₂_map_eq' (Axis.eval (lift Prod.fst (expFold fuel t u next).2.2.2.pairs ρ)) (fun p => p.1.eval ρ) inv.gen,
      zip_map_fst' (Axis.eval ρ) _ _ hlen]
    intro g p hp hgp
    refine hgp.2.2.2.1 ρ ?_ ?_
    · intro q hq
      exact hρ q (List.mem_append_right _ (st.fvsub p.1 (List.of_mem_zip hp).1 q hq))
    · intro k hk
      have := hρ k (List.mem_append_left _ hk)
      have := (inv.new1 k hk).1
      omega

open C06dE C06dL C06cL in
theorem sideR {t u : PT} {next : Nat} (h : OperandsOK t u next) (fuel : Nat) :
    SideOK u (expFold fuel t u next).2.2.2.pairs Prod.snd (expFold fuel t u next).1 (expFold fuel t u next).2.2.1 := by
  have su := (wf_iff_struct u).1 h.wfu
  obtain ⟨s1, s2, s3⟩ := szOf_spec h
  have inv := expFold_inv (sz := szOf t u) (Q1 := (· ∈ t.paxes)) (Q2 := (· ∈ u.paxes)) fuel t u next s3 (pairHyp h)
  have hlen := length_vaxes h
  refine ⟨su.sem, inv.ok.nodup, fun x hx => by rw [(inv.ok.size x hx).1, (inv.ok.size x hx).2], ?_, ?_,
    fun x hx => (inv.cls x hx).2.1, fun k hk => (inv.new2 k hk).1, ?_, ?_, ?_⟩
  · rw [forall₂_map_eq' Axis.numel (fun p => p.2.numel) inv.gen
        (fun a b hb hab => by rw [hab.1]; exact zip_numel_eq _ _ h.shape b hb), PT.vshape,
      zip_map_snd' Axis.numel _ _ hlen]
  · intro g hg
    obtain ⟨p, _, hgp⟩ := forall₂_mem_left inv.gen g hg
    exact hgp.2.1
  · rw [List.map_append, List.nodup_append]
    refine ⟨inv.new2nd, su.nodup, ?_⟩
    intro a ha b hb e
    obtain ⟨k, hk, rfl⟩ := List.mem_map.1 ha
    obtain ⟨q, hq, rfl⟩ := List.mem_map.1 hb
    obtain ⟨_, p, hp, rfl⟩ := inv.new2 k hk
    have h1 := (inv.cls p hp).1
    have h2 := h.freshU q hq
    have e' : p.2.1 = q.1 := e
    omega
  · intro x hx q hq
    rcases (inv.cls x hx).2.2 with ⟨_, _, a⟩ | ⟨_, _, _, a⟩ | ⟨_, a, b, _⟩
    · exact List.mem_append_right _ (a q hq)
    · exact List.mem_append_right _ (a q hq)
    · have hq' : q ∈ x.1.2.fv := hq
      rw [a] at hq'
      simp only [Axis.fv, List.mem_singleton] at hq'
      rw [hq']
      exact List.mem_append_left _ b
  · intro ρ hρ
    rw [forall₂_map_eq' (Axis.eval (lift Prod.snd (expFold fuel t u next).2.2.2.pairs ρ)) (fun p => p.2.eval ρ) inv.gen,
      zip_map_snd' (Axis.eval ρ) _ _ hlen]
    intro g p hp hgp
    refine hgp.2.2.2.2 ρ ?_ ?_
    · intro q hq
      exact hρ q (List.mem_append_right _ (su.fvsub p.2 (List.of_mem_zip hp).2 q hq))
    · intro k hk
      have := hρ k (List.mem_append_left _ hk)
      have := (inv.new2 k hk).1
      omega

/-! ### the result before normalisation -/

/-- the tensor `binary` hands to the constructor -/
private def raw (fuel : Nat) (op : Ext → Ext → Ext) (d : Ext) (t u : PT) (next : Nat) : PT :=
  let A := C06dE.expFold fuel t u next
  { physical := List.zipWith op (layout t (A.2.1 ++ t.paxes) (A.2.2.2.pairs.map (fun x => Prod.fst x.1)))
      (layout u (A.2.2.1 ++ u.paxes) (A.2.2.2.pairs.map (fun x => Prod.snd x.1))),
    paxes := C06dL.gsOf A.2.2.2.pairs, vaxes := A.1, default := d }

private theorem binary_eq (fuel : Nat) (op : Ext → Ext → Ext) (d : Ext) (t u : PT) (next : Nat) :
    binary fuel op d t u next = normalize (raw fuel op d t u next) := rfl

open C06dE C06dL C06cL in
private theorem raw_normOK {t u : PT} {next : Nat} (h : OperandsOK t u next) (fuel : Nat) (op : Ext → Ext → Ext)
    (d : Ext) : NormOK (raw fuel op d t u next) := by
  have hl := sideL h fuel
  have hr := sideR h fuel
  obtain ⟨s1, s2, s3⟩ := szOf_spec h
  have inv := expFold_inv (sz := szOf t u) (Q1 := (· ∈ t.paxes)) (Q2 := (· ∈ u.paxes)) fuel t u next s3 (pairHyp h)
  refine ⟨?_, gsOf_nodup hl, ?_, ?_, ?_⟩
  · show (List.zipWith op _ _).length = numel ((gsOf (expFold fuel t u next).2.2.2.pairs).map (·.2))
    rw [List.length_zipWith, layout_eq hl, layout_eq hr, length_dense, length_dense, auxT_vshape hl, auxT_vshape hr]
    simp
  · intro g hg q hq
    exact mem_gsOf.2 (hl.fvl g hg q hq)
  · intro p hp
    obtain ⟨x, hx, rfl⟩ := mem_gsOf.1 hp
    exact hl.occ x hx
  · intro g hg
    obtain ⟨p, _, hgp⟩ := forall₂_mem_left inv.gen g hg
    exact hgp.2.2.1

open C06dE C06dL C06cL in
/-- **the tensor handed to the constructor denotes the elementwise operation** -/
private theorem raw_dense {t u : PT} {next : Nat} (h : OperandsOK t u next) (fuel : Nat) (op : Ext → Ext → Ext) :
    (raw fuel op (op t.default u.default) t u next).vshape = t.vshape ∧
    (raw fuel op (op t.default u.default) t u next).dense = List.zipWith op t.dense u.dense := by
  have hl := sideL h fuel
  have hr := sideR h fuel
  have hn := raw_normOK h fuel op (op t.default u.default)
  have hs : Sem (raw fuel op (op t.default u.default) t u next) := sem_of_occ hn.nodup hn.fvsub hn.occ
  have hv : (raw fuel op (op t.default u.default) t u next).vshape = t.vshape := hl.numl
  refine ⟨hv, ?_⟩
  apply list_ext_flat t.vshape
  · rw [length_dense, hv]
  · rw [List.length_zipWith, length_dense, length_dense, ← h.shape]; simp
  intro c hc
  by_cases hb : ∃ γ, Backs (raw fuel op (op t.default u.default) t u next) c γ
  · obtain ⟨γ, hb⟩ := hb
    have hγ : ∀ x ∈ (expFold fuel t u next).2.2.2.pairs, γ x.2.1 < x.2.2 :=
      fun x hx => hb.1 x.2 (mem_gsOf.2 ⟨x, hx, rfl⟩)
    have hc' : (expFold fuel t u next).1.map (Axis.eval γ) = c := hb.2
    have h0 := dense_backed hs hb
    rw [hv] at h0
    obtain ⟨v1, a1, b1⟩ := side_backed hl γ hγ
    obtain ⟨v2, a2, b2⟩ := side_backed hr γ hγ
    rw [hc'] at b1 b2
    rw [← h.shape] at b2
    rw [h0, getElem?_zipWith_some op _ _ _ v1 v2 b1 b2]
    show some ((List.zipWith op _ _)[flat ((gsOf (expFold fuel t u next).2.2.2.pairs).map (·.2))
      (pidx (gsOf (expFold fuel t u next).2.2.2.pairs) γ)]?.getD _) = _
    rw [getElem?_zipWith_some op _ _ _ v1 v2 a1 a2]
    rfl
  · have hb' : ∀ γ, ¬ Backs (raw fuel op (op t.default u.default) t u next) c γ := fun γ hγ => hb ⟨γ, hγ⟩
    have hc0 : c ∈ assigns (raw fuel op (op t.default u.default) t u next).vshape := by rw [hv]; exact hc
    have h0 := dense_unbacked hs hc0 hb'
    rw [hv] at h0
    have hout : ∀ γ, (∀ x ∈ (expFold fuel t u next).2.2.2.pairs, γ x.2.1 < x.2.2) →
        (expFold fuel t u next).1.map (Axis.eval γ) ≠ c := by
      intro γ hγ e
      refine hb' γ ⟨?_, e⟩
      intro p hp
      obtain ⟨x, hx, rfl⟩ := mem_gsOf.1 hp
      exact hγ x hx
    have b1 := side_unbacked hl hc hout
    have b2 := side_unbacked hr (h.shape ▸ hc) hout
    rw [← h.shape] at b2
    rw [h0, getElem?_zipWith_some op _ _ _ _ _ b1 b2]
    rfl

/-- **a binary operation on patterned tensors is the operation on the dense tensors they denote** -/
theorem binary_dense (fuel : Nat) (op : Ext → Ext → Ext) (t u : PT) (next : Nat) (h : OperandsOK t u next) :
    let r := binary fuel op (op t.default u.default) t u next
    r.wf = true ∧ r.vshape = t.vshape ∧ r.dense = List.zipWith op t.dense u.dense := by
  intro r
  show (binary fuel op (op t.default u.default) t u next).wf = true ∧
    (binary fuel op (op t.default u.default) t u next).vshape = t.vshape ∧
    (binary fuel op (op t.default u.default) t u next).dense = List.zipWith op t.dense u.dense
  rw [binary_eq]
  obtain ⟨h1, h2, h3⟩ := C06dL.normalize_spec (raw_normOK h fuel op (op t.default u.default))
  obtain ⟨h4, h5⟩ := raw_dense h fuel op
  exact ⟨h1, h2.trans h4, h3.trans h5⟩

end C06d
