/-
C02f — the stopping rule of `fixed_point`, for ANY comparison of iterates (exact, as in the Boolean and Viterbi
semirings, or `MultiTensor.allclose(other, tol)` with a tolerance, as in the Real and Log semirings — the driver
`P.sumProductsTol` runs `Pipe.sumProducts` with that comparison): when the loop stops without the warning, the value it
returns is CLOSE TO ITS OWN IMAGE under the component's function — an approximate fixed point in the sense of the
comparison — and it is one of the Kleene iterates from zero; when it warns, the budget was exhausted.  No law of the
comparison is needed (it need not be reflexive, symmetric or transitive).
-/
import FggsProofs.Props.C02e
import FggsModel.Pipeline

set_option linter.unusedSimpArgs false
set_option linter.unusedVariables false

namespace C02
open Fggs Fggs.Sem Fggs.Pipe

variable {K : Type}

/-- the Kleene iterates of the component's function from "no value" -/
def compIter (S : SR K) (G : Grammar K) (x : Val K) (comp : List Nat) : Nat → Val K
  | 0 => List.replicate G.nts.length none
  | n+1 => compF S G x comp (compIter S G x comp n)

/-- the general statement about the loop, started at two consecutive iterates -/
private theorem fpGo_spec [BEq K] (S : SR K) (G : Grammar K) (x : Val K) (comp : List Nat) :
    ∀ (fuel j : Nat) (y : Val K) (w : Bool),
      fpGo S G x comp fuel (compIter S G x comp j) (compIter S G x comp (j + 1)) = (y, w) →
      (w = false → valEqOn S G comp y (compF S G x comp y) = true ∧
        ∃ k, j ≤ k ∧ k < j + fuel ∧ y = compIter S G x comp k) ∧
      (w = true → y = compIter S G x comp (j + fuel) ∧
        ∀ i, j ≤ i → i < j + fuel →
          valEqOn S G comp (compIter S G x comp i) (compIter S G x comp (i + 1)) = false) := by
  intro fuel
  induction fuel with
  | zero =>
    intro j y w h
    simp only [fpGo, Prod.mk.injEq] at h
    obtain ⟨rfl, rfl⟩ := h
    refine ⟨fun hw => (by cases hw), fun _ => ⟨rfl, ?_⟩⟩
    intro i h1 h2
    omega
  | succ fuel ih =>
    intro j y w h
    by_cases hc : valEqOn S G comp (compIter S G x comp j) (compIter S G x comp (j + 1)) = true
    · rw [fpGo, if_pos hc] at h
      simp only [Prod.mk.injEq] at h
      obtain ⟨rfl, rfl⟩ := h
      refine ⟨fun _ => ⟨hc, j, Nat.le_refl j, by omega, rfl⟩, fun hw => (by cases hw)⟩
    · rw [fpGo, if_neg hc] at h
      have hc' : valEqOn S G comp (compIter S G x comp j) (compIter S G x comp (j + 1)) = false := by
        cases hv : valEqOn S G comp (compIter S G x comp j) (compIter S G x comp (j + 1)) with
        | false => rfl
        | true => exact absurd hv hc
      have h' : fpGo S G x comp fuel (compIter S G x comp (j + 1)) (compIter S G x comp (j + 1 + 1)) = (y, w) := h
      obtain ⟨ih1, ih2⟩ := ih (j + 1) y w h'
      refine ⟨fun hw => ?_, fun hw => ?_⟩
      · obtain ⟨hv, k, hk1, hk2, hk3⟩ := ih1 hw
        exact ⟨hv, k, by omega, by omega, hk3⟩
      · obtain ⟨hy, hall⟩ := ih2 hw
        refine ⟨by rw [hy]; congr 1; omega, ?_⟩
        intro i hi1 hi2
        by_cases hij : i = j
        · subst hij; exact hc'
        · exact hall i (by omega) (by omega)

/-- **the value `fixed_point` returns without a warning is close to its own image**, and it is a Kleene iterate reached
within the budget -/
theorem fixedPoint_stops [BEq K] (S : SR K) (G : Grammar K) (x : Val K) (comp : List Nat) (kmax : Nat) (y : Val K)
    (h : fixedPoint S G x comp kmax = (y, false)) :
    valEqOn S G comp y (compF S G x comp y) = true ∧ ∃ k, k ≤ kmax ∧ y = compIter S G x comp k := by
  have h' : fpGo S G x comp (kmax + 1) (compIter S G x comp 0) (compIter S G x comp (0 + 1)) = (y, false) := h
  obtain ⟨hv, k, _, hk, hy⟩ := (fpGo_spec S G x comp (kmax + 1) 0 y false h').1 rfl
  exact ⟨hv, k, by omega, hy⟩

/-- the hypothesis of `fixedPoint_stops` is satisfiable: `X → X X | a` over the Booleans stops without a warning -/
example : fixedPoint boolSR
    (⟨[2], [[0]], [[0]], 0,
       [⟨0, [0], [0], [(1, [0]), (1, [0])]⟩, ⟨0, [0], [0], [(0, [0])]⟩],
       [[true, false]]⟩ : Grammar Bool) [none] [0] 5 = ([some [true, false]], false) := by decide

/-- **a warning means the budget was exhausted**: none of the first `kmax + 1` consecutive pairs of iterates compared close -/
theorem fixedPoint_warns [BEq K] (S : SR K) (G : Grammar K) (x : Val K) (comp : List Nat) (kmax : Nat) (y : Val K)
    (h : fixedPoint S G x comp kmax = (y, true)) :
    (∀ k, k ≤ kmax → valEqOn S G comp (compIter S G x comp k) (compIter S G x comp (k + 1)) = false) ∧
    y = compIter S G x comp (kmax + 1) := by
  have h' : fpGo S G x comp (kmax + 1) (compIter S G x comp 0) (compIter S G x comp (0 + 1)) = (y, true) := h
  obtain ⟨hy, hall⟩ := (fpGo_spec S G x comp (kmax + 1) 0 y true h').2 rfl
  refine ⟨fun k hk => hall k (Nat.zero_le k) (by omega), ?_⟩
  rw [hy]; congr 1; omega

end C02
