/-
C06j — `stack(tensors, dim)` of patterned tensors (model `Sh.stack` / `Sh.stackSlice` of FggsModel/ShapeOps.lean):
whenever it returns a tensor, that tensor is well formed, has the operands' shape with a new dimension of size
`len(tensors)` at `dim`, and its cell `(…, i, …)` is the cell of operand `i` — torch.stack of the dense operands.
(That it does return a tensor on operands of one shape and default — that the unification of the generalised axes with
each operand's axes succeeds — is checked by the correspondence on every run, not proved: `unify` is not complete in
general, see `C06b.unify_complete_statement_counterexample`.)

`stack_dense` carries three hypotheses that the statement as first given (`stack_dense_statement`) did not have:
`hpos` (no physical axis of size zero — the soundness of `unify` needs it, `C06b.unify_sound_counterexample`),
`hsized` (an identity shared with the first operand carries the same size — the anti-substitution is keyed by identity,
`C06c.antiunify_generalises_counterexample`), and `hres : StackResolved …` (no fuel was exhausted in the unifications
that fill the slices, as for `C06e.reshape_dense` / `C07b.einsum_dense`).

Proofs: FggsProofs/C06j{Anti,Slice,Main}Lemmas.lean.
-/
import FggsModel.ShapeOps
import FggsProofs.Props.C06
import FggsProofs.Props.C06b
import FggsProofs.Props.C06c
import FggsProofs.Props.C06d
import FggsProofs.Props.C06g
import FggsProofs.C06bLemmas
import FggsProofs.C06dBaseLemmas
import FggsProofs.C06dSideLemmas
import FggsProofs.C06jAntiLemmas
import FggsProofs.C06jSliceLemmas
import FggsProofs.C06jMainLemmas
import Mathlib.Tactic.Linarith
import Mathlib.Data.List.Basic

set_option linter.unusedSimpArgs false
set_option linter.unusedVariables false

namespace C06j
open Fggs Fggs.Ax Fggs.Un Fggs.Sh

/-- the cell of the dense tensor at an index tuple -/
def cell (t : PT) (idx : List Nat) : Ext := t.dense[flat t.vshape idx]?.getD t.default

/-- the statement of `stack_dense` as first given: without the hypotheses `hpos`, `hsized`, `hres` of `stack_dense`
(see there).  Without `hres` it cannot be expected to hold for every `fuel` (a `lookup` cut short by the fuel lets
`unify` bind a bound axis a second time, cf. `C06e.reshape_dense_counterexample`, `C07b.einsum_dense_counterexample`);
no counterexample is proved here. -/
def stack_dense_statement : Prop :=
  ∀ (fuel : Nat) (ts : List PT) (dim next : Nat) (hwf : ∀ t ∈ ts, t.wf = true)
    (hnext : ∀ t ∈ ts, ∀ p ∈ t.paxes, p.1 < next) (h0 : PT) (hh : ts.head? = some h0) (hdim : dim ≤ h0.vaxes.length)
    (r : PT) (hr : stack fuel ts dim next = some r),
    r.wf = true ∧ r.vshape = h0.vshape.take dim ++ [ts.length] ++ h0.vshape.drop dim ∧
    ∀ i (t : PT), ts[i]? = some t → ∀ idx ∈ assigns h0.vshape,
      cell r (idx.take dim ++ [i] ++ idx.drop dim) = cell t idx

/-- ADDED HYPOTHESIS of `stack_dense`: no fuel was exhausted while the slices were filled.  With `lggs` the generalised
axes and `ks` the fresh axes of the last anti-substitution (as `stack` computes them), for every operand `t`: if the
unification of `lggs` with `t.vaxes` (fresh substitution, counter one above the new axis `k`) succeeds, then in its
final substitution
* no identity is bound twice (a `lookup` cut short by `fuel` is the only way to bind a bound axis again),
* no bound physical axis remains in the clones of the fresh axes `ks` (`clone … FUEL` followed the substitution to
  its end), and
* the looked-up physical axes of the operand are unbound (`lookup … FUEL` followed the forwarding chain to its end).
All three are decidable properties of the run; for fewer than two operands nothing is required.
`stackResolved_example` discharges the hypothesis for a concrete pair of operands. -/
def StackResolved (fuel : Nat) (ts : List PT) (next : Nat) : Prop :=
  match ts with
  | h :: t1 :: rest =>
    let A := (t1 :: rest).foldl (fun (acc : List Axis × ASt) (t : PT) =>
      antiunifyAll fuel (acc.1.zip t.vaxes) ⟨[], acc.2.next⟩) (h.vaxes, ⟨[], next⟩)
    ∀ t ∈ h :: t1 :: rest, ∀ st, unifyAll fuel (A.1.zip t.vaxes) ⟨[], A.2.next + 1⟩ = (true, st) →
      (st.subst.map (·.1)).Nodup ∧
      (∀ g ∈ A.2.pairs.map (·.2), ∀ q ∈ (clone st.subst FUEL (.phys g.1 g.2)).fv, bound st.subst q.1 = none) ∧
      (∀ p ∈ t.paxes, ∀ q ∈ (lookup st.subst FUEL (.phys p.1 p.2)).fv, bound st.subst q.1 = none)
  | _ => True

private theorem resolved_of (fuel : Nat) (h t1 : PT) (rest : List PT) (next : Nat)
    (hres : StackResolved fuel (h :: t1 :: rest) next) :
    ∀ t ∈ h :: t1 :: rest, C06jL.SliceResolved fuel (C06jL.auFold fuel h (t1 :: rest) next).1
      ((C06jL.auFold fuel h (t1 :: rest) next).2.pairs.map (·.2)) t ((C06jL.auFold fuel h (t1 :: rest) next).2.next + 1) :=
  hres

/-- the case of one operand: `unsqueeze` -/
private theorem stack_one (h : PT) (hwf : h.wf = true) (dim : Nat) (r : PT)
    (hr : r = { h with vaxes := h.vaxes.take dim ++ [unitAxis] ++ h.vaxes.drop dim }) :
    r.wf = true ∧ r.vshape = h.vshape.take dim ++ [1] ++ h.vshape.drop dim ∧
    ∀ idx ∈ assigns h.vshape, cell r (idx.take dim ++ [0] ++ idx.drop dim) = cell h idx := by
  have hu : r = unsqueeze h dim := hr
  obtain ⟨h1, h2, h3⟩ := C06g.unsqueeze_dense h hwf dim
  rw [hu]
  refine ⟨h1, h2, ?_⟩
  intro idx hidx
  unfold cell
  rw [h3, h2, C06jL.flat_ins_one (C06dL.mem_assigns_length hidx)]
  rfl

/-- **stack denotes torch.stack** (soundness: whenever the model returns a tensor)

EXTRA HYPOTHESES with respect to the statement as first given (`stack_dense_statement`):
* `hpos`: no physical axis of size zero (needed for the soundness of `unify`, whose shortcut `if self.zero(): return
  True` answers `True` without equalising anything, `C06b.unify_sound_counterexample`);
* `hsized`: an identity that an operand shares with the FIRST operand carries the same size in both (in the library one
  `PhysicalAxis` object has one size; the anti-substitution of the first step is keyed by identities,
  `C06c.antiunify_generalises_counterexample`; later steps compare fresh axes with operand axes, which are distinct);
* `hres`: `StackResolved` — no fuel was exhausted while the slices were filled (see there). -/
theorem stack_dense (fuel : Nat) (ts : List PT) (dim next : Nat) (hwf : ∀ t ∈ ts, t.wf = true)
    (hnext : ∀ t ∈ ts, ∀ p ∈ t.paxes, p.1 < next) (h0 : PT) (hh : ts.head? = some h0) (hdim : dim ≤ h0.vaxes.length)
    -- extra hypotheses
    (hpos : ∀ t ∈ ts, ∀ p ∈ t.paxes, 0 < p.2)
    (hsized : ∀ t ∈ ts, ∀ p ∈ h0.paxes, ∀ q ∈ t.paxes, p.1 = q.1 → p.2 = q.2)
    (hres : StackResolved fuel ts next)
    (r : PT) (hr : stack fuel ts dim next = some r) :
    r.wf = true ∧ r.vshape = h0.vshape.take dim ++ [ts.length] ++ h0.vshape.drop dim ∧
    ∀ i (t : PT), ts[i]? = some t → ∀ idx ∈ assigns h0.vshape,
      cell r (idx.take dim ++ [i] ++ idx.drop dim) = cell t idx := by
  rcases ts with _ | ⟨h, _ | ⟨t1, rest⟩⟩
  · simp at hh
  · -- one operand
    simp only [List.head?_cons, Option.some.injEq] at hh
    subst hh
    have hr' : r = { h with vaxes := h.vaxes.take dim ++ [unitAxis] ++ h.vaxes.drop dim } := by
      have : some { h with vaxes := h.vaxes.take dim ++ [unitAxis] ++ h.vaxes.drop dim } = some r := hr
      cases this
      rfl
    obtain ⟨a, b, c⟩ := stack_one h (hwf h (by simp)) dim r hr'
    refine ⟨a, b, ?_⟩
    intro i t hi idx hidx
    rcases i with _ | i
    · simp only [List.getElem?_cons_zero, Option.some.injEq] at hi
      subst hi
      exact c idx hidx
    · simp at hi
  · -- at least two operands
    simp only [List.head?_cons, Option.some.injEq] at hh
    subst hh
    rw [C06jL.stack_eq] at hr
    split at hr
    · cases hr
    · next hany =>
      split at hr
      · cases hr
      · next hnone =>
        have hr' : Bn.normalize (C06jL.rawStack fuel (h :: t1 :: rest) (C06jL.auFold fuel h (t1 :: rest) next) dim h.default) = r := by
          have := hr
          cases this
          rfl
        -- the operands
        have hany' : ∀ t ∈ t1 :: rest, t.vshape = h.vshape ∧ h.default = t.default := by
          intro t ht
          have := hany
          simp only [Bool.not_eq_true, List.any_eq_false, Bool.or_eq_false_iff, bne_eq_false_iff_eq, Bool.not_eq_false',
            Bool.not_eq_eq_eq_not, Bool.not_true] at this
          have h2 := this t ht
          exact ⟨h2.1, C06jL.sameDefault_eq (by simpa using h2.2)⟩
        have hop : ∀ u ∈ h :: t1 :: rest, C06jL.OpOK h.vshape next u := by
          intro u hu
          refine ⟨hwf u hu, ?_, hnext u hu, hpos u hu⟩
          rcases List.mem_cons.1 hu with rfl | hu'
          · rfl
          · exact (hany' u hu').1
        have hdef : ∀ u ∈ h :: t1 :: rest, u.default = h.default := by
          intro u hu
          rcases List.mem_cons.1 hu with rfl | hu'
          · rfl
          · exact (hany' u hu').2.symm
        obtain ⟨inv, hle⟩ := C06jL.auFold_inv fuel h t1 rest next hop
          (fun u hu => hsized u (List.mem_cons_of_mem _ hu))
        have inv' := inv.congr_done (done' := h :: t1 :: rest) (fun t ht => by
          rcases List.mem_cons.1 ht with rfl | ht'
          · simp
          · exact List.mem_append_left _ (List.mem_reverse.2 ht'))
        have hsl : ∀ t ∈ h :: t1 :: rest, ∃ sl,
            stackSlice fuel (C06jL.auFold fuel h (t1 :: rest) next).1
              ((C06jL.auFold fuel h (t1 :: rest) next).2.pairs.map (·.2)) t
              ((C06jL.auFold fuel h (t1 :: rest) next).2.next + 1) = some sl := by
          intro t ht
          have := hnone
          simp only [Bool.not_eq_true, List.any_eq_false] at this
          have h2 := this _ (List.mem_map_of_mem (f := fun t => stackSlice fuel (C06jL.auFold fuel h (t1 :: rest) next).1
            ((C06jL.auFold fuel h (t1 :: rest) next).2.pairs.map (·.2)) t
            ((C06jL.auFold fuel h (t1 :: rest) next).2.next + 1)) ht)
          cases hs : stackSlice fuel (C06jL.auFold fuel h (t1 :: rest) next).1
              ((C06jL.auFold fuel h (t1 :: rest) next).2.pairs.map (·.2)) t
              ((C06jL.auFold fuel h (t1 :: rest) next).2.next + 1) with
          | none => rw [hs] at h2; simp at h2
          | some sl => exact ⟨sl, rfl⟩
        have hR : C06jL.RCtx fuel (h :: t1 :: rest) (C06jL.auFold fuel h (t1 :: rest) next) h.vshape next :=
          { inv := inv'
            two := by simp
            sl := fun t ht => by
              obtain ⟨sl, hs⟩ := hsl t ht
              exact ⟨sl, hs, C06jL.slice_ok inv' ht (hop t ht) (Nat.le_refl _) (Nat.le_succ _)
                (Nat.le_trans hle (Nat.le_succ _)) (resolved_of fuel h t1 rest next hres t ht) hs⟩
            shp := fun t ht => (hop t ht).shape
            sem := fun t ht => ((C06dL.wf_iff_struct t).1 (hwf t ht)).sem }
        obtain ⟨n1, n2, n3⟩ := C06dL.normalize_spec (hR.raw_normOK dim h.default)
        rw [← hr']
        refine ⟨n1, n2.trans (hR.raw_vshape dim h.default), ?_⟩
        intro i t hi idx hidx
        have ht : t ∈ h :: t1 :: rest := List.mem_of_getElem? hi
        unfold cell
        rw [n3, n2, C06jL.normalize_default, hR.raw_cell dim h.default hi (hdef t ht) hidx, hdef t ht]
        rfl

/-- operands of different shapes or defaults are rejected -/
theorem stack_rejects (fuel : Nat) (h0 t1 : PT) (rest : List PT) (dim next : Nat)
    (h : (t1 :: rest).any (fun t => t.vshape != h0.vshape || !sameDefault h0.default t.default) = true) :
    stack fuel (h0 :: t1 :: rest) dim next = none := by
  rw [C06jL.stack_eq, if_pos h]

/-! ### non-vacuity: a diagonal 2 × 2 pattern stacked with a dense 2 × 2 tensor -/

def exA : PT := { physical := [.fin 5, .fin 7], paxes := [(0, 2)], vaxes := [.phys 0 2, .phys 0 2], default := .fin 0 }
def exB : PT := { physical := [.fin 1, .fin 2, .fin 3, .fin 4], paxes := [(1, 2), (2, 2)], vaxes := [.phys 1 2, .phys 2 2], default := .fin 0 }

example : exA.wf = true ∧ exB.wf = true := by decide

/-- the anti-unification of the two patterns: two fresh axes, standing for `(X₀, X₁)` and `(X₀, X₂)` -/
private theorem ex_au : antiunifyAll 50 (exA.vaxes.zip exB.vaxes) ⟨[], 3⟩ =
    ([Axis.phys 3 2, .phys 4 2], ⟨[((.phys 0 2, .phys 1 2), (3, 2)), ((.phys 0 2, .phys 2 2), (4, 2))], 5⟩) := by
  simp [exA, exB, antiunifyAll, antiunify, extendAnti, axisEq, Axis.numel]

/-- the unifications that fill the slices: both fresh axes are bound to `X₀` (the diagonal), resp. to `X₁`, `X₂` -/
private theorem ex_uA : unifyAll 50 ([Axis.phys 3 2, .phys 4 2].zip exA.vaxes) ⟨[], 6⟩ =
    (true, ⟨[(4, .phys 0 2), (3, .phys 0 2)], 6⟩) := by rfl
private theorem ex_uB : unifyAll 50 ([Axis.phys 3 2, .phys 4 2].zip exB.vaxes) ⟨[], 6⟩ =
    (true, ⟨[(4, .phys 2 2), (3, .phys 1 2)], 6⟩) := by rfl

private theorem ex_sA : stackSlice 50 [Axis.phys 3 2, .phys 4 2] [(3, 2), (4, 2)] exA 6 =
    some [.fin 5, .fin 0, .fin 0, .fin 7] := by
  unfold stackSlice
  rw [ex_uA]
  decide
private theorem ex_sB : stackSlice 50 [Axis.phys 3 2, .phys 4 2] [(3, 2), (4, 2)] exB 6 =
    some [.fin 1, .fin 2, .fin 3, .fin 4] := by
  unfold stackSlice
  rw [ex_uB]
  decide

/-- the value of `stack` on the two operands, by staged evaluation -/
private theorem ex_stack (dim : Nat) : stack 50 [exA, exB] dim 3 = some (Bn.normalize
    { physical := [.fin 5, .fin 0, .fin 0, .fin 7, .fin 1, .fin 2, .fin 3, .fin 4], paxes := [(5, 2), (3, 2), (4, 2)],
      vaxes := [Axis.phys 3 2, .phys 4 2].take dim ++ [Axis.phys 5 2] ++ [Axis.phys 3 2, .phys 4 2].drop dim,
      default := .fin 0 }) := by
  have hc : ([exB].any (fun t => t.vshape != exA.vshape || !sameDefault exA.default t.default)) = false := by decide
  have hf : C06jL.auFold 50 exA [exB] 3 =
      ([Axis.phys 3 2, .phys 4 2], ⟨[((.phys 0 2, .phys 1 2), (3, 2)), ((.phys 0 2, .phys 2 2), (4, 2))], 5⟩) := by
    unfold C06jL.auFold C06jL.auStep
    simp only [List.foldl_cons, List.foldl_nil]
    exact ex_au
  rw [C06jL.stack_eq, hc, hf]
  unfold C06jL.slicesOf C06jL.rawStack C06jL.slicesOf
  simp only [List.map_cons, List.map_nil, ex_sA, ex_sB]
  rfl

example : (stack 50 [exA, exB] 0 3).map (fun r => (r.wf, r.vshape, r.dense)) =
    some (true, [2, 2, 2], [.fin 5, .fin 0, .fin 0, .fin 7, .fin 1, .fin 2, .fin 3, .fin 4]) := by
  rw [ex_stack]; decide
example : (stack 50 [exA, exB] 2 3).map (fun r => r.dense) =
    some [.fin 5, .fin 1, .fin 0, .fin 2, .fin 0, .fin 3, .fin 7, .fin 4] := by
  rw [ex_stack]; decide

/-- the hypothesis `StackResolved` of `stack_dense` holds for the two operands -/
theorem stackResolved_example : StackResolved 50 [exA, exB] 3 := by
  unfold StackResolved
  simp only [List.foldl_cons, List.foldl_nil, ex_au]
  intro t ht st hu
  simp only [List.mem_cons, List.not_mem_nil, or_false] at ht
  rcases ht with rfl | rfl
  · rw [show ((5 : Nat) + 1) = 6 from rfl, ex_uA] at hu
    cases hu
    decide
  · rw [show ((5 : Nat) + 1) = 6 from rfl, ex_uB] at hu
    cases hu
    decide

/-- `stack_dense` applied to this instance -/
example (r : PT) (hr : stack 50 [exA, exB] 0 3 = some r) :
    r.wf = true ∧ r.vshape = [2, 2, 2] ∧
    ∀ i (t : PT), [exA, exB][i]? = some t → ∀ idx ∈ assigns [2, 2], cell r ([i] ++ idx) = cell t idx :=
  stack_dense 50 [exA, exB] 0 3 (by decide) (by decide) exA rfl (by decide) (by decide) (by decide)
    stackResolved_example r hr

end C06j
