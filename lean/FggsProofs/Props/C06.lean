/-
C06 — Patterned tensors behave exactly like the dense tensors they denote.
Theorems about the axis language and the meaning of a PatternedTensor (FggsModel/Axis.lean).
-/
import FggsModel.Axis
import Mathlib.Tactic.Linarith
import Mathlib.Tactic.Ring
import Mathlib.Data.List.Basic

set_option linter.unusedSimpArgs false
set_option linter.unusedVariables false

namespace C06
open Fggs Fggs.Ax

/-- an assignment of physical indices that respects the sizes of the axes occurring in `e` -/
def Respects (ρ : Nat → Nat) (e : Axis) : Prop := ∀ p ∈ e.fv, ρ p.1 < p.2

/-! ### helpers: accumulators -/

private theorem evalList_acc (ρ : Nat → Nat) : ∀ (fs : List Axis) (acc : Nat),
    evalList ρ fs acc = acc * numelList fs + evalList ρ fs 0
  | [], acc => by simp [evalList, numelList]
  | f :: fs, acc => by
    rw [evalList, evalList, evalList_acc ρ fs (acc * f.numel + f.eval ρ),
      evalList_acc ρ fs (0 * f.numel + f.eval ρ), numelList]
    ring

private theorem evalList_cons_zero (ρ : Nat → Nat) (f : Axis) (fs : List Axis) :
    evalList ρ (f :: fs) 0 = f.eval ρ * numelList fs + evalList ρ fs 0 := by
  rw [evalList, evalList_acc]; simp

private theorem numelList_append : ∀ (as bs : List Axis),
    numelList (as ++ bs) = numelList as * numelList bs
  | [], bs => by simp [numelList]
  | a :: as, bs => by
    rw [List.cons_append, numelList, numelList, numelList_append as bs]; ring

private theorem evalList_append (ρ : Nat → Nat) : ∀ (as bs : List Axis) (acc : Nat),
    evalList ρ (as ++ bs) acc = evalList ρ bs (evalList ρ as acc)
  | [], bs, acc => by simp [evalList]
  | a :: as, bs, acc => by
    rw [List.cons_append, evalList, evalList, evalList_append ρ as bs]

/-! ### eval < numel -/

mutual
private theorem eval_lt_aux (ρ : Nat → Nat) : ∀ (e : Axis), (∀ p ∈ e.fv, ρ p.1 < p.2) → e.eval ρ < e.numel
  | .phys v n, h => by
    have := h (v, n) (by simp [Axis.fv])
    simpa [Axis.eval, Axis.numel] using this
  | .prod fs, h => by
    rw [Axis.eval, Axis.numel]
    exact evalList_lt_aux ρ fs (by simpa [Axis.fv] using h)
  | .sum b t a, h => by
    have := eval_lt_aux ρ t (by simpa [Axis.fv] using h)
    rw [Axis.eval, Axis.numel]; omega
private theorem evalList_lt_aux (ρ : Nat → Nat) : ∀ (fs : List Axis), (∀ p ∈ fvList fs, ρ p.1 < p.2) →
    evalList ρ fs 0 < numelList fs
  | [], _ => by simp [evalList, numelList]
  | f :: fs, h => by
    have h1 := eval_lt_aux ρ f (fun p hp => h p (by simp [fvList, hp]))
    have h2 := evalList_lt_aux ρ fs (fun p hp => h p (by simp [fvList, hp]))
    rw [evalList_cons_zero, numelList]
    have h3 : (f.eval ρ + 1) * numelList fs ≤ f.numel * numelList fs := Nat.mul_le_mul_right _ h1
    have h4 : (f.eval ρ + 1) * numelList fs = f.eval ρ * numelList fs + numelList fs := by ring
    omega
end

/-- **a virtual index stays inside the axis's range** -/
theorem eval_lt_numel (e : Axis) (ρ : Nat → Nat) (h : Respects ρ e) : e.eval ρ < e.numel :=
  eval_lt_aux ρ e h

/-! ### stride -/

/-- the linear part of an affine form -/
private def lin (ρ : Nat → Nat) : List (Nat × Nat) → Nat
  | [] => 0
  | p :: s => p.2 * ρ p.1 + lin ρ s

private theorem foldl_lin (ρ : Nat → Nat) : ∀ (s : List (Nat × Nat)) (a : Nat),
    s.foldl (fun acc p => acc + p.2 * ρ p.1) a = a + lin ρ s
  | [], a => by simp [lin]
  | p :: s, a => by rw [List.foldl_cons, foldl_lin ρ s, lin]; ring

private theorem applyStride_eq (ρ : Nat → Nat) (o : Nat) (s : List (Nat × Nat)) :
    applyStride (o, s) ρ = o + lin ρ s := by
  simp [applyStride, foldl_lin]

private theorem lin_append (ρ : Nat → Nat) : ∀ (s s' : List (Nat × Nat)),
    lin ρ (s ++ s') = lin ρ s + lin ρ s'
  | [], s' => by simp [lin]
  | p :: s, s' => by rw [List.cons_append, lin, lin, lin_append ρ s s']; ring

private theorem lin_scale (ρ : Nat → Nat) (n : Nat) : ∀ (s : List (Nat × Nat)),
    lin ρ (s.map (fun p => (p.1, p.2 * n))) = lin ρ s * n
  | [] => by simp [lin]
  | p :: s => by rw [List.map_cons, lin, lin, lin_scale ρ n s]; ring

private def keys (s : List (Nat × Nat)) : List Nat := s.map (·.1)

private theorem upd_not_mem (v c : Nat) : ∀ (s : List (Nat × Nat)), v ∉ keys s →
    s.map (fun p => if p.1 == v then (p.1, p.2 + c) else p) = s
  | [], _ => rfl
  | p :: s, h => by
    simp only [keys, List.map_cons, List.mem_cons, not_or] at h
    have hs := upd_not_mem v c s h.2
    have hp : (p.1 == v) = false := by simpa using fun e => h.1 e.symm
    rw [List.map_cons, hs, hp]; rfl

private theorem lin_upd (ρ : Nat → Nat) (v c : Nat) : ∀ (s : List (Nat × Nat)), (keys s).Nodup → v ∈ keys s →
    lin ρ (s.map (fun p => if p.1 == v then (p.1, p.2 + c) else p)) = lin ρ s + c * ρ v
  | [], _, h => by simp [keys] at h
  | p :: s, hn, h => by
    simp only [keys, List.map_cons, List.nodup_cons] at hn
    by_cases hp : p.1 = v
    · have hv : v ∉ keys s := by rw [← hp]; exact hn.1
      rw [List.map_cons, upd_not_mem v c s hv]
      simp only [hp, beq_self_eq_true, if_true, lin]
      rw [← hp]; ring
    · have hv : v ∈ keys s := by
        simp only [keys, List.map_cons, List.mem_cons] at h
        rcases h with h | h
        · exact absurd h.symm hp
        · exact h
      have ih := lin_upd ρ v c s hn.2 hv
      have hp' : (p.1 == v) = false := by simpa using hp
      rw [List.map_cons, hp']
      simp only [Bool.false_eq_true, if_false]
      rw [lin, ih, lin]; ring

private theorem keys_upd (v c : Nat) (s : List (Nat × Nat)) :
    keys (s.map (fun p => if p.1 == v then (p.1, p.2 + c) else p)) = keys s := by
  simp only [keys, List.map_map]
  apply List.map_congr_left
  intro p _
  by_cases hp : p.1 = v <;> simp [hp]

private theorem any_iff_mem_keys (s : List (Nat × Nat)) (v : Nat) :
    s.any (·.1 == v) = true ↔ v ∈ keys s := by
  simp only [keys, List.any_eq_true, beq_iff_eq, List.mem_map]

private theorem addCoeff_spec (ρ : Nat → Nat) (s : List (Nat × Nat)) (v c : Nat) (hn : (keys s).Nodup) :
    lin ρ (addCoeff s v c) = lin ρ s + c * ρ v ∧ (keys (addCoeff s v c)).Nodup := by
  unfold addCoeff
  by_cases h : s.any (·.1 == v) = true
  · rw [if_pos h]
    have hv := (any_iff_mem_keys s v).1 h
    exact ⟨lin_upd ρ v c s hn hv, by rw [keys_upd]; exact hn⟩
  · rw [if_neg h]
    have hv : v ∉ keys s := fun hv => h ((any_iff_mem_keys s v).2 hv)
    refine ⟨by rw [lin_append]; simp [lin], ?_⟩
    simp only [keys, List.map_append, List.map_cons, List.map_nil]
    rw [List.nodup_append]
    refine ⟨hn, by simp, ?_⟩
    intro a ha b hb
    simp only [List.mem_singleton] at hb
    rintro rfl
    exact hv (hb ▸ ha)

private theorem foldl_addCoeff_spec (ρ : Nat → Nat) : ∀ (s' s : List (Nat × Nat)), (keys s).Nodup →
    lin ρ (s'.foldl (fun acc p => addCoeff acc p.1 p.2) s) = lin ρ s + lin ρ s' ∧
    (keys (s'.foldl (fun acc p => addCoeff acc p.1 p.2) s)).Nodup
  | [], s, hn => by simp [lin, hn]
  | p :: s', s, hn => by
    have h1 := addCoeff_spec ρ s p.1 p.2 hn
    have h2 := foldl_addCoeff_spec ρ s' (addCoeff s p.1 p.2) h1.2
    rw [List.foldl_cons]
    refine ⟨?_, h2.2⟩
    rw [h2.1, h1.1, lin]; ring

private theorem keys_scale (n : Nat) (s : List (Nat × Nat)) :
    keys (s.map (fun p => (p.1, p.2 * n))) = keys s := by
  simp [keys, List.map_map, Function.comp_def]

mutual
private theorem stride_aux (ρ : Nat → Nat) : ∀ (e : Axis), applyStride e.stride ρ = e.eval ρ
  | .phys v n => by simp [Axis.stride, Axis.eval, applyStride]
  | .prod fs => by
    rw [Axis.stride, Axis.eval, strideList_aux ρ fs 0 [] (by simp [keys])]
    simp [applyStride]
  | .sum b t a => by
    have ih := stride_aux ρ t
    rw [Axis.stride, Axis.eval]
    rcases h : t.stride with ⟨o, s⟩
    rw [h, applyStride_eq] at ih
    simp only [applyStride_eq]
    omega
private theorem strideList_aux (ρ : Nat → Nat) : ∀ (fs : List Axis) (o : Nat) (s : List (Nat × Nat)),
    (keys s).Nodup →
    applyStride (strideList fs (o, s)) ρ = applyStride (o, s) ρ * numelList fs + evalList ρ fs 0
  | [], o, s, _ => by simp [strideList, numelList, evalList]
  | f :: fs, o, s, hn => by
    have ihf := stride_aux ρ f
    rw [strideList]
    rcases h : f.stride with ⟨o', s'⟩
    rw [h, applyStride_eq] at ihf
    have hsc : (keys (s.map (fun p => (p.1, p.2 * f.numel)))).Nodup := by rw [keys_scale]; exact hn
    have hf := foldl_addCoeff_spec ρ s' _ hsc
    simp only
    rw [strideList_aux ρ fs _ _ hf.2, applyStride_eq, applyStride_eq, hf.1, lin_scale,
      evalList_cons_zero, numelList, ← ihf]
    ring
end

/-- **the affine form computed by `stride` is the index map**: offset + Σ coefficient · physical index -/
theorem stride_eq_eval (e : Axis) (ρ : Nat → Nat) : applyStride e.stride ρ = e.eval ρ :=
  stride_aux ρ e

/-! ### row-major flattening -/

private theorem foldl_mul (l : List Nat) : ∀ (a : Nat), l.foldl (· * ·) a = a * l.foldl (· * ·) 1 := by
  induction l with
  | nil => intro a; simp
  | cons x l ih => intro a; rw [List.foldl_cons, List.foldl_cons, ih (a * x), ih (1 * x)]; ring

private theorem numel_nil : numel [] = 1 := rfl

private theorem numel_cons (x : Nat) (l : List Nat) : numel (x :: l) = x * numel l := by
  unfold numel; rw [List.foldl_cons, foldl_mul]; ring

private theorem numel_map_numel : ∀ (es : List Axis), numel (es.map Axis.numel) = numelList es
  | [] => by simp [numel_nil, numelList]
  | e :: es => by rw [List.map_cons, numel_cons, numel_map_numel es, numelList]

/-- `evalList_eq_flat` holds for every assignment; the `Respects` hypothesis is not needed -/
theorem evalList_eq_flat' (es : List Axis) (ρ : Nat → Nat) :
    (Axis.prod es).eval ρ = flat (es.map Axis.numel) (es.map (Axis.eval ρ)) := by
  rw [Axis.eval]
  induction es with
  | nil => simp [evalList, flat]
  | cons e es ih =>
    rw [evalList_cons_zero, List.map_cons, List.map_cons, flat, numel_map_numel, ih]

/-- row-major flattening of the virtual indices of several axes is the virtual index of their product -/
theorem evalList_eq_flat (es : List Axis) (ρ : Nat → Nat) (h : ∀ e ∈ es, Respects ρ e) :
    (Axis.prod es).eval ρ = flat (es.map Axis.numel) (es.map (Axis.eval ρ)) :=
  evalList_eq_flat' es ρ

/-! ### productAxis -/

private def flat1 (fs : List Axis) : List Axis :=
  fs.flatMap (fun f => match f with | .prod gs => gs | e => [e])

private theorem flat1_cons (f : Axis) (fs : List Axis) :
    flat1 (f :: fs) = (match f with | .prod gs => gs | e => [e]) ++ flat1 fs := by
  simp [flat1]

private theorem numelList_flat1 : ∀ (fs : List Axis), numelList (flat1 fs) = numelList fs
  | [] => by simp [flat1]
  | f :: fs => by
    rw [flat1_cons, numelList_append, numelList_flat1 fs, numelList]
    cases f <;> simp [numelList, Axis.numel]

private theorem evalList_flat1 (ρ : Nat → Nat) : ∀ (fs : List Axis) (acc : Nat),
    evalList ρ (flat1 fs) acc = evalList ρ fs acc
  | [], acc => by simp [flat1]
  | f :: fs, acc => by
    rw [flat1_cons, evalList_append, evalList_flat1 ρ fs, evalList]
    cases f with
    | prod gs => simp only [Axis.numel, Axis.eval]; rw [evalList_acc ρ gs acc]
    | phys v n => simp [evalList]
    | sum b t a => simp [evalList]

private theorem productAxis_eq (fs : List Axis) :
    productAxis fs = (match flat1 fs with | [e] => e | _ => .prod (flat1 fs)) := by
  rfl

/-- `productAxis` (flatten nested products, unwrap singletons) does not change size or meaning -/
theorem productAxis_numel (es : List Axis) : (productAxis es).numel = (Axis.prod es).numel := by
  rw [productAxis_eq, Axis.numel, ← numelList_flat1 es]
  split
  · next e h => rw [h]; simp [numelList]
  · rw [Axis.numel]

theorem productAxis_eval (es : List Axis) (ρ : Nat → Nat) : (productAxis es).eval ρ = (Axis.prod es).eval ρ := by
  rw [productAxis_eq, Axis.eval, ← evalList_flat1 ρ es]
  split
  · next e h => rw [h]; simp [evalList]
  · rw [Axis.eval]

/-! ### dense -/

private theorem foldl_set_map {β : Type} (f : Ext → Ext) (c : β → Nat) (v : β → Ext) :
    ∀ (L : List β) (arr : Array Ext),
    L.foldl (fun a p => a.setIfInBounds (c p) (f (v p))) (arr.map f) =
      (L.foldl (fun a p => a.setIfInBounds (c p) (v p)) arr).map f
  | [], arr => rfl
  | p :: L, arr => by
    rw [List.foldl_cons, List.foldl_cons, ← Array.map_setIfInBounds, foldl_set_map f c v L]

/-- **pointwise operations**: mapping `f` over the physical elements and over the default denotes mapping
`f` over the dense tensor (whatever the pattern) -/
theorem dense_map (t : PT) (f : Ext → Ext) : (t.map f (f t.default)).dense = t.dense.map f := by
  unfold PT.dense
  simp only [PT.map, PT.vshape, List.getElem?_map, Option.getD_map, ← Array.map_replicate,
    ← Array.toList_map]
  rw [foldl_set_map f]

/-- two patterned tensors over the same physical data denote the same dense data if they have the same
number of cells and send every physical index to the same flat cell -/
private theorem dense_congr (t t' : PT) (hp : t'.physical = t.physical) (hpa : t'.paxes = t.paxes)
    (hd : t'.default = t.default) (hN : numel t'.vshape = numel t.vshape)
    (hc : ∀ ρ, flat t'.vshape (t'.vaxes.map (Axis.eval ρ)) = flat t.vshape (t.vaxes.map (Axis.eval ρ))) :
    t'.dense = t.dense := by
  unfold PT.dense
  simp only [hp, hpa, hd, hN, hc]

/-- `dense_flatten` needs no well-formedness: both sides have the same number of cells and write the same
cells in the same order, so even out-of-range and colliding writes agree -/
theorem dense_flatten' (t : PT) : t.flatten.dense = t.dense := by
  unfold PT.flatten
  split
  · rfl
  · refine dense_congr t _ ?_ ?_ ?_ ?_ ?_
    · rfl
    · rfl
    · rfl
    · simp only [PT.vshape, List.map_cons, List.map_nil, numel_cons, numel_nil, productAxis_numel,
        Axis.numel, numel_map_numel, Nat.mul_one]
    · intro ρ
      simp only [PT.vshape, List.map_cons, List.map_nil, flat, numel_nil, productAxis_eval,
        evalList_eq_flat', Nat.mul_one, Nat.add_zero]

/-- **flatten denotes flatten**: the flat (row-major) dense data is unchanged -/
theorem dense_flatten (t : PT) (h : t.wf = true) : t.flatten.dense = t.dense :=
  dense_flatten' t

private theorem unitAxis_numel : unitAxis.numel = 1 := by simp [unitAxis, Axis.numel, numelList]
private theorem unitAxis_eval (ρ : Nat → Nat) : unitAxis.eval ρ = 0 := by simp [unitAxis, Axis.eval, evalList]

private theorem numel_insert_unit (l1 l2 : List Axis) :
    numel ((l1 ++ [unitAxis] ++ l2).map Axis.numel) = numel ((l1 ++ l2).map Axis.numel) := by
  rw [numel_map_numel, numel_map_numel, numelList_append, numelList_append, numelList_append]
  simp [numelList, unitAxis_numel]

private theorem flat_insert_unit (ρ : Nat → Nat) : ∀ (l1 l2 : List Axis),
    flat ((l1 ++ [unitAxis] ++ l2).map Axis.numel) ((l1 ++ [unitAxis] ++ l2).map (Axis.eval ρ)) =
      flat ((l1 ++ l2).map Axis.numel) ((l1 ++ l2).map (Axis.eval ρ))
  | [], l2 => by
    simp only [List.nil_append, List.cons_append, List.map_cons, flat, unitAxis_eval]
    simp
  | e :: l1, l2 => by
    have ih := flat_insert_unit ρ l1 l2
    have hn := numel_insert_unit l1 l2
    simp only [List.cons_append, List.map_cons, flat] at ih hn ⊢
    rw [ih, hn]

private theorem dense_insert_unit (t : PT) (l1 l2 : List Axis) (h : t.vaxes = l1 ++ l2) :
    ({ t with vaxes := l1 ++ [unitAxis] ++ l2 } : PT).dense = t.dense := by
  refine dense_congr t _ ?_ ?_ ?_ ?_ ?_
  · rfl
  · rfl
  · rfl
  · simp only [PT.vshape, h]; exact numel_insert_unit l1 l2
  · intro ρ
    simp only [PT.vshape, h]; exact flat_insert_unit ρ l1 l2

/-- `dense_unsqueeze` holds for every `dim` (for `dim ≥ rank` the unit axis is appended) -/
theorem dense_unsqueeze' (t : PT) (dim : Nat) : (t.unsqueeze dim).dense = t.dense :=
  dense_insert_unit t _ _ (List.take_append_drop dim t.vaxes).symm

/-- **unsqueeze denotes unsqueeze**: inserting a size-1 axis does not change the flat dense data -/
theorem dense_unsqueeze (t : PT) (dim : Nat) (hd : dim ≤ t.vaxes.length) : (t.unsqueeze dim).dense = t.dense :=
  dense_unsqueeze' t dim

/-- non-vacuity: the 2×3 physical matrix of the module docstring stores a [6,2,3] tensor -/
example : (PT.mk [.fin 1, .fin 2, .fin 3, .fin 4, .fin 5, .fin 6] [(0,2),(1,3)]
            [.prod [.phys 0 2, .phys 1 3], .phys 0 2, .phys 1 3] (.fin 0)).wf = true := by decide

end C06
