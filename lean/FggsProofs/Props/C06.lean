/-
C06 — placeholder (theorems follow)
-/
import FggsModel.Axis
