/-
C09 — Semiring linear solvers return the least solution of x = A x + b.
(1) algebraic part, about the model `Sv.solveLoop` of Semiring.solve_thunks: with the star law
    `star a = 1 + a · star a`, the Gauss–Jordan/Lehmann loop returns a solution of x = A x + b;
(2) order-theoretic part (Bekić's lemma): the least solution of a pair of monotone equations is obtained by
    solving one equation for its variable and substituting — the elimination step preserves LEAST solutions.
-/
import FggsModel.Solve
import FggsProofs.Props.C01
import Mathlib.Tactic.Linarith
import Mathlib.Data.List.Basic
import Mathlib.Order.FixedPoints

set_option linter.unusedSimpArgs false
set_option linter.unusedVariables false

namespace C09
open Fggs Fggs.Sem Fggs.Sv

variable {K : Type}

/-- the star law: `star a` solves `y = 1 + a·y` -/
def StarLaw (S : SR K) (star : K → K) : Prop := ∀ a, star a = S.add S.one (S.mul a (star a))

/-! ### algebra toolkit (the C01 helpers are private there) -/
section toolkit
variable {S : SR K} (hS : C01.SRLaws S)
include hS

private theorem add_zero (a : K) : S.add a S.zero = a := by rw [hS.add_comm, hS.zero_add]
private theorem right_distrib (a b c : K) : S.mul (S.add a b) c = S.add (S.mul a c) (S.mul b c) := by
  rw [hS.mul_comm, hS.left_distrib, hS.mul_comm c a, hS.mul_comm c b]

private theorem foldl_add (l : List K) (a : K) : l.foldl S.add a = S.add a (S.sum l) := by
  induction l generalizing a with
  | nil => simp [SR.sum, add_zero hS]
  | cons b l ih =>
    simp only [SR.sum, List.foldl_cons]
    rw [ih, ih (S.add S.zero b), hS.zero_add, hS.add_assoc]

omit hS in
private theorem sum_nil' : S.sum ([] : List K) = S.zero := rfl

private theorem sum_cons (a : K) (l : List K) : S.sum (a :: l) = S.add a (S.sum l) := by
  show (a :: l).foldl S.add S.zero = _
  rw [List.foldl_cons, foldl_add hS, hS.zero_add]

private theorem sum_append (l₁ l₂ : List K) : S.sum (l₁ ++ l₂) = S.add (S.sum l₁) (S.sum l₂) := by
  induction l₁ with
  | nil => simp [sum_nil', hS.zero_add]
  | cons a l ih => rw [List.cons_append, sum_cons hS, sum_cons hS, ih, hS.add_assoc]

private theorem sum_range_succ (f : Nat → K) (k : Nat) :
    S.sum ((List.range (k+1)).map f) = S.add (S.sum ((List.range k).map f)) (f k) := by
  rw [List.range_succ, List.map_append, sum_append hS, List.map_singleton, sum_cons hS, sum_nil',
    add_zero hS]

private theorem sum_map_add {α : Type} (l : List α) (f g : α → K) :
    S.sum (l.map (fun x => S.add (f x) (g x))) = S.add (S.sum (l.map f)) (S.sum (l.map g)) := by
  induction l with
  | nil => simp [sum_nil', hS.zero_add]
  | cons a l ih =>
    simp only [List.map_cons, sum_cons hS, ih]
    rw [hS.add_assoc, hS.add_assoc, ← hS.add_assoc (g a), ← hS.add_assoc (S.sum (l.map f)),
      hS.add_comm (g a)]

private theorem sum_map_mul_right {α : Type} (l : List α) (f : α → K) (c : K) :
    S.sum (l.map (fun x => S.mul (f x) c)) = S.mul (S.sum (l.map f)) c := by
  induction l with
  | nil => simp [sum_nil', hS.zero_mul]
  | cons a l ih => simp only [List.map_cons, sum_cons hS, ih, right_distrib hS]

end toolkit

private theorem sum_map_congr {S : SR K} {α : Type} (l : List α) (f g : α → K)
    (h : ∀ x ∈ l, f x = g x) : S.sum (l.map f) = S.sum (l.map g) := by
  rw [List.map_congr_left h]

/-- scalar case: `star a · b` solves `y = a·y + b` -/
theorem star_mul_solves (S : SR K) (hS : C01.SRLaws S) (star : K → K) (hstar : StarLaw S star) (a b : K) :
    S.mul (star a) b = S.add (S.mul a (S.mul (star a) b)) b := by
  conv_lhs => rw [hstar a]
  rw [right_distrib hS, hS.one_mul, hS.mul_assoc, hS.add_comm]

/-- the loop on a 1×1 system is `star a · b` (up to commutativity) -/
theorem solveLoop_one (S : SR K) (hS : C01.SRLaws S) (star : K → K) (a b : K) :
    solveLoop S star [[a]] [b] = [S.add b (S.mul (S.mul a (star a)) b)] := by
  rfl

/-- a square system: `a` has `n` rows of length `n`, `b` has length `n` -/
def Square (a : List (List K)) (b : List K) : Prop := (∀ r ∈ a, r.length = a.length) ∧ b.length = a.length

/-! ### explicit formulas for the outputs of one pivot step -/

private theorem getM_tab (S : SR K) (n : Nat) (f : Nat → Nat → K) (i j : Nat) (hi : i < n) (hj : j < n) :
    getM S ((List.range n).map (fun i => (List.range n).map (fun j => f i j))) i j = f i j := by
  simp [getM, hi, hj]

private theorem getV_tab (S : SR K) (n : Nat) (f : Nat → K) (i : Nat) (hi : i < n) :
    getV S ((List.range n).map f) i = f i := by
  simp [getV, hi]

/-- column `k` of the new matrix: the old column scaled by `star a[k][k]` -/
private theorem pivot_col (S : SR K) (star : K → K) (n k : Nat) (a : List (List K)) (x : List K)
    (i : Nat) (hi : i < n) (hk : k < n) :
    getM S (pivot S star n k a x).1 i k = S.mul (getM S a i k) (star (getM S a k k)) := by
  simp only [pivot]
  rw [getM_tab S n _ i k hi hk, if_neg (by omega), getM_tab S n _ i k hi hk]
  simp

/-- columns `j > k` of the new matrix -/
private theorem pivot_right (S : SR K) (star : K → K) (n k : Nat) (a : List (List K)) (x : List K)
    (i j : Nat) (hi : i < n) (hj : j < n) (hkj : k < j) :
    getM S (pivot S star n k a x).1 i j =
      S.add (getM S a i j) (S.mul (S.mul (getM S a i k) (star (getM S a k k))) (getM S a k j)) := by
  have hk : k < n := by omega
  have hne : (j == k) = false := by simp; omega
  simp only [pivot]
  rw [getM_tab S n _ i j hi hj, if_pos hkj, getM_tab S n _ i j hi hj, getM_tab S n _ i k hi hk,
    getM_tab S n _ k j hk hj]
  simp [hne]

/-- the new right-hand side -/
private theorem pivot_vec (S : SR K) (star : K → K) (n k : Nat) (a : List (List K)) (x : List K)
    (i : Nat) (hi : i < n) (hk : k < n) :
    getV S (pivot S star n k a x).2 i =
      S.add (getV S x i) (S.mul (S.mul (getM S a i k) (star (getM S a k k))) (getV S x k)) := by
  have h := pivot_col S star n k a x i hi hk
  simp only [pivot] at h ⊢
  rw [getV_tab S n _ i hi, h]

private theorem pivot_vec_length (S : SR K) (star : K → K) (n k : Nat) (a : List (List K)) (x : List K) :
    (pivot S star n k a x).2.length = n := by
  simp [pivot]

/-! ### the invariant: truncated solutions -/

/-- `c` solves the system truncated to the first `k` columns, with right-hand side `r`:
`c[i] = r[i] + Σ_{j<k} A[i][j]·c[j]` for every row `i < n` -/
private def TSol (S : SR K) (A : Nat → Nat → K) (n k : Nat) (r c : Nat → K) : Prop :=
  ∀ i, i < n → c i = S.add (r i) (S.sum ((List.range k).map (fun j => S.mul (A i j) (c j))))

/-- one elimination step turns truncated-to-`k` solutions into truncated-to-`k+1` solutions -/
private theorem tsol_step (S : SR K) (hS : C01.SRLaws S) (star : K → K) (hstar : StarLaw S star)
    (A : Nat → Nat → K) (n k : Nat) (hk : k < n) (r c p c' : Nat → K)
    (hp : TSol S A n k (fun i => A i k) p) (hc : TSol S A n k r c)
    (hc' : ∀ i, i < n → c' i = S.add (c i) (S.mul (S.mul (p i) (star (p k))) (c k))) :
    TSol S A n (k+1) r c' := by
  have : Std.Associative S.add := ⟨hS.add_assoc⟩
  have : Std.Commutative S.add := ⟨hS.add_comm⟩
  -- the new pivot entry
  have ht : c' k = S.mul (star (p k)) (c k) := by
    rw [hc' k hk]
    conv_rhs => rw [hstar (p k)]
    rw [right_distrib hS, hS.one_mul]
  have hc'' : ∀ i, i < n → c' i = S.add (c i) (S.mul (p i) (c' k)) := by
    intro i hi
    rw [hc' i hi, ht, hS.mul_assoc]
  intro i hi
  rw [sum_range_succ hS]
  have hsum : S.sum ((List.range k).map (fun j => S.mul (A i j) (c' j))) =
      S.add (S.sum ((List.range k).map (fun j => S.mul (A i j) (c j))))
        (S.mul (S.sum ((List.range k).map (fun j => S.mul (A i j) (p j)))) (c' k)) := by
    rw [← sum_map_mul_right hS, ← sum_map_add hS]
    apply sum_map_congr
    intro j hj
    have hjn : j < n := by have := List.mem_range.1 hj; omega
    rw [hc'' j hjn, hS.left_distrib, hS.mul_assoc]
  rw [hsum, hc'' i hi, hc i hi, hp i hi, right_distrib hS]
  beta_reduce
  ac_rfl

/-- the loop invariant after the pivots `0..k-1` -/
private def Inv (S : SR K) (a : List (List K)) (b : List K) (n k : Nat) (st : List (List K) × List K) : Prop :=
  st.2.length = n ∧
  TSol S (getM S a) n k (getV S b) (getV S st.2) ∧
  ∀ j, k ≤ j → j < n → TSol S (getM S a) n k (fun i => getM S a i j) (fun i => getM S st.1 i j)

private theorem inv_zero (S : SR K) (hS : C01.SRLaws S) (a : List (List K)) (b : List K) (n : Nat)
    (hb : b.length = n) : Inv S a b n 0 (a, b) := by
  refine ⟨hb, ?_, ?_⟩
  · intro i _; simp [sum_nil', add_zero hS]
  · intro j _ _ i _; simp [sum_nil', add_zero hS]

private theorem inv_step (S : SR K) (hS : C01.SRLaws S) (star : K → K) (hstar : StarLaw S star)
    (a : List (List K)) (b : List K) (n k : Nat) (hk : k < n) (st : List (List K) × List K)
    (h : Inv S a b n k st) : Inv S a b n (k+1) (pivot S star n k st.1 st.2) := by
  obtain ⟨_, hx, hcols⟩ := h
  have hp := hcols k (Nat.le_refl k) hk
  refine ⟨pivot_vec_length .., ?_, ?_⟩
  · exact tsol_step S hS star hstar (getM S a) n k hk _ _ _ _ hp hx
      (fun i hi => pivot_vec S star n k st.1 st.2 i hi hk)
  · intro j hkj hj
    exact tsol_step S hS star hstar (getM S a) n k hk _ _ _ _ hp (hcols j (by omega) hj)
      (fun i hi => pivot_right S star n k st.1 st.2 i j hi hj (by omega))

private theorem inv_fold (S : SR K) (hS : C01.SRLaws S) (star : K → K) (hstar : StarLaw S star)
    (a : List (List K)) (b : List K) (n : Nat) (hb : b.length = n) (m : Nat) (hm : m ≤ n) :
    Inv S a b n m ((List.range m).foldl
      (fun (st : List (List K) × List K) k => pivot S star n k st.1 st.2) (a, b)) := by
  induction m with
  | zero => exact inv_zero S hS a b n hb
  | succ m ih =>
    rw [List.range_succ, List.foldl_append, List.foldl_cons, List.foldl_nil]
    exact inv_step S hS star hstar a b n m (by omega) _ (ih (by omega))

/-- **the Gauss–Jordan/Lehmann loop returns a solution of `x = A x + b`**, for every size `n`, in every
commutative semiring with a star satisfying the star law -/
theorem solveLoop_is_solution (S : SR K) (hS : C01.SRLaws S) (star : K → K) (hstar : StarLaw S star)
    (a : List (List K)) (b : List K) (hsq : Square a b) :
    affine S a b (solveLoop S star a b) = solveLoop S star a b := by
  obtain ⟨hlen, hsol, _⟩ := inv_fold S hS star hstar a b a.length hsq.2 a.length (Nat.le_refl _)
  change (solveLoop S star a b).length = a.length at hlen
  change TSol S (getM S a) a.length a.length (getV S b) (getV S (solveLoop S star a b)) at hsol
  generalize solveLoop S star a b = x at hlen hsol
  apply List.ext_getElem
  · simp [affine, hlen]
  · intro i h1 h2
    have hi : i < a.length := by rw [hlen] at h2; exact h2
    have hxi : getV S x i = x[i] := by simp [getV, h2]
    rw [← hxi, hsol i hi, hS.add_comm]
    simp [affine]

/-! ### Bekić's lemma: elimination preserves least solutions -/

open OrderHom

variable {α β : Type*} [CompleteLattice α] [CompleteLattice β]

/-- inner solution `ŷ(x) = lfp (g(x,·))` as a monotone map -/
def innerLfp (g : α × β →o β) : α →o β where
  toFun x := lfp ⟨fun y => g (x, y), fun _ _ h => g.mono ⟨le_rfl, h⟩⟩
  monotone' := by
    intro x x' hx
    apply lfp_le
    have := map_lfp (⟨fun y => g (x', y), fun _ _ h => g.mono ⟨le_rfl, h⟩⟩ : β →o β)
    calc g (x, _) ≤ g (x', _) := g.mono ⟨hx, le_rfl⟩
      _ = _ := this

def outer (f : α × β →o α) (g : α × β →o β) : α →o α where
  toFun x := f (x, innerLfp g x)
  monotone' := fun _ _ h => f.mono ⟨h, (innerLfp g).mono h⟩

/-- **Bekić**: the least solution of the pair `(x, y) = (f(x,y), g(x,y))` is obtained by solving the second
equation for `y` as a function of `x`, substituting, and solving the resulting equation for `x` -/
theorem bekic (f : α × β →o α) (g : α × β →o β) :
    lfp (f.prod g) = (lfp (outer f g), innerLfp g (lfp (outer f g))) := by
  set xh := lfp (outer f g)
  apply le_antisymm
  · apply lfp_le
    refine ⟨?_, ?_⟩
    · exact (map_lfp (outer f g)).le
    · exact (map_lfp (⟨fun y => g (xh, y), fun _ _ h => g.mono ⟨le_rfl, h⟩⟩ : β →o β)).le
  · set p := lfp (f.prod g) with hp
    have hfix : (f.prod g) p = p := map_lfp _
    have hf : f p = p.1 := congrArg Prod.fst hfix
    have hg : g p = p.2 := congrArg Prod.snd hfix
    have h1 : innerLfp g p.1 ≤ p.2 := by
      apply lfp_le; show g (p.1, p.2) ≤ p.2; exact hg.le
    have h2 : xh ≤ p.1 := by
      apply lfp_le
      show f (p.1, innerLfp g p.1) ≤ p.1
      calc f (p.1, innerLfp g p.1) ≤ f (p.1, p.2) := f.mono ⟨le_rfl, h1⟩
        _ = p.1 := hf
    exact ⟨h2, ((innerLfp g).mono h2).trans h1⟩

end C09
