/-
C10 — Tree decompositions are valid; exact methods are optimal.
Theorems about `Fggs.TD` (FggsModel/TreeDec.lean).
-/
import FggsModel.TreeDec
import Mathlib.Tactic.Linarith
import Mathlib.Data.List.Basic
import Mathlib.Data.List.Nodup
import Mathlib.Data.List.Perm.Basic
import Mathlib.Data.List.Perm.Subperm

set_option linter.unusedSimpArgs false
set_option linter.unusedVariables false

namespace C10
open Fggs Fggs.TD

private theorem foldl_inv {α β : Type} (I : β → Prop) (f : β → α → β) (l : List α) (b : β)
    (hb : I b) (hf : ∀ b, I b → ∀ a ∈ l, I (f b a)) : I (l.foldl f b) := by
  induction l generalizing b with
  | nil => exact hb
  | cons x xs ih =>
    simp only [List.foldl_cons]
    exact ih _ (hf b hb x (by simp)) (fun b' hb' a ha => hf b' hb' a (by simp [ha]))

private theorem verts_addEdge (g : UG) (u v : Nat) : verts (addEdge g u v) = verts g := by
  unfold verts addEdge
  rw [List.map_map]
  apply List.map_congr_left
  intro p _
  simp only [Function.comp]
  split_ifs <;> rfl

private theorem verts_makeClique (g : UG) (ns : List Nat) : verts (makeClique g ns) = verts g := by
  unfold makeClique
  refine foldl_inv (fun g' => verts g' = verts g) _ _ _ rfl ?_
  intro g1 h1 a _
  refine foldl_inv (fun g' => verts g' = verts g) _ _ _ h1 ?_
  intro g2 h2 b _
  split_ifs
  · rw [verts_addEdge]; exact h2
  · exact h2

private theorem verts_removeNode (g : UG) (v : Nat) : verts (removeNode g v) = (verts g).filter (· != v) := by
  unfold verts removeNode
  rw [List.map_map, List.filter_map]
  rfl

/-- eliminating a vertex removes exactly that key -/
theorem verts_eliminate (g : UG) (v : Nat) : verts (eliminate g v) = (verts g).filter (· != v) := by
  unfold eliminate
  rw [verts_removeNode, verts_makeClique]
/-- adjacency in a tree of bags -/
def TAdj (t : Tree) (a b : List Nat) : Prop := b ∈ (t.lookup a).getD []

/-- connected by a path all of whose bags satisfy `P` -/
inductive PathIn (t : Tree) (P : List Nat → Prop) : List Nat → List Nat → Prop
  | refl (a : List Nat) : P a → PathIn t P a a
  | step {a b c : List Nat} : PathIn t P a b → TAdj t b c → P c → PathIn t P a c

private theorem PathIn.right {t : Tree} {P : List Nat → Prop} {a b : List Nat}
    (h : PathIn t P a b) : P b := by
  cases h <;> assumption

private theorem PathIn.trans {t : Tree} {P : List Nat → Prop} {a b c : List Nat}
    (h1 : PathIn t P a b) (h2 : PathIn t P b c) : PathIn t P a c := by
  induction h2 with
  | refl _ => exact h1
  | step _ hadj hp ih => exact PathIn.step ih hadj hp

private theorem PathIn.symm {t : Tree} {P : List Nat → Prop} {a b : List Nat}
    (hs : ∀ a b, P a → TAdj t a b → TAdj t b a) (h : PathIn t P a b) : PathIn t P b a := by
  induction h with
  | refl hp => exact .refl _ hp
  | step hab hadj hp ih =>
    exact PathIn.trans (PathIn.step (.refl _ hp) (hs _ _ hab.right hadj) hab.right) ih

private theorem PathIn.mono {t : Tree} {P Q : List Nat → Prop} {a b : List Nat}
    (hpq : ∀ c, P c → Q c) (h : PathIn t P a b) : PathIn t Q a b := by
  induction h with
  | refl hp => exact .refl _ (hpq _ hp)
  | step hab hadj hp ih => exact .step ih hadj (hpq _ hp)

private theorem reach_inv (t : Tree) (allowed : List (List Nat)) (start : List Nat)
    (hs : start ∈ allowed) :
    (reachBags t allowed start).Nodup ∧
      ∀ c ∈ reachBags t allowed start, PathIn t (fun c => c ∈ allowed) start c := by
  unfold reachBags
  refine foldl_inv (fun (seen : List (List Nat)) => seen.Nodup ∧ ∀ c ∈ seen, PathIn t (fun c => c ∈ allowed) start c)
    _ _ _ ⟨by simp, by intro c hc; simp only [List.mem_singleton] at hc; subst hc; exact PathIn.refl _ hs⟩ ?_
  intro seen hseen _ _
  refine foldl_inv (fun (seen : List (List Nat)) => seen.Nodup ∧ ∀ c ∈ seen, PathIn t (fun c => c ∈ allowed) start c)
    _ _ _ hseen ?_
  intro acc hacc b hb
  refine foldl_inv (fun (seen : List (List Nat)) => seen.Nodup ∧ ∀ c ∈ seen, PathIn t (fun c => c ∈ allowed) start c)
    _ _ _ hacc ?_
  intro acc2 hacc2 c hc
  split_ifs with hcond
  · simp only [Bool.and_eq_true, List.contains_iff_mem, Bool.not_eq_true', ← Bool.not_eq_true] at hcond
    refine ⟨?_, ?_⟩
    · exact List.Nodup.append hacc2.1 (by simp) (by simpa using hcond.2)
    · intro x hx
      rcases List.mem_append.1 hx with hx | hx
      · exact hacc2.2 x hx
      · simp only [List.mem_singleton] at hx
        subst hx
        exact PathIn.step (hseen.2 b hb) hc hcond.1
  · exact hacc2

private theorem reach_all (t : Tree) (allowed : List (List Nat)) (start : List Nat)
    (hs : start ∈ allowed) (hn : allowed.Nodup)
    (hl : (reachBags t allowed start).length = allowed.length) :
    ∀ c ∈ allowed, PathIn t (fun c => c ∈ allowed) start c := by
  obtain ⟨hnd, hp⟩ := reach_inv t allowed start hs
  have hsub : reachBags t allowed start ⊆ allowed := fun c hc => (hp c hc).right
  have hperm := (List.subperm_of_subset hnd hsub).perm_of_length_le (le_of_eq hl.symm)
  intro c hc
  exact hp c (hperm.mem_iff.2 hc)
/-- the contract of a tree decomposition -/
structure ValidTD (g : UG) (t : Tree) : Prop where
  nonempty : t ≠ []
  /-- adjacency is symmetric, irreflexive and stays inside the tree -/
  symm : ∀ a b, TAdj t a b → a ∈ t.map (·.1) → (b ∈ t.map (·.1) ∧ TAdj t b a ∧ a ≠ b)
  /-- connected -/
  connected : ∀ a ∈ t.map (·.1), ∀ b ∈ t.map (·.1), PathIn t (fun c => c ∈ t.map (·.1)) a b
  /-- |E| = |V| - 1 (with connectedness: acyclic) -/
  edgeCount : (t.map (fun p => p.2.length)).foldl (· + ·) 0 = 2 * (t.length - 1)
  /-- every vertex is covered by some bag, and bags hold vertices only -/
  coverV : ∀ v ∈ verts g, ∃ b ∈ t.map (·.1), v ∈ b
  onlyV : ∀ b ∈ t.map (·.1), ∀ v ∈ b, v ∈ verts g
  /-- every edge is covered by some bag -/
  coverE : ∀ p ∈ g, ∀ w ∈ p.2, ∃ b ∈ t.map (·.1), p.1 ∈ b ∧ w ∈ b
  /-- running intersection: the bags containing a vertex form a connected subtree -/
  running : ∀ v ∈ verts g, ∀ a ∈ t.map (·.1), ∀ b ∈ t.map (·.1), v ∈ a → v ∈ b →
      PathIn t (fun c => c ∈ t.map (·.1) ∧ v ∈ c) a b

private theorem lookup_of_mem_keys (t : Tree) (a : List Nat) (ha : a ∈ t.map (·.1)) :
    ∃ p ∈ t, p.1 = a ∧ t.lookup a = some p.2 := by
  induction t with
  | nil => simp at ha
  | cons q t ih =>
    obtain ⟨k, v⟩ := q
    by_cases hk : a = k
    · subst hk; exact ⟨(a, v), by simp, rfl, by simp [List.lookup]⟩
    · have : a ∈ t.map (·.1) := by simpa [hk] using ha
      obtain ⟨p, hp, h1, h2⟩ := ih this
      refine ⟨p, by simp [hp], h1, ?_⟩
      have hb : (a == k) = false := by simp [hk]
      simp [List.lookup, hb, h2]

/-- **the executable decider that the harness runs on every decomposition the library returns is sound** -/
theorem validTD_sound (g : UG) (t : Tree) (h : validTD g t = true) : ValidTD g t := by
  simp only [validTD, Bool.and_eq_true, List.all_eq_true, List.contains_iff_mem, beq_iff_eq,
    List.mem_range, Bool.or_eq_true, bne_iff_ne, ne_eq, List.any_eq_true, Bool.not_eq_true',
    List.isEmpty_eq_false_iff] at h
  obtain ⟨⟨⟨⟨⟨⟨⟨⟨h1, h2⟩, h3⟩, h4⟩, h5⟩, h6⟩, h7⟩, h8⟩, h9⟩ := h
  set bags := t.map (·.1) with hbags
  have hnd : bags.Nodup := by
    rw [List.nodup_iff_getElem?_ne_getElem?]
    intro i j hij hj
    have hi : i < bags.length := lt_trans hij hj
    rcases h3 i hi j hj with h | h
    · omega
    · rw [getElem!_pos bags i hi, getElem!_pos bags j hj] at h
      rw [List.getElem?_eq_getElem hi, List.getElem?_eq_getElem hj]
      intro heq
      exact h (Option.some.inj heq)
  have hsymm : ∀ a b, TAdj t a b → a ∈ bags → (b ∈ bags ∧ TAdj t b a ∧ a ≠ b) := by
    intro a b hab ha
    obtain ⟨p, hp, hpa, hl⟩ := lookup_of_mem_keys t a ha
    unfold TAdj at hab
    rw [hl] at hab
    simp only [Option.getD_some] at hab
    obtain ⟨⟨hb1, hb2⟩, hb3⟩ := h2 p hp b hab
    rw [hpa] at hb2 hb3
    exact ⟨hb1, hb2, fun h => hb3 h.symm⟩
  refine ⟨?_, hsymm, ?_, ?_, h7, h6, h8, ?_⟩
  · intro ht; apply h1; rw [hbags, ht]; rfl
  · -- connected
    obtain ⟨b0, rest, hb0⟩ := List.exists_cons_of_ne_nil h1
    have hhead : bags.headD [] = b0 := by rw [hb0]; rfl
    rw [hhead] at h4
    have hb0m : b0 ∈ bags := by rw [hb0]; simp
    have hall := reach_all t bags b0 hb0m hnd h4
    intro a ha b hb
    have hs : ∀ a b, a ∈ bags → TAdj t a b → TAdj t b a := fun a b ha hab => (hsymm a b hab ha).2.1
    exact PathIn.trans (PathIn.symm hs (hall a ha)) (hall b hb)
  · rw [h5, hbags, List.length_map]
  · -- running
    intro v hv a ha b hb hva hvb
    have h := h9 v hv
    have hmem : ∀ c, c ∈ bags.filter (fun x => x.contains v) ↔ (c ∈ bags ∧ v ∈ c) := by
      intro c; rw [List.mem_filter, List.contains_iff_mem]
    have hbsnd : (bags.filter (fun x => x.contains v)).Nodup := hnd.filter _
    rcases hbs' : bags.filter (fun x => x.contains v) with _ | ⟨b0, rest⟩
    · rw [hbs'] at h; simp at h
    · rw [hbs'] at h hmem hbsnd
      simp only [beq_iff_eq] at h
      have hb0m : b0 ∈ b0 :: rest := by simp
      have hall := reach_all t (b0 :: rest) b0 hb0m hbsnd h
      have hs : ∀ a b, a ∈ b0 :: rest → TAdj t a b → TAdj t b a :=
        fun a b ha hab => (hsymm a b hab ((hmem a).1 ha).1).2.1
      have hpath := PathIn.trans (PathIn.symm hs (hall a ((hmem a).2 ⟨ha, hva⟩)))
        (hall b ((hmem b).2 ⟨hb, hvb⟩))
      exact PathIn.mono (fun c hc => (hmem c).1 hc) hpath
/-- a graph as the library holds it: keys are distinct -/
def KeysNodup (g : UG) : Prop := (verts g).Nodup

private theorem foldl_opt_some (F : Option Nat → Nat → Option Nat)
    (hF : ∀ best k, ∃ u, F best k = some u ∧ (u = k ∨ best = some u)) (l : List Nat) (b : Nat) :
    ∃ u, l.foldl F (some b) = some u := by
  induction l generalizing b with
  | nil => exact ⟨b, rfl⟩
  | cons k l ih =>
    simp only [List.foldl_cons]
    obtain ⟨u, hu, _⟩ := hF (some b) k
    rw [hu]; exact ih u

private theorem foldl_opt_none (F : Option Nat → Nat → Option Nat)
    (hF : ∀ best k, ∃ u, F best k = some u ∧ (u = k ∨ best = some u)) (ks : List Nat)
    (h : ks.foldl F none = none) : ks = [] := by
  cases ks with
  | nil => rfl
  | cons k l =>
    simp only [List.foldl_cons] at h
    obtain ⟨u0, hu0, _⟩ := hF none k
    rw [hu0] at h
    obtain ⟨u, hu⟩ := foldl_opt_some F hF l u0
    rw [hu] at h
    cases h

private theorem foldl_opt_mem (F : Option Nat → Nat → Option Nat)
    (hF : ∀ best k, ∃ u, F best k = some u ∧ (u = k ∨ best = some u)) (ks : List Nat) (u : Nat)
    (h : ks.foldl F none = some u) : u ∈ ks := by
  have := foldl_inv (fun (best : Option Nat) => ∀ u, best = some u → u ∈ ks) F ks none
    (by intro u hu; cases hu) (by
      intro best hbest k hk u hu
      obtain ⟨u', hu', hor⟩ := hF best k
      rw [hu'] at hu
      simp only [Option.some.injEq] at hu
      subst hu
      rcases hor with h | h
      · subst h; exact hk
      · exact hbest _ h)
  exact this u h

private theorem argminFirst_none (ks : List Nat) (f : Nat → Nat) (h : argminFirst ks f = none) :
    ks = [] := by
  unfold argminFirst at h
  exact foldl_opt_none _ (fun best k => by
    cases best with
    | none => exact ⟨k, rfl, Or.inl rfl⟩
    | some b =>
      by_cases hlt : f k < f b
      · exact ⟨k, by simp [hlt], Or.inl rfl⟩
      · exact ⟨b, by simp [hlt], Or.inr rfl⟩) ks h

private theorem argminFirst_mem (ks : List Nat) (f : Nat → Nat) (u : Nat)
    (h : argminFirst ks f = some u) : u ∈ ks := by
  unfold argminFirst at h
  exact foldl_opt_mem _ (fun best k => by
    cases best with
    | none => exact ⟨k, rfl, Or.inl rfl⟩
    | some b =>
      by_cases hlt : f k < f b
      · exact ⟨k, by simp [hlt], Or.inl rfl⟩
      · exact ⟨b, by simp [hlt], Or.inr rfl⟩) ks u h

private theorem length_eq_verts (g : UG) : g.length = (verts g).length := by
  simp [verts]

private theorem keysNodup_eliminate (g : UG) (u : Nat) (hk : KeysNodup g) :
    KeysNodup (eliminate g u) := by
  unfold KeysNodup
  rw [verts_eliminate]
  exact hk.filter _

private theorem verts_eliminate_erase (g : UG) (u : Nat) (hk : KeysNodup g) :
    verts (eliminate g u) = (verts g).erase u := by
  rw [verts_eliminate, hk.erase_eq_filter]

private theorem length_eliminate (g : UG) (u : Nat) (hk : KeysNodup g) (hu : u ∈ verts g) :
    (eliminate g u).length + 1 = g.length := by
  rw [length_eq_verts, verts_eliminate_erase g u hk, List.length_erase_of_mem hu, length_eq_verts]
  have : 0 < (verts g).length := List.length_pos_of_mem hu
  omega

private theorem perm_cons_eliminate (g : UG) (u : Nat) (hk : KeysNodup g) (hu : u ∈ verts g) :
    (u :: verts (eliminate g u)).Perm (verts g) := by
  rw [verts_eliminate_erase g u hk]
  exact (List.perm_cons_erase hu).symm

private theorem go_perm (fuel : Nat) : ∀ (g : UG) (d : Nat) (ord : List Nat), KeysNodup g →
    g.length = fuel → (minFill.go fuel g d ord).2.Perm (ord ++ verts g) := by
  induction fuel with
  | zero =>
    intro g d ord hk hl
    have : g = [] := List.length_eq_zero_iff.1 hl
    subst this
    simp [minFill.go, verts]
  | succ fuel ih =>
    intro g d ord hk hl
    unfold minFill.go
    split
    · rename_i hnone
      have := argminFirst_none _ _ hnone
      rw [this]; simp
    · rename_i u hsome
      have hu := argminFirst_mem _ _ _ hsome
      have hlen := length_eliminate g u hk hu
      refine (ih (eliminate g u) _ (ord ++ [u]) (keysNodup_eliminate g u hk) (by omega)).trans ?_
      rw [List.append_assoc]
      exact List.Perm.append_left _ (perm_cons_eliminate g u hk hu)

/-- **min_fill returns an elimination order: a permutation of the vertices** -/
theorem minFill_perm (g : UG) (hk : KeysNodup g) : (minFill g).2.Perm (verts g) := by
  have := go_perm g.length g 0 [] hk rfl
  simpa [minFill] using this

private theorem go_width (fuel : Nat) : ∀ (g : UG) (d : Nat) (ord : List Nat),
    ∃ suf, (minFill.go fuel g d ord).2 = ord ++ suf ∧
      (minFill.go fuel g d ord).1 = max d (elimWidth g suf) := by
  induction fuel with
  | zero =>
    intro g d ord
    exact ⟨[], by simp [minFill.go], by simp [minFill.go, elimWidth]⟩
  | succ fuel ih =>
    intro g d ord
    unfold minFill.go
    split
    · exact ⟨[], by simp, by simp [elimWidth]⟩
    · rename_i u hsome
      obtain ⟨suf, h1, h2⟩ := ih (eliminate g u) (max d (nbrs g u).length) (ord ++ [u])
      refine ⟨u :: suf, ?_, ?_⟩
      · rw [h1]; simp
      · rw [h2]; simp only [elimWidth]; rw [max_assoc]

/-- the width min_fill reports is the width of the elimination game along the order it returns -/
theorem minFill_reports_width (g : UG) (hk : KeysNodup g) : (minFill g).1 = elimWidth g (minFill g).2 := by
  obtain ⟨suf, h1, h2⟩ := go_width g.length g 0 []
  unfold minFill
  simp only [List.nil_append] at h1
  rw [h2, h1]; simp
private theorem foldl_min_le (F : Nat → Nat → Nat) (hF : ∀ acc v, F acc v ≤ acc) (l : List Nat)
    (acc : Nat) : l.foldl F acc ≤ acc := by
  induction l generalizing acc with
  | nil => exact le_refl _
  | cons w l ih => exact le_trans (ih _) (hF _ _)

private theorem foldl_min_le_mem (F : Nat → Nat → Nat) (hF : ∀ acc v, F acc v ≤ acc) (l : List Nat)
    (acc : Nat) (v : Nat) (hv : v ∈ l) (x : Nat) (hx : ∀ acc, F acc v ≤ x) : l.foldl F acc ≤ x := by
  induction l generalizing acc with
  | nil => cases hv
  | cons w l ih =>
    simp only [List.foldl_cons]
    rcases List.mem_cons.1 hv with h | h
    · subst h
      exact le_trans (foldl_min_le F hF l _) (hx _)
    · exact ih _ h

private theorem twAux_le (fuel : Nat) : ∀ (g : UG) (cur best : Nat), KeysNodup g →
    ∀ order : List Nat, order.Perm (verts g) →
      twAux fuel g cur best ≤ max cur (elimWidth g order) := by
  induction fuel with
  | zero => intro g cur best hk order hp; simp [twAux]
  | succ fuel ih =>
    intro g cur best hk order hp
    unfold twAux
    split_ifs with he hcb
    · exact le_max_left _ _
    · exact le_trans hcb (le_max_left _ _)
    · cases order with
      | nil =>
        have : verts g = [] := hp.symm.eq_nil
        have : g = [] := by simpa [verts] using this
        simp [this] at he
      | cons v order' =>
        have hv : v ∈ verts g := hp.subset (by simp)
        have hp' : order'.Perm (verts (eliminate g v)) := by
          rw [verts_eliminate_erase g v hk]
          exact (hp.trans (List.perm_cons_erase hv)).cons_inv
        apply foldl_min_le_mem _ _ _ _ v hv
        · intro acc
          simp only [elimWidth]
          split_ifs with hc
          · refine le_trans hc ?_
            exact max_le (le_max_left _ _) (le_trans (le_max_left _ _) (le_max_right _ _))
          · refine le_trans (min_le_right _ _) ?_
            refine le_trans (ih (eliminate g v) _ acc (keysNodup_eliminate g v hk) order' hp') ?_
            rw [max_assoc]
        · intro acc w
          simp only
          split_ifs
          · exact le_refl _
          · exact min_le_left _ _

private theorem twAux_attained (fuel : Nat) : ∀ (g : UG) (cur best : Nat), KeysNodup g →
    g.length ≤ fuel →
      twAux fuel g cur best = best ∨
        ∃ order : List Nat, order.Perm (verts g) ∧ max cur (elimWidth g order) = twAux fuel g cur best := by
  induction fuel with
  | zero =>
    intro g cur best hk hl
    have : g = [] := List.length_eq_zero_iff.1 (by omega)
    subst this
    exact Or.inr ⟨[], by simp [verts], by simp [twAux, elimWidth]⟩
  | succ fuel ih =>
    intro g cur best hk hl
    unfold twAux
    split_ifs with he hcb
    · have : g = [] := by simpa using he
      subst this
      exact Or.inr ⟨[], by simp [verts], by simp [elimWidth]⟩
    · exact Or.inl rfl
    · refine foldl_inv (fun acc => acc = best ∨
        ∃ order : List Nat, order.Perm (verts g) ∧ max cur (elimWidth g order) = acc) _ _ _
        (Or.inl rfl) ?_
      intro acc hacc v hv
      simp only
      split_ifs with hc
      · exact hacc
      · have hlen := length_eliminate g v hk hv
        rcases ih (eliminate g v) (max cur (nbrs g v).length) acc (keysNodup_eliminate g v hk)
          (by omega) with h | ⟨order', hp', hw⟩
        · rw [h, min_self]; exact hacc
        · rcases min_choice acc (twAux fuel (eliminate g v) (max cur (nbrs g v).length) acc) with h | h
          · rw [h]; exact hacc
          · rw [h]
            refine Or.inr ⟨v :: order', ?_, ?_⟩
            · exact (List.Perm.cons v hp').trans (perm_cons_eliminate g v hk hv)
            · rw [← hw]; simp only [elimWidth]; rw [max_assoc]

/-- **the treewidth computed by `tw` is a lower bound for the width of every elimination order** … -/
theorem tw_le_elimWidth (g : UG) (hk : KeysNodup g) (order : List Nat) (hp : order.Perm (verts g)) :
    tw g ≤ elimWidth g order := by
  unfold tw
  split_ifs with he
  · exact Nat.zero_le _
  · simpa using twAux_le g.length g 0 g.length hk order hp

/- … **and is attained by some elimination order** — ORIGINAL STATEMENT, FALSE of the model:

  theorem tw_attained (g : UG) (hk : KeysNodup g) :
      ∃ order : List Nat, order.Perm (verts g) ∧ elimWidth g order = tw g

Counterexample: `g = [(0,[1,2])]` (a neighbour list that mentions non-keys): `tw g = 1` (the initial
bound `g.length` is returned because the only branch is pruned), but the only order `[0]` has
`elimWidth g [0] = 2`.  `tw g ≤ g.length` always, so the statement holds exactly when some order has
width `≤ g.length`; that is the extra hypothesis `hbound` below (necessary and sufficient). It is
discharged for every graph with duplicate-free neighbour lists over the keys in `tw_attained_wf`. -/

/-- … **and is attained by some elimination order**, provided some order stays within the initial
bound `g.length` of the branch-and-bound search -/
theorem tw_attained_partial (g : UG) (hk : KeysNodup g)
    (hbound : ∃ order : List Nat, order.Perm (verts g) ∧ elimWidth g order ≤ g.length) :
    ∃ order : List Nat, order.Perm (verts g) ∧ elimWidth g order = tw g := by
  by_cases he : g.isEmpty = true
  · have : g = [] := by simpa using he
    subst this
    exact ⟨[], by simp [verts], by simp [tw, elimWidth]⟩
  · have htw : tw g = twAux g.length g 0 g.length := by simp [tw, he]
    rcases twAux_attained g.length g 0 g.length hk (le_refl _) with h | ⟨order, hp, hw⟩
    · obtain ⟨order, hp, hw⟩ := hbound
      refine ⟨order, hp, le_antisymm ?_ (tw_le_elimWidth g hk order hp)⟩
      rw [htw, h]; exact hw
    · exact ⟨order, hp, by rw [htw, ← hw]; simp⟩
/-- neighbour lists are duplicate-free and mention keys only -/
def NbrsWF (g : UG) : Prop := ∀ p ∈ g, p.2.Nodup ∧ ∀ w ∈ p.2, w ∈ verts g

private theorem mem_insertU (l : List Nat) (x w : Nat) (h : w ∈ insertU l x) : w ∈ l ∨ w = x := by
  unfold insertU at h
  split_ifs at h
  · exact Or.inl h
  · simpa using h

private theorem nodup_insertU (l : List Nat) (x : Nat) (h : l.Nodup) : (insertU l x).Nodup := by
  unfold insertU
  split_ifs with hc
  · exact h
  · exact List.Nodup.append h (by simp) (by simpa using hc)

private theorem nbrsWF_addEdge (g : UG) (u v : Nat) (hg : NbrsWF g) (hu : u ∈ verts g)
    (hv : v ∈ verts g) : NbrsWF (addEdge g u v) := by
  intro p' hp'
  rw [verts_addEdge]
  unfold addEdge at hp'
  obtain ⟨p, hp, rfl⟩ := List.mem_map.1 hp'
  obtain ⟨hn, hm⟩ := hg p hp
  split_ifs
  · exact ⟨nodup_insertU _ _ hn, fun w hw => by
      rcases mem_insertU _ _ _ hw with h | h
      · exact hm w h
      · rw [h]; exact hv⟩
  · exact ⟨nodup_insertU _ _ hn, fun w hw => by
      rcases mem_insertU _ _ _ hw with h | h
      · exact hm w h
      · rw [h]; exact hu⟩
  · exact ⟨hn, hm⟩

private theorem nbrsWF_makeClique (g : UG) (ns : List Nat) (hg : NbrsWF g)
    (hns : ∀ a ∈ ns, a ∈ verts g) : NbrsWF (makeClique g ns) := by
  unfold makeClique
  refine (foldl_inv (fun g' => NbrsWF g' ∧ verts g' = verts g) _ _ _ ⟨hg, rfl⟩ ?_).1
  intro g1 h1 a ha
  refine foldl_inv (fun g' => NbrsWF g' ∧ verts g' = verts g) _ _ _ h1 ?_
  intro g2 h2 b hb
  split_ifs
  · exact ⟨nbrsWF_addEdge g2 a b h2.1 (by rw [h2.2]; exact hns a ha) (by rw [h2.2]; exact hns b hb),
      by rw [verts_addEdge]; exact h2.2⟩
  · exact h2

private theorem nbrsWF_removeNode (g : UG) (v : Nat) (hg : NbrsWF g) : NbrsWF (removeNode g v) := by
  intro p' hp'
  rw [verts_removeNode]
  unfold removeNode at hp'
  obtain ⟨p, hp, rfl⟩ := List.mem_map.1 hp'
  obtain ⟨hn, hm⟩ := hg p (List.mem_filter.1 hp).1
  refine ⟨hn.filter _, fun w hw => ?_⟩
  obtain ⟨hw1, hw2⟩ := List.mem_filter.1 hw
  exact List.mem_filter.2 ⟨hm w hw1, hw2⟩

private theorem nbrs_wf (g : UG) (v : Nat) (hg : NbrsWF g) :
    (nbrs g v).Nodup ∧ ∀ w ∈ nbrs g v, w ∈ verts g := by
  unfold nbrs
  cases hl : g.lookup v with
  | none => simp
  | some ns =>
    obtain ⟨l1, l2, heq, _⟩ := List.lookup_eq_some_iff.1 hl
    exact hg (v, ns) (by rw [heq]; simp)

private theorem nbrsWF_eliminate (g : UG) (v : Nat) (hg : NbrsWF g) : NbrsWF (eliminate g v) := by
  unfold eliminate
  exact nbrsWF_removeNode _ _ (nbrsWF_makeClique g _ hg (nbrs_wf g v hg).2)

private theorem elimWidth_le_length (order : List Nat) : ∀ (g : UG), NbrsWF g →
    elimWidth g order ≤ g.length := by
  induction order with
  | nil => intro g _; simp [elimWidth]
  | cons v rest ih =>
    intro g hg
    simp only [elimWidth]
    refine max_le ?_ ?_
    · obtain ⟨hn, hm⟩ := nbrs_wf g v hg
      rw [length_eq_verts]
      exact (List.subperm_of_subset hn hm).length_le
    · refine le_trans (ih _ (nbrsWF_eliminate g v hg)) ?_
      rw [length_eq_verts, length_eq_verts, verts_eliminate]
      exact List.length_filter_le _ _

/-- for graphs as the library builds them, the treewidth is attained -/
theorem tw_attained_wf (g : UG) (hk : KeysNodup g) (hw : NbrsWF g) :
    ∃ order : List Nat, order.Perm (verts g) ∧ elimWidth g order = tw g :=
  tw_attained_partial g hk ⟨verts g, List.Perm.refl _, elimWidth_le_length _ g hw⟩

/-! ### non-vacuity -/

private theorem sortBag_eq (l s : List Nat) (hp : s.Perm l) (hs : s.Pairwise (fun a b => decide (a ≤ b) = true)) :
    sortBag l = s := by
  unfold sortBag
  refine List.Perm.eq_of_pairwise (le := fun a b => decide (a ≤ b) = true) ?_ ?_ hs
    ((List.mergeSort_perm l _).trans hp.symm)
  · intro a b _ _ h1 h2
    simp only [decide_eq_true_eq] at h1 h2
    omega
  · exact List.pairwise_mergeSort (le := fun a b => decide (a ≤ b))
      (by intro a b c h1 h2; simp only [decide_eq_true_eq] at *; omega)
      (by intro a b; simp only [Bool.or_eq_true, decide_eq_true_eq]; omega) l

example : validTD [(0,[1]),(1,[0,2]),(2,[1]),(3,[])] (fromOrder [(0,[1]),(1,[0,2]),(2,[1]),(3,[])] [0,3,1,2]) = true := by
  have s1 : sortBag [1, 0] = [0, 1] := sortBag_eq _ _ (by decide) (by decide)
  have s2 : sortBag [3] = [3] := sortBag_eq _ _ (by decide) (by decide)
  have s3 : sortBag [2, 1] = [1, 2] := sortBag_eq _ _ (by decide) (by decide)
  have h : fromOrder [(0,[1]),(1,[0,2]),(2,[1]),(3,[])] [0,3,1,2]
      = [([1, 2], [[3], [0, 1]]), ([3], [[1, 2]]), ([0, 1], [[1, 2]])] := by
    simp [fromOrder, fromOrderAux, nbrs, eliminate, makeClique, addEdge, removeNode, insertU,
      List.lookup, s1, s2, s3, treeAddNode, treeAddEdge, TD.subset]
  rw [h]
  decide
example : tw [(0,[1,3]),(1,[0,2]),(2,[1,3]),(3,[2,0])] = 2 := by decide

end C10
