/-
C10 — placeholder (theorems follow)
-/
import FggsModel.TreeDec
