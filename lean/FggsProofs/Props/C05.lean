/-
C05 — Factorization preserves meaning and never widens a rule.
Theorems about the relational model `Fggs.Fz.factorizationOf` (FggsModel/Factorize.lean): consequences that
hold for EVERY output the relation admits (any tree decomposition, any set iteration order).
-/
import FggsModel.Factorize
import Mathlib.Tactic.Linarith
import Mathlib.Data.List.Basic
import Mathlib.Data.List.Nodup

set_option linter.unusedSimpArgs false
set_option linter.unusedVariables false

namespace C05
open Fggs Fggs.Cj Fggs.Fz

/-! ### helpers -/

private theorem nodupB_iff {α} [DecidableEq α] (l : List α) : nodupB l = true ↔ l.Nodup := by
  induction l with
  | nil => simp [nodupB]
  | cons x xs ih =>
    simp only [nodupB, Bool.and_eq_true, Bool.not_eq_true', List.nodup_cons, ih]
    constructor
    · rintro ⟨h1, h2⟩
      refine ⟨?_, h2⟩
      intro hx
      have : xs.contains x = true := by simpa using hx
      rw [this] at h1; cases h1
    · rintro ⟨h1, h2⟩
      refine ⟨?_, h2⟩
      cases hc : xs.contains x with
      | false => rfl
      | true => exact absurd (by simpa using hc) h1

private theorem subsetN_iff (a b : List Node) : subsetN a b = true ↔ ∀ v ∈ a, v ∈ b := by
  simp [subsetN, List.all_eq_true]

/-- the "tree shape" check for one non-root rule -/
private def treeShape (avoid : List String) (out : List Rule) (r : Rule) : Bool :=
  match parentsOf avoid out r.lhs with
  | [p] => (match (newEdges avoid p).filter (·.label = r.lhs) with
            | [e] => decide (e.nodes = r.ext) &&
                     nodupB r.ext && r.ext.all (fun v => p.nodes.contains v) &&
                     r.nodes.all (fun v => !p.nodes.contains v || r.ext.contains v)
            | _ => false)
  | _ => false

/-- one-time unpacking of the definition (the conjuncts used by the property theorems) -/
private theorem unpack (orig : Rule) (avoid : List String) (out : List Rule)
    (h : factorizationOf orig avoid out = true) :
    ∃ root, out.filter (·.lhs = orig.lhs) = [root] ∧
      root.ext = orig.ext ∧
      nodupB (out.map (·.lhs.name)) = true ∧
      (∀ r ∈ out, r.lhs = orig.lhs ∨
        (isNew avoid r.lhs = true ∧ r.lhs.terminal = false ∧ r.lhs.type = r.ext.map (·.label))) ∧
      (∀ r ∈ out, nodupB r.nodes = true ∧ subsetN r.nodes orig.nodes = true ∧ subsetN r.ext r.nodes = true) ∧
      (∀ r ∈ out, r.lhs = orig.lhs ∨ treeShape avoid out r = true) ∧
      (∀ r ∈ out, nodupB (oldEdges avoid r) = true ∧
        ∀ e ∈ oldEdges avoid r, e ∈ orig.edges ∧ subsetN e.nodes r.nodes = true) := by
  unfold factorizationOf at h
  split at h
  · rename_i root hroot
    refine ⟨root, hroot, ?_⟩
    simp only [Bool.and_eq_true, decide_eq_true_eq] at h
    obtain ⟨⟨⟨⟨⟨⟨⟨⟨h1, h2⟩, h3⟩, h4⟩, h5⟩, h6⟩, h7⟩, h8⟩, h9⟩ := h
    refine ⟨h1, h2, ?_, ?_, ?_, ?_⟩
    · intro r hr
      have := List.all_eq_true.mp h3 r hr
      simpa [Bool.or_eq_true, Bool.and_eq_true, and_assoc] using this
    · intro r hr
      have := List.all_eq_true.mp h4 r hr
      simpa [Bool.and_eq_true, and_assoc] using this
    · intro r hr
      have := List.all_eq_true.mp h5 r hr
      rw [Bool.or_eq_true, decide_eq_true_eq] at this
      exact this
    · intro r hr
      have := List.all_eq_true.mp h9 r hr
      simp only [Bool.and_eq_true] at this
      obtain ⟨⟨ha, hb⟩, _⟩ := this
      refine ⟨ha, ?_⟩
      intro e he
      have := List.all_eq_true.mp hb e he
      simp only [Bool.and_eq_true] at this
      obtain ⟨⟨hc, hd⟩, _⟩ := this
      exact ⟨by simpa using hc, hd⟩
  · cases h

/-! ### property theorems -/

/-- exactly one rule keeps the original left-hand side, and it keeps the external nodes in order -/
theorem root_unique (orig : Rule) (avoid : List String) (out : List Rule)
    (h : factorizationOf orig avoid out = true) :
    ∃ root, out.filter (·.lhs = orig.lhs) = [root] ∧ root.ext = orig.ext := by
  obtain ⟨root, hroot, hext, _⟩ := unpack orig avoid out h
  exact ⟨root, hroot, hext⟩

/-- **fresh nonterminal names collide with no name to avoid and are pairwise distinct**; each is a
nonterminal typed by its rule's externals -/
theorem fresh_names (orig : Rule) (avoid : List String) (out : List Rule)
    (h : factorizationOf orig avoid out = true) :
    (out.map (·.lhs.name)).Nodup ∧
    ∀ r ∈ out, r.lhs ≠ orig.lhs →
      r.lhs.name ∉ avoid ∧ r.lhs.terminal = false ∧ r.lhs.type = r.ext.map (·.label) := by
  obtain ⟨root, _, _, hnd, hfresh, _⟩ := unpack orig avoid out h
  refine ⟨(nodupB_iff _).mp hnd, ?_⟩
  intro r hr hne
  rcases hfresh r hr with heq | ⟨hnew, hterm, htype⟩
  · exact absurd heq hne
  · refine ⟨?_, hterm, htype⟩
    intro hmem
    have : avoid.contains r.lhs.name = true := by simpa using hmem
    simp [isNew] at hnew
    exact hnew hmem

/-- **no new rule has more nodes than the rule it came from** -/
theorem no_wider (orig : Rule) (avoid : List String) (out : List Rule) (hn : orig.nodes.Nodup)
    (h : factorizationOf orig avoid out = true) :
    ∀ r ∈ out, r.nodes.length ≤ orig.nodes.length := by
  obtain ⟨root, _, _, _, _, hnodes, _⟩ := unpack orig avoid out h
  intro r hr
  obtain ⟨hnd, hsub, _⟩ := hnodes r hr
  have hnd' : r.nodes.Nodup := (nodupB_iff _).mp hnd
  have hsub' : r.nodes ⊆ orig.nodes := fun v hv => (subsetN_iff _ _).mp hsub v hv
  exact List.Nodup.length_le_of_subset hnd' hsub'

/-- every edge of a new rule is either one of the new nonterminal edges or an original edge, unchanged
(same label, same attachment nodes in the same order, same id): nothing is re-attached or invented -/
theorem old_edges_original (orig : Rule) (avoid : List String) (out : List Rule)
    (h : factorizationOf orig avoid out = true) :
    ∀ r ∈ out, ∀ e ∈ r.edges, isNew avoid e.label = true ∨ (e ∈ orig.edges ∧ ∀ v ∈ e.nodes, v ∈ r.nodes) := by
  obtain ⟨root, _, _, _, _, _, _, hold⟩ := unpack orig avoid out h
  intro r hr e he
  cases hnew : isNew avoid e.label with
  | true => exact Or.inl rfl
  | false =>
    right
    have hmem : e ∈ oldEdges avoid r := by
      simp [oldEdges, List.mem_filter, he, hnew]
    obtain ⟨h1, h2⟩ := (hold r hr).2 e hmem
    exact ⟨h1, (subsetN_iff _ _).mp h2⟩

/-- no original edge is duplicated inside one rule -/
theorem old_edges_nodup (orig : Rule) (avoid : List String) (out : List Rule)
    (h : factorizationOf orig avoid out = true) :
    ∀ r ∈ out, (oldEdges avoid r).Nodup := by
  obtain ⟨root, _, _, _, _, _, _, hold⟩ := unpack orig avoid out h
  intro r hr
  exact (nodupB_iff _).mp (hold r hr).1

/-- every new nonterminal edge is attached to the external nodes of the (unique) rule it stands for, in
order — so inlining that rule identifies externals with attachment nodes by the identity on nodes -/
theorem new_edges_attach (orig : Rule) (avoid : List String) (out : List Rule)
    (h : factorizationOf orig avoid out = true) :
    ∀ r ∈ out, r.lhs ≠ orig.lhs →
      ∃ p ∈ out, ∃ e ∈ p.edges, e.label = r.lhs ∧ e.nodes = r.ext ∧ (∀ v ∈ r.ext, v ∈ p.nodes) := by
  obtain ⟨root, _, _, _, _, _, htree, _⟩ := unpack orig avoid out h
  intro r hr hne
  rcases htree r hr with heq | hts
  · exact absurd heq hne
  · unfold treeShape at hts
    split at hts
    · rename_i p hp
      split at hts
      · rename_i e he
        have hpmem : p ∈ parentsOf avoid out r.lhs := by rw [hp]; exact List.mem_singleton.mpr rfl
        have hpout : p ∈ out := (List.mem_filter.mp hpmem).1
        have hemem : e ∈ (newEdges avoid p).filter (·.label = r.lhs) := by
          rw [he]; exact List.mem_singleton.mpr rfl
        obtain ⟨he1, he2⟩ := List.mem_filter.mp hemem
        have hepe : e ∈ p.edges := (List.mem_filter.mp he1).1
        simp only [Bool.and_eq_true, decide_eq_true_eq] at hts
        obtain ⟨⟨⟨hn, _⟩, hall⟩, _⟩ := hts
        refine ⟨p, hpout, e, hepe, by simpa using he2, hn, ?_⟩
        intro v hv
        have := List.all_eq_true.mp hall v hv
        simpa using this
      · cases hts
    · cases hts

end C05
