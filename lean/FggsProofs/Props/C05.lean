/-
C05 — placeholder (theorems follow)
-/
import FggsModel.Factorize
