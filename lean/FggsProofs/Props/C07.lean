/-
C07 — placeholder (theorems follow)
-/
import FggsModel.Einsum
