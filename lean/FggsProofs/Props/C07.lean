/-
C07 — Patterned einsum equals the semiring einsum of the dense operands.
Theorems about the specification `Sem.einsumSpec` (sum over all values of the non-output indices of the
product of the operand entries) that the library's shortcuts rely on.
-/
import FggsModel.Einsum
import FggsProofs.Props.C01
import FggsProofs.Props.C12
import Mathlib.Tactic.Linarith
import Mathlib.Data.List.Basic
import Mathlib.Data.List.Forall2
import Mathlib.Data.List.Nodup
import Mathlib.Data.List.Perm.Basic

set_option linter.unusedSimpArgs false
set_option linter.unusedVariables false

namespace C07
open Fggs Fggs.Sem

variable {K : Type}

/-! ### algebra toolkit (the helpers of C01/C12 are private there) -/

private theorem foldl_add (S : SR K) (hS : C01.SRLaws S) (l : List K) (a : K) :
    l.foldl S.add a = S.add a (S.sum l) := by
  induction l generalizing a with
  | nil => simp [SR.sum]; rw [hS.add_comm, hS.zero_add]
  | cons b l ih =>
    simp only [SR.sum, List.foldl_cons]
    rw [ih, ih (S.add S.zero b), hS.zero_add, hS.add_assoc]

private theorem sum_cons (S : SR K) (hS : C01.SRLaws S) (a : K) (l : List K) :
    S.sum (a :: l) = S.add a (S.sum l) := by
  show (a :: l).foldl S.add S.zero = _
  rw [List.foldl_cons, foldl_add S hS, hS.zero_add]

private theorem sum_singleton (S : SR K) (hS : C01.SRLaws S) (a : K) : S.sum [a] = a := by
  show S.add S.zero a = a
  exact hS.zero_add a

private theorem foldl_mul (S : SR K) (hS : C01.SRLaws S) (l : List K) (c : K) :
    l.foldl S.mul c = S.mul c (S.prod l) := by
  induction l generalizing c with
  | nil => simp [SR.prod]; rw [hS.mul_comm, hS.one_mul]
  | cons b l ih =>
    simp only [SR.prod, List.foldl_cons]
    rw [ih, ih (S.mul S.one b), hS.one_mul, hS.mul_assoc]

private theorem prod_cons (S : SR K) (hS : C01.SRLaws S) (a : K) (l : List K) :
    S.prod (a :: l) = S.mul a (S.prod l) := by
  show (a :: l).foldl S.mul S.one = _
  rw [List.foldl_cons, foldl_mul S hS, hS.one_mul]

private theorem sum_all_zero (S : SR K) (hS : C01.SRLaws S) (l : List K) (h : ∀ x ∈ l, x = S.zero) :
    S.sum l = S.zero := by
  induction l with
  | nil => rfl
  | cons a l ih =>
    rw [sum_cons S hS, h a (List.mem_cons_self ..), hS.zero_add]
    exact ih (fun x hx => h x (List.mem_cons_of_mem _ hx))

private theorem prod_zero_of_mem (S : SR K) (hS : C01.SRLaws S) (l : List K) (h : S.zero ∈ l) :
    S.prod l = S.zero := by
  induction l with
  | nil => simp at h
  | cons a l ih =>
    rw [prod_cons S hS]
    rcases List.mem_cons.1 h with h | h
    · rw [← h, hS.zero_mul]
    · rw [ih h, hS.mul_comm, hS.zero_mul]

/-! ### index tuples -/

private theorem mem_assigns {shape a : List Nat} :
    a ∈ assigns shape ↔ List.Forall₂ (· < ·) a shape := by
  induction shape generalizing a with
  | nil => simp [assigns]
  | cons n rest ih =>
    simp only [assigns, List.mem_flatMap, List.mem_range, List.mem_map]
    constructor
    · rintro ⟨i, hi, is, his, rfl⟩
      exact List.Forall₂.cons hi (ih.1 his)
    · intro h
      cases h with
      | cons hi his => exact ⟨_, hi, _, ih.2 his, rfl⟩

private theorem nodup_assigns (shape : List Nat) : (assigns shape).Nodup := by
  induction shape with
  | nil => simp [assigns]
  | cons n rest ih =>
    rw [assigns, List.nodup_flatMap]
    refine ⟨fun i _ => ih.map (fun _ _ h => (List.cons.inj h).2), ?_⟩
    refine (List.nodup_range (n := n)).imp ?_
    intro i j hij
    show List.Disjoint _ _
    intro x hx hy
    simp only [List.mem_map] at hx hy
    obtain ⟨_, _, rfl⟩ := hx
    obtain ⟨_, _, h⟩ := hy
    exact hij (List.cons.inj h).1.symm

/-- index-wise reading of membership in `assigns` -/
private theorem mem_assigns_get {shape a : List Nat} :
    a ∈ assigns shape ↔ a.length = shape.length ∧
      ∀ i (h₁ : i < a.length) (h₂ : i < shape.length), a[i] < shape[i] := by
  rw [mem_assigns, List.forall₂_iff_get]; simp

private theorem singleton_of_nodup {α : Type} (l : List α) (x : α) (hnd : l.Nodup) (hx : x ∈ l)
    (hall : ∀ y ∈ l, y = x) : l = [x] := by
  cases l with
  | nil => simp at hx
  | cons y ys =>
    have hy := hall y (List.mem_cons_self ..)
    subst hy
    cases ys with
    | nil => rfl
    | cons z zs =>
      exfalso
      have hz := hall z (List.mem_cons_of_mem _ (List.mem_cons_self ..))
      subst hz
      simp at hnd

/-! ### the restricted sizes -/

/-- the sizes seen by the einsum: unused variables have size 1 -/
private def sizesOf (sizes used : List Nat) : List Nat :=
  sizes.zipIdx.map (fun (n, v) => if used.contains v then n else 1)

private theorem length_sizesOf (sizes used : List Nat) : (sizesOf sizes used).length = sizes.length := by
  simp [sizesOf]

private theorem getElem_sizesOf (sizes used : List Nat) (v : Nat) (h : v < (sizesOf sizes used).length)
    (h' : v < sizes.length) :
    (sizesOf sizes used)[v] = if v ∈ used then sizes[v] else 1 := by
  simp [sizesOf, List.getElem_zipIdx]

private theorem sizesOf_congr (sizes used used' : List Nat) (h : ∀ v, v ∈ used ↔ v ∈ used') :
    sizesOf sizes used = sizesOf sizes used' := by
  unfold sizesOf
  apply List.map_congr_left
  rintro ⟨n, v⟩ _
  have : used.contains v = used'.contains v := by
    rw [Bool.eq_iff_iff, List.contains_iff_mem, List.contains_iff_mem]; exact h v
  simp only [this]

private theorem assigns_agree (sizes used out : List Nat) (hused : ∀ v ∈ used, v ∈ out)
    (ρ ρ' : List Nat) (hρ : ρ ∈ assigns (sizesOf sizes used)) (hρ' : ρ' ∈ assigns (sizesOf sizes used))
    (heq : out.map (fun v => ρ[v]?.getD 0) = out.map (fun v => ρ'[v]?.getD 0)) : ρ = ρ' := by
  rw [mem_assigns_get] at hρ hρ'
  rw [List.map_inj_left] at heq
  apply List.ext_getElem (by rw [hρ.1, hρ'.1])
  intro i h₁ h₂
  have hi : i < (sizesOf sizes used).length := by rw [← hρ.1]; exact h₁
  have hi' : i < sizes.length := by simpa [length_sizesOf] using hi
  by_cases hu : i ∈ used
  · have := heq i (hused i hu)
    simpa [h₁, h₂] using this
  · have e1 := hρ.2 i h₁ hi
    have e2 := hρ'.2 i h₂ hi
    rw [getElem_sizesOf _ _ _ hi hi', if_neg hu] at e1 e2
    omega

private theorem einsumSpec_eq (S : SR K) (sizes : List Nat) (ops : List ((List Nat → K) × List Nat))
    (out : List Nat) :
    einsumSpec S sizes ops out =
      (assigns (out.map (fun v => sizes[v]?.getD 0))).map (fun a =>
        S.sum (((assigns (sizesOf sizes (ops.flatMap (·.2) ++ out))).filter
          (fun ρ => out.map (fun v => ρ[v]?.getD 0) == a)).map (fun ρ =>
            S.prod (ops.map (fun op => op.1 (op.2.map (fun v => ρ[v]?.getD 0))))))) := rfl

/-- the empty operand list with no output: the scalar `one` -/
theorem einsumSpec_nil (S : SR K) (hS : C01.SRLaws S) (sizes : List Nat) :
    einsumSpec S sizes [] [] = [S.one] := by
  rw [einsumSpec_eq]
  simp only [List.flatMap_nil, List.append_nil]
  have hρ₀ : List.replicate sizes.length 0 ∈ assigns (sizesOf sizes []) := by
    rw [mem_assigns_get]
    refine ⟨by simp [length_sizesOf], ?_⟩
    intro i h₁ h₂
    rw [getElem_sizesOf _ _ _ h₂ (by simpa [length_sizesOf] using h₂)]
    simp
  have huniq : ∀ ρ ∈ assigns (sizesOf sizes []), ρ = List.replicate sizes.length 0 := by
    intro ρ hρ
    exact assigns_agree sizes [] [] (fun v hv => hv) ρ _ hρ hρ₀ rfl
  have hsing := singleton_of_nodup _ _ (nodup_assigns _) hρ₀ huniq
  rw [hsing]
  simp [assigns, sum_singleton S hS, SR.prod]

/-- the order of the operands does not matter -/
theorem einsumSpec_perm_ops (S : SR K) (hS : C01.SRLaws S) (sizes : List Nat)
    (ops ops' : List ((List Nat → K) × List Nat)) (h : ops'.Perm ops) (out : List Nat) :
    einsumSpec S sizes ops' out = einsumSpec S sizes ops out := by
  rw [einsumSpec_eq, einsumSpec_eq]
  have hs : sizesOf sizes (ops'.flatMap (·.2) ++ out) = sizesOf sizes (ops.flatMap (·.2) ++ out) := by
    apply sizesOf_congr
    intro v
    simp only [List.mem_append, List.mem_flatMap]
    constructor
    · rintro (⟨op, hop, hv⟩ | hv)
      · exact Or.inl ⟨op, h.mem_iff.1 hop, hv⟩
      · exact Or.inr hv
    · rintro (⟨op, hop, hv⟩ | hv)
      · exact Or.inl ⟨op, h.mem_iff.2 hop, hv⟩
      · exact Or.inr hv
  rw [hs]
  apply List.map_congr_left
  intro a _
  congr 1
  apply List.map_congr_left
  intro ρ _
  exact C12.prod_perm S hS _ _ (h.map _)

/-- **a zero operand makes the result zero** (this is why the library may return the zero tensor when two
patterns fail to unify: their supports are disjoint, so the product of the operands is zero everywhere) -/
theorem einsumSpec_zero_of_pointwise_zero (S : SR K) (hS : C01.SRLaws S) (sizes : List Nat)
    (ops : List ((List Nat → K) × List Nat)) (out : List Nat)
    (h : ∀ ρ ∈ assigns (sizes.zipIdx.map (fun (n, v) => if (ops.flatMap (·.2) ++ out).contains v then n else 1)),
        ∃ op ∈ ops, op.1 (op.2.map (fun v => ρ[v]?.getD 0)) = S.zero) :
    ∀ c ∈ einsumSpec S sizes ops out, c = S.zero := by
  intro c hc
  rw [einsumSpec_eq, List.mem_map] at hc
  obtain ⟨a, _, rfl⟩ := hc
  apply sum_all_zero S hS
  intro x hx
  rw [List.mem_map] at hx
  obtain ⟨ρ, hρ, rfl⟩ := hx
  obtain ⟨op, hop, hz⟩ := h ρ (List.mem_filter.1 hρ).1
  apply prod_zero_of_mem S hS
  rw [List.mem_map]
  exact ⟨op, hop, hz⟩

/-! ### sum-free equations -/

/-- the only assignment compatible with the output cell `a`: output variables read from `a`, all others 0 -/
def cellAssign (n : Nat) (out a : List Nat) : List Nat :=
  (List.range n).map (fun v => if v ∈ out then a[out.idxOf v]?.getD 0 else 0)

private theorem getD_cellAssign (n : Nat) (out a : List Nat) (v : Nat) (hv : v < n) :
    (cellAssign n out a)[v]?.getD 0 = if v ∈ out then a[out.idxOf v]?.getD 0 else 0 := by
  simp [cellAssign, hv]

private theorem cellAssign_out (n : Nat) (out a : List Nat) (hnd : out.Nodup) (hlt : ∀ v ∈ out, v < n)
    (hlen : a.length = out.length) :
    out.map (fun v => (cellAssign n out a)[v]?.getD 0) = a := by
  apply List.ext_getElem (by simp [hlen])
  intro i h₁ h₂
  have hi : i < out.length := by simpa using h₁
  rw [List.getElem_map, getD_cellAssign _ _ _ _ (hlt _ (List.getElem_mem hi)),
    if_pos (List.getElem_mem hi), hnd.idxOf_getElem i hi]
  simp [h₂]

private theorem cellAssign_mem (sizes used out a : List Nat) (hnd : out.Nodup)
    (hused : ∀ v, v ∈ used ↔ v ∈ out) (hlt : ∀ v ∈ out, v < sizes.length)
    (ha : a ∈ assigns (out.map (fun v => sizes[v]?.getD 0))) :
    cellAssign sizes.length out a ∈ assigns (sizesOf sizes used) := by
  rw [mem_assigns_get] at ha ⊢
  refine ⟨by simp [cellAssign, length_sizesOf], ?_⟩
  intro v h₁ h₂
  have hv : v < sizes.length := by simpa [length_sizesOf] using h₂
  rw [getElem_sizesOf _ _ _ h₂ hv]
  have hg := getD_cellAssign sizes.length out a v hv
  rw [List.getElem?_eq_getElem h₁, Option.getD_some] at hg
  rw [hg]
  by_cases ho : v ∈ out
  · rw [if_pos ho, if_pos ((hused v).2 ho)]
    have hi : out.idxOf v < out.length := List.idxOf_lt_length_iff.2 ho
    have hia : out.idxOf v < a.length := by rw [ha.1]; simpa using hi
    have := ha.2 (out.idxOf v) hia (by simpa using hi)
    simp only [List.getElem_map, List.getElem_idxOf, hv, List.getElem?_eq_getElem,
      Option.getD_some] at this
    simpa [hia] using this
  · rw [if_neg ho, if_neg (fun h => ho ((hused v).1 h))]
    exact Nat.zero_lt_one

/-- **a sum-free equation is a pointwise product** (explicit form): when every used variable is an output
variable (and the output lists each once), the result cell at `a` is the product of the operand entries at
the assignment `cellAssign … a` (output variables read from `a`, unused variables 0). -/
theorem einsumSpec_sumfree_cell_explicit (S : SR K) (hS : C01.SRLaws S) (sizes : List Nat)
    (ops : List ((List Nat → K) × List Nat)) (out : List Nat) (hnd : out.Nodup)
    (hall : ∀ v ∈ ops.flatMap (·.2), v ∈ out) (hlt : ∀ v ∈ out, v < sizes.length)
    (a : List Nat) (ha : a ∈ assigns (out.map (fun v => sizes[v]?.getD 0))) :
    out.map (fun v => (cellAssign sizes.length out a)[v]?.getD 0) = a ∧
    getT S (einsumSpec S sizes ops out) (out.map (fun v => sizes[v]?.getD 0)) a
      = S.prod (ops.map (fun op => op.1 (op.2.map (fun v => (cellAssign sizes.length out a)[v]?.getD 0)))) := by
  have hlen : a.length = out.length := by
    have := (mem_assigns_get.1 ha).1
    simpa using this
  have hout := cellAssign_out sizes.length out a hnd hlt hlen
  refine ⟨hout, ?_⟩
  rw [einsumSpec_eq, C01.getT_assigns_map S _ _ a ha]
  have hused : ∀ v, v ∈ ops.flatMap (·.2) ++ out ↔ v ∈ out := by
    intro v
    rw [List.mem_append]
    exact ⟨fun h => h.elim (hall v) id, Or.inr⟩
  have hmem := cellAssign_mem sizes _ out a hnd hused hlt ha
  have hsing : (assigns (sizesOf sizes (ops.flatMap (·.2) ++ out))).filter
      (fun ρ => out.map (fun v => ρ[v]?.getD 0) == a) = [cellAssign sizes.length out a] := by
    apply singleton_of_nodup _ _ ((nodup_assigns _).filter _)
    · rw [List.mem_filter]
      exact ⟨hmem, by simp [hout]⟩
    · intro ρ hρ
      rw [List.mem_filter] at hρ
      have h2 : out.map (fun v => ρ[v]?.getD 0) = a := by simpa using hρ.2
      exact assigns_agree sizes _ out (fun v hv => (hused v).1 hv) ρ _ hρ.1 hmem (h2.trans hout.symm)
  rw [hsing, List.map_singleton, sum_singleton S hS]

/-- **a sum-free equation is a pointwise product** (strong form): the cell at `a` is the product of the
operand entries at *any* assignment `ρ` that restricts to `a` on the output variables. -/
theorem einsumSpec_sumfree_cell_forall (S : SR K) (hS : C01.SRLaws S) (sizes : List Nat)
    (ops : List ((List Nat → K) × List Nat)) (out : List Nat) (hnd : out.Nodup)
    (hall : ∀ v ∈ ops.flatMap (·.2), v ∈ out) (hlt : ∀ v ∈ out, v < sizes.length)
    (a : List Nat) (ha : a ∈ assigns (out.map (fun v => sizes[v]?.getD 0)))
    (ρ : List Nat) (hρ : out.map (fun v => ρ[v]?.getD 0) = a) :
    getT S (einsumSpec S sizes ops out) (out.map (fun v => sizes[v]?.getD 0)) a
      = S.prod (ops.map (fun op => op.1 (op.2.map (fun v => ρ[v]?.getD 0)))) := by
  obtain ⟨h1, h2⟩ := einsumSpec_sumfree_cell_explicit S hS sizes ops out hnd hall hlt a ha
  rw [h2]
  congr 1
  apply List.map_congr_left
  intro op hop
  apply congrArg
  have hag := List.map_inj_left.1 (h1.trans hρ.symm)
  apply List.map_congr_left
  intro v hv
  exact hag v (hall v (List.mem_flatMap.2 ⟨op, hop, hv⟩))

/-- **a sum-free equation is a pointwise product**: when every used variable is an output variable (and the
output lists each once), each result cell is just the product of the operand entries at that cell — this is
the case in which `reduce_equation` drops broadcast (stride-0 / size-1) dimensions and re-expands afterwards -/
theorem einsumSpec_sumfree_cell (S : SR K) (hS : C01.SRLaws S) (sizes : List Nat)
    (ops : List ((List Nat → K) × List Nat)) (out : List Nat) (hnd : out.Nodup)
    (hall : ∀ v ∈ ops.flatMap (·.2), v ∈ out) (hlt : ∀ v ∈ out, v < sizes.length)
    (a : List Nat) (ha : a ∈ assigns (out.map (fun v => sizes[v]?.getD 0))) :
    ∃ ρ : List Nat, out.map (fun v => ρ[v]?.getD 0) = a ∧
      getT S (einsumSpec S sizes ops out) (out.map (fun v => sizes[v]?.getD 0)) a
        = S.prod (ops.map (fun op => op.1 (op.2.map (fun v => ρ[v]?.getD 0)))) :=
  ⟨cellAssign sizes.length out a, einsumSpec_sumfree_cell_explicit S hS sizes ops out hnd hall hlt a ha⟩

end C07
