/-
C09e — restricting a linear system to a closed set of rows does not change its least solution: if outside an index
set `I` the right-hand side is zero and no row outside `I` has a non-zero entry in a column inside `I`, then the least
solution of the restricted system `x_I = A_II x_I + b_I` (as computed by `Sv.solveLoop`), extended by zero, is the least
solution of the full system `x = A x + b`.  This is the algebra behind `PatternedTensor.solve`, which solves only the
rows in the image of the axis computed by its growth loop (C09d) and leaves every other row at the semiring zero.
-/
import FggsModel.Solve
import FggsProofs.Props.C09
import FggsProofs.Props.C09b
import FggsProofs.C09bLemmas
import FggsProofs.C09eLemmas
import Mathlib.Tactic.Linarith
import Mathlib.Data.List.Basic

set_option linter.unusedSimpArgs false
set_option linter.unusedVariables false

namespace C09e
open Fggs Fggs.Sem Fggs.Sv C09bL C09eL

variable {K : Type}

/-- the restricted system -/
def restrictA (S : SR K) (a : List (List K)) (I : List Nat) : List (List K) := I.map (fun i => I.map (fun j => getM S a i j))
def restrictB (S : SR K) (b : List K) (I : List Nat) : List K := I.map (getV S b)

/-- a vector on `I` extended by zero to `0..n-1` -/
def extend (S : SR K) (n : Nat) (I : List Nat) (x : List K) : List K :=
  (List.range n).map (fun i => match I.idxOf? i with
    | some p => getV S x p
    | none => S.zero)

/-! ### the restricted system and the extension, componentwise -/

private theorem square_restrict (S : SR K) (a : List (List K)) (b : List K) (I : List Nat) :
    C09.Square (restrictA S a I) (restrictB S b I) := by
  refine ⟨?_, by simp [restrictA, restrictB]⟩
  intro r hr
  simp only [restrictA, List.mem_map] at hr
  obtain ⟨i, _, rfl⟩ := hr
  simp [restrictA]

private theorem getM_restrict (S : SR K) (a : List (List K)) (I : List Nat) (p q : Nat)
    (hp : p < I.length) (hq : q < I.length) :
    getM S (restrictA S a I) p q = getM S a (I[p]?.getD 0) (I[q]?.getD 0) := by
  simp [getM, restrictA, hp, hq]

private theorem getV_restrict (S : SR K) (b : List K) (I : List Nat) (p : Nat) (hp : p < I.length) :
    getV S (restrictB S b I) p = getV S b (I[p]?.getD 0) := by
  simp [getV, restrictB, hp]

private theorem getV_extend_some (S : SR K) (n : Nat) (I : List Nat) (x : List K) (i p : Nat) (hi : i < n)
    (e : I.idxOf? i = some p) : getV S (extend S n I x) i = getV S x p := by
  simp [getV, extend, hi, e]

private theorem getV_extend_none (S : SR K) (n : Nat) (I : List Nat) (x : List K) (i : Nat) (hi : i < n)
    (h : i ∉ I) : getV S (extend S n I x) i = S.zero := by
  have e : I.idxOf? i = none := List.idxOf?_eq_none_iff.2 h
  simp [getV, extend, hi, e]

/-- row `p` of the restricted affine map, applied to the restriction `zr` of `z`, is the row `I[p]` of the full
affine map with the sum taken over `I` only -/
private theorem restricted_row (S : SR K) (a : List (List K)) (b : List K) (I : List Nat) (z zr : List K)
    (hzr : ∀ q, (hq : q < I.length) → getV S zr q = getV S z I[q]) (p : Nat) (hp : p < I.length) :
    getV S (affine S (restrictA S a I) (restrictB S b I) zr) p =
      S.add (S.sum (I.map (fun j => S.mul (getM S a I[p] j) (getV S z j)))) (getV S b I[p]) := by
  have hlen : (restrictA S a I).length = I.length := by simp [restrictA]
  rw [getV_affine S _ _ _ p (by rw [hlen]; exact hp), hlen, getV_restrict S b I p hp,
    map_eq_map_range I (fun j => S.mul (getM S a I[p] j) (getV S z j))]
  have e0 : I[p]?.getD 0 = I[p] := by simp [hp]
  rw [e0]
  congr 1
  apply sum_map_congr
  intro q hq
  have hq' : q < I.length := List.mem_range.1 hq
  have e1 : I[q]?.getD 0 = I[q] := by simp [hq']
  rw [getM_restrict S a I p q hp hq', hzr q hq', e0, e1]

/-- **the least solution of the restricted system, extended by zero, is the least solution of the full system** -/
theorem restricted_isLeast (S : SR K) (le : K → K → Prop) (star : K → K) (h : C09b.OrdStarLaws S le star)
    (hz : ∀ x, le S.zero x)
    (a : List (List K)) (b : List K) (hsq : C09.Square a b) (I : List Nat) (hnd : I.Nodup) (hI : ∀ i ∈ I, i < a.length)
    (hb : ∀ i, i < a.length → i ∉ I → getV S b i = S.zero)
    (ha : ∀ i, i < a.length → i ∉ I → ∀ j ∈ I, getM S a i j = S.zero) :
    let x := extend S a.length I (solveLoop S star (restrictA S a I) (restrictB S b I))
    affine S a b x = x ∧ C09b.PreFixed S le a b x ∧ ∀ y, C09b.PreFixed S le a b y → C09b.VecLe S le a.length x y := by
  intro x
  have hS := h.sr
  have hsq' := square_restrict S a b I
  have hlen : (restrictA S a I).length = I.length := by simp [restrictA]
  have hsol := C09.solveLoop_is_solution S hS star h.star_law _ _ hsq'
  -- `x` restricted to `I` is the solution of the restricted system
  have hxr : ∀ q, (hq : q < I.length) →
      getV S (solveLoop S star (restrictA S a I) (restrictB S b I)) q = getV S x I[q] := by
    intro q hq
    exact (getV_extend_some S a.length I _ I[q] q (hI _ (List.getElem_mem hq)) (idxOf?_getElem I hnd q hq)).symm
  -- (1) `x` is a fixed point, row by row
  have hrow : ∀ i, i < a.length → getV S (affine S a b x) i = getV S x i := by
    intro i hi
    rw [getV_affine S a b x i hi]
    by_cases hiI : i ∈ I
    · obtain ⟨p, hp, hpi, e⟩ := idxOf?_of_mem I i hiI
      rw [sum_range_eq_sum_of_vanish hS a.length I hnd hI _
        (fun j hj hjI => by rw [getV_extend_none S a.length I _ j hj hjI, mul_zero hS])]
      subst hpi
      rw [← restricted_row S a b I x _ hxr p hp, hsol, hxr p hp]
    · rw [sum_zeros hS, hb i hi hiI, hS.zero_add, getV_extend_none S a.length I _ i hi hiI]
      intro j hj
      have hj' : j < a.length := List.mem_range.1 hj
      by_cases hjI : j ∈ I
      · rw [ha i hi hiI j hjI, hS.zero_mul]
      · rw [getV_extend_none S a.length I _ j hj' hjI, mul_zero hS]
  have hfix : affine S a b x = x := by
    apply List.ext_getElem
    · simp [affine, x, extend]
    · intro i h1 h2
      have hi : i < a.length := by simpa [affine] using h1
      have := hrow i hi
      simpa [getV, h1, h2] using this
  refine ⟨hfix, ?_, ?_⟩
  · intro i _
    rw [hfix]
    exact h.refl _
  · intro y hy
    -- the restriction of a pre-fixed point is a pre-fixed point of the restricted system
    have hyr : ∀ q, (hq : q < I.length) → getV S (I.map (getV S y)) q = getV S y I[q] := by
      intro q hq
      simp [getV, hq]
    have hpre : C09b.PreFixed S le (restrictA S a I) (restrictB S b I) (I.map (getV S y)) := by
      intro p hp
      rw [hlen] at hp
      have hi : I[p] < a.length := hI _ (List.getElem_mem hp)
      rw [restricted_row S a b I y _ hyr p hp, hyr p hp]
      have := hy I[p] hi
      rw [getV_affine S a b y _ hi] at this
      refine h.trans _ _ _ ?_ this
      exact h.add_mono _ _ _ _ (sum_le_sum_range h hz a.length I hnd hI _) (h.refl _)
    have hle := C09b.solveLoop_least' S le star h _ _ _ hpre
    intro i hi
    by_cases hiI : i ∈ I
    · obtain ⟨p, hp, hpi, e⟩ := idxOf?_of_mem I i hiI
      have := hle p (by rw [hlen]; exact hp)
      rw [hyr p hp, hpi] at this
      rw [getV_extend_some S a.length I _ i p hi e]
      exact this
    · rw [getV_extend_none S a.length I _ i hi hiI]
      exact hz _

/-! ### non-vacuity (Boolean semiring): rows {0, 2} of a 3 × 3 system are closed -/

example : let a := [[true, false, true], [false, false, false], [true, false, false]]
    let b := [false, false, true]
    (∀ i, i < 3 → i ∉ [2, 0] → getV boolSR b i = false) ∧ (∀ i, i < 3 → i ∉ [2, 0] → ∀ j ∈ [2, 0], getM boolSR a i j = false) ∧
    extend boolSR 3 [2, 0] (solveLoop boolSR (fun _ => true) (restrictA boolSR a [2, 0]) (restrictB boolSR b [2, 0])) = [true, false, true] := by
  decide

end C09e
