/-
C09e — restricting a linear system to a closed set of rows does not change its least solution: if outside an index
set `I` the right-hand side is zero and no row outside `I` has a non-zero entry in a column inside `I`, then the least
solution of the restricted system `x_I = A_II x_I + b_I` (as computed by `Sv.solveLoop`), extended by zero, is the least
solution of the full system `x = A x + b`.  This is the algebra behind `PatternedTensor.solve`, which solves only the
rows in the image of the axis computed by its growth loop (C09d) and leaves every other row at the semiring zero.
-/
import FggsModel.Solve
import FggsProofs.Props.C09
import FggsProofs.Props.C09b
import FggsProofs.Props.C08
import FggsProofs.Props.C11
import FggsProofs.C09bLemmas
import FggsProofs.C09eLemmas
import Mathlib.Tactic.Linarith
import Mathlib.Data.List.Basic

set_option linter.unusedSimpArgs false
set_option linter.unusedVariables false

namespace C09e
open Fggs Fggs.Sem Fggs.Sv C09bL C09eL

variable {K : Type}

/-- the restricted system -/
def restrictA (S : SR K) (a : List (List K)) (I : List Nat) : List (List K) := I.map (fun i => I.map (fun j => getM S a i j))
def restrictB (S : SR K) (b : List K) (I : List Nat) : List K := I.map (getV S b)

/-- a vector on `I` extended by zero to `0..n-1` -/
def extend (S : SR K) (n : Nat) (I : List Nat) (x : List K) : List K :=
  (List.range n).map (fun i => match I.idxOf? i with
    | some p => getV S x p
    | none => S.zero)

/-! ### the restricted system and the extension, componentwise -/

private theorem square_restrict (S : SR K) (a : List (List K)) (b : List K) (I : List Nat) :
    C09.Square (restrictA S a I) (restrictB S b I) := by
  refine ⟨?_, by simp [restrictA, restrictB]⟩
  intro r hr
  simp only [restrictA, List.mem_map] at hr
  obtain ⟨i, _, rfl⟩ := hr
  simp [restrictA]

private theorem getM_restrict (S : SR K) (a : List (List K)) (I : List Nat) (p q : Nat)
    (hp : p < I.length) (hq : q < I.length) :
    getM S (restrictA S a I) p q = getM S a (I[p]?.getD 0) (I[q]?.getD 0) := by
  simp [getM, restrictA, hp, hq]

private theorem getV_restrict (S : SR K) (b : List K) (I : List Nat) (p : Nat) (hp : p < I.length) :
    getV S (restrictB S b I) p = getV S b (I[p]?.getD 0) := by
  simp [getV, restrictB, hp]

private theorem getV_extend_some (S : SR K) (n : Nat) (I : List Nat) (x : List K) (i p : Nat) (hi : i < n)
    (e : I.idxOf? i = some p) : getV S (extend S n I x) i = getV S x p := by
  simp [getV, extend, hi, e]

private theorem getV_extend_none (S : SR K) (n : Nat) (I : List Nat) (x : List K) (i : Nat) (hi : i < n)
    (h : i ∉ I) : getV S (extend S n I x) i = S.zero := by
  have e : I.idxOf? i = none := List.idxOf?_eq_none_iff.2 h
  simp [getV, extend, hi, e]

/-- row `p` of the restricted affine map, applied to the restriction `zr` of `z`, is the row `I[p]` of the full
affine map with the sum taken over `I` only -/
private theorem restricted_row (S : SR K) (a : List (List K)) (b : List K) (I : List Nat) (z zr : List K)
    (hzr : ∀ q, (hq : q < I.length) → getV S zr q = getV S z I[q]) (p : Nat) (hp : p < I.length) :
    getV S (affine S (restrictA S a I) (restrictB S b I) zr) p =
      S.add (S.sum (I.map (fun j => S.mul (getM S a I[p] j) (getV S z j)))) (getV S b I[p]) := by
  have hlen : (restrictA S a I).length = I.length := by simp [restrictA]
  rw [getV_affine S _ _ _ p (by rw [hlen]; exact hp), hlen, getV_restrict S b I p hp,
    map_eq_map_range I (fun j => S.mul (getM S a I[p] j) (getV S z j))]
  have e0 : I[p]?.getD 0 = I[p] := by simp [hp]
  rw [e0]
  congr 1
  apply sum_map_congr
  intro q hq
  have hq' : q < I.length := List.mem_range.1 hq
  have e1 : I[q]?.getD 0 = I[q] := by simp [hq']
  rw [getM_restrict S a I p q hp hq', hzr q hq', e0, e1]

/-- **the least solution of the restricted system, extended by zero, is the least solution of the full system** -/
theorem restricted_isLeast (S : SR K) (le : K → K → Prop) (star : K → K) (h : C09b.OrdStarLaws S le star)
    (hz : ∀ x, le S.zero x)
    (a : List (List K)) (b : List K) (hsq : C09.Square a b) (I : List Nat) (hnd : I.Nodup) (hI : ∀ i ∈ I, i < a.length)
    (hb : ∀ i, i < a.length → i ∉ I → getV S b i = S.zero)
    (ha : ∀ i, i < a.length → i ∉ I → ∀ j ∈ I, getM S a i j = S.zero) :
    let x := extend S a.length I (solveLoop S star (restrictA S a I) (restrictB S b I))
    affine S a b x = x ∧ C09b.PreFixed S le a b x ∧ ∀ y, C09b.PreFixed S le a b y → C09b.VecLe S le a.length x y := by
  intro x
  have hS := h.sr
  have hsq' := square_restrict S a b I
  have hlen : (restrictA S a I).length = I.length := by simp [restrictA]
  have hsol := C09.solveLoop_is_solution S hS star h.star_law _ _ hsq'
  -- `x` restricted to `I` is the solution of the restricted system
  have hxr : ∀ q, (hq : q < I.length) →
      getV S (solveLoop S star (restrictA S a I) (restrictB S b I)) q = getV S x I[q] := by
    intro q hq
    exact (getV_extend_some S a.length I _ I[q] q (hI _ (List.getElem_mem hq)) (idxOf?_getElem I hnd q hq)).symm
  -- (1) `x` is a fixed point, row by row
  have hrow : ∀ i, i < a.length → getV S (affine S a b x) i = getV S x i := by
    intro i hi
    rw [getV_affine S a b x i hi]
    by_cases hiI : i ∈ I
    · obtain ⟨p, hp, hpi, e⟩ := idxOf?_of_mem I i hiI
      rw [sum_range_eq_sum_of_vanish hS a.length I hnd hI _
        (fun j hj hjI => by rw [getV_extend_none S a.length I _ j hj hjI, mul_zero hS])]
      subst hpi
      rw [← restricted_row S a b I x _ hxr p hp, hsol, hxr p hp]
    · rw [sum_zeros hS, hb i hi hiI, hS.zero_add, getV_extend_none S a.length I _ i hi hiI]
      intro j hj
      have hj' : j < a.length := List.mem_range.1 hj
      by_cases hjI : j ∈ I
      · rw [ha i hi hiI j hjI, hS.zero_mul]
      · rw [getV_extend_none S a.length I _ j hj' hjI, mul_zero hS]
  have hfix : affine S a b x = x := by
    apply List.ext_getElem
    · simp [affine, x, extend]
    · intro i h1 h2
      have hi : i < a.length := by simpa [affine] using h1
      have := hrow i hi
      simpa [getV, h1, h2] using this
  refine ⟨hfix, ?_, ?_⟩
  · intro i _
    rw [hfix]
    exact h.refl _
  · intro y hy
    -- the restriction of a pre-fixed point is a pre-fixed point of the restricted system
    have hyr : ∀ q, (hq : q < I.length) → getV S (I.map (getV S y)) q = getV S y I[q] := by
      intro q hq
      simp [getV, hq]
    have hpre : C09b.PreFixed S le (restrictA S a I) (restrictB S b I) (I.map (getV S y)) := by
      intro p hp
      rw [hlen] at hp
      have hi : I[p] < a.length := hI _ (List.getElem_mem hp)
      rw [restricted_row S a b I y _ hyr p hp, hyr p hp]
      have := hy I[p] hi
      rw [getV_affine S a b y _ hi] at this
      refine h.trans _ _ _ ?_ this
      exact h.add_mono _ _ _ _ (sum_le_sum_range h hz a.length I hnd hI _) (h.refl _)
    have hle := C09b.solveLoop_least' S le star h _ _ _ hpre
    intro i hi
    by_cases hiI : i ∈ I
    · obtain ⟨p, hp, hpi, e⟩ := idxOf?_of_mem I i hiI
      have := hle p (by rw [hlen]; exact hp)
      rw [hyr p hp, hpi] at this
      rw [getV_extend_some S a.length I _ i p hi e]
      exact this
    · rw [getV_extend_none S a.length I _ i hi hiI]
      exact hz _

/-! ### the executable models on `Ext` / `Bool`

The carriers `[0, ∞]` (Real) and `[-∞, ∞]` (Viterbi) are subtypes of `Ext`; the inclusion is a semiring homomorphism
that commutes with `star`, `restrictA`, `restrictB`, `extend`, `solveLoop` and `affine`, so `restricted_isLeast` on the
carrier transfers to the executable loop on `Ext`. -/

section hom
variable {K' : Type} {S : SR K} {S' : SR K'} {f : K → K'} (hf : C11.Hom S S' f)
include hf

private theorem restrictA_map (a : List (List K)) (I : List Nat) :
    restrictA S' (a.map (List.map f)) I = (restrictA S a I).map (List.map f) := by
  unfold restrictA
  simp only [List.map_map]
  apply List.map_congr_left; intro i _
  simp only [Function.comp_def, List.map_map]
  apply List.map_congr_left; intro j _
  exact getM_map hf a i j

private theorem restrictB_map (b : List K) (I : List Nat) :
    restrictB S' (b.map f) I = (restrictB S b I).map f := by
  unfold restrictB
  simp only [List.map_map]
  apply List.map_congr_left; intro i _
  exact getV_map hf b i

private theorem extend_map (n : Nat) (I : List Nat) (x : List K) :
    extend S' n I (x.map f) = (extend S n I x).map f := by
  unfold extend
  simp only [List.map_map]
  apply List.map_congr_left; intro i _
  simp only [Function.comp_def]
  cases I.idxOf? i with
  | none => exact hf.zero.symm
  | some p => exact getV_map hf x p

end hom

/-- transfer of `restricted_isLeast` along the inclusion of a carrier -/
private theorem restricted_transfer {P : Ext → Prop} (SK : SR {x // P x}) (SE : SR Ext)
    (hf : C11.Hom SK SE (fun x => x.1)) (starK : {x // P x} → {x // P x}) (starE : Ext → Ext)
    (hs : ∀ a, starE a.1 = (starK a).1)
    (h : C09b.OrdStarLaws SK (fun a b => a.1.le b.1 = true) starK)
    (hz : ∀ x : {x // P x}, SK.zero.1.le x.1 = true)
    (a : List (List Ext)) (b : List Ext) (hsq : C09.Square a b)
    (hca : ∀ r ∈ a, ∀ x ∈ r, P x) (hcb : ∀ x ∈ b, P x)
    (I : List Nat) (hnd : I.Nodup) (hI : ∀ i ∈ I, i < a.length)
    (hb : ∀ i, i < a.length → i ∉ I → getV SE b i = SE.zero)
    (ha : ∀ i, i < a.length → i ∉ I → ∀ j ∈ I, getM SE a i j = SE.zero) :
    let x := extend SE a.length I (solveLoop SE starE (restrictA SE a I) (restrictB SE b I))
    affine SE a b x = x ∧
    ∀ y : List Ext, (∀ v ∈ y, P v) →
      (∀ i, i < a.length → (getV SE (affine SE a b y) i).le (getV SE y i) = true) →
      ∀ i, i < a.length → (getV SE x i).le (getV SE y i) = true := by
  obtain ⟨a', rfl⟩ := lift_mat a hca
  obtain ⟨b', rfl⟩ := lift_list b hcb
  have hsq' : C09.Square a' b' := by
    obtain ⟨h1, h2⟩ := hsq
    simp only [List.length_map] at h1 h2
    refine ⟨?_, h2⟩
    intro r hr
    have := h1 (r.map (fun x => x.1)) (List.mem_map.2 ⟨r, hr, rfl⟩)
    simpa using this
  simp only [List.length_map] at hI hb ha ⊢
  have hb' : ∀ i, i < a'.length → i ∉ I → getV SK b' i = SK.zero := by
    intro i hi hiI
    apply Subtype.ext
    have := hb i hi hiI
    rw [getV_map hf, ← hf.zero] at this
    exact this
  have ha' : ∀ i, i < a'.length → i ∉ I → ∀ j ∈ I, getM SK a' i j = SK.zero := by
    intro i hi hiI j hj
    apply Subtype.ext
    have := ha i hi hiI j hj
    rw [getM_map hf, ← hf.zero] at this
    exact this
  obtain ⟨hfix, _, hleast⟩ := restricted_isLeast SK _ starK h hz a' b' hsq' I hnd hI hb' ha'
  rw [restrictA_map hf, restrictB_map hf, C09b.solveLoop_map_hom SK SE _ hf starK starE hs, extend_map hf]
  refine ⟨?_, ?_⟩
  · rw [affine_map hf, hfix]
  · intro y hy hpre
    obtain ⟨y', rfl⟩ := lift_list y hy
    intro i hi
    rw [getV_map hf, getV_map hf]
    apply hleast y' _ i hi
    intro j hj
    have := hpre j hj
    rw [affine_map hf, getV_map hf, getV_map hf] at this
    exact this

/-- **RealSemiring, executable model**: on a square system with entries in `[0, ∞]` whose rows outside `I` are closed,
the loop `solveLoop realSR Impl.realStar` on the restricted system, extended by zero, is a solution of the full system
`x = A x + b` and is below every pre-fixed point with entries in `[0, ∞]` -/
theorem real_restricted_isLeast (a : List (List Ext)) (b : List Ext) (hsq : C09.Square a b)
    (hca : ∀ r ∈ a, ∀ x ∈ r, C08.RealC x) (hcb : ∀ x ∈ b, C08.RealC x)
    (I : List Nat) (hnd : I.Nodup) (hI : ∀ i ∈ I, i < a.length)
    (hb : ∀ i, i < a.length → i ∉ I → getV realSR b i = realSR.zero)
    (ha : ∀ i, i < a.length → i ∉ I → ∀ j ∈ I, getM realSR a i j = realSR.zero) :
    let x := extend realSR a.length I (solveLoop realSR Impl.realStar (restrictA realSR a I) (restrictB realSR b I))
    affine realSR a b x = x ∧
    ∀ y : List Ext, (∀ v ∈ y, C08.RealC v) →
      (∀ i, i < a.length → (getV realSR (affine realSR a b y) i).le (getV realSR y i) = true) →
      ∀ i, i < a.length → (getV realSR x i).le (getV realSR y i) = true :=
  restricted_transfer C11.realK realSR C11.real_val_hom C09b.realKStar Impl.realStar (fun _ => rfl)
    C09b.realOrdStar C09b.zero_least_instances.2.2 a b hsq hca hcb I hnd hI hb ha

/-- **ViterbiSemiring, executable model**: the same on `[-∞, ∞]` with (max, +) -/
theorem vit_restricted_isLeast (a : List (List Ext)) (b : List Ext) (hsq : C09.Square a b)
    (hca : ∀ r ∈ a, ∀ x ∈ r, C08.VitC x) (hcb : ∀ x ∈ b, C08.VitC x)
    (I : List Nat) (hnd : I.Nodup) (hI : ∀ i ∈ I, i < a.length)
    (hb : ∀ i, i < a.length → i ∉ I → getV vitSR b i = vitSR.zero)
    (ha : ∀ i, i < a.length → i ∉ I → ∀ j ∈ I, getM vitSR a i j = vitSR.zero) :
    let x := extend vitSR a.length I (solveLoop vitSR Impl.vitStar (restrictA vitSR a I) (restrictB vitSR b I))
    affine vitSR a b x = x ∧
    ∀ y : List Ext, (∀ v ∈ y, C08.VitC v) →
      (∀ i, i < a.length → (getV vitSR (affine vitSR a b y) i).le (getV vitSR y i) = true) →
      ∀ i, i < a.length → (getV vitSR x i).le (getV vitSR y i) = true :=
  restricted_transfer C11.vitK vitSR C11.vit_val_hom C09b.vitKStar Impl.vitStar (fun _ => rfl)
    C09b.vitOrdStar C09b.zero_least_instances.2.1 a b hsq hca hcb I hnd hI hb ha

/-- **BoolSemiring, executable model** -/
theorem bool_restricted_isLeast (a : List (List Bool)) (b : List Bool) (hsq : C09.Square a b)
    (I : List Nat) (hnd : I.Nodup) (hI : ∀ i ∈ I, i < a.length)
    (hb : ∀ i, i < a.length → i ∉ I → getV boolSR b i = boolSR.zero)
    (ha : ∀ i, i < a.length → i ∉ I → ∀ j ∈ I, getM boolSR a i j = boolSR.zero) :
    let x := extend boolSR a.length I
      (solveLoop boolSR (fun _ => true) (restrictA boolSR a I) (restrictB boolSR b I))
    affine boolSR a b x = x ∧
    ∀ y : List Bool,
      (∀ i, i < a.length → getV boolSR (affine boolSR a b y) i = true → getV boolSR y i = true) →
      ∀ i, i < a.length → getV boolSR x i = true → getV boolSR y i = true := by
  intro x
  obtain ⟨hfix, _, hleast⟩ := restricted_isLeast boolSR C09b.boolLe (fun _ => true) C09b.boolOrdStar
    C09b.zero_least_instances.1 a b hsq I hnd hI hb ha
  exact ⟨hfix, fun y hpre => hleast y hpre⟩

/-! ### non-vacuity (Boolean semiring): rows {0, 2} of a 3 × 3 system are closed -/

example : let a := [[true, false, true], [false, false, false], [true, false, false]]
    let b := [false, false, true]
    (∀ i, i < 3 → i ∉ [2, 0] → getV boolSR b i = false) ∧ (∀ i, i < 3 → i ∉ [2, 0] → ∀ j ∈ [2, 0], getM boolSR a i j = false) ∧
    extend boolSR 3 [2, 0] (solveLoop boolSR (fun _ => true) (restrictA boolSR a [2, 0]) (restrictB boolSR b [2, 0])) = [true, false, true] := by
  decide

end C09e
