/-
C06m — `PatternedTensor.where` (model `Wh.whereOp` of FggsModel/Where.lean): for well-formed operands of one shape,
`t.where(c, u)` is well formed, has that shape and denotes `torch.where` of the dense operands: every cell is `t`'s where
`c`'s cell is true and `u`'s elsewhere — whether or not the library swapped the operands (`c.default` true).
-/
import FggsModel.Where
import FggsProofs.Props.C06
import FggsProofs.Props.C06c
import FggsProofs.Props.C06d
import FggsProofs.C06dBaseLemmas
import FggsProofs.C06dSideLemmas
import FggsProofs.C06mLemmas
import Mathlib.Tactic.Linarith
import Mathlib.Data.List.Basic

set_option linter.unusedSimpArgs false
set_option linter.unusedVariables false

namespace C06m
open Fggs Fggs.Ax Fggs.Un Fggs.Sh Fggs.Wh

/-- the cell of the dense tensor at an index tuple -/
def cell (t : PT) (idx : List Nat) : Ext := t.dense[flat t.vshape idx]?.getD t.default

/-- the operands as `where` sees them: `c` and each of `t`, `u` satisfy what the anti-unification theorems need
(`C06d.OperandsOK`: well formed, same shape, identities below `next`, one size per identity) -/
structure WhereOK (t c u : PT) (next : Nat) : Prop where
  cu : C06d.OperandsOK c u next
  ct : C06d.OperandsOK c t next

/-- **where denotes torch.where** -/
theorem where_dense (fuel : Nat) (t c u : PT) (next : Nat) (h : WhereOK t c u next) :
    let r := whereOp fuel t c u next
    r.wf = true ∧ r.vshape = c.vshape ∧
    ∀ idx ∈ assigns c.vshape, cell r idx = if truthy (cell c idx) then cell t idx else cell u idx := by
  intro r
  show (whereOp fuel t c u next).wf = true ∧ (whereOp fuel t c u next).vshape = c.vshape ∧
    ∀ idx ∈ assigns c.vshape, cell (whereOp fuel t c u next) idx =
      if truthy (cell c idx) then cell t idx else cell u idx
  rw [C06mL.whereOp_eq]
  cases hd : truthy c.default
  · -- not swapped: `c`'s default is false, the operand laid out is `u`
    simp only [Bool.false_eq_true, if_false]
    have hn := C06mL.raw_normOK h.cu fuel false t
    obtain ⟨h1, h2, h3⟩ := C06dL.normalize_spec hn
    have hv : (C06mL.rawWhere fuel false t c u next).vshape = c.vshape := (C06mL.sides h.cu fuel).1.numl
    refine ⟨h1, h2.trans hv, ?_⟩
    intro idx hidx
    have hc := C06mL.raw_cell h.cu fuel t hidx
    rw [hd] at hc
    unfold cell
    rw [h3, h2, hv, hc]
    simp
  · -- swapped: `c`'s default is true, the operand laid out is `t`
    simp only [if_true]
    have hn := C06mL.raw_normOK h.ct fuel true u
    obtain ⟨h1, h2, h3⟩ := C06dL.normalize_spec hn
    have hv : (C06mL.rawWhere fuel true u c t next).vshape = c.vshape := (C06mL.sides h.ct fuel).1.numl
    refine ⟨h1, h2.trans hv, ?_⟩
    intro idx hidx
    have hc := C06mL.raw_cell h.ct fuel u hidx
    rw [hd] at hc
    unfold cell
    rw [h3, h2, hv, hc]
    cases truthy (c.dense[flat c.vshape idx]?.getD c.default) <;> simp

/-! ### non-vacuity: a diagonal mask selecting from a dense tensor, the rest from a sparse one -/

def exC : PT := { physical := [.fin 1, .fin 0], paxes := [(0, 2)], vaxes := [.phys 0 2, .phys 0 2], default := .fin 0 }
def exT : PT := { physical := [.fin 1, .fin 2, .fin 3, .fin 4], paxes := [(1, 2), (2, 2)], vaxes := [.phys 1 2, .phys 2 2], default := .fin 0 }
def exU : PT := { physical := [.fin 9], paxes := [], vaxes := [.sum 1 unitAxis 0, .sum 0 unitAxis 1], default := .fin 7 }

example : exC.wf = true ∧ exT.wf = true ∧ exU.wf = true := by decide

end C06m
