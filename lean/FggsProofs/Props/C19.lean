/-
C19 — Strongly connected components are correct and dependency-ordered.

What is proved here, for all graphs:
* `SccOk_exact`, `SccOk_dep_order`: the contract `SccOk` (partition into strongly connected sets,
  no edge into a later component) forces the components to be *exactly* the SCCs and forces every
  successor of a vertex into the same or an earlier component ("computed after those it depends
  on", "every nonterminal receives a value").
* `sccOk_sound`: the executable decider `sccOk` that the harness runs on every output of the
  implementation is sound for that contract.
* `ntgraph_keys`, `ntgraph_edge_iff`: nonterminal_graph has exactly the nonterminals as vertices and
  an edge X→Y iff some rule for X has a rhs edge labelled Y.
The ∀-statement `SccOk g (Impl.scc g)` for the Tarjan model itself is *not* proved (DESIGN C19,
stage 2); it is established per input by `sccOk_sound` on every enumerated/generated graph.
-/
import FggsModel.Scc
import Mathlib.Tactic.Linarith
import Mathlib.Data.List.Basic

set_option linter.unusedSimpArgs false
set_option linter.unusedVariables false

namespace C19
open Fggs Fggs.Scc

/-- reachability in the digraph (reflexive-transitive closure of the successor relation) -/
inductive Reach (g : Graph) : Nat → Nat → Prop
  | refl (u : Nat) : Reach g u u
  | step {u v w : Nat} : Reach g u v → w ∈ succs g v → Reach g u w

theorem Reach.trans {g : Graph} {u v w : Nat} (h1 : Reach g u v) (h2 : Reach g v w) : Reach g u w := by
  induction h2 with
  | refl => exact h1
  | step _ hs ih => exact Reach.step ih hs

/-- the contract of `scc` -/
structure SccOk (g : Graph) (cs : List (List Nat)) : Prop where
  cover : ∀ v ∈ verts g, ∃ c ∈ cs, v ∈ c
  only : ∀ c ∈ cs, ∀ v ∈ c, v ∈ verts g
  disjoint : ∀ i j (hi : i < cs.length) (hj : j < cs.length) v, v ∈ cs[i] → v ∈ cs[j] → i = j
  strong : ∀ c ∈ cs, ∀ u ∈ c, ∀ v ∈ c, Reach g u v
  order : ∀ i j (hi : i < cs.length) (hj : j < cs.length), i < j →
            ∀ u ∈ cs[i], ∀ w ∈ succs g u, w ∉ cs[j]

/-- successors are vertices -/
def Closed (g : Graph) : Prop := ∀ v w, w ∈ succs g v → w ∈ verts g

private theorem edge_down {g : Graph} {cs : List (List Nat)} (hg : Closed g) (h : SccOk g cs)
    {i : Nat} (hi : i < cs.length) {u w : Nat} (hu : u ∈ cs[i]) (hw : w ∈ succs g u) :
    ∃ j, ∃ hj : j < cs.length, j ≤ i ∧ w ∈ cs[j] := by
  obtain ⟨c, hc, hwc⟩ := h.cover w (hg u w hw)
  obtain ⟨j, hj, rfl⟩ := List.getElem_of_mem hc
  refine ⟨j, hj, ?_, hwc⟩
  by_contra hlt
  exact h.order i j hi hj (by omega) u hu w hw hwc

private theorem reach_down {g : Graph} {cs : List (List Nat)} (hg : Closed g) (h : SccOk g cs)
    {u v : Nat} (hr : Reach g u v) :
    ∀ {i : Nat} (hi : i < cs.length), u ∈ cs[i] → ∃ j, ∃ hj : j < cs.length, j ≤ i ∧ v ∈ cs[j] := by
  induction hr with
  | refl => intro i hi hu; exact ⟨i, hi, le_refl _, hu⟩
  | step _ hs ih =>
    intro i hi hu
    obtain ⟨j, hj, hji, hv⟩ := ih hi hu
    obtain ⟨k, hk, hkj, hw⟩ := edge_down hg h hj hv hs
    exact ⟨k, hk, le_trans hkj hji, hw⟩

/-- **Every successor lies in the same or an earlier component**: when the components are
processed in list order, everything a vertex depends on has been processed before or together
with it. -/
theorem SccOk_dep_order {g : Graph} {cs : List (List Nat)} (hg : Closed g) (h : SccOk g cs)
    (i j : Nat) (hi : i < cs.length) (hj : j < cs.length) (u w : Nat)
    (hu : u ∈ cs[i]) (hw : w ∈ cs[j]) (he : w ∈ succs g u) : j ≤ i := by
  obtain ⟨k, hk, hki, hwk⟩ := edge_down hg h hi hu he
  have := h.disjoint j k hj hk w hw hwk
  omega

/-- **The components are exactly the strongly connected components.** -/
theorem SccOk_exact {g : Graph} {cs : List (List Nat)} (hg : Closed g) (h : SccOk g cs)
    (u v : Nat) (hu : u ∈ verts g) (hv : v ∈ verts g) :
    (∃ c ∈ cs, u ∈ c ∧ v ∈ c) ↔ (Reach g u v ∧ Reach g v u) := by
  constructor
  · rintro ⟨c, hc, huc, hvc⟩
    exact ⟨h.strong c hc u huc v hvc, h.strong c hc v hvc u huc⟩
  · rintro ⟨huv, hvu⟩
    obtain ⟨c, hc, huc⟩ := h.cover u hu
    obtain ⟨d, hd, hvd⟩ := h.cover v hv
    obtain ⟨i, hi, rfl⟩ := List.getElem_of_mem hc
    obtain ⟨j, hj, rfl⟩ := List.getElem_of_mem hd
    obtain ⟨j', hj', hle1, hv'⟩ := reach_down hg h huv hi huc
    obtain ⟨i', hi', hle2, hu'⟩ := reach_down hg h hvu hj hvd
    have e1 := h.disjoint j j' hj hj' v hvd hv'
    have e2 := h.disjoint i i' hi hi' u huc hu'
    have : i = j := by omega
    subst this
    exact ⟨cs[i], hc, huc, hvd⟩

/-- every vertex is in exactly one component -/
theorem SccOk_partition {g : Graph} {cs : List (List Nat)} (h : SccOk g cs) (v : Nat) (hv : v ∈ verts g) :
    ∃ i, ∃ hi : i < cs.length, v ∈ cs[i] ∧ ∀ j (hj : j < cs.length), v ∈ cs[j] → j = i := by
  obtain ⟨c, hc, hvc⟩ := h.cover v hv
  obtain ⟨i, hi, rfl⟩ := List.getElem_of_mem hc
  exact ⟨i, hi, hvc, fun j hj hvj => h.disjoint j i hj hi v hvj hvc⟩

/-! ### soundness of the executable decider -/

private theorem inner_fold_sound (g : Graph) (v : Nat) (ws acc : List Nat) :
    ∀ x ∈ ws.foldl (fun acc w => if acc.contains w then acc else acc ++ [w]) acc,
      x ∈ acc ∨ x ∈ ws := by
  induction ws generalizing acc with
  | nil => intro x hx; exact Or.inl hx
  | cons w ws ih =>
    intro x hx
    simp only [List.foldl_cons] at hx
    rcases ih _ x hx with h | h
    · split at h
      · exact Or.inl h
      · rcases List.mem_append.mp h with h | h
        · exact Or.inl h
        · simp at h; subst h; exact Or.inr (List.mem_cons_self)
    · exact Or.inr (List.mem_cons_of_mem _ h)

private theorem outer_fold_sound (g : Graph) (vs acc : List Nat) :
    ∀ x ∈ vs.foldl (fun acc v => (succs g v).foldl (fun acc w => if acc.contains w then acc else acc ++ [w]) acc) acc,
      x ∈ acc ∨ ∃ y ∈ vs, x ∈ succs g y := by
  induction vs generalizing acc with
  | nil => intro x hx; exact Or.inl hx
  | cons v vs ih =>
    intro x hx
    simp only [List.foldl_cons] at hx
    rcases ih _ x hx with h | ⟨y, hy, hxy⟩
    · rcases inner_fold_sound g v _ _ x h with h | h
      · exact Or.inl h
      · exact Or.inr ⟨v, List.mem_cons_self, h⟩
    · exact Or.inr ⟨y, List.mem_cons_of_mem _ hy, hxy⟩

private theorem stepSet_sound (g : Graph) (u : Nat) (seen : List Nat)
    (hs : ∀ x ∈ seen, Reach g u x) : ∀ x ∈ stepSet g seen, Reach g u x := by
  intro x hx
  rcases outer_fold_sound g seen seen x hx with h | ⟨y, hy, hxy⟩
  · exact hs x h
  · exact Reach.step (hs y hy) hxy

private theorem closure_sound (g : Graph) (u : Nat) (n : Nat) (seen : List Nat)
    (hs : ∀ x ∈ seen, Reach g u x) : ∀ x ∈ closure g n seen, Reach g u x := by
  induction n generalizing seen with
  | zero => exact hs
  | succ n ih => exact ih _ (stepSet_sound g u seen hs)

theorem reach_sound (g : Graph) (u v : Nat) (h : reach g u v = true) : Reach g u v := by
  unfold reach at h
  have hv : v ∈ closure g g.length [u] := by simpa using h
  exact closure_sound g u _ [u] (by intro x hx; simp at hx; subst hx; exact Reach.refl _) v hv

private theorem mem_of_lookup {v : Nat} {ss : List Nat} :
    ∀ {g : Graph}, g.lookup v = some ss → (v, ss) ∈ g := by
  intro g
  induction g with
  | nil => intro h; simp [List.lookup] at h
  | cons p g ih =>
    intro h
    obtain ⟨k, x⟩ := p
    by_cases hk : v = k
    · subst hk; simp [List.lookup] at h; subst h; exact List.mem_cons_self
    · have : (v == k) = false := by simpa using hk
      simp [List.lookup, this] at h
      exact List.mem_cons_of_mem _ (ih h)

theorem graphWF_closed (g : Graph) (h : graphWF g = true) : Closed g := by
  intro v w hw
  unfold graphWF at h
  simp only [Bool.and_eq_true, List.all_eq_true] at h
  have h1 := h.1
  unfold succs at hw
  cases hl : g.lookup v with
  | none => simp [hl] at hw
  | some ss =>
    simp [hl] at hw
    have hmem : (v, ss) ∈ g := mem_of_lookup hl
    have := h1 (v, ss) hmem w hw
    simpa using this

theorem sccOk_sound (g : Graph) (cs : List (List Nat)) (h : sccOk g cs = true) : SccOk g cs := by
  unfold sccOk at h
  simp only [Bool.and_eq_true, List.all_eq_true, List.any_eq_true] at h
  obtain ⟨⟨⟨⟨⟨hcover, honly⟩, hdisj⟩, _hne⟩, hstrong⟩, horder⟩ := h
  refine ⟨?_, ?_, ?_, ?_, ?_⟩
  · intro v hv
    obtain ⟨c, hc, hvc⟩ := hcover v hv
    exact ⟨c, hc, by simpa using hvc⟩
  · intro c hc v hv
    simpa using honly c hc v hv
  · intro i j hi hj v hvi hvj
    have := hdisj i (List.mem_range.mpr hi) j (List.mem_range.mpr hj)
    by_contra hne
    simp only [Bool.or_eq_true, beq_iff_eq, List.all_eq_true] at this
    rcases this with h | h
    · exact hne h
    · have hvi' : v ∈ cs[i]! := by rw [getElem!_pos cs i hi]; exact hvi
      have := h v hvi'
      rw [getElem!_pos cs j hj] at this
      simp [hvj] at this
  · intro c hc u hu v hv
    exact reach_sound g u v (hstrong c hc u hu v hv)
  · intro i j hi hj hij u hu w hw hwj
    have := horder i (List.mem_range.mpr hi) u (by rw [getElem!_pos cs i hi]; exact hu) w hw j
      (List.mem_range.mpr hj)
    rw [getElem!_pos cs j hj] at this
    simp [hij, hwj] at this

/-! ### nonterminal_graph -/

private theorem fold_keys (rs : List (Nat × List Nat)) (g : Graph) :
    verts (rs.foldl (fun g (r : Nat × List Nat) =>
      g.map (fun p => if p.1 == r.1 then (p.1, r.2.foldl (fun acc y => if acc.contains y then acc else acc ++ [y]) p.2) else p)) g)
    = verts g := by
  induction rs generalizing g with
  | nil => rfl
  | cons r rs ih =>
    simp only [List.foldl_cons]
    rw [ih]
    unfold verts
    rw [List.map_map]
    apply List.map_congr_left
    intro p _
    simp only [Function.comp]
    split <;> rfl

/-- nonterminal_graph contains every nonterminal, including those without rules, and nothing else -/
theorem ntgraph_keys (h : NTView) : verts (Impl.nonterminalGraph h) = h.nonterminals := by
  unfold Impl.nonterminalGraph
  rw [fold_keys]
  unfold verts
  simp [List.map_map, Function.comp_def]

private theorem inner_fold_complete (ws acc : List Nat) :
    ∀ x, (x ∈ acc ∨ x ∈ ws) → x ∈ ws.foldl (fun acc w => if acc.contains w then acc else acc ++ [w]) acc := by
  induction ws generalizing acc with
  | nil => intro x hx; rcases hx with h | h; exact h; simp at h
  | cons w ws ih =>
    intro x hx
    simp only [List.foldl_cons]
    apply ih
    rcases hx with h | h
    · left; split
      · exact h
      · exact List.mem_append_left _ h
    · rcases List.mem_cons.mp h with h | h
      · subst h; left; split
        · rename_i hc; simpa using hc
        · simp
      · right; exact h

private theorem lookup_map_keypres (f : Nat × List Nat → Nat × List Nat) (hf : ∀ p, (f p).1 = p.1)
    (g : Graph) (X : Nat) : (g.map f).lookup X = (g.lookup X).map (fun ss => (f (X, ss)).2) := by
  induction g with
  | nil => simp [List.lookup]
  | cons p g ih =>
    obtain ⟨k, x⟩ := p
    by_cases hk : X = k
    · subst hk
      have h1 : (f (X, x)).1 = X := hf (X, x)
      simp only [List.map_cons, List.lookup]
      rw [show f (X, x) = ((f (X,x)).1, (f (X,x)).2) from rfl, h1]
      simp [List.lookup]
    · have h1 : (f (k, x)).1 = k := hf (k, x)
      have hb : (X == k) = false := by simpa using hk
      simp only [List.map_cons]
      rw [show f (k, x) = ((f (k,x)).1, (f (k,x)).2) from rfl, h1]
      simp [List.lookup, hb, ih]

private theorem fold_edges (rs : List (Nat × List Nat)) (g : Graph) (X Y : Nat) (hX : X ∈ verts g) :
    Y ∈ succs (rs.foldl (fun g (r : Nat × List Nat) =>
      g.map (fun p => if p.1 == r.1 then (p.1, r.2.foldl (fun acc y => if acc.contains y then acc else acc ++ [y]) p.2) else p)) g) X
    ↔ (Y ∈ succs g X ∨ ∃ r ∈ rs, r.1 = X ∧ Y ∈ r.2) := by
  induction rs generalizing g with
  | nil => simp
  | cons r rs ih =>
    simp only [List.foldl_cons]
    have hX' : X ∈ verts (g.map (fun p => if p.1 == r.1 then (p.1, r.2.foldl (fun acc y => if acc.contains y then acc else acc ++ [y]) p.2) else p)) := by
      unfold verts at *
      rw [List.map_map]
      have : ((fun x : Nat × List Nat => x.1) ∘ fun p => if p.1 == r.1 then (p.1, r.2.foldl (fun acc y => if acc.contains y then acc else acc ++ [y]) p.2) else p)
           = (fun x : Nat × List Nat => x.1) := by
        funext p; simp only [Function.comp]; split <;> rfl
      rw [this]; exact hX
    rw [ih _ hX']
    -- successors of X after one update
    have hkey : ∀ p : Nat × List Nat, ((fun p : Nat × List Nat => if p.1 == r.1 then (p.1, r.2.foldl (fun acc y => if acc.contains y then acc else acc ++ [y]) p.2) else p) p).1 = p.1 := by
      intro p; simp only; split <;> rfl
    have hs : Y ∈ succs (g.map (fun p => if p.1 == r.1 then (p.1, r.2.foldl (fun acc y => if acc.contains y then acc else acc ++ [y]) p.2) else p)) X
        ↔ (Y ∈ succs g X ∨ (r.1 = X ∧ Y ∈ r.2)) := by
      unfold succs
      rw [lookup_map_keypres _ hkey]
      obtain ⟨ss, hss⟩ : ∃ ss, g.lookup X = some ss := by
        unfold verts at hX
        obtain ⟨p, hp, rfl⟩ := List.mem_map.mp hX
        cases hl : g.lookup p.1 with
        | some ss => exact ⟨ss, rfl⟩
        | none =>
          rw [List.lookup_eq_none_iff] at hl
          have := hl p hp
          simp at this
      simp only [hss, Option.map_some, Option.getD_some]
      by_cases hrx : r.1 = X
      · have : (X == r.1) = true := by simp [hrx]
        simp only [this, if_true]
        constructor
        · intro h
          rcases inner_fold_sound [] 0 _ _ Y h with h | h
          · exact Or.inl h
          · exact Or.inr ⟨hrx, h⟩
        · intro h
          apply inner_fold_complete
          rcases h with h | ⟨_, h⟩
          · exact Or.inl h
          · exact Or.inr h
      · have : (X == r.1) = false := by simpa using fun h => hrx h.symm
        simp [this, hrx]
    rw [hs]
    constructor
    · rintro (h | ⟨r', hr', h1, h2⟩)
      · rcases h with h | ⟨h1, h2⟩
        · exact Or.inl h
        · exact Or.inr ⟨r, List.mem_cons_self, h1, h2⟩
      · exact Or.inr ⟨r', List.mem_cons_of_mem _ hr', h1, h2⟩
    · rintro (h | ⟨r', hr', h1, h2⟩)
      · exact Or.inl (Or.inl h)
      · rcases List.mem_cons.mp hr' with h | h
        · subst h; exact Or.inl (Or.inr ⟨h1, h2⟩)
        · exact Or.inr ⟨r', h, h1, h2⟩

/-- nonterminal_graph has an edge X→Y exactly when some rule for X has a rhs edge labelled Y -/
theorem ntgraph_edge_iff (h : NTView) (X Y : Nat) (hX : X ∈ h.nonterminals) :
    Y ∈ succs (Impl.nonterminalGraph h) X ↔ ∃ r ∈ h.rules, r.1 = X ∧ Y ∈ r.2 := by
  unfold Impl.nonterminalGraph
  rw [fold_edges]
  · constructor
    · rintro (h0 | h0)
      · exfalso
        unfold succs at h0
        cases hl : (h.nonterminals.map (fun x => (x, ([] : List Nat)))).lookup X with
        | none => simp [hl] at h0
        | some ss =>
          have := mem_of_lookup hl
          obtain ⟨x, _, hx⟩ := List.mem_map.mp this
          simp at hx
          rw [hl] at h0
          simp [hx.2] at h0
      · exact h0
    · exact Or.inr
  · unfold verts; simp [List.map_map, Function.comp_def]; exact hX

/-! ### non-vacuity -/
example : sccOk [(0,[1]),(1,[2]),(2,[0,3]),(3,[])] (Impl.scc [(0,[1]),(1,[2]),(2,[0,3]),(3,[])]) = true := by
  decide
example : Impl.scc [(0,[1]),(1,[2]),(2,[0,3]),(3,[])] = [[3],[2,1,0]] := by decide
example : graphWF [(0,[1]),(1,[2]),(2,[0,3]),(3,[])] = true := by decide

end C19
