/-
C02 (method `linear`, and the driver loop for every method) — the model of `linear` (assembly of `F(0)` and
`J(0)` of a linearly recursive component, then the elimination loop of `solve_thunks` on the flattened system):
the assembled system IS the component's equation system (`linear_affine`), so by C09b the method returns the
least solution of the component's equations (`linearSolve_isLeast`); and the whole driver loop, for ANY requested
method (`fixed-point`, `newton`, `linear`; NOT the internal constructor `.oneStep`, for which the statement fails:
`sumProducts_isLeast_counterexample`), returns the least fixed point of the grammar whenever it stays inside the model (no Newton iteration
proper), raises nothing and warns about nothing (`sumProducts_isLeast`).  `method='linear'` raises ValueError
exactly when some recursive component has a rule with two or more edges inside the component
(`sumProducts_linear_raises_iff`).
-/
import FggsModel.Pipeline
import FggsProofs.PipeLemmas
import FggsProofs.C02cLemmas
import FggsProofs.C03bLemmas
import FggsProofs.C02dLemmas
import FggsProofs.Props.C01
import FggsProofs.Props.C01b
import FggsProofs.Props.C02b
import FggsProofs.Props.C02c
import FggsProofs.Props.C03b
import FggsProofs.Props.C09
import FggsProofs.Props.C09b
import FggsProofs.Props.C19b
import Mathlib.Tactic.Linarith
import Mathlib.Data.List.Basic

set_option linter.unusedSimpArgs false
set_option linter.unusedVariables false

namespace C02
open Fggs Fggs.Sem Fggs.Pipe PipeL C02dL

variable {K : Type}

/-- the cells of the component's nonterminals, flattened in the order of `compCells` -/
def flatOf (S : SR K) (G : Grammar K) (comp : List Nat) (y : Val K) : List K :=
  (compCells G comp).map (fun p => (cellsOf S G y p.1)[p.2]?.getD S.zero)

/-- a component as `scc` delivers it -/
structure CompOK (G : Grammar K) (comp : List Nat) : Prop where
  nodup : comp.Nodup
  range : ∀ X ∈ comp, X < G.nts.length

/-- values whose tensors have the right number of cells -/
def Shaped (G : Grammar K) (x : Val K) : Prop :=
  ∀ (X : Nat) (t : List K), x[X]?.join = some t → t.length = numel (G.shapeOf (G.nts[X]?.getD []))

/-- **the assembled linear system is the component's equation system**: for a component all of whose rules have at
most one edge inside the component, `A·y + b` (flattened) is `F` applied to the inputs overlaid with `y`, restricted
to the component -/
theorem linear_affine (S : SR K) (hS : C01.SRLaws S) (G : Grammar K) (hG : GrammarWF G)
    (comp : List Nat) (hc : CompOK G comp) (x y : Val K) (hx : Shaped G x) (hy : Shaped G y)
    (f0 : List (Nat × Option (List K))) (j0 : List ((Nat × Nat) × Option (List K)))
    (h : linearParts S G x comp = .ok (f0, j0)) :
    Sv.affine S (linearSystem S G comp f0 j0).1 (linearSystem S G comp f0 j0).2 (flatOf S G comp y)
      = flatOf S G comp (compF S G x comp y) := by
  rw [linearParts_eq] at h
  by_cases hnl : nonLinear G comp = true
  · simp [hnl] at h
  · simp only [hnl, if_false, Bool.false_eq_true, Except.ok.injEq, Prod.mk.injEq] at h
    obtain ⟨rfl, rfl⟩ := h
    exact linear_affine' hS G hG comp hc.nodup hc.range x y (by simpa using hnl)

/-- **`linear` returns the least solution of the component's equations**: a fixed point of `compF`, below every
pre-fixed point of it -/
theorem linearSolve_isLeast (S : SR K) (le : K → K → Prop) (star : K → K) (h : C09b.OrdStarLaws S le star)
    (G : Grammar K) (hG : GrammarWF G) (comp : List Nat) (hc : CompOK G comp) (x : Val K) (hx : Shaped G x)
    (ys : Val K) (hys : linearSolve S star G x comp = .ok ys) :
    flatOf S G comp (compF S G x comp ys) = flatOf S G comp ys ∧
    ∀ y, Shaped G y → (∀ i, i < (compCells G comp).length →
        le ((flatOf S G comp (compF S G x comp y))[i]?.getD S.zero) ((flatOf S G comp y)[i]?.getD S.zero)) →
      ∀ i, i < (compCells G comp).length →
        le ((flatOf S G comp ys)[i]?.getD S.zero) ((flatOf S G comp y)[i]?.getD S.zero) := by
  rw [linearSolve_eq] at hys
  by_cases hnl : nonLinear G comp = true
  · simp [hnl] at hys
  · simp only [hnl, if_false, Bool.false_eq_true, Except.ok.injEq] at hys
    subst hys
    obtain ⟨h1, h2⟩ := linearSolve_isLeast' S le star h G hG comp hc.nodup hc.range x (by simpa using hnl)
    exact ⟨h1, fun y _ hy => h2 y hy⟩

/-- THE STATEMENT AS ORIGINALLY GIVEN (for every `m : Method`).  It is FALSE: `Method` has a fourth, internal
constructor `.oneStep` (never produced by `parseMethod`; `compMethod` uses it for a single non-looping
nonterminal).  Requested as the global method, `compMethod .oneStep comp mr = .oneStep` for EVERY component, so a
recursive component gets a single application of `F` to zero, which is not a fixed point; nothing is raised,
warned or marked unmodelled.  See `sumProducts_isLeast_counterexample`. -/
def sumProducts_isLeast_statement : Prop :=
  ∀ (K : Type) [BEq K] (hbeq : ∀ a b : K, (a == b) = true → a = b)
    (S : SR K) (le : K → K → Prop) (star : K → K) (h : C09b.OrdStarLaws S le star) (hle : OrdLaws S le)
    (G : Grammar K) (hG : GrammarWF G) (m : Method) (kmax : Nat) (o : Outcome K)
    (hok : sumProducts S star G m kmax = .ok o) (hw : o.warned = false) (hu : o.unmodelled = false),
    (∀ X, X < G.nts.length → cellsOf S G (F S G o.value) X = cellsOf S G o.value X) ∧
    (∀ y, ValLe S le G (F S G y) y → ValLe S le G o.value y)

/-- the grammar `X → a X | b` over the Booleans (the one of the `example` below) -/
private def cexG : Grammar Bool :=
  ⟨[2], [[0, 0], [0]], [[0]], 0,
    [⟨0, [0, 0], [0], [(2, [1]), (0, [1, 0])]⟩, ⟨0, [0], [0], [(1, [0])]⟩],
    [[false, true, true, false], [true, false]]⟩

private theorem cexG_wf : GrammarWF cexG := by
  refine ⟨by decide, by decide, ?_⟩
  intro r hr
  have hr' : r = ⟨0, [0, 0], [0], [(2, [1]), (0, [1, 0])]⟩ ∨ r = ⟨0, [0], [0], [(1, [0])]⟩ := by
    simpa [cexG] using hr
  rcases hr' with rfl | rfl
  · exact ⟨by decide, by decide, by decide, by decide⟩
  · exact ⟨by decide, by decide, by decide, by decide⟩

private theorem boolOrd : OrdLaws boolSR C09b.boolLe where
  refl := C09b.boolOrdStar.refl
  trans := C09b.boolOrdStar.trans
  zero_le := C09b.zero_least_instances.1
  add_mono := C09b.boolOrdStar.add_mono
  mul_mono := C09b.boolOrdStar.mul_mono

/-- **counterexample to the original statement**: with `m = .oneStep` the loop returns `F(0) = [true, false]` for
`X → a X | b`, silently, and that is not a fixed point (`F [true, false] = [true, true]`) -/
theorem sumProducts_isLeast_counterexample : ¬ sumProducts_isLeast_statement := by
  intro hst
  have hval : (sumProducts boolSR (fun _ => true) cexG .oneStep 0).toOption.map
      (fun o => (o.value, o.warned, o.unmodelled)) = some ([some [true, false]], false, false) := by decide
  cases hsp : sumProducts boolSR (fun _ => true) cexG .oneStep 0 with
  | error e =>
    rw [hsp] at hval
    simp [Except.toOption] at hval
  | ok o =>
    rw [hsp] at hval
    simp only [Except.toOption, Option.map_some, Option.some.injEq, Prod.mk.injEq] at hval
    obtain ⟨hv, hw, hu⟩ := hval
    have := (hst Bool (fun a b hab => by simpa using hab) boolSR C09b.boolLe (fun _ => true) C09b.boolOrdStar
      boolOrd cexG cexG_wf .oneStep 0 o hsp hw hu).1 0 (by decide)
    rw [hv] at this
    revert this
    decide

/-- **the driver loop returns the least fixed point, whatever method was requested** (`fixed-point`, `newton`,
`linear`), as long as it stays inside the model (`unmodelled = false`: no component needed Newton's iteration
proper), raised nothing and warned about nothing: the value is a fixed point of the whole system and lies below
every pre-fixed point.

CORRECTED STATEMENT: the extra hypothesis `hm : m ≠ .oneStep` excludes the internal constructor `.oneStep` of
`Method` (not a method a caller can request: `parseMethod` produces `.fixedPoint`, `.newton`, `.linear` only), for
which the original statement `sumProducts_isLeast_statement` fails (`sumProducts_isLeast_counterexample`). -/
theorem sumProducts_isLeast [BEq K] (hbeq : ∀ a b : K, (a == b) = true → a = b)
    (S : SR K) (le : K → K → Prop) (star : K → K) (h : C09b.OrdStarLaws S le star) (hle : OrdLaws S le)
    (G : Grammar K) (hG : GrammarWF G) (m : Method) (hm : m ≠ .oneStep) (kmax : Nat) (o : Outcome K)
    (hok : sumProducts S star G m kmax = .ok o) (hw : o.warned = false) (hu : o.unmodelled = false) :
    (∀ X, X < G.nts.length → cellsOf S G (F S G o.value) X = cellsOf S G o.value X) ∧
    (∀ y, ValLe S le G (F S G y) y → ValLe S le G o.value y) :=
  sumProducts_isLeast' hbeq S le star h hle G hG m hm kmax o hok hw hu

/-- **`method='linear'` raises ValueError exactly on a grammar that is not linearly recursive**: some component
that is not a single non-looping nonterminal has a rule with two or more edges inside the component -/
theorem sumProducts_linear_raises_iff [BEq K] (S : SR K) (star : K → K) (G : Grammar K) (kmax : Nat) :
    (∃ e, sumProducts S star G .linear kmax = .error e) ↔
    ∃ comp ∈ sccOrder G, ¬ (comp.length = 1 ∧ maxRhs G comp = 0) ∧
      ∃ X ∈ comp, ∃ r ∈ G.rulesOf X, 2 ≤ (compEdges G comp r).length := by
  unfold sumProducts
  rw [foldlM_error_iff (solveComp S star G .linear kmax)
    (fun comp => ¬ (comp.length = 1 ∧ maxRhs G comp = 0) ∧ nonLinear G comp = true)
    (fun o comp => solveComp_linear_error S star G kmax o comp)]
  simp only [nonLinear_iff]

/-- non-vacuity: `X → a X | b` over the Booleans with `method='linear'`, and `X → X X | b` raising -/
example : ((sumProducts boolSR (fun _ => true)
    (⟨[2], [[0, 0], [0]], [[0]], 0,
       [⟨0, [0, 0], [0], [(2, [1]), (0, [1, 0])]⟩, ⟨0, [0], [0], [(1, [0])]⟩],
       [[false, true, true, false], [true, false]]⟩ : Grammar Bool) .linear 0).toOption.map
        (fun o => (o.value, o.warned, o.unmodelled))) = some ([some [true, true]], false, false) := by decide

example : (sumProducts boolSR (fun _ => true)
    (⟨[2], [[0]], [[0]], 0,
       [⟨0, [0], [0], [(1, [0]), (1, [0])]⟩, ⟨0, [0], [0], [(0, [0])]⟩],
       [[true, false]]⟩ : Grammar Bool) .linear 0).toOption.isNone = true := by decide

end C02
