/-
C12cLemmas — uniqueness of the least fixed point returned by the driver loop: two successful, silent, modelled runs
on grammars with the same nonterminal types, the same domain sizes and the same equation system return the same
tensors.  Used by C12c (two presentations of a grammar) and C11b (the same grammar, different options).
-/
import FggsModel.Pipeline
import FggsProofs.PipeLemmas
import FggsProofs.C12bLemmas
import FggsProofs.Props.C02d
import FggsProofs.Props.C09b
import Mathlib.Tactic.Linarith
import Mathlib.Data.List.Basic

set_option linter.unusedSimpArgs false
set_option linter.unusedVariables false

namespace C12cL
open Fggs Fggs.Sem Fggs.Pipe PipeL

variable {K : Type}

/-- `F` reads its argument only through `valCell` -/
theorem F_congr_valCell (S : SR K) (G : Grammar K) (x x' : Val K)
    (h : ∀ X a, C01.valCell S G x X a = C01.valCell S G x' X a) : F S G x = F S G x' := by
  have hew : ∀ l idx, edgeWeight S G x l idx = edgeWeight S G x' l idx := by
    intro l idx
    by_cases hl : l < G.T
    · simp [edgeWeight, hl]
    · have e : ∀ v : Val K, edgeWeight S G v l idx = C01.valCell S G v (l - G.T) idx := by
        intro v
        simp only [edgeWeight, C01.valCell, Grammar.labelType, hl, if_false]
        rfl
      rw [e x, e x', h]
  have hrv : ∀ r, ruleValue S G x r = ruleValue S G x' r := by
    intro r
    unfold ruleValue ruleCell
    simp only [hew]
  unfold F
  simp only [hrv]

/-- a fixed point (tensor by tensor, for the declared nonterminals) is a pre-fixed point in the cellwise order -/
theorem valLe_of_fixed (S : SR K) (le : K → K → Prop) (hle : C02.OrdLaws S le) (G : Grammar K) (v : Val K)
    (hfix : ∀ X, X < G.nts.length → cellsOf S G (F S G v) X = cellsOf S G v X) :
    C02.ValLe S le G (F S G v) v := by
  intro X a
  by_cases hX : X < G.nts.length
  · rw [valCell_eq_getT, valCell_eq_getT, hfix X hX]
    exact hle.refl _
  · have : C01.valCell S G (F S G v) X a = S.zero := by
      unfold C01.valCell
      rw [F_entry_none S G v X hX]
    rw [this]
    exact hle.zero_le _

theorem valCell_pres (S : SR K) (G G' : Grammar K) (hnts : G'.nts = G.nts) (hnls : G'.nls = G.nls) (x : Val K)
    (X : Nat) (a : List Nat) : C01.valCell S G' x X a = C01.valCell S G x X a := by
  unfold C01.valCell
  rw [hnts, C12bLemmas.shapeOf_congr G G' hnls]

theorem cellsOf_pres (S : SR K) (G G' : Grammar K) (hnts : G'.nts = G.nts) (hnls : G'.nls = G.nls) (x : Val K)
    (X : Nat) : cellsOf S G' x X = cellsOf S G x X := by
  unfold cellsOf
  rw [hnts, C12bLemmas.shapeOf_congr G G' hnls]

/-- **the least fixed point is unique**: two runs of the driver loop on grammars with the same equation system -/
theorem sumProducts_unique [BEq K] (hbeq : ∀ a b : K, (a == b) = true → a = b)
    (S : SR K) (le : K → K → Prop) (star : K → K) (h : C09b.OrdStarLaws S le star) (hle : C02.OrdLaws S le)
    (hanti : ∀ a b, le a b → le b a → a = b)
    (G G' : Grammar K) (hnts : G'.nts = G.nts) (hnls : G'.nls = G.nls) (hF : ∀ x, F S G' x = F S G x)
    (hG : GrammarWF G) (hG' : GrammarWF G')
    (m m' : Method) (hm : m ≠ .oneStep) (hm' : m' ≠ .oneStep) (kmax kmax' : Nat) (o o' : Outcome K)
    (hok : sumProducts S star G m kmax = .ok o) (hok' : sumProducts S star G' m' kmax' = .ok o')
    (hw : o.warned = false) (hw' : o'.warned = false) (hu : o.unmodelled = false) (hu' : o'.unmodelled = false) :
    ∀ X, X < G.nts.length → cellsOf S G o.value X = cellsOf S G' o'.value X := by
  obtain ⟨hfix, hleast⟩ := C02.sumProducts_isLeast hbeq S le star h hle G hG m hm kmax o hok hw hu
  obtain ⟨hfix', hleast'⟩ := C02.sumProducts_isLeast hbeq S le star h hle G' hG' m' hm' kmax' o' hok' hw' hu'
  -- everything in terms of `G`
  have hfix'' : ∀ X, X < G.nts.length → cellsOf S G (F S G o'.value) X = cellsOf S G o'.value X := by
    intro X hX
    have := hfix' X (by rw [hnts]; exact hX)
    rw [hF, cellsOf_pres S G G' hnts hnls, cellsOf_pres S G G' hnts hnls] at this
    exact this
  have h1 : C02.ValLe S le G o.value o'.value := hleast _ (valLe_of_fixed S le hle G _ hfix'')
  have h2 : C02.ValLe S le G o'.value o.value := by
    have := hleast' o.value (by
      intro X a
      rw [hF, valCell_pres S G G' hnts hnls, valCell_pres S G G' hnts hnls]
      exact valLe_of_fixed S le hle G _ hfix X a)
    intro X a
    have := this X a
    rw [valCell_pres S G G' hnts hnls, valCell_pres S G G' hnts hnls] at this
    exact this
  have heq : ∀ X a, C01.valCell S G o.value X a = C01.valCell S G o'.value X a :=
    fun X a => hanti _ _ (h1 X a) (h2 X a)
  intro X hX
  rw [cellsOf_pres S G G' hnts hnls, ← hfix X hX, ← hfix'' X hX, F_congr_valCell S G _ _ heq]

end C12cL
