/-
C04cDriverLemmas — the driver loop of the table-filling phase of `viterbi` (model `Vt.viterbiTables`): the tables left
for a nonterminal are those of ONE application of `F_viterbi` (to the valuation recorded in `readVal`), and at
convergence the final `maximum` agrees with that valuation, cell by cell, on every nonterminal the rules of the
nonterminal mention.  Used by C04c.
-/
import FggsModel.ViterbiTables
import FggsProofs.PipeLemmas
import FggsProofs.C02cLemmas
import FggsProofs.C04cTableLemmas
import Mathlib.Tactic.Linarith
import Mathlib.Data.List.Basic

set_option linter.unusedSimpArgs false
set_option linter.unusedVariables false

namespace C04cL
open Fggs Fggs.Sem Fggs.Pipe Fggs.Vt PipeL C02cL

variable {K : Type}

/-! ### the weight of a candidate reads a nonterminal only through its cells -/

theorem mem_ntEdgesOf (G : Grammar K) (r : Rule) (e : Nat × List Nat) (he : e ∈ r.edges) (hT : ¬ e.1 < G.T) :
    e.1 - G.T ∈ ntEdgesOf G r := by
  unfold ntEdgesOf
  exact List.mem_map.2 ⟨e, List.mem_filter.2 ⟨he, by simpa using hT⟩, rfl⟩

theorem candWeight_congr (S : SR K) (G : Grammar K) (v v' : Val K) (r : Rule)
    (h : ∀ Y ∈ ntEdgesOf G r, cellsOf S G v Y = cellsOf S G v' Y) (extVals ptr : List Nat) :
    candWeight S G v r extVals ptr = candWeight S G v' r extVals ptr := by
  unfold candWeight localWeight
  have : r.edges.map (fun e => edgeWeight S G v e.1 (e.2.map (fun w => (assemble r extVals ptr)[w]?.getD 0))) =
      r.edges.map (fun e => edgeWeight S G v' e.1 (e.2.map (fun w => (assemble r extVals ptr)[w]?.getD 0))) := by
    apply List.map_congr_left
    intro e he
    by_cases hT : e.1 < G.T
    · simp [edgeWeight, hT]
    · rw [edgeWeight_nt_cells S G v _ _ hT, edgeWeight_nt_cells S G v' _ _ hT, h _ (mem_ntEdgesOf G r e he hT)]
  rw [this]

/-! ### a product with a zero factor, when zero annihilates -/

theorem foldl_mul_zero (S : SR K) (hzl : ∀ a, S.mul S.zero a = S.zero) (l : List K) :
    l.foldl S.mul S.zero = S.zero := by
  induction l with
  | nil => rfl
  | cons a l ih => rw [List.foldl_cons, hzl, ih]

theorem foldl_mul_of_zero_mem (S : SR K) (hzl : ∀ a, S.mul S.zero a = S.zero) (hzr : ∀ a, S.mul a S.zero = S.zero)
    (l : List K) (h : S.zero ∈ l) (acc : K) : l.foldl S.mul acc = S.zero := by
  induction l generalizing acc with
  | nil => simp at h
  | cons a l ih =>
    rw [List.foldl_cons]
    rcases List.mem_cons.1 h with h | h
    · rw [← h, hzr, foldl_mul_zero S hzl]
    · exact ih h _

/-- a rule with a nonterminal edge whose cells are all zero weighs zero at every assignment -/
theorem candWeight_zero (S : SR K) (hzl : ∀ a, S.mul S.zero a = S.zero) (hzr : ∀ a, S.mul a S.zero = S.zero)
    (G : Grammar K) (v : Val K) (r : Rule) (e : Nat × List Nat) (he : e ∈ r.edges) (hT : ¬ e.1 < G.T)
    (hz : cellsOf S G v (e.1 - G.T) = List.replicate (numel (G.shapeOf (G.nts[e.1 - G.T]?.getD []))) S.zero)
    (extVals ptr : List Nat) : candWeight S G v r extVals ptr = S.zero := by
  unfold candWeight
  split
  · unfold localWeight SR.prod
    apply foldl_mul_of_zero_mem S hzl hzr
    apply List.mem_map.2
    refine ⟨e, he, ?_⟩
    rw [edgeWeight_nt_cells S G v _ _ hT, hz]
    unfold getT
    rw [List.getElem?_replicate]
    split <;> rfl
  · rfl

/-! ### component order (copies of private lemmas of C02c) -/

theorem comp_lt (G : Grammar K) (hG : GrammarWF G) (c : List Nat) (hc : c ∈ sccOrder G) (X : Nat)
    (hX : X ∈ c) : X < G.nts.length := by
  have := (sccOrder_ok G hG).only c hc X hX
  rw [verts_ntGraph] at this
  simpa using this

theorem earlier_not_mem (G : Grammar K) (hG : GrammarWF G) (pre rest : List (List Nat)) (comp : List Nat)
    (hcs : sccOrder G = pre ++ comp :: rest) (c : List Nat) (hc : c ∈ pre) (X : Nat) (hX : X ∈ c)
    (r : Rule) (hr : r ∈ G.rulesOf X) (Y : Nat) (hY : Y ∈ ntEdgesOf G r) : Y ∉ comp := by
  have hok := sccOrder_ok G hG
  have hXn : X < G.nts.length := comp_lt G hG c (by rw [hcs]; simp [hc]) X hX
  have hs : Y ∈ Scc.succs (ntGraph G) X := (succs_ntGraph G X Y hXn).mpr ⟨r, hr, hY⟩
  rw [hcs] at hok
  obtain ⟨i, hi, rfl⟩ := List.getElem_of_mem hc
  have h1 : i < (pre ++ comp :: rest).length := by simp; omega
  have h2 : pre.length < (pre ++ comp :: rest).length := by simp
  have := hok.order i pre.length h1 h2 hi X (by rw [List.getElem_append_left hi]; exact hX) Y hs
  simpa using this

theorem earlier_disjoint (G : Grammar K) (hG : GrammarWF G) (pre rest : List (List Nat)) (comp : List Nat)
    (hcs : sccOrder G = pre ++ comp :: rest) (c : List Nat) (hc : c ∈ pre) (X : Nat) (hX : X ∈ c) : X ∉ comp := by
  intro hXc
  have hok := sccOrder_ok G hG
  rw [hcs] at hok
  obtain ⟨i, hi, rfl⟩ := List.getElem_of_mem hc
  have h1 : i < (pre ++ comp :: rest).length := by simp; omega
  have h2 : pre.length < (pre ++ comp :: rest).length := by simp
  have := hok.disjoint i pre.length h1 h2 X (by rw [List.getElem_append_left hi]; exact hX) (by simpa using hXc)
  omega

/-! ### one application to a component -/

theorem lookup_map_key {β : Type} (f : Nat → β) (comp : List Nat) (X : Nat) :
    (comp.map (fun Y => (Y, f Y))).lookup X = if X ∈ comp then some (f X) else none := by
  induction comp with
  | nil => simp
  | cons Y comp ih =>
    rw [List.map_cons, List.lookup_cons]
    by_cases h : X = Y
    · subst h; simp
    · have : (X == Y) = false := by simpa using h
      rw [this, ih]
      simp [h]

theorem lookup_fViterbi (S : SR K) (gt : K → K → Bool) (G : Grammar K) (maximum : Val K) (comp : List Nat)
    (y : Val K) (X : Nat) :
    (fViterbi S gt G maximum comp y).lookup X =
      if X ∈ comp then
        some { fViterbiNt S gt G (overlay G.nts.length maximum y comp) X with
                readVal := overlay G.nts.length maximum y comp }
      else none := by
  unfold fViterbi
  exact lookup_map_key _ comp X

theorem ent_valuesOf (G : Grammar K) (comp : List Nat) (ts : List (Nat × NtTables K)) (X : Nat) :
    (valuesOf G comp ts)[X]?.join =
      if X < G.nts.length then (if comp.contains X then (ts.lookup X).bind (·.value) else none) else none := by
  unfold valuesOf
  by_cases hX : X < G.nts.length
  · rw [List.getElem?_map, List.getElem?_range hX]
    simp only [hX, if_true, Option.map_some]
    split <;> simp
  · simp only [hX, if_false]
    rw [List.getElem?_eq_none (by simp; omega)]; rfl

/-! ### the fixed-point loop -/

theorem vitLoop_zero [BEq K] (S : SR K) (gt : K → K → Bool) (G : Grammar K) (maximum : Val K) (comp : List Nat)
    (y : Val K) (last : List (Nat × NtTables K)) :
    vitLoop S gt G maximum comp 0 y last = (last, false) := rfl

theorem vitLoop_succ [BEq K] (S : SR K) (gt : K → K → Bool) (G : Grammar K) (maximum : Val K) (comp : List Nat)
    (fuel : Nat) (y : Val K) (last : List (Nat × NtTables K)) :
    vitLoop S gt G maximum comp (fuel+1) y last =
      if valEqOn S G comp y (valuesOf G comp (fViterbi S gt G maximum comp y)) then
        (fViterbi S gt G maximum comp y, true)
      else vitLoop S gt G maximum comp fuel (valuesOf G comp (fViterbi S gt G maximum comp y))
        (fViterbi S gt G maximum comp y) := rfl

/-- when the loop reports convergence, the tables are those of an application to a valuation that the application
reproduces -/
theorem vitLoop_conv [BEq K] (S : SR K) (gt : K → K → Bool) (G : Grammar K) (maximum : Val K) (comp : List Nat)
    (fuel : Nat) : ∀ (y : Val K) (last : List (Nat × NtTables K)),
    (vitLoop S gt G maximum comp fuel y last).2 = true →
    ∃ y', (vitLoop S gt G maximum comp fuel y last).1 = fViterbi S gt G maximum comp y' ∧
      valEqOn S G comp y' (valuesOf G comp (fViterbi S gt G maximum comp y')) = true := by
  induction fuel with
  | zero => intro y last h; rw [vitLoop_zero] at h; simp at h
  | succ fuel ih =>
    intro y last h
    rw [vitLoop_succ] at h ⊢
    split
    · rename_i hc
      exact ⟨y, rfl, hc⟩
    · rename_i hc
      simp only [hc] at h
      exact ih _ _ h

/-- the tables the loop returns are those of some application, or the initial ones when no application was made -/
theorem vitLoop_tables [BEq K] (S : SR K) (gt : K → K → Bool) (G : Grammar K) (maximum : Val K) (comp : List Nat)
    (fuel : Nat) : ∀ (y : Val K) (last : List (Nat × NtTables K)),
    ((vitLoop S gt G maximum comp fuel y last).1 = last ∧ fuel = 0) ∨
    ∃ y', (vitLoop S gt G maximum comp fuel y last).1 = fViterbi S gt G maximum comp y' := by
  induction fuel with
  | zero => intro y last; left; exact ⟨rfl, rfl⟩
  | succ fuel ih =>
    intro y last
    right
    rw [vitLoop_succ]
    split
    · exact ⟨y, rfl⟩
    · rcases ih (valuesOf G comp (fViterbi S gt G maximum comp y)) (fViterbi S gt G maximum comp y) with h | h
      · exact ⟨y, h.1⟩
      · exact h

/-! ### one component -/

/-- the tables and the convergence flag of one component -/
def compRun [BEq K] (S : SR K) (gt : K → K → Bool) (G : Grammar K) (kmax : Nat) (maximum : Val K) (comp : List Nat) :
    List (Nat × NtTables K) × Bool :=
  if isTrivial G comp then (fViterbi S gt G maximum comp (List.replicate G.nts.length none), true)
  else vitLoop S gt G maximum comp kmax (List.replicate G.nts.length none) []

theorem vitComp_eq [BEq K] (S : SR K) (gt : K → K → Bool) (G : Grammar K) (kmax : Nat) (st : VState K)
    (comp : List Nat) :
    vitComp S gt G kmax st comp =
      { maximum := overlay G.nts.length st.maximum (valuesOf G comp (compRun S gt G kmax st.maximum comp).1) comp,
        tables := (compRun S gt G kmax st.maximum comp).1 ++ st.tables,
        converged := st.converged && (compRun S gt G kmax st.maximum comp).2 } := by
  unfold vitComp compRun
  split <;> rfl

theorem compRun_tables [BEq K] (S : SR K) (gt : K → K → Bool) (G : Grammar K) (kmax : Nat) (maximum : Val K)
    (comp : List Nat) :
    ((compRun S gt G kmax maximum comp).1 = [] ∧ kmax = 0) ∨
    ∃ y, (compRun S gt G kmax maximum comp).1 = fViterbi S gt G maximum comp y := by
  unfold compRun
  split
  · right; exact ⟨_, rfl⟩
  · exact vitLoop_tables S gt G maximum comp kmax _ _

/-- the tables of a component have keys in the component only -/
theorem compRun_lookup_out [BEq K] (S : SR K) (gt : K → K → Bool) (G : Grammar K) (kmax : Nat) (maximum : Val K)
    (comp : List Nat) (X : Nat) (hX : X ∉ comp) :
    (compRun S gt G kmax maximum comp).1.lookup X = none := by
  rcases compRun_tables S gt G kmax maximum comp with h | ⟨y, h⟩
  · rw [h.1]; rfl
  · rw [h, lookup_fViterbi]; simp [hX]

theorem isTrivial_spec (G : Grammar K) (comp : List Nat) (h : isTrivial G comp = true) :
    ∃ X, comp = [X] ∧ ∀ r ∈ G.rulesOf X, X ∉ ntEdgesOf G r := by
  unfold isTrivial at h
  split at h
  · rename_i X
    refine ⟨X, rfl, ?_⟩
    intro r hr hmem
    unfold ntEdgesOf at hmem
    obtain ⟨e, he, heq⟩ := List.mem_map.1 hmem
    have hf := List.mem_filter.1 he
    have hge : e.1 ≥ G.T := by simpa using hf.2
    simp only [Bool.not_eq_true', List.any_eq_false, Bool.not_eq_true] at h
    have := h r hr e hf.1
    simp only [beq_eq_false_iff_ne, ne_eq] at this
    omega
  · simp at h

/-- at convergence: the tables are those of an application to `y`, and on the component the application reproduces
`y` cell by cell — or the component is a single nonterminal that none of its rules mentions -/
theorem compRun_conv [BEq K] [LawfulBEq K] (S : SR K) (gt : K → K → Bool) (G : Grammar K) (kmax : Nat)
    (maximum : Val K) (comp : List Nat) (h : (compRun S gt G kmax maximum comp).2 = true) :
    ∃ y, (compRun S gt G kmax maximum comp).1 = fViterbi S gt G maximum comp y ∧
      ((∀ X ∈ comp, cellsOf S G y X = cellsOf S G (valuesOf G comp (fViterbi S gt G maximum comp y)) X) ∨
       (∃ X, comp = [X] ∧ ∀ r ∈ G.rulesOf X, X ∉ ntEdgesOf G r)) := by
  unfold compRun at h ⊢
  split
  · rename_i ht
    exact ⟨_, rfl, Or.inr (isTrivial_spec G comp ht)⟩
  · rename_i ht
    simp only [ht] at h
    obtain ⟨y, h1, h2⟩ := vitLoop_conv S gt G maximum comp kmax _ _ h
    exact ⟨y, h1, Or.inl (valEqOn_eq (fun a b hab => eq_of_beq hab) S G comp _ _ h2)⟩

/-! ### the invariants of the driver loop -/

/-- the tables `nt` of nonterminal `X` are those of one application of `F_viterbi`, to the valuation `nt.readVal`;
`v` holds its value and agrees with `nt.readVal`, cell by cell, on the nonterminals that the rules of `X` mention -/
structure Good (S : SR K) (gt : K → K → Bool) (G : Grammar K) (v : Val K) (X : Nat) (nt : NtTables K) : Prop where
  value : nt.value = (fViterbiNt S gt G nt.readVal X).value
  lhs : nt.lhs = (fViterbiNt S gt G nt.readVal X).lhs
  rhs : nt.rhs = (fViterbiNt S gt G nt.readVal X).rhs
  ent : v[X]?.join = nt.value
  cells : ∀ r ∈ G.rulesOf X, ∀ Y ∈ ntEdgesOf G r, cellsOf S G v Y = cellsOf S G nt.readVal Y

theorem vitComp_converged [BEq K] (S : SR K) (gt : K → K → Bool) (G : Grammar K) (kmax : Nat) (st : VState K)
    (comp : List Nat) (h : (vitComp S gt G kmax st comp).converged = true) :
    st.converged = true ∧ (compRun S gt G kmax st.maximum comp).2 = true := by
  rw [vitComp_eq] at h
  simpa using h

theorem foldl_vitComp_converged [BEq K] (S : SR K) (gt : K → K → Bool) (G : Grammar K) (kmax : Nat)
    (l : List (List Nat)) (st : VState K) (h : (l.foldl (vitComp S gt G kmax) st).converged = true) :
    st.converged = true := by
  induction l generalizing st with
  | nil => simpa using h
  | cons c l ih =>
    rw [List.foldl_cons] at h
    exact (vitComp_converged S gt G kmax st c (ih _ h)).1

/-- the step of the `Good` invariant -/
theorem good_step [BEq K] [LawfulBEq K] (S : SR K) (gt : K → K → Bool) (G : Grammar K) (hG : GrammarWF G)
    (kmax : Nat) (pre rest : List (List Nat)) (comp : List Nat) (hcs : sccOrder G = pre ++ comp :: rest)
    (st : VState K)
    (hI : ∀ c ∈ pre, ∀ X ∈ c, ∃ nt, st.tables.lookup X = some nt ∧ Good S gt G st.maximum X nt)
    (hconv : (compRun S gt G kmax st.maximum comp).2 = true) :
    ∀ c ∈ pre ++ [comp], ∀ X ∈ c, ∃ nt, (vitComp S gt G kmax st comp).tables.lookup X = some nt ∧
      Good S gt G (vitComp S gt G kmax st comp).maximum X nt := by
  have hcompmem : comp ∈ sccOrder G := by rw [hcs]; simp
  have hcomp : ∀ X ∈ comp, X < G.nts.length := fun X hX => comp_lt G hG comp hcompmem X hX
  intro c hc X hX
  rw [vitComp_eq]
  simp only
  rcases List.mem_append.1 hc with hc | hc
  · -- an earlier component
    have hXc : X ∉ comp := earlier_disjoint G hG pre rest comp hcs c hc X hX
    have hXn : X < G.nts.length := comp_lt G hG c (by rw [hcs]; simp [hc]) X hX
    obtain ⟨nt, hnt, hg⟩ := hI c hc X hX
    refine ⟨nt, ?_, hg.value, hg.lhs, hg.rhs, ?_, ?_⟩
    · rw [List.lookup_append, compRun_lookup_out S gt G kmax st.maximum comp X hXc, hnt]; rfl
    · rw [ent_overlay, ← hg.ent]; simp [hXn, hXc]
    · intro r hr Y hY
      have hYc : Y ∉ comp := earlier_not_mem G hG pre rest comp hcs c hc X hX r hr Y hY
      have hYn : Y < G.nts.length := ntEdgesOf_lt G hG r (List.mem_filter.1 hr).1 Y hY
      rw [← hg.cells r hr Y hY]
      apply cellsOf_congr
      rw [ent_overlay]; simp [hYn, hYc]
  · -- the component itself
    simp only [List.mem_singleton] at hc
    subst hc
    have hXn : X < G.nts.length := hcomp X hX
    obtain ⟨y, hts, hy⟩ := compRun_conv S gt G kmax st.maximum c hconv
    rw [hts]
    have hlk : (fViterbi S gt G st.maximum c y).lookup X =
        some { fViterbiNt S gt G (overlay G.nts.length st.maximum y c) X with
                readVal := overlay G.nts.length st.maximum y c } := by
      rw [lookup_fViterbi]; simp [hX]
    refine ⟨{ fViterbiNt S gt G (overlay G.nts.length st.maximum y c) X with
                readVal := overlay G.nts.length st.maximum y c }, ?_, ⟨rfl, rfl, rfl, ?_, ?_⟩⟩
    · rw [List.lookup_append, hlk]; rfl
    · rw [ent_overlay, ent_valuesOf, hlk]; simp [hXn, hX]
    · intro r hr Y hY
      have hYn : Y < G.nts.length := ntEdgesOf_lt G hG r (List.mem_filter.1 hr).1 Y hY
      show cellsOf S G (overlay G.nts.length st.maximum (valuesOf G c (fViterbi S gt G st.maximum c y)) c) Y =
        cellsOf S G (overlay G.nts.length st.maximum y c) Y
      by_cases hYc : Y ∈ c
      · rw [cellsOf_overlay_in S G _ _ c Y hYn hYc, cellsOf_overlay_in S G _ _ c Y hYn hYc]
        rcases hy with hy | ⟨X', hX', hno⟩
        · exact (hy Y hYc).symm
        · subst hX'
          simp only [List.mem_singleton] at hX hYc
          subst hX; subst hYc
          exact absurd hY (hno r hr)
      · apply cellsOf_congr
        rw [ent_overlay, ent_overlay]; simp [hYn, hYc]

theorem good_fold [BEq K] [LawfulBEq K] (S : SR K) (gt : K → K → Bool) (G : Grammar K) (hG : GrammarWF G)
    (kmax : Nat) (rest : List (List Nat)) :
    ∀ (pre : List (List Nat)) (st : VState K), sccOrder G = pre ++ rest →
      (∀ c ∈ pre, ∀ X ∈ c, ∃ nt, st.tables.lookup X = some nt ∧ Good S gt G st.maximum X nt) →
      (rest.foldl (vitComp S gt G kmax) st).converged = true →
      ∀ c ∈ pre ++ rest, ∀ X ∈ c, ∃ nt, (rest.foldl (vitComp S gt G kmax) st).tables.lookup X = some nt ∧
        Good S gt G (rest.foldl (vitComp S gt G kmax) st).maximum X nt := by
  induction rest with
  | nil => intro pre st _ hI _; simpa using hI
  | cons comp rest ih =>
    intro pre st hcs hI hw
    rw [List.foldl_cons] at hw ⊢
    have hw' := foldl_vitComp_converged S gt G kmax rest _ hw
    have hw'' := vitComp_converged S gt G kmax st comp hw'
    have := ih (pre ++ [comp]) (vitComp S gt G kmax st comp) (by rw [hcs]; simp)
      (good_step S gt G hG kmax pre rest comp hcs st hI hw''.2) hw
    simpa using this

/-- **at convergence every nonterminal has tables, they are those of one application of `F_viterbi`, and the final
`maximum` agrees with the valuation that application read on everything the nonterminal's rules mention** -/
theorem viterbiTables_good [BEq K] [LawfulBEq K] (S : SR K) (gt : K → K → Bool) (G : Grammar K) (hG : GrammarWF G)
    (kmax : Nat) (hconv : (viterbiTables S gt G kmax).converged = true) (X : Nat) (hX : X < G.nts.length) :
    ∃ nt, tablesOf (viterbiTables S gt G kmax) X = some nt ∧
      Good S gt G (viterbiTables S gt G kmax).maximum X nt := by
  unfold viterbiTables at hconv ⊢
  have hI := good_fold S gt G hG kmax (sccOrder G) [] _ (by simp) (by intro c hc; simp at hc) hconv
  obtain ⟨c, hc, hXc⟩ := (sccOrder_ok G hG).cover X (by rw [verts_ntGraph]; simpa using hX)
  exact hI c (by simpa using hc) X hXc

/-! ### totality -/

theorem total_step [BEq K] (S : SR K) (gt : K → K → Bool) (G : Grammar K) (kmax : Nat) (hk : 0 < kmax)
    (pre : List (List Nat)) (comp : List Nat) (st : VState K)
    (hI : ∀ c ∈ pre, ∀ X ∈ c, (st.tables.lookup X).isSome = true) :
    ∀ c ∈ pre ++ [comp], ∀ X ∈ c, ((vitComp S gt G kmax st comp).tables.lookup X).isSome = true := by
  intro c hc X hX
  rw [vitComp_eq]
  simp only
  rw [List.lookup_append]
  rcases List.mem_append.1 hc with hc | hc
  · have := hI c hc X hX
    cases h : List.lookup X (compRun S gt G kmax st.maximum comp).1 with
    | none => simpa using this
    | some a => simp
  · simp only [List.mem_singleton] at hc
    subst hc
    rcases compRun_tables S gt G kmax st.maximum c with h | ⟨y, h⟩
    · omega
    · rw [h, lookup_fViterbi]; simp [hX]

theorem total_fold [BEq K] (S : SR K) (gt : K → K → Bool) (G : Grammar K) (kmax : Nat) (hk : 0 < kmax)
    (rest : List (List Nat)) :
    ∀ (pre : List (List Nat)) (st : VState K),
      (∀ c ∈ pre, ∀ X ∈ c, (st.tables.lookup X).isSome = true) →
      ∀ c ∈ pre ++ rest, ∀ X ∈ c, ((rest.foldl (vitComp S gt G kmax) st).tables.lookup X).isSome = true := by
  induction rest with
  | nil => intro pre st hI; simpa using hI
  | cons comp rest ih =>
    intro pre st hI
    rw [List.foldl_cons]
    have := ih (pre ++ [comp]) (vitComp S gt G kmax st comp) (total_step S gt G kmax hk pre comp st hI)
    simpa using this

/-- with at least one iteration allowed, every nonterminal is given tables -/
theorem viterbiTables_total [BEq K] (S : SR K) (gt : K → K → Bool) (G : Grammar K) (hG : GrammarWF G)
    (kmax : Nat) (hk : 0 < kmax) (X : Nat) (hX : X < G.nts.length) :
    (tablesOf (viterbiTables S gt G kmax) X).isSome = true := by
  unfold viterbiTables tablesOf
  have hI := total_fold S gt G kmax hk (sccOrder G) []
    { maximum := zeroVal G, tables := [], converged := true } (by intro c hc; simp at hc)
  obtain ⟨c, hc, hXc⟩ := (sccOrder_ok G hG).cover X (by rw [verts_ntGraph]; simpa using hX)
  exact hI c (by simpa using hc) X hXc

end C04cL
