/-
C07bMainLemmas — the patterned einsum (`Ei.einsum`) after a successful first pass: the components of the model as
separate definitions, the correspondence between the assignments of the free physical axes and the joint
assignments of the index variables at which every operand is backed, and the resulting description of the dense
tensor of the un-normalised result.
-/
import FggsProofs.C07bStateLemmas

set_option linter.unusedSimpArgs false
set_option linter.unusedVariables false
set_option linter.unusedSectionVars false

namespace C07bL
open Fggs Fggs.Ax Fggs.Un Fggs.Ei Fggs.Sem C06b C06dL

/-! ### the components of the model -/

/-- the table entry of an index variable -/
def tblAx (tbl : List (Nat × Axis)) (v : Nat) : Axis := (tbl.lookup v).getD unitAxis

/-- the substituted virtual axes of the output indices -/
def outVaxesOf (j : EJob) (tbl : List (Nat × Axis)) (σ : Subst) : List Axis :=
  j.out.map (fun i => clone σ FUEL (tblAx tbl i))

def allAxesOf (j : EJob) (σ : Subst) : List (Nat × Nat) :=
  ((j.ops.map (fun p => viewAxes σ p.1)).flatten).eraseDups

def outAxesOf (j : EJob) (tbl : List (Nat × Axis)) (σ : Subst) : List (Nat × Nat) :=
  ((outVaxesOf j tbl σ).flatMap Axis.fv).eraseDups

def innerOf (j : EJob) (tbl : List (Nat × Axis)) (σ : Subst) : List (Nat × Nat) :=
  (allAxesOf j σ).filter (fun k => !(outAxesOf j tbl σ).contains k)

/-- the product of the re-indexed operands under an assignment of the free axes -/
def viewProd (S : SR Ext) (j : EJob) (σ : Subst) (ρ : Nat → Nat) : Ext :=
  S.prod (j.ops.map (fun p => viewAt S σ p.1 ρ))

def physOf (S : SR Ext) (j : EJob) (tbl : List (Nat × Axis)) (σ : Subst) : List Ext :=
  (Ax.assigns ((outAxesOf j tbl σ).map (fun k => k.2))).map (fun a =>
    S.sum ((Ax.assigns ((innerOf j tbl σ).map (fun k => k.2))).map (fun b =>
      viewProd S j σ (envOf (outAxesOf j tbl σ ++ innerOf j tbl σ) (a ++ b)))))

/-- the result before the constructor's normalisation -/
def rawOf (S : SR Ext) (j : EJob) (tbl : List (Nat × Axis)) (σ : Subst) : PT :=
  { physical := physOf S j tbl σ, paxes := outAxesOf j tbl σ, vaxes := outVaxesOf j tbl σ, default := S.zero }

theorem einsum_eq (S : SR Ext) (fuel : Nat) (j : EJob) (next : Nat) (tbl : List (Nat × Axis)) (st : St)
    (hne : j.ops ≠ []) (hc : collect fuel j next = (tbl, true, st))
    (hz : (allAxesOf j st.subst).any (fun k => k.2 == 0) = false) :
    einsum S fuel j next = Bn.normalize (rawOf S j tbl st.subst) := by
  have he : j.ops.isEmpty = false := by
    cases h : j.ops with
    | nil => exact absurd h hne
    | cons _ _ => rfl
  unfold einsum
  rw [he, hc]
  simp only [Bool.false_eq_true, if_false, Bool.not_true]
  have hz' : ((List.map (fun p => viewAxes st.subst p.1) j.ops).flatten.eraseDups.any fun k => k.2 == 0) = false := hz
  rw [hz']
  rfl

theorem einsum_eq_fail (S : SR Ext) (fuel : Nat) (j : EJob) (next : Nat) (tbl : List (Nat × Axis)) (st : St)
    (hne : j.ops ≠ []) (hc : collect fuel j next = (tbl, false, st)) :
    einsum S fuel j next = zeroResult S (outVaxesOf j tbl st.subst) := by
  have he : j.ops.isEmpty = false := by
    cases h : j.ops with
    | nil => exact absurd h hne
    | cons _ _ => rfl
  unfold einsum
  rw [he, hc]
  rfl

/-! ### the hypothesis that `FUEL` resolves every clone -/

/-- no variable is bound twice, `FUEL - 1` units of fuel resolve every binding, and `FUEL` units resolve the table
entries of the output indices -/
structure ResolvedAt (σ : Subst) (tbl : List (Nat × Axis)) (out : List Nat) : Prop where
  nodup : (σ.map (·.1)).Nodup
  good : GoodS σ 3999
  outGood : ∀ v ∈ out, Good σ FUEL (tblAx tbl v)

section ctx
variable {S : SR Ext} {j : EJob} {next : Nat} {tbl : List (Nat × Axis)} {st : St} {sz : Nat → Nat}
  (J : JobHyp S j next) (F : Facts j next tbl st sz) (R : ResolvedAt st.subst tbl j.out)

include J F in
theorem pax_tp {p : PT × List Nat} (hp : p ∈ j.ops) {k : Nat × Nat} (hk : k ∈ p.1.paxes) : Tp sz st.next k :=
  ⟨Nat.lt_of_lt_of_le (J.fresh p hp k hk) F.le, F.szpax p hp k hk, J.pos p hp k hk⟩

include J F in
theorem pax_numelOk {p : PT × List Nat} (hp : p ∈ j.ops) {k : Nat × Nat} (hk : k ∈ p.1.paxes) :
    NumelOk st.subst (.phys k.1 k.2) := by
  apply F.sized.numelOk
  intro q hq
  simp only [Axis.fv, List.mem_singleton] at hq
  rw [hq]; exact pax_tp J F hp hk

include J F in
theorem occ_tp {e : Axis} {v : Nat} (h : (e, v) ∈ occs j) : AxQ (Tp sz) st.next e := by
  obtain ⟨p, hp, i, h1, _⟩ := mem_occs.1 h
  intro q hq
  exact pax_tp J F hp ((struct_of J hp).fvsub e (List.mem_of_getElem? h1) q hq)

include J F in
theorem occ_numelOk {e : Axis} {v : Nat} (h : (e, v) ∈ occs j) : NumelOk st.subst e :=
  F.sized.numelOk (occ_tp J F h)

include J F in
theorem occ_pax {e : Axis} {v : Nat} (h : (e, v) ∈ occs j) : ∃ p ∈ j.ops, ∀ q ∈ e.fv, q ∈ p.1.paxes := by
  obtain ⟨p, hp, i, h1, _⟩ := mem_occs.1 h
  exact ⟨p, hp, (struct_of J hp).fvsub e (List.mem_of_getElem? h1)⟩

include R in
theorem pax_good (k : Nat × Nat) : Good st.subst FUEL (.phys k.1 k.2) := by
  rw [FUEL_eq]
  cases hb : bound st.subst k.1 with
  | none =>
    unfold Good
    rw [clone_phys_none hb]
    intro q hq
    simp only [Axis.fv, List.mem_singleton] at hq
    rw [hq]; exact hb
  | some a => exact (good_phys_some hb 3999 k.2).2 (R.good _ (bound_mem hb))

/-- the free axes of a clone of a typed axis are typed -/
theorem clone_fv_tp (hs : SizedSt sz st) {n : Nat} {e : Axis} (he : AxQ (Tp sz) st.next e) {q : Nat × Nat}
    (hq : q ∈ (clone st.subst n e).fv) : Tp sz st.next q := by
  rcases clone_fv_sub st.subst n e q hq with h | ⟨p, hp, h⟩
  · exact he q h
  · exact (hs.1 p hp).2 q h

theorem clone_fv_n1 (hn : StQ N1 st) {n : Nat} {e : Axis} (he : ∀ q ∈ e.fv, q.2 ≠ 1) {q : Nat × Nat}
    (hq : q ∈ (clone st.subst n e).fv) : q.2 ≠ 1 := by
  rcases clone_fv_sub st.subst n e q hq with h | ⟨p, hp, h⟩
  · exact he q h
  · exact (hn p hp).2 q h

theorem mem_allAxes {σ : Subst} {q : Nat × Nat} :
    q ∈ allAxesOf j σ ↔ ∃ p ∈ j.ops, ∃ k ∈ p.1.paxes, q ∈ (clone σ FUEL (.phys k.1 k.2)).fv := by
  unfold allAxesOf viewAxes
  rw [List.mem_eraseDups, List.mem_flatten]
  constructor
  · rintro ⟨l, hl, hq⟩
    obtain ⟨p, hp, rfl⟩ := List.mem_map.1 hl
    rw [List.mem_eraseDups, List.mem_flatMap] at hq
    obtain ⟨k, hk, hq⟩ := hq
    exact ⟨p, hp, k, hk, hq⟩
  · rintro ⟨p, hp, k, hk, hq⟩
    refine ⟨_, List.mem_map_of_mem hp, ?_⟩
    rw [List.mem_eraseDups, List.mem_flatMap]
    exact ⟨k, hk, hq⟩

include J F R in
theorem allAxes_props {q : Nat × Nat} (hq : q ∈ allAxesOf j st.subst) :
    bound st.subst q.1 = none ∧ Tp sz st.next q ∧ q.2 ≠ 1 := by
  obtain ⟨p, hp, k, hk, hq⟩ := mem_allAxes.1 hq
  refine ⟨pax_good R k q hq, clone_fv_tp F.sized ?_ hq, clone_fv_n1 F.no1 ?_ hq⟩
  · intro q' hq'
    simp only [Axis.fv, List.mem_singleton] at hq'
    rw [hq']; exact pax_tp J F hp hk
  · intro q' hq'
    simp only [Axis.fv, List.mem_singleton] at hq'
    rw [hq']; exact (struct_of J hp).no1 k hk

include J F in
/-- every output index has a table entry, which is an occurrence -/
theorem out_entry {v : Nat} (hv : v ∈ j.out) : (tblAx tbl v, v) ∈ occs j := by
  obtain ⟨p, hp, hvp⟩ := J.out v hv
  obtain ⟨i, hi, hiv⟩ := List.getElem_of_mem hvp
  have hi' : i < p.1.vaxes.length := by rw [← J.arity p hp]; exact hi
  have hocc : (p.1.vaxes[i], v) ∈ occs j :=
    mem_occs.2 ⟨p, hp, i, List.getElem?_eq_getElem hi', by rw [List.getElem?_eq_getElem hi, hiv]⟩
  obtain ⟨e0, he0⟩ := F.tblocc _ hocc
  have := F.tblmem _ _ he0
  unfold tblAx
  simp only at he0
  rw [he0]
  exact this

theorem mem_outAxes {σ : Subst} {q : Nat × Nat} :
    q ∈ outAxesOf j tbl σ ↔ ∃ v ∈ j.out, q ∈ (clone σ FUEL (tblAx tbl v)).fv := by
  unfold outAxesOf outVaxesOf
  rw [List.mem_eraseDups, List.mem_flatMap]
  constructor
  · rintro ⟨e, he, hq⟩
    obtain ⟨v, hv, rfl⟩ := List.mem_map.1 he
    exact ⟨v, hv, hq⟩
  · rintro ⟨v, hv, hq⟩
    exact ⟨_, List.mem_map_of_mem hv, hq⟩

include J F R in
theorem outAxes_sub {q : Nat × Nat} (hq : q ∈ outAxesOf j tbl st.subst) : q ∈ allAxesOf j st.subst := by
  obtain ⟨v, hv, hq⟩ := mem_outAxes.1 hq
  have hocc := out_entry J F hv
  have := clone_fv_phys F.sized.numelOkS R.good FUEL (tblAx tbl v) (occ_numelOk J F hocc) (R.outGood v hv) q hq
  obtain ⟨k, hk, hqk⟩ := this
  obtain ⟨p, hp, hsub⟩ := occ_pax J F hocc
  exact mem_allAxes.2 ⟨p, hp, k, hsub k hk, hqk⟩

/-- the axes the physical einsum ranges over: output axes first -/
def wAxes (j : EJob) (tbl : List (Nat × Axis)) (σ : Subst) : List (Nat × Nat) := outAxesOf j tbl σ ++ innerOf j tbl σ

include J F R in
theorem mem_wAxes {q : Nat × Nat} : q ∈ wAxes j tbl st.subst ↔ q ∈ allAxesOf j st.subst := by
  unfold wAxes innerOf
  rw [List.mem_append, List.mem_filter]
  constructor
  · rintro (h | h)
    · exact outAxes_sub J F R h
    · exact h.1
  · intro h
    by_cases ho : q ∈ outAxesOf j tbl st.subst
    · exact .inl ho
    · exact .inr ⟨h, by simpa using ho⟩

include J F R in
theorem wAxes_nodup : ((wAxes j tbl st.subst).map (·.1)).Nodup := by
  have hnd : (wAxes j tbl st.subst).Nodup := by
    unfold wAxes
    rw [List.nodup_append]
    refine ⟨nodup_eraseDups _, (nodup_eraseDups _).filter _, ?_⟩
    intro a ha b hb e
    subst e
    have := (List.mem_filter.1 hb).2
    simp at this
    exact this ha
  refine List.Nodup.map_on ?_ hnd
  intro x hx y hy e
  have h1 := (allAxes_props J F R ((mem_wAxes J F R).1 hx)).2.1.2.1
  have h2 := (allAxes_props J F R ((mem_wAxes J F R).1 hy)).2.1.2.1
  rw [e] at h1
  exact Prod.ext e (by rw [← h1, ← h2])

include J F R in
theorem outAxes_nodup : ((outAxesOf j tbl st.subst).map (·.1)).Nodup := by
  have := wAxes_nodup J F R
  unfold wAxes at this
  rw [List.map_append] at this
  exact (List.nodup_append.1 this).1

end ctx

/-! ### the specification, unfolded -/

/-- the operands as the specification sees them -/
def opsOf (j : EJob) : List ((List Nat → Ext) × List Nat) :=
  j.ops.map (fun (t, ix) => ((fun idx => id (t.dense[Ax.flat t.vshape idx]?.getD t.default)), ix))

/-- the sizes the specification sums over: unused variables have size 1 -/
def maskOf (j : EJob) : List Nat :=
  (Es.Job.mk j.ops j.out).sizes.zipIdx.map (fun (n, v) =>
    if ((opsOf j).flatMap (·.2) ++ j.out).contains v then n else 1)

/-- the dense entry of an operand at a joint assignment of the index variables -/
def denseAt (p : PT × List Nat) (ι : List Nat) : Ext :=
  p.1.dense[Ax.flat p.1.vshape (p.2.map (fun v => ι[v]?.getD 0))]?.getD p.1.default

def specProd (S : SR Ext) (j : EJob) (ι : List Nat) : Ext := S.prod (j.ops.map (fun p => denseAt p ι))

theorem spec_unfold (S : SR Ext) (j : EJob) :
    (Es.Job.mk j.ops j.out).spec S id =
      (Sem.assigns (j.out.map (fun v => (Es.Job.mk j.ops j.out).sizes[v]?.getD 0))).map (fun a =>
        S.sum (((Sem.assigns (maskOf j)).filter (fun ρ => j.out.map (fun v => ρ[v]?.getD 0) == a)).map (fun ρ =>
          S.prod ((opsOf j).map (fun op => op.1 (op.2.map (fun v => ρ[v]?.getD 0))))))) := rfl

theorem specProd_eq (S : SR Ext) (j : EJob) (ι : List Nat) :
    S.prod ((opsOf j).map (fun op => op.1 (op.2.map (fun v => ι[v]?.getD 0)))) = specProd S j ι := by
  unfold opsOf specProd
  rw [List.map_map]
  rfl

theorem mem_used {j : EJob} {v : Nat} :
    v ∈ (opsOf j).flatMap (·.2) ++ j.out ↔ (∃ p ∈ j.ops, v ∈ p.2) ∨ v ∈ j.out := by
  unfold opsOf
  rw [List.mem_append, List.mem_flatMap]
  constructor
  · rintro (⟨op, hop, hv⟩ | h)
    · obtain ⟨p, hp, rfl⟩ := List.mem_map.1 hop
      exact .inl ⟨p, hp, hv⟩
    · exact .inr h
  · rintro (⟨p, hp, hv⟩ | h)
    · exact .inl ⟨_, List.mem_map_of_mem hp, hv⟩
    · exact .inr h

theorem mem_assigns_range (n : Nat) (f : Nat → Nat) (ι : List Nat) :
    ι ∈ Sem.assigns ((List.range n).map f) ↔ ι.length = n ∧ ∀ v < n, ι[v]?.getD 0 < f v := by
  rw [← assigns_eq, mem_assigns_iff, List.forall₂_iff_get]
  simp only [List.length_map, List.length_range, List.get_eq_getElem, List.getElem_map, List.getElem_range]
  constructor
  · rintro ⟨h1, h2⟩
    refine ⟨h1, fun v hv => ?_⟩
    have := h2 v (by omega) hv
    rw [List.getElem?_eq_getElem (by omega)]
    exact this
  · rintro ⟨h1, h2⟩
    refine ⟨h1, fun v hv hv' => ?_⟩
    have := h2 v hv'
    rw [List.getElem?_eq_getElem (by omega)] at this
    exact this

theorem maskOf_eq (j : EJob) :
    maskOf j = (List.range (nvars j.ops j.out)).map (fun v =>
      if v ∈ (opsOf j).flatMap (·.2) ++ j.out then sizeOf j.ops v else 1) := by
  unfold maskOf
  rw [sizes_eq]
  apply List.ext_getElem
  · simp
  · intro i h1 h2
    simp only [List.getElem_map, List.getElem_zipIdx, List.getElem_range, Nat.zero_add, List.contains_iff_mem]

section ctx2
variable {S : SR Ext} {j : EJob} {next : Nat} {tbl : List (Nat × Axis)} {st : St} {sz : Nat → Nat}
  (J : JobHyp S j next) (F : Facts j next tbl st sz) (R : ResolvedAt st.subst tbl j.out)

include J in
theorem mem_mask {ι : List Nat} :
    ι ∈ Sem.assigns (maskOf j) ↔ ι.length = nvars j.ops j.out ∧ ∀ v < nvars j.ops j.out, ι[v]?.getD 0 < sizeOf j.ops v := by
  rw [maskOf_eq, mem_assigns_range]
  have : ∀ v, (if v ∈ (opsOf j).flatMap (·.2) ++ j.out then sizeOf j.ops v else 1) = sizeOf j.ops v := by
    intro v
    split
    · rfl
    · next h =>
      rw [mem_used] at h
      symm
      apply sizeOf_unused
      intro p hp hv
      exact h (.inl ⟨p, hp, hv⟩)
  simp only [this]

/-- in range on the free axes -/
def InV (j : EJob) (σ : Subst) (ρ : Nat → Nat) : Prop := ∀ q ∈ allAxesOf j σ, ρ q.1 < q.2

include F R in
theorem lift_sat' (ρ : Nat → Nat) : Sat (lift st.subst 3999 ρ) st.subst :=
  lift_sat F.sized.numelOkS R.nodup R.good ρ

theorem lift_pax (σ : Subst) (ρ : Nat → Nat) (k : Nat × Nat) :
    lift σ 3999 ρ k.1 = (clone σ FUEL (.phys k.1 k.2)).eval ρ := lift_eq σ 3999 ρ k.1 k.2

theorem inV_inRange {ρ : Nat → Nat} (hρ : InV j st.subst ρ) {p : PT × List Nat} (hp : p ∈ j.ops) {k : Nat × Nat}
    (hk : k ∈ p.1.paxes) : InRange ρ (clone st.subst FUEL (.phys k.1 k.2)) :=
  fun q hq => hρ q (mem_allAxes.2 ⟨p, hp, k, hk, hq⟩)

include J F in
theorem lift_inRange {ρ : Nat → Nat} (hρ : InV j st.subst ρ) {p : PT × List Nat} (hp : p ∈ j.ops) :
    ∀ k ∈ p.1.paxes, lift st.subst 3999 ρ k.1 < k.2 := by
  intro k hk
  rw [lift_pax]
  have h1 := C06.eval_lt_numel _ ρ (inV_inRange hρ hp hk)
  rw [clone_numel' F.sized.numelOkS FUEL _ (pax_numelOk J F hp hk)] at h1
  exact h1

include J in
theorem viewAt_eq (ρ : Nat → Nat) {p : PT × List Nat} (hp : p ∈ j.ops) :
    viewAt S st.subst p.1 ρ =
      p.1.physical[Ax.flat (p.1.paxes.map (·.2)) (pidx p.1.paxes (lift st.subst 3999 ρ))]?.getD p.1.default := by
  unfold viewAt pidx
  rw [J.zeroDefault p hp]
  simp only
  congr 3
  apply List.map_congr_left
  intro k _
  exact (lift_pax st.subst ρ k).symm

/-- the joint assignment of the index variables determined by an assignment of the free axes -/
def iota (j : EJob) (tbl : List (Nat × Axis)) (σ : Subst) (ρ : Nat → Nat) : List Nat :=
  (List.range (nvars j.ops j.out)).map (fun v => (tblAx tbl v).eval (lift σ 3999 ρ))

theorem iota_length (σ : Subst) (ρ : Nat → Nat) : (iota j tbl σ ρ).length = nvars j.ops j.out := by
  unfold iota; simp

theorem iota_get (σ : Subst) (ρ : Nat → Nat) {v : Nat} (hv : v < nvars j.ops j.out) :
    (iota j tbl σ ρ)[v]?.getD 0 = (tblAx tbl v).eval (lift σ 3999 ρ) := by
  unfold iota
  rw [List.getElem?_map, List.getElem?_range hv]; rfl

theorem tblAx_of {v : Nat} {e0 : Axis} (h : tbl.lookup v = some e0) : tblAx tbl v = e0 := by
  unfold tblAx; rw [h]; rfl

include J F R in
/-- every operand's index tuple under the joint assignment is its virtual index under the lift -/
theorem ops_idx (ρ : Nat → Nat) {p : PT × List Nat} (hp : p ∈ j.ops) :
    p.2.map (fun v => (iota j tbl st.subst ρ)[v]?.getD 0) = p.1.vaxes.map (Axis.eval (lift st.subst 3999 ρ)) := by
  apply List.ext_getElem
  · simp [J.arity p hp]
  · intro i h1 h2
    simp only [List.length_map] at h1 h2
    rw [List.getElem_map, List.getElem_map]
    have hv : p.2[i] < nvars j.ops j.out :=
      lt_nvars (List.mem_append_left _ (List.mem_flatMap.2 ⟨p, hp, List.getElem_mem h1⟩))
    rw [iota_get _ _ hv]
    have hocc : (p.1.vaxes[i], p.2[i]) ∈ occs j :=
      mem_occs.2 ⟨p, hp, i, List.getElem?_eq_getElem h2, List.getElem?_eq_getElem h1⟩
    obtain ⟨e0, he0⟩ := F.tblocc _ hocc
    rw [tblAx_of he0]
    exact F.sound _ (lift_sat' F R ρ) _ hocc e0 he0

include J F R in
theorem out_idx (ρ : Nat → Nat) :
    j.out.map (fun v => (iota j tbl st.subst ρ)[v]?.getD 0) = (outVaxesOf j tbl st.subst).map (Axis.eval ρ) := by
  unfold outVaxesOf
  rw [List.map_map]
  apply List.map_congr_left
  intro v hv
  have hlt : v < nvars j.ops j.out := lt_nvars (List.mem_append_right _ hv)
  rw [iota_get _ _ hlt]
  exact (clone_eval_lift F.sized.numelOkS R.good ρ FUEL (tblAx tbl v) (occ_numelOk J F (out_entry J F hv))
    (R.outGood v hv)).symm

include J F R in
theorem ops_backs {ρ : Nat → Nat} (hρ : InV j st.subst ρ) {p : PT × List Nat} (hp : p ∈ j.ops) :
    Backs p.1 (p.2.map (fun v => (iota j tbl st.subst ρ)[v]?.getD 0)) (lift st.subst 3999 ρ) :=
  ⟨lift_inRange J F hρ hp, (ops_idx J F R ρ hp).symm⟩

include J F R in
/-- **the product of the dense entries at the joint assignment is the product of the views** -/
theorem specProd_iota {ρ : Nat → Nat} (hρ : InV j st.subst ρ) :
    specProd S j (iota j tbl st.subst ρ) = viewProd S j st.subst ρ := by
  unfold specProd viewProd
  congr 1
  apply List.map_congr_left
  intro p hp
  unfold denseAt
  rw [dense_backed (sem_of J hp) (ops_backs J F R hρ hp), viewAt_eq J ρ hp]
  rfl

include J F R in
/-- **the joint assignment determines the assignment of the free axes** -/
theorem iota_inj {ρ1 ρ2 : Nat → Nat} (h1 : InV j st.subst ρ1) (h2 : InV j st.subst ρ2)
    (h : iota j tbl st.subst ρ1 = iota j tbl st.subst ρ2) : ∀ q ∈ allAxesOf j st.subst, ρ1 q.1 = ρ2 q.1 := by
  intro q hq
  obtain ⟨p, hp, k, hk, hqk⟩ := mem_allAxes.1 hq
  have h4 : p.1.vaxes.map (Axis.eval (lift st.subst 3999 ρ1)) = p.1.vaxes.map (Axis.eval (lift st.subst 3999 ρ2)) := by
    rw [← ops_idx J F R ρ1 hp, ← ops_idx J F R ρ2 hp, h]
  have := (sem_of J hp).inj _ _ (lift_inRange J F h1 hp) (lift_inRange J F h2 hp) h4 k hk
  rw [lift_pax, lift_pax] at this
  exact eval_inj ρ1 ρ2 _ (inV_inRange h1 hp hk) (inV_inRange h2 hp hk) this q hqk

end ctx2

theorem ext_getD {l1 l2 : List Nat} {n : Nat} (h1 : l1.length = n) (h2 : l2.length = n)
    (h : ∀ v < n, l1[v]?.getD 0 = l2[v]?.getD 0) : l1 = l2 := by
  apply List.ext_getElem (h1.trans h2.symm)
  intro i hi1 hi2
  have := h i (h1 ▸ hi1)
  rw [List.getElem?_eq_getElem hi1, List.getElem?_eq_getElem hi2] at this
  simpa using this

section ctx3
variable {S : SR Ext} (hS : C01.SRLaws S) {j : EJob} {next : Nat} {tbl : List (Nat × Axis)} {st : St} {sz : Nat → Nat}
  (J : JobHyp S j next) (F : Facts j next tbl st sz) (R : ResolvedAt st.subst tbl j.out)

include J in
/-- the index tuple of an operand under an in-range joint assignment is in range -/
theorem idx_mem {ι : List Nat} (hι : ι ∈ Sem.assigns (maskOf j)) {p : PT × List Nat} (hp : p ∈ j.ops) :
    p.2.map (fun v => ι[v]?.getD 0) ∈ Ax.assigns p.1.vshape := by
  obtain ⟨hl, hb⟩ := (mem_mask J).1 hι
  rw [mem_assigns_iff, PT.vshape, List.forall₂_map_left_iff, List.forall₂_map_right_iff, List.forall₂_iff_get]
  refine ⟨J.arity p hp, fun i h1 h2 => ?_⟩
  simp only [List.get_eq_getElem]
  have hocc : (p.1.vaxes[i], p.2[i]) ∈ occs j :=
    mem_occs.2 ⟨p, hp, i, List.getElem?_eq_getElem h2, List.getElem?_eq_getElem h1⟩
  have hv : p.2[i] < nvars j.ops j.out :=
    lt_nvars (List.mem_append_left _ (List.mem_flatMap.2 ⟨p, hp, List.getElem_mem h1⟩))
  rw [← sizeOf_occ J hocc]
  exact hb _ hv

include hS J F R in
/-- **every joint assignment at which all operands are backed comes from an assignment of the free axes**
(most-generality of the unifications) -/
theorem iota_surj {ι : List Nat} (hι : ι ∈ Sem.assigns (maskOf j)) (hne : specProd S j ι ≠ S.zero) :
    ∃ ρ, InV j st.subst ρ ∧ iota j tbl st.subst ρ = ι := by
  classical
  obtain ⟨hl, hbd⟩ := (mem_mask J).1 hι
  -- every operand is backed
  have hb : ∀ p ∈ j.ops, ∃ ρ, Backs p.1 (p.2.map (fun v => ι[v]?.getD 0)) ρ := by
    intro p hp
    by_contra hno
    have hno' : ∀ ρ, ¬ Backs p.1 (p.2.map (fun v => ι[v]?.getD 0)) ρ := fun ρ h => hno ⟨ρ, h⟩
    apply hne
    unfold specProd
    apply prod_zero_of_mem S hS
    rw [List.mem_map]
    refine ⟨p, hp, ?_⟩
    unfold denseAt
    rw [dense_unbacked (sem_of J hp) (idx_mem J hι hp) hno']
    exact J.zeroDefault p hp
  have hex : ∀ p : PT × List Nat, ∃ ρ : Nat → Nat, p ∈ j.ops → Backs p.1 (p.2.map (fun v => ι[v]?.getD 0)) ρ := by
    intro p
    by_cases hp : p ∈ j.ops
    · obtain ⟨ρ, h⟩ := hb p hp
      exact ⟨ρ, fun _ => h⟩
    · exact ⟨fun _ => 0, fun h => absurd h hp⟩
  let Rf : PT × List Nat → Nat → Nat := fun p => Classical.choose (hex p)
  have hRf : ∀ p ∈ j.ops, Backs p.1 (p.2.map (fun v => ι[v]?.getD 0)) (Rf p) :=
    fun p hp => Classical.choose_spec (hex p) hp
  -- one assignment of all the operands' physical axes
  let ρ0 : Nat → Nat := fun v =>
    match j.ops.find? (fun p => p.1.paxes.any (fun k => k.1 == v)) with
    | some p => Rf p v
    | none => 0
  have hρ0 : ∀ p ∈ j.ops, ∀ k ∈ p.1.paxes, ρ0 k.1 = Rf p k.1 := by
    intro p hp k hk
    show (match j.ops.find? (fun p => p.1.paxes.any (fun l => l.1 == k.1)) with
      | some p => Rf p k.1 | none => 0) = _
    cases hf : j.ops.find? (fun p => p.1.paxes.any (fun l => l.1 == k.1)) with
    | none =>
      exfalso
      rw [List.find?_eq_none] at hf
      apply hf p hp
      rw [List.any_eq_true]
      exact ⟨k, hk, by simp⟩
    | some p' =>
      have hp' := List.mem_of_find?_eq_some hf
      have hany := List.find?_some hf
      rw [List.any_eq_true] at hany
      obtain ⟨l, hl, hlk⟩ := hany
      have : l.1 = k.1 := by simpa using hlk
      rw [(pax_unique J hp' hp hl hk this).1]
  have hback : ∀ p ∈ j.ops, Backs p.1 (p.2.map (fun v => ι[v]?.getD 0)) ρ0 := by
    intro p hp
    refine ⟨fun k hk => by rw [hρ0 p hp k hk]; exact (hRf p hp).1 k hk, ?_⟩
    rw [← (hRf p hp).2]
    apply List.map_congr_left
    intro e he
    apply eval_congr
    intro q hq
    exact hρ0 p hp q ((struct_of J hp).fvsub e he q hq)
  have hocc_eval : ∀ q ∈ occs j, q.1.eval ρ0 = ι[q.2]?.getD 0 := by
    rintro ⟨e, v⟩ hq
    obtain ⟨p, hp, i, h1, h2⟩ := mem_occs.1 hq
    have := congrArg (fun l => l[i]?) (hback p hp).2
    simp only [List.getElem?_map, h1, h2, Option.map_some, Option.some.injEq] at this
    exact this
  obtain ⟨ρ', hag, hs', hr'⟩ := F.mgu ρ0 (fun p hp => (hback p hp).1) (by
    intro q hq q' hq' e
    rw [hocc_eval q hq, hocc_eval q' hq', e])
  refine ⟨ρ', ?_, ?_⟩
  · intro q hq
    obtain ⟨p, hp, k, hk, hqk⟩ := mem_allAxes.1 hq
    rcases clone_fv_sub st.subst FUEL _ q hqk with h | ⟨b, hb', h⟩
    · simp only [Axis.fv, List.mem_singleton] at h
      rw [h, hag k.1 (J.fresh p hp k hk)]
      exact (hback p hp).1 k hk
    · exact hr' b hb' q h
  · have hlift : lift st.subst 3999 ρ' = ρ' := funext (lift_of_sat F.sized.numelOkS hs' 3999)
    apply ext_getD (iota_length _ _) hl
    intro v hv
    rw [iota_get _ _ hv, hlift]
    by_cases hused : ∃ p ∈ j.ops, v ∈ p.2
    · obtain ⟨p, hp, hvp⟩ := hused
      obtain ⟨i, hi, hiv⟩ := List.getElem_of_mem hvp
      have hi' : i < p.1.vaxes.length := by rw [← J.arity p hp]; exact hi
      have hocc : (p.1.vaxes[i], v) ∈ occs j :=
        mem_occs.2 ⟨p, hp, i, List.getElem?_eq_getElem hi', by rw [List.getElem?_eq_getElem hi, hiv]⟩
      obtain ⟨e0, he0⟩ := F.tblocc _ hocc
      have hocc0 := F.tblmem _ _ he0
      rw [tblAx_of he0, hag.eval (fun q hq => (occ_typed J hocc0 q hq).1)]
      exact hocc_eval _ hocc0
    · have hnone : tbl.lookup v = none := by
        cases hl' : tbl.lookup v with
        | none => rfl
        | some e0 =>
          exfalso
          obtain ⟨p, hp, i, _, h2⟩ := mem_occs.1 (F.tblmem _ _ hl')
          exact hused ⟨p, hp, List.mem_of_getElem? h2⟩
      have h1 : sizeOf j.ops v = 1 := sizeOf_unused (fun p hp hv' => hused ⟨p, hp, hv'⟩)
      have h2 := hbd v hv
      unfold tblAx
      rw [hnone, h1] at *
      simp only [Option.getD_none, unitAxis_eval]
      omega

end ctx3

section ctx4
variable {S : SR Ext} (hS : C01.SRLaws S) {j : EJob} {next : Nat} {tbl : List (Nat × Axis)} {st : St} {sz : Nat → Nat}
  (J : JobHyp S j next) (F : Facts j next tbl st sz) (R : ResolvedAt st.subst tbl j.out)

include J F in
/-- a variable without table entry is used by no operand -/
theorem unused_of_none {v : Nat} (h : tbl.lookup v = none) : ∀ p ∈ j.ops, v ∉ p.2 := by
  intro p hp hvp
  obtain ⟨i, hi, hiv⟩ := List.getElem_of_mem hvp
  have hi' : i < p.1.vaxes.length := by rw [← J.arity p hp]; exact hi
  have hocc : (p.1.vaxes[i], v) ∈ occs j :=
    mem_occs.2 ⟨p, hp, i, List.getElem?_eq_getElem hi', by rw [List.getElem?_eq_getElem hi, hiv]⟩
  obtain ⟨e0, he0⟩ := F.tblocc _ hocc
  simp only at he0
  rw [h] at he0
  cases he0

include J F R in
theorem iota_mem {ρ : Nat → Nat} (hρ : InV j st.subst ρ) : iota j tbl st.subst ρ ∈ Sem.assigns (maskOf j) := by
  rw [mem_mask J]
  refine ⟨iota_length _ _, fun v hv => ?_⟩
  rw [iota_get _ _ hv]
  cases hl : tbl.lookup v with
  | none =>
    rw [sizeOf_unused (unused_of_none J F hl)]
    unfold tblAx
    rw [hl]
    simp [unitAxis_eval]
  | some e0 =>
    have hocc := F.tblmem _ _ hl
    rw [tblAx_of hl, sizeOf_occ J hocc]
    apply C06.eval_lt_numel
    obtain ⟨p, hp, hsub⟩ := occ_pax J F hocc
    intro q hq
    exact lift_inRange J F hρ hp q (hsub q hq)

include J F in
theorem iota_congr {ρ ρ' : Nat → Nat} (h : ∀ q ∈ allAxesOf j st.subst, ρ q.1 = ρ' q.1) :
    iota j tbl st.subst ρ = iota j tbl st.subst ρ' := by
  unfold iota
  apply List.map_congr_left
  intro v _
  apply eval_congr
  intro q hq
  cases hl : tbl.lookup v with
  | none =>
    unfold tblAx at hq
    rw [hl] at hq
    simp [unitAxis_fv] at hq
  | some e0 =>
    rw [tblAx_of hl] at hq
    obtain ⟨p, hp, hsub⟩ := occ_pax J F (F.tblmem _ _ hl)
    apply lift_congr q.2
    intro q' hq'
    exact h q' (mem_allAxes.2 ⟨p, hp, q, hsub q hq, hq'⟩)

include J F R in
theorem raw_normOK : NormOK (rawOf S j tbl st.subst) where
  len := by
    show (physOf S j tbl st.subst).length = _
    unfold physOf
    rw [List.length_map, length_assigns]
    rfl
  nodup := outAxes_nodup J F R
  fvsub := by
    intro e he q hq
    show q ∈ outAxesOf j tbl st.subst
    unfold outAxesOf
    rw [List.mem_eraseDups, List.mem_flatMap]
    exact ⟨e, he, hq⟩
  occ := by
    intro p hp
    change p ∈ outAxesOf j tbl st.subst at hp
    unfold outAxesOf at hp
    rw [List.mem_eraseDups, List.mem_flatMap] at hp
    exact hp
  top := by
    intro g hg
    right
    intro q hq
    have : q ∈ outAxesOf j tbl st.subst := by
      unfold outAxesOf
      rw [List.mem_eraseDups, List.mem_flatMap]
      exact ⟨g, hg, hq⟩
    exact (allAxes_props J F R (outAxes_sub J F R this)).2.2

include J F in
theorem raw_vshape (d : Nat) :
    (rawOf S j tbl st.subst).vshape = j.out.map (fun v => (Es.Job.mk j.ops j.out).sizes[v]?.getD d) := by
  show (outVaxesOf j tbl st.subst).map Axis.numel = _
  unfold outVaxesOf
  rw [List.map_map]
  apply List.map_congr_left
  intro v hv
  have hocc := out_entry J F hv
  have hlt : v < nvars j.ops j.out := lt_nvars (List.mem_append_right _ hv)
  rw [getElem?_sizes _ _ hlt, Option.getD_some, sizeOf_occ J hocc]
  exact clone_numel' F.sized.numelOkS FUEL _ (occ_numelOk J F hocc)

/-- the cell of the specification -/
def specCell (S : SR Ext) (j : EJob) (c : List Nat) : Ext :=
  S.sum (((Sem.assigns (maskOf j)).filter (fun ρ => j.out.map (fun v => ρ[v]?.getD 0) == c)).map (specProd S j))

include J F R in
theorem envW_props {a b : List Nat} (ha : a ∈ Ax.assigns ((outAxesOf j tbl st.subst).map (·.2)))
    (hb : b ∈ Ax.assigns ((innerOf j tbl st.subst).map (·.2))) :
    InV j st.subst (envOf (wAxes j tbl st.subst) (a ++ b)) ∧
    pidx (wAxes j tbl st.subst) (envOf (wAxes j tbl st.subst) (a ++ b)) = a ++ b := by
  have hab : a ++ b ∈ Ax.assigns ((wAxes j tbl st.subst).map (·.2)) := by
    unfold wAxes
    rw [List.map_append]
    exact mem_assigns_append ha hb
  refine ⟨?_, ?_⟩
  · intro q hq
    exact envOf_inRange _ _ (wAxes_nodup J F R) ((mem_assigns_iff _ _).1 hab) q ((mem_wAxes J F R).2 hq)
  · apply pidx_envOf _ _ (wAxes_nodup J F R)
    rw [mem_assigns_length hab, List.length_map]

include hS J F R in
/-- **the cells of the un-normalised result are the cells of the specification** -/
theorem raw_cell {c : List Nat} (hc : c ∈ Ax.assigns (rawOf S j tbl st.subst).vshape) :
    (rawOf S j tbl st.subst).dense[Ax.flat (rawOf S j tbl st.subst).vshape c]? = some (specCell S j c) := by
  have hN := raw_normOK (S := S) J F R
  have hs : C06dL.Sem (rawOf S j tbl st.subst) := sem_of_occ hN.nodup hN.fvsub hN.occ
  have hAnd : ((Sem.assigns (maskOf j)).filter (fun ρ => j.out.map (fun v => ρ[v]?.getD 0) == c)).Nodup := by
    rw [← assigns_eq]; exact (nodup_assigns _).filter _
  have hOV : ∀ q ∈ outAxesOf j tbl st.subst, q ∈ allAxesOf j st.subst := fun q hq => outAxes_sub J F R hq
  by_cases hb : ∃ α, Backs (rawOf S j tbl st.subst) c α
  · obtain ⟨α, hα⟩ := hb
    have hα1 : ∀ q ∈ outAxesOf j tbl st.subst, α q.1 < q.2 := hα.1
    have hα2 : (outVaxesOf j tbl st.subst).map (Axis.eval α) = c := hα.2
    have ha0 := pidx_mem_assigns α (outAxesOf j tbl st.subst) hα1
    rw [dense_backed hs hα]
    congr 1
    show ((physOf S j tbl st.subst)[Ax.flat ((outAxesOf j tbl st.subst).map (·.2)) (pidx (outAxesOf j tbl st.subst) α)]?).getD S.zero = _
    unfold physOf
    rw [List.getElem?_map, getElem_flat ha0]
    simp only [Option.map_some, Option.getD_some]
    unfold specCell
    symm
    -- facts about the assignment `envOf W (a0 ++ b)`
    have key : ∀ b ∈ Ax.assigns ((innerOf j tbl st.subst).map (·.2)),
        ∀ q ∈ outAxesOf j tbl st.subst,
          envOf (wAxes j tbl st.subst) (pidx (outAxesOf j tbl st.subst) α ++ b) q.1 = α q.1 := by
      intro b hb
      have h2 := (envW_props J F R ha0 hb).2
      unfold wAxes at h2
      rw [pidx_append] at h2
      have := (List.append_inj h2 (by simp [pidx])).1
      exact List.map_inj_left.1 this
    apply sum_reindex S hS _ (Ax.assigns ((innerOf j tbl st.subst).map (·.2)))
      (fun b => iota j tbl st.subst (envOf (wAxes j tbl st.subst) (pidx (outAxesOf j tbl st.subst) α ++ b)))
      (specProd S j) _ hAnd (nodup_assigns _)
    · intro b hb
      have h1 := (envW_props J F R ha0 hb).1
      rw [List.mem_filter]
      refine ⟨iota_mem J F R h1, ?_⟩
      rw [beq_iff_eq, out_idx J F R, ← hα2]
      apply List.map_congr_left
      intro e he
      apply eval_congr
      intro q hq
      exact key b hb q (hN.fvsub e he q hq)
    · intro b hb b' hb' e
      have h1 := envW_props J F R ha0 hb
      have h1' := envW_props J F R ha0 hb'
      have hag := iota_inj J F R h1.1 h1'.1 e
      have : pidx (wAxes j tbl st.subst) (envOf (wAxes j tbl st.subst) (pidx (outAxesOf j tbl st.subst) α ++ b)) =
          pidx (wAxes j tbl st.subst) (envOf (wAxes j tbl st.subst) (pidx (outAxesOf j tbl st.subst) α ++ b')) :=
        pidx_congr (fun q hq => hag q ((mem_wAxes J F R).1 hq))
      rw [h1.2, h1'.2] at this
      exact List.append_cancel_left this
    · intro b hb
      exact specProd_iota J F R (envW_props J F R ha0 hb).1
    · intro ι hι hne
      rw [List.mem_filter, beq_iff_eq] at hι
      obtain ⟨ρ', hρ', rfl⟩ := iota_surj hS J F R hι.1 hne
      have hW : ∀ q ∈ wAxes j tbl st.subst, ρ' q.1 < q.2 := fun q hq => hρ' q ((mem_wAxes J F R).1 hq)
      have hI : ∀ q ∈ innerOf j tbl st.subst, ρ' q.1 < q.2 :=
        fun q hq => hW q (by unfold wAxes; exact List.mem_append_right _ hq)
      refine ⟨pidx (innerOf j tbl st.subst) ρ', pidx_mem_assigns ρ' _ hI, ?_⟩
      have hout : (outVaxesOf j tbl st.subst).map (Axis.eval α) = (outVaxesOf j tbl st.subst).map (Axis.eval ρ') := by
        rw [hα2, ← out_idx J F R]; exact hι.2.symm
      have hagO := hs.inj α ρ' hα1 (fun q hq => hρ' q (hOV q hq)) hout
      have hpO : pidx (outAxesOf j tbl st.subst) α = pidx (outAxesOf j tbl st.subst) ρ' := pidx_congr hagO
      apply iota_congr J F
      intro q hq
      rw [hpO, ← pidx_append]
      exact envOf_pidx ρ' (wAxes j tbl st.subst) q.1
        (List.mem_map_of_mem (f := (·.1)) ((mem_wAxes J F R).2 hq))
  · have hno : ∀ α, ¬ Backs (rawOf S j tbl st.subst) c α := fun α h => hb ⟨α, h⟩
    rw [dense_unbacked hs hc hno]
    congr 1
    symm
    unfold specCell
    apply sum_all_zero S hS
    intro x hx
    obtain ⟨ι, hι, rfl⟩ := List.mem_map.1 hx
    by_contra hne
    rw [List.mem_filter, beq_iff_eq] at hι
    obtain ⟨ρ', hρ', rfl⟩ := iota_surj hS J F R hι.1 hne
    apply hno ρ'
    refine ⟨fun q hq => hρ' q (hOV q hq), ?_⟩
    show (outVaxesOf j tbl st.subst).map (Axis.eval ρ') = c
    rw [← out_idx J F R]
    exact hι.2

include hS J F R in
/-- **the un-normalised result denotes the specification** -/
theorem raw_dense : (rawOf S j tbl st.subst).dense = (Es.Job.mk j.ops j.out).spec S id := by
  rw [spec_unfold]
  have hv := raw_vshape (S := S) J F 0
  apply list_ext_flat (rawOf S j tbl st.subst).vshape
  · exact length_dense _
  · rw [List.length_map, ← assigns_eq, length_assigns, hv]
  · intro c hc
    rw [raw_cell hS J F R hc, List.getElem?_map, ← hv, ← assigns_eq (rawOf S j tbl st.subst).vshape, getElem_flat hc]
    simp only [Option.map_some]
    congr 1
    unfold specCell
    congr 1
    apply List.map_congr_left
    intro ι _
    exact (specProd_eq S j ι).symm

end ctx4

end C07bL
