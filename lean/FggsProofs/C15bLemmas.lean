/-
Helper lemmas for C15b (`replace_commute`): exact descriptions of the graph mutators used by `replaceEdge`
when the nodes involved are present / the identities are fresh, and the label-table bookkeeping.
-/
import FggsModel.Replace
import FggsProofs.Props.C15
import FggsProofs.Props.C16
import Mathlib.Tactic.Linarith
import Mathlib.Data.List.Basic
import Mathlib.Data.List.Perm.Basic
import Mathlib.Data.List.Nodup

set_option linter.unusedSimpArgs false
set_option linter.unusedVariables false

namespace C15
open Fggs Fggs.G

/-! ### the invariant, unpacked -/

theorem nodup_iff' {α} [DecidableEq α] (l : List α) : nodup l = true ↔ l.Nodup := by
  induction l with
  | nil => simp [nodup]
  | cons x xs ih => simp [nodup, ih]

theorem inv_parts (g : Graph) (h : graphInv g = true) :
    (∀ e ∈ g.edges, ∀ n ∈ e.nodes, n ∈ g.nodes) ∧ (∀ n ∈ g.ext, n ∈ g.nodes) ∧
    (g.nodes.map (·.id)).Nodup ∧ (g.edges.map (·.id)).Nodup ∧ (g.edgeLabels.map (·.name)).Nodup := by
  simp only [graphInv, Bool.and_eq_true, nodup_iff', List.all_eq_true, List.contains_iff_mem,
    beq_iff_eq] at h
  obtain ⟨⟨⟨⟨⟨⟨⟨h1, h2⟩, h3⟩, h4⟩, h5⟩, h6⟩, h7⟩, h8⟩ := h
  exact ⟨h1, h2, h3, h4, h5⟩

/-- two labels with the same name in a table with unique names are equal -/
theorem eq_of_name_nodup (U : List ELabel) (hU : (U.map (·.name)).Nodup) {a b : ELabel}
    (ha : a ∈ U) (hb : b ∈ U) (h : a.name = b.name) : a = b := by
  induction U with
  | nil => simp at ha
  | cons u U ih =>
    rw [List.map_cons, List.nodup_cons] at hU
    rcases List.mem_cons.1 ha with rfl | ha' <;> rcases List.mem_cons.1 hb with rfl | hb'
    · rfl
    · exact absurd (h ▸ List.mem_map_of_mem (f := (·.name)) hb') hU.1
    · exact absurd (h ▸ List.mem_map_of_mem (f := (·.name)) ha') hU.1
    · exact ih hU.2 ha' hb'

theorem nodup_of_map_nodup {α β} (f : α → β) (l : List α) (h : (l.map f).Nodup) : l.Nodup :=
  List.Nodup.of_map f h

/-! ### node-label tables -/

/-- the table of node labels after registering the labels `ls` in order -/
def extNL (t : List Nat) (ls : List Nat) : List Nat :=
  ls.foldl (fun t l => if t.contains l then t else t ++ [l]) t

theorem extNL_nil (t : List Nat) : extNL t [] = t := rfl
theorem extNL_cons (t : List Nat) (l : Nat) (ls : List Nat) :
    extNL t (l :: ls) = extNL (if t.contains l then t else t ++ [l]) ls := rfl
theorem extNL_append (t a b : List Nat) : extNL t (a ++ b) = extNL (extNL t a) b := by
  simp [extNL, List.foldl_append]

theorem anl_nodeLabels (g : Graph) (l : Nat) : (g.addNodeLabel l).nodeLabels = extNL g.nodeLabels [l] := by
  unfold Graph.addNodeLabel
  simp only [extNL_cons, extNL_nil]
  split <;> rfl

theorem extNL_spec (ls : List Nat) : ∀ t : List Nat, ∃ X, extNL t ls = t ++ X ∧ X.Nodup ∧
    ∀ x, x ∈ X ↔ x ∈ ls ∧ x ∉ t := by
  induction ls with
  | nil => intro t; exact ⟨[], by simp [extNL_nil], List.nodup_nil, by simp⟩
  | cons l ls ih =>
    intro t
    rw [extNL_cons]
    by_cases hl : l ∈ t
    · have : t.contains l = true := by simpa using hl
      rw [if_pos this]
      obtain ⟨X, h1, h2, h3⟩ := ih t
      refine ⟨X, h1, h2, ?_⟩
      intro x
      rw [h3]
      constructor
      · rintro ⟨a, b⟩; exact ⟨List.mem_cons_of_mem _ a, b⟩
      · rintro ⟨a, b⟩
        rcases List.mem_cons.1 a with rfl | a
        · exact absurd hl b
        · exact ⟨a, b⟩
    · have : ¬ t.contains l = true := by simpa using hl
      rw [if_neg this]
      obtain ⟨X, h1, h2, h3⟩ := ih (t ++ [l])
      refine ⟨l :: X, by rw [h1]; simp, ?_, ?_⟩
      · rw [List.nodup_cons]
        refine ⟨?_, h2⟩
        intro hx
        have := (h3 l).1 hx
        simp at this
      · intro x
        rw [List.mem_cons, h3]
        simp only [List.mem_append, List.mem_cons, List.not_mem_nil, or_false, not_or]
        constructor
        · rintro (rfl | ⟨a, b, c⟩)
          · exact ⟨Or.inl rfl, hl⟩
          · exact ⟨Or.inr a, b⟩
        · rintro ⟨a | a, b⟩
          · exact Or.inl a
          · by_cases hx : x = l
            · exact Or.inl hx
            · exact Or.inr ⟨a, b, hx⟩

/-- registering two batches of labels in either order gives the same table up to order -/
theorem extNL_comm (t a b : List Nat) : (extNL (extNL t a) b).Perm (extNL (extNL t b) a) := by
  rw [← extNL_append, ← extNL_append]
  obtain ⟨X, h1, h2, h3⟩ := extNL_spec (a ++ b) t
  obtain ⟨Y, k1, k2, k3⟩ := extNL_spec (b ++ a) t
  rw [h1, k1]
  apply List.Perm.append_left
  rw [List.perm_ext_iff_of_nodup h2 k2]
  intro x
  rw [h3, k3]
  simp only [List.mem_append]
  tauto

/-! ### the node map -/

theorem get_append (m : NodeMap) (r gn r' : Node) :
    NodeMap.get (m ++ [(r, gn)]) r' =
      if (m.get r').isSome then m.get r' else if r = r' then some gn else none := by
  unfold NodeMap.get
  rw [List.find?_append]
  cases hf : m.find? (fun q => decide (q.1 = r')) with
  | some q => simp
  | none =>
    by_cases hr : r = r'
    · simp [hr]
    · simp [hr]

/-! ### mutators, exactly -/

theorem removeEdge_exact (g : Graph) (e : Edge) (he : ∃ x ∈ g.edges, x.id = e.id) :
    g.removeEdge e = .ok { g with edges := g.edges.filter (·.id ≠ e.id) } := by
  unfold Graph.removeEdge
  have : ¬ (g.edgeById e.id).isNone = true := by
    obtain ⟨x, hx, hxe⟩ := he
    simp only [Graph.edgeById, Option.isNone_iff_eq_none, List.find?_eq_none, not_forall]
    exact ⟨x, hx, by simp [hxe]⟩
  rw [if_neg this]

theorem removeEdge_ok' {g g' : Graph} {e : Edge} (h : g.removeEdge e = .ok g') :
    g' = { g with edges := g.edges.filter (·.id ≠ e.id) } := by
  unfold Graph.removeEdge at h
  split at h
  · cases h
  · injection h with h; exact h.symm

theorem addNode_ok' {g g' : Graph} {n : Node} (h : g.addNode n = .ok g') :
    g'.nodes = g.nodes ++ [n] ∧ g'.edges = g.edges ∧ g'.ext = g.ext ∧ g'.edgeLabels = g.edgeLabels ∧
    g'.nodeLabels = extNL g.nodeLabels [n.label] := by
  unfold Graph.addNode at h
  split at h
  · cases h
  · injection h with h; subst h
    refine ⟨rfl, ?_, ?_, ?_, ?_⟩
    · show (g.addNodeLabel n.label).edges = _
      unfold Graph.addNodeLabel; split <;> rfl
    · show (g.addNodeLabel n.label).ext = _
      unfold Graph.addNodeLabel; split <;> rfl
    · show (g.addNodeLabel n.label).edgeLabels = _
      unfold Graph.addNodeLabel; split <;> rfl
    · exact anl_nodeLabels g n.label

theorem addNode_fresh (g : Graph) (n : Node) (h : ∀ x ∈ g.nodes, x.id ≠ n.id) :
    ∃ g', g.addNode n = .ok g' := by
  unfold Graph.addNode
  have : ¬ (g.nodeById n.id).isSome = true := by
    simp only [Graph.nodeById, List.find?_isSome, not_exists, not_and]
    intro x hx
    simpa using h x hx
  rw [if_neg this]
  exact ⟨_, rfl⟩

/-- all the nodes are present with unique ids: the consistency check passes -/
theorem consistent_of_mem (seen : List Node) (hnd : (seen.map (·.id)).Nodup) (ns : List Node)
    (h : ∀ n ∈ ns, n ∈ seen) : Graph.consistent seen ns = true := by
  induction ns with
  | nil => rfl
  | cons n rest ih =>
    unfold Graph.consistent
    have hn : n ∈ seen := h n List.mem_cons_self
    have hfind : seen.find? (fun x => decide (x.id = n.id)) = some n := by
      clear ih h
      induction seen with
      | nil => simp at hn
      | cons y ys ih2 =>
        rw [List.map_cons, List.nodup_cons] at hnd
        rcases List.mem_cons.1 hn with rfl | hn'
        · simp
        · have hne : y.id ≠ n.id := by
            intro he
            exact hnd.1 (he ▸ List.mem_map_of_mem (f := (·.id)) hn')
          simp [List.find?_cons, hne, ih2 hnd.2 hn']
    rw [hfind]
    simp only [decide_true, Bool.true_and]
    exact ih (fun x hx => h x (List.mem_cons_of_mem _ hx))

theorem addEdge_ok' {g g' : Graph} {e : Edge} (hp : ∀ n ∈ e.nodes, n ∈ g.nodes)
    (h : g.addEdge e = .ok g') :
    g'.nodes = g.nodes ∧ g'.edges = g.edges ++ [e] ∧ g'.ext = g.ext ∧ g'.nodeLabels = g.nodeLabels ∧
    (∀ l, l ∈ g'.edgeLabels ↔ l ∈ g.edgeLabels ∨ l = e.label) := by
  unfold Graph.addEdge at h
  rw [am_present g e.nodes hp] at h
  split at h
  · cases h
  split at h
  · cases h
  split at h
  · rename_i old hf
    split at h
    · rename_i hold
      injection h with h; subst h
      refine ⟨rfl, rfl, rfl, rfl, ?_⟩
      intro l
      constructor
      · exact Or.inl
      · rintro (hl | rfl)
        · exact hl
        · rw [← hold]; exact List.mem_of_find?_eq_some hf
    · cases h
  · injection h with h; subst h
    refine ⟨rfl, rfl, rfl, rfl, ?_⟩
    intro l
    simp

/-- sufficient conditions for `add_edge` to succeed -/
theorem addEdge_succeeds (g : Graph) (e : Edge) (hp : ∀ n ∈ e.nodes, n ∈ g.nodes)
    (hnd : (g.nodes.map (·.id)).Nodup) (hid : ∀ x ∈ g.edges, x.id ≠ e.id)
    (U : List ELabel) (hU : (U.map (·.name)).Nodup) (hgU : ∀ l ∈ g.edgeLabels, l ∈ U) (hl : e.label ∈ U) :
    ∃ g', g.addEdge e = .ok g' := by
  unfold Graph.addEdge
  have h1 : ¬ (g.edgeById e.id).isSome = true := by
    simp only [Graph.edgeById, List.find?_isSome, not_exists, not_and]
    intro x hx
    simpa using hid x hx
  rw [if_neg h1]
  have h2 : ¬ (!Graph.consistent g.nodes e.nodes) = true := by
    rw [consistent_of_mem g.nodes hnd e.nodes hp]; simp
  rw [if_neg h2]
  split
  · rename_i old hf
    have hold : old = e.label := by
      have h3 : old ∈ g.edgeLabels := List.mem_of_find?_eq_some hf
      have h4 : old.name = e.label.name := by simpa using List.find?_some hf
      exact eq_of_name_nodup U hU (hgU old h3) hl h4
    rw [if_pos hold]
    exact ⟨_, rfl⟩
  · exact ⟨_, rfl⟩

/-! ### mapM -/

theorem mapM_get_ok (m : NodeMap) (ns xs : List Node) (h : ns.map (fun n => m.get n) = xs.map some) :
    ns.mapM (fun n => match m.get n with | some x => Except.ok x | none => Except.error Err.keyError)
      = .ok xs := by
  induction ns generalizing xs with
  | nil =>
    cases xs with
    | nil => rfl
    | cons x xs => simp at h
  | cons n ns ih =>
    cases xs with
    | nil => simp at h
    | cons x xs =>
      simp only [List.map_cons, List.cons.injEq] at h
      rw [List.mapM_cons, h.1, ih xs h.2]
      rfl

theorem mapM_get_inv (m : NodeMap) (ns xs : List Node)
    (h : ns.mapM (fun n => match m.get n with | some x => Except.ok x | none => Except.error Err.keyError)
      = .ok xs) : ns.map (fun n => m.get n) = xs.map some := by
  refine mapM_ok _ (fun n => m.get n) ?_ ns xs h
  intro a b hab
  split at hab
  · rename_i x hx; injection hab with hab; rw [hx, hab]
  · cases hab

/-! ### monotonicity of the counter -/

theorem copyNodes_mono (ns : List Node) : ∀ (g : Graph) (m : NodeMap) (f : Nat)
    (g' : Graph) (m' : NodeMap) (f' : Nat), copyNodes g m f ns = .ok (g', m', f') → f ≤ f' := by
  induction ns with
  | nil =>
    intro g m f g' m' f' h
    simp only [copyNodes] at h
    injection h with h
    injection h with h1 h2
    injection h2 with h2 h3
    omega
  | cons r0 rest ih =>
    intro g m f g' m' f' h
    simp only [copyNodes] at h
    split at h
    · exact ih _ _ _ _ _ _ h
    · obtain ⟨g1, hg1, h⟩ := bind_ok h
      have := ih _ _ _ _ _ _ h
      omega

theorem copyEdges_mono (m : NodeMap) (es : List Edge) : ∀ (g : Graph) (em : List (Edge × Edge))
    (f : Nat) (g' : Graph) (em' : List (Edge × Edge)) (f' : Nat),
    copyEdges g m em f es = .ok (g', em', f') → f ≤ f' := by
  induction es with
  | nil =>
    intro g em f g' em' f' h
    simp only [copyEdges] at h
    injection h with h
    injection h with h1 h2
    injection h2 with h2 h3
    omega
  | cons r0 rest ih =>
    intro g em f g' em' f' h
    simp only [copyEdges] at h
    obtain ⟨gnodes, hgn, h⟩ := bind_ok h
    obtain ⟨ge, hge, h⟩ := bind_ok h
    obtain ⟨g1, hg1, h⟩ := bind_ok h
    have := ih _ _ _ _ _ _ h
    omega


/-! ### unfolding one step of the copy loops -/

theorem bind_eq_of_ok {α β} {x : Except Err α} {a : α} (h : x = .ok a) (f : α → Except Err β) :
    (x >>= f) = f a := by
  subst h; rfl

theorem copyNodes_cons_some (g : Graph) (m : NodeMap) (f : Nat) (r : Node) (rest : List Node)
    (h : (m.get r).isSome = true) : copyNodes g m f (r :: rest) = copyNodes g m f rest := by
  simp only [copyNodes]
  rw [if_pos h]

theorem copyNodes_cons_none (g g1 : Graph) (m : NodeMap) (f : Nat) (r : Node) (rest : List Node)
    (h : ¬ (m.get r).isSome = true) (h1 : g.addNode ⟨r.label, .impl f⟩ = .ok g1) :
    copyNodes g m f (r :: rest) = copyNodes g1 (m ++ [(r, ⟨r.label, .impl f⟩)]) (f + 1) rest := by
  simp only [copyNodes]
  rw [if_neg h, h1]
  rfl

theorem copyEdges_cons (g g1 : Graph) (m : NodeMap) (em : List (Edge × Edge)) (f : Nat) (r : Edge)
    (rest : List Edge) (gnodes : List Node) (ge : Edge)
    (h1 : r.nodes.mapM (fun n => match m.get n with | some x => Except.ok x | none => Except.error Err.keyError)
      = .ok gnodes)
    (h2 : mkEdge r.label gnodes (.impl f) = .ok ge) (h3 : g.addEdge ge = .ok g1) :
    copyEdges g m em f (r :: rest) = copyEdges g1 m (em ++ [(r, ge)]) (f + 1) rest := by
  simp only [copyEdges]
  refine (bind_eq_of_ok h1 _).trans ?_
  refine (bind_eq_of_ok h2 _).trans ?_
  exact bind_eq_of_ok h3 _

theorem removeEdge_fields {g g' : Graph} {e : Edge} (h : g.removeEdge e = .ok g') :
    g'.nodes = g.nodes ∧ g'.edges = g.edges.filter (·.id ≠ e.id) ∧ g'.ext = g.ext ∧
    g'.nodeLabels = g.nodeLabels ∧ g'.edgeLabels = g.edgeLabels := by
  rw [removeEdge_ok' h]
  exact ⟨rfl, rfl, rfl, rfl, rfl⟩

/-! ### single-run facts -/

theorem copyNodes_values {ns : List Node} {g : Graph} {m : NodeMap} {f : Nat}
    {g' : Graph} {m' : NodeMap} {f' : Nat} (h : copyNodes g m f ns = .ok (g', m', f'))
    (hv : ∀ r x, m.get r = some x → x ∈ g.nodes) :
    (∀ r x, m'.get r = some x → x ∈ g'.nodes) ∧ (∀ x ∈ g.nodes, x ∈ g'.nodes) := by
  obtain ⟨_, _, ⟨new, b1, _, b3⟩, _, _⟩ := copyNodes_spec _ _ _ _ _ _ _ h
  constructor
  · intro r x hx
    rw [b1]
    rcases b3 r x hx with h1 | h1
    · exact List.mem_append_left _ (hv r x h1)
    · exact List.mem_append_right _ h1
  · intro x hx
    rw [b1]
    exact List.mem_append_left _ hx

theorem copyNodes_edgeLabels (ns : List Node) : ∀ (g : Graph) (m : NodeMap) (f : Nat)
    (g' : Graph) (m' : NodeMap) (f' : Nat), copyNodes g m f ns = .ok (g', m', f') →
    g'.edgeLabels = g.edgeLabels := by
  induction ns with
  | nil =>
    intro g m f g' m' f' h
    simp only [copyNodes] at h
    injection h with h
    injection h with h1 h2
    rw [h1]
  | cons r0 rest ih =>
    intro g m f g' m' f' h
    simp only [copyNodes] at h
    split at h
    · exact ih _ _ _ _ _ _ h
    · obtain ⟨g1, hg1, h⟩ := bind_ok h
      rw [ih _ _ _ _ _ _ h, (addNode_ok' hg1).2.2.2.1]

theorem copyEdges_nodes {m : NodeMap} {es : List Edge} {g : Graph} {em : List (Edge × Edge)}
    {f : Nat} {g' : Graph} {em' : List (Edge × Edge)} {f' : Nat}
    (h : copyEdges g m em f es = .ok (g', em', f')) (hv : ∀ r x, m.get r = some x → x ∈ g.nodes) :
    g'.nodes = g.nodes := by
  obtain ⟨_, _, _, c4⟩ := copyEdges_spec _ _ _ _ _ _ _ _ h
  exact c4 hv

theorem copyEdges_labels (m : NodeMap) (es : List Edge) : ∀ (g : Graph) (em : List (Edge × Edge))
    (f : Nat) (g' : Graph) (em' : List (Edge × Edge)) (f' : Nat),
    copyEdges g m em f es = .ok (g', em', f') → (∀ r x, m.get r = some x → x ∈ g.nodes) →
    (∀ l ∈ g.edgeLabels, l ∈ g'.edgeLabels) ∧ (∀ e ∈ es, e.label ∈ g'.edgeLabels) := by
  induction es with
  | nil =>
    intro g em f g' em' f' h hv
    simp only [copyEdges] at h
    injection h with h
    injection h with h1 h2
    subst h1
    exact ⟨fun l hl => hl, by simp⟩
  | cons r0 rest ih =>
    intro g em f g' em' f' h hv
    simp only [copyEdges] at h
    obtain ⟨gnodes, hgn, h⟩ := bind_ok h
    obtain ⟨ge, hge, h⟩ := bind_ok h
    obtain ⟨g1, hg1, h⟩ := bind_ok h
    have hmap := mapM_get_inv m r0.nodes gnodes hgn
    obtain ⟨hge1, hty⟩ := mkEdge_ok hge
    subst hge1
    have hp : ∀ n ∈ gnodes, n ∈ g.nodes := by
      intro x hx
      have : some x ∈ gnodes.map some := List.mem_map_of_mem hx
      rw [← hmap] at this
      obtain ⟨n, _, hn⟩ := List.mem_map.1 this
      exact hv n x hn
    obtain ⟨a1, a2, a3, a4, a5⟩ := addEdge_ok' (e := ⟨r0.label, gnodes, .impl f⟩) hp hg1
    obtain ⟨i1, i2⟩ := ih _ _ _ _ _ _ h (by rw [a1]; exact hv)
    constructor
    · intro l hl
      exact i1 l ((a5 l).2 (Or.inl hl))
    · intro e he
      rcases List.mem_cons.1 he with rfl | he
      · exact i1 _ ((a5 _).2 (Or.inr rfl))
      · exact i2 e he

/-! ### the call as a whole -/

theorem replaceEdge_of_parts {fresh : Nat} {g : Graph} {e : Edge} {repl : Graph}
    {g0 g1 : Graph} {m1 : NodeMap} {f1 : Nat} {g2 : Graph} {em : List (Edge × Edge)} {f2 : Nat}
    (ht : e.label.type = repl.type) (h0 : g.removeEdge e = .ok g0)
    (h1 : copyNodes g0 (initMap e.nodes repl.ext []) fresh repl.nodes = .ok (g1, m1, f1))
    (h2 : copyEdges g1 m1 [] f1 repl.edges = .ok (g2, em, f2)) :
    replaceEdge fresh g e repl = .ok ⟨g2, m1, em, f2⟩ := by
  unfold replaceEdge
  rw [if_neg (by simpa using ht)]
  simp only [h0, bind, Except.bind]
  have h1' : copyNodes g0 (List.foldl (fun m (x : Node × Node) => NodeMap.set m x.2 x.1) [] (e.nodes.zip repl.ext))
      fresh repl.nodes = .ok (g1, m1, f1) := h1
  simp only [h1', h2]
  rfl

/-- well-formedness is preserved by a successful replacement (no freshness hypothesis needed) -/
theorem replaceEdge_inv' (fresh : Nat) (g : Graph) (e : Edge) (repl : Graph) (r : ReplaceResult)
    (hg : graphInv g = true) (h : replaceEdge fresh g e repl = .ok r) : graphInv r.graph = true := by
  obtain ⟨g0, g1, m1, f1, g2, em, f2, _, h0, h1, h2, rfl⟩ := replaceEdge_ok h
  obtain ⟨_, _, _, b4, _⟩ := copyNodes_spec _ _ _ _ _ _ _ h1
  obtain ⟨_, _, c3, _⟩ := copyEdges_spec _ _ _ _ _ _ _ _ h2
  exact c3 (b4 (C16.removeEdge_inv g g0 e hg h0))

end C15
