/-
Helper lemmas for Props/C09c.lean, part 4: correctness of block elimination, on the dense view.
`lu_back_sound`: after the LU phase and the back-substitution phase on a suffix `rest` of the order, the vector
blocks satisfy the equations of the system restricted to `rest` (and the rows of the nonterminals before the suffix
have absorbed the solved blocks); `lu_back_least`: they are below every pre-fixed point of that system.
Both by induction on the suffix (Bekić's principle, one nonterminal at a time).
-/
import FggsModel.Multi
import FggsProofs.C09cAlgLemmas
import FggsProofs.C09cDictLemmas
import FggsProofs.C09cStepLemmas

set_option linter.unusedSimpArgs false
set_option linter.unusedVariables false

namespace C09cL
open Fggs Fggs.Sem Fggs.Sv Fggs.Ms C09bL

variable {K : Type}

/-- `(Σ_{y ∈ ys} A[x,y]·X[y])[i]` -/
def rowSum (S : SR K) (sz : Nat → Nat) (A : Nat → Nat → Nat → Nat → K) (ys : List Nat) (X : Nat → Nat → K)
    (x i : Nat) : K :=
  S.sum (ys.map (fun y => dot S (sz y) (A x y i) (X y)))

theorem rowSum_congr (S : SR K) (sz : Nat → Nat) (A A' : Nat → Nat → Nat → Nat → K) (ys : List Nat)
    (X X' : Nat → Nat → K) (x i : Nat)
    (hA : ∀ y ∈ ys, ∀ j, j < sz y → A x y i j = A' x y i j) (hX : ∀ y ∈ ys, ∀ j, j < sz y → X y j = X' y j) :
    rowSum S sz A ys X x i = rowSum S sz A' ys X' x i := by
  unfold rowSum
  apply sum_map_congr
  intro y hy
  exact dot_congr S _ _ _ _ _ (hA y hy) (hX y hy)

theorem rowSum_nil (S : SR K) (sz : Nat → Nat) (A : Nat → Nat → Nat → Nat → K) (X : Nat → Nat → K) (x i : Nat) :
    rowSum S sz A [] X x i = S.zero := rfl

theorem rowSum_cons {S : SR K} (hS : C01.SRLaws S) (sz : Nat → Nat) (A : Nat → Nat → Nat → Nat → K) (z : Nat)
    (ys : List Nat) (X : Nat → Nat → K) (x i : Nat) :
    rowSum S sz A (z :: ys) X x i = S.add (dot S (sz z) (A x z i) (X z)) (rowSum S sz A ys X x i) := by
  unfold rowSum
  rw [List.map_cons, sum_cons hS]

theorem rowSum_perm {S : SR K} (hS : C01.SRLaws S) (sz : Nat → Nat) (A : Nat → Nat → Nat → Nat → K)
    (ys ys' : List Nat) (hp : ys.Perm ys') (X : Nat → Nat → K) (x i : Nat) :
    rowSum S sz A ys X x i = rowSum S sz A ys' X x i :=
  sum_map_perm hS ys ys' hp _

/-- `Σ_y f·g_y = f·(Σ_y g_y)` -/
theorem dot_sum_right {S : SR K} (hS : C01.SRLaws S) {α : Type} (ys : List α) (n : Nat) (f : Nat → K)
    (g : α → Nat → K) :
    S.sum (ys.map (fun y => dot S n f (g y))) = dot S n f (fun l => S.sum (ys.map (fun y => g y l))) := by
  unfold dot
  have e : ∀ l, S.mul (f l) (S.sum (ys.map (fun y => g y l))) = S.sum (ys.map (fun y => S.mul (f l) (g y l))) := by
    intro l; rw [sum_map_mul_left hS]
  simp only [e]
  exact sum_comm hS _ _ _

/-- the algebra of one elimination step, for one row:
`b'[x] + Σ_y (a[x,y] + M·a[z,y])·X[y] = (b[x] + Σ_y a[x,y]·X[y]) + M·(b[z] + Σ_y a[z,y]·X[y])` -/
theorem elim_row {S : SR K} (hS : C01.SRLaws S) (sz : Nat → Nat) (rest : List Nat) (n : Nat) (M : Nat → K)
    (bx b1x : K) (bz : Nat → K) (ax a1x : Nat → Nat → K) (az : Nat → Nat → Nat → K) (X : Nat → Nat → K)
    (hb : b1x = S.add bx (dot S n M bz))
    (ha : ∀ y ∈ rest, ∀ j, j < sz y → a1x y j = S.add (ax y j) (dot S n M (fun l => az y l j))) :
    S.add b1x (S.sum (rest.map (fun y => dot S (sz y) (a1x y) (X y)))) =
      S.add (S.add bx (S.sum (rest.map (fun y => dot S (sz y) (ax y) (X y)))))
        (dot S n M (fun l => S.add (bz l) (S.sum (rest.map (fun y => dot S (sz y) (az y l) (X y)))))) := by
  have : Std.Associative S.add := ⟨hS.add_assoc⟩
  have : Std.Commutative S.add := ⟨hS.add_comm⟩
  have e1 : S.sum (rest.map (fun y => dot S (sz y) (a1x y) (X y))) =
      S.add (S.sum (rest.map (fun y => dot S (sz y) (ax y) (X y))))
        (S.sum (rest.map (fun y => dot S n M (fun l => dot S (sz y) (az y l) (X y))))) := by
    rw [← sum_map_add hS]
    apply sum_map_congr
    intro y hy
    rw [dot_congr S (sz y) (a1x y) (fun j => S.add (ax y j) (dot S n M (fun l => az y l j))) (X y) (X y)
      (ha y hy) (fun _ _ => rfl), dot_add_left hS, dot_assoc hS]
  rw [e1, dot_sum_right hS, hb, dot_add_right hS]
  ac_rfl

section order
variable {S : SR K} {le : K → K → Prop} {star : K → K} (h : C09b.OrdStarLaws S le star)
include h

theorem sum_map_mono {α : Type} (l : List α) (f g : α → K) (hfg : ∀ x ∈ l, le (f x) (g x)) :
    le (S.sum (l.map f)) (S.sum (l.map g)) := by
  induction l with
  | nil => exact h.refl _
  | cons a l ih =>
    rw [List.map_cons, List.map_cons, sum_cons h.sr, sum_cons h.sr]
    exact h.add_mono _ _ _ _ (hfg a (List.mem_cons_self ..)) (ih (fun x hx => hfg x (List.mem_cons_of_mem _ hx)))

theorem dot_mono_right (n : Nat) (f g g' : Nat → K) (hg : ∀ l, l < n → le (g l) (g' l)) :
    le (dot S n f g) (dot S n f g') := by
  unfold dot
  apply sum_map_mono h
  intro l hl
  exact h.mul_mono _ _ _ _ (h.refl _) (hg l (List.mem_range.1 hl))

theorem rowSum_mono (sz : Nat → Nat) (A : Nat → Nat → Nat → Nat → K) (ys : List Nat) (X X' : Nat → Nat → K)
    (x i : Nat) (hX : ∀ y ∈ ys, ∀ j, j < sz y → le (X y j) (X' y j)) :
    le (rowSum S sz A ys X x i) (rowSum S sz A ys X' x i) := by
  unfold rowSum
  apply sum_map_mono h
  intro y hy
  exact dot_mono_right h _ _ _ _ (hX y hy)

end order

/-! ### the facts about one level of the recursion, collected -/

/-- everything the two main inductions need to know about the step for `z :: rest` -/
structure Level (S : SR K) (star : K → K) (sz : Nat → Nat) (pre : List Nat) (z : Nat) (rest : List Nat)
    (a : MBlocks K) (b : VBlocks K) (a1 : MBlocks K) (b1 : VBlocks K) (xb0 xb : VBlocks K) : Prop where
  /-- rows outside `rest` are untouched by the round -/
  a1_out : ∀ x, x ∉ rest → ∀ y, dA S a1 x y = dA S a x y
  b1_out : ∀ x, x ∉ rest → dB S b1 x = dB S b x
  /-- rows in `rest` after the round -/
  a1_in : ∀ x ∈ rest, ∀ y ∈ rest, ∀ i j, i < sz x → j < sz y → dA S a1 x y i j =
    S.add (dA S a x y i j)
      (dot S (sz z) (Mx S star (sz z) (dA S a z z) (dA S a x z) i) (fun l => dA S a z y l j))
  b1_in : ∀ x ∈ rest, ∀ i, i < sz x → dB S b1 x i =
    S.add (dB S b x i) (dot S (sz z) (Mx S star (sz z) (dA S a z z) (dA S a x z) i) (dB S b z))
  /-- the back step -/
  xb_z : ∀ i, i < sz z → dB S xb z i = sig S star (sz z) (dA S a z z) (dB S xb0 z) i
  xb_pre : ∀ x ∈ pre, ∀ i, i < sz x → dB S xb x i =
    S.add (dB S xb0 x i) (dot S (sz z) (dA S a x z i) (dB S xb z))
  xb_rest : ∀ x ∈ rest, dB S xb x = dB S xb0 x

theorem nodup_parts {pre rest : List Nat} {z : Nat} (hnd : (pre ++ z :: rest).Nodup) :
    ((pre ++ [z]) ++ rest).Nodup ∧ pre.Nodup ∧ rest.Nodup ∧ z ∉ pre ∧ z ∉ rest ∧ (∀ x ∈ pre, x ∉ rest) := by
  have e : (pre ++ [z]) ++ rest = pre ++ z :: rest := by simp
  rw [e]
  refine ⟨hnd, ?_⟩
  rw [List.nodup_append] at hnd
  obtain ⟨h1, h2, h3⟩ := hnd
  rw [List.nodup_cons] at h2
  refine ⟨h1, h2.2, ?_, h2.1, ?_⟩
  · intro hz
    exact h3 z hz z (List.mem_cons_self ..) rfl
  · intro x hx hx'
    exact h3 x hx x (List.mem_cons_of_mem _ hx') rfl

/-- the step for `z :: rest`, unfolded -/
theorem level_intro {S : SR K} (hS : C01.SRLaws S) (star : K → K) (hstar : C09.StarLaw S star)
    (sz : Nat → Nat) (pre : List Nat) (z : Nat) (rest : List Nat) (hnd : (pre ++ z :: rest).Nodup)
    (a : MBlocks K) (b : VBlocks K) :
    ∃ a1 b1,
      luPhase S star sz (z :: rest) (a, b) = luPhase S star sz rest (a1, b1) ∧
      Level S star sz pre z rest a b a1 b1
        (backAux S star sz (luPhase S star sz rest (a1, b1)).1 (pre ++ [z]) rest (luPhase S star sz rest (a1, b1)).2)
        (backAux S star sz (luPhase S star sz (z :: rest) (a, b)).1 pre (z :: rest)
          (luPhase S star sz (z :: rest) (a, b)).2) := by
  obtain ⟨_, hpre, hrest, hzpre, hzrest, hdisj⟩ := nodup_parts hnd
  obtain ⟨r1, r2, r3⟩ := luRound hS star hstar sz rest hrest z hzrest (a, b)
  refine ⟨(rest.foldl (fun st x => luStep S star sz rest z x st) (a, b)).1,
    (rest.foldl (fun st x => luStep S star sz rest z x st) (a, b)).2, rfl, ?_⟩
  have hlu : luPhase S star sz (z :: rest) (a, b) = luPhase S star sz rest
      ((rest.foldl (fun st x => luStep S star sz rest z x st) (a, b)).1,
       (rest.foldl (fun st x => luStep S star sz rest z x st) (a, b)).2) := rfl
  rw [hlu]
  generalize rest.foldl (fun st x => luStep S star sz rest z x st) (a, b) = st1 at r1 r2 r3 ⊢
  obtain ⟨f1, f2⟩ := luPhase_frame hS star hstar sz rest (st1.1, st1.2) hrest
  generalize luPhase S star sz rest (st1.1, st1.2) = st' at f1 f2 ⊢
  have hba : backAux S star sz st'.1 pre (z :: rest) st'.2 =
      backStep S star sz st'.1 pre z (backAux S star sz st'.1 (pre ++ [z]) rest st'.2) := rfl
  rw [hba]
  obtain ⟨k1, k2, k3⟩ := backStep_spec hS star hstar sz st'.1 pre hpre z hzpre
    (backAux S star sz st'.1 (pre ++ [z]) rest st'.2)
  have hazz : dA S st'.1 z z = dA S a z z := by
    rw [dA_congr S _ _ z z (f1 z z (Or.inl hzrest)), dA_congr S _ _ z z (r1 z z hzrest)]
  refine ⟨?_, ?_, ?_, ?_, ?_, ?_, ?_⟩
  · intro x hx y
    exact dA_congr S _ _ x y (r1 x y hx)
  · intro x hx
    exact dB_congr S _ _ x (r2 x hx)
  · intro x hx y hy i j hi hj
    exact (r3 x hx).2.2.1 y hy i j hi hj
  · intro x hx i hi
    exact (r3 x hx).2.2.2 i hi
  · intro i hi
    rw [k1 i hi, hazz]
  · intro x hx i hi
    rw [k2 x hx i hi]
    have : dA S st'.1 x z = dA S a x z := by
      rw [dA_congr S _ _ x z (f1 x z (Or.inr hzrest)), dA_congr S _ _ x z (r1 x z (hdisj x hx))]
    rw [this]
  · intro x hx
    apply dB_congr
    apply k3
    · intro hxp; exact hdisj x hxp hx
    · intro e; exact hzrest (e ▸ hx)

/-! ### soundness -/

/-- **after both phases the vector blocks satisfy the equations** of the system restricted to the suffix `rest`;
the rows of the nonterminals in `pre` have absorbed `Σ_{y ∈ rest} a[x,y]·x[y]` -/
theorem lu_back_sound {S : SR K} (hS : C01.SRLaws S) (star : K → K) (hstar : C09.StarLaw S star)
    (sz : Nat → Nat) : ∀ (rest pre : List Nat) (a : MBlocks K) (b : VBlocks K), (pre ++ rest).Nodup →
      ∀ x ∈ pre ++ rest, ∀ i, i < sz x →
        dB S (backAux S star sz (luPhase S star sz rest (a, b)).1 pre rest (luPhase S star sz rest (a, b)).2) x i =
          S.add (dB S b x i) (rowSum S sz (dA S a) rest
            (dB S (backAux S star sz (luPhase S star sz rest (a, b)).1 pre rest (luPhase S star sz rest (a, b)).2))
            x i) := by
  have : Std.Associative S.add := ⟨hS.add_assoc⟩
  have : Std.Commutative S.add := ⟨hS.add_comm⟩
  intro rest
  induction rest with
  | nil =>
    intro pre a b _ x _ i _
    simp only [luPhase, backAux, rowSum_nil, add_zero hS]
  | cons z rest ih =>
    intro pre a b hnd x hx i hi
    obtain ⟨hnd', hpre, hrest, hzpre, hzrest, hdisj⟩ := nodup_parts hnd
    obtain ⟨a1, b1, hlu, L⟩ := level_intro hS star hstar sz pre z rest hnd a b
    have IH := ih (pre ++ [z]) a1 b1 hnd'
    generalize backAux S star sz (luPhase S star sz rest (a1, b1)).1 (pre ++ [z]) rest
      (luPhase S star sz rest (a1, b1)).2 = xb0 at L IH
    generalize backAux S star sz (luPhase S star sz (z :: rest) (a, b)).1 pre (z :: rest)
      (luPhase S star sz (z :: rest) (a, b)).2 = xb at L
    -- the sums over `rest` do not see the difference between `xb` and `xb0`
    have hX : ∀ x', rowSum S sz (dA S a) rest (dB S xb) x' = rowSum S sz (dA S a) rest (dB S xb0) x' := by
      intro x'; funext i'
      apply rowSum_congr
      · intro _ _ _ _; rfl
      · intro y hy j _; rw [L.xb_rest y hy]
    -- row `z` before the back step
    have hc : ∀ l, l < sz z → dB S xb0 z l = S.add (dB S b z l) (rowSum S sz (dA S a) rest (dB S xb0) z l) := by
      intro l hl
      rw [IH z (by simp) l hl, L.b1_out z hzrest]
      congr 1
      apply rowSum_congr
      · intro y _ j _; rw [L.a1_out z hzrest y]
      · intro _ _ _ _; rfl
    rw [rowSum_cons hS, hX]
    have hxcases : x ∈ pre ∨ x = z ∨ x ∈ rest := by
      rcases List.mem_append.1 hx with h | h
      · exact Or.inl h
      · rcases List.mem_cons.1 h with h | h
        · exact Or.inr (Or.inl h)
        · exact Or.inr (Or.inr h)
    rcases hxcases with hxp | rfl | hxr
    · -- a nonterminal before the suffix
      have hxr : x ∉ rest := hdisj x hxp
      rw [L.xb_pre x hxp i hi, IH x (by simp [hxp]) i hi, L.b1_out x hxr]
      have : rowSum S sz (dA S a1) rest (dB S xb0) x i = rowSum S sz (dA S a) rest (dB S xb0) x i := by
        apply rowSum_congr
        · intro y _ j _; rw [L.a1_out x hxr y]
        · intro _ _ _ _; rfl
      rw [this]
      ac_rfl
    · -- the eliminated nonterminal itself
      rw [L.xb_z i hi, sig_sol hS star hstar _ _ _ i hi, hc i hi]
      have : dot S (sz x) (dA S a x x i) (sig S star (sz x) (dA S a x x) (dB S xb0 x)) =
          dot S (sz x) (dA S a x x i) (dB S xb x) :=
        dot_congr S _ _ _ _ _ (fun _ _ => rfl) (fun l hl => (L.xb_z l hl).symm)
      rw [this]
      ac_rfl
    · -- a later nonterminal
      rw [L.xb_rest x hxr, IH x (by simp [hxr]) i hi]
      have e := elim_row hS sz rest (sz z) (Mx S star (sz z) (dA S a z z) (dA S a x z) i)
        (dB S b x i) (dB S b1 x i) (dB S b z) (fun y j => dA S a x y i j) (fun y j => dA S a1 x y i j)
        (fun y l j => dA S a z y l j) (dB S xb0) (L.b1_in x hxr i hi)
        (fun y hy j hj => L.a1_in x hxr y hy i j hi hj)
      have e' : S.add (dB S b1 x i) (rowSum S sz (dA S a1) rest (dB S xb0) x i) =
          S.add (S.add (dB S b x i) (rowSum S sz (dA S a) rest (dB S xb0) x i))
            (dot S (sz z) (Mx S star (sz z) (dA S a z z) (dA S a x z) i)
              (fun l => S.add (dB S b z l) (rowSum S sz (dA S a) rest (dB S xb0) z l))) := e
      rw [e']
      have e2 : dot S (sz z) (Mx S star (sz z) (dA S a z z) (dA S a x z) i)
            (fun l => S.add (dB S b z l) (rowSum S sz (dA S a) rest (dB S xb0) z l)) =
          dot S (sz z) (dA S a x z i) (dB S xb z) := by
        rw [dot_congr S (sz z) _ (Mx S star (sz z) (dA S a z z) (dA S a x z) i) _ (dB S xb0 z)
          (fun _ _ => rfl) (fun l hl => (hc l hl).symm), Mx_dot hS]
        exact dot_congr S _ _ _ _ _ (fun _ _ => rfl) (fun l hl => (L.xb_z l hl).symm)
      rw [e2]
      ac_rfl

/-! ### leastness -/

/-- **the vector blocks after both phases are below every pre-fixed point** of the system restricted to the
suffix `rest` -/
theorem lu_back_least {S : SR K} {le : K → K → Prop} {star : K → K} (h : C09b.OrdStarLaws S le star)
    (sz : Nat → Nat) (Y : Nat → Nat → K) : ∀ (rest pre : List Nat) (a : MBlocks K) (b : VBlocks K),
      (pre ++ rest).Nodup →
      (∀ x ∈ rest, ∀ i, i < sz x → le (S.add (dB S b x i) (rowSum S sz (dA S a) rest Y x i)) (Y x i)) →
      ∀ x ∈ rest, ∀ i, i < sz x →
        le (dB S (backAux S star sz (luPhase S star sz rest (a, b)).1 pre rest
          (luPhase S star sz rest (a, b)).2) x i) (Y x i) := by
  have hS := h.sr
  have hstar := h.star_law
  have : Std.Associative S.add := ⟨hS.add_assoc⟩
  have : Std.Commutative S.add := ⟨hS.add_comm⟩
  intro rest
  induction rest with
  | nil => intro pre a b _ _ x hx; exact absurd hx List.not_mem_nil
  | cons z rest ih =>
    intro pre a b hnd hY x hx i hi
    obtain ⟨hnd', hpre, hrest, hzpre, hzrest, hdisj⟩ := nodup_parts hnd
    obtain ⟨a1, b1, hlu, L⟩ := level_intro hS star hstar sz pre z rest hnd a b
    have IH := ih (pre ++ [z]) a1 b1 hnd'
    have SND := lu_back_sound hS star hstar sz rest (pre ++ [z]) a1 b1 hnd'
    generalize backAux S star sz (luPhase S star sz rest (a1, b1)).1 (pre ++ [z]) rest
      (luPhase S star sz rest (a1, b1)).2 = xb0 at L IH SND
    generalize backAux S star sz (luPhase S star sz (z :: rest) (a, b)).1 pre (z :: rest)
      (luPhase S star sz (z :: rest) (a, b)).2 = xb at L
    -- the hypothesis, with the sum over `z :: rest` split
    have hY' : ∀ x ∈ z :: rest, ∀ i, i < sz x →
        le (S.add (dB S b x i) (S.add (dot S (sz z) (dA S a x z i) (Y z)) (rowSum S sz (dA S a) rest Y x i)))
          (Y x i) := by
      intro x hx i hi
      have := hY x hx i hi
      rw [rowSum_cons hS] at this
      exact this
    -- row `z`: star induction
    have hz : ∀ l, l < sz z → le (sig S star (sz z) (dA S a z z)
        (fun l => S.add (dB S b z l) (rowSum S sz (dA S a) rest Y z l)) l) (Y z l) := by
      apply sig_least h
      intro l hl
      have := hY' z (List.mem_cons_self ..) l hl
      have e : S.add (dot S (sz z) (dA S a z z l) (Y z)) (S.add (dB S b z l) (rowSum S sz (dA S a) rest Y z l)) =
          S.add (dB S b z l) (S.add (dot S (sz z) (dA S a z z l) (Y z)) (rowSum S sz (dA S a) rest Y z l)) := by
        ac_rfl
      rw [e]
      exact this
    -- the reduced system has `Y` as a pre-fixed point
    have hY1 : ∀ x ∈ rest, ∀ i, i < sz x →
        le (S.add (dB S b1 x i) (rowSum S sz (dA S a1) rest Y x i)) (Y x i) := by
      intro x hxr i hi
      have e : S.add (dB S b1 x i) (rowSum S sz (dA S a1) rest Y x i) =
          S.add (S.add (dB S b x i) (rowSum S sz (dA S a) rest Y x i))
            (dot S (sz z) (Mx S star (sz z) (dA S a z z) (dA S a x z) i)
              (fun l => S.add (dB S b z l) (rowSum S sz (dA S a) rest Y z l))) :=
        elim_row hS sz rest (sz z) (Mx S star (sz z) (dA S a z z) (dA S a x z) i)
          (dB S b x i) (dB S b1 x i) (dB S b z) (fun y j => dA S a x y i j) (fun y j => dA S a1 x y i j)
          (fun y l j => dA S a z y l j) Y (L.b1_in x hxr i hi)
          (fun y hy j hj => L.a1_in x hxr y hy i j hi hj)
      rw [e, Mx_dot hS]
      refine h.trans _ _ _ ?_ (hY' x (List.mem_cons_of_mem _ hxr) i hi)
      have e2 : S.add (dB S b x i) (S.add (dot S (sz z) (dA S a x z i) (Y z)) (rowSum S sz (dA S a) rest Y x i)) =
          S.add (S.add (dB S b x i) (rowSum S sz (dA S a) rest Y x i)) (dot S (sz z) (dA S a x z i) (Y z)) := by
        ac_rfl
      rw [e2]
      exact h.add_mono _ _ _ _ (h.refl _) (dot_mono_right h _ _ _ _ hz)
    have hrestle := IH hY1
    rcases List.mem_cons.1 hx with rfl | hxr
    · -- the eliminated nonterminal
      rw [L.xb_z i hi]
      apply sig_least h _ _ _ _ _ i hi
      intro l hl
      have hc : dB S xb0 x l = S.add (dB S b x l) (rowSum S sz (dA S a) rest (dB S xb0) x l) := by
        rw [SND x (by simp) l hl, L.b1_out x hzrest]
        congr 1
        apply rowSum_congr
        · intro y _ j _; rw [L.a1_out x hzrest y]
        · intro _ _ _ _; rfl
      rw [hc]
      refine h.trans _ _ _ ?_ (hY' x (List.mem_cons_self ..) l hl)
      have e : S.add (dB S b x l) (S.add (dot S (sz x) (dA S a x x l) (Y x)) (rowSum S sz (dA S a) rest Y x l)) =
          S.add (dot S (sz x) (dA S a x x l) (Y x)) (S.add (dB S b x l) (rowSum S sz (dA S a) rest Y x l)) := by
        ac_rfl
      rw [e]
      exact h.add_mono _ _ _ _ (h.refl _) (h.add_mono _ _ _ _ (h.refl _)
        (rowSum_mono h sz _ rest _ _ x l (fun y hy j hj => hrestle y hy j hj)))
    · rw [L.xb_rest x hxr]
      exact hrestle x hxr i hi

end C09cL
