/-
C04dBaseLemmas — small facts for C04d: the first maximal candidate (`Ve.firstMax`) carries the Viterbi sum of the
weights, the propositional reading of the decider `Ve.ptrOk`, and list bookkeeping (lookups in zipped lists, blocks of
a `flatMap`).
-/
import FggsModel.VitEinsum
import FggsProofs.Props.C07d

set_option linter.unusedSimpArgs false
set_option linter.unusedVariables false

namespace C04dL
open Fggs Fggs.Ax Fggs.Un Fggs.Ei Fggs.Sem Fggs.Ve

/-! ### `firstMax` -/

theorem vit_step (x y : Ext) (hx : C08.VitC x) (hy : C08.VitC y) :
    (if Ext.gt y x then y else x) = Impl.vitAdd x y := by
  cases x <;> cases y <;> simp_all [C08.VitC, Impl.vitAdd, Ext.maximum, Ext.gt, Ext.lt]
  rename_i a b
  by_cases h : a < b
  · rw [if_pos h, max_eq_right (le_of_lt h)]
  · rw [if_neg h, max_eq_left (not_lt.1 h)]

theorem foldl_firstMax : ∀ (cs : List (List Nat × Ext)) (c : List Nat × Ext), C08.VitC c.2 → (∀ d ∈ cs, C08.VitC d.2) →
    (cs.foldl (fun best d => if Ext.gt d.2 best.2 then d else best) c).2 = (cs.map (·.2)).foldl Impl.vitAdd c.2 ∧
    (cs.foldl (fun best d => if Ext.gt d.2 best.2 then d else best) c) ∈ c :: cs
  | [], c, _, _ => ⟨rfl, by simp⟩
  | d :: cs, c, hc, hcs => by
    have hd := hcs d (by simp)
    have hcs' : ∀ x ∈ cs, C08.VitC x.2 := fun x hx => hcs x (by simp [hx])
    rw [List.foldl_cons, List.map_cons, List.foldl_cons, ← vit_step c.2 d.2 hc hd]
    by_cases hg : Ext.gt d.2 c.2 = true
    · rw [if_pos hg, if_pos hg]
      obtain ⟨h1, h2⟩ := foldl_firstMax cs d hd hcs'
      refine ⟨h1, ?_⟩
      rcases List.mem_cons.1 h2 with h | h
      · rw [h]; simp
      · simp [h]
    · rw [if_neg hg, if_neg hg]
      obtain ⟨h1, h2⟩ := foldl_firstMax cs c hc hcs'
      refine ⟨h1, ?_⟩
      rcases List.mem_cons.1 h2 with h | h
      · rw [h]; simp
      · simp [h]

/-- **the first maximal candidate carries the Viterbi sum of the weights** -/
theorem firstMax_snd (l : List (List Nat × Ext)) (hl : ∀ d ∈ l, C08.VitC d.2) :
    (firstMax l).2 = vitSR.sum (l.map (·.2)) := by
  cases l with
  | nil => rfl
  | cons c cs =>
    have hc := hl c (by simp)
    show (cs.foldl (fun best d => if Ext.gt d.2 best.2 then d else best) c).2 =
      (cs.map (·.2)).foldl Impl.vitAdd (Impl.vitAdd Ext.ninf c.2)
    rw [(foldl_firstMax cs c hc (fun d hd => hl d (by simp [hd]))).1]
    congr 1
    cases h : c.2 <;> simp_all [C08.VitC, Impl.vitAdd, Ext.maximum]

/-- … and is one of the candidates -/
theorem firstMax_mem (l : List (List Nat × Ext)) (hne : l ≠ []) (hl : ∀ d ∈ l, C08.VitC d.2) : firstMax l ∈ l := by
  cases l with
  | nil => exact absurd rfl hne
  | cons c cs =>
    exact (foldl_firstMax cs c (hl c (by simp)) (fun d hd => hl d (by simp [hd]))).2

/-! ### the reading of `ptrOk` -/

/-- the pointers of cell `v`, as natural numbers -/
def ptrs (n : Nat) (out ptr : PT) (v : List Nat) : List Nat :=
  ((List.range n).map (fun i => ((ptr.dense)[Ax.flat (out.vshape ++ [n]) (v ++ [i])]?.getD (Ext.fin 0)))).map
    (fun x => match x with | Ext.fin r => r.num.toNat | _ => 0)

theorem ptrOk_iff (S : SR Ext) (j : EJob) (innerIdx : List Nat) (sizes : Nat → Nat) (out ptr : PT) :
    ptrOk S j innerIdx sizes out ptr = true ↔
      ptr.vshape = out.vshape ++ [innerIdx.length] ∧
      ∀ v ∈ Ax.assigns out.vshape,
        let qn := ptrs innerIdx.length out ptr v
        let o := (out.dense)[Ax.flat out.vshape v]?.getD out.default
        (o ≠ S.zero → ∀ p ∈ innerIdx.zip qn, p.2 < sizes p.1) ∧
        ((∀ p ∈ innerIdx.zip qn, p.2 < sizes p.1) → weightAt S j (j.out ++ innerIdx) (v ++ qn) = o) := by
  unfold ptrOk ptrs
  simp only [Bool.and_eq_true, beq_iff_eq, List.all_eq_true, Bool.or_eq_true, decide_eq_true_eq, Bool.not_eq_true',
    Bool.not_eq_eq_eq_not, Bool.not_true]
  constructor
  · rintro ⟨h1, h2⟩
    refine ⟨h1, fun v hv => ?_⟩
    obtain ⟨h3, h4⟩ := h2 v hv
    refine ⟨fun hne => ?_, fun hin => ?_⟩
    · rcases h3 with h3 | h3
      · exact absurd h3 hne
      · exact h3
    · rcases h4 with h4 | h4
      · exfalso
        rw [← Bool.not_eq_true, List.all_eq_true] at h4
        apply h4
        intro p hp
        simpa using hin p hp
      · exact h4
  · rintro ⟨h1, h2⟩
    refine ⟨h1, fun v hv => ?_⟩
    obtain ⟨h3, h4⟩ := h2 v hv
    refine ⟨?_, ?_⟩
    · by_cases ho : (out.dense)[Ax.flat out.vshape v]?.getD out.default = S.zero
      · exact .inl ho
      · right
        intro p hp
        simpa using h3 ho p hp
    · by_cases hin : ∀ p ∈ innerIdx.zip (ptrs innerIdx.length out ptr v), p.2 < sizes p.1
      · exact .inr (h4 hin)
      · left
        rw [← Bool.not_eq_true, List.all_eq_true]
        intro hall
        apply hin
        intro p hp
        simpa using hall p hp

section lists
open C06dL
/-! ### lists -/

theorem zip_map_self {α β γ : Type} (l : List α) (g : α → β) (h : α × β → γ) :
    (l.zip (l.map g)).map h = l.map (fun a => h (a, g a)) := by
  induction l with
  | nil => rfl
  | cons a l ih => simp [ih]

theorem lookup_zip_append {α β : Type} [BEq α] (l1 l2 : List α) (v1 v2 : List β) (h : l1.length = v1.length) (x : α) :
    ((l1 ++ l2).zip (v1 ++ v2)).lookup x = ((l1.zip v1).lookup x).or ((l2.zip v2).lookup x) := by
  rw [List.zip_append h, List.lookup_append]

theorem lookup_zip_none {α β : Type} [BEq α] [LawfulBEq α] : ∀ (l : List α) (v : List β) (x : α), x ∉ l →
    (l.zip v).lookup x = none
  | [], _, _, _ => by simp
  | _ :: _, [], _, _ => by simp
  | a :: l, b :: v, x, h => by
    simp only [List.mem_cons, not_or] at h
    have : (x == a) = false := by simpa using h.1
    simp only [List.zip_cons_cons, List.lookup_cons, this]
    exact lookup_zip_none l v x h.2

theorem lookup_zip_some {α β : Type} [BEq α] [LawfulBEq α] : ∀ (l : List α) (v : List β) (x : α), x ∈ l →
    l.length = v.length → ∃ y, (l.zip v).lookup x = some y
  | [], _, _, h, _ => by simp at h
  | _ :: _, [], _, _, h => by simp at h
  | a :: l, b :: v, x, h, hl => by
    simp only [List.zip_cons_cons, List.lookup_cons]
    by_cases e : x = a
    · subst e; simp
    · have : (x == a) = false := by simpa using e
      simp only [this]
      rcases List.mem_cons.1 h with h | h
      · exact absurd h e
      · exact lookup_zip_some l v x h (by simpa using hl)

theorem mem_zip_of_lookup {α β : Type} [BEq α] [LawfulBEq α] : ∀ (l : List (α × β)) (x : α) (y : β),
    l.lookup x = some y → (x, y) ∈ l
  | [], _, _, h => by simp at h
  | (a, b) :: l, x, y, h => by
    simp only [List.lookup_cons] at h
    by_cases e : x = a
    · subst e
      simp at h
      subst h; simp
    · have : (x == a) = false := by simpa using e
      simp only [this] at h
      exact List.mem_cons_of_mem _ (mem_zip_of_lookup l x y h)

/-- with distinct keys the values are recovered by lookup -/
theorem map_lookup_zip {β : Type} [Inhabited β] : ∀ (l : List Nat) (v : List β), l.Nodup → l.length = v.length →
    v = l.map (fun x => ((l.zip v).lookup x).getD default)
  | [], [], _, _ => rfl
  | [], _ :: _, _, h => by simp at h
  | _ :: _, [], _, h => by simp at h
  | a :: l, b :: v, hn, hl => by
    rw [List.nodup_cons] at hn
    rw [List.map_cons]
    congr 1
    · simp
    · have ih := map_lookup_zip l v hn.2 (by simpa using hl)
      conv_lhs => rw [ih]
      apply List.map_congr_left
      intro x hx
      have : (x == a) = false := by
        rw [beq_eq_false_iff_ne]
        intro e; subst e; exact hn.1 hx
      simp only [List.zip_cons_cons, List.lookup_cons, this]

theorem lookup_zip_map_pair {β γ : Type} (h : β → γ) : ∀ (l : List (Nat × β)) (x : Nat),
    ((l.map (·.1)).zip (l.map (fun p => h p.2))).lookup x = (l.lookup x).map h
  | [], _ => rfl
  | (a, b) :: l, x => by
    simp only [List.map_cons, List.zip_cons_cons, List.lookup_cons]
    cases hx : x == a
    · exact lookup_zip_map_pair h l x
    · rfl

theorem lookup_filter_key {β : Type} (P : Nat → Bool) : ∀ (l : List (Nat × β)) (x : Nat),
    (l.filter (fun p => P p.1)).lookup x = if P x then l.lookup x else none
  | [], _ => by simp
  | (a, b) :: l, x => by
    rw [List.filter_cons]
    by_cases e : x = a
    · subst e
      cases hp : P x
      · simp only [Bool.false_eq_true, if_false]
        rw [lookup_filter_key P l x, hp]; simp
      · simp [List.lookup_cons]
    · have hb : (x == a) = false := by simpa using e
      cases hp : P a
      · simp only [Bool.false_eq_true, if_false, List.lookup_cons, hb]
        exact lookup_filter_key P l x
      · simp only [if_true, List.lookup_cons, hb]
        exact lookup_filter_key P l x

theorem lookup_of_mem_nodup {β : Type} : ∀ (l : List (Nat × β)), (l.map (·.1)).Nodup → ∀ p ∈ l, l.lookup p.1 = some p.2
  | [], _, p, hp => by simp at hp
  | (a, b) :: l, hn, p, hp => by
    rw [List.map_cons, List.nodup_cons] at hn
    rcases List.mem_cons.1 hp with rfl | hp
    · simp [List.lookup_cons]
    · have : (p.1 == a) = false := by
        rw [beq_eq_false_iff_ne]
        intro e
        exact hn.1 (e ▸ List.mem_map_of_mem (f := (·.1)) hp)
      simp only [List.lookup_cons, this]
      exact lookup_of_mem_nodup l hn.2 p hp

/-- a block of a `flatMap` with blocks of equal length -/
theorem getElem?_flatMap_block {α β : Type} (g : α → List β) (m : Nat) : ∀ (fs : List α), (∀ f ∈ fs, (g f).length = m) →
    ∀ (i k : Nat) (f : α), fs[i]? = some f → k < m → (fs.flatMap g)[i * m + k]? = (g f)[k]?
  | [], _, i, k, f, h, _ => by simp at h
  | f0 :: fs, hl, 0, k, f, h, hk => by
    simp only [List.getElem?_cons_zero, Option.some.injEq] at h
    subst h
    rw [List.flatMap_cons, Nat.zero_mul, Nat.zero_add, List.getElem?_append_left]
    rw [hl f0 (by simp)]; exact hk
  | f0 :: fs, hl, i+1, k, f, h, hk => by
    simp only [List.getElem?_cons_succ] at h
    rw [List.flatMap_cons, List.getElem?_append_right (by rw [hl f0 (by simp)]; nlinarith)]
    rw [hl f0 (by simp)]
    have : (i + 1) * m + k - m = i * m + k := by
      rw [Nat.succ_mul]; omega
    rw [this]
    exact getElem?_flatMap_block g m fs (fun f hf => hl f (by simp [hf])) i k f h hk

theorem numel_pos : ∀ (shape : List Nat), (∀ n ∈ shape, 0 < n) → 0 < Ax.numel shape
  | [], _ => by simp [Ax.numel]
  | n :: rest, h => by
    rw [numel_cons]
    exact Nat.mul_pos (h n (by simp)) (numel_pos rest (fun m hm => h m (by simp [hm])))

theorem assigns_ne_nil (shape : List Nat) (h : ∀ n ∈ shape, 0 < n) : Ax.assigns shape ≠ [] := by
  intro hnil
  have hp := numel_pos shape h
  rw [← length_assigns, hnil] at hp
  simp at hp

end lists

end C04dL
