/-
C13bCombLemmas — the combinatorial core of C13b: the decision procedure of `PatternedTensor.equal` computed from a list
`L` of pairs of flat positions (the overlap as `compareImpl` enumerates it) is the one `PT.compareModel` computes from
the two lists of cells, whenever `L` lists, without repetition, exactly the pairs of positions holding the same key.
-/
import FggsModel.EqualImpl
import Mathlib.Tactic.Linarith
import Mathlib.Data.List.Basic
import Mathlib.Data.List.Nodup
import Mathlib.Data.List.Perm.Basic

set_option linter.unusedSimpArgs false
set_option linter.unusedVariables false

namespace C13bL
open Fggs Fggs.Ax Fggs.Eq

theorem mark_getElem (ok : List Bool) (pos : List Nat) (i : Nat) (h : i < (mark ok pos).length)
    (h' : i < ok.length) : (mark ok pos)[i] = (ok[i] || pos.contains i) := by
  simp [mark]

/-- marking no position changes nothing -/
theorem mark_nil (ok : List Bool) : mark ok [] = ok := by
  apply List.ext_getElem
  · simp [mark]
  · intro i h1 h2
    rw [mark_getElem _ _ _ h1 h2]
    simp

theorem mark_length (ok : List Bool) (pos : List Nat) : (mark ok pos).length = ok.length := by
  simp [mark]

/-- `(mark ok pos).all id`: every position holds `true` or is marked -/
theorem mark_all (ok : List Bool) (pos : List Nat) :
    (mark ok pos).all id = true ↔ ∀ i (hi : i < ok.length), ok[i] = true ∨ i ∈ pos := by
  rw [List.all_eq_true]
  constructor
  · intro h i hi
    have hi' : i < (mark ok pos).length := by rw [mark_length]; exact hi
    have := h _ (List.getElem_mem hi')
    rw [mark_getElem _ _ _ hi' hi] at this
    simpa using this
  · intro h x hx
    obtain ⟨i, hi', rfl⟩ := List.mem_iff_getElem.mp hx
    have hi : i < ok.length := by rw [mark_length] at hi'; exact hi'
    rw [mark_getElem _ _ _ hi' hi]
    simpa using h i hi

section generic
variable {K V : Type} [BEq K] [LawfulBEq K]

/-- with duplicate-free keys, looking a present cell's key up finds that cell -/
theorem find_key (cu : List (K × V)) (hnu : (cu.map (·.1)).Nodup) (q : K × V) (hq : q ∈ cu) :
    cu.find? (·.1 == q.1) = some q := by
  cases h : cu.find? (·.1 == q.1) with
  | none =>
    rw [List.find?_eq_none] at h
    have := h q hq
    simp at this
  | some q' =>
    have h1 : q'.1 = q.1 := by simpa using List.find?_some h
    have h2 : q' ∈ cu := List.mem_of_find?_eq_some h
    rw [List.inj_on_of_nodup_map hnu h2 hq h1]

omit [BEq K] [LawfulBEq K] in
theorem key_inj (cu : List (K × V)) (hnu : (cu.map (·.1)).Nodup) (i j : Nat) (hi : i < cu.length)
    (hj : j < cu.length) (h : cu[i].1 = cu[j].1) : i = j := by
  have h1 : i < (cu.map (·.1)).length := by simpa using hi
  have h2 : j < (cu.map (·.1)).length := by simpa using hj
  exact (List.Nodup.getElem_inj_iff hnu (hi := h1) (hj := h2)).mp (by simpa using h)

/-- part (1): the elementwise comparisons -/
theorem core_all (f : V → V → Bool) (td ud : V) (ct cu : List (K × V))
    (hnu : (cu.map (·.1)).Nodup) (L : List (Nat × Nat))
    (hmem : ∀ i j, (i, j) ∈ L ↔ ∃ (hi : i < ct.length) (hj : j < cu.length), ct[i].1 = cu[j].1) :
    L.all (fun c => f ((ct.map (·.2))[c.1]?.getD td) ((cu.map (·.2))[c.2]?.getD ud)) = true ↔
    (ct.filter (fun p => cu.any (·.1 == p.1))).all
       (fun p => match cu.find? (·.1 == p.1) with | some q => f p.2 q.2 | none => true) = true := by
  rw [List.all_eq_true, List.all_eq_true]
  constructor
  · intro h p hp
    rw [List.mem_filter, List.any_eq_true] at hp
    obtain ⟨hpc, q, hq, hqp⟩ := hp
    have hqp' : q.1 = p.1 := by simpa using hqp
    obtain ⟨i, hi, rfl⟩ := List.mem_iff_getElem.mp hpc
    obtain ⟨j, hj, rfl⟩ := List.mem_iff_getElem.mp hq
    have hL : (i, j) ∈ L := (hmem i j).mpr ⟨hi, hj, hqp'.symm⟩
    have := h _ hL
    rw [← hqp', find_key cu hnu _ (List.getElem_mem hj)]
    simpa [hi, hj] using this
  · intro h c hc
    obtain ⟨i, j⟩ := c
    obtain ⟨hi, hj, hk⟩ := (hmem i j).mp hc
    have hp : ct[i] ∈ ct.filter (fun p => cu.any (·.1 == p.1)) := by
      rw [List.mem_filter, List.any_eq_true]
      exact ⟨List.getElem_mem hi, cu[j], List.getElem_mem hj, by simp [hk]⟩
    have := h _ hp
    rw [hk, find_key cu hnu _ (List.getElem_mem hj)] at this
    simpa [hi, hj] using this

/-- part (2): the number of overlapping pairs -/
theorem core_length (ct cu : List (K × V))
    (hnt : (ct.map (·.1)).Nodup) (hnu : (cu.map (·.1)).Nodup)
    (L : List (Nat × Nat)) (hL : L.Nodup)
    (hmem : ∀ i j, (i, j) ∈ L ↔ ∃ (hi : i < ct.length) (hj : j < cu.length), ct[i].1 = cu[j].1) :
    L.length = (ct.filter (fun p => cu.any (·.1 == p.1))).length := by
  classical
  have hn1 : (L.map (fun c => (ct.map (·.1))[c.1]?)).Nodup := by
    apply List.Nodup.map_on _ hL
    rintro ⟨i, j⟩ hc ⟨i', j'⟩ hc' heq
    obtain ⟨hi, hj, hk⟩ := (hmem i j).mp hc
    obtain ⟨hi', hj', hk'⟩ := (hmem i' j').mp hc'
    have heq' : ct[i].1 = ct[i'].1 := by simpa [hi, hi'] using heq
    have hii : i = i' := key_inj ct hnt i i' hi hi' heq'
    subst hii
    have hjj : j = j' := key_inj cu hnu j j' hj hj' (by rw [← hk, ← hk'])
    subst hjj
    rfl
  have hn2 : ((ct.filter (fun p => cu.any (·.1 == p.1))).map (fun p => some p.1)).Nodup := by
    have h1 : ((ct.filter (fun p => cu.any (·.1 == p.1))).map (·.1)).Nodup :=
      List.Nodup.sublist (List.Sublist.map _ List.filter_sublist) hnt
    have := List.Nodup.map (f := some) (fun a b h => Option.some.inj h) h1
    rw [List.map_map] at this
    exact this
  have hperm : (L.map (fun c => (ct.map (·.1))[c.1]?)).Perm
      ((ct.filter (fun p => cu.any (·.1 == p.1))).map (fun p => some p.1)) := by
    rw [List.perm_ext_iff_of_nodup hn1 hn2]
    intro a
    rw [List.mem_map, List.mem_map]
    constructor
    · rintro ⟨⟨i, j⟩, hc, rfl⟩
      obtain ⟨hi, hj, hk⟩ := (hmem i j).mp hc
      refine ⟨ct[i], ?_, by simp [hi]⟩
      rw [List.mem_filter, List.any_eq_true]
      exact ⟨List.getElem_mem hi, cu[j], List.getElem_mem hj, by simp [hk]⟩
    · rintro ⟨p, hp, rfl⟩
      rw [List.mem_filter, List.any_eq_true] at hp
      obtain ⟨hpc, q, hq, hqp⟩ := hp
      have hqp' : q.1 = p.1 := by simpa using hqp
      obtain ⟨i, hi, rfl⟩ := List.mem_iff_getElem.mp hpc
      obtain ⟨j, hj, rfl⟩ := List.mem_iff_getElem.mp hq
      exact ⟨(i, j), (hmem i j).mpr ⟨hi, hj, hqp'.symm⟩, by simp [hi]⟩
  have := hperm.length_eq
  simpa using this

/-- parts (3)/(4): every cell equals the other default or is marked -/
theorem core_mark (g : V → Bool) (as bs : List (K × V)) (P : List Nat)
    (hP : ∀ i, i ∈ P ↔ ∃ (hi : i < as.length), ∃ q ∈ bs, q.1 = as[i].1) :
    (mark ((as.map (·.2)).map g) P).all id = as.all (fun p => g p.2 || bs.any (·.1 == p.1)) := by
  rw [Bool.eq_iff_iff, mark_all, List.all_eq_true]
  constructor
  · intro h p hp
    obtain ⟨i, hi, rfl⟩ := List.mem_iff_getElem.mp hp
    rcases h i (by simpa using hi) with h1 | h1
    · simp at h1; simp [h1]
    · obtain ⟨_, q, hq, hk⟩ := (hP i).mp h1
      rw [Bool.or_eq_true, List.any_eq_true]
      exact Or.inr ⟨q, hq, by simp [hk]⟩
  · intro h i hi
    have hi' : i < as.length := by simpa using hi
    have := h _ (List.getElem_mem hi')
    rw [Bool.or_eq_true, List.any_eq_true] at this
    rcases this with h1 | ⟨q, hq, hk⟩
    · left; simpa using h1
    · right; exact (hP i).mpr ⟨hi', q, hq, by simpa using hk⟩

end generic

/-- **the combinatorial core**: `ct`, `cu` are the cells (key, value) of the two operands in flat-position order, `L`
the list of pairs of positions the implementation enumerates -/
theorem compare_core (cmp : Ext → Ext → Bool) (td ud : Ext) (n : Nat) (ct cu : List (List Nat × Ext))
    (hnt : (ct.map (·.1)).Nodup) (hnu : (cu.map (·.1)).Nodup)
    (L : List (Nat × Nat)) (hL : L.Nodup)
    (hmem : ∀ i j, (i, j) ∈ L ↔ ∃ (hi : i < ct.length) (hj : j < cu.length), ct[i].1 = cu[j].1) :
    (if !(L.all (fun c => cmp ((ct.map (·.2))[c.1]?.getD td) ((cu.map (·.2))[c.2]?.getD ud))) then false
     else
       (decide (n + L.length ≤ (mark ((ct.map (·.2)).map (fun x => cmp x ud)) (L.map (·.1))).length
                 + (mark ((cu.map (·.2)).map (fun y => cmp td y)) (L.map (·.2))).length) || cmp td ud) &&
        (mark ((ct.map (·.2)).map (fun x => cmp x ud)) (L.map (·.1))).all id &&
        (mark ((cu.map (·.2)).map (fun y => cmp td y)) (L.map (·.2))).all id)
    =
    (if !((ct.filter (fun p => cu.any (·.1 == p.1))).all
            (fun p => match cu.find? (·.1 == p.1) with | some q => cmp p.2 q.2 | none => true)) then false
     else
       (decide (n + (ct.filter (fun p => cu.any (·.1 == p.1))).length ≤ ct.length + cu.length) || cmp td ud) &&
        ct.all (fun p => cmp p.2 ud || cu.any (·.1 == p.1)) &&
        cu.all (fun q => cmp td q.2 || ct.any (·.1 == q.1))) := by
  have hA := core_all cmp td ud ct cu hnu L hmem
  have hB := core_length ct cu hnt hnu L hL hmem
  have hC := core_mark (fun x => cmp x ud) ct cu (L.map (·.1)) (by
    intro i
    rw [List.mem_map]
    constructor
    · rintro ⟨⟨i', j⟩, hc, rfl⟩
      obtain ⟨hi, hj, hk⟩ := (hmem i' j).mp hc
      exact ⟨hi, cu[j], List.getElem_mem hj, hk.symm⟩
    · rintro ⟨hi, q, hq, hk⟩
      obtain ⟨j, hj, rfl⟩ := List.mem_iff_getElem.mp hq
      exact ⟨(i, j), (hmem i j).mpr ⟨hi, hj, hk.symm⟩, rfl⟩)
  have hD := core_mark (fun y => cmp td y) cu ct (L.map (·.2)) (by
    intro j
    rw [List.mem_map]
    constructor
    · rintro ⟨⟨i, j'⟩, hc, rfl⟩
      obtain ⟨hi, hj, hk⟩ := (hmem i j').mp hc
      exact ⟨hj, ct[i], List.getElem_mem hi, hk⟩
    · rintro ⟨hj, q, hq, hk⟩
      obtain ⟨i, hi, rfl⟩ := List.mem_iff_getElem.mp hq
      exact ⟨(i, j), (hmem i j).mpr ⟨hi, hj, hk⟩, rfl⟩)
  rw [hC, hD, mark_length, mark_length, hB]
  simp only [List.length_map]
  rw [Bool.eq_iff_iff.mpr hA]
  congr
  funext p
  generalize List.find? (fun x => x.1 == p.1) cu = o
  cases o <;> rfl

end C13bL
