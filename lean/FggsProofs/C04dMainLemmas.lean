/-
C04dMainLemmas — the patterned Viterbi einsum (`Ve.vitEinsum`) after a successful first pass: its components as
separate definitions (on top of those of C07bMainLemmas), the dense cells of the pointer tensor in its three layouts,
and the weight of the pointed-at assignment.
-/
import FggsProofs.C04dBaseLemmas
import FggsProofs.Props.C07e

set_option linter.unusedSimpArgs false
set_option linter.unusedVariables false
set_option linter.unusedSectionVars false

namespace C04dL
open Fggs Fggs.Ax Fggs.Un Fggs.Ei Fggs.Sem Fggs.Ve C06b C06dL C07 C07bL

/-! ### carrier -/

theorem viewAt_mem {S : SR Ext} {C : Ext → Prop} (hz : C S.zero) (σ : Subst) (t : PT) (ht : ∀ c ∈ t.physical, C c)
    (ρ : Nat → Nat) : C (viewAt S σ t ρ) := by
  unfold viewAt
  simp only
  cases h : t.physical[Ax.flat (t.paxes.map (·.2)) (t.paxes.map (fun k => (clone σ FUEL (Axis.phys k.1 k.2)).eval ρ))]? with
  | none => exact hz
  | some x => exact ht x (List.mem_of_getElem? h)

theorem viewProd_mem {S : SR Ext} {C : Ext → Prop} (hC : CarrierLaws S C) (j : EJob)
    (hvals : ∀ p ∈ j.ops, ∀ c ∈ p.1.physical, C c) (σ : Subst) (ρ : Nat → Nat) :
    C (viewProd S j σ ρ) := by
  apply C07dL.prod_mem hC
  intro x hx
  obtain ⟨p, hp, rfl⟩ := List.mem_map.1 hx
  exact viewAt_mem hC.zero σ p.1 (hvals p hp) ρ

/-! ### the components of the model -/

/-- the candidates of the output assignment `a`: every assignment of the inner axes with its weight -/
def candOf (S : SR Ext) (j : EJob) (tbl : List (Nat × Axis)) (σ : Subst) (a : List Nat) : List (List Nat × Ext) :=
  (Ax.assigns ((innerOf j tbl σ).map (fun k => k.2))).map (fun b =>
    (b, S.prod (j.ops.map (fun p => viewAt S σ p.1 (envOf (outAxesOf j tbl σ ++ innerOf j tbl σ) (a ++ b))))))

def bestOf (S : SR Ext) (j : EJob) (tbl : List (Nat × Axis)) (σ : Subst) (a : List Nat) : List Nat × Ext :=
  firstMax (candOf S j tbl σ a)

def bestL (S : SR Ext) (j : EJob) (tbl : List (Nat × Axis)) (σ : Subst) : List (List Nat × Ext) :=
  (Ax.assigns ((outAxesOf j tbl σ).map (fun k => k.2))).map (bestOf S j tbl σ)

/-- the maximum before the constructor's normalisation -/
def rawV (S : SR Ext) (j : EJob) (tbl : List (Nat × Axis)) (σ : Subst) : PT :=
  { physical := (bestL S j tbl σ).map (·.2), paxes := outAxesOf j tbl σ, vaxes := outVaxesOf j tbl σ, default := S.zero }

def formsOf (j : EJob) (tbl : List (Nat × Axis)) (σ : Subst) : List (Nat × Sd.Coeffs) :=
  (innerVars j tbl).map (fun p => Sd.strideS σ FUEL p.2)

def ptrOf (S : SR Ext) (j : EJob) (tbl : List (Nat × Axis)) (σ : Subst) (f : Nat × Sd.Coeffs) : List Ext :=
  ((Ax.assigns ((outAxesOf j tbl σ).map (fun k => k.2))).zip (bestL S j tbl σ)).map (fun ab =>
    Ext.ofNat (Sd.applyS f (envOf (outAxesOf j tbl σ ++ innerOf j tbl σ) (ab.1 ++ ab.2.1))))

/-- the pointer tensor -/
def ptrT (S : SR Ext) (j : EJob) (tbl : List (Nat × Axis)) (σ : Subst) (fresh : Nat) : PT :=
  match formsOf j tbl σ with
  | [] => { physical := [], paxes := outAxesOf j tbl σ ++ [(fresh, 0)], vaxes := outVaxesOf j tbl σ ++ [Axis.phys fresh 0],
            default := Ext.fin 0 }
  | [f] => { physical := ptrOf S j tbl σ f, paxes := outAxesOf j tbl σ, vaxes := outVaxesOf j tbl σ ++ [unitAxis],
             default := Ext.fin 0 }
  | _ => { physical := (formsOf j tbl σ).flatMap (ptrOf S j tbl σ), paxes := (fresh, (innerVars j tbl).length) :: outAxesOf j tbl σ,
           vaxes := outVaxesOf j tbl σ ++ [Axis.phys fresh (innerVars j tbl).length], default := Ext.fin 0 }

theorem vitEinsum_eq (S : SR Ext) (fuel : Nat) (j : EJob) (next : Nat) (tbl : List (Nat × Axis)) (st : St)
    (hne : j.ops ≠ []) (hc : collect fuel j next = (tbl, true, st))
    (hz : (allAxesOf j st.subst).any (fun k => k.2 == 0) = false) :
    vitEinsum S fuel j next = (Bn.normalize (rawV S j tbl st.subst), ptrT S j tbl st.subst (st.next + 1)) := by
  have he : j.ops.isEmpty = false := by
    cases h : j.ops with
    | nil => exact absurd h hne
    | cons _ _ => rfl
  unfold vitEinsum
  rw [he, hc]
  simp only [Bool.false_eq_true, if_false, Bool.not_true]
  have hz' : ((List.map (fun p => viewAxes st.subst p.1) j.ops).flatten.eraseDups.any fun k => k.2 == 0) = false := hz
  rw [hz']
  simp only [Bool.false_eq_true, if_false]
  rfl

/-- the maximum is the einsum over the Viterbi semiring -/
theorem rawV_eq (j : EJob) (tbl : List (Nat × Axis)) (σ : Subst)
    (hvals : ∀ p ∈ j.ops, ∀ c ∈ p.1.physical, C08.VitC c) : rawV vitSR j tbl σ = rawOf vitSR j tbl σ := by
  unfold rawV rawOf
  congr 1
  unfold bestL physOf
  rw [List.map_map]
  apply List.map_congr_left
  intro a _
  simp only [Function.comp]
  unfold bestOf
  rw [firstMax_snd]
  · unfold candOf
    rw [List.map_map]
    rfl
  · intro d hd
    unfold candOf at hd
    obtain ⟨b, _, rfl⟩ := List.mem_map.1 hd
    exact viewProd_mem vitSR_carrier j hvals _ _

/-! ### the layouts of the pointer tensor -/

/-- layout with ONE summed-out variable: a trailing unit axis -/
theorem layout_one (P : List Ext) (OA : List (Nat × Nat)) (OV : List Axis) (d : Ext)
    (nodup : (OA.map (·.1)).Nodup) (fvsub : ∀ e ∈ OV, ∀ q ∈ e.fv, q ∈ OA) (occ : ∀ p ∈ OA, ∃ e ∈ OV, p ∈ e.fv)
    (α : Nat → Nat) (hα : ∀ q ∈ OA, α q.1 < q.2) :
    (PT.mk P OA (OV ++ [unitAxis]) d).dense[Ax.flat (PT.mk P OA (OV ++ [unitAxis]) d).vshape (OV.map (Axis.eval α) ++ [0])]? =
      some (P[Ax.flat (OA.map (·.2)) (pidx OA α)]?.getD d) := by
  have hs : C06dL.Sem (PT.mk P OA (OV ++ [unitAxis]) d) := by
    apply sem_of_occ nodup
    · intro e he q hq
      simp only [List.mem_append, List.mem_singleton] at he
      rcases he with he | rfl
      · exact fvsub e he q hq
      · simp [unitAxis_fv] at hq
    · intro p hp
      obtain ⟨e, he, hpe⟩ := occ p hp
      exact ⟨e, List.mem_append_left _ he, hpe⟩
  have hb : Backs (PT.mk P OA (OV ++ [unitAxis]) d) (OV.map (Axis.eval α) ++ [0]) α := by
    refine ⟨hα, ?_⟩
    simp [unitAxis_eval]
  exact dense_backed hs hb

/-- layout with SEVERAL summed-out variables: a leading physical axis that indexes them -/
theorem layout_many (P : List Ext) (OA : List (Nat × Nat)) (OV : List Axis) (d : Ext) (fresh n : Nat)
    (nodup : (OA.map (·.1)).Nodup) (fvsub : ∀ e ∈ OV, ∀ q ∈ e.fv, q ∈ OA) (occ : ∀ p ∈ OA, ∃ e ∈ OV, p ∈ e.fv)
    (hfresh : ∀ q ∈ OA, q.1 ≠ fresh)
    (α : Nat → Nat) (hα : ∀ q ∈ OA, α q.1 < q.2) (i : Nat) (hi : i < n) :
    (PT.mk P ((fresh, n) :: OA) (OV ++ [Axis.phys fresh n]) d).dense[
        Ax.flat (PT.mk P ((fresh, n) :: OA) (OV ++ [Axis.phys fresh n]) d).vshape (OV.map (Axis.eval α) ++ [i])]? =
      some (P[i * Ax.numel (OA.map (·.2)) + Ax.flat (OA.map (·.2)) (pidx OA α)]?.getD d) := by
  have hs : C06dL.Sem (PT.mk P ((fresh, n) :: OA) (OV ++ [Axis.phys fresh n]) d) := by
    apply sem_of_occ
    · show (((fresh, n) :: OA).map (·.1)).Nodup
      rw [List.map_cons, List.nodup_cons]
      refine ⟨?_, nodup⟩
      intro hm
      obtain ⟨q, hq, he⟩ := List.mem_map.1 hm
      exact hfresh q hq he
    · intro e he q hq
      simp only [List.mem_append, List.mem_singleton] at he
      rcases he with he | rfl
      · exact List.mem_cons_of_mem _ (fvsub e he q hq)
      · simp only [Axis.fv, List.mem_singleton] at hq
        rw [hq]; exact List.mem_cons_self ..
    · intro p hp
      rcases List.mem_cons.1 hp with rfl | hp
      · exact ⟨_, List.mem_append_right _ (List.mem_singleton.2 rfl), by simp [Axis.fv]⟩
      · obtain ⟨e, he, hpe⟩ := occ p hp
        exact ⟨e, List.mem_append_left _ he, hpe⟩
  let α' : Nat → Nat := fun x => if x = fresh then i else α x
  have hag : ∀ q ∈ OA, α' q.1 = α q.1 := by
    intro q hq
    simp only [α', hfresh q hq, if_false]
  have hb : Backs (PT.mk P ((fresh, n) :: OA) (OV ++ [Axis.phys fresh n]) d) (OV.map (Axis.eval α) ++ [i]) α' := by
    refine ⟨?_, ?_⟩
    · intro q hq
      rcases List.mem_cons.1 hq with rfl | hq
      · simp only [α', if_true]; exact hi
      · rw [hag q hq]; exact hα q hq
    · show (OV ++ [Axis.phys fresh n]).map (Axis.eval α') = _
      rw [List.map_append]
      congr 1
      · apply List.map_congr_left
        intro e he
        apply eval_congr
        intro q hq
        exact hag q (fvsub e he q hq)
      · simp [Axis.eval, α']
  rw [dense_backed hs hb]
  congr 3
  show Ax.flat (n :: OA.map (·.2)) (α' fresh :: pidx OA α') = _
  rw [pidx_congr hag]
  simp only [α', if_true]
  rfl

/-! ### the components, cell by cell -/

theorem ptrOf_eq (S : SR Ext) (j : EJob) (tbl : List (Nat × Axis)) (σ : Subst) (f : Nat × Sd.Coeffs) :
    ptrOf S j tbl σ f = (Ax.assigns ((outAxesOf j tbl σ).map (fun k => k.2))).map (fun a =>
      Ext.ofNat (Sd.applyS f (envOf (wAxes j tbl σ) (a ++ (bestOf S j tbl σ a).1)))) := by
  unfold ptrOf bestL wAxes
  exact zip_map_self _ _ _

theorem ptrOf_length (S : SR Ext) (j : EJob) (tbl : List (Nat × Axis)) (σ : Subst) (f : Nat × Sd.Coeffs) :
    (ptrOf S j tbl σ f).length = Ax.numel ((outAxesOf j tbl σ).map (fun k => k.2)) := by
  rw [ptrOf_eq, List.length_map, length_assigns]

theorem ptrT_vshape (S : SR Ext) (j : EJob) (tbl : List (Nat × Axis)) (σ : Subst) (fresh : Nat) :
    (ptrT S j tbl σ fresh).vshape = (outVaxesOf j tbl σ).map Axis.numel ++ [(innerVars j tbl).length] := by
  unfold ptrT formsOf PT.vshape
  cases h : innerVars j tbl with
  | nil => simp [Axis.numel]
  | cons p l =>
    cases l with
    | nil => simp [unitAxis_numel]
    | cons q l => simp [Axis.numel]

section ctx
variable {j : EJob} {next : Nat} {tbl : List (Nat × Axis)} {st : St} {sz : Nat → Nat}
  (hvals : ∀ p ∈ j.ops, ∀ c ∈ p.1.physical, C08.VitC c)
  (J : JobHyp vitSR j next) (F : Facts j next tbl st sz) (R : ResolvedAt st.subst tbl j.out)

include J F R in
theorem inner_pos : ∀ n ∈ (innerOf j tbl st.subst).map (fun k => k.2), 0 < n := by
  intro n hn
  obtain ⟨q, hq, rfl⟩ := List.mem_map.1 hn
  unfold innerOf at hq
  exact (allAxes_props J F R (List.mem_filter.1 hq).1).2.1.2.2

include hvals J F R in
theorem bestOf_spec {a : List Nat} :
    (bestOf vitSR j tbl st.subst a).1 ∈ Ax.assigns ((innerOf j tbl st.subst).map (fun k => k.2)) ∧
    (bestOf vitSR j tbl st.subst a).2 =
      viewProd vitSR j st.subst (envOf (wAxes j tbl st.subst) (a ++ (bestOf vitSR j tbl st.subst a).1)) := by
  have hne : candOf vitSR j tbl st.subst a ≠ [] := by
    unfold candOf
    intro h
    exact assigns_ne_nil _ (inner_pos J F R) (List.map_eq_nil_iff.1 h)
  have hm := firstMax_mem (candOf vitSR j tbl st.subst a) hne (by
    intro d hd
    unfold candOf at hd
    obtain ⟨b, _, rfl⟩ := List.mem_map.1 hd
    exact viewProd_mem vitSR_carrier j hvals _ _)
  change bestOf vitSR j tbl st.subst a ∈ candOf vitSR j tbl st.subst a at hm
  unfold candOf at hm
  obtain ⟨b, hb, he⟩ := List.mem_map.1 hm
  rw [← he]
  exact ⟨hb, rfl⟩

include hvals J F R in
/-- a backed cell of the maximum holds the weight of the first arg-max -/
theorem raw_backed {v : List Nat} {α : Nat → Nat} (hb : Backs (rawOf vitSR j tbl st.subst) v α) :
    (rawOf vitSR j tbl st.subst).dense[Ax.flat (rawOf vitSR j tbl st.subst).vshape v]? =
      some (bestOf vitSR j tbl st.subst (pidx (outAxesOf j tbl st.subst) α)).2 := by
  have hN := raw_normOK (S := vitSR) J F R
  have hs : C06dL.Sem (rawOf vitSR j tbl st.subst) := sem_of_occ hN.nodup hN.fvsub hN.occ
  have ha0 := pidx_mem_assigns α (outAxesOf j tbl st.subst) hb.1
  rw [dense_backed hs hb, ← rawV_eq j tbl st.subst hvals]
  congr 1
  show (((bestL vitSR j tbl st.subst).map (·.2))[Ax.flat ((outAxesOf j tbl st.subst).map (·.2))
    (pidx (outAxesOf j tbl st.subst) α)]?).getD vitSR.zero = _
  unfold bestL
  rw [List.map_map, List.getElem?_map, getElem_flat ha0]
  rfl

end ctx

section ctx
variable {j : EJob} {next : Nat} {tbl : List (Nat × Axis)} {st : St} {sz : Nat → Nat}
  (hvals : ∀ p ∈ j.ops, ∀ c ∈ p.1.physical, C08.VitC c)
  (J : JobHyp vitSR j next) (F : Facts j next tbl st sz) (R : ResolvedAt st.subst tbl j.out)

include J F R in
/-- **the pointers of a backed cell**: the affine forms at the output assignment and the first arg-max -/
theorem ptr_backed (fresh : Nat) (hfresh : ∀ q ∈ outAxesOf j tbl st.subst, q.1 ≠ fresh)
    {v : List Nat} {α : Nat → Nat} (hb : Backs (rawOf vitSR j tbl st.subst) v α)
    {i : Nat} {f : Nat × Sd.Coeffs} (hf : (formsOf j tbl st.subst)[i]? = some f) :
    (ptrT vitSR j tbl st.subst fresh).dense[
        Ax.flat ((outVaxesOf j tbl st.subst).map Axis.numel ++ [(innerVars j tbl).length]) (v ++ [i])]? =
      some (Ext.ofNat (Sd.applyS f (envOf (wAxes j tbl st.subst) (pidx (outAxesOf j tbl st.subst) α ++
        (bestOf vitSR j tbl st.subst (pidx (outAxesOf j tbl st.subst) α)).1)))) := by
  have hN := raw_normOK (S := vitSR) J F R
  have hnodup : ((outAxesOf j tbl st.subst).map (·.1)).Nodup := hN.nodup
  have hfv : ∀ e ∈ outVaxesOf j tbl st.subst, ∀ q ∈ e.fv, q ∈ outAxesOf j tbl st.subst := hN.fvsub
  have hocc : ∀ p ∈ outAxesOf j tbl st.subst, ∃ e ∈ outVaxesOf j tbl st.subst, p ∈ e.fv := hN.occ
  have hα : ∀ q ∈ outAxesOf j tbl st.subst, α q.1 < q.2 := hb.1
  have hv : (outVaxesOf j tbl st.subst).map (Axis.eval α) = v := hb.2
  have ha0 := pidx_mem_assigns α (outAxesOf j tbl st.subst) hα
  rw [← ptrT_vshape vitSR j tbl st.subst fresh, ← hv]
  have hi : i < (innerVars j tbl).length := by
    have := (List.getElem?_eq_some_iff.1 hf).1
    unfold formsOf at this
    simpa using this
  revert hf
  unfold ptrT formsOf
  cases h : innerVars j tbl with
  | nil => intro hf; simp at hf
  | cons p l =>
    cases l with
    | nil =>
      intro hf
      rw [h] at hi
      simp only [List.length_cons, List.length_nil, Nat.zero_add, Nat.lt_one_iff] at hi
      subst hi
      simp only [List.map_cons, List.map_nil, List.getElem?_cons_zero, Option.some.injEq] at hf
      subst hf
      simp only [List.map_cons, List.map_nil]
      rw [layout_one _ _ _ _ hnodup hfv hocc α hα, ptrOf_eq, List.getElem?_map, getElem_flat ha0]
      rfl
    | cons q l =>
      intro hf
      simp only [List.map_cons]
      rw [layout_many _ _ _ _ fresh _ hnodup hfv hocc hfresh α hα i (by rw [h] at hi; exact hi)]
      rw [getElem?_flatMap_block (ptrOf vitSR j tbl st.subst) (Ax.numel ((outAxesOf j tbl st.subst).map (·.2))) _
        (fun f _ => ptrOf_length vitSR j tbl st.subst f) i _ f (by simpa using hf) (flat_lt ha0)]
      rw [ptrOf_eq, List.getElem?_map, getElem_flat ha0]
      rfl

end ctx

theorem lookup_zip_map {β : Type} (g : Nat → β) : ∀ (l : List Nat) (x : Nat),
    (l.zip (l.map g)).lookup x = if x ∈ l then some (g x) else none
  | [], x => by simp
  | a :: l, x => by
    simp only [List.map_cons, List.zip_cons_cons, List.lookup_cons]
    by_cases e : x = a
    · subst e; simp
    · have : (x == a) = false := by simpa using e
      simp only [this, lookup_zip_map g l x, List.mem_cons, e, false_or]

/-! ### the assignment of the index variables read off a cell and its pointers -/

/-- the value the contract gives to variable `x` -/
def valOf (vars vals : List Nat) (x : Nat) : Nat := ((vars.zip vals).lookup x).getD 0

/-- … as a joint assignment of all index variables -/
def iotaOf (j : EJob) (vars vals : List Nat) : List Nat := (List.range (nvars j.ops j.out)).map (valOf vars vals)

theorem iotaOf_length (j : EJob) (vars vals : List Nat) : (iotaOf j vars vals).length = nvars j.ops j.out := by
  unfold iotaOf; simp

theorem iotaOf_get (j : EJob) (vars vals : List Nat) {x : Nat} (hx : x < nvars j.ops j.out) :
    (iotaOf j vars vals)[x]?.getD 0 = valOf vars vals x := by
  unfold iotaOf
  rw [List.getElem?_map, List.getElem?_range hx]; rfl

/-- the weight the contract computes is the product of the dense entries at that joint assignment -/
theorem weightAt_eq (S : SR Ext) (j : EJob) (vars vals : List Nat) :
    weightAt S j vars vals = specProd S j (iotaOf j vars vals) := by
  unfold weightAt specProd
  simp only
  congr 1
  apply List.map_congr_left
  intro p hp
  unfold denseAt
  congr 3
  apply List.map_congr_left
  intro x hx
  have hlt : x < nvars j.ops j.out := lt_nvars (List.mem_append_left _ (List.mem_flatMap.2 ⟨p, hp, hx⟩))
  rw [iotaOf_get j vars vals hlt]
  rfl

theorem valOf_append (out idx v qn : List Nat) (hl : out.length = v.length) (x : Nat) :
    valOf (out ++ idx) (v ++ qn) x = if x ∈ out then valOf out v x else valOf idx qn x := by
  unfold valOf
  rw [lookup_zip_append _ _ _ _ hl]
  split
  · next h =>
    obtain ⟨y, hy⟩ := lookup_zip_some out v x h hl
    rw [hy]; rfl
  · next h =>
    rw [lookup_zip_none out v x h]; rfl

section ctx
variable {j : EJob} {next : Nat} {tbl : List (Nat × Axis)} {st : St} {sz : Nat → Nat}
  (hvals : ∀ p ∈ j.ops, ∀ c ∈ p.1.physical, C08.VitC c)
  (J : JobHyp vitSR j next) (F : Facts j next tbl st sz) (R : ResolvedAt st.subst tbl j.out)

include J F in
/-- **the affine form of a table entry, applied, is the entry under the lift** (when `FUEL` resolves its clone) -/
theorem form_eval {x : Nat} {e : Axis} (hl : tbl.lookup x = some e) (hg : Good st.subst FUEL e) (R' : GoodS st.subst 3999)
    (ρ : Nat → Nat) :
    Sd.applyS (Sd.strideS st.subst FUEL e) ρ = e.eval (lift st.subst 3999 ρ) := by
  have hocc := F.tblmem _ _ hl
  have hno := occ_numelOk J F hocc
  rw [C07e.strideS_eq_evalS, C07e.evalS_eq_clone_eval _ F.sized.numelOkS _ _ _ hno]
  exact clone_eval_lift F.sized.numelOkS R' ρ FUEL e hno hg

include J F in
theorem entry_lt {x : Nat} {e : Axis} (hl : tbl.lookup x = some e) {ρ : Nat → Nat} (hρ : InV j st.subst ρ) :
    e.eval (lift st.subst 3999 ρ) < e.numel := by
  have hocc := F.tblmem _ _ hl
  apply C06.eval_lt_numel
  obtain ⟨p, hp, hsub⟩ := occ_pax J F hocc
  intro q hq
  exact lift_inRange J F hρ hp q (hsub q hq)

end ctx

section ctx
variable {j : EJob} {next : Nat} {tbl : List (Nat × Axis)} {st : St} {sz : Nat → Nat}
  (hvals : ∀ p ∈ j.ops, ∀ c ∈ p.1.physical, C08.VitC c)
  (J : JobHyp vitSR j next) (F : Facts j next tbl st sz) (R : ResolvedAt st.subst tbl j.out)

include J F in
/-- the size the driver reports for an index variable is the size of the specification -/
theorem sizes_eq_sizeOf (x : Nat) : ((tbl.lookup x).map Axis.numel).getD 1 = sizeOf j.ops x := by
  cases hl : tbl.lookup x with
  | none => rw [sizeOf_unused (unused_of_none J F hl)]; rfl
  | some e => rw [sizeOf_occ J (F.tblmem _ _ hl)]; rfl

include J F in
theorem raw_vshape' : (rawOf vitSR j tbl st.subst).vshape = j.out.map (sizeOf j.ops) := by
  show (outVaxesOf j tbl st.subst).map Axis.numel = _
  unfold outVaxesOf
  rw [List.map_map]
  apply List.map_congr_left
  intro v hv
  have hocc := out_entry J F hv
  rw [sizeOf_occ J hocc]
  exact clone_numel' F.sized.numelOkS FUEL _ (occ_numelOk J F hocc)

theorem innerVars_lookup (j : EJob) (tbl : List (Nat × Axis)) {x : Nat} (hx : x ∉ j.out) :
    (innerVars j tbl).lookup x = tbl.lookup x := by
  unfold innerVars
  rw [lookup_filter_key (fun x => !j.out.contains x)]
  simp [hx]

include hvals J F R in
/-- **a cell IN the pattern of the output**: the pointers are in range and the pointed-at assignment has the stored
weight -/
theorem cell_backed (hI : ∀ p ∈ innerVars j tbl, Good st.subst FUEL p.2) (hkeys : (tbl.map (·.1)).Nodup)
    {v : List Nat} {α : Nat → Nat} (hb : Backs (rawOf vitSR j tbl st.subst) v α) :
    let a := pidx (outAxesOf j tbl st.subst) α
    let ρ := envOf (wAxes j tbl st.subst) (a ++ (bestOf vitSR j tbl st.subst a).1)
    let qn := (innerVars j tbl).map (fun p => Sd.applyS (Sd.strideS st.subst FUEL p.2) ρ)
    (∀ p ∈ ((innerVars j tbl).map (·.1)).zip qn, p.2 < ((tbl.lookup p.1).map Axis.numel).getD 1) ∧
    weightAt vitSR j (j.out ++ (innerVars j tbl).map (·.1)) (v ++ qn) = (bestOf vitSR j tbl st.subst a).2 := by
  intro a ρ qn
  obtain ⟨hb1, hb2⟩ := bestOf_spec hvals J F R (a := a)
  have hα : ∀ q ∈ outAxesOf j tbl st.subst, α q.1 < q.2 := hb.1
  have hv : (outVaxesOf j tbl st.subst).map (Axis.eval α) = v := hb.2
  have ha0 : a ∈ Ax.assigns ((outAxesOf j tbl st.subst).map (·.2)) := pidx_mem_assigns α _ hα
  have hE := envW_props J F R ha0 hb1
  have hInV : InV j st.subst ρ := hE.1
  have key : ∀ q ∈ outAxesOf j tbl st.subst, ρ q.1 = α q.1 := by
    have h2 := hE.2
    unfold wAxes at h2
    rw [pidx_append] at h2
    have := (List.append_inj h2 (by simp [pidx, a])).1
    exact List.map_inj_left.1 this
  have hmemtbl : ∀ p ∈ innerVars j tbl, tbl.lookup p.1 = some p.2 := by
    intro p hp
    unfold innerVars at hp
    exact lookup_of_mem_nodup tbl hkeys p (List.mem_filter.1 hp).1
  refine ⟨?_, ?_⟩
  · intro p hp
    rw [List.zip_map'] at hp
    obtain ⟨q, hq, rfl⟩ := List.mem_map.1 hp
    have hl := hmemtbl q hq
    simp only [hl, Option.map_some, Option.getD_some]
    rw [form_eval J F hl (hI q hq) R.good]
    exact entry_lt J F hl hInV
  · rw [weightAt_eq, hb2, ← specProd_iota J F R hInV]
    congr 1
    apply ext_getD (iotaOf_length _ _ _) (iota_length _ _)
    intro x hx
    rw [iotaOf_get _ _ _ hx, iota_get _ _ hx]
    have hlen : j.out.length = v.length := by rw [← hv]; simp [outVaxesOf]
    rw [valOf_append _ _ _ _ hlen]
    split
    · next hxo =>
      have hv' : v = j.out.map (fun x => (clone st.subst FUEL (tblAx tbl x)).eval α) := by
        rw [← hv]; unfold outVaxesOf; rw [List.map_map]; rfl
      unfold valOf
      rw [hv', lookup_zip_map, if_pos hxo, Option.getD_some]
      rw [← clone_eval_lift F.sized.numelOkS R.good ρ FUEL (tblAx tbl x) (occ_numelOk J F (out_entry J F hxo))
        (R.outGood x hxo)]
      apply eval_congr
      intro q hq
      exact (key q (mem_outAxes.2 ⟨x, hxo, hq⟩)).symm
    · next hxo =>
      unfold valOf
      rw [lookup_zip_map_pair (fun e => Sd.applyS (Sd.strideS st.subst FUEL e) ρ), innerVars_lookup j tbl hxo]
      cases hl : tbl.lookup x with
      | none =>
        unfold tblAx
        rw [hl]
        simp [unitAxis_eval]
      | some e =>
        have hmem : (x, e) ∈ innerVars j tbl := by
          apply mem_zip_of_lookup
          rw [innerVars_lookup j tbl hxo, hl]
        rw [tblAx_of hl]
        simp only [Option.map_some, Option.getD_some]
        exact form_eval J F hl (hI _ hmem) R.good ρ

include hvals J F R in
/-- **a cell OUTSIDE the pattern of the output**: every assignment of the summed-out variables within range has
weight zero -/
theorem cell_unbacked (hnd : j.out.Nodup) {v : List Nat} (hv : v ∈ Ax.assigns (rawOf vitSR j tbl st.subst).vshape)
    (hno : ∀ α, ¬ Backs (rawOf vitSR j tbl st.subst) v α) (qn : List Nat)
    (hin : ∀ p ∈ ((innerVars j tbl).map (·.1)).zip qn, p.2 < ((tbl.lookup p.1).map Axis.numel).getD 1) :
    weightAt vitSR j (j.out ++ (innerVars j tbl).map (·.1)) (v ++ qn) = vitSR.zero := by
  rw [weightAt_eq]
  by_contra hne
  rw [raw_vshape' J F] at hv
  have hlen : j.out.length = v.length := by rw [mem_assigns_length hv]; simp
  have hvg := map_lookup_zip j.out v hnd hlen
  have hout : ∀ x ∈ j.out, valOf j.out v x < sizeOf j.ops x := by
    have h1 := (mem_assigns_iff _ _).1 hv
    rw [hvg, List.forall₂_map_left_iff, List.forall₂_map_right_iff, List.forall₂_same] at h1
    exact h1
  have hget : ∀ x, x < nvars j.ops j.out →
      (iotaOf j (j.out ++ (innerVars j tbl).map (·.1)) (v ++ qn))[x]?.getD 0 =
        if x ∈ j.out then valOf j.out v x else valOf ((innerVars j tbl).map (·.1)) qn x := by
    intro x hx
    rw [iotaOf_get _ _ _ hx, valOf_append _ _ _ _ hlen]
  have hι : iotaOf j (j.out ++ (innerVars j tbl).map (·.1)) (v ++ qn) ∈ Sem.assigns (maskOf j) := by
    rw [mem_mask J]
    refine ⟨iotaOf_length _ _ _, fun x hx => ?_⟩
    rw [hget x hx]
    split
    · next hxo => exact hout x hxo
    · next hxo =>
      rw [← sizes_eq_sizeOf J F x]
      unfold valOf
      cases hl : (((innerVars j tbl).map (·.1)).zip qn).lookup x with
      | none =>
        rw [sizes_eq_sizeOf J F x]
        show 0 < _
        cases hl' : tbl.lookup x with
        | none => rw [sizeOf_unused (unused_of_none J F hl')]; omega
        | some e =>
          have hocc := F.tblmem _ _ hl'
          rw [sizeOf_occ J hocc]
          exact Tp.numel_pos (occ_tp J F hocc)
      | some y => exact hin (x, y) (mem_zip_of_lookup _ x y hl)
  obtain ⟨ρ', hρ', he⟩ := C07dL.iota_surj_on vitSR_carrier hvals J F R hι hne
  apply hno ρ'
  refine ⟨fun q hq => hρ' q (outAxes_sub J F R hq), ?_⟩
  show (outVaxesOf j tbl st.subst).map (Axis.eval ρ') = v
  rw [← out_idx J F R, he]
  conv_rhs => rw [hvg]
  apply List.map_congr_left
  intro x hx
  rw [hget x (lt_nvars (List.mem_append_right _ hx)), if_pos hx]
  rfl

end ctx

theorem normalize_default (T : PT) : (Bn.normalize T).default = T.default := by
  rw [normalize_eq]
  split <;> rfl

theorem toNat_ofNat (k : Nat) : (match Ext.ofNat k with | Ext.fin r => r.num.toNat | _ => 0) = k := by
  simp [Ext.ofNat]

section ctx
variable {j : EJob} {next : Nat} {tbl : List (Nat × Axis)} {st : St} {sz : Nat → Nat}
  (hvals : ∀ p ∈ j.ops, ∀ c ∈ p.1.physical, C08.VitC c)
  (J : JobHyp vitSR j next) (F : Facts j next tbl st sz) (R : ResolvedAt st.subst tbl j.out)

include hvals J F R in
/-- **the contract of the pointers**, for the components of the model after a successful first pass -/
theorem ptrOk_success (hI : ∀ p ∈ innerVars j tbl, Good st.subst FUEL p.2) (hkeys : (tbl.map (·.1)).Nodup)
    (hnd : j.out.Nodup) (fresh : Nat) (hfresh : ∀ q ∈ outAxesOf j tbl st.subst, q.1 ≠ fresh) :
    ptrOk vitSR j ((innerVars j tbl).map (·.1)) (fun x => ((tbl.lookup x).map Axis.numel).getD 1)
      (Bn.normalize (rawV vitSR j tbl st.subst)) (ptrT vitSR j tbl st.subst fresh) = true := by
  rw [ptrOk_iff, rawV_eq j tbl st.subst hvals]
  have hN := raw_normOK (S := vitSR) J F R
  have hs : C06dL.Sem (rawOf vitSR j tbl st.subst) := sem_of_occ hN.nodup hN.fvsub hN.occ
  obtain ⟨-, n2, n3⟩ := normalize_spec hN
  rw [n2, List.length_map]
  refine ⟨ptrT_vshape _ _ _ _ _, fun v hv => ?_⟩
  simp only
  rw [n3, normalize_default]
  have hps : ∀ i, ((ptrT vitSR j tbl st.subst fresh).dense[Ax.flat ((Bn.normalize (rawOf vitSR j tbl st.subst)).vshape ++
      [(innerVars j tbl).length]) (v ++ [i])]?) = ((ptrT vitSR j tbl st.subst fresh).dense[Ax.flat
      ((outVaxesOf j tbl st.subst).map Axis.numel ++ [(innerVars j tbl).length]) (v ++ [i])]?) := by
    intro i; rw [n2]; rfl
  by_cases hb : ∃ α, Backs (rawOf vitSR j tbl st.subst) v α
  · obtain ⟨α, hb⟩ := hb
    obtain ⟨c1, c2⟩ := cell_backed hvals J F R hI hkeys hb
    have hq : ptrs (innerVars j tbl).length (Bn.normalize (rawOf vitSR j tbl st.subst)) (ptrT vitSR j tbl st.subst fresh) v =
        (innerVars j tbl).map (fun p => Sd.applyS (Sd.strideS st.subst FUEL p.2)
          (envOf (wAxes j tbl st.subst) (pidx (outAxesOf j tbl st.subst) α ++
            (bestOf vitSR j tbl st.subst (pidx (outAxesOf j tbl st.subst) α)).1))) := by
      unfold ptrs
      apply List.ext_getElem
      · simp
      · intro i h1 h2
        simp only [List.length_map, List.length_range] at h1
        simp only [List.getElem_map, List.getElem_range]
        rw [hps i, ptr_backed J F R fresh hfresh hb (i := i)
          (f := Sd.strideS st.subst FUEL ((innerVars j tbl)[i]).2) (by
            unfold formsOf
            rw [List.getElem?_map, List.getElem?_eq_getElem h1]; rfl)]
        rw [Option.getD_some]
        exact toNat_ofNat _
    rw [hq, raw_backed hvals J F R hb, Option.getD_some]
    exact ⟨fun _ => c1, fun _ => c2⟩
  · have hno : ∀ α, ¬ Backs (rawOf vitSR j tbl st.subst) v α := fun α h => hb ⟨α, h⟩
    rw [dense_unbacked hs hv hno, Option.getD_some]
    refine ⟨fun h => absurd rfl h, fun hin => ?_⟩
    exact cell_unbacked hvals J F R hnd hv hno _ hin

end ctx
/-! ### the first pass -/

/-- the table of first occurrences has distinct keys -/
theorem tblOf_nodup : ∀ (qs : List (Axis × Nat)) (tbl : List (Nat × Axis)), (tbl.map (·.1)).Nodup →
    ((tblOf tbl qs).map (·.1)).Nodup
  | [], _, h => h
  | q :: qs, tbl, h => by
    rw [tblOf]
    cases hl : tbl.lookup q.2 with
    | some e => exact tblOf_nodup qs tbl h
    | none =>
      apply tblOf_nodup qs
      rw [List.map_append, List.nodup_append]
      refine ⟨h, by simp, ?_⟩
      intro a ha b hb e
      simp only [List.map_cons, List.map_nil, List.mem_singleton] at hb
      subst hb
      subst e
      obtain ⟨p, hp, hpe⟩ := List.mem_map.1 ha
      have := List.lookup_eq_none_iff.1 hl p hp
      simp only [bne_iff_ne, ne_eq] at this
      exact this hpe.symm

theorem collect_keys_nodup {fuel : Nat} {j : EJob} {next : Nat} {tbl : List (Nat × Axis)} {st : St}
    (hc : collect fuel j next = (tbl, true, st)) : (tbl.map (·.1)).Nodup := by
  rw [collect_eq] at hc
  obtain ⟨-, htbl, -⟩ := fold_spec fuel _ _ _ _ _ _ hc
  rw [htbl]
  exact tblOf_nodup _ _ (by simp)

theorem unbound_iff (σ : Subst) (e : Axis) : Ei.unbound σ e = true ↔ Unb σ e := by
  unfold Ei.unbound Unb
  rw [List.all_eq_true]
  constructor
  · intro h q hq
    have := h q hq
    simpa using this
  · intro h q hq
    rw [h q hq]; rfl

theorem resolvedAt_of {fuel : Nat} {j : EJob} {next : Nat} {tbl : List (Nat × Axis)} {ok : Bool} {st : St}
    (hc : collect fuel j next = (tbl, ok, st)) (h : Ei.resolved fuel j next = true) :
    ResolvedAt st.subst tbl j.out := by
  unfold Ei.resolved at h
  rw [hc] at h
  simp only [Bool.and_eq_true] at h
  obtain ⟨⟨h1, h2⟩, h3⟩ := h
  refine ⟨(C06dL.nodupNat_iff _).1 h1, ?_, ?_⟩
  · intro p hp
    exact (unbound_iff _ _).1 (List.all_eq_true.1 h2 p hp)
  · intro v hv
    exact (unbound_iff _ _).1 (List.all_eq_true.1 h3 v hv)


/-! ### when a unification fails -/

theorem vitEinsum_eq_fail (S : SR Ext) (fuel : Nat) (j : EJob) (next : Nat) (tbl : List (Nat × Axis)) (st : St)
    (hne : j.ops ≠ []) (hc : collect fuel j next = (tbl, false, st)) :
    vitEinsum S fuel j next = Ve.zeroResult S (outVaxesOf j tbl st.subst) (innerVars j tbl).length := by
  have he : j.ops.isEmpty = false := by
    cases h : j.ops with
    | nil => exact absurd h hne
    | cons _ _ => rfl
  unfold vitEinsum
  rw [he, hc]
  rfl

theorem plain_vshape (shape : List Nat) (phys : List Ext) (d : Ext) : (plain shape phys d).vshape = shape := by
  unfold plain PT.vshape
  simp only [List.map_map]
  conv_rhs => rw [← List.zipIdx_map_fst 0 shape]
  apply List.map_congr_left
  intro p _
  rfl

theorem plain_normOK (shape : List Nat) (phys : List Ext) (d : Ext) (hl : phys.length = Ax.numel shape) :
    NormOK (plain shape phys d) where
  len := by
    show phys.length = Ax.numel ((shape.zipIdx.map (fun (n, i) => (i, n))).map (·.2))
    rw [hl, List.map_map]
    congr 1
    conv_lhs => rw [← List.zipIdx_map_fst 0 shape]
    apply List.map_congr_left
    intro p _
    rfl
  nodup := by
    show ((shape.zipIdx.map (fun (n, i) => (i, n))).map (·.1)).Nodup
    rw [List.map_map]
    have : ((fun x : Nat × Nat => x.1) ∘ fun (x : Nat × Nat) => (x.2, x.1)) = Prod.snd := rfl
    rw [show (List.map ((fun x : Nat × Nat => x.1) ∘ fun (x : Nat × Nat) => match x with | (n, i) => (i, n)) shape.zipIdx) =
      List.map Prod.snd shape.zipIdx from rfl, List.zipIdx_map_snd]
    exact List.nodup_range' 1
  fvsub := by
    intro e he q hq
    change e ∈ shape.zipIdx.map (fun (n, i) => Axis.phys i n) at he
    obtain ⟨p, hp, rfl⟩ := List.mem_map.1 he
    simp only [Axis.fv, List.mem_singleton] at hq
    subst hq
    exact List.mem_map.2 ⟨p, hp, rfl⟩
  occ := by
    intro p hp
    change p ∈ shape.zipIdx.map (fun (n, i) => (i, n)) at hp
    obtain ⟨x, hx, rfl⟩ := List.mem_map.1 hp
    exact ⟨Axis.phys x.2 x.1, List.mem_map.2 ⟨x, hx, rfl⟩, by simp [Axis.fv]⟩
  top := by
    intro g hg
    change g ∈ shape.zipIdx.map (fun (n, i) => Axis.phys i n) at hg
    obtain ⟨x, hx, rfl⟩ := List.mem_map.1 hg
    by_cases h1 : x.1 = 1
    · left; exact ⟨x.2, by simp [h1]⟩
    · right
      intro q hq
      simp only [Axis.fv, List.mem_singleton] at hq
      subst hq
      exact h1

theorem normalize_dense_mem (T : PT) : ∀ c ∈ (Bn.normalize T).dense, c = T.default ∨ c ∈ T.physical := by
  rw [C06dL.normalize_eq]
  split
  · exact C07dL.dense_mem T
  · exact C07dL.dense_mem (C06dL.squeezed T)

theorem zeroResult_fst (S : SR Ext) (outVaxes : List Axis) (n : Nat) :
    (Ve.zeroResult S outVaxes n).1 =
      Bn.normalize (plain (outVaxes.map Axis.numel) (List.replicate (Ax.numel (outVaxes.map Axis.numel)) S.zero) S.zero) := rfl

theorem zeroResult_snd (S : SR Ext) (outVaxes : List Axis) (n : Nat) :
    (Ve.zeroResult S outVaxes n).2 =
      Bn.normalize (plain (outVaxes.map Axis.numel ++ [n])
        (List.replicate (Ax.numel (outVaxes.map Axis.numel ++ [n])) (Ext.fin 0)) (Ext.fin 0)) := rfl

theorem getD_of_all {l : List Ext} {d : Ext} (h : ∀ c ∈ l, c = d) (k : Nat) : l[k]?.getD d = d := by
  cases hk : l[k]? with
  | none => rfl
  | some x => exact h x (List.mem_of_getElem? hk)

theorem forall₂_zip {R : Nat → Nat → Prop} : ∀ {v out : List Nat}, List.Forall₂ R v out → ∀ x y, (x, y) ∈ out.zip v → R y x
  | _, _, .nil, x, y, h => by simp at h
  | _, _, .cons hab hrest, x, y, h => by
    simp only [List.zip_cons_cons, List.mem_cons, Prod.mk.injEq] at h
    rcases h with ⟨rfl, rfl⟩ | h
    · exact hab
    · exact forall₂_zip hrest x y h

section ctx
variable {j : EJob} {next : Nat} (hvals : ∀ p ∈ j.ops, ∀ c ∈ p.1.physical, C08.VitC c) (J : JobHyp vitSR j next)

include J in
theorem sizeOf_pos (x : Nat) : 0 < sizeOf j.ops x := by
  by_cases hused : ∃ p ∈ j.ops, x ∈ p.2
  · obtain ⟨p, hp, hxp⟩ := hused
    obtain ⟨i, hi, hiv⟩ := List.getElem_of_mem hxp
    have hi' : i < p.1.vaxes.length := by rw [← J.arity p hp]; exact hi
    have hocc : (p.1.vaxes[i], x) ∈ occs j :=
      mem_occs.2 ⟨p, hp, i, List.getElem?_eq_getElem hi', by rw [List.getElem?_eq_getElem hi, hiv]⟩
    rw [sizeOf_occ J hocc]
    exact Tp.numel_pos (occ_typed J hocc)
  · rw [sizeOf_unused (fun p hp hx => hused ⟨p, hp, hx⟩)]; omega

include hvals J in
/-- **when no joint assignment of the indices is backed by every operand, every assignment within the output shape has
weight zero** (the pointers being all 0) -/
theorem weight_zero_of_disjoint
    (hdis : ∀ ρ : List Nat, ρ ∈ Sem.assigns (Es.Job.mk j.ops j.out).sizes →
      ∃ p ∈ j.ops, (p.1.cells.all (fun c => c.1 != p.2.map (fun v => ρ[v]?.getD 0))) = true)
    (idx : List Nat) {v : List Nat} (hv : v ∈ Ax.assigns (j.out.map (C07bL.sizeOf j.ops))) (qn : List Nat)
    (hq : ∀ y ∈ qn, y = 0) :
    weightAt vitSR j (j.out ++ idx) (v ++ qn) = vitSR.zero := by
  rw [weightAt_eq]
  have hlen : j.out.length = v.length := by rw [mem_assigns_length hv]; simp
  have hF := (mem_assigns_iff _ _).1 hv
  rw [List.forall₂_map_right_iff] at hF
  have hι : iotaOf j (j.out ++ idx) (v ++ qn) ∈ Sem.assigns (maskOf j) := by
    rw [mem_mask J]
    refine ⟨iotaOf_length _ _ _, fun x hx => ?_⟩
    rw [iotaOf_get _ _ _ hx, valOf_append _ _ _ _ hlen]
    split
    · next hxo =>
      obtain ⟨y, hy⟩ := lookup_zip_some j.out v x hxo hlen
      unfold valOf
      rw [hy]
      exact forall₂_zip hF x y (mem_zip_of_lookup _ x y hy)
    · next hxo =>
      unfold valOf
      cases hl : (idx.zip qn).lookup x with
      | none => exact sizeOf_pos J x
      | some y =>
        have := hq y (List.of_mem_zip (mem_zip_of_lookup _ x y hl)).2
        subst this
        exact sizeOf_pos J x
  have hsz : iotaOf j (j.out ++ idx) (v ++ qn) ∈ Sem.assigns (Es.Job.mk j.ops j.out).sizes := by
    rw [sizes_eq, mem_assigns_range]
    exact (mem_mask J).1 hι
  obtain ⟨p, hp, hall⟩ := hdis _ hsz
  unfold specProd
  apply C07dL.prod_zero_of_mem_on vitSR_carrier _ (fun x hx => by
    obtain ⟨q, hq, rfl⟩ := List.mem_map.1 hx
    exact C07dL.denseAt_mem vitSR_carrier hvals J hq _)
  rw [List.mem_map]
  refine ⟨p, hp, ?_⟩
  have hs := sem_of J hp
  have hidx := idx_mem J hι hp
  have hnk : p.2.map (fun v' => (iotaOf j (j.out ++ idx) (v ++ qn))[v']?.getD 0) ∉ C06dL.keys p.1 := by
    intro hk
    unfold C06dL.keys at hk
    obtain ⟨kv, hkv, he⟩ := List.mem_map.1 hk
    have := List.all_eq_true.1 hall kv hkv
    simp only [bne_iff_ne, ne_eq] at this
    exact this he
  have := C06dL.dense_cell_keys p.1 hs.keys_nodup hs.keys_range _ hidx
  rw [C06dL.valueAt_of_not_mem p.1 _ hnk] at this
  unfold denseAt
  rw [this]
  exact J.zeroDefault _ hp

end ctx

section ctx
variable {j : EJob} {next : Nat} (hvals : ∀ p ∈ j.ops, ∀ c ∈ p.1.physical, C08.VitC c) (J : JobHyp vitSR j next)

include hvals J in
/-- **the contract of the pointers for the zero result**, when the patterns are disjoint and the zero result has the
shape of the specification -/
theorem ptrOk_failure
    (hdis : ∀ ρ : List Nat, ρ ∈ Sem.assigns (Es.Job.mk j.ops j.out).sizes →
      ∃ p ∈ j.ops, (p.1.cells.all (fun c => c.1 != p.2.map (fun v => ρ[v]?.getD 0))) = true)
    (OV : List Axis) (idx : List Nat) (sizes : Nat → Nat)
    (hshape : OV.map Axis.numel = j.out.map (C07bL.sizeOf j.ops)) :
    ptrOk vitSR j idx sizes (Ve.zeroResult vitSR OV idx.length).1 (Ve.zeroResult vitSR OV idx.length).2 = true := by
  rw [ptrOk_iff, zeroResult_fst, zeroResult_snd]
  obtain ⟨-, a2, -⟩ := normalize_spec (plain_normOK (OV.map Axis.numel)
    (List.replicate (Ax.numel (OV.map Axis.numel)) vitSR.zero) vitSR.zero (by simp))
  obtain ⟨-, b2, -⟩ := normalize_spec (plain_normOK (OV.map Axis.numel ++ [idx.length])
    (List.replicate (Ax.numel (OV.map Axis.numel ++ [idx.length])) (Ext.fin 0)) (Ext.fin 0) (by simp))
  rw [plain_vshape] at a2 b2
  rw [a2, b2]
  refine ⟨rfl, fun v hv => ?_⟩
  simp only
  rw [normalize_default]
  have hout : ∀ c ∈ (Bn.normalize (plain (OV.map Axis.numel)
      (List.replicate (Ax.numel (OV.map Axis.numel)) vitSR.zero) vitSR.zero)).dense, c = vitSR.zero := by
    intro c hc
    rcases normalize_dense_mem _ c hc with h | h
    · exact h
    · exact (List.mem_replicate.1 h).2
  have hptr : ∀ c ∈ (Bn.normalize (plain (OV.map Axis.numel ++ [idx.length])
      (List.replicate (Ax.numel (OV.map Axis.numel ++ [idx.length])) (Ext.fin 0)) (Ext.fin 0))).dense, c = Ext.fin 0 := by
    intro c hc
    rcases normalize_dense_mem _ c hc with h | h
    · exact h
    · exact (List.mem_replicate.1 h).2
  have ho : ((Bn.normalize (plain (OV.map Axis.numel)
      (List.replicate (Ax.numel (OV.map Axis.numel)) vitSR.zero) vitSR.zero)).dense[Ax.flat (OV.map Axis.numel) v]?).getD
      (plain (OV.map Axis.numel) (List.replicate (Ax.numel (OV.map Axis.numel)) vitSR.zero) vitSR.zero).default = vitSR.zero :=
    getD_of_all hout _
  rw [ho]
  refine ⟨fun h => absurd rfl h, fun _ => ?_⟩
  rw [hshape] at hv
  apply weight_zero_of_disjoint hvals J hdis idx hv
  intro y hy
  unfold ptrs at hy
  obtain ⟨x, hx, rfl⟩ := List.mem_map.1 hy
  obtain ⟨i, _, rfl⟩ := List.mem_map.1 hx
  rw [getD_of_all hptr]
  rfl

end ctx
end C04dL
