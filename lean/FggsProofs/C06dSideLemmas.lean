/-
Helper lemmas for Props/C06d.lean, part 3:

* `SideOK`: what `binary` needs to know about ONE operand `t` and the result pattern `(P.map (·.2), lggs)` of
  `expansion` (`sel = Prod.fst` for the left, `Prod.snd` for the right operand; `nw` the broadcast axes, all of size 1);
  `side_backed`, `side_unbacked`: the cell of `layout t …` at the index tuple of an assignment `γ` of the fresh axes is
  the cell of `t.dense` at the virtual index tuple `lggs(γ)`; a virtual index tuple outside the result pattern is
  backed by no physical element of `t`;
* `normalize` (squeezing the physical axes of size 1) preserves `dense` and `vshape` and establishes `wf`.
-/
import FggsModel.Binary
import FggsProofs.C06dBaseLemmas
import FggsProofs.C06cLemmas

set_option linter.unusedSimpArgs false
set_option linter.unusedVariables false

namespace C06dL
open Fggs Fggs.Ax Fggs.Un Fggs.Bn C06b C06cL

/-! ### small facts -/

theorem eq_of_mem_nodup_fst {l : List (Nat × Nat)} (h : (l.map (·.1)).Nodup) {p q : Nat × Nat} (hp : p ∈ l)
    (hq : q ∈ l) (e : p.1 = q.1) : p = q :=
  List.inj_on_of_nodup_map h hp hq e

theorem numel_ones : ∀ (l : List Nat), (∀ n ∈ l, n = 1) → numel l = 1
  | [], _ => numel_nil
  | n :: l, h => by
    rw [numel_cons, h n (by simp), numel_ones l (fun m hm => h m (by simp [hm]))]

theorem pidx_append (a b : List (Nat × Nat)) (ρ : Nat → Nat) : pidx (a ++ b) ρ = pidx a ρ ++ pidx b ρ := by
  simp [pidx]

theorem expandFront_ones (phys : List Ext) (nw : List (Nat × Nat)) (h : ∀ k ∈ nw, k.2 = 1) :
    expandFront phys nw = phys := by
  unfold expandFront
  rw [numel_ones]
  · simp
  · intro n hn
    obtain ⟨k, hk, rfl⟩ := List.mem_map.1 hn
    exact h k hk

/-- broadcast axes of size 1 in front do not change the flat position -/
theorem flat_front_ones (nw ps : List (Nat × Nat)) (ρ : Nat → Nat) (h : ∀ k ∈ nw, k.2 = 1)
    (hr : ∀ k ∈ nw, ρ k.1 < k.2) :
    flat ((nw ++ ps).map (·.2)) (pidx (nw ++ ps) ρ) = flat (ps.map (·.2)) (pidx ps ρ) := by
  rw [List.map_append, pidx_append, flat_append _ _ _ _ (by simp [pidx])]
  have h1 := flat_lt (pidx_mem_assigns ρ nw hr)
  rw [numel_ones _ (by
    intro n hn
    obtain ⟨k, hk, rfl⟩ := List.mem_map.1 hn
    exact h k hk)] at h1
  have : flat (nw.map (·.2)) (pidx nw ρ) = 0 := by omega
  rw [this]; simp

theorem getElem?_zipWith_some {α β γ : Type} (f : α → β → γ) (l1 : List α) (l2 : List β) (k : Nat) (a : α) (b : β)
    (h1 : l1[k]? = some a) (h2 : l2[k]? = some b) : (List.zipWith f l1 l2)[k]? = some (f a b) := by
  rw [List.getElem?_zipWith, h1, h2]

/-! ### one operand against the result pattern -/

structure SideOK (t : PT) (P : List Pair) (sel : Axis × Axis → Axis) (lggs : List Axis) (nw : List (Nat × Nat)) :
    Prop where
  semt : Sem t
  Pnd : (P.map (fun p => p.2.1)).Nodup
  size : ∀ x ∈ P, x.2.2 = (sel x.1).numel
  numl : lggs.map Axis.numel = t.vshape
  fvl : ∀ g ∈ lggs, ∀ q ∈ g.fv, ∃ x ∈ P, x.2 = q
  occ : ∀ x ∈ P, ∃ g ∈ lggs, x.2 ∈ g.fv
  nw1 : ∀ k ∈ nw, k.2 = 1
  nwnd : ((nw ++ t.paxes).map (·.1)).Nodup
  fvc : ∀ x ∈ P, ∀ q ∈ (sel x.1).fv, q ∈ nw ++ t.paxes
  gen : ∀ ρ, (∀ p ∈ nw ++ t.paxes, ρ p.1 < p.2) →
    lggs.map (Axis.eval (lift sel P ρ)) = t.vaxes.map (Axis.eval ρ)

section side
variable {t : PT} {P : List Pair} {sel : Axis × Axis → Axis} {lggs : List Axis} {nw : List (Nat × Nat)}

/-- the fresh axes of the result pattern -/
def gsOf (P : List Pair) : List (Nat × Nat) := P.map (·.2)

/-- the auxiliary tensor whose `dense` is the layout of `t` over the fresh axes -/
def auxT (t : PT) (P : List Pair) (sel : Axis × Axis → Axis) (nw : List (Nat × Nat)) : PT :=
  PT.mk t.physical (nw ++ t.paxes) (P.map (fun x => sel x.1)) t.default

theorem layout_eq (h : SideOK t P sel lggs nw) :
    layout t (nw ++ t.paxes) (P.map (fun x => sel x.1)) = (auxT t P sel nw).dense := by
  unfold layout auxT
  simp only [List.length_append, Nat.add_sub_cancel, List.take_left']
  rw [expandFront_ones _ _ h.nw1]

theorem auxT_vshape (h : SideOK t P sel lggs nw) : (auxT t P sel nw).vshape = (gsOf P).map (·.2) := by
  unfold auxT PT.vshape gsOf
  simp only [List.map_map]
  apply List.map_congr_left
  intro x hx
  exact (h.size x hx).symm

theorem mem_gsOf {q : Nat × Nat} : q ∈ gsOf P ↔ ∃ x ∈ P, x.2 = q := by
  unfold gsOf; simp

theorem gsOf_nodup (h : SideOK t P sel lggs nw) : ((gsOf P).map (·.1)).Nodup := by
  unfold gsOf; rw [List.map_map]; exact h.Pnd

/-- the result pattern as an index map: in-range assignments of the fresh axes that agree on the virtual index tuple
agree on every fresh axis -/
theorem lggs_inj (h : SideOK t P sel lggs nw) (γ γ' : Nat → Nat) (h1 : ∀ x ∈ P, γ x.2.1 < x.2.2)
    (h2 : ∀ x ∈ P, γ' x.2.1 < x.2.2) (he : lggs.map (Axis.eval γ) = lggs.map (Axis.eval γ')) :
    ∀ x ∈ P, γ x.2.1 = γ' x.2.1 := by
  intro x hx
  obtain ⟨g, hg, hxg⟩ := h.occ x hx
  have hr : ∀ (δ : Nat → Nat), (∀ x ∈ P, δ x.2.1 < x.2.2) → InRange δ g := by
    intro δ hδ q hq
    obtain ⟨y, hy, rfl⟩ := h.fvl g hg q hq
    exact hδ y hy
  exact eval_inj γ γ' g (hr γ h1) (hr γ' h2) (List.map_inj_left.1 he g hg) x.2 hxg

theorem lggs_range (h : SideOK t P sel lggs nw) (γ : Nat → Nat) (h1 : ∀ x ∈ P, γ x.2.1 < x.2.2) :
    lggs.map (Axis.eval γ) ∈ assigns t.vshape := by
  rw [← h.numl, mem_assigns_iff, List.forall₂_map_left_iff, List.forall₂_map_right_iff, List.forall₂_same]
  intro g hg
  apply C06.eval_lt_numel
  intro q hq
  obtain ⟨y, hy, rfl⟩ := h.fvl g hg q hq
  exact h1 y hy

theorem lift_mem (h : SideOK t P sel lggs nw) (ρ : Nat → Nat) {x : Pair} (hx : x ∈ P) :
    lift sel P ρ x.2.1 = (sel x.1).eval ρ :=
  lift_at_mem sel P ρ h.Pnd hx

/-- an assignment of the fresh axes that reads each fresh axis as the sub-axis of `t` it stands for under `ρ`
is mapped to the virtual index tuple of `ρ` -/
theorem lggs_of_reading (h : SideOK t P sel lggs nw) (γ ρ : Nat → Nat) (hρ : ∀ p ∈ nw ++ t.paxes, ρ p.1 < p.2)
    (hγ : ∀ x ∈ P, (sel x.1).eval ρ = γ x.2.1) : lggs.map (Axis.eval γ) = t.vaxes.map (Axis.eval ρ) := by
  rw [← h.gen ρ hρ]
  apply List.map_congr_left
  intro g hg
  apply eval_congr
  intro q hq
  obtain ⟨y, hy, rfl⟩ := h.fvl g hg q hq
  rw [lift_mem h ρ hy, hγ y hy]

theorem aux_sem (h : SideOK t P sel lggs nw) : Sem (auxT t P sel nw) where
  nodup := h.nwnd
  fvsub := by
    intro e he q hq
    obtain ⟨x, hx, rfl⟩ := List.mem_map.1 he
    exact h.fvc x hx q hq
  inj := by
    intro ρ ρ' h1 h2 he p hp
    have he' : ∀ x ∈ P, (sel x.1).eval ρ = (sel x.1).eval ρ' := by
      intro x hx
      exact List.map_inj_left.1 he (sel x.1) (List.mem_map.2 ⟨x, hx, rfl⟩)
    rcases List.mem_append.1 hp with hp' | hp'
    · have a1 := h1 p hp
      have a2 := h2 p hp
      have := h.nw1 p hp'
      omega
    · have e1 : t.vaxes.map (Axis.eval ρ) = t.vaxes.map (Axis.eval ρ') := by
        rw [← lggs_of_reading h (lift sel P ρ) ρ h1 (fun x hx => (lift_mem h ρ hx).symm),
          ← lggs_of_reading h (lift sel P ρ) ρ' h2 (fun x hx => by rw [lift_mem h ρ hx, he' x hx])]
      exact h.semt.inj ρ ρ' (fun q hq => h1 q (List.mem_append_right _ hq))
        (fun q hq => h2 q (List.mem_append_right _ hq)) e1 p hp'

/-- the index tuple of an assignment of the fresh axes -/
theorem pidx_gs (γ : Nat → Nat) : pidx (gsOf P) γ = P.map (fun x => γ x.2.1) := by
  unfold pidx gsOf; rw [List.map_map]; rfl

theorem backs_aux_iff (γ ρ : Nat → Nat) :
    Backs (auxT t P sel nw) (pidx (gsOf P) γ) ρ ↔
      (∀ p ∈ nw ++ t.paxes, ρ p.1 < p.2) ∧ ∀ x ∈ P, (sel x.1).eval ρ = γ x.2.1 := by
  unfold Backs auxT
  simp only [pidx_gs, List.map_map]
  refine and_congr_right fun _ => ?_
  rw [List.map_inj_left]
  rfl

/-- extend a backing assignment of `t` by 0 on the broadcast axes and read off the fresh axes -/
theorem reading_of_backs (h : SideOK t P sel lggs nw) {c : List Nat} {ρ : Nat → Nat} (hb : Backs t c ρ) :
    ∃ ρ', (∀ p ∈ nw ++ t.paxes, ρ' p.1 < p.2) ∧ (∀ x ∈ P, lift sel P ρ' x.2.1 < x.2.2) ∧
      lggs.map (Axis.eval (lift sel P ρ')) = c := by
  refine ⟨fun v => if v ∈ t.paxes.map (·.1) then ρ v else 0, ?_, ?_, ?_⟩
  · intro p hp
    rcases List.mem_append.1 hp with hp' | hp'
    · have hnot : p.1 ∉ t.paxes.map (·.1) := by
        intro hin
        have hnd := h.nwnd
        rw [List.map_append, List.nodup_append] at hnd
        exact hnd.2.2 p.1 (List.mem_map_of_mem (f := (·.1)) hp') p.1 hin rfl
      simp only [hnot, if_false]
      rw [h.nw1 p hp']; omega
    · have hin : p.1 ∈ t.paxes.map (·.1) := List.mem_map_of_mem (f := (·.1)) hp'
      simp only [hin, if_true]
      exact hb.1 p hp'
  · intro x hx
    rw [lift_mem h _ hx, h.size x hx]
    apply C06.eval_lt_numel
    intro q hq
    have hq' := h.fvc x hx q hq
    rcases List.mem_append.1 hq' with hp' | hp'
    · have hnot : q.1 ∉ t.paxes.map (·.1) := by
        intro hin
        have hnd := h.nwnd
        rw [List.map_append, List.nodup_append] at hnd
        exact hnd.2.2 q.1 (List.mem_map_of_mem (f := (·.1)) hp') q.1 hin rfl
      simp only [hnot, if_false]
      rw [h.nw1 q hp']; omega
    · have hin : q.1 ∈ t.paxes.map (·.1) := List.mem_map_of_mem (f := (·.1)) hp'
      simp only [hin, if_true]
      exact hb.1 q hp'
  · have hρ' : ∀ p ∈ nw ++ t.paxes, (fun v => if v ∈ t.paxes.map (·.1) then ρ v else 0) p.1 < p.2 := by
      intro p hp
      rcases List.mem_append.1 hp with hp' | hp'
      · have hnot : p.1 ∉ t.paxes.map (·.1) := by
          intro hin
          have hnd := h.nwnd
          rw [List.map_append, List.nodup_append] at hnd
          exact hnd.2.2 p.1 (List.mem_map_of_mem (f := (·.1)) hp') p.1 hin rfl
        simp only [hnot, if_false]
        rw [h.nw1 p hp']; omega
      · have hin : p.1 ∈ t.paxes.map (·.1) := List.mem_map_of_mem (f := (·.1)) hp'
        simp only [hin, if_true]
        exact hb.1 p hp'
    rw [h.gen _ hρ', ← hb.2]
    apply List.map_congr_left
    intro e he
    apply eval_congr
    intro q hq
    have hin : q.1 ∈ t.paxes.map (·.1) := List.mem_map_of_mem (f := (·.1)) (h.semt.fvsub e he q hq)
    simp only [hin, if_true]

/-- **inside the result pattern**: the cell of the layout of `t` at `γ` is the cell of `t.dense` at `lggs(γ)` -/
theorem side_backed (h : SideOK t P sel lggs nw) (γ : Nat → Nat) (hγ : ∀ x ∈ P, γ x.2.1 < x.2.2) :
    ∃ v, (layout t (nw ++ t.paxes) (P.map (fun x => sel x.1)))[flat ((gsOf P).map (·.2)) (pidx (gsOf P) γ)]? = some v ∧
      t.dense[flat t.vshape (lggs.map (Axis.eval γ))]? = some v := by
  have hs := aux_sem h
  have hv := auxT_vshape h
  rw [layout_eq h]
  by_cases hb : ∃ ρ, Backs (auxT t P sel nw) (pidx (gsOf P) γ) ρ
  · obtain ⟨ρ, hb⟩ := hb
    have h1 := dense_backed hs hb
    rw [hv] at h1
    obtain ⟨hr, hread⟩ := (backs_aux_iff γ ρ).1 hb
    have hbt : Backs t (lggs.map (Axis.eval γ)) ρ :=
      ⟨fun p hp => hr p (List.mem_append_right _ hp), (lggs_of_reading h γ ρ hr hread).symm⟩
    have h2 := dense_backed h.semt hbt
    refine ⟨_, h1, ?_⟩
    rw [h2]
    show some (t.physical[_]?.getD t.default) = some (t.physical[_]?.getD t.default)
    rw [show (auxT t P sel nw).paxes = nw ++ t.paxes from rfl,
      flat_front_ones nw t.paxes ρ h.nw1 (fun k hk => hr k (List.mem_append_left _ hk))]
  · have hb' : ∀ ρ, ¬ Backs (auxT t P sel nw) (pidx (gsOf P) γ) ρ := fun ρ hρ => hb ⟨ρ, hρ⟩
    have hm : pidx (gsOf P) γ ∈ assigns (auxT t P sel nw).vshape := by
      rw [hv]
      apply pidx_mem_assigns
      intro p hp
      obtain ⟨x, hx, rfl⟩ := mem_gsOf.1 hp
      exact hγ x hx
    have h1 := dense_unbacked hs hm hb'
    rw [hv] at h1
    refine ⟨_, h1, ?_⟩
    apply dense_unbacked h.semt (lggs_range h γ hγ)
    intro ρ hbt
    obtain ⟨ρ', hr', hγ', hc'⟩ := reading_of_backs h hbt
    have hagree := lggs_inj h γ (lift sel P ρ') hγ hγ' hc'.symm
    exact hb' ρ' ((backs_aux_iff γ ρ').2 ⟨hr', fun x hx => by rw [hagree x hx, lift_mem h ρ' hx]⟩)

/-- **outside the result pattern** no physical element of `t` backs the cell -/
theorem side_unbacked (h : SideOK t P sel lggs nw) {c : List Nat} (hc : c ∈ assigns t.vshape)
    (hn : ∀ γ, (∀ x ∈ P, γ x.2.1 < x.2.2) → lggs.map (Axis.eval γ) ≠ c) :
    t.dense[flat t.vshape c]? = some t.default := by
  apply dense_unbacked h.semt hc
  intro ρ hbt
  obtain ⟨ρ', hr', hγ', hc'⟩ := reading_of_backs h hbt
  exact hn _ hγ' hc'

end side

/-! ### `normalize` -/

theorem numel_filter_ones : ∀ (ps : List (Nat × Nat)),
    numel ((ps.filter (fun p => p.2 != 1)).map (·.2)) = numel (ps.map (·.2))
  | [] => rfl
  | p :: ps => by
    by_cases h : p.2 = 1
    · have : (p.2 != 1) = false := by simp [h]
      rw [List.filter_cons, this, List.map_cons, numel_cons, h]
      simp only [Bool.false_eq_true, if_false]
      rw [numel_filter_ones ps]; simp
    · have : (p.2 != 1) = true := by simp [h]
      rw [List.filter_cons, this]
      simp only [if_true]
      rw [List.map_cons, List.map_cons, numel_cons, numel_cons, numel_filter_ones ps]

theorem flat_filter_ones (γ : Nat → Nat) : ∀ (ps : List (Nat × Nat)), (∀ p ∈ ps, γ p.1 < p.2) →
    flat ((ps.filter (fun p => p.2 != 1)).map (·.2)) (pidx (ps.filter (fun p => p.2 != 1)) γ) =
      flat (ps.map (·.2)) (pidx ps γ)
  | [], _ => rfl
  | p :: ps, h => by
    have ih := flat_filter_ones γ ps (fun q hq => h q (by simp [hq]))
    have hp := h p (by simp)
    by_cases h1 : p.2 = 1
    · have : (p.2 != 1) = false := by simp [h1]
      rw [List.filter_cons, this]
      simp only [Bool.false_eq_true, if_false]
      rw [ih]
      simp only [pidx, List.map_cons, flat]
      have : γ p.1 = 0 := by omega
      rw [this]; simp
    · have : (p.2 != 1) = true := by simp [h1]
      rw [List.filter_cons, this]
      simp only [if_true]
      simp only [pidx, List.map_cons, flat]
      rw [numel_filter_ones]
      have ih' : flat ((ps.filter (fun p => p.2 != 1)).map (·.2)) ((ps.filter (fun p => p.2 != 1)).map (fun p => γ p.1)) =
          flat (ps.map (·.2)) (ps.map (fun p => γ p.1)) := ih
      rw [ih']

/-- no variable of `e` is bound: `clone` keeps the physical axes -/
theorem clone_fv_unbound (σ : Subst) : ∀ (fuel : Nat) (e : Axis), (∀ q ∈ e.fv, bound σ q.1 = none) →
    ∀ q, q ∈ (clone σ fuel e).fv ↔ q ∈ e.fv
  | 0, e, _, q => by rw [clone]
  | fuel+1, .phys v n, h, q => by
    rw [clone, h (v, n) (by simp [Axis.fv])]
  | fuel+1, .prod fs, h, q => by
    rw [clone, mem_fv_productAxis, mem_fv_prod]
    constructor
    · rintro ⟨f', hf', hq⟩
      obtain ⟨f, hf, rfl⟩ := List.mem_map.1 hf'
      exact ⟨f, hf, (clone_fv_unbound σ fuel f (fun q' hq' => h q' (mem_fv_prod.2 ⟨f, hf, hq'⟩)) q).1 hq⟩
    · rintro ⟨f, hf, hq⟩
      exact ⟨_, List.mem_map_of_mem hf,
        (clone_fv_unbound σ fuel f (fun q' hq' => h q' (mem_fv_prod.2 ⟨f, hf, hq'⟩)) q).2 hq⟩
  | fuel+1, .sum b t a, h, q => by
    rw [clone]
    simp only [Axis.fv]
    exact clone_fv_unbound σ fuel t (fun q' hq' => h q' (by simpa [Axis.fv] using hq')) q

/-- the substitution of `normalize` -/
def unitSubst (ps : List (Nat × Nat)) : Subst := (ps.filter (fun p => p.2 == 1)).map (fun p => (p.1, unitAxis))

theorem bound_unitSubst_some {ps : List (Nat × Nat)} {v : Nat} {a : Axis} (h : bound (unitSubst ps) v = some a) :
    a = unitAxis ∧ (v, 1) ∈ ps := by
  have hm := bound_mem h
  unfold unitSubst at hm
  obtain ⟨p, hp, he⟩ := List.mem_map.1 hm
  rw [List.mem_filter] at hp
  simp only [Prod.mk.injEq] at he
  have h1 : p.2 = 1 := by simpa using hp.2
  refine ⟨he.2.symm, ?_⟩
  rw [← he.1, ← h1]
  exact hp.1

theorem bound_unitSubst_of_mem {ps : List (Nat × Nat)} {v : Nat} (h : (v, 1) ∈ ps) :
    bound (unitSubst ps) v = some unitAxis := by
  cases hb : bound (unitSubst ps) v with
  | some a => rw [(bound_unitSubst_some hb).1]
  | none =>
    exfalso
    unfold bound at hb
    simp only [Option.map_eq_none_iff, List.find?_eq_none] at hb
    have : (v, unitAxis) ∈ unitSubst ps := by
      unfold unitSubst
      exact List.mem_map.2 ⟨(v, 1), List.mem_filter.2 ⟨h, by simp⟩, rfl⟩
    have := hb _ this
    simp at this

theorem bound_unitSubst_none {ps : List (Nat × Nat)} (hnd : (ps.map (·.1)).Nodup) {q : Nat × Nat} (hq : q ∈ ps)
    (h1 : q.2 ≠ 1) : bound (unitSubst ps) q.1 = none := by
  cases hb : bound (unitSubst ps) q.1 with
  | none => rfl
  | some a =>
    exfalso
    have := (bound_unitSubst_some hb).2
    have := eq_of_mem_nodup_fst hnd hq this rfl
    exact h1 (by rw [this])

theorem clone_unit_phys (σ : Subst) (k n : Nat) (h : bound σ k = some unitAxis) :
    clone σ FUEL (.phys k n) = unitAxis := by
  show clone σ (3999 + 1) (.phys k n) = unitAxis
  rw [clone, h]
  show clone σ (3998 + 1) (.prod []) = unitAxis
  rw [clone]
  rfl

structure NormOK (T : PT) : Prop where
  len : T.physical.length = numel (T.paxes.map (·.2))
  nodup : (T.paxes.map (·.1)).Nodup
  fvsub : ∀ e ∈ T.vaxes, ∀ q ∈ e.fv, q ∈ T.paxes
  occ : ∀ p ∈ T.paxes, ∃ e ∈ T.vaxes, p ∈ e.fv
  top : ∀ g ∈ T.vaxes, (∃ k, g = .phys k 1) ∨ ∀ q ∈ g.fv, q.2 ≠ 1

section norm
variable {T : PT}

theorem norm_sat (h : NormOK T) (γ : Nat → Nat) (hγ : ∀ p ∈ T.paxes, p.2 = 1 → γ p.1 = 0) :
    Sat γ (unitSubst T.paxes) := by
  intro p hp
  unfold unitSubst at hp
  obtain ⟨x, hx, rfl⟩ := List.mem_map.1 hp
  rw [List.mem_filter] at hx
  simp only [unitAxis_eval]
  exact hγ x hx.1 (by simpa using hx.2)

theorem norm_numelOkS : NumelOkS (unitSubst T.paxes) := by
  intro p hp q hq
  unfold unitSubst at hp
  obtain ⟨x, hx, rfl⟩ := List.mem_map.1 hp
  simp [unitAxis_fv] at hq

theorem norm_numelOk (h : NormOK T) {g : Axis} (hg : g ∈ T.vaxes) : NumelOk (unitSubst T.paxes) g := by
  intro q hq b hb
  obtain ⟨rfl, hm⟩ := bound_unitSubst_some hb
  have := eq_of_mem_nodup_fst h.nodup (h.fvsub g hg q hq) hm rfl
  rw [unitAxis_numel, this]

theorem norm_clone_eval (h : NormOK T) (γ : Nat → Nat) (hγ : ∀ p ∈ T.paxes, p.2 = 1 → γ p.1 = 0) {g : Axis}
    (hg : g ∈ T.vaxes) : (clone (unitSubst T.paxes) FUEL g).eval γ = g.eval γ :=
  (clone_spec (norm_sat h γ hγ) norm_numelOkS FUEL g (norm_numelOk h hg)).1

theorem norm_clone_numel (h : NormOK T) {g : Axis} (hg : g ∈ T.vaxes) :
    (clone (unitSubst T.paxes) FUEL g).numel = g.numel :=
  (clone_spec (norm_sat h (fun _ => 0) (fun _ _ _ => rfl)) norm_numelOkS FUEL g (norm_numelOk h hg)).2

/-- the physical axes of a squeezed virtual axis: those of the axis, of size ≠ 1 -/
theorem norm_clone_fv (h : NormOK T) {g : Axis} (hg : g ∈ T.vaxes) (q : Nat × Nat) :
    q ∈ (clone (unitSubst T.paxes) FUEL g).fv ↔ q ∈ g.fv ∧ q.2 ≠ 1 := by
  rcases h.top g hg with ⟨k, rfl⟩ | hno
  · have hk : (k, 1) ∈ T.paxes := h.fvsub _ hg (k, 1) (by simp [Axis.fv])
    rw [clone_unit_phys _ _ _ (bound_unitSubst_of_mem hk), unitAxis_fv]
    simp only [List.not_mem_nil, Axis.fv, List.mem_singleton, false_iff, not_and, not_not]
    intro e; rw [e]
  · rw [clone_fv_unbound _ FUEL g (fun q' hq' => bound_unitSubst_none h.nodup (h.fvsub g hg q' hq') (hno q' hq'))]
    exact ⟨fun hq => ⟨hq, hno q hq⟩, fun hq => hq.1⟩

/-- the squeezed tensor -/
def squeezed (T : PT) : PT :=
  { T with paxes := T.paxes.filter (fun p => p.2 != 1), vaxes := T.vaxes.map (clone (unitSubst T.paxes) FUEL) }

theorem normalize_eq (T : PT) :
    normalize T = if (unitSubst T.paxes).isEmpty then T else squeezed T := rfl

theorem squeezed_struct (h : NormOK T) : Struct (squeezed T) where
  len := by
    show T.physical.length = _
    rw [h.len]; exact (numel_filter_ones _).symm
  nodup := List.Nodup.sublist (List.Sublist.map _ List.filter_sublist) h.nodup
  no1 := by
    intro p hp
    have := (List.mem_filter.1 hp).2
    simpa using this
  fvsub := by
    intro e he q hq
    obtain ⟨g, hg, rfl⟩ := List.mem_map.1 he
    obtain ⟨h1, h2⟩ := (norm_clone_fv h hg q).1 hq
    exact List.mem_filter.2 ⟨h.fvsub g hg q h1, by simpa using h2⟩
  occ := by
    intro p hp
    obtain ⟨hp1, hp2⟩ := List.mem_filter.1 hp
    obtain ⟨g, hg, hpg⟩ := h.occ p hp1
    exact ⟨_, List.mem_map_of_mem hg, (norm_clone_fv h hg p).2 ⟨hpg, by simpa using hp2⟩⟩

theorem squeezed_vshape (h : NormOK T) : (squeezed T).vshape = T.vshape := by
  unfold squeezed PT.vshape
  simp only [List.map_map]
  apply List.map_congr_left
  intro g hg
  exact norm_clone_numel h hg

theorem squeezed_dense (h : NormOK T) : (squeezed T).dense = T.dense := by
  have hs : Sem (squeezed T) := (squeezed_struct h).sem
  have hs0 : Sem T := sem_of_occ h.nodup h.fvsub h.occ
  have hv := squeezed_vshape h
  apply list_ext_flat T.vshape
  · rw [length_dense, hv]
  · rw [length_dense]
  intro c hc
  have hvax : ∀ (γ : Nat → Nat), (∀ p ∈ T.paxes, p.2 = 1 → γ p.1 = 0) →
      (squeezed T).vaxes.map (Axis.eval γ) = T.vaxes.map (Axis.eval γ) := by
    intro γ hγ
    show (T.vaxes.map (clone (unitSubst T.paxes) FUEL)).map (Axis.eval γ) = _
    rw [List.map_map]
    apply List.map_congr_left
    intro g hg
    exact norm_clone_eval h γ hγ hg
  by_cases hb : ∃ γ, Backs T c γ
  · obtain ⟨γ, hb⟩ := hb
    have hz : ∀ p ∈ T.paxes, p.2 = 1 → γ p.1 = 0 := by
      intro p hp h1
      have := hb.1 p hp
      omega
    have hb' : Backs (squeezed T) c γ :=
      ⟨fun p hp => hb.1 p (List.mem_filter.1 hp).1, by rw [hvax γ hz]; exact hb.2⟩
    have h1 := dense_backed hs hb'
    rw [hv] at h1
    rw [h1, dense_backed hs0 hb]
    show some ((T.physical[flat ((T.paxes.filter (fun p => p.2 != 1)).map (·.2))
      (pidx (T.paxes.filter (fun p => p.2 != 1)) γ)]?).getD T.default) = _
    rw [flat_filter_ones γ T.paxes hb.1]
  · have hb0 : ∀ γ, ¬ Backs T c γ := fun γ hγ => hb ⟨γ, hγ⟩
    rw [dense_unbacked hs0 hc hb0]
    have hc' : c ∈ assigns (squeezed T).vshape := by rw [hv]; exact hc
    have h1 := dense_unbacked hs hc' ?_
    · rw [hv] at h1; exact h1
    · intro γ hγ
      -- restrict `γ` to the remaining axes: 0 on the squeezed ones
      let γ' : Nat → Nat := fun v => if v ∈ (squeezed T).paxes.map (·.1) then γ v else 0
      have hagree : ∀ p ∈ (squeezed T).paxes, γ' p.1 = γ p.1 := by
        intro p hp
        have : p.1 ∈ (squeezed T).paxes.map (·.1) := List.mem_map_of_mem (f := (·.1)) hp
        simp only [γ', this, if_true]
      have hz : ∀ p ∈ T.paxes, p.2 = 1 → γ' p.1 = 0 := by
        intro p hp h1
        have hnot : p.1 ∉ (squeezed T).paxes.map (·.1) := by
          intro hin
          obtain ⟨p', hp', he⟩ := List.mem_map.1 hin
          obtain ⟨hp'1, hp'2⟩ := List.mem_filter.1 hp'
          have := eq_of_mem_nodup_fst h.nodup hp'1 hp he
          rw [this] at hp'2
          simp [h1] at hp'2
        simp only [γ', hnot, if_false]
      apply hb0 γ'
      refine ⟨?_, ?_⟩
      · intro p hp
        by_cases h1 : p.2 = 1
        · rw [hz p hp h1, h1]; omega
        · have hp' : p ∈ (squeezed T).paxes := List.mem_filter.2 ⟨hp, by simpa using h1⟩
          rw [hagree p hp']
          exact hγ.1 p hp'
      · rw [← hvax γ' hz, ← hγ.2]
        apply List.map_congr_left
        intro e he
        apply eval_congr
        intro q hq
        exact hagree q (hs.fvsub e he q hq)

/-- **the constructor's normalisation**: squeezing the physical axes of size 1 establishes `wf` and changes
neither the shape nor the dense tensor -/
theorem normalize_spec (h : NormOK T) :
    (normalize T).wf = true ∧ (normalize T).vshape = T.vshape ∧ (normalize T).dense = T.dense := by
  rw [normalize_eq]
  by_cases he : (unitSubst T.paxes).isEmpty = true
  · rw [if_pos he]
    refine ⟨(wf_iff_struct T).2 ⟨h.len, h.nodup, ?_, h.fvsub, h.occ⟩, rfl, rfl⟩
    intro p hp h1
    have : (p.1, unitAxis) ∈ unitSubst T.paxes := by
      unfold unitSubst
      exact List.mem_map.2 ⟨p, List.mem_filter.2 ⟨hp, by simp [h1]⟩, rfl⟩
    rw [List.isEmpty_iff] at he
    rw [he] at this
    cases this
  · rw [if_neg he]
    exact ⟨(wf_iff_struct _).2 (squeezed_struct h), squeezed_vshape h, squeezed_dense h⟩

end norm

end C06dL
