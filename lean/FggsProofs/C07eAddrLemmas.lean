/-
C07eAddrLemmas — addresses of strided views as sums over the dimensions; `shrink` (dropping the dimensions of stride 0
or size 1 does not change the address of an in-range index), `unsqueeze` + `expand` (the address ignores the inserted
dimensions), erasing a sorted list of positions from a list.
-/
import FggsModel.Strided
import Mathlib.Tactic.Linarith
import Mathlib.Tactic.Ring
import Mathlib.Data.List.Basic
import Mathlib.Data.List.Nodup
import Mathlib.Data.List.Pairwise
import Mathlib.Data.List.Perm.Basic

set_option linter.unusedSimpArgs false
set_option linter.unusedVariables false

namespace C07eL
open Fggs Fggs.Ax Fggs.Sd

/-! ### sums over `0 … n-1` -/

def sumTo (f : Nat → Nat) : Nat → Nat
  | 0 => 0
  | n+1 => sumTo f n + f n

theorem sumTo_congr {f g : Nat → Nat} : ∀ {n : Nat}, (∀ i < n, f i = g i) → sumTo f n = sumTo g n
  | 0, _ => rfl
  | n+1, h => by
    rw [sumTo, sumTo, sumTo_congr (fun i hi => h i (by omega)), h n (by omega)]

theorem sumTo_zero {f : Nat → Nat} : ∀ {n : Nat}, (∀ i < n, f i = 0) → sumTo f n = 0
  | 0, _ => rfl
  | n+1, h => by
    rw [sumTo, sumTo_zero (fun i hi => h i (by omega)), h n (by omega)]

theorem sumTo_shift (f : Nat → Nat) : ∀ (n : Nat), sumTo f (n+1) = f 0 + sumTo (fun i => f (i+1)) n
  | 0 => by simp [sumTo]
  | n+1 => by
    rw [sumTo, sumTo_shift f n, sumTo]; ring

theorem sumTo_extend {f : Nat → Nat} {n : Nat} : ∀ {m : Nat}, n ≤ m → (∀ i, n ≤ i → i < m → f i = 0) →
    sumTo f m = sumTo f n
  | 0, h, _ => by
    have : n = 0 := by omega
    rw [this]
  | m+1, h, hz => by
    by_cases hn : n = m+1
    · rw [hn]
    · rw [sumTo, sumTo_extend (by omega) (fun i h1 h2 => hz i h1 (by omega)), hz m (by omega) (by omega)]
      rfl

/-- a vanishing summand may be skipped -/
theorem sumTo_skip (f : Nat → Nat) (d : Nat) (h0 : f d = 0) : ∀ (n : Nat), d ≤ n →
    sumTo f (n+1) = sumTo (fun i => f (if i < d then i else i+1)) n
  | 0, hd => by
    have : d = 0 := by omega
    subst this
    simp [sumTo, h0]
  | n+1, hd => by
    by_cases hn : d = n+1
    · have h0' : f (n+1) = 0 := hn ▸ h0
      rw [sumTo, h0']
      apply sumTo_congr
      intro i hi
      have : i < d := by omega
      simp [this]
    · rw [sumTo, sumTo_skip f d h0 n (by omega)]
      conv_rhs => rw [sumTo]
      have : ¬ n < d := by omega
      simp [this]

theorem sumTo_eq_sum (f : Nat → Nat) : ∀ (n : Nat), sumTo f n = ((List.range n).map f).sum
  | 0 => rfl
  | n+1 => by
    rw [sumTo, sumTo_eq_sum f n, List.range_succ, List.map_append, List.sum_append]; simp

theorem sum_filter_zero (p : Nat → Bool) (f : Nat → Nat) : ∀ (l : List Nat), (∀ x ∈ l, p x = false → f x = 0) →
    (l.map f).sum = ((l.filter p).map f).sum
  | [], _ => rfl
  | x :: l, h => by
    have ih := sum_filter_zero p f l (fun y hy => h y (by simp [hy]))
    rw [List.map_cons, List.sum_cons, List.filter_cons]
    cases hp : p x with
    | true => simp only [if_true, List.map_cons, List.sum_cons]; rw [ih]
    | false =>
      simp only [Bool.false_eq_true, if_false]
      rw [h x (by simp) hp, ih]; simp

theorem foldl_add_sum {α : Type} (g : α → Nat) : ∀ (ks : List α) (o : Nat),
    ks.foldl (fun acc k => acc + g k) o = o + (ks.map g).sum
  | [], o => by simp
  | k :: ks, o => by
    rw [List.foldl_cons, foldl_add_sum g ks, List.map_cons, List.sum_cons]; ring

/-! ### addresses -/

theorem foldl_zip_sumTo : ∀ (idx st : List Nat) (o n : Nat), min idx.length st.length ≤ n →
    (idx.zip st).foldl (fun acc p => acc + p.1 * p.2) o
      = o + sumTo (fun i => idx[i]?.getD 0 * st[i]?.getD 0) n
  | [], st, o, n, _ => by
    rw [sumTo_zero (fun i _ => by simp)]; simp
  | x :: idx, [], o, n, _ => by
    rw [sumTo_zero (fun i _ => by simp)]; simp
  | x :: idx, y :: st, o, n, h => by
    obtain ⟨n, rfl⟩ : ∃ k, n = k+1 := ⟨n-1, by simp at h; omega⟩
    rw [List.zip_cons_cons, List.foldl_cons, foldl_zip_sumTo idx st _ n (by simp at h; omega), sumTo_shift]
    simp only [List.getElem?_cons_succ, List.getElem?_cons_zero, Option.getD_some]
    ring

theorem addr_eq_sumTo (v : View) (idx : List Nat) (n : Nat) (h : min idx.length v.strides.length ≤ n) :
    v.addr idx = v.offset + sumTo (fun i => idx[i]?.getD 0 * v.strides[i]?.getD 0) n :=
  foldl_zip_sumTo idx v.strides v.offset n h

theorem addr_map' {α : Type} (f g : α → Nat) : ∀ (ks : List α) (o : Nat),
    ((ks.map f).zip (ks.map g)).foldl (fun acc p => acc + p.1 * p.2) o
      = ks.foldl (fun acc k => acc + f k * g k) o
  | [], o => rfl
  | k :: ks, o => by
    rw [List.map_cons, List.map_cons, List.zip_cons_cons, List.foldl_cons, List.foldl_cons, addr_map' f g ks]

/-- **dropping the dimensions of stride 0 or size 1** does not change the address of an in-range index tuple -/
theorem shrink_addr (v : View) (idx : List Nat) (hl : idx.length = v.shape.length)
    (hr : ∀ k, k < v.shape.length → idx[k]?.getD 0 < v.shape[k]?.getD 0) :
    (shrink v).addr ((reserved v).map (fun k => idx[k]?.getD 0)) = v.addr idx := by
  rw [addr_eq_sumTo v idx v.shape.length (by omega), sumTo_eq_sum]
  unfold shrink View.addr
  simp only
  rw [addr_map', foldl_add_sum]
  congr 1
  unfold reserved
  symm
  apply sum_filter_zero
  intro k hk hp
  rw [List.mem_range] at hk
  have := hr k hk
  simp only [Bool.not_eq_eq_eq_not, Bool.not_false, Bool.or_eq_true, beq_iff_eq] at hp
  rcases hp with hp | hp
  · rw [hp]; simp
  · rw [hp] at this
    have : idx[k]?.getD 0 = 0 := by omega
    rw [this]; simp

/-! ### `expand` after `unsqueeze` -/

/-- the stride of dimension `i` after `expand` -/
def estr (w : View) (O : List Nat) (i : Nat) : Nat :=
  if w.shape[i]?.getD 1 == 1 && O[i]?.getD 1 != 1 then 0 else w.strides[i]?.getD 0

theorem expand_addr (w : View) (O I : List Nat) :
    (expand w O).addr I = w.offset + sumTo (fun i => I[i]?.getD 0 * estr w O i) O.length := by
  rw [addr_eq_sumTo (expand w O) I O.length (by simp [expand])]
  congr 1
  apply sumTo_congr
  intro i hi
  congr 1
  simp [expand, estr, hi]

theorem getElem?_ins {α : Type} (l : List α) (d : Nat) (x : α) (hd : d ≤ l.length) (i : Nat) :
    (l.take d ++ [x] ++ l.drop d)[i]? = if i < d then l[i]? else if i = d then some x else l[i-1]? := by
  by_cases h1 : i < d
  · rw [if_pos h1, List.append_assoc, List.getElem?_append_left (by simp; omega), List.getElem?_take_of_lt h1]
  · rw [if_neg h1, List.append_assoc, List.getElem?_append_right (by simp; omega)]
    have hl : (l.take d).length = d := by simp; omega
    rw [hl]
    by_cases h2 : i = d
    · rw [if_pos h2, h2]; simp
    · rw [if_neg h2]
      obtain ⟨j, hj⟩ : ∃ j, i - d = j + 1 := ⟨i - d - 1, by omega⟩
      rw [hj, List.singleton_append, List.getElem?_cons_succ, List.getElem?_drop]
      congr 1; omega

theorem unsqueeze_shape (v : View) (d : Nat) (hd : d ≤ v.shape.length) (i : Nat) :
    (unsqueeze v d).shape[i]? = if i < d then v.shape[i]? else if i = d then some 1 else v.shape[i-1]? := by
  unfold unsqueeze; exact getElem?_ins _ _ _ hd i

theorem unsqueeze_strides (v : View) (d : Nat) (hd : d ≤ v.strides.length) (i : Nat) :
    ∃ s, (unsqueeze v d).strides[i]? = if i < d then v.strides[i]? else if i = d then some s else v.strides[i-1]? := by
  unfold unsqueeze; exact ⟨_, getElem?_ins _ _ _ hd i⟩

theorem unsqueeze_shape_length (v : View) (d : Nat) : (unsqueeze v d).shape.length = v.shape.length + 1 := by
  unfold unsqueeze; simp; omega

theorem unsqueeze_strides_length (v : View) (d : Nat) : (unsqueeze v d).strides.length = v.strides.length + 1 := by
  unfold unsqueeze; simp; omega

/-- one `unsqueeze` under `expand`: the address ignores the new dimension -/
theorem expand_unsqueeze_addr (v : View) (d : Nat) (O I : List Nat) (h1 : d ≤ v.shape.length)
    (h2 : d ≤ v.strides.length) (h3 : d < O.length) (h4 : O[d]?.getD 1 = 1 → I[d]?.getD 0 = 0) :
    (expand (unsqueeze v d) O).addr I = (expand v (O.eraseIdx d)).addr (I.eraseIdx d) := by
  rw [expand_addr, expand_addr]
  have hoff : (unsqueeze v d).offset = v.offset := rfl
  rw [hoff]
  congr 1
  have hlen : O.length = (O.eraseIdx d).length + 1 := by rw [List.length_eraseIdx, if_pos h3]; omega
  rw [hlen]
  have hd0 : I[d]?.getD 0 * estr (unsqueeze v d) O d = 0 := by
    unfold estr
    rw [unsqueeze_shape v d h1 d]
    simp only [Nat.lt_irrefl, if_false, if_true, Option.getD_some, beq_self_eq_true, Bool.true_and]
    by_cases ho : O[d]?.getD 1 = 1
    · rw [h4 ho]; simp
    · simp [ho]
  rw [sumTo_skip _ d hd0 _ (by rw [List.length_eraseIdx, if_pos h3]; omega)]
  apply sumTo_congr
  intro i hi
  have e1 : ∀ (l : List Nat), (l.eraseIdx d)[i]? = l[if i < d then i else i+1]? := by
    intro l
    rw [List.getElem?_eraseIdx]
    split <;> rfl
  rw [e1 I]
  congr 1
  unfold estr
  rw [e1 O]
  obtain ⟨s, hs⟩ := unsqueeze_strides v d h2 (if i < d then i else i+1)
  rw [unsqueeze_shape v d h1, hs]
  by_cases hid : i < d
  · simp only [hid, if_true]
  · have a1 : ¬ (i + 1 < d) := by omega
    have a2 : ¬ (i + 1 = d) := by omega
    simp only [hid, if_false, a1, a2, Nat.add_sub_cancel]

/-! ### erasing several positions -/

/-- erase the positions `ds`, the last one first -/
def eraseAll {α : Type} (ds : List Nat) (l : List α) : List α := ds.foldr (fun d l => l.eraseIdx d) l

theorem eraseAll_cons {α : Type} (d : Nat) (ds : List Nat) (l : List α) :
    eraseAll (d :: ds) l = (eraseAll ds l).eraseIdx d := rfl

theorem sorted_bound : ∀ (ds : List Nat) (d m : Nat), (d :: ds).Pairwise (· < ·) → (∀ x ∈ d :: ds, x < m) →
    d + ds.length + 1 ≤ m
  | [], d, m, _, hb => by
    have := hb d (by simp); simp; omega
  | d' :: ds, d, m, hp, hb => by
    rw [List.pairwise_cons] at hp
    have ih := sorted_bound ds d' m hp.2 (fun x hx => hb x (by simp [hx]))
    have := hp.1 d' (by simp)
    simp only [List.length_cons]; omega

theorem length_eraseAll {α : Type} : ∀ (ds : List Nat) (l : List α), ds.Pairwise (· < ·) → (∀ x ∈ ds, x < l.length) →
    (eraseAll ds l).length + ds.length = l.length
  | [], l, _, _ => by simp [eraseAll]
  | d :: ds, l, hp, hb => by
    have ih := length_eraseAll ds l (List.pairwise_cons.1 hp).2 (fun x hx => hb x (by simp [hx]))
    have := sorted_bound ds d l.length hp hb
    rw [eraseAll_cons, List.length_eraseIdx, if_pos (by omega)]
    simp only [List.length_cons]; omega

theorem getElem?_eraseAll_lt {α : Type} (p : Nat) : ∀ (ds : List Nat) (l : List α), (∀ d ∈ ds, p < d) →
    (eraseAll ds l)[p]? = l[p]?
  | [], l, _ => rfl
  | d :: ds, l, h => by
    rw [eraseAll_cons, List.getElem?_eraseIdx, if_pos (h d (by simp)),
      getElem?_eraseAll_lt p ds l (fun x hx => h x (by simp [hx]))]

/-- **`post_einsum`**: `unsqueeze` at ascending positions and `expand`: the address ignores the inserted dimensions -/
theorem expand_foldl_unsqueeze_addr : ∀ (ds : List Nat) (v : View) (O I : List Nat),
    ds.Pairwise (· < ·) → (∀ d ∈ ds, d < O.length) → v.shape.length + ds.length = O.length →
    v.strides.length + ds.length = O.length → (∀ d ∈ ds, O[d]?.getD 1 = 1 → I[d]?.getD 0 = 0) →
    (expand (ds.foldl unsqueeze v) O).addr I = (expand v (eraseAll ds O)).addr (eraseAll ds I)
  | [], v, O, I, _, _, _, _, _ => rfl
  | d :: ds, v, O, I, hp, hb, hs, ht, hz => by
    have hp' := (List.pairwise_cons.1 hp)
    have hbd := sorted_bound ds d O.length hp hb
    have hlen := length_eraseAll ds O hp'.2 (fun x hx => hb x (by simp [hx]))
    simp only [List.length_cons] at hs ht
    rw [List.foldl_cons, expand_foldl_unsqueeze_addr ds (unsqueeze v d) O I hp'.2 (fun x hx => hb x (by simp [hx]))
      (by rw [unsqueeze_shape_length]; omega) (by rw [unsqueeze_strides_length]; omega)
      (fun x hx => hz x (by simp [hx])), eraseAll_cons, eraseAll_cons]
    apply expand_unsqueeze_addr v d _ _ (by omega) (by omega) (by omega)
    rw [getElem?_eraseAll_lt d ds O hp'.1, getElem?_eraseAll_lt d ds I hp'.1]
    exact hz d (by simp)

/-- `expand` to the view's own shape changes no address -/
theorem expand_self_addr (v : View) (h : v.strides.length = v.shape.length) (I : List Nat) :
    (expand v v.shape).addr I = v.addr I := by
  rw [expand_addr, addr_eq_sumTo v I v.shape.length (by omega)]
  congr 1
  apply sumTo_congr
  intro i hi
  congr 1
  unfold estr
  have : ¬ (v.shape[i]?.getD 1 = 1 ∧ ¬ v.shape[i]?.getD 1 = 1) := by intro h; exact h.2 h.1
  simp

/-! ### the positions of the elements satisfying a predicate -/

def posOf (rm : Nat → Bool) (out : List Nat) : List Nat :=
  (List.range out.length).filter (fun p => rm (out[p]?.getD 0))

theorem posOf_cons (rm : Nat → Bool) (x : Nat) (xs : List Nat) :
    posOf rm (x :: xs) = (if rm x then [0] else []) ++ (posOf rm xs).map (· + 1) := by
  unfold posOf
  rw [List.length_cons, List.range_succ_eq_map, List.filter_cons, List.filter_map]
  simp only [List.getElem?_cons_zero, Option.getD_some]
  have : ((fun p => rm ((x :: xs)[p]?.getD 0)) ∘ Nat.succ) = (fun p => rm (xs[p]?.getD 0)) := by
    funext p; simp
  rw [this]
  split <;> simp

theorem eraseAll_map_succ {α : Type} (y : α) : ∀ (ds : List Nat) (l : List α),
    eraseAll (ds.map (· + 1)) (y :: l) = y :: eraseAll ds l
  | [], l => rfl
  | d :: ds, l => by
    rw [List.map_cons, eraseAll_cons, eraseAll_map_succ y ds l, eraseAll_cons, List.eraseIdx_cons_succ]

theorem eraseAll_posOf {β : Type} (rm : Nat → Bool) (f : Nat → β) : ∀ (out : List Nat),
    eraseAll (posOf rm out) (out.map f) = (out.filter (fun x => !rm x)).map f
  | [] => rfl
  | x :: xs => by
    rw [posOf_cons, List.map_cons, List.filter_cons]
    cases h : rm x with
    | true =>
      simp only [if_true, Bool.not_true, Bool.false_eq_true, if_false, List.singleton_append]
      rw [eraseAll_cons, eraseAll_map_succ, List.eraseIdx_cons_zero, eraseAll_posOf rm f xs]
    | false =>
      simp only [Bool.false_eq_true, if_false, Bool.not_false, if_true, List.nil_append, List.map_cons]
      rw [eraseAll_map_succ, eraseAll_posOf rm f xs]

theorem posOf_sorted (rm : Nat → Bool) (out : List Nat) : (posOf rm out).Pairwise (· < ·) :=
  List.Pairwise.filter _ List.pairwise_lt_range

theorem mem_posOf (rm : Nat → Bool) (out : List Nat) (p : Nat) :
    p ∈ posOf rm out ↔ p < out.length ∧ rm (out[p]?.getD 0) = true := by
  simp [posOf, List.mem_filter, List.mem_range]

/-- strictly ascending lists with the same elements are equal -/
theorem sorted_unique : ∀ (l1 l2 : List Nat), l1.Pairwise (· < ·) → l2.Pairwise (· < ·) → (∀ x, x ∈ l1 ↔ x ∈ l2) →
    l1 = l2
  | [], [], _, _, _ => rfl
  | [], b :: l2, _, _, h => by have := (h b).2 (by simp); simp at this
  | a :: l1, [], _, _, h => by have := (h a).1 (by simp); simp at this
  | a :: l1, b :: l2, h1, h2, h => by
    rw [List.pairwise_cons] at h1 h2
    have hab : a = b := by
      have ha := (h a).1 (by simp)
      have hb := (h b).2 (by simp)
      rw [List.mem_cons] at ha hb
      rcases ha with ha | ha
      · exact ha
      · rcases hb with hb | hb
        · exact hb.symm
        · have := h1.1 b hb; have := h2.1 a ha; omega
    subst hab
    congr 1
    apply sorted_unique l1 l2 h1.2 h2.2
    intro x
    constructor
    · intro hx
      have := (h x).1 (by simp [hx])
      rw [List.mem_cons] at this
      rcases this with e | e
      · have := h1.1 x hx; omega
      · exact e
    · intro hx
      have := (h x).2 (by simp [hx])
      rw [List.mem_cons] at this
      rcases this with e | e
      · have := h2.1 x hx; omega
      · exact e

end C07eL
