/-
Helper lemmas for Props/C06e.lean, part 3: the un-normalised result of `reshape` after a successful, fully resolved
unification is a well-formed description of the same flat data.
-/
import FggsModel.Reshape
import FggsProofs.C06bLemmas
import FggsProofs.C06dBaseLemmas
import FggsProofs.C06dSideLemmas
import FggsProofs.C06eReachLemmas
import FggsProofs.C06eSemLemmas
import Mathlib.Data.List.Basic
import Mathlib.Data.List.Nodup
import Mathlib.Tactic.Linarith

set_option linter.unusedSimpArgs false
set_option linter.unusedVariables false

namespace C06eL
open Fggs Fggs.Ax Fggs.Un Fggs.Rs C06b C06dL

/-! ### the fresh axes for the target sizes -/

def vnewOf (s : List Nat) (next : Nat) : List Axis :=
  s.zipIdx.map (fun (n, i) => if n == 1 then unitAxis else Axis.phys (next + i) n)

def vgo : List Nat → Nat → List Axis
  | [], _ => []
  | n :: s, k => (if n == 1 then unitAxis else Axis.phys k n) :: vgo s (k + 1)

theorem vnew_go (next : Nat) : ∀ (s : List Nat) (k : Nat),
    (s.zipIdx k).map (fun (n, i) => if n == 1 then unitAxis else Axis.phys (next + i) n) = vgo s (next + k)
  | [], k => rfl
  | n :: s, k => by
    rw [List.zipIdx_cons, List.map_cons, vgo, vnew_go next s (k + 1)]
    rfl

theorem vnewOf_eq (s : List Nat) (next : Nat) : vnewOf s next = vgo s next := by
  unfold vnewOf
  rw [vnew_go next s 0]; rfl

theorem vgo_numel : ∀ (s : List Nat) (k : Nat), (vgo s k).map Axis.numel = s
  | [], k => rfl
  | n :: s, k => by
    rw [vgo, List.map_cons, vgo_numel s (k + 1)]
    by_cases h : n = 1
    · subst h; simp [unitAxis_numel]
    · have : (n == 1) = false := by simpa using h
      simp [this, Axis.numel]

theorem vgo_length : ∀ (s : List Nat) (k : Nat), (vgo s k).length = s.length
  | [], k => rfl
  | n :: s, k => by rw [vgo, List.length_cons, vgo_length s (k+1), List.length_cons]

theorem vgo_fv : ∀ (s : List Nat) (k : Nat), ∀ a ∈ vgo s k, ∀ q ∈ a.fv,
    k ≤ q.1 ∧ q.1 < k + s.length ∧ s.getD (q.1 - k) 0 = q.2 ∧ q.2 ≠ 1
  | [], k, a, ha, _, _ => by simp [vgo] at ha
  | n :: s, k, a, ha, q, hq => by
    rw [vgo, List.mem_cons] at ha
    rcases ha with rfl | ha
    · by_cases h : n = 1
      · subst h; simp [unitAxis_fv] at hq
      · have : (n == 1) = false := by simpa using h
        simp only [this, Bool.false_eq_true, if_false, Axis.fv, List.mem_singleton] at hq
        subst hq
        simp [h]
    · obtain ⟨h1, h2, h3, h4⟩ := vgo_fv s (k + 1) a ha q hq
      refine ⟨by omega, by simp only [List.length_cons]; omega, ?_, h4⟩
      have : q.1 - k = (q.1 - (k + 1)) + 1 := by omega
      rw [this, List.getD_cons_succ]; exact h3

theorem vgo_eval (ρ : Nat → Nat) : ∀ (s : List Nat) (k : Nat) (c : List Nat), List.Forall₂ (· < ·) c s →
    (∀ i (h : i < c.length), s.getD i 0 ≠ 1 → ρ (k + i) = c[i]) → (vgo s k).map (Axis.eval ρ) = c
  | [], k, c, hc, _ => by cases hc; rfl
  | n :: s, k, c, hc, hd => by
    cases hc with
    | @cons x _ c' _ hx hr =>
      rw [vgo, List.map_cons]
      congr 1
      · by_cases h : n = 1
        · subst h; simp [unitAxis_eval]; omega
        · have : (n == 1) = false := by simpa using h
          simp only [this, Bool.false_eq_true, if_false, Axis.eval]
          have := hd 0 (by simp) (by simpa using h)
          simpa using this
      · apply vgo_eval ρ s (k + 1) c' hr
        intro i hi hs
        have := hd (i + 1) (by simp; omega) (by simpa using hs)
        simp only [List.getElem_cons_succ] at this
        rw [← this]; congr 1; omega

/-! ### sizes -/

theorem numel_map_numel : ∀ (es : List Axis), numel (es.map Axis.numel) = numelList es
  | [] => by simp [numel_nil, numelList]
  | e :: es => by rw [List.map_cons, numel_cons, numel_map_numel es, numelList]

theorem numel_pos_mem : ∀ (l : List Nat), 0 < numel l → ∀ n ∈ l, 0 < n
  | [], _, n, hn => by simp at hn
  | x :: l, h, n, hn => by
    rw [numel_cons] at h
    have hx : 0 < x := Nat.pos_of_mul_pos_right h
    have hl : 0 < numel l := Nat.pos_of_mul_pos_left h
    rcases List.mem_cons.1 hn with rfl | hn
    · exact hx
    · exact numel_pos_mem l hl n hn

/-- the size function of the unification problem of `reshape` -/
def szOf (t : PT) (s : List Nat) (next : Nat) : Nat → Nat := fun v =>
  if v < next then ((t.paxes.find? (·.1 == v)).map (·.2)).getD 0 else s.getD (v - next) 0

/-- the setting: a well-formed operand, a target shape of the same `numel`, a successful run of the unification
that bound no identity twice, and a result that the constant `FUEL` resolves completely -/
structure Ctx (t : PT) (s : List Nat) (next : Nat) (st : St) : Prop where
  wf : t.wf = true
  fresh : ∀ p ∈ t.paxes, p.1 < next
  pos : ∀ p ∈ t.paxes, 0 < p.2
  hnum : numel s = numel t.vshape
  run : Run (.u (productAxis (vnewOf s next)) (productAxis t.vaxes)) ⟨[], next + s.length⟩ st
  kn : KN st.subst
  pf : ∀ k ∈ t.paxes, PfOK st.subst (primeFactors st.subst FUEL (.phys k.1 k.2))
  cl : ∀ a ∈ vnewOf s next, ∀ q ∈ (clone st.subst FUEL a).fv, bound st.subst q.1 = none

section ctx
variable {t : PT} {s : List Nat} {next : Nat} {st : St}

theorem Ctx.struct (h : Ctx t s next st) : Struct t := (wf_iff_struct t).1 h.wf

theorem Ctx.sz_pax (h : Ctx t s next st) {p : Nat × Nat} (hp : p ∈ t.paxes) : szOf t s next p.1 = p.2 := by
  unfold szOf
  rw [if_pos (h.fresh p hp)]
  cases hf : t.paxes.find? (·.1 == p.1) with
  | none =>
    rw [List.find?_eq_none] at hf
    exact absurd (by simp) (hf p hp)
  | some p' =>
    have h1 := List.mem_of_find?_eq_some hf
    have h2 : p'.1 = p.1 := by simpa using List.find?_some hf
    rw [eq_of_mem_nodup_fst h.struct.nodup h1 hp h2]
    rfl

theorem Ctx.vshape_pos (h : Ctx t s next st) : 0 < numel t.vshape := by
  unfold PT.vshape
  rw [numel_map_numel]
  apply numelList_pos_aux
  intro q hq
  obtain ⟨f, hf, hqf⟩ := mem_fvList.1 hq
  exact h.pos q (h.struct.fvsub f hf q hqf)

theorem Ctx.s_pos (h : Ctx t s next st) : ∀ n ∈ s, 0 < n :=
  numel_pos_mem s (by rw [h.hnum]; exact h.vshape_pos)

theorem Ctx.vnew_fv (h : Ctx t s next st) {a : Axis} (ha : a ∈ vnewOf s next) {q : Nat × Nat} (hq : q ∈ a.fv) :
    next ≤ q.1 ∧ q.1 < next + s.length ∧ s.getD (q.1 - next) 0 = q.2 ∧ q.2 ≠ 1 ∧ 0 < q.2 := by
  rw [vnewOf_eq] at ha
  obtain ⟨h1, h2, h3, h4⟩ := vgo_fv s next a ha q hq
  refine ⟨h1, h2, h3, h4, ?_⟩
  rw [← h3, List.getD_eq_getElem?_getD, List.getElem?_eq_getElem (by omega), Option.getD_some]
  exact h.s_pos _ (List.getElem_mem _)

theorem Ctx.typedL (h : Ctx t s next st) : AxQ (Tp (szOf t s next)) (next + s.length) (productAxis (vnewOf s next)) := by
  intro q hq
  obtain ⟨a, ha, hqa⟩ := (mem_fv_productAxis _).1 hq
  obtain ⟨h1, h2, h3, h4, h5⟩ := h.vnew_fv ha hqa
  refine ⟨h2, ?_, h5⟩
  unfold szOf
  rw [if_neg (by omega)]; exact h3

theorem Ctx.typedR (h : Ctx t s next st) : AxQ (Tp (szOf t s next)) (next + s.length) (productAxis t.vaxes) := by
  intro q hq
  obtain ⟨a, ha, hqa⟩ := (mem_fv_productAxis _).1 hq
  have hp := h.struct.fvsub a ha q hqa
  exact ⟨by have := h.fresh q hp; omega, h.sz_pax hp, h.pos q hp⟩

theorem Ctx.numelL (h : Ctx t s next st) : (productAxis (vnewOf s next)).numel = numel s := by
  rw [C06.productAxis_numel, Axis.numel, ← numel_map_numel, vnewOf_eq, vgo_numel]

theorem Ctx.numelR (h : Ctx t s next st) : (productAxis t.vaxes).numel = numel t.vshape := by
  rw [C06.productAxis_numel, Axis.numel, ← numel_map_numel]; rfl

theorem Ctx.sized0 (h : Ctx t s next st) : SizedSt (szOf t s next) ⟨[], next + s.length⟩ :=
  ⟨fun p hp => by simp at hp, fun p hp => by simp at hp⟩

/-- the final state is consistently sized -/
theorem Ctx.sized (h : Ctx t s next st) :
    ∃ sz', Agree (next + s.length) (szOf t s next) sz' ∧ SizedSt sz' st :=
  h.run.sized _ h.sized0 ⟨h.typedL, h.typedR⟩ (by show _ = _; rw [h.numelL, h.numelR, h.hnum])

theorem Ctx.next_le (h : Ctx t s next st) : next + s.length ≤ st.next := h.run.grows.2

theorem Ctx.nz0 (h : Ctx t s next st) : StQ NZ (⟨[], next + s.length⟩ : St) := fun p hp => by simp at hp

theorem Ctx.goalNZ (h : Ctx t s next st) :
    GoalQ NZ (next + s.length) (.u (productAxis (vnewOf s next)) (productAxis t.vaxes)) :=
  ⟨Tp.nz h.typedL, Tp.nz h.typedR⟩

/-- both sides reach the same unbound identities -/
theorem Ctx.reach (h : Ctx t s next st) (u : Nat) :
    RL st.subst (productAxis (vnewOf s next)) u ↔ RL st.subst (productAxis t.vaxes) u :=
  Run.reachEq h.run h.kn h.nz0 h.goalNZ u

theorem Ctx.sound (h : Ctx t s next st) {ρ : Nat → Nat} (hs : Sat ρ st.subst) :
    (productAxis (vnewOf s next)).eval ρ = (productAxis t.vaxes).eval ρ :=
  h.run.sound h.nz0 h.goalNZ ρ hs

/-- no physical axis of size 1 anywhere in the final state -/
theorem Ctx.n1 (h : Ctx t s next st) : StQ N1 st := by
  refine Run.preserves2 N1_ok h.run (fun p hp => by simp at hp) ⟨?_, ?_⟩
  · intro q hq
    obtain ⟨a, ha, hqa⟩ := (mem_fv_productAxis _).1 hq
    exact (h.vnew_fv ha hqa).2.2.2.1
  · intro q hq
    obtain ⟨a, ha, hqa⟩ := (mem_fv_productAxis _).1 hq
    exact h.struct.no1 q (h.struct.fvsub a ha q hqa)

end ctx

/-! ### the physical axes of the result -/

def toPair (e : Axis) : Nat × Nat := match e with | .phys v n => (v, n) | _ => (0, e.numel)

def pfsOf (σ : Subst) (t : PT) : List Axis := t.paxes.flatMap (fun k => primeFactors σ FUEL (Axis.phys k.1 k.2))

def paxOf (σ : Subst) (t : PT) : List (Nat × Nat) := (pfsOf σ t).map toPair

/-- the result of `reshape` before the constructor's normalisation -/
def rawOf (σ : Subst) (t : PT) (s : List Nat) (next : Nat) : PT :=
  { physical := t.physical, paxes := paxOf σ t, vaxes := (vnewOf s next).map (clone σ FUEL), default := t.default }

structure Ctx2 (t : PT) (s : List Nat) (next : Nat) (st : St) (sz' : Nat → Nat) : Prop extends Ctx t s next st where
  ag : Agree (next + s.length) (szOf t s next) sz'
  szd : SizedSt sz' st

section ctx2
variable {t : PT} {s : List Nat} {next : Nat} {st : St} {sz' : Nat → Nat}

theorem Ctx2.tpV (h : Ctx2 t s next st sz') {a : Axis} (ha : a ∈ vnewOf s next) : AxQ (Tp sz') st.next a := by
  have := Tp.mono h.next_le (Tp.transfer h.ag h.typedL)
  exact fun q hq => this q ((mem_fv_productAxis _).2 ⟨a, ha, hq⟩)

theorem Ctx2.tpE (h : Ctx2 t s next st sz') {a : Axis} (ha : a ∈ t.vaxes) : AxQ (Tp sz') st.next a := by
  have := Tp.mono h.next_le (Tp.transfer h.ag h.typedR)
  exact fun q hq => this q ((mem_fv_productAxis _).2 ⟨a, ha, hq⟩)

theorem Ctx2.tpO (h : Ctx2 t s next st sz') {p : Nat × Nat} (hp : p ∈ t.paxes) : AxQ (Tp sz') st.next (.phys p.1 p.2) := by
  obtain ⟨e, he, hpe⟩ := h.struct.occ p hp
  intro q hq
  simp only [Axis.fv, List.mem_singleton] at hq
  subst hq
  exact h.tpE he p hpe

theorem Ctx2.nok (h : Ctx2 t s next st sz') : NumelOkS st.subst := h.szd.numelOkS

theorem Ctx2.mem_pfs (h : Ctx2 t s next st sz') {x : Axis} (hx : x ∈ pfsOf st.subst t) :
    ∃ v n, x = .phys v n ∧ bound st.subst v = none ∧
      ∃ w ∈ t.paxes, Axis.phys v n ∈ primeFactors st.subst FUEL (.phys w.1 w.2) := by
  unfold pfsOf at hx
  obtain ⟨w, hw, hxw⟩ := List.mem_flatMap.1 hx
  obtain ⟨v, n, rfl, hb⟩ := h.pf w hw x hxw
  exact ⟨v, n, rfl, hb, w, hw, hxw⟩

theorem Ctx2.mem_pax (h : Ctx2 t s next st sz') {p : Nat × Nat} :
    p ∈ paxOf st.subst t ↔ ∃ w ∈ t.paxes, Axis.phys p.1 p.2 ∈ primeFactors st.subst FUEL (.phys w.1 w.2) := by
  constructor
  · intro hp
    unfold paxOf at hp
    obtain ⟨x, hx, rfl⟩ := List.mem_map.1 hp
    obtain ⟨v, n, rfl, _, w, hw, hxw⟩ := h.mem_pfs hx
    exact ⟨w, hw, hxw⟩
  · rintro ⟨w, hw, hx⟩
    unfold paxOf pfsOf
    exact List.mem_map.2 ⟨_, List.mem_flatMap.2 ⟨w, hw, hx⟩, rfl⟩

theorem Ctx2.pax_unbound (h : Ctx2 t s next st sz') {p : Nat × Nat} (hp : p ∈ paxOf st.subst t) :
    bound st.subst p.1 = none := by
  unfold paxOf at hp
  obtain ⟨x, hx, rfl⟩ := List.mem_map.1 hp
  obtain ⟨v, n, rfl, hb, _⟩ := h.mem_pfs hx
  exact hb

theorem Ctx2.pax_tp (h : Ctx2 t s next st sz') {p : Nat × Nat} (hp : p ∈ paxOf st.subst t) :
    Tp sz' st.next p ∧ p.2 ≠ 1 := by
  obtain ⟨w, hw, hx⟩ := h.mem_pax.1 hp
  rcases pf_fv st.subst FUEL _ _ hx p (by simp [Axis.fv]) with h1 | ⟨b, hb, h1⟩
  · simp only [Axis.fv, List.mem_singleton] at h1
    have : p = w := by rw [h1]
    subst this
    exact ⟨h.tpO hw p (by simp [Axis.fv]), h.struct.no1 p hw⟩
  · exact ⟨(h.szd.1 b hb).2 p h1, (h.n1 b hb).2 p h1⟩

theorem Ctx2.pfs_eq (h : Ctx2 t s next st sz') :
    pfsOf st.subst t = (paxOf st.subst t).map (fun p => Axis.phys p.1 p.2) := by
  unfold paxOf
  rw [List.map_map]
  conv_lhs => rw [← List.map_id (pfsOf st.subst t)]
  apply List.map_congr_left
  intro x hx
  obtain ⟨v, n, rfl, _⟩ := h.mem_pfs hx
  rfl

/-- sizes are functional: two pairs with the same identity that are both typed are equal -/
theorem tp_inj {sz : Nat → Nat} {nx : Nat} {p q : Nat × Nat} (hp : Tp sz nx p) (hq : Tp sz nx q) (e : p.1 = q.1) :
    p = q := by
  have h1 := hp.2.1
  have h2 := hq.2.1
  rw [e] at h1
  exact Prod.ext e (by rw [← h1, ← h2])

theorem Ctx2.clone_tp (h : Ctx2 t s next st sz') {a : Axis} (ha : a ∈ vnewOf s next) :
    AxQ (Tp sz') st.next (clone st.subst FUEL a) := by
  intro q hq
  rcases clone_fv st.subst FUEL a q hq with h1 | ⟨b, hb, h1⟩
  · exact h.tpV ha q h1
  · exact (h.szd.1 b hb).2 q h1

/-- every physical axis of the new virtual axes is one of the new physical axes -/
theorem Ctx2.fvsub (h : Ctx2 t s next st sz') {a : Axis} (ha : a ∈ vnewOf s next) {q : Nat × Nat}
    (hq : q ∈ (clone st.subst FUEL a).fv) : q ∈ paxOf st.subst t := by
  have hb := h.cl a ha q hq
  have r1 : RL st.subst (productAxis (vnewOf s next)) q.1 :=
    (RL.productAxis_iff _).2 ⟨a, ha, rl_of_clone_fv st.subst q hb FUEL a hq⟩
  obtain ⟨e, he, r2⟩ := (RL.productAxis_iff _).1 ((h.reach q.1).1 r1)
  obtain ⟨w, hw, r3⟩ := rl_via_fv r2
  have hwp := h.struct.fvsub e he w hw
  obtain ⟨n, hn⟩ := pf_of_rl st.subst q.1 FUEL _ (h.pf w hwp) r3
  have hm : (q.1, n) ∈ paxOf st.subst t := h.mem_pax.2 ⟨w, hwp, hn⟩
  have := tp_inj (h.pax_tp hm).1 (h.clone_tp ha q hq) rfl
  rw [← this]; exact hm

/-- every new physical axis occurs in a new virtual axis -/
theorem Ctx2.occ (h : Ctx2 t s next st sz') {p : Nat × Nat} (hp : p ∈ paxOf st.subst t) :
    ∃ a ∈ vnewOf s next, p ∈ (clone st.subst FUEL a).fv := by
  obtain ⟨w, hw, hx⟩ := h.mem_pax.1 hp
  have r1 := rl_of_pf st.subst p.1 p.2 (h.pax_unbound hp) FUEL _ hx
  obtain ⟨e, he, hwe⟩ := h.struct.occ w hw
  have r2 : RL st.subst (productAxis t.vaxes) p.1 := (RL.productAxis_iff _).2 ⟨e, he, rl_mono st.subst p.1 e w hwe r1⟩
  obtain ⟨a, ha, r3⟩ := (RL.productAxis_iff _).1 ((h.reach p.1).2 r2)
  obtain ⟨n, hn⟩ := clone_fv_of_rl st.subst p.1 FUEL a (h.cl a ha) r3
  have := tp_inj (h.pax_tp hp).1 (h.clone_tp ha _ hn) rfl
  exact ⟨a, ha, by rw [this]; exact hn⟩

end ctx2

/-! ### row-major refinement -/

theorem refine_numel (F : Nat × Nat → List Axis) : ∀ (O : List (Nat × Nat)), (∀ w ∈ O, numelList (F w) = w.2) →
    numelList (O.flatMap F) = numel (O.map (·.2))
  | [], _ => by simp [numelList, numel_nil]
  | w :: O, h => by
    rw [List.flatMap_cons, numelList_append, h w (by simp), List.map_cons, numel_cons,
      refine_numel F O (fun x hx => h x (by simp [hx]))]

theorem refine_flat (ρ : Nat → Nat) (F : Nat × Nat → List Axis) : ∀ (O : List (Nat × Nat)),
    (∀ w ∈ O, evalList ρ (F w) 0 = ρ w.1 ∧ numelList (F w) = w.2) →
    evalList ρ (O.flatMap F) 0 = flat (O.map (·.2)) (pidx O ρ)
  | [], _ => by simp [evalList, pidx, flat]
  | w :: O, h => by
    rw [List.flatMap_cons, evalList_append, evalList_acc, (h w (by simp)).1,
      refine_flat ρ F O (fun x hx => h x (by simp [hx])),
      refine_numel F O (fun x hx => (h x (by simp [hx])).2)]
    simp [pidx, flat]

theorem evalList_phys (ρ : Nat → Nat) (P : List (Nat × Nat)) :
    evalList ρ (P.map (fun p => Axis.phys p.1 p.2)) 0 = flat (P.map (·.2)) (pidx P ρ) := by
  have := C06.evalList_eq_flat' (P.map (fun p => Axis.phys p.1 p.2)) ρ
  rw [Axis.eval, List.map_map, List.map_map] at this
  exact this

theorem numelList_phys (P : List (Nat × Nat)) :
    numelList (P.map (fun p => Axis.phys p.1 p.2)) = numel (P.map (·.2)) := by
  rw [← numel_map_numel, List.map_map]; rfl

/-! ### the bridge between the operand and the result -/

/-- an assignment of all physical axes that satisfies the final substitution, is in range, and gives the fresh
axes of the target shape the index tuple `c'` -/
structure Br (t : PT) (s : List Nat) (next : Nat) (st : St) (ρ' : Nat → Nat) (c' : List Nat) : Prop where
  sat : Sat ρ' st.subst
  irs : InRangeS ρ' st.subst
  iro : ∀ p ∈ t.paxes, ρ' p.1 < p.2
  mem : c' ∈ assigns s
  dig : ∀ i (hi : i < c'.length), s.getD i 0 ≠ 1 → ρ' (next + i) = c'[i]

section bridge
variable {t : PT} {s : List Nat} {next : Nat} {st : St} {sz' : Nat → Nat} {ρ' : Nat → Nat} {c' : List Nat}

theorem Ctx2.numelOkO (h : Ctx2 t s next st sz') {w : Nat × Nat} (hw : w ∈ t.paxes) :
    NumelOk st.subst (.phys w.1 w.2) := h.szd.numelOk (h.tpO hw)

theorem Ctx2.numelP (h : Ctx2 t s next st sz') :
    numel ((paxOf st.subst t).map (·.2)) = numel (t.paxes.map (·.2)) := by
  rw [← numelList_phys, ← h.pfs_eq]
  exact refine_numel _ t.paxes (fun w hw => pf_numel h.nok FUEL _ (h.numelOkO hw))

theorem Br.vnew (b : Br t s next st ρ' c') : (vnewOf s next).map (Axis.eval ρ') = c' := by
  rw [vnewOf_eq]
  exact vgo_eval ρ' s next c' ((mem_assigns_iff _ _).1 b.mem) b.dig

theorem Br.cloneEval (b : Br t s next st ρ' c') (h : Ctx2 t s next st sz') :
    (rawOf st.subst t s next).vaxes.map (Axis.eval ρ') = c' := by
  show ((vnewOf s next).map (clone st.subst FUEL)).map (Axis.eval ρ') = c'
  rw [List.map_map, ← b.vnew]
  apply List.map_congr_left
  intro a ha
  exact (clone_spec b.sat h.nok FUEL a (h.szd.numelOk (h.tpV ha))).1

theorem Br.irP (b : Br t s next st ρ' c') (h : Ctx2 t s next st sz') : ∀ p ∈ paxOf st.subst t, ρ' p.1 < p.2 := by
  intro p hp
  obtain ⟨w, hw, hx⟩ := h.mem_pax.1 hp
  rcases pf_fv st.subst FUEL _ _ hx p (by simp [Axis.fv]) with h1 | ⟨bd, hb, h1⟩
  · simp only [Axis.fv, List.mem_singleton] at h1
    have : p = w := by rw [h1]
    subst this
    exact b.iro p hw
  · exact b.irs bd hb p h1

theorem Br.flatP (b : Br t s next st ρ' c') (h : Ctx2 t s next st sz') :
    flat (t.paxes.map (·.2)) (pidx t.paxes ρ') = flat ((paxOf st.subst t).map (·.2)) (pidx (paxOf st.subst t) ρ') := by
  rw [← evalList_phys ρ' (paxOf st.subst t), ← h.pfs_eq]
  exact (refine_flat ρ' _ t.paxes (fun w hw =>
    ⟨pf_eval b.sat h.nok FUEL _ (h.numelOkO hw), pf_numel h.nok FUEL _ (h.numelOkO hw)⟩)).symm

theorem Br.flatV (b : Br t s next st ρ' c') (h : Ctx2 t s next st sz') :
    flat t.vshape (t.vaxes.map (Axis.eval ρ')) = flat s c' := by
  have e1 := C06.evalList_eq_flat' t.vaxes ρ'
  have e2 := C06.evalList_eq_flat' (vnewOf s next) ρ'
  have e3 : (vnewOf s next).map Axis.numel = s := by rw [vnewOf_eq, vgo_numel]
  rw [b.vnew, e3] at e2
  rw [← C06.productAxis_eval] at e1 e2
  rw [← e2, h.sound b.sat, e1]; rfl

theorem Br.backs_t (b : Br t s next st ρ' c') : Backs t (t.vaxes.map (Axis.eval ρ')) ρ' := ⟨b.iro, rfl⟩

theorem Br.backs_raw (b : Br t s next st ρ' c') (h : Ctx2 t s next st sz') : Backs (rawOf st.subst t s next) c' ρ' :=
  ⟨b.irP h, b.cloneEval h⟩

end bridge

theorem forall2_getD : ∀ {c s : List Nat}, List.Forall₂ (· < ·) c s → ∀ i, i < s.length → c.getD i 0 < s.getD i 0
  | _, _, .nil, i, hi => by simp at hi
  | _, _, .cons hx hr, 0, _ => by simpa using hx
  | _, _, .cons hx hr, i+1, hi => by
    simp only [List.getD_cons_succ]
    exact forall2_getD hr i (by simpa using hi)

section mgu
variable {t : PT} {s : List Nat} {next : Nat} {st : St} {sz' : Nat → Nat}

/-- every in-range assignment of the operand's physical axes, together with the index tuple of the target shape at
the same flat position, extends to a bridge (most-generality of the unifier) -/
theorem Ctx2.mgu_br (h : Ctx2 t s next st sz') (ρ : Nat → Nat) (c' : List Nat) (hρ : ∀ p ∈ t.paxes, ρ p.1 < p.2)
    (hc : c' ∈ assigns s) (he : flat s c' = (productAxis t.vaxes).eval ρ) :
    ∃ ρ', Br t s next st ρ' c' ∧ ∀ p ∈ t.paxes, ρ' p.1 = ρ p.1 := by
  have hf2 := (mem_assigns_iff _ _).1 hc
  have hlen : c'.length = s.length := hf2.length_eq
  let ρ₀ : Nat → Nat := fun v => if v < next then ρ v else c'.getD (v - next) 0
  have hlow : ∀ v, v < next → ρ₀ v = ρ v := fun v hv => by simp [ρ₀, hv]
  have hhigh : ∀ i, ρ₀ (next + i) = c'.getD i 0 := fun i => by simp [ρ₀]
  have irL : InRange ρ₀ (productAxis (vnewOf s next)) := by
    intro q hq
    obtain ⟨a, ha, hqa⟩ := (mem_fv_productAxis _).1 hq
    obtain ⟨h1, h2, h3, _, _⟩ := h.vnew_fv ha hqa
    have : q.1 = next + (q.1 - next) := by omega
    rw [this, hhigh, ← h3]
    exact forall2_getD hf2 _ (by omega)
  have irR : InRange ρ₀ (productAxis t.vaxes) := by
    intro q hq
    obtain ⟨a, ha, hqa⟩ := (mem_fv_productAxis _).1 hq
    have hp := h.struct.fvsub a ha q hqa
    rw [hlow _ (h.fresh q hp)]; exact hρ q hp
  have eR : (productAxis t.vaxes).eval ρ₀ = (productAxis t.vaxes).eval ρ := by
    apply eval_congr
    intro q hq
    obtain ⟨a, ha, hqa⟩ := (mem_fv_productAxis _).1 hq
    exact hlow _ (h.fresh q (h.struct.fvsub a ha q hqa))
  have eL : (productAxis (vnewOf s next)).eval ρ₀ = flat s c' := by
    have e2 := C06.evalList_eq_flat' (vnewOf s next) ρ₀
    have e3 : (vnewOf s next).map Axis.numel = s := by rw [vnewOf_eq, vgo_numel]
    have e4 : (vnewOf s next).map (Axis.eval ρ₀) = c' := by
      rw [vnewOf_eq]
      apply vgo_eval ρ₀ s next c' hf2
      intro i hi _
      rw [hhigh, List.getD_eq_getElem?_getD, List.getElem?_eq_getElem hi, Option.getD_some]
    rw [e3, e4, ← C06.productAxis_eval] at e2
    exact e2
  obtain ⟨ρ', hag, hsat, hirs⟩ := h.run.mgu (fun p hp => by simp at hp)
    ⟨fun q hq => (h.typedL q hq).1, fun q hq => (h.typedR q hq).1⟩ ρ₀ (fun p hp => by simp at hp)
    (fun p hp => by simp at hp) ⟨irL, irR⟩ (by show _ = _; rw [eL, eR, he])
  have hO : ∀ p ∈ t.paxes, ρ' p.1 = ρ p.1 := fun p hp => by
    rw [hag p.1 (by have := h.fresh p hp; show p.1 < next + s.length; omega), hlow _ (h.fresh p hp)]
  refine ⟨ρ', ⟨hsat, hirs, fun p hp => by rw [hO p hp]; exact hρ p hp, hc, ?_⟩, hO⟩
  intro i hi _
  rw [hag (next + i) (by show next + i < next + s.length; omega), hhigh, List.getD_eq_getElem?_getD,
    List.getElem?_eq_getElem hi, Option.getD_some]

end mgu

section key
variable {t : PT} {s : List Nat} {next : Nat} {st : St} {sz' : Nat → Nat}

theorem Ctx2.inRangeR (h : Ctx2 t s next st sz') {ρ : Nat → Nat} (hρ : ∀ p ∈ t.paxes, ρ p.1 < p.2) :
    InRange ρ (productAxis t.vaxes) := by
  intro q hq
  obtain ⟨a, ha, hqa⟩ := (mem_fv_productAxis _).1 hq
  exact hρ q (h.struct.fvsub a ha q hqa)

/-- every in-range assignment of the operand's physical axes extends to a bridge -/
theorem Ctx2.mgu_br' (h : Ctx2 t s next st sz') (ρ : Nat → Nat) (hρ : ∀ p ∈ t.paxes, ρ p.1 < p.2) :
    ∃ ρ' c', Br t s next st ρ' c' ∧ ∀ p ∈ t.paxes, ρ' p.1 = ρ p.1 := by
  have hE : (productAxis t.vaxes).eval ρ < (assigns s).length := by
    rw [length_assigns, h.hnum, ← h.numelR]
    exact (h.inRangeR hρ).lt
  obtain ⟨ρ', b, hO⟩ := h.mgu_br ρ ((assigns s)[(productAxis t.vaxes).eval ρ]) hρ (List.getElem_mem hE) (flat_getElem hE)
  exact ⟨ρ', _, b, hO⟩

/-- **every in-range index tuple of the new physical axes is realised by a bridge** (through the flat position:
the new physical axes refine the old ones row-major) -/
theorem Ctx2.key (h : Ctx2 t s next st sz') (d : List Nat) (hd : d ∈ assigns ((paxOf st.subst t).map (·.2))) :
    ∃ ρ' c', Br t s next st ρ' c' ∧ pidx (paxOf st.subst t) ρ' = d := by
  have hJ : flat ((paxOf st.subst t).map (·.2)) d < (assigns (t.paxes.map (·.2))).length := by
    rw [length_assigns, ← h.numelP]; exact flat_lt hd
  have hidx := List.getElem_mem hJ
  have hir := envOf_inRange t.paxes _ h.struct.nodup ((mem_assigns_iff _ _).1 hidx)
  obtain ⟨ρ', c', b, hO⟩ := h.mgu_br' _ hir
  refine ⟨ρ', c', b, ?_⟩
  have hm := pidx_mem_assigns ρ' (paxOf st.subst t) (b.irP h)
  apply flat_inj hm hd
  rw [← b.flatP h, pidx_congr hO, pidx_envOf t.paxes _ h.struct.nodup
    (by rw [mem_assigns_length hidx, List.length_map]), flat_getElem hJ]

theorem Ctx2.pax_ge2 (h : Ctx2 t s next st sz') {p : Nat × Nat} (hp : p ∈ paxOf st.subst t) : 2 ≤ p.2 := by
  obtain ⟨h1, h2⟩ := h.pax_tp hp
  have := h1.2.2
  omega

/-- the new physical axes are distinct -/
theorem Ctx2.nodup (h : Ctx2 t s next st sz') : ((paxOf st.subst t).map (·.1)).Nodup := by
  rw [List.Nodup, List.pairwise_iff_getElem]
  intro i j hi hj hij heq
  simp only [List.length_map] at hi hj
  simp only [List.getElem_map] at heq
  let P := paxOf st.subst t
  let d : List Nat := P.zipIdx.map (fun x => if x.2 = j then 1 else 0)
  have hd : d ∈ assigns (P.map (·.2)) := by
    rw [mem_assigns_iff]
    have e : P.map (·.2) = P.zipIdx.map (fun x => x.1.2) := by
      conv_lhs => rw [← List.zipIdx_map_fst 0 P, List.map_map]
      rfl
    rw [e, List.forall₂_map_left_iff, List.forall₂_map_right_iff, List.forall₂_same]
    intro x hx
    have hx' : x.1 ∈ P := by
      have := List.mem_zipIdx hx
      rw [this.2.2]; exact List.getElem_mem _
    have := h.pax_ge2 hx'
    split <;> omega
  obtain ⟨ρ', c', b, hp⟩ := h.key d hd
  have hi' : i < (pidx P ρ').length := by simp [pidx]; exact hi
  have hj' : j < (pidx P ρ').length := by simp [pidx]; exact hj
  have e1 := List.getElem_of_eq hp hi'
  have e2 := List.getElem_of_eq hp hj'
  simp only [pidx, List.getElem_map, d, List.getElem_zipIdx, Nat.zero_add] at e1 e2
  have : P[i].1 = P[j].1 := heq
  rw [this] at e1
  rw [e1] at e2
  simp at e2
  omega

theorem Ctx2.raw_fvsub (h : Ctx2 t s next st sz') :
    ∀ e ∈ (rawOf st.subst t s next).vaxes, ∀ q ∈ e.fv, q ∈ (rawOf st.subst t s next).paxes := by
  intro e he q hq
  obtain ⟨a, ha, rfl⟩ := List.mem_map.1 he
  exact h.fvsub ha hq

theorem Ctx2.raw_occ (h : Ctx2 t s next st sz') :
    ∀ p ∈ (rawOf st.subst t s next).paxes, ∃ e ∈ (rawOf st.subst t s next).vaxes, p ∈ e.fv := by
  intro p hp
  obtain ⟨a, ha, hpa⟩ := h.occ hp
  exact ⟨_, List.mem_map_of_mem ha, hpa⟩

theorem Ctx2.raw_sem (h : Ctx2 t s next st sz') : Sem (rawOf st.subst t s next) :=
  sem_of_occ h.nodup h.raw_fvsub h.raw_occ

theorem Ctx2.raw_normOK (h : Ctx2 t s next st sz') : NormOK (rawOf st.subst t s next) where
  len := by
    show t.physical.length = numel ((paxOf st.subst t).map (·.2))
    rw [h.numelP]; exact h.struct.len
  nodup := h.nodup
  fvsub := h.raw_fvsub
  occ := h.raw_occ
  top := fun g hg => .inr (fun q hq => (h.pax_tp (h.raw_fvsub g hg q hq)).2)

theorem Ctx2.raw_vshape (h : Ctx2 t s next st sz') : (rawOf st.subst t s next).vshape = s := by
  obtain ⟨ρ', c', b, _⟩ := h.mgu_br' (fun _ => 0) (fun p hp => h.pos p hp)
  show ((vnewOf s next).map (clone st.subst FUEL)).map Axis.numel = s
  have e3 : (vnewOf s next).map Axis.numel = s := by rw [vnewOf_eq, vgo_numel]
  rw [List.map_map]
  conv_rhs => rw [← e3]
  apply List.map_congr_left
  intro a ha
  exact (clone_spec b.sat h.nok FUEL a (h.szd.numelOk (h.tpV ha))).2

end key

section dense
variable {t : PT} {s : List Nat} {next : Nat} {st : St} {sz' : Nat → Nat}

/-- an assignment backing a cell of the result comes from a bridge -/
theorem Ctx2.br_of_backs_raw (h : Ctx2 t s next st sz') {c' : List Nat} {γ : Nat → Nat}
    (hγ : Backs (rawOf st.subst t s next) c' γ) : ∃ ρ', Br t s next st ρ' c' := by
  have hd := pidx_mem_assigns γ (paxOf st.subst t) hγ.1
  obtain ⟨ρ', c'', b, hp⟩ := h.key _ hd
  have hag : ∀ p ∈ paxOf st.subst t, ρ' p.1 = γ p.1 := by
    unfold pidx at hp
    exact List.map_inj_left.1 hp
  have e1 : (rawOf st.subst t s next).vaxes.map (Axis.eval ρ') = (rawOf st.subst t s next).vaxes.map (Axis.eval γ) := by
    apply List.map_congr_left
    intro e he
    apply eval_congr
    intro q hq
    exact hag q (h.raw_fvsub e he q hq)
  have : c'' = c' := by rw [← b.cloneEval h, e1, hγ.2]
  exact ⟨ρ', this ▸ b⟩

/-- **the un-normalised result denotes the same flat data** -/
theorem Ctx2.raw_dense (h : Ctx2 t s next st sz') : (rawOf st.subst t s next).dense = t.dense := by
  have hv := h.raw_vshape
  apply list_ext_flat s _ _ (by rw [length_dense, hv]) (by rw [length_dense, h.hnum])
  intro c' hc'
  by_cases hb : ∃ ρ', Br t s next st ρ' c'
  · obtain ⟨ρ', b⟩ := hb
    have e1 := dense_backed h.raw_sem (b.backs_raw h)
    have e2 := dense_backed h.struct.sem b.backs_t
    rw [hv] at e1
    rw [b.flatV h] at e2
    rw [e1, e2, b.flatP h]
    rfl
  · have e1 := dense_unbacked h.raw_sem (c := c') (by rw [hv]; exact hc')
      (fun γ hγ => hb (h.br_of_backs_raw hγ))
    rw [hv] at e1
    have hE : flat s c' < (assigns t.vshape).length := by
      rw [length_assigns, ← h.hnum]; exact flat_lt hc'
    have e2 := dense_unbacked h.struct.sem (List.getElem_mem hE) (fun ρ hρ => hb (by
      have he : flat s c' = (productAxis t.vaxes).eval ρ := by
        rw [C06.productAxis_eval, C06.evalList_eq_flat', hρ.2]
        exact (flat_getElem hE).symm
      obtain ⟨ρ', b, _⟩ := h.mgu_br ρ c' hρ.1 hc' he
      exact ⟨ρ', b⟩))
    rw [flat_getElem hE] at e2
    rw [e1, e2]
    rfl

end dense

end C06eL
