/-
Helper lemmas for Props/C06e.lean, part 4: the fast path of `reshape` (a tensor with a single element, which is
physical).
-/
import FggsModel.Reshape
import FggsProofs.C06bLemmas
import FggsProofs.C06dBaseLemmas
import FggsProofs.C06dSideLemmas
import FggsProofs.C06eMainLemmas
import Mathlib.Data.List.Basic
import Mathlib.Data.List.Nodup
import Mathlib.Data.List.Range
import Mathlib.Tactic.Linarith

set_option linter.unusedSimpArgs false
set_option linter.unusedVariables false

namespace C06eL
open Fggs Fggs.Ax Fggs.Un Fggs.Rs C06b C06dL

def pgo : List Nat → Nat → List (Nat × Nat)
  | [], _ => []
  | n :: s, k => (k, n) :: pgo s (k + 1)

theorem pax_go (next : Nat) : ∀ (s : List Nat) (k : Nat),
    (s.zipIdx k).map (fun (n, i) => (next + i, n)) = pgo s (next + k)
  | [], k => rfl
  | n :: s, k => by
    rw [List.zipIdx_cons, List.map_cons, pgo, pax_go next s (k + 1)]
    rfl

theorem vax_go (next : Nat) : ∀ (s : List Nat) (k : Nat),
    (s.zipIdx k).map (fun (n, i) => Axis.phys (next + i) n) = (pgo s (next + k)).map (fun p => Axis.phys p.1 p.2)
  | [], k => rfl
  | n :: s, k => by
    rw [List.zipIdx_cons, List.map_cons, pgo, List.map_cons, vax_go next s (k + 1)]
    rfl

theorem pgo_snd : ∀ (s : List Nat) (k : Nat), (pgo s k).map (·.2) = s
  | [], k => rfl
  | n :: s, k => by rw [pgo, List.map_cons, pgo_snd s (k + 1)]

theorem pgo_fst_ge : ∀ (s : List Nat) (k : Nat), ∀ p ∈ pgo s k, k ≤ p.1
  | [], k, p, hp => by simp [pgo] at hp
  | n :: s, k, p, hp => by
    rw [pgo, List.mem_cons] at hp
    rcases hp with rfl | hp
    · exact Nat.le_refl _
    · have := pgo_fst_ge s (k + 1) p hp; omega

theorem pgo_nodup : ∀ (s : List Nat) (k : Nat), ((pgo s k).map (·.1)).Nodup
  | [], k => by simp [pgo]
  | n :: s, k => by
    rw [pgo, List.map_cons, List.nodup_cons]
    refine ⟨?_, pgo_nodup s (k + 1)⟩
    intro hm
    obtain ⟨p, hp, e⟩ := List.mem_map.1 hm
    have := pgo_fst_ge s (k + 1) p hp
    simp only at e
    omega

theorem numel_eq_one : ∀ (l : List Nat), numel l = 1 → ∀ n ∈ l, n = 1
  | [], _, n, hn => by simp at hn
  | x :: l, h, n, hn => by
    rw [numel_cons] at h
    have hx : x = 1 := Nat.eq_one_of_mul_eq_one_right h
    have hl : numel l = 1 := Nat.eq_one_of_mul_eq_one_left h
    rcases List.mem_cons.1 hn with rfl | hn
    · exact hx
    · exact numel_eq_one l hl n hn

/-- the single cell of a tensor with one element that is backed -/
theorem dense_single (T : PT) (hs : Sem T) (h1 : numel T.vshape = 1) (hn : numel (T.paxes.map (·.2)) = 1)
    (ρ : Nat → Nat) (hρ : ∀ p ∈ T.paxes, ρ p.1 < p.2) :
    T.dense = [T.physical[0]?.getD T.default] := by
  have hb : Backs T (T.vaxes.map (Axis.eval ρ)) ρ := ⟨hρ, rfl⟩
  have e := dense_backed hs hb
  have f1 : flat T.vshape (T.vaxes.map (Axis.eval ρ)) = 0 := by
    have := flat_lt (hb.mem_assigns hs); omega
  have f2 : flat (T.paxes.map (·.2)) (pidx T.paxes ρ) = 0 := by
    have := flat_lt (pidx_mem_assigns ρ T.paxes hρ); omega
  rw [f1, f2] at e
  have hl : T.dense.length = 1 := by rw [length_dense, h1]
  match hd : T.dense, hl with
  | [x], _ =>
    rw [hd] at e
    simp at e
    rw [e]

/-- the result of the fast path before the constructor's normalisation -/
def fastRaw (t : PT) (s : List Nat) (next : Nat) : PT :=
  { physical := t.physical, paxes := s.zipIdx.map (fun (n, i) => (next + i, n)),
    vaxes := s.zipIdx.map (fun (n, i) => Axis.phys (next + i) n), default := t.default }

/-- **the fast path of `reshape`**: the dense tensor of the target shape with the same single element -/
theorem fast_path (t : PT) (s : List Nat) (next : Nat) (wf : t.wf = true) (pos : ∀ p ∈ t.paxes, 0 < p.2)
    (h1 : numel t.vshape = t.physical.length) (h2 : t.physical.length ≤ 1) (h3 : numel s = t.physical.length) :
    NormOK (fastRaw t s next) ∧ (fastRaw t s next).vshape = s ∧ (fastRaw t s next).dense = t.dense := by
  unfold fastRaw
  have hst := (wf_iff_struct t).1 wf
  have e1 := pax_go next s 0
  have e2 := vax_go next s 0
  simp only [Nat.add_zero] at e1 e2
  change (List.zipIdx s).map _ = _ at e1
  change (List.zipIdx s).map _ = _ at e2
  rw [e1, e2]
  -- the operand has exactly one physical element and no physical axis
  have hpl : 0 < numel (t.paxes.map (·.2)) := by
    have := numelList_pos_aux (t.paxes.map (fun p => Axis.phys p.1 p.2)) (by
      intro q hq
      obtain ⟨f, hf, hqf⟩ := mem_fvList.1 hq
      obtain ⟨p, hp, rfl⟩ := List.mem_map.1 hf
      simp only [Axis.fv, List.mem_singleton] at hqf
      rw [hqf]; exact pos p hp)
    rwa [numelList_phys] at this
  have hlen : t.physical.length = 1 := by have := hst.len; omega
  have hO : t.paxes = [] := by
    have hn1 : numel (t.paxes.map (·.2)) = 1 := by rw [← hst.len, hlen]
    cases hp : t.paxes with
    | nil => rfl
    | cons p ps =>
      have := numel_eq_one _ hn1 p.2 (by rw [hp]; simp)
      exact absurd this (hst.no1 p (by rw [hp]; simp))
  have hs1 : numel s = 1 := by rw [h3, hlen]
  have hones := numel_eq_one s hs1
  set T0 : PT := PT.mk t.physical (pgo s next) ((pgo s next).map (fun p => Axis.phys p.1 p.2)) t.default with hT0
  have hfv : ∀ e ∈ T0.vaxes, ∀ q ∈ e.fv, q ∈ T0.paxes := by
    intro e he q hq
    obtain ⟨p, hp, rfl⟩ := List.mem_map.1 he
    simp only [Axis.fv, List.mem_singleton] at hq
    rw [hq]; exact hp
  have hocc : ∀ p ∈ T0.paxes, ∃ e ∈ T0.vaxes, p ∈ e.fv := by
    intro p hp
    exact ⟨_, List.mem_map_of_mem hp, by simp [Axis.fv]⟩
  have hsize : ∀ p ∈ T0.paxes, p.2 = 1 := by
    intro p hp
    apply hones
    rw [← pgo_snd s next]
    exact List.mem_map_of_mem (f := (·.2)) hp
  have hN : NormOK T0 := by
    refine ⟨?_, pgo_nodup s next, hfv, hocc, ?_⟩
    · show t.physical.length = numel ((pgo s next).map (·.2))
      rw [pgo_snd, hs1, hlen]
    · intro g hg
      obtain ⟨p, hp, rfl⟩ := List.mem_map.1 hg
      left
      exact ⟨p.1, by rw [hsize p hp]⟩
  have hvs : T0.vshape = s := by
    show ((pgo s next).map (fun p => Axis.phys p.1 p.2)).map Axis.numel = s
    rw [List.map_map]
    exact pgo_snd s next
  refine ⟨hN, hvs, ?_⟩
  have d1 := dense_single T0 (sem_of_occ (pgo_nodup s next) hfv hocc) (by rw [hvs, hs1])
    (by show numel ((pgo s next).map (·.2)) = 1; rw [pgo_snd, hs1]) (fun _ => 0)
    (fun p hp => by rw [hsize p hp]; exact Nat.one_pos)
  have d2 := dense_single t hst.sem (by rw [h1, hlen]) (by rw [← hst.len, hlen]) (fun _ => 0)
    (fun p hp => by rw [hO] at hp; simp at hp)
  rw [d1, d2]

end C06eL
