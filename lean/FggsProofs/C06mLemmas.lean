/-
Helper lemmas for Props/C06m.lean (`PatternedTensor.where`, model `Wh.whereOp` of FggsModel/Where.lean).

* `au`, `rawWhere`, `whereOp_eq`: names for the anti-unification of `where` and for the tensor handed to the
  constructor (`whereOp_eq` holds by `rfl`);
* `sides`: the plain left-to-right `antiunifyAll` of the virtual axes of two operands of one shape gives a result
  pattern that satisfies `C06dL.SideOK` (no broadcast axes) for BOTH operands, and no physical axis of a result axis
  has size 1 (from `C06jL.antiunifyAll_gen`);
* `raw_normOK`: the tensor handed to the constructor satisfies what `C06dL.normalize_spec` needs;
* `raw_cell`: the cell-by-cell description of its dense tensor.
-/
import FggsModel.Where
import FggsProofs.Props.C06
import FggsProofs.Props.C06d
import FggsProofs.C06bLemmas
import FggsProofs.C06cLemmas
import FggsProofs.C06dBaseLemmas
import FggsProofs.C06dAntiLemmas
import FggsProofs.C06dSideLemmas
import FggsProofs.C06dExpLemmas
import FggsProofs.C06jAntiLemmas
import Mathlib.Tactic.Linarith
import Mathlib.Data.List.Basic
import Mathlib.Data.List.Forall2

set_option linter.unusedSimpArgs false
set_option linter.unusedVariables false

namespace C06mL
open Fggs Fggs.Ax Fggs.Un Fggs.Sh Fggs.Wh C06b C06cL C06dL

/-! ### names for the parts of `whereOp` -/

/-- the anti-unification of `where`: the virtual axes of `c` against those of the operand called `u` -/
def au (fuel : Nat) (c u : PT) (next : Nat) : List Axis × ASt :=
  antiunifyAll fuel (c.vaxes.zip u.vaxes) ⟨[], next⟩

/-- the tensor `where` hands to the constructor (`sw`: the operands were swapped) -/
def rawWhere (fuel : Nat) (sw : Bool) (t c u : PT) (next : Nat) : PT :=
  { physical := (Ax.assigns ((gsOf (au fuel c u next).2.pairs).map (·.2))).zipIdx.map (fun (p : List Nat × Nat) =>
      if (if sw then
            !truthy (c.dense[Ax.flat c.vshape
              ((au fuel c u next).1.map (Axis.eval (envOf (gsOf (au fuel c u next).2.pairs) p.1)))]?.getD c.default)
          else truthy (c.dense[Ax.flat c.vshape
              ((au fuel c u next).1.map (Axis.eval (envOf (gsOf (au fuel c u next).2.pairs) p.1)))]?.getD c.default))
      then t.dense[Ax.flat t.vshape
              ((au fuel c u next).1.map (Axis.eval (envOf (gsOf (au fuel c u next).2.pairs) p.1)))]?.getD t.default
      else (auxT u (au fuel c u next).2.pairs Prod.snd []).dense[p.2]?.getD u.default),
    paxes := gsOf (au fuel c u next).2.pairs, vaxes := (au fuel c u next).1, default := u.default }

theorem whereOp_eq (fuel : Nat) (t c u : PT) (next : Nat) :
    whereOp fuel t c u next =
      Bn.normalize (rawWhere fuel (truthy c.default) (if truthy c.default then u else t) c
        (if truthy c.default then t else u) next) := rfl

/-! ### the result pattern against both operands -/

theorem length_vaxes {c u : PT} {next : Nat} (h : C06d.OperandsOK c u next) : c.vaxes.length = u.vaxes.length := by
  have := congrArg List.length h.shape
  simpa [PT.vshape] using this

theorem sides {c u : PT} {next : Nat} (h : C06d.OperandsOK c u next) (fuel : Nat) :
    SideOK c (au fuel c u next).2.pairs Prod.fst (au fuel c u next).1 [] ∧
    SideOK u (au fuel c u next).2.pairs Prod.snd (au fuel c u next).1 [] ∧
    (∀ g ∈ (au fuel c u next).1, ∀ q ∈ g.fv, q.2 ≠ 1) := by
  have stc := (wf_iff_struct c).1 h.wft
  have stu := (wf_iff_struct u).1 h.wfu
  have hsz := C06jL.szOf_spec (ks := c.paxes) (t := u) stc.nodup stu.nodup h.sized
  have hlen := length_vaxes h
  have hps : ∀ p ∈ c.vaxes.zip u.vaxes, C06dA.AxP (· ∈ c.paxes) p.1 ∧ C06dA.AxP (· ∈ u.paxes) p.2 ∧
      Sized (C06jL.szOf c.paxes u) p.1 ∧ Sized (C06jL.szOf c.paxes u) p.2 ∧ p.1.numel = p.2.numel := by
    intro p hp
    have h1 := (List.of_mem_zip hp).1
    have h2 := (List.of_mem_zip hp).2
    refine ⟨stc.fvsub p.1 h1, stu.fvsub p.2 h2,
      fun q hq => hsz q (List.mem_append_left _ (stc.fvsub p.1 h1 q hq)),
      fun q hq => hsz q (List.mem_append_right _ (stu.fvsub p.2 h2 q hq)), ?_⟩
    exact C06dE.zip_numel_eq c.vaxes u.vaxes h.shape p hp
  have hg := C06jL.antiunifyAll_gen (C06jL.szOf c.paxes u) (· ∈ c.paxes) (· ∈ u.paxes) fuel (c.vaxes.zip u.vaxes)
    ⟨[], next⟩ ⟨by simp, by simp, by simp⟩ (by intro p hp; simp at hp) hps
  unfold au
  generalize antiunifyAll fuel (c.vaxes.zip u.vaxes) ⟨[], next⟩ = r at hg ⊢
  obtain ⟨hok, _, hnx, ⟨new, hnew, hne⟩, hall⟩ := hg
  have hnew' : r.2.pairs = new := by simpa using hnew
  have hP : ∀ x ∈ r.2.pairs, C06dA.NewOK (· ∈ c.paxes) (· ∈ u.paxes) next x ∧ ∃ g ∈ r.1, x.2 ∈ g.fv := by
    intro x hx
    rw [hnew'] at hx
    exact hne x hx
  have hfvl : ∀ g ∈ r.1, ∀ q ∈ g.fv, ∃ x ∈ r.2.pairs, x.2 = q := by
    intro g hg q hq
    obtain ⟨p, _, hgp⟩ := C06dE.forall₂_mem_left hall g hg
    exact (hgp.2.1 q hq).2
  refine ⟨⟨stc.sem, hok.nodup, fun x hx => (hok.size x hx).1, ?_, hfvl, fun x hx => (hP x hx).2,
      (by intro k hk; cases hk), (by simpa using stc.nodup), ?_, ?_⟩,
    ⟨stu.sem, hok.nodup, fun x hx => by rw [(hok.size x hx).1, (hok.size x hx).2], ?_, hfvl,
      fun x hx => (hP x hx).2, (by intro k hk; cases hk), (by simpa using stu.nodup), ?_, ?_⟩, ?_⟩
  · rw [C06dE.forall₂_map_eq Axis.numel (fun p => p.1.numel) (fun a b hab => hab.1) hall, PT.vshape,
      C06jL.zip_map_fst_f Axis.numel _ _ hlen]
  · intro x hx q hq
    simpa using (hP x hx).1.2.2.1 q hq
  · intro ρ hρ
    rw [C06dE.forall₂_map_eq' (Axis.eval (lift Prod.fst r.2.pairs ρ)) (fun p => p.1.eval ρ) hall,
      C06jL.zip_map_fst_f (Axis.eval ρ) _ _ hlen]
    intro g p hp hgp
    exact hgp.2.2.1 ρ (fun q hq => hρ q (by simpa using stc.fvsub p.1 (List.of_mem_zip hp).1 q hq))
  · rw [C06dE.forall₂_map_eq' Axis.numel (fun p => p.2.numel) hall
        (fun a b hb hab => by rw [hab.1]; exact C06dE.zip_numel_eq _ _ h.shape b hb), PT.vshape,
      C06jL.zip_map_snd_f Axis.numel _ _ hlen]
  · intro x hx q hq
    simpa using (hP x hx).1.2.2.2 q hq
  · intro ρ hρ
    rw [C06dE.forall₂_map_eq' (Axis.eval (lift Prod.snd r.2.pairs ρ)) (fun p => p.2.eval ρ) hall,
      C06jL.zip_map_snd_f (Axis.eval ρ) _ _ hlen]
    intro g p hp hgp
    exact hgp.2.2.2 ρ (fun q hq => hρ q (by simpa using stu.fvsub p.2 (List.of_mem_zip hp).2 q hq))
  · intro g hg q hq
    obtain ⟨p, _, hgp⟩ := C06dE.forall₂_mem_left hall g hg
    exact (hgp.2.1 q hq).1

/-! ### the tensor handed to the constructor -/

theorem raw_normOK {c u : PT} {next : Nat} (h : C06d.OperandsOK c u next) (fuel : Nat) (sw : Bool) (t : PT) :
    NormOK (rawWhere fuel sw t c u next) := by
  obtain ⟨hl, hr, hno1⟩ := sides h fuel
  refine ⟨?_, gsOf_nodup hl, ?_, ?_, ?_⟩
  · show (List.map _ (List.zipIdx _)).length = _
    rw [List.length_map, List.length_zipIdx, length_assigns]
    rfl
  · intro g hg q hq
    exact mem_gsOf.2 (hl.fvl g hg q hq)
  · intro p hp
    obtain ⟨x, hx, rfl⟩ := mem_gsOf.1 hp
    exact hl.occ x hx
  · intro g hg
    exact Or.inr (hno1 g hg)

/-- the element of an enumeration of the index tuples at the flat position of a tuple -/
theorem zipIdx_map_getElem_flat {α : Type} (f : List Nat × Nat → α) {shape a : List Nat} (ha : a ∈ assigns shape) :
    ((assigns shape).zipIdx.map f)[flat shape a]? = some (f (a, flat shape a)) := by
  rw [List.getElem?_map, List.getElem?_zipIdx, getElem_flat ha]
  simp

/-- **the cells of the tensor handed to the constructor**: `t`'s cell where `c` selects, else `u`'s — where the
selection is inverted if the operands were swapped (`c.default` true) -/
theorem raw_cell {c u : PT} {next : Nat} (h : C06d.OperandsOK c u next) (fuel : Nat) (t : PT) {idx : List Nat}
    (hc : idx ∈ assigns c.vshape) :
    (rawWhere fuel (truthy c.default) t c u next).dense[flat c.vshape idx]? =
      some (if (if truthy c.default then !truthy (c.dense[flat c.vshape idx]?.getD c.default)
                else truthy (c.dense[flat c.vshape idx]?.getD c.default))
            then t.dense[flat t.vshape idx]?.getD t.default
            else u.dense[flat u.vshape idx]?.getD u.default) := by
  obtain ⟨hl, hr, hno1⟩ := sides h fuel
  have hn := raw_normOK h fuel (truthy c.default) t
  have hs : Sem (rawWhere fuel (truthy c.default) t c u next) := sem_of_occ hn.nodup hn.fvsub hn.occ
  have hv : (rawWhere fuel (truthy c.default) t c u next).vshape = c.vshape := hl.numl
  by_cases hb : ∃ γ, Backs (rawWhere fuel (truthy c.default) t c u next) idx γ
  · obtain ⟨γ, hb⟩ := hb
    have hγ : ∀ x ∈ (au fuel c u next).2.pairs, γ x.2.1 < x.2.2 :=
      fun x hx => hb.1 x.2 (mem_gsOf.2 ⟨x, hx, rfl⟩)
    have hc' : (au fuel c u next).1.map (Axis.eval γ) = idx := hb.2
    have h0 := dense_backed hs hb
    rw [hv] at h0
    rw [h0]
    have ha : pidx (gsOf (au fuel c u next).2.pairs) γ ∈ assigns ((gsOf (au fuel c u next).2.pairs).map (·.2)) :=
      pidx_mem_assigns γ _ hb.1
    have hcell : (au fuel c u next).1.map
        (Axis.eval (envOf (gsOf (au fuel c u next).2.pairs) (pidx (gsOf (au fuel c u next).2.pairs) γ))) = idx := by
      rw [← hc']
      apply List.map_congr_left
      intro g hg
      apply eval_congr
      intro q hq
      exact envOf_pidx γ _ q.1 (List.mem_map_of_mem (f := (·.1)) (hn.fvsub g hg q hq))
    obtain ⟨v, a2, b2⟩ := side_backed hr γ hγ
    rw [layout_eq hr] at a2
    rw [hc', ← h.shape] at b2
    show some ((List.map _ (List.zipIdx _))[flat ((gsOf (au fuel c u next).2.pairs).map (·.2))
      (pidx (gsOf (au fuel c u next).2.pairs) γ)]?.getD _) = _
    rw [zipIdx_map_getElem_flat _ ha]
    simp only [Option.getD_some, hcell, a2]
    rw [← h.shape, b2]
    rfl
  · have hb' : ∀ γ, ¬ Backs (rawWhere fuel (truthy c.default) t c u next) idx γ := fun γ hγ => hb ⟨γ, hγ⟩
    have hc0 : idx ∈ assigns (rawWhere fuel (truthy c.default) t c u next).vshape := by rw [hv]; exact hc
    have h0 := dense_unbacked hs hc0 hb'
    rw [hv] at h0
    have hout : ∀ γ, (∀ x ∈ (au fuel c u next).2.pairs, γ x.2.1 < x.2.2) →
        (au fuel c u next).1.map (Axis.eval γ) ≠ idx := by
      intro γ hγ e
      refine hb' γ ⟨?_, e⟩
      intro p hp
      obtain ⟨x, hx, rfl⟩ := mem_gsOf.1 hp
      exact hγ x hx
    have b1 := side_unbacked hl hc hout
    have b2 := side_unbacked hr (h.shape ▸ hc) hout
    rw [h0, b1, b2]
    show some u.default = _
    cases hd : truthy c.default <;> simp [hd]
end C06mL
