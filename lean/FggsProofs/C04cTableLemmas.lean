/-
C04cTableLemmas — one application of `F_viterbi` to one nonterminal (model `Vt.fViterbiNt`): `firstMax`, the per-rule
table `ruleTable`, and the fold over the rules of the nonterminal (value, left-hand-side pointer, right-hand-side
pointers).  Used by C04c.
-/
import FggsModel.ViterbiTables
import FggsProofs.PipeLemmas
import Mathlib.Tactic.Linarith
import Mathlib.Data.List.Basic

set_option linter.unusedSimpArgs false
set_option linter.unusedVariables false

namespace C04cL
open Fggs Fggs.Sem Fggs.Pipe Fggs.Vt PipeL

variable {K : Type}

/-! ### `assigns` -/

theorem length_of_mem_assigns (shape a : List Nat) (h : a ∈ assigns shape) : a.length = shape.length := by
  induction shape generalizing a with
  | nil => simp [assigns] at h; subst h; rfl
  | cons n rest ih =>
    simp only [assigns, List.mem_flatMap, List.mem_range, List.mem_map] at h
    obtain ⟨i, _, is, his, rfl⟩ := h
    simp [ih is his]

theorem numel_pos (shape : List Nat) (h : ∀ n ∈ shape, 0 < n) : 0 < numel shape := by
  induction shape with
  | nil => simp [numel]
  | cons n rest ih =>
    rw [numel_cons]
    exact Nat.mul_pos (h n (List.mem_cons_self ..)) (ih (fun m hm => h m (List.mem_cons_of_mem _ hm)))

theorem assigns_ne_nil (shape : List Nat) (h : ∀ n ∈ shape, 0 < n) : assigns shape ≠ [] := by
  intro hnil
  have := numel_pos shape h
  rw [← length_assigns, hnil] at this
  simp at this

/-! ### `firstMax` -/

/-- the fold of `firstMax` -/
def bestOf (gt : K → K → Bool) (cs : List (List Nat × K)) (c : List Nat × K) : List Nat × K :=
  cs.foldl (fun best d => if gt d.2 best.2 then d else best) c

theorem firstMax_cons (gt : K → K → Bool) (c : List Nat × K) (cs : List (List Nat × K)) :
    firstMax gt (c :: cs) = some (bestOf gt cs c) := rfl

theorem bestOf_mem (gt : K → K → Bool) (cs : List (List Nat × K)) (c : List Nat × K) :
    bestOf gt cs c ∈ c :: cs := by
  induction cs generalizing c with
  | nil => simp [bestOf]
  | cons d cs ih =>
    have h := ih (if gt d.2 c.2 then d else c)
    have e : bestOf gt (d :: cs) c = bestOf gt cs (if gt d.2 c.2 then d else c) := rfl
    rw [e]
    rcases List.mem_cons.1 h with h | h
    · rw [h]; split <;> simp
    · exact List.mem_cons_of_mem _ (List.mem_cons_of_mem _ h)

theorem firstMax_mem (gt : K → K → Bool) (l : List (List Nat × K)) (b : List Nat × K)
    (h : firstMax gt l = some b) : b ∈ l := by
  cases l with
  | nil => simp [firstMax] at h
  | cons c cs =>
    rw [firstMax_cons] at h
    injection h with h
    rw [← h]; exact bestOf_mem gt cs c

theorem firstMax_isSome (gt : K → K → Bool) (l : List (List Nat × K)) (h : l ≠ []) :
    ∃ b, firstMax gt l = some b := by
  cases l with
  | nil => exact absurd rfl h
  | cons c cs => exact ⟨_, firstMax_cons gt c cs⟩

/-- with a strict weak order, nothing seen is greater than the incumbent -/
theorem bestOf_dom (gt : K → K → Bool) (hnt : ∀ a b c, gt a b = false → gt b c = false → gt a c = false)
    (hasym : ∀ a b, gt a b = true → gt b a = false)
    (cs : List (List Nat × K)) (c : List Nat × K) (seen : List (List Nat × K))
    (hseen : ∀ s ∈ seen, gt s.2 c.2 = false) :
    ∀ d ∈ seen ++ cs, gt d.2 (bestOf gt cs c).2 = false := by
  induction cs generalizing c seen with
  | nil => simpa [bestOf] using hseen
  | cons d cs ih =>
    unfold bestOf
    rw [List.foldl_cons]
    have hirr : ∀ a, gt a a = false := by
      intro a
      cases h : gt a a with
      | false => rfl
      | true => have := hasym a a h; rw [h] at this; exact this
    have := ih (if gt d.2 c.2 then d else c) (seen ++ [d]) (by
      intro s hs
      rcases List.mem_append.1 hs with hs | hs
      · split
        · rename_i hg
          exact hnt _ _ _ (hseen s hs) (hasym _ _ hg)
        · exact hseen s hs
      · simp only [List.mem_singleton] at hs
        subst hs
        split
        · exact hirr _
        · rename_i hg; simpa using hg)
    unfold bestOf at this
    intro e he
    apply this e
    simp only [List.append_assoc, List.singleton_append]
    exact he

theorem firstMax_dom (gt : K → K → Bool) (hnt : ∀ a b c, gt a b = false → gt b c = false → gt a c = false)
    (hasym : ∀ a b, gt a b = true → gt b a = false)
    (l : List (List Nat × K)) (b : List Nat × K) (h : firstMax gt l = some b) :
    ∀ d ∈ l, gt d.2 b.2 = false := by
  cases l with
  | nil => simp [firstMax] at h
  | cons c cs =>
    rw [firstMax_cons] at h
    injection h with h
    rw [← h]
    have hirr : gt c.2 c.2 = false := by
      cases h : gt c.2 c.2 with
      | false => rfl
      | true => have := hasym _ _ h; rw [h] at this; exact this
    have := bestOf_dom gt hnt hasym cs c [c] (by intro s hs; simp at hs; subst hs; exact hirr)
    simpa using this

/-! ### the table of one rule -/

/-- the candidates of rule `r` at the external assignment `extVals` -/
def cands (S : SR K) (G : Grammar K) (x : Val K) (r : Rule) (extVals : List Nat) : List (List Nat × K) :=
  (innerAssigns G r).map (fun ptr => (ptr, candWeight S G x r extVals ptr))

/-- the table entry of rule `r` at `extVals` -/
def tblEntry (S : SR K) (gt : K → K → Bool) (G : Grammar K) (x : Val K) (r : Rule) (extVals : List Nat) :
    K × List Nat :=
  match firstMax gt (cands S G x r extVals) with
  | some b => (b.2, b.1)
  | none => (S.zero, [])

/-- the shape of the external nodes of a rule -/
def extShape (G : Grammar K) (r : Rule) : List Nat := G.shapeOf (r.ext.map (fun v => r.nodes[v]?.getD 0))

theorem ruleTable_eq_some (S : SR K) (gt : K → K → Bool) (G : Grammar K) (x : Val K) (r : Rule)
    (tbl : List (K × List Nat)) (h : ruleTable S gt G x r = some tbl) :
    tbl = (assigns (extShape G r)).map (tblEntry S gt G x r) := by
  unfold ruleTable at h
  split at h
  · exact absurd h (by simp)
  · injection h with h
    rw [← h]
    rfl

/-- the rule is skipped exactly when some nonterminal edge has no value -/
theorem ruleTable_isSome_iff (S : SR K) (gt : K → K → Bool) (G : Grammar K) (x : Val K) (r : Rule) :
    (ruleTable S gt G x r).isSome = true ↔
      ∀ e ∈ r.edges, e.1 ≥ G.T → (x[e.1 - G.T]?.join).isSome = true := by
  unfold ruleTable
  split
  · rename_i hany
    simp only [Option.isSome_none, Bool.false_eq_true, false_iff]
    intro hall
    rw [List.any_eq_true] at hany
    obtain ⟨e, he, hc⟩ := hany
    simp only [Bool.and_eq_true, decide_eq_true_eq] at hc
    have := hall e he hc.1
    rw [Option.isNone_iff_eq_none] at hc
    rw [hc.2] at this
    simp at this
  · rename_i hany
    simp only [Option.isSome_some, true_iff]
    intro e he hT
    rw [Bool.not_eq_true, List.any_eq_false] at hany
    have := hany e he
    simp only [Bool.and_eq_true, decide_eq_true_eq, not_and, Bool.not_eq_true] at this
    have := this hT
    cases h : (x[e.1 - G.T]?.join) <;> simp_all

theorem ruleTable_length (S : SR K) (gt : K → K → Bool) (G : Grammar K) (x : Val K) (r : Rule)
    (tbl : List (K × List Nat)) (h : ruleTable S gt G x r = some tbl) :
    tbl.length = numel (extShape G r) := by
  rw [ruleTable_eq_some S gt G x r tbl h, List.length_map, length_assigns]

/-- with candidates, the entry is a candidate: its pointer is an assignment of the internal nodes and its value is
that assignment's weight -/
theorem tblEntry_mem (S : SR K) (gt : K → K → Bool) (G : Grammar K) (x : Val K) (r : Rule) (extVals : List Nat)
    (hne : innerAssigns G r ≠ []) :
    (tblEntry S gt G x r extVals).2 ∈ innerAssigns G r ∧
    (tblEntry S gt G x r extVals).1 = candWeight S G x r extVals (tblEntry S gt G x r extVals).2 := by
  have hc : cands S G x r extVals ≠ [] := by
    unfold cands; simpa using hne
  obtain ⟨b, hb⟩ := firstMax_isSome gt _ hc
  have hmem := firstMax_mem gt _ b hb
  unfold tblEntry
  rw [hb]
  unfold cands at hmem
  obtain ⟨ptr, hptr, rfl⟩ := List.mem_map.1 hmem
  exact ⟨hptr, rfl⟩

/-- … and no candidate weighs more -/
theorem tblEntry_dom (S : SR K) (gt : K → K → Bool)
    (hnt : ∀ a b c, gt a b = false → gt b c = false → gt a c = false)
    (hasym : ∀ a b, gt a b = true → gt b a = false)
    (G : Grammar K) (x : Val K) (r : Rule) (extVals : List Nat)
    (ptr : List Nat) (hp : ptr ∈ innerAssigns G r) :
    gt (candWeight S G x r extVals ptr) (tblEntry S gt G x r extVals).1 = false := by
  have hmemc : (ptr, candWeight S G x r extVals ptr) ∈ cands S G x r extVals :=
    List.mem_map.2 ⟨ptr, hp, rfl⟩
  have hc : cands S G x r extVals ≠ [] := List.ne_nil_of_mem hmemc
  obtain ⟨b, hb⟩ := firstMax_isSome gt _ hc
  have := firstMax_dom gt hnt hasym _ b hb _ hmemc
  unfold tblEntry
  rw [hb]
  exact this

theorem length_of_mem_innerAssigns (G : Grammar K) (r : Rule) (ptr : List Nat) (h : ptr ∈ innerAssigns G r) :
    ptr.length = (appearOrder r).length := by
  unfold innerAssigns at h
  rw [length_of_mem_assigns _ _ h, List.length_map]

/-- in a well-formed grammar the table of a rule has the shape of its left-hand side -/
theorem extShape_rulesOf (G : Grammar K) (hG : GrammarWF G) (X : Nat) :
    ∀ r ∈ G.rulesOf X, extShape G r = G.shapeOf (G.nts[X]?.getD []) := by
  intro r hr
  have hm := List.mem_filter.1 hr
  have hl : r.lhs = X := by simpa using hm.2
  unfold extShape
  rw [hG.ext r hm.1, hl]

/-- the entry of cell `c` of a rule's table -/
theorem tblEntry_of_getElem? (S : SR K) (gt : K → K → Bool) (G : Grammar K) (x : Val K) (r : Rule)
    (tbl : List (K × List Nat)) (h : ruleTable S gt G x r = some tbl) (shape : List Nat)
    (hs : extShape G r = shape) (c : Nat) (hc : c < numel shape) (e : K × List Nat) (he : tbl[c]? = some e) :
    e = tblEntry S gt G x r ((assigns shape)[c]?.getD []) := by
  rw [ruleTable_eq_some S gt G x r tbl h, hs, List.getElem?_map] at he
  have hc' : c < (assigns shape).length := by rw [length_assigns]; exact hc
  have h1 : (assigns shape)[c]? = some (assigns shape)[c] := by simp [hc']
  rw [h1] at he ⊢
  simp only [Option.map_some, Option.some.injEq] at he
  rw [← he]; rfl

/-- without empty domains the internal nodes of a rule of a well-formed grammar have an assignment -/
theorem innerAssigns_ne_nil (G : Grammar K) (hG : GrammarWF G) (r : Rule) (hr : r ∈ G.rules)
    (hdom : ∀ l ∈ r.nodes, 0 < G.dom l) : innerAssigns G r ≠ [] := by
  unfold innerAssigns
  apply assigns_ne_nil
  intro n hn
  obtain ⟨v, hv, rfl⟩ := List.mem_map.1 hn
  unfold appearOrder at hv
  have hv1 := (List.mem_filter.1 hv).1
  rw [List.mem_eraseDups, List.mem_flatMap] at hv1
  obtain ⟨e, he, hve⟩ := hv1
  have hlt : v < r.nodes.length := (hG.rule r hr).att e he v hve
  have : r.nodes[v]?.getD 0 = r.nodes[v] := by simp [hlt]
  rw [this]
  exact hdom _ (List.getElem_mem hlt)

/-! ### the fold over the rules of a nonterminal -/

/-- the step of `fViterbiNt` -/
def ntStep (S : SR K) (gt : K → K → Bool) (G : Grammar K) (x : Val K) (ncell : Nat)
    (acc : NtTables K) (p : Rule × Nat) : NtTables K :=
  match ruleTable S gt G x p.1 with
  | none => { acc with rhs := acc.rhs ++ [none] }
  | some tbl =>
    let vals := tbl.map (·.1)
    let ptrs := tbl.map (·.2)
    match acc.value with
    | some f =>
      { value := some (List.zipWith (fun t f => if gt t f then t else f) vals f),
        lhs := List.zipWith (fun (tf : K × K) l => if gt tf.1 tf.2 then p.2 else l) (vals.zip f) acc.lhs,
        rhs := acc.rhs ++ [some ptrs] }
    | none => { value := some vals, lhs := List.replicate ncell p.2, rhs := acc.rhs ++ [some ptrs] }

theorem fViterbiNt_eq (S : SR K) (gt : K → K → Bool) (G : Grammar K) (x : Val K) (X : Nat) :
    fViterbiNt S gt G x X =
      (G.rulesOf X).zipIdx.foldl (ntStep S gt G x (numel (G.shapeOf (G.nts[X]?.getD []))))
        { value := none, lhs := List.replicate (numel (G.shapeOf (G.nts[X]?.getD []))) 0, rhs := [] } := rfl

theorem ntStep_none (S : SR K) (gt : K → K → Bool) (G : Grammar K) (x : Val K) (ncell : Nat)
    (acc : NtTables K) (p : Rule × Nat) (h : ruleTable S gt G x p.1 = none) :
    ntStep S gt G x ncell acc p = { acc with rhs := acc.rhs ++ [none] } := by
  unfold ntStep; rw [h]

theorem ntStep_some_some (S : SR K) (gt : K → K → Bool) (G : Grammar K) (x : Val K) (ncell : Nat)
    (acc : NtTables K) (p : Rule × Nat) (tbl : List (K × List Nat)) (f : List K)
    (h : ruleTable S gt G x p.1 = some tbl) (hf : acc.value = some f) :
    ntStep S gt G x ncell acc p =
      { value := some (List.zipWith (fun t f => if gt t f then t else f) (tbl.map (·.1)) f),
        lhs := List.zipWith (fun (tf : K × K) l => if gt tf.1 tf.2 then p.2 else l) ((tbl.map (·.1)).zip f) acc.lhs,
        rhs := acc.rhs ++ [some (tbl.map (·.2))] } := by
  unfold ntStep; rw [h]; simp only [hf]

theorem ntStep_some_none (S : SR K) (gt : K → K → Bool) (G : Grammar K) (x : Val K) (ncell : Nat)
    (acc : NtTables K) (p : Rule × Nat) (tbl : List (K × List Nat))
    (h : ruleTable S gt G x p.1 = some tbl) (hf : acc.value = none) :
    ntStep S gt G x ncell acc p =
      { value := some (tbl.map (·.1)), lhs := List.replicate ncell p.2, rhs := acc.rhs ++ [some (tbl.map (·.2))] } := by
  unfold ntStep; rw [h]; simp only [hf]

/-- what the fold has established after the rules `done` -/
structure NtInv (S : SR K) (gt : K → K → Bool) (G : Grammar K) (x : Val K) (ncell : Nat)
    (done : List (Rule × Nat)) (acc : NtTables K) : Prop where
  rhs : acc.rhs = done.map (fun p => (ruleTable S gt G x p.1).map (fun tbl => tbl.map (·.2)))
  lhsLen : acc.lhs.length = ncell
  none : acc.value = none → ∀ p ∈ done, ruleTable S gt G x p.1 = none
  some : ∀ f, acc.value = some f → f.length = ncell ∧
    ∀ c, c < ncell → ∃ p ∈ done, acc.lhs[c]? = some p.2 ∧
      ∃ tbl e, ruleTable S gt G x p.1 = some tbl ∧ tbl[c]? = some e ∧ f[c]? = some e.1

theorem ntInv_step (S : SR K) (gt : K → K → Bool) (G : Grammar K) (x : Val K) (ncell : Nat)
    (done : List (Rule × Nat)) (acc : NtTables K) (p : Rule × Nat)
    (hp : ∀ tbl, ruleTable S gt G x p.1 = some tbl → tbl.length = ncell)
    (hI : NtInv S gt G x ncell done acc) :
    NtInv S gt G x ncell (done ++ [p]) (ntStep S gt G x ncell acc p) := by
  cases hrt : ruleTable S gt G x p.1 with
  | none =>
    rw [ntStep_none S gt G x ncell acc p hrt]
    refine ⟨?_, hI.lhsLen, ?_, ?_⟩
    · simp only [List.map_append, List.map_cons, List.map_nil, hrt, Option.map_none]
      rw [← hI.rhs]
    · intro hn q hq
      rcases List.mem_append.1 hq with hq | hq
      · exact hI.none hn q hq
      · simp only [List.mem_singleton] at hq; subst hq; exact hrt
    · intro f hf
      obtain ⟨h1, h2⟩ := hI.some f hf
      refine ⟨h1, fun c hc => ?_⟩
      obtain ⟨q, hq, h3⟩ := h2 c hc
      exact ⟨q, List.mem_append_left _ hq, h3⟩
  | some tbl =>
    have hlen := hp tbl hrt
    cases hval : acc.value with
    | none =>
      rw [ntStep_some_none S gt G x ncell acc p tbl hrt hval]
      refine ⟨?_, by simp, by intro h; simp at h, ?_⟩
      · simp only [List.map_append, List.map_cons, List.map_nil, hrt, Option.map_some]
        rw [← hI.rhs]
      · intro f hf
        simp only [Option.some.injEq] at hf
        subst hf
        refine ⟨by simpa using hlen, fun c hc => ?_⟩
        have hc' : c < tbl.length := by omega
        refine ⟨p, by simp, by simp [List.getElem?_replicate, hc], tbl, tbl[c], hrt, by simp [hc'], ?_⟩
        simp [hc']
    | some f =>
      rw [ntStep_some_some S gt G x ncell acc p tbl f hrt hval]
      obtain ⟨hfl, hcells⟩ := hI.some f hval
      refine ⟨?_, ?_, by intro h; simp at h, ?_⟩
      · simp only [List.map_append, List.map_cons, List.map_nil, hrt, Option.map_some]
        rw [← hI.rhs]
      · simp only [List.length_zipWith, List.length_zip, List.length_map, hlen, hfl, hI.lhsLen]
        omega
      · intro f' hf'
        simp only [Option.some.injEq] at hf'
        subst hf'
        refine ⟨by simp only [List.length_zipWith, List.length_map, hlen, hfl]; omega, fun c hc => ?_⟩
        have hc' : c < tbl.length := by omega
        have hcf : c < f.length := by omega
        have hcl : c < acc.lhs.length := by rw [hI.lhsLen]; exact hc
        have e1 : (tbl.map (·.1))[c]? = some (tbl[c]).1 := by simp [hc']
        have e2 : f[c]? = some f[c] := by simp [hcf]
        have e3 : acc.lhs[c]? = some acc.lhs[c] := by simp [hcl]
        have e4 : ((tbl.map (·.1)).zip f)[c]? = some ((tbl[c]).1, f[c]) :=
          List.getElem?_zip_eq_some.2 ⟨e1, e2⟩
        by_cases hg : gt (tbl[c]).1 f[c] = true
        · refine ⟨p, by simp, ?_, tbl, tbl[c], hrt, by simp [hc'], ?_⟩
          · rw [List.getElem?_zipWith, e4, e3]; simp [hg]
          · rw [List.getElem?_zipWith, e1, e2]; simp [hg]
        · obtain ⟨q, hq, h3, tbl', e', h4, h5, h6⟩ := hcells c hc
          refine ⟨q, List.mem_append_left _ hq, ?_, tbl', e', h4, h5, ?_⟩
          · have hl : acc.lhs[c] = q.2 := by rw [e3] at h3; exact Option.some.inj h3
            rw [List.getElem?_zipWith, e4, e3]; simp [hg, hl]
          · have hl : f[c] = e'.1 := by rw [e2] at h6; exact Option.some.inj h6
            rw [hl] at hg
            rw [List.getElem?_zipWith, e1, e2]; simp [hg, hl]

theorem ntInv_fold (S : SR K) (gt : K → K → Bool) (G : Grammar K) (x : Val K) (ncell : Nat)
    (ps : List (Rule × Nat))
    (hps : ∀ p ∈ ps, ∀ tbl, ruleTable S gt G x p.1 = some tbl → tbl.length = ncell) :
    ∀ (done : List (Rule × Nat)) (acc : NtTables K), NtInv S gt G x ncell done acc →
      NtInv S gt G x ncell (done ++ ps) (ps.foldl (ntStep S gt G x ncell) acc) := by
  induction ps with
  | nil => intro done acc hI; simpa using hI
  | cons p ps ih =>
    intro done acc hI
    rw [List.foldl_cons]
    have := ih (fun q hq => hps q (List.mem_cons_of_mem _ hq)) (done ++ [p]) _
      (ntInv_step S gt G x ncell done acc p (hps p (List.mem_cons_self ..)) hI)
    simpa [List.append_assoc] using this

/-- domination: no processed rule's table value is greater than the running maximum -/
def NtDom (S : SR K) (gt : K → K → Bool) (G : Grammar K) (x : Val K)
    (done : List (Rule × Nat)) (acc : NtTables K) : Prop :=
  (acc.value = none → ∀ p ∈ done, ruleTable S gt G x p.1 = none) ∧
  ∀ f, acc.value = some f → ∀ p ∈ done, ∀ tbl, ruleTable S gt G x p.1 = some tbl →
    ∀ (c : Nat) (e : K × List Nat) (fc : K), tbl[c]? = some e → f[c]? = some fc → gt e.1 fc = false

theorem ntDom_step (S : SR K) (gt : K → K → Bool)
    (hnt : ∀ a b c, gt a b = false → gt b c = false → gt a c = false)
    (hasym : ∀ a b, gt a b = true → gt b a = false)
    (G : Grammar K) (x : Val K) (ncell : Nat)
    (done : List (Rule × Nat)) (acc : NtTables K) (p : Rule × Nat)
    (hI : NtDom S gt G x done acc) :
    NtDom S gt G x (done ++ [p]) (ntStep S gt G x ncell acc p) := by
  have hirr : ∀ a, gt a a = false := by
    intro a
    cases h : gt a a with
    | false => rfl
    | true => have := hasym a a h; rw [h] at this; exact this
  cases hrt : ruleTable S gt G x p.1 with
  | none =>
    rw [ntStep_none S gt G x ncell acc p hrt]
    refine ⟨?_, ?_⟩
    · intro hn q hq
      rcases List.mem_append.1 hq with hq | hq
      · exact hI.1 hn q hq
      · simp only [List.mem_singleton] at hq; subst hq; exact hrt
    intro f hf q hq tbl hq2
    rcases List.mem_append.1 hq with hq | hq
    · exact hI.2 f hf q hq tbl hq2
    · simp only [List.mem_singleton] at hq; subst hq; rw [hrt] at hq2; exact absurd hq2 (by simp)
  | some tbl =>
    cases hval : acc.value with
    | none =>
      rw [ntStep_some_none S gt G x ncell acc p tbl hrt hval]
      refine ⟨by intro h; simp at h, ?_⟩
      intro f hf q hq tbl' hq2 c e fc he hfc
      simp only [Option.some.injEq] at hf
      subst hf
      rcases List.mem_append.1 hq with hq | hq
      · -- earlier rules have no table
        have := hI.1 hval q hq
        rw [hq2] at this
        exact absurd this (by simp)
      · simp only [List.mem_singleton] at hq; subst hq
        rw [hrt] at hq2; injection hq2 with hq2; subst hq2
        simp only [List.getElem?_map, he, Option.map_some, Option.some.injEq] at hfc
        subst hfc
        exact hirr _
    | some f =>
      rw [ntStep_some_some S gt G x ncell acc p tbl f hrt hval]
      refine ⟨by intro h; simp at h, ?_⟩
      intro f' hf' q hq tbl' hq2 c e fc he hfc
      simp only [Option.some.injEq] at hf'
      subst hf'
      rw [List.getElem?_zipWith] at hfc
      cases h1 : (tbl.map (·.1))[c]? with
      | none => rw [h1] at hfc; simp at hfc
      | some t =>
        cases h2 : f[c]? with
        | none => rw [h1, h2] at hfc; simp at hfc
        | some f0 =>
          rw [h1, h2] at hfc
          simp only [Option.some.injEq] at hfc
          rcases List.mem_append.1 hq with hq | hq
          · have ih := hI.2 f hval q hq tbl' hq2 c e f0 he h2
            rw [← hfc]
            split
            · rename_i hg
              exact hnt _ _ _ ih (hasym _ _ hg)
            · exact ih
          · simp only [List.mem_singleton] at hq; subst hq
            rw [hrt] at hq2; injection hq2 with hq2; subst hq2
            simp only [List.getElem?_map, he, Option.map_some, Option.some.injEq] at h1
            subst h1
            rw [← hfc]
            split
            · exact hirr _
            · rename_i hg; simpa using hg

theorem ntDom_fold (S : SR K) (gt : K → K → Bool)
    (hnt : ∀ a b c, gt a b = false → gt b c = false → gt a c = false)
    (hasym : ∀ a b, gt a b = true → gt b a = false)
    (G : Grammar K) (x : Val K) (ncell : Nat) (ps : List (Rule × Nat)) :
    ∀ (done : List (Rule × Nat)) (acc : NtTables K), NtDom S gt G x done acc →
      NtDom S gt G x (done ++ ps) (ps.foldl (ntStep S gt G x ncell) acc) := by
  induction ps with
  | nil => intro done acc hI; simpa using hI
  | cons p ps ih =>
    intro done acc hI
    rw [List.foldl_cons]
    have := ih (done ++ [p]) _ (ntDom_step S gt hnt hasym G x ncell done acc p hI)
    simpa [List.append_assoc] using this

/-! ### one application of `F_viterbi` to a nonterminal -/

theorem mem_rulesOf_of_mem_zipIdx (G : Grammar K) (X : Nat) (p : Rule × Nat) (hp : p ∈ (G.rulesOf X).zipIdx) :
    p.1 ∈ G.rulesOf X := by
  rw [List.mem_zipIdx_iff_getElem?] at hp
  exact List.mem_of_getElem? hp

/-- **one application**: the value has one cell per cell of the nonterminal; the recorded rule index names a rule of the
nonterminal that was not skipped, the recorded pointers are that rule's table, and the value is the table's value -/
theorem fViterbiNt_spec (S : SR K) (gt : K → K → Bool) (G : Grammar K) (x : Val K) (X : Nat)
    (hshape : ∀ r ∈ G.rulesOf X, extShape G r = G.shapeOf (G.nts[X]?.getD []))
    (vals : List K) (hv : (fViterbiNt S gt G x X).value = some vals) :
    vals.length = numel (G.shapeOf (G.nts[X]?.getD [])) ∧
    ∀ c, c < numel (G.shapeOf (G.nts[X]?.getD [])) →
      ∃ r tbl e, (G.rulesOf X)[(fViterbiNt S gt G x X).lhs[c]?.getD 0]? = some r ∧
        ruleTable S gt G x r = some tbl ∧
        ((fViterbiNt S gt G x X).rhs[(fViterbiNt S gt G x X).lhs[c]?.getD 0]?).join = some (tbl.map (·.2)) ∧
        tbl[c]? = some e ∧ vals[c]? = some e.1 := by
  have hI := ntInv_fold S gt G x (numel (G.shapeOf (G.nts[X]?.getD []))) (G.rulesOf X).zipIdx
    (by
      intro p hp tbl htbl
      rw [ruleTable_length S gt G x p.1 tbl htbl, hshape p.1 (mem_rulesOf_of_mem_zipIdx G X p hp)])
    [] { value := none, lhs := List.replicate (numel (G.shapeOf (G.nts[X]?.getD []))) 0, rhs := [] }
    ⟨rfl, by simp, by intro _ p hp; simp at hp, by intro f hf; simp at hf⟩
  rw [← fViterbiNt_eq, List.nil_append] at hI
  obtain ⟨hlen, hcells⟩ := hI.some vals hv
  refine ⟨hlen, fun c hc => ?_⟩
  obtain ⟨p, hp, hl, tbl, e, hrt, he, hve⟩ := hcells c hc
  refine ⟨p.1, tbl, e, ?_, hrt, ?_, he, hve⟩
  · rw [hl]; exact List.mem_zipIdx_iff_getElem?.1 hp
  · rw [hl, hI.rhs]
    have h1 : (G.rulesOf X)[p.2]? = some p.1 := List.mem_zipIdx_iff_getElem?.1 hp
    simp only [Option.getD_some, List.getElem?_map, List.getElem?_zipIdx, h1, Option.map_some, hrt,
      Option.join_some]

/-- … and with a strict weak order no table value of a rule of the nonterminal is greater than the value -/
theorem fViterbiNt_dom (S : SR K) (gt : K → K → Bool)
    (hnt : ∀ a b c, gt a b = false → gt b c = false → gt a c = false)
    (hasym : ∀ a b, gt a b = true → gt b a = false)
    (G : Grammar K) (x : Val K) (X : Nat)
    (vals : List K) (hv : (fViterbiNt S gt G x X).value = some vals)
    (r : Rule) (hr : r ∈ G.rulesOf X) (tbl : List (K × List Nat)) (hrt : ruleTable S gt G x r = some tbl)
    (c : Nat) (e : K × List Nat) (fc : K) (he : tbl[c]? = some e) (hfc : vals[c]? = some fc) :
    gt e.1 fc = false := by
  have hI := ntDom_fold S gt hnt hasym G x (numel (G.shapeOf (G.nts[X]?.getD []))) (G.rulesOf X).zipIdx
    [] { value := none, lhs := List.replicate (numel (G.shapeOf (G.nts[X]?.getD []))) 0, rhs := [] }
    ⟨by intro _ p hp; simp at hp, by intro f hf; simp at hf⟩
  rw [← fViterbiNt_eq, List.nil_append] at hI
  obtain ⟨i, hi⟩ := List.mem_iff_getElem?.1 hr
  have hp : (r, i) ∈ (G.rulesOf X).zipIdx := List.mem_zipIdx_iff_getElem?.2 hi
  exact hI.2 vals hv (r, i) hp tbl hrt c e fc he hfc

end C04cL
