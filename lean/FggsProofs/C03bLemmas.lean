/-
C03bLemmas — helper lemmas for C03b (the Jacobian model `Pipe.jacLabel` is the derivative of `F`): semiring sums
over lists (`bsum`), index tuples, the fold of `addOpt` cell by cell, `jacLabel` as a flat sum of rule cells, and
the regrouping of `Σ_ρ Σ_i d_i(ρ) Π_{j≠i} w_j(ρ)` by edge label and index tuple.
-/
import FggsModel.Pipeline
import FggsProofs.PipeLemmas
import FggsProofs.Props.C01
import FggsProofs.Props.C01b
import Mathlib.Tactic.Linarith
import Mathlib.Tactic.Ring
import Mathlib.Data.List.Basic
import Mathlib.Data.List.Forall2

set_option linter.unusedSimpArgs false
set_option linter.unusedVariables false

namespace C03L
open Fggs Fggs.Sem Fggs.Pipe PipeL C01

variable {K : Type}

/-! ### algebra toolkit -/
section alg
variable {S : SR K} (hS : SRLaws S)
include hS

theorem sr_add_zero (a : K) : S.add a S.zero = a := by rw [hS.add_comm, hS.zero_add]
theorem sr_mul_one (a : K) : S.mul a S.one = a := by rw [hS.mul_comm, hS.one_mul]
theorem sr_mul_zero (a : K) : S.mul a S.zero = S.zero := by rw [hS.mul_comm, hS.zero_mul]
theorem sr_right_distrib (a b c : K) : S.mul (S.add a b) c = S.add (S.mul a c) (S.mul b c) := by
  rw [hS.mul_comm, hS.left_distrib, hS.mul_comm c a, hS.mul_comm c b]
theorem sr_mul_left_comm (a b c : K) : S.mul a (S.mul b c) = S.mul b (S.mul a c) := by
  rw [← hS.mul_assoc, hS.mul_comm a b, hS.mul_assoc]
theorem sr_add4 (a b c d : K) :
    S.add (S.add a b) (S.add c d) = S.add (S.add a c) (S.add b d) := by
  rw [hS.add_assoc, hS.add_assoc, ← hS.add_assoc b c d, ← hS.add_assoc c b d, hS.add_comm b c]

theorem foldl_add (l : List K) (a : K) : l.foldl S.add a = S.add a (S.sum l) := by
  induction l generalizing a with
  | nil => simp [SR.sum, sr_add_zero hS]
  | cons x l ih =>
    have h1 : S.sum (x :: l) = S.add x (S.sum l) := by
      show l.foldl S.add (S.add S.zero x) = _
      rw [ih, hS.zero_add]
    rw [List.foldl_cons, ih, h1, hS.add_assoc]

theorem sum_cons (x : K) (l : List K) : S.sum (x :: l) = S.add x (S.sum l) := by
  show l.foldl S.add (S.add S.zero x) = _
  rw [foldl_add hS, hS.zero_add]

theorem foldl_mul (l : List K) (a : K) : l.foldl S.mul a = S.mul a (S.prod l) := by
  induction l generalizing a with
  | nil => simp [SR.prod, sr_mul_one hS]
  | cons x l ih =>
    have h1 : S.prod (x :: l) = S.mul x (S.prod l) := by
      show l.foldl S.mul (S.mul S.one x) = _
      rw [ih, hS.one_mul]
    rw [List.foldl_cons, ih, h1, hS.mul_assoc]

theorem prod_cons (x : K) (l : List K) : S.prod (x :: l) = S.mul x (S.prod l) := by
  show l.foldl S.mul (S.mul S.one x) = _
  rw [foldl_mul hS, hS.one_mul]

end alg

/-- `Σ_{x ∈ l} f x` -/
def bsum {α : Type} (S : SR K) (l : List α) (f : α → K) : K := S.sum (l.map f)

section bs
variable {S : SR K} (hS : SRLaws S) {α β : Type}

theorem bsum_nil (f : α → K) : bsum S [] f = S.zero := rfl

theorem bsum_congr (l : List α) (f g : α → K) (h : ∀ x ∈ l, f x = g x) :
    bsum S l f = bsum S l g := by
  unfold bsum; rw [List.map_congr_left h]

theorem bsum_map (l : List α) (g : α → β) (f : β → K) :
    bsum S (l.map g) f = bsum S l (fun x => f (g x)) := by
  unfold bsum; rw [List.map_map]; rfl

include hS

theorem bsum_cons (x : α) (l : List α) (f : α → K) :
    bsum S (x :: l) f = S.add (f x) (bsum S l f) := by
  unfold bsum; rw [List.map_cons, sum_cons hS]

theorem bsum_append (l1 l2 : List α) (f : α → K) :
    bsum S (l1 ++ l2) f = S.add (bsum S l1 f) (bsum S l2 f) := by
  induction l1 with
  | nil => rw [List.nil_append, bsum_nil, hS.zero_add]
  | cons x l ih => rw [List.cons_append, bsum_cons hS, bsum_cons hS, ih, hS.add_assoc]

theorem bsum_zero (l : List α) : bsum S l (fun _ => S.zero) = S.zero := by
  induction l with
  | nil => rfl
  | cons x l ih => rw [bsum_cons hS, ih, hS.zero_add]

theorem bsum_add (l : List α) (f g : α → K) :
    bsum S l (fun x => S.add (f x) (g x)) = S.add (bsum S l f) (bsum S l g) := by
  induction l with
  | nil => rw [bsum_nil, bsum_nil, bsum_nil, hS.zero_add]
  | cons x l ih => rw [bsum_cons hS, bsum_cons hS, bsum_cons hS, ih, sr_add4 hS]

theorem bsum_comm (l1 : List α) (l2 : List β) (f : α → β → K) :
    bsum S l1 (fun x => bsum S l2 (fun y => f x y)) = bsum S l2 (fun y => bsum S l1 (fun x => f x y)) := by
  induction l1 with
  | nil => simp only [bsum_nil]; rw [bsum_zero hS]
  | cons x l ih =>
    simp only [bsum_cons hS]
    rw [ih, bsum_add hS]

theorem bsum_mul_right (l : List α) (f : α → K) (c : K) :
    bsum S l (fun x => S.mul (f x) c) = S.mul (bsum S l f) c := by
  induction l with
  | nil => rw [bsum_nil, bsum_nil, hS.zero_mul]
  | cons x l ih => rw [bsum_cons hS, bsum_cons hS, ih, sr_right_distrib hS]

theorem bsum_mul_left (l : List α) (f : α → K) (c : K) :
    bsum S l (fun x => S.mul c (f x)) = S.mul c (bsum S l f) := by
  induction l with
  | nil => rw [bsum_nil, bsum_nil, sr_mul_zero hS]
  | cons x l ih => rw [bsum_cons hS, bsum_cons hS, ih, hS.left_distrib]

theorem bsum_flatMap (l : List α) (g : α → List β) (f : β → K) :
    bsum S (l.flatMap g) f = bsum S l (fun x => bsum S (g x) f) := by
  induction l with
  | nil => rfl
  | cons x l ih => rw [List.flatMap_cons, bsum_append hS, bsum_cons hS, ih]

theorem bsum_filter (l : List α) (p : α → Bool) (f : α → K) :
    bsum S (l.filter p) f = bsum S l (fun x => if p x then f x else S.zero) := by
  induction l with
  | nil => rfl
  | cons x l ih =>
    rw [bsum_cons hS, List.filter_cons]
    by_cases h : p x = true
    · simp only [h, if_true]; rw [bsum_cons hS, ih]
    · have h' : p x = false := by simpa using h
      simp only [h', Bool.false_eq_true, if_false]; rw [ih, hS.zero_add]

theorem bsum_range_single (n j : Nat) (hj : j < n) (h : Nat → K) :
    bsum S (List.range n) (fun i => if (i == j) = true then h i else S.zero) = h j := by
  induction n with
  | zero => omega
  | succ n ih =>
    rw [List.range_succ, bsum_append hS, bsum_cons hS, bsum_nil, sr_add_zero hS]
    by_cases hjn : j = n
    · subst hjn
      have : bsum S (List.range j) (fun i => if (i == j) = true then h i else S.zero)
          = bsum S (List.range j) (fun _ => S.zero) := by
        apply bsum_congr; intro x hx
        have : x ≠ j := by have := List.mem_range.1 hx; omega
        simp [this]
      rw [this, bsum_zero hS, hS.zero_add]; simp
    · rw [ih (by omega)]
      have : (n == j) = false := by simp; omega
      simp [this, sr_add_zero hS]

theorem bsum_assigns_cons (n : Nat) (rest : List Nat) (g : List Nat → K) :
    bsum S (assigns (n :: rest)) g
      = bsum S (List.range n) (fun i => bsum S (assigns rest) (fun ρ => g (i :: ρ))) := by
  show bsum S ((List.range n).flatMap _) g = _
  rw [bsum_flatMap hS]
  apply bsum_congr; intro i _
  rw [bsum_map]

theorem bsum_assigns_nil (g : List Nat → K) : bsum S (assigns []) g = g [] := by
  show bsum S [[]] g = _
  rw [bsum_cons hS, bsum_nil, sr_add_zero hS]

theorem bsum_assigns_single (B b : List Nat) (hb : b ∈ assigns B) (g : List Nat → K) :
    bsum S (assigns B) (fun σ => if σ = b then g σ else S.zero) = g b := by
  induction B generalizing b g with
  | nil =>
    have : b = [] := by simpa [assigns] using hb
    subst this
    rw [bsum_assigns_nil hS]; simp
  | cons n B ih =>
    simp only [assigns, List.mem_flatMap, List.mem_range, List.mem_map] at hb
    obtain ⟨j, hj, b', hb', rfl⟩ := hb
    rw [bsum_assigns_cons hS]
    have : ∀ i ∈ List.range n,
        bsum S (assigns B) (fun σ => if i :: σ = j :: b' then g (i :: σ) else S.zero)
          = if (i == j) = true then g (i :: b') else S.zero := by
      intro i _
      by_cases hij : i = j
      · subst hij
        simp only [List.cons.injEq, true_and, beq_self_eq_true, if_true]
        exact ih b' hb' (fun σ => g (i :: σ))
      · have : (i == j) = false := by simpa using hij
        simp only [List.cons.injEq, hij, false_and, if_false, this, Bool.false_eq_true]
        exact bsum_zero hS _
    rw [bsum_congr _ _ _ this, bsum_range_single hS n j hj (fun i => g (i :: b'))]

end bs

/-! ### index tuples -/

theorem foldl_mul_nat (l : List Nat) (a : Nat) : l.foldl (· * ·) a = a * l.foldl (· * ·) 1 := by
  induction l generalizing a with
  | nil => simp
  | cons b l ih => simp only [List.foldl_cons]; rw [ih, ih (1 * b)]; ring

theorem numel_cons (n : Nat) (rest : List Nat) : numel (n :: rest) = n * numel rest := by
  unfold numel; rw [List.foldl_cons, foldl_mul_nat]; ring

theorem mem_assigns {shape a : List Nat} :
    a ∈ assigns shape ↔ List.Forall₂ (· < ·) a shape := by
  induction shape generalizing a with
  | nil => simp [assigns]
  | cons n rest ih =>
    simp only [assigns, List.mem_flatMap, List.mem_range, List.mem_map]
    constructor
    · rintro ⟨i, hi, is, his, rfl⟩
      exact List.Forall₂.cons hi (ih.1 his)
    · intro h
      cases h with
      | cons hi his => exact ⟨_, hi, _, ih.2 his, rfl⟩

theorem mem_assigns_append {A B a b : List Nat} (ha : a ∈ assigns A) (hb : b ∈ assigns B) :
    a ++ b ∈ assigns (A ++ B) := by
  rw [mem_assigns] at *
  exact List.rel_append ha hb

theorem mem_assigns_length {shape a : List Nat} (h : a ∈ assigns shape) : a.length = shape.length :=
  (mem_assigns.1 h).length_eq

theorem flat_lt {shape a : List Nat} (h : List.Forall₂ (· < ·) a shape) :
    flat shape a < numel shape := by
  induction h with
  | nil => simp [flat, numel]
  | @cons i n is rest hi his ih =>
    rw [flat, numel_cons]
    calc i * numel rest + flat rest is < i * numel rest + numel rest := by omega
      _ = (i + 1) * numel rest := by ring
      _ ≤ n * numel rest := Nat.mul_le_mul_right _ hi

theorem length_assigns (shape : List Nat) : (assigns shape).length = numel shape := by
  induction shape with
  | nil => rfl
  | cons n rest ih =>
    rw [numel_cons, assigns]
    have : ∀ m : Nat, ((List.range m).flatMap (fun i => (assigns rest).map (i :: ·))).length = m * numel rest := by
      intro m
      induction m with
      | zero => simp
      | succ m ihm =>
        rw [List.range_succ, List.flatMap_append, List.length_append, ihm]
        simp [ih]; ring
    exact this n

theorem mem_assigns_idx (G : Grammar K) (nodes ρ att : List Nat)
    (hρ : ρ ∈ assigns (G.shapeOf nodes)) (hatt : ∀ v ∈ att, v < nodes.length) :
    att.map (fun v => ρ[v]?.getD 0) ∈ assigns (G.shapeOf (att.map (fun v => nodes[v]?.getD 0))) := by
  rw [mem_assigns] at hρ ⊢
  unfold Grammar.shapeOf at hρ ⊢
  rw [List.map_map, List.forall₂_map_left_iff, List.forall₂_map_right_iff, List.forall₂_same]
  intro v hv
  have hv' := hatt v hv
  rw [List.forall₂_map_right_iff] at hρ
  have hlen := hρ.length_eq
  have := List.Forall₂.get hρ (i := v) (by omega) hv'
  simpa [List.getElem?_eq_getElem hv', List.getElem?_eq_getElem (show v < ρ.length by omega)] using this

theorem map_eraseIdx {α β : Type} (f : α → β) (l : List α) (i : Nat) :
    (l.map f).eraseIdx i = (l.eraseIdx i).map f := by
  induction l generalizing i with
  | nil => rfl
  | cons x l ih =>
    cases i with
    | zero => rfl
    | succ i => simp [ih]

/-! ### the fold of `addOpt`, cell by cell -/

/-- cell `k` of an optional tensor (`none` = zero) -/
def optCell (S : SR K) (o : Option (List K)) (k : Nat) : K :=
  match o with
  | some t => t[k]?.getD S.zero
  | none => S.zero

theorem optCell_addOpt {S : SR K} (hS : SRLaws S) (m k : Nat) (hk : k < m) (acc o : Option (List K))
    (hacc : ∀ t, acc = some t → t.length = m) (ho : ∀ t, o = some t → t.length = m) :
    (∀ t, addOpt S acc o = some t → t.length = m) ∧
      optCell S (addOpt S acc o) k = S.add (optCell S acc k) (optCell S o k) := by
  cases o with
  | none =>
    refine ⟨hacc, ?_⟩
    show optCell S acc k = S.add _ S.zero
    rw [sr_add_zero hS]
  | some t =>
    have ht := ho t rfl
    cases acc with
    | none =>
      refine ⟨ho, ?_⟩
      show optCell S (some t) k = S.add S.zero _
      rw [hS.zero_add]
    | some a =>
      have ha := hacc a rfl
      constructor
      · intro t' h
        have : t' = addT S a t := by
          have : some (addT S a t) = some t' := h
          exact (Option.some.inj this).symm
        rw [this]; simp [addT, ha, ht]
      · show (addT S a t)[k]?.getD S.zero = S.add (a[k]?.getD S.zero) (t[k]?.getD S.zero)
        have hk1 : k < a.length := by omega
        have hk2 : k < t.length := by omega
        simp [addT, List.getElem?_zipWith, List.getElem?_eq_getElem hk1, List.getElem?_eq_getElem hk2]

theorem foldl_addOpt_cell {S : SR K} (hS : SRLaws S) (m k : Nat) (hk : k < m) (ts : List (Option (List K)))
    (hts : ∀ o ∈ ts, ∀ t, o = some t → t.length = m) (acc : Option (List K))
    (hacc : ∀ t, acc = some t → t.length = m) :
    optCell S (ts.foldl (addOpt S) acc) k = S.add (optCell S acc k) (bsum S ts (fun o => optCell S o k)) := by
  induction ts generalizing acc with
  | nil => rw [List.foldl_nil, bsum_nil, sr_add_zero hS]
  | cons o ts ih =>
    have h := optCell_addOpt hS m k hk acc o hacc (hts o (List.mem_cons_self ..))
    rw [List.foldl_cons, ih (fun o' ho' => hts o' (List.mem_cons_of_mem _ ho')) _ h.1, h.2, bsum_cons hS,
      hS.add_assoc]

/-! ### `jacLabel` as a flat sum -/

/-- the `i`-th edge of a rule -/
def edgeAt (r : Rule) (i : Nat) : Nat × List Nat := r.edges[i]?.getD (0, [])

/-- the rule without its `i`-th edge, the edge's nodes kept as extra external nodes -/
def dropEdge (r : Rule) (i : Nat) : Rule := ⟨r.lhs, r.nodes, r.ext ++ (edgeAt r i).2, r.edges.eraseIdx i⟩

/-- the term contributed to `jacLabel … l` by the `i`-th edge of `r` -/
def jacOpt (S : SR K) (G : Grammar K) (x : Val K) (l : Nat) (r : Rule) (i : Nat) : Option (List K) :=
  if (edgeAt r i).1 == l then
    Impl.sumProductEdges S G x (dropEdge r i).nodes (dropEdge r i).edges (dropEdge r i).ext
  else none

theorem edges_getElem? (r : Rule) (i : Nat) (hi : i < r.edges.length) : r.edges[i]? = some (edgeAt r i) := by
  unfold edgeAt
  rw [List.getElem?_eq_getElem hi]; rfl

theorem edgeAt_mem (r : Rule) (i : Nat) (hi : i < r.edges.length) : edgeAt r i ∈ r.edges :=
  List.mem_of_getElem? (edges_getElem? r i hi)

theorem jacLabel_eq (S : SR K) (G : Grammar K) (x : Val K) (X l : Nat) :
    jacLabel S G x X l = ((G.rulesOf X).flatMap (fun r =>
      (List.range r.edges.length).map (jacOpt S G x l r))).foldl (addOpt S) none := by
  unfold jacLabel
  rw [List.foldl_flatMap]
  congr 1
  funext acc r
  rw [List.foldl_map]
  apply List.foldl_ext
  intro acc i hi
  have h := edges_getElem? r i (List.mem_range.1 hi)
  unfold jacOpt jacTerm
  simp only [h]
  split <;> rfl

theorem dropEdge_wf (G : Grammar K) (r : Rule) (hr : RuleWF G r) (i : Nat) (hi : i < r.edges.length) :
    RuleWF G (dropEdge r i) := by
  have he := edgeAt_mem r i hi
  constructor
  · intro v hv
    show v < r.nodes.length
    have hv' : v ∈ r.ext ++ (edgeAt r i).2 := hv
    rcases List.mem_append.1 hv' with h | h
    · exact hr.ext v h
    · exact hr.att _ he v h
  · intro e he'
    exact hr.att e (List.mem_of_mem_eraseIdx he')
  · intro e he'
    exact hr.typed e (List.mem_of_mem_eraseIdx he')
  · intro e he'
    exact hr.labels e (List.mem_of_mem_eraseIdx he')

theorem dropEdge_shape (G : Grammar K) (r : Rule) (hr : RuleWF G r) (i : Nat) (hi : i < r.edges.length) :
    G.shapeOf ((dropEdge r i).ext.map (fun v => (dropEdge r i).nodes[v]?.getD 0))
      = G.shapeOf (r.ext.map (fun v => r.nodes[v]?.getD 0)) ++ G.shapeOf (G.labelType (edgeAt r i).1) := by
  show G.shapeOf ((r.ext ++ (edgeAt r i).2).map (fun v => r.nodes[v]?.getD 0)) = _
  rw [List.map_append, hr.typed _ (edgeAt_mem r i hi)]
  unfold Grammar.shapeOf
  rw [List.map_append]

theorem jacOpt_cell {S : SR K} (hS : SRLaws S) (G : Grammar K) (x : Val K) (r : Rule) (hr : RuleWF G r)
    (sa : List Nat) (hsa : G.shapeOf (r.ext.map (fun v => r.nodes[v]?.getD 0)) = sa)
    (l i : Nat) (hi : i < r.edges.length) (a b : List Nat) (ha : a ∈ assigns sa)
    (hb : b ∈ assigns (G.shapeOf (G.labelType l))) :
    (∀ t, jacOpt S G x l r i = some t → t.length = numel (sa ++ G.shapeOf (G.labelType l))) ∧
    optCell S (jacOpt S G x l r i) (flat (sa ++ G.shapeOf (G.labelType l)) (a ++ b))
      = if (edgeAt r i).1 == l then ruleCell S G x (dropEdge r i) (a ++ b) else S.zero := by
  unfold jacOpt
  by_cases hl : (edgeAt r i).1 = l
  · have hwf := dropEdge_wf G r hr i hi
    have hshape := dropEdge_shape G r hr i hi
    rw [hsa, hl] at hshape
    have hbeq : ((edgeAt r i).1 == l) = true := by simpa using hl
    simp only [hbeq, if_true]
    cases h : Impl.sumProductEdges S G x (dropEdge r i).nodes (dropEdge r i).edges (dropEdge r i).ext with
    | none =>
      refine ⟨fun t ht => (by cases ht), ?_⟩
      show S.zero = _
      symm
      apply ruleCell_zero_of_missing S hS
      intro hall
      have := (sumProductEdges_isSome_iff S G x (dropEdge r i)).2 hall
      rw [h] at this
      simp at this
    | some t =>
      have ht := sumProductEdges_eq_ruleValue S hS G x _ hwf t h
      subst ht
      constructor
      · intro t' ht'
        have : t' = ruleValue S G x (dropEdge r i) := (Option.some.inj ht').symm
        rw [this]
        unfold ruleValue
        rw [List.length_map, length_assigns, hshape]
      · show getT S (ruleValue S G x (dropEdge r i)) (sa ++ G.shapeOf (G.labelType l)) (a ++ b) = _
        unfold ruleValue
        rw [hshape]
        exact getT_assigns_map S _ _ _ (mem_assigns_append ha hb)
  · have hbeq : ((edgeAt r i).1 == l) = false := by simpa using hl
    simp only [hbeq, Bool.false_eq_true, if_false]
    exact ⟨fun t ht => (by cases ht), rfl⟩

/-- the cell `[a ++ b]` of the Jacobian block is the sum over the rules of `X` and their edges labelled `l` of the
specification of the rule without that edge -/
theorem jacLabel_cell {S : SR K} (hS : SRLaws S) (G : Grammar K) (hG : GrammarWF G) (x : Val K) (X l : Nat)
    (a b : List Nat) (ha : a ∈ assigns (G.shapeOf (G.nts[X]?.getD [])))
    (hb : b ∈ assigns (G.shapeOf (G.labelType l))) :
    optCell S (jacLabel S G x X l)
        (flat (G.shapeOf (G.nts[X]?.getD []) ++ G.shapeOf (G.labelType l)) (a ++ b))
      = bsum S (G.rulesOf X) (fun r => bsum S (List.range r.edges.length) (fun i =>
          if (edgeAt r i).1 == l then ruleCell S G x (dropEdge r i) (a ++ b) else S.zero)) := by
  have hrule : ∀ r ∈ G.rulesOf X, RuleWF G r ∧
      G.shapeOf (r.ext.map (fun v => r.nodes[v]?.getD 0)) = G.shapeOf (G.nts[X]?.getD []) := by
    intro r hr
    have := List.mem_filter.1 hr
    have hl : r.lhs = X := by simpa using this.2
    exact ⟨hG.rule r this.1, by rw [hG.ext r this.1, hl]⟩
  have hk := flat_lt (mem_assigns.1 (mem_assigns_append ha hb))
  rw [jacLabel_eq, foldl_addOpt_cell hS _ _ hk _ _ none (by intro t ht; cases ht)]
  · show S.add S.zero _ = _
    rw [hS.zero_add, bsum_flatMap hS]
    apply bsum_congr
    intro r hr
    rw [bsum_map]
    apply bsum_congr
    intro i hi
    obtain ⟨hwf, hsa⟩ := hrule r hr
    exact (jacOpt_cell hS G x r hwf _ hsa l i (List.mem_range.1 hi) a b ha hb).2
  · intro o ho
    rw [List.mem_flatMap] at ho
    obtain ⟨r, hr, ho⟩ := ho
    rw [List.mem_map] at ho
    obtain ⟨i, hi, rfl⟩ := ho
    obtain ⟨hwf, hsa⟩ := hrule r hr
    exact (jacOpt_cell hS G x r hwf _ hsa l i (List.mem_range.1 hi) a b ha hb).1

/-! ### regrouping the product rule by edge label and index tuple -/

theorem term_regroup {S : SR K} (hS : SRLaws S) (G : Grammar K) (x : Val K) (r : Rule) (hr : RuleWF G r)
    (d : Nat → List Nat → K) (a : List Nat) (hal : a.length = r.ext.length) (i : Nat) (hi : i < r.edges.length) :
    bsum S ((assigns (G.shapeOf r.nodes)).filter (fun ρ => r.ext.map (fun v => ρ[v]?.getD 0) == a)) (fun ρ =>
        S.mul (d (edgeAt r i).1 ((edgeAt r i).2.map (fun v => ρ[v]?.getD 0)))
          (S.prod ((r.edges.eraseIdx i).map (fun e => edgeWeight S G x e.1 (e.2.map (fun v => ρ[v]?.getD 0))))))
      = bsum S (List.range (G.T + G.nts.length)) (fun l =>
          bsum S (assigns (G.shapeOf (G.labelType l))) (fun b =>
            S.mul (if (edgeAt r i).1 == l then ruleCell S G x (dropEdge r i) (a ++ b) else S.zero) (d l b))) := by
  have he := edgeAt_mem r i hi
  symm
  have h1 : ∀ l ∈ List.range (G.T + G.nts.length),
      bsum S (assigns (G.shapeOf (G.labelType l))) (fun b =>
        S.mul (if (edgeAt r i).1 == l then ruleCell S G x (dropEdge r i) (a ++ b) else S.zero) (d l b))
      = if (l == (edgeAt r i).1) = true then
          bsum S (assigns (G.shapeOf (G.labelType l))) (fun b =>
            S.mul (ruleCell S G x (dropEdge r i) (a ++ b)) (d l b))
        else S.zero := by
    intro l _
    by_cases h : l = (edgeAt r i).1
    · subst h; simp
    · have h' : ¬ (edgeAt r i).1 = l := fun h' => h h'.symm
      simp [h, h', hS.zero_mul, bsum_zero hS]
  rw [bsum_congr _ _ _ h1, bsum_range_single hS _ _ (hr.labels _ he)
    (fun l => bsum S (assigns (G.shapeOf (G.labelType l))) (fun b =>
      S.mul (ruleCell S G x (dropEdge r i) (a ++ b)) (d l b)))]
  have h2 : ∀ b : List Nat, ruleCell S G x (dropEdge r i) (a ++ b)
      = bsum S (assigns (G.shapeOf r.nodes)) (fun ρ =>
          if ((r.ext ++ (edgeAt r i).2).map (fun v => ρ[v]?.getD 0) == a ++ b) = true then
            S.prod ((r.edges.eraseIdx i).map (fun e => edgeWeight S G x e.1 (e.2.map (fun v => ρ[v]?.getD 0))))
          else S.zero) := by
    intro b
    exact bsum_filter hS _ _ _
  simp only [h2]
  rw [bsum_congr _ _ _ (fun b _ => (bsum_mul_right hS _ _ _).symm), bsum_comm hS, bsum_filter hS]
  apply bsum_congr
  intro ρ hρ
  have hmem : (edgeAt r i).2.map (fun v => ρ[v]?.getD 0) ∈ assigns (G.shapeOf (G.labelType (edgeAt r i).1)) := by
    have := mem_assigns_idx G r.nodes ρ (edgeAt r i).2 hρ (hr.att _ he)
    rw [hr.typed _ he] at this
    exact this
  have h3 : ∀ b ∈ assigns (G.shapeOf (G.labelType (edgeAt r i).1)),
      S.mul (if ((r.ext ++ (edgeAt r i).2).map (fun v => ρ[v]?.getD 0) == a ++ b) = true then
            S.prod ((r.edges.eraseIdx i).map (fun e => edgeWeight S G x e.1 (e.2.map (fun v => ρ[v]?.getD 0))))
          else S.zero) (d (edgeAt r i).1 b)
      = if b = (edgeAt r i).2.map (fun v => ρ[v]?.getD 0) then
          (if (r.ext.map (fun v => ρ[v]?.getD 0) == a) = true then
            S.mul (d (edgeAt r i).1 b)
              (S.prod ((r.edges.eraseIdx i).map (fun e => edgeWeight S G x e.1 (e.2.map (fun v => ρ[v]?.getD 0)))))
           else S.zero)
        else S.zero := by
    intro b _
    rw [List.map_append]
    have hiff : ((r.ext.map (fun v => ρ[v]?.getD 0) ++ (edgeAt r i).2.map (fun v => ρ[v]?.getD 0) == a ++ b) = true)
        ↔ (b = (edgeAt r i).2.map (fun v => ρ[v]?.getD 0) ∧ r.ext.map (fun v => ρ[v]?.getD 0) = a) := by
      rw [beq_iff_eq]
      constructor
      · intro h
        have := List.append_inj h (by rw [List.length_map, hal])
        exact ⟨this.2.symm, this.1⟩
      · rintro ⟨h1, h2⟩
        rw [h2, ← h1]
    by_cases hb : b = (edgeAt r i).2.map (fun v => ρ[v]?.getD 0)
    · by_cases ha : r.ext.map (fun v => ρ[v]?.getD 0) = a
      · have hc := hiff.2 ⟨hb, ha⟩
        have ha' : (r.ext.map (fun v => ρ[v]?.getD 0) == a) = true := by simpa using ha
        rw [if_pos hc, if_pos hb, if_pos ha', hS.mul_comm]
      · have hc : ¬ _ := fun h => ha (hiff.1 h).2
        have ha' : ¬ (r.ext.map (fun v => ρ[v]?.getD 0) == a) = true := by simpa using ha
        rw [if_neg hc, if_pos hb, if_neg ha', hS.zero_mul]
    · have hc : ¬ _ := fun h => hb (hiff.1 h).1
      rw [if_neg hc, if_neg hb, hS.zero_mul]
  rw [bsum_congr _ _ _ h3, bsum_assigns_single hS _ _ hmem
    (fun b => if (r.ext.map (fun v => ρ[v]?.getD 0) == a) = true then
            S.mul (d (edgeAt r i).1 b)
              (S.prod ((r.edges.eraseIdx i).map (fun e => edgeWeight S G x e.1 (e.2.map (fun v => ρ[v]?.getD 0)))))
           else S.zero)]

theorem rule_regroup {S : SR K} (hS : SRLaws S) (G : Grammar K) (x : Val K) (r : Rule) (hr : RuleWF G r)
    (d : Nat → List Nat → K) (a : List Nat) (hal : a.length = r.ext.length) :
    bsum S ((assigns (G.shapeOf r.nodes)).filter (fun ρ => r.ext.map (fun v => ρ[v]?.getD 0) == a)) (fun ρ =>
        bsum S (List.range r.edges.length) (fun i =>
          S.mul (d (edgeAt r i).1 ((edgeAt r i).2.map (fun v => ρ[v]?.getD 0)))
            (S.prod ((r.edges.eraseIdx i).map (fun e => edgeWeight S G x e.1 (e.2.map (fun v => ρ[v]?.getD 0)))))))
      = bsum S (List.range (G.T + G.nts.length)) (fun l =>
          bsum S (assigns (G.shapeOf (G.labelType l))) (fun b =>
            S.mul (bsum S (List.range r.edges.length) (fun i =>
              if (edgeAt r i).1 == l then ruleCell S G x (dropEdge r i) (a ++ b) else S.zero)) (d l b))) := by
  rw [bsum_comm hS,
    bsum_congr _ _ _ (fun i hi => term_regroup hS G x r hr d a hal i (List.mem_range.1 hi)),
    bsum_comm hS]
  apply bsum_congr
  intro l _
  rw [bsum_comm hS]
  apply bsum_congr
  intro b _
  rw [bsum_mul_right hS]

end C03L
