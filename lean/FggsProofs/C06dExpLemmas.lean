/-
Helper lemmas for Props/C06d.lean, part 4: the invariant of the fold of `expansion` (FggsModel/Binary.lean).

`expStep`/`expFold` name the step function and the fold of `expansion` (`expansion_eq` holds by `rfl`).  `ExpInv` is
kept by every step for pairs of virtual axes with the same number of elements: the anti-substitution stays well
formed; every recorded pair is either a generalisation pair created by `antiunify` (size ≠ 1, sub-axes of the
operands) or a broadcast pair `((X_k, f), k)` / `((e, X_k), k)` with `k` of size 1 in `new1` / `new2`; every fresh axis
occurs in some result axis; and every result axis generalises the two operand axes (`GenAt`).
-/
import FggsModel.Binary
import FggsProofs.C06dAntiLemmas
import Mathlib.Data.List.Forall2

set_option linter.unusedSimpArgs false
set_option linter.unusedVariables false

namespace C06dE
open Fggs Fggs.Ax Fggs.Un Fggs.Bn C06b C06cL C06dA

abbrev EAcc := List Axis × List (Nat × Nat) × List (Nat × Nat) × ASt

/-- the step function of the fold of `expansion` -/
def expStep (fuel : Nat) (acc : EAcc) (p : Axis × Axis) : EAcc :=
  if isUnit p.1 && !isUnit p.2 then
    (Axis.phys acc.2.2.2.next p.2.numel :: acc.1, (acc.2.2.2.next, p.2.numel) :: acc.2.1, acc.2.2.1,
      { pairs := acc.2.2.2.pairs ++ [((Axis.phys acc.2.2.2.next p.2.numel, p.2), (acc.2.2.2.next, p.2.numel))],
        next := acc.2.2.2.next + 1 })
  else if isUnit p.2 && !isUnit p.1 then
    (Axis.phys acc.2.2.2.next p.1.numel :: acc.1, acc.2.1, (acc.2.2.2.next, p.1.numel) :: acc.2.2.1,
      { pairs := acc.2.2.2.pairs ++ [((p.1, Axis.phys acc.2.2.2.next p.1.numel), (acc.2.2.2.next, p.1.numel))],
        next := acc.2.2.2.next + 1 })
  else
    ((antiunify fuel p.1 p.2 acc.2.2.2).1 :: acc.1, acc.2.1, acc.2.2.1, (antiunify fuel p.1 p.2 acc.2.2.2).2)

def expFold (fuel : Nat) (t u : PT) (next : Nat) : EAcc :=
  (t.vaxes.zip u.vaxes).reverse.foldl (expStep fuel) ([], [], [], ⟨[], next⟩)

theorem expansion_eq (fuel : Nat) (t u : PT) (next : Nat) :
    expansion fuel t u next =
      { gs := (expFold fuel t u next).2.2.2.pairs.map (·.2), lggs := (expFold fuel t u next).1,
        paxes1 := (expFold fuel t u next).2.1 ++ t.paxes, es := (expFold fuel t u next).2.2.2.pairs.map (·.1.1),
        paxes2 := (expFold fuel t u next).2.2.1 ++ u.paxes, fs := (expFold fuel t u next).2.2.2.pairs.map (·.1.2),
        next := (expFold fuel t u next).2.2.2.next } := by
  rfl

theorem isUnit_iff (e : Axis) : isUnit e = true ↔ e = unitAxis := by
  cases e with
  | prod fs => cases fs <;> simp [isUnit, unitAxis]
  | phys v n => simp [isUnit, unitAxis]
  | sum b t a => simp [isUnit, unitAxis]

/-- the kinds of recorded pairs -/
def Cls (Q1 Q2 : Nat × Nat → Prop) (new1 new2 : List (Nat × Nat)) (p : Pair) : Prop :=
  (p.2.2 ≠ 1 ∧ AxP Q1 p.1.1 ∧ AxP Q2 p.1.2) ∨
  (p.2.2 = 1 ∧ p.1.1 = .phys p.2.1 p.2.2 ∧ p.2 ∈ new1 ∧ AxP Q2 p.1.2) ∨
  (p.2.2 = 1 ∧ p.1.2 = .phys p.2.1 p.2.2 ∧ p.2 ∈ new2 ∧ AxP Q1 p.1.1)

theorem Cls.mono {Q1 Q2 : Nat × Nat → Prop} {new1 new1' new2 new2' : List (Nat × Nat)} {p : Pair}
    (h : Cls Q1 Q2 new1 new2 p) (h1 : ∀ k ∈ new1, k ∈ new1') (h2 : ∀ k ∈ new2, k ∈ new2') :
    Cls Q1 Q2 new1' new2' p := by
  rcases h with h | ⟨a, b, c, d⟩ | ⟨a, b, c, d⟩
  · exact Or.inl h
  · exact Or.inr (Or.inl ⟨a, b, h1 _ c, d⟩)
  · exact Or.inr (Or.inr ⟨a, b, h2 _ c, d⟩)

/-- the result axis `g` generalises the pair `p` of operand axes -/
def GenAt (P : List Pair) (new1 new2 : List (Nat × Nat)) (g : Axis) (p : Axis × Axis) : Prop :=
  g.numel = p.1.numel ∧ (∀ q ∈ g.fv, ∃ x ∈ P, x.2 = q) ∧
  ((∃ k, g = .phys k 1) ∨ ∀ q ∈ g.fv, q.2 ≠ 1) ∧
  (∀ ρ, InRange ρ p.1 → (∀ k ∈ new1, ρ k.1 = 0) → g.eval (lift Prod.fst P ρ) = p.1.eval ρ) ∧
  (∀ ρ, InRange ρ p.2 → (∀ k ∈ new2, ρ k.1 = 0) → g.eval (lift Prod.snd P ρ) = p.2.eval ρ)

theorem GenAt.mono {P more : List Pair} {new1 new1' new2 new2' : List (Nat × Nat)} {g : Axis} {p : Axis × Axis}
    (h : GenAt P new1 new2 g p) (h1 : ∀ k ∈ new1, k ∈ new1') (h2 : ∀ k ∈ new2, k ∈ new2') :
    GenAt (P ++ more) new1' new2' g p := by
  obtain ⟨a, b, c, d, e⟩ := h
  refine ⟨a, ?_, c, ?_, ?_⟩
  · intro q hq
    obtain ⟨x, hx, hxq⟩ := b q hq
    exact ⟨x, List.mem_append_left _ hx, hxq⟩
  · intro ρ hρ hz
    rw [eval_lift_append _ _ _ _ _ b]
    exact d ρ hρ (fun k hk => hz k (h1 k hk))
  · intro ρ hρ hz
    rw [eval_lift_append _ _ _ _ _ b]
    exact e ρ hρ (fun k hk => hz k (h2 k hk))

structure ExpInv (sz : Nat → Nat) (Q1 Q2 : Nat × Nat → Prop) (next0 : Nat) (ps : List (Axis × Axis)) (acc : EAcc) :
    Prop where
  ok : OK acc.2.2.2
  sized : SizedP sz acc.2.2.2.pairs
  nx : next0 ≤ acc.2.2.2.next
  cls : ∀ p ∈ acc.2.2.2.pairs, next0 ≤ p.2.1 ∧ (∃ g ∈ acc.1, p.2 ∈ g.fv) ∧ Cls Q1 Q2 acc.2.1 acc.2.2.1 p
  new1 : ∀ k ∈ acc.2.1, k.2 = 1 ∧ ∃ p ∈ acc.2.2.2.pairs, p.2 = k
  new1nd : (acc.2.1.map (·.1)).Nodup
  new2 : ∀ k ∈ acc.2.2.1, k.2 = 1 ∧ ∃ p ∈ acc.2.2.2.pairs, p.2 = k
  new2nd : (acc.2.2.1.map (·.1)).Nodup
  gen : List.Forall₂ (GenAt acc.2.2.2.pairs acc.2.1 acc.2.2.1) acc.1 ps

/-- what the step needs of a pair of operand axes -/
def PairHyp (sz : Nat → Nat) (Q1 Q2 : Nat × Nat → Prop) (p : Axis × Axis) : Prop :=
  AxP Q1 p.1 ∧ AxP Q2 p.2 ∧ Sized sz p.1 ∧ Sized sz p.2 ∧ p.1.numel = p.2.numel

theorem OK.snoc {st : ASt} (hst : OK st) (x : Axis × Axis) (n : Nat) (h1 : n = x.1.numel)
    (h2 : x.1.numel = x.2.numel) : OK ⟨st.pairs ++ [(x, (st.next, n))], st.next + 1⟩ := by
  refine ⟨?_, ?_, ?_⟩
  · intro p hp
    show p.2.1 < st.next + 1
    simp only [List.mem_append, List.mem_singleton] at hp
    rcases hp with hp | rfl
    · have := hst.ids p hp; omega
    · simp
  · show (List.map (fun p => p.2.1) (st.pairs ++ [(x, (st.next, n))])).Nodup
    rw [List.map_append, List.nodup_append]
    refine ⟨hst.nodup, by simp, ?_⟩
    intro a ha b hb
    simp only [List.map_cons, List.map_nil, List.mem_singleton] at hb
    obtain ⟨p, hp, rfl⟩ := List.mem_map.1 ha
    have := hst.ids p hp
    omega
  · intro p hp
    simp only [List.mem_append, List.mem_singleton] at hp
    rcases hp with hp | rfl
    · exact hst.size p hp
    · exact ⟨h1, h2⟩

theorem lift_snoc_fresh (sel : Axis × Axis → Axis) {st : ASt} (hst : OK st) (x : Axis × Axis) (n : Nat)
    (ρ : Nat → Nat) : lift sel (st.pairs ++ [(x, (st.next, n))]) ρ st.next = (sel x).eval ρ := by
  have hfresh : st.pairs.find? (fun p => p.2.1 == st.next) = none := by
    rw [List.find?_eq_none]
    intro y hy
    have := hst.ids y hy
    simp only [beq_iff_eq]; omega
  unfold lift
  rw [List.find?_append, hfresh]
  simp [List.find?]

section step
variable {sz : Nat → Nat} {Q1 Q2 : Nat × Nat → Prop} {next0 : Nat}

/-- a broadcast step on the left: `e` is the unit axis, `f` has one element -/
theorem inv_broadcast_left (hsz1 : ∀ v, next0 ≤ v → sz v = 1) {ps : List (Axis × Axis)} {lggs : List Axis}
    {new1 new2 : List (Nat × Nat)} {st : ASt} (inv : ExpInv sz Q1 Q2 next0 ps (lggs, new1, new2, st))
    {f : Axis} (hf : AxP Q2 f) (hsf : Sized sz f) (hn : f.numel = 1) :
    ExpInv sz Q1 Q2 next0 ((unitAxis, f) :: ps)
      (Axis.phys st.next f.numel :: lggs, (st.next, f.numel) :: new1, new2,
        { pairs := st.pairs ++ [((Axis.phys st.next f.numel, f), (st.next, f.numel))], next := st.next + 1 }) := by
  have hok : OK st := inv.ok
  have hnx : next0 ≤ st.next := inv.nx
  refine ⟨?_, ?_, ?_, ?_, ?_, ?_, ?_, ?_, ?_⟩
  · exact OK.snoc hok _ _ rfl rfl
  · intro p hp
    have hp' : p ∈ st.pairs ++ [((Axis.phys st.next f.numel, f), (st.next, f.numel))] := hp
    simp only [List.mem_append, List.mem_singleton] at hp'
    rcases hp' with hp' | rfl
    · exact inv.sized p hp'
    · refine ⟨?_, hsf⟩
      intro q hq
      simp only [Axis.fv, List.mem_singleton] at hq
      subst hq
      show f.numel = sz st.next
      rw [hn, hsz1 _ hnx]
  · show next0 ≤ st.next + 1
    omega
  · intro p hp
    have hp' : p ∈ st.pairs ++ [((Axis.phys st.next f.numel, f), (st.next, f.numel))] := hp
    simp only [List.mem_append, List.mem_singleton] at hp'
    rcases hp' with hp' | rfl
    · obtain ⟨a, ⟨g, hg, hpg⟩, c⟩ := inv.cls p hp'
      exact ⟨a, ⟨g, List.mem_cons_of_mem _ hg, hpg⟩, c.mono (fun k hk => List.mem_cons_of_mem _ hk) (fun k hk => hk)⟩
    · refine ⟨hnx, ⟨_, List.mem_cons_self, by simp [Axis.fv]⟩, Or.inr (Or.inl ⟨hn, rfl, List.mem_cons_self, hf⟩)⟩
  · intro k hk
    have hk' : k ∈ (st.next, f.numel) :: new1 := hk
    rcases List.mem_cons.1 hk' with rfl | hk'
    · exact ⟨hn, _, List.mem_append_right _ (List.mem_singleton.2 rfl), rfl⟩
    · obtain ⟨a, p, hp, hpk⟩ := inv.new1 k hk'
      exact ⟨a, p, List.mem_append_left _ hp, hpk⟩
  · show (List.map (·.1) ((st.next, f.numel) :: new1)).Nodup
    rw [List.map_cons, List.nodup_cons]
    refine ⟨?_, inv.new1nd⟩
    intro hin
    obtain ⟨k, hk, hk1⟩ := List.mem_map.1 hin
    obtain ⟨_, p, hp, hpk⟩ := inv.new1 k hk
    have := hok.ids p hp
    rw [hpk] at this
    simp only at hk1
    omega
  · intro k hk
    obtain ⟨a, p, hp, hpk⟩ := inv.new2 k hk
    exact ⟨a, p, List.mem_append_left _ hp, hpk⟩
  · exact inv.new2nd
  · refine List.Forall₂.cons ?_ (List.Forall₂.imp (fun g p h => h.mono (fun k hk => List.mem_cons_of_mem _ hk) (fun k hk => hk)) inv.gen)
    refine ⟨?_, ?_, Or.inl ⟨st.next, by rw [hn]⟩, ?_, ?_⟩
    · show f.numel = unitAxis.numel
      rw [hn, unitAxis_numel]
    · intro q hq
      simp only [Axis.fv, List.mem_singleton] at hq
      exact ⟨_, List.mem_append_right _ (List.mem_singleton.2 rfl), hq.symm⟩
    · intro ρ _ hz
      show (Axis.phys st.next f.numel).eval _ = unitAxis.eval ρ
      rw [Axis.eval, lift_snoc_fresh Prod.fst hok, unitAxis_eval]
      show (Axis.phys st.next f.numel).eval ρ = 0
      rw [Axis.eval]
      exact hz (st.next, f.numel) List.mem_cons_self
    · intro ρ _ _
      show (Axis.phys st.next f.numel).eval _ = f.eval ρ
      rw [Axis.eval, lift_snoc_fresh Prod.snd hok]

/-- a broadcast step on the right -/
theorem inv_broadcast_right (hsz1 : ∀ v, next0 ≤ v → sz v = 1) {ps : List (Axis × Axis)} {lggs : List Axis}
    {new1 new2 : List (Nat × Nat)} {st : ASt} (inv : ExpInv sz Q1 Q2 next0 ps (lggs, new1, new2, st))
    {e : Axis} (he : AxP Q1 e) (hse : Sized sz e) (hn : e.numel = 1) :
    ExpInv sz Q1 Q2 next0 ((e, unitAxis) :: ps)
      (Axis.phys st.next e.numel :: lggs, new1, (st.next, e.numel) :: new2,
        { pairs := st.pairs ++ [((e, Axis.phys st.next e.numel), (st.next, e.numel))], next := st.next + 1 }) := by
  have hok : OK st := inv.ok
  have hnx : next0 ≤ st.next := inv.nx
  refine ⟨?_, ?_, ?_, ?_, ?_, ?_, ?_, ?_, ?_⟩
  · exact OK.snoc hok _ _ rfl rfl
  · intro p hp
    have hp' : p ∈ st.pairs ++ [((e, Axis.phys st.next e.numel), (st.next, e.numel))] := hp
    simp only [List.mem_append, List.mem_singleton] at hp'
    rcases hp' with hp' | rfl
    · exact inv.sized p hp'
    · refine ⟨hse, ?_⟩
      intro q hq
      simp only [Axis.fv, List.mem_singleton] at hq
      subst hq
      show e.numel = sz st.next
      rw [hn, hsz1 _ hnx]
  · show next0 ≤ st.next + 1
    omega
  · intro p hp
    have hp' : p ∈ st.pairs ++ [((e, Axis.phys st.next e.numel), (st.next, e.numel))] := hp
    simp only [List.mem_append, List.mem_singleton] at hp'
    rcases hp' with hp' | rfl
    · obtain ⟨a, ⟨g, hg, hpg⟩, c⟩ := inv.cls p hp'
      exact ⟨a, ⟨g, List.mem_cons_of_mem _ hg, hpg⟩, c.mono (fun k hk => hk) (fun k hk => List.mem_cons_of_mem _ hk)⟩
    · refine ⟨hnx, ⟨_, List.mem_cons_self, by simp [Axis.fv]⟩, Or.inr (Or.inr ⟨hn, rfl, List.mem_cons_self, he⟩)⟩
  · intro k hk
    obtain ⟨a, p, hp, hpk⟩ := inv.new1 k hk
    exact ⟨a, p, List.mem_append_left _ hp, hpk⟩
  · exact inv.new1nd
  · intro k hk
    have hk' : k ∈ (st.next, e.numel) :: new2 := hk
    rcases List.mem_cons.1 hk' with rfl | hk'
    · exact ⟨hn, _, List.mem_append_right _ (List.mem_singleton.2 rfl), rfl⟩
    · obtain ⟨a, p, hp, hpk⟩ := inv.new2 k hk'
      exact ⟨a, p, List.mem_append_left _ hp, hpk⟩
  · show (List.map (·.1) ((st.next, e.numel) :: new2)).Nodup
    rw [List.map_cons, List.nodup_cons]
    refine ⟨?_, inv.new2nd⟩
    intro hin
    obtain ⟨k, hk, hk1⟩ := List.mem_map.1 hin
    obtain ⟨_, p, hp, hpk⟩ := inv.new2 k hk
    have := hok.ids p hp
    rw [hpk] at this
    simp only at hk1
    omega
  · refine List.Forall₂.cons ?_ (List.Forall₂.imp (fun g p h => h.mono (fun k hk => hk) (fun k hk => List.mem_cons_of_mem _ hk)) inv.gen)
    refine ⟨rfl, ?_, Or.inl ⟨st.next, by rw [hn]⟩, ?_, ?_⟩
    · intro q hq
      simp only [Axis.fv, List.mem_singleton] at hq
      exact ⟨_, List.mem_append_right _ (List.mem_singleton.2 rfl), hq.symm⟩
    · intro ρ _ _
      show (Axis.phys st.next e.numel).eval _ = e.eval ρ
      rw [Axis.eval, lift_snoc_fresh Prod.fst hok]
    · intro ρ _ hz
      show (Axis.phys st.next e.numel).eval _ = unitAxis.eval ρ
      rw [Axis.eval, lift_snoc_fresh Prod.snd hok, unitAxis_eval]
      show (Axis.phys st.next e.numel).eval ρ = 0
      rw [Axis.eval]
      exact hz (st.next, e.numel) List.mem_cons_self

/-- an anti-unification step -/
theorem inv_antiunify (fuel : Nat) {ps : List (Axis × Axis)} {lggs : List Axis}
    {new1 new2 : List (Nat × Nat)} {st : ASt} (inv : ExpInv sz Q1 Q2 next0 ps (lggs, new1, new2, st))
    {e f : Axis} (hp : PairHyp sz Q1 Q2 (e, f)) :
    ExpInv sz Q1 Q2 next0 ((e, f) :: ps)
      ((antiunify fuel e f st).1 :: lggs, new1, new2, (antiunify fuel e f st).2) := by
  have hok : OK st := inv.ok
  have hnx0 : next0 ≤ st.next := inv.nx
  obtain ⟨he, hf, hse, hsf, hn⟩ := hp
  have hgen := antiunify_gen sz Q1 Q2 fuel e f st hok inv.sized he hf hse hsf hn
  generalize antiunify fuel e f st = r at hgen ⊢
  obtain ⟨hok', hsz', hnx, ⟨new, hnew, hnewok⟩, hnum, hfv, hL, hR⟩ := hgen
  refine ⟨hok', hsz', Nat.le_trans hnx0 hnx, ?_, ?_, inv.new1nd, ?_, inv.new2nd, ?_⟩
  · intro p hp
    have hp' : p ∈ r.2.pairs := hp
    rw [hnew] at hp'
    rcases List.mem_append.1 hp' with hp' | hp'
    · obtain ⟨a, ⟨g, hg, hpg⟩, c⟩ := inv.cls p hp'
      exact ⟨a, ⟨g, List.mem_cons_of_mem _ hg, hpg⟩, c⟩
    · obtain ⟨⟨a, b, c, d⟩, hocc⟩ := hnewok p hp'
      exact ⟨Nat.le_trans hnx0 b, ⟨_, List.mem_cons_self, hocc⟩, Or.inl ⟨a, c, d⟩⟩
  · intro k hk
    obtain ⟨a, p, hp, hpk⟩ := inv.new1 k hk
    exact ⟨a, p, by show p ∈ r.2.pairs; rw [hnew]; exact List.mem_append_left _ hp, hpk⟩
  · intro k hk
    obtain ⟨a, p, hp, hpk⟩ := inv.new2 k hk
    exact ⟨a, p, by show p ∈ r.2.pairs; rw [hnew]; exact List.mem_append_left _ hp, hpk⟩
  · show List.Forall₂ (GenAt r.2.pairs new1 new2) (r.1 :: lggs) ((e, f) :: ps)
    rw [hnew]
    refine List.Forall₂.cons ?_ (List.Forall₂.imp (fun g p h => h.mono (fun k hk => hk) (fun k hk => hk)) inv.gen)
    rw [← hnew]
    exact ⟨hnum, fun q hq => (hfv q hq).2, Or.inr (fun q hq => (hfv q hq).1), fun ρ hρ _ => hL ρ hρ,
      fun ρ hρ _ => hR ρ hρ⟩

/-- **one step of the fold keeps the invariant** -/
theorem expStep_inv (fuel : Nat) (hsz1 : ∀ v, next0 ≤ v → sz v = 1) {ps : List (Axis × Axis)} {acc : EAcc}
    (inv : ExpInv sz Q1 Q2 next0 ps acc) {p : Axis × Axis} (hp : PairHyp sz Q1 Q2 p) :
    ExpInv sz Q1 Q2 next0 (p :: ps) (expStep fuel acc p) := by
  obtain ⟨lggs, new1, new2, st⟩ := acc
  obtain ⟨e, f⟩ := p
  unfold expStep
  by_cases c1 : (isUnit e && !isUnit f) = true
  · rw [if_pos c1]
    simp only [Bool.and_eq_true] at c1
    have he : e = unitAxis := (isUnit_iff e).1 c1.1
    subst he
    have hn : f.numel = 1 := by rw [← hp.2.2.2.2]; exact unitAxis_numel
    exact inv_broadcast_left hsz1 inv hp.2.1 hp.2.2.2.1 hn
  · rw [if_neg c1]
    by_cases c2 : (isUnit f && !isUnit e) = true
    · rw [if_pos c2]
      simp only [Bool.and_eq_true] at c2
      have hf : f = unitAxis := (isUnit_iff f).1 c2.1
      subst hf
      have hn : e.numel = 1 := by rw [hp.2.2.2.2]; exact unitAxis_numel
      exact inv_broadcast_right hsz1 inv hp.1 hp.2.2.1 hn
    · rw [if_neg c2]
      exact inv_antiunify fuel inv hp

theorem foldl_inv (fuel : Nat) (hsz1 : ∀ v, next0 ≤ v → sz v = 1) : ∀ (todo : List (Axis × Axis))
    (ps : List (Axis × Axis)) (acc : EAcc), ExpInv sz Q1 Q2 next0 ps acc → (∀ p ∈ todo, PairHyp sz Q1 Q2 p) →
    ExpInv sz Q1 Q2 next0 (todo.reverse ++ ps) (todo.foldl (expStep fuel) acc)
  | [], ps, acc, inv, _ => by simpa using inv
  | p :: todo, ps, acc, inv, h => by
    rw [List.foldl_cons, List.reverse_cons, List.append_assoc]
    exact foldl_inv fuel hsz1 todo (p :: ps) _ (expStep_inv fuel hsz1 inv (h p (by simp)))
      (fun q hq => h q (by simp [hq]))

theorem inv_init (next : Nat) : ExpInv sz Q1 Q2 next [] ([], [], [], ⟨[], next⟩) where
  ok := ⟨by simp, by simp, by simp⟩
  sized := by intro p hp; simp at hp
  nx := Nat.le_refl _
  cls := by intro p hp; simp at hp
  new1 := by intro p hp; simp at hp
  new1nd := by simp
  new2 := by intro p hp; simp at hp
  new2nd := by simp
  gen := List.Forall₂.nil

/-- **the fold of `expansion` establishes the invariant for all dimensions** -/
theorem expFold_inv (fuel : Nat) (t u : PT) (next : Nat) (hsz1 : ∀ v, next ≤ v → sz v = 1)
    (h : ∀ p ∈ t.vaxes.zip u.vaxes, PairHyp sz Q1 Q2 p) :
    ExpInv sz Q1 Q2 next (t.vaxes.zip u.vaxes) (expFold fuel t u next) := by
  have := foldl_inv fuel hsz1 (t.vaxes.zip u.vaxes).reverse [] _ (inv_init (sz := sz) (Q1 := Q1) (Q2 := Q2) next)
    (fun p hp => h p (List.mem_reverse.1 hp))
  rw [List.reverse_reverse, List.append_nil] at this
  exact this

end step

/-! ### consequences of `GenAt` for whole lists -/

theorem forall₂_mem_left {α β : Type} {R : α → β → Prop} : ∀ {l1 : List α} {l2 : List β}, List.Forall₂ R l1 l2 →
    ∀ a ∈ l1, ∃ b ∈ l2, R a b
  | _, _, .nil, a, ha => by cases ha
  | _, _, .cons h t, a, ha => by
    rcases List.mem_cons.1 ha with rfl | ha
    · exact ⟨_, List.mem_cons_self, h⟩
    · obtain ⟨b, hb, hr⟩ := forall₂_mem_left t a ha
      exact ⟨b, List.mem_cons_of_mem _ hb, hr⟩

theorem forall₂_map_eq {α β γ : Type} {R : α → β → Prop} (f : α → γ) (g : β → γ) (hR : ∀ a b, R a b → f a = g b) :
    ∀ {l1 : List α} {l2 : List β}, List.Forall₂ R l1 l2 → l1.map f = l2.map g
  | _, _, .nil => rfl
  | _, _, .cons h t => by
    rw [List.map_cons, List.map_cons, hR _ _ h, forall₂_map_eq f g hR t]

/-- `forall₂_map_eq` when the relation gives the equation only for members of the right list -/
theorem forall₂_map_eq' {α β γ : Type} {R : α → β → Prop} (f : α → γ) (g : β → γ) :
    ∀ {l1 : List α} {l2 : List β}, List.Forall₂ R l1 l2 → (∀ a, ∀ b ∈ l2, R a b → f a = g b) → l1.map f = l2.map g
  | _, _, .nil, _ => rfl
  | _, _, .cons h t, hR => by
    rw [List.map_cons, List.map_cons, hR _ _ List.mem_cons_self h,
      forall₂_map_eq' f g t (fun a b hb => hR a b (List.mem_cons_of_mem _ hb))]

theorem zip_map_fst_of_length {α β : Type} : ∀ (l1 : List α) (l2 : List β), l1.length = l2.length →
    (l1.zip l2).map (·.1) = l1
  | [], [], _ => rfl
  | [], _ :: _, h => by simp at h
  | _ :: _, [], h => by simp at h
  | a :: l1, b :: l2, h => by
    rw [List.zip_cons_cons, List.map_cons, zip_map_fst_of_length l1 l2 (by simpa using h)]

theorem zip_map_snd_of_length {α β : Type} : ∀ (l1 : List α) (l2 : List β), l1.length = l2.length →
    (l1.zip l2).map (·.2) = l2
  | [], [], _ => rfl
  | [], _ :: _, h => by simp at h
  | _ :: _, [], h => by simp at h
  | a :: l1, b :: l2, h => by
    rw [List.zip_cons_cons, List.map_cons, zip_map_snd_of_length l1 l2 (by simpa using h)]

theorem zip_numel_eq : ∀ (l1 l2 : List Axis), l1.map Axis.numel = l2.map Axis.numel →
    ∀ p ∈ l1.zip l2, p.1.numel = p.2.numel
  | [], _, _, p, hp => by simp at hp
  | _ :: _, [], _, p, hp => by simp at hp
  | a :: l1, b :: l2, h, p, hp => by
    simp only [List.map_cons, List.cons.injEq] at h
    rw [List.zip_cons_cons] at hp
    rcases List.mem_cons.1 hp with rfl | hp
    · exact h.1
    · exact zip_numel_eq l1 l2 h.2 p hp

end C06dE
