/-
C13bSizeLemmas — unification introduces no physical axis of size 1: the fresh axes made by the split branches of
`unifyProd` have size `n / m` with `m < n`, `m ∣ n`, hence at least 2.  (`C06b.Run.preserves` cannot be used: its
`QOk.fresh` asks the predicate of a fresh axis of ANY non-zero size.)
-/
import FggsModel.Unify
import FggsProofs.C06bLemmas
import Mathlib.Tactic.Linarith
import Mathlib.Data.List.Basic

set_option linter.unusedSimpArgs false
set_option linter.unusedVariables false

namespace C13bL
open Fggs Fggs.Ax Fggs.Un C06b

/-- no physical axis of size 1 occurs in `a` -/
def No1 (a : Axis) : Prop := ∀ q ∈ a.fv, q.2 ≠ 1

/-- … nor in the right-hand side of a binding -/
def No1S (σ : Subst) : Prop := ∀ p ∈ σ, No1 p.2

/-- the predicate "size ≠ 1" on (identity, size) pairs, independent of the counter -/
def Q1 : Nat → Nat × Nat → Prop := fun _ p => p.2 ≠ 1

theorem div_ne_one_of {m n : Nat} (hlt : m < n) (hd : n % m = 0) : n / m ≠ 1 := by
  intro h
  have h1 := Nat.div_add_mod n m
  rw [h, hd] at h1
  omega

theorem AxQ1.mono {a b : Nat} {x : Axis} (h : AxQ Q1 a x) : AxQ Q1 b x :=
  fun q hq => h q hq

theorem GoalQ1.mono {a b : Nat} {g : Goal} (h : GoalQ Q1 a g) : GoalQ Q1 b g := by
  cases g with
  | u e f => exact ⟨AxQ1.mono h.1, AxQ1.mono h.2⟩
  | p es fs => exact ⟨fun x hx => AxQ1.mono (h.1 x hx), fun x hx => AxQ1.mono (h.2 x hx)⟩
  | n xs => exact fun x hx => AxQ1.mono (h x hx)

theorem StQ1.fresh {st : St} (h : StQ Q1 st) : StQ Q1 st.fresh := by
  intro p hp
  obtain ⟨⟨n, h1⟩, h2⟩ := h p hp
  exact ⟨⟨n, h1⟩, AxQ1.mono h2⟩

theorem AxQ1.split {nx nx' q : Nat} {x : Axis} (hq : q ≠ 1) (hx : AxQ Q1 nx x) :
    AxQ Q1 nx' (productAxis [.phys nx q, x]) := by
  intro p hp
  obtain ⟨f, hf, hpf⟩ := (mem_fv_productAxis _).1 hp
  simp only [List.mem_cons, List.not_mem_nil, or_false] at hf
  rcases hf with hf | hf
  · rw [hf] at hpf
    simp only [Axis.fv, List.mem_singleton] at hpf
    rw [hpf]; exact hq
  · rw [hf] at hpf
    exact hx p hpf

theorem AxQ1.freshAx {nx nx' q : Nat} (hq : q ≠ 1) : AxQ Q1 nx' (.phys nx q) := by
  intro p hp
  simp only [Axis.fv, List.mem_singleton] at hp
  rw [hp]; exact hq

/-- `C06b.Run.preserves` for the predicate `Q1` (which does not satisfy `QOk.fresh`) -/
theorem Run.preserves1 {g : Goal} {st st' : St} (h : Run g st st') :
    StQ Q1 st → GoalQ Q1 st.next g → StQ Q1 st' := by
  induction h with
  | same _ _ _ => exact fun hst _ => hst
  | zero _ _ _ => exact fun hst _ => hst
  | prod he hf _ ih =>
    intro hst hg
    refine ih hst ⟨fun x hx => (he.axQ hst hg.1).prod x (by simpa using hx),
      fun x hx => (hf.axQ hst hg.2).prod x (by simpa using hx)⟩
  | prodSum he hf _ ih =>
    intro hst hg
    refine ih hst ⟨fun x hx => (he.axQ hst hg.1).prod x (by simpa using hx), fun x hx => ?_⟩
    simp only [List.mem_singleton] at hx
    rw [hx]; exact hf.axQ hst hg.2
  | sumProd he hf _ ih =>
    intro hst hg
    refine ih hst ⟨fun x hx => ?_, fun x hx => (hf.axQ hst hg.2).prod x (by simpa using hx)⟩
    simp only [List.mem_singleton] at hx
    rw [hx]; exact he.axQ hst hg.1
  | sum he hf _ ih =>
    intro hst hg
    exact ih hst ⟨(he.axQ hst hg.1).sum, (hf.axQ hst hg.2).sum⟩
  | bindL he hf =>
    intro hst hg
    exact hst.bind (he.axQ hst hg.1) (hf.axQ hst hg.2)
  | bindR he hf =>
    intro hst hg
    exact hst.bind (hf.axQ hst hg.2) (he.axQ hst hg.1)
  | unitL he hf _ ih =>
    intro hst hg
    exact ih hst ⟨AxQ.unit, (hf.axQ hst hg.2).sum⟩
  | unitR he hf _ ih =>
    intro hst hg
    exact ih hst ⟨AxQ.unit, (he.axQ hst hg.1).sum⟩
  | pEq hmn h1 h2 ih1 ih2 =>
    intro hst hg
    have hst1 := ih1 hst ⟨hg.1 _ (by simp), hg.2 _ (by simp)⟩
    refine ih2 hst1 (GoalQ1.mono (g := .p _ _)
      ⟨fun x hx => hg.1 x (by simp [hx]), fun x hx => hg.2 x (by simp [hx])⟩)
  | pUnitR hn h1 h2 ih1 ih2 =>
    intro hst hg
    have hst1 := ih1 hst ⟨hg.2 _ (by simp), AxQ.unit⟩
    refine ih2 hst1 (GoalQ1.mono (g := .p _ _) ⟨hg.1, fun x hx => hg.2 x (by simp [hx])⟩)
  | pUnitL hm h1 h2 ih1 ih2 =>
    intro hst hg
    have hst1 := ih1 hst ⟨hg.1 _ (by simp), AxQ.unit⟩
    refine ih2 hst1 (GoalQ1.mono (g := .p _ _) ⟨fun x hx => hg.1 x (by simp [hx]), hg.2⟩)
  | @pLt e9 f9 es fs st st1 st' hlt hd h1 h2 ih1 ih2 =>
    intro hst hg
    have hq := div_ne_one_of hlt hd
    have hst1 := ih1 (StQ1.fresh hst)
      ⟨AxQ1.mono (hg.2 _ (by simp)), AxQ1.split hq (hg.1 _ (by simp))⟩
    refine ih2 hst1 ⟨fun x hx => AxQ1.mono (hg.1 x (by simp [hx])), fun x hx => ?_⟩
    simp only [List.mem_cons] at hx
    rcases hx with rfl | hx
    · exact AxQ1.freshAx hq
    · exact AxQ1.mono (hg.2 x (by simp [hx]))
  | @pGt e9 f9 es fs st st1 st' hlt hd h1 h2 ih1 ih2 =>
    intro hst hg
    have hq := div_ne_one_of hlt hd
    have hst1 := ih1 (StQ1.fresh hst)
      ⟨AxQ1.mono (hg.1 _ (by simp)), AxQ1.split hq (hg.2 _ (by simp))⟩
    refine ih2 hst1 ⟨fun x hx => ?_, fun x hx => AxQ1.mono (hg.2 x (by simp [hx]))⟩
    simp only [List.mem_cons] at hx
    rcases hx with rfl | hx
    · exact AxQ1.freshAx hq
    · exact AxQ1.mono (hg.1 x (by simp [hx]))
  | pEnd _ _ ih =>
    intro hst hg
    refine ih hst (fun x hx => ?_)
    simp only [List.mem_append, List.mem_reverse] at hx
    rcases hx with hx | hx
    · exact hg.1 x hx
    · exact hg.2 x hx
  | nNil => exact fun hst _ => hst
  | nCons h1 h2 ih1 ih2 =>
    intro hst hg
    have hst1 := ih1 hst ⟨hg _ (by simp), AxQ.unit⟩
    exact ih2 hst1 (fun x hx => AxQ1.mono (hg x (by simp [hx])))

theorem RunAll.preserves1 {ps : List (Axis × Axis)} {st st' : St}
    (h : RunAll ps st st') : StQ Q1 st → PairsQ Q1 st.next ps → StQ Q1 st' := by
  induction h with
  | nil => exact fun hst _ => hst
  | @cons e f rest st st1 st' h1 h2 ih =>
    intro hst hp
    have hst1 := Run.preserves1 h1 hst (hp (e, f) (by simp))
    exact ih hst1 (fun p hp' =>
      ⟨AxQ1.mono (hp p (by simp [hp'])).1, AxQ1.mono (hp p (by simp [hp'])).2⟩)

theorem no1_iff_axQ1 {nx : Nat} {a : Axis} : No1 a ↔ AxQ Q1 nx a := Iff.rfl

theorem runAll_no1 {ps : List (Axis × Axis)} {st st' : St} (h : RunAll ps st st') (hst : No1S st.subst)
    (hp : ∀ p ∈ ps, No1 p.1 ∧ No1 p.2) : No1S st'.subst := by
  have hst0 : StQ Q1 st := fun p hp' =>
    ⟨⟨0, (by decide : (0 : Nat) ≠ 1)⟩, fun q hq => hst p hp' q hq⟩
  have hp0 : PairsQ Q1 st.next ps := fun p hp' =>
    ⟨fun q hq => (hp p hp').1 q hq, fun q hq => (hp p hp').2 q hq⟩
  have h' := RunAll.preserves1 h hst0 hp0
  exact fun p hp' q hq => (h' p hp').2 q hq

/-- **no axis of size 1 is introduced by `unifyAll`** -/
theorem unifyAll_no1 {fuel : Nat} {ps : List (Axis × Axis)} {st st' : St}
    (h : unifyAll fuel ps st = (true, st')) (hst : No1S st.subst)
    (hp : ∀ p ∈ ps, No1 p.1 ∧ No1 p.2) : No1S st'.subst :=
  runAll_no1 (runAll_of_unifyAll h) hst hp

end C13bL
