/-
Helper lemmas for Props/C14b.lean: the tensor `json_to_weights` passes to the constructor for a plain nested list
(`nestedRaw`): one bare fresh physical axis per dimension; it satisfies `NormOK` and its dense tensor is the list.
-/
import FggsModel.JsonWeights
import FggsProofs.C06dBaseLemmas
import FggsProofs.C06dSideLemmas
import Mathlib.Tactic.Linarith
import Mathlib.Data.List.Basic
import Mathlib.Data.List.Nodup
import Mathlib.Data.List.Forall2

set_option linter.unusedSimpArgs false
set_option linter.unusedVariables false

namespace C14bL
open Fggs Fggs.Ax Fggs.Un Fggs.Bn Fggs.Jw C06dL

/-- the tensor `json_to_weights` passes to the constructor for a plain nested list -/
def nestedRaw (shape : List Nat) (flat : List Ext) (next : Nat) : PT :=
  { physical := flat, paxes := shape.zipIdx.map (fun (p : Nat × Nat) => (next + p.2, p.1)),
    vaxes := shape.zipIdx.map (fun (p : Nat × Nat) => Axis.phys (next + p.2) p.1), default := Ext.fin 0 }

theorem fromNested_eq (shape : List Nat) (fl : List Ext) (next : Nat) :
    fromNested shape fl next = normalize (nestedRaw shape fl next) := rfl

theorem nestedRaw_sizes (shape : List Nat) (fl : List Ext) (next : Nat) :
    (nestedRaw shape fl next).paxes.map (·.2) = shape := by
  unfold nestedRaw
  simp only [List.map_map]
  have : ((fun x : Nat × Nat => x.2) ∘ fun x : Nat × Nat => (next + x.2, x.1)) = Prod.fst := rfl
  rw [this, List.zipIdx_map_fst]

theorem nestedRaw_normOK (shape : List Nat) (fl : List Ext) (next : Nat) (hl : fl.length = numel shape) :
    NormOK (nestedRaw shape fl next) where
  len := by rw [nestedRaw_sizes]; exact hl
  nodup := by
    unfold nestedRaw
    simp only [List.map_map]
    have : ((fun x : Nat × Nat => x.1) ∘ fun x : Nat × Nat => (next + x.2, x.1)) = (fun i => next + i) ∘ Prod.snd := rfl
    rw [this, ← List.map_map, List.zipIdx_map_snd]
    exact List.Nodup.map (fun a b hab => by simpa using hab) (List.nodup_range' 1)
  fvsub := by
    intro e he q hq
    obtain ⟨x, hx, rfl⟩ := List.mem_map.1 he
    simp only [Axis.fv, List.mem_singleton] at hq
    subst hq
    exact List.mem_map.2 ⟨x, hx, rfl⟩
  occ := by
    intro p hp
    obtain ⟨x, hx, rfl⟩ := List.mem_map.1 hp
    exact ⟨_, List.mem_map.2 ⟨x, hx, rfl⟩, by simp [Axis.fv]⟩
  top := by
    intro g hg
    obtain ⟨x, hx, rfl⟩ := List.mem_map.1 hg
    by_cases h1 : x.1 = 1
    · left; exact ⟨next + x.2, by simp [h1]⟩
    · right
      intro q hq
      simp only [Axis.fv, List.mem_singleton] at hq
      subst hq
      exact h1

theorem nestedRaw_vshape (shape : List Nat) (fl : List Ext) (next : Nat) : (nestedRaw shape fl next).vshape = shape := by
  unfold nestedRaw PT.vshape
  simp only [List.map_map]
  have : (Axis.numel ∘ fun x : Nat × Nat => Axis.phys (next + x.2) x.1) = Prod.fst := by
    funext x; simp [Axis.numel]
  rw [this, List.zipIdx_map_fst]

/-- reading the index tuple `c` back along the positions of `shape` -/
theorem zipIdx_map_read (shape c : List Nat) (hl : c.length = shape.length) :
    shape.zipIdx.map (fun (p : Nat × Nat) => c[p.2]?.getD 0) = c := by
  apply List.ext_getElem
  · simp [hl]
  · intro i h1 h2
    simp only [List.getElem_map, List.getElem_zipIdx, Nat.zero_add]
    rw [List.getElem?_eq_getElem h2]
    rfl

/-- the assignment of the fresh axes that reads the index tuple `c` -/
def readEnv (next : Nat) (c : List Nat) : Nat → Nat := fun v => c[v - next]?.getD 0

theorem readEnv_add (next : Nat) (c : List Nat) (i : Nat) : readEnv next c (next + i) = c[i]?.getD 0 := by
  unfold readEnv
  rw [Nat.add_sub_cancel_left]

theorem nestedRaw_pidx (shape : List Nat) (fl : List Ext) (next : Nat) (c : List Nat) (hl : c.length = shape.length) :
    pidx (nestedRaw shape fl next).paxes (readEnv next c) = c := by
  unfold pidx nestedRaw
  simp only [List.map_map]
  have : ((fun p : Nat × Nat => readEnv next c p.1) ∘ fun x : Nat × Nat => (next + x.2, x.1)) =
      fun (p : Nat × Nat) => c[p.2]?.getD 0 := by
    funext x
    simp only [Function.comp, readEnv_add]
  rw [this, zipIdx_map_read shape c hl]

theorem nestedRaw_eval (shape : List Nat) (fl : List Ext) (next : Nat) (c : List Nat) (hl : c.length = shape.length) :
    (nestedRaw shape fl next).vaxes.map (Axis.eval (readEnv next c)) = c := by
  unfold nestedRaw
  simp only [List.map_map]
  have : (Axis.eval (readEnv next c) ∘ fun x : Nat × Nat => Axis.phys (next + x.2) x.1) =
      fun (p : Nat × Nat) => c[p.2]?.getD 0 := by
    funext x
    simp only [Function.comp, Axis.eval, readEnv_add]
  rw [this, zipIdx_map_read shape c hl]

theorem nestedRaw_backs (shape : List Nat) (fl : List Ext) (next : Nat) (c : List Nat) (hc : c ∈ assigns shape) :
    Backs (nestedRaw shape fl next) c (readEnv next c) := by
  have hl := mem_assigns_length hc
  refine ⟨?_, nestedRaw_eval shape fl next c hl⟩
  have h1 : pidx (nestedRaw shape fl next).paxes (readEnv next c) ∈
      assigns ((nestedRaw shape fl next).paxes.map (·.2)) := by
    rw [nestedRaw_pidx shape fl next c hl, nestedRaw_sizes]; exact hc
  rw [mem_assigns_iff] at h1
  unfold pidx at h1
  rw [List.forall₂_map_left_iff, List.forall₂_map_right_iff, List.forall₂_same] at h1
  exact h1

/-- **the dense tensor of the raw tensor is the list** -/
theorem nestedRaw_dense (shape : List Nat) (fl : List Ext) (next : Nat) (hl : fl.length = numel shape) :
    (nestedRaw shape fl next).dense = fl := by
  have hN := nestedRaw_normOK shape fl next hl
  have hs : Sem (nestedRaw shape fl next) := sem_of_occ hN.nodup hN.fvsub hN.occ
  have hv := nestedRaw_vshape shape fl next
  apply list_ext_flat shape
  · rw [length_dense, hv]
  · exact hl
  intro c hc
  have hb := nestedRaw_backs shape fl next c hc
  have h1 := dense_backed hs hb
  rw [hv] at h1
  rw [h1, nestedRaw_pidx shape fl next c (mem_assigns_length hc), nestedRaw_sizes]
  have hlt : flat shape c < fl.length := by rw [hl]; exact flat_lt hc
  show some (fl[flat shape c]?.getD (Ext.fin 0)) = fl[flat shape c]?
  rw [List.getElem?_eq_getElem hlt]
  rfl

theorem fromNested_spec (shape : List Nat) (fl : List Ext) (next : Nat) (hl : fl.length = numel shape) :
    (fromNested shape fl next).wf = true ∧ (fromNested shape fl next).vshape = shape ∧
    (fromNested shape fl next).dense = fl := by
  obtain ⟨h1, h2, h3⟩ := normalize_spec (nestedRaw_normOK shape fl next hl)
  rw [← fromNested_eq] at h1 h2 h3
  rw [nestedRaw_vshape] at h2
  rw [nestedRaw_dense shape fl next hl] at h3
  exact ⟨h1, h2, h3⟩

end C14bL
