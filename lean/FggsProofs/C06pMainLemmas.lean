/-
C06pMainLemmas — the copy loop of `PatternedTensor.project(paxes, vaxes)` (model `Pj.projectPT`), cell by cell.

The requested pattern `{paxes, vaxes}` is seen as a patterned tensor `target`; when every requested physical axis occurs
in a requested virtual axis it is a pattern in the sense of `C06pL.Pat` (it need not be a well-formed tensor: a physical
axis may have size 1), and the pair (tensor, target) is a pair of operands in the sense of `C06pL.Ops'`: the facts proved
for the overlap that `Eq.compareImpl` enumerates (C06pOverlapLemmas, the copy of C13bMainLemmas for patterns: the
assignments of the free axes under the unifier enumerate exactly the pairs of positions backing one cell,
`Succ'.pairs_mem`; both sides have the same free axes, `Succ'.projectOnto_some`) apply with the two operands exchanged
(`project` builds the list of free axes from the TARGET here).  What is added: the addresses of the two strided views
(C06pFoldLemmas) and the fold of `setIfInBounds`.
-/
import FggsModel.ProjectPT
import FggsProofs.C13bMainLemmas
import FggsProofs.C06pOverlapLemmas
import FggsProofs.C06pFoldLemmas
import Mathlib.Tactic.Linarith
import Mathlib.Data.List.Basic
import Mathlib.Data.List.Nodup

set_option linter.unusedSimpArgs false
set_option linter.unusedVariables false

namespace C06pL
open Fggs Fggs.Ax Fggs.Un Fggs.Sd Fggs.Eq Fggs.Pj C06b C06dL C07bL C13bL

/-- the requested pattern as a patterned tensor -/
def target (t : PT) (paxes : List (Nat × Nat)) (vaxes : List Axis) : PT :=
  { physical := List.replicate (numel (paxes.map (·.2))) t.default, paxes := paxes, vaxes := vaxes, default := t.default }

/-- the request: `C06p.RequestOK` with the structural part of `wf`, and the extra hypothesis `cover` -/
structure Req (t : PT) (paxes : List (Nat × Nat)) (vaxes : List Axis) (next : Nat) : Prop where
  st : Struct t
  post : ∀ p ∈ t.paxes, 0 < p.2
  posp : ∀ p ∈ paxes, 0 < p.2
  nodup : (paxes.map (·.1)).Nodup
  fvsub : ∀ e ∈ vaxes, ∀ q ∈ e.fv, q ∈ paxes
  shape : vaxes.map Axis.numel = t.vshape
  disj : ∀ p ∈ t.paxes, ∀ q ∈ paxes, p.1 ≠ q.1
  below : ∀ p ∈ t.paxes ++ paxes, p.1 < next
  cover : ∀ q ∈ paxes, ∃ e ∈ vaxes, q ∈ e.fv

section
variable {t : PT} {paxes : List (Nat × Nat)} {vaxes : List Axis} {next : Nat}

theorem Req.patU (h : Req t paxes vaxes next) : Pat (target t paxes vaxes) :=
  ⟨h.nodup, h.fvsub, h.cover⟩

theorem Req.ops (h : Req t paxes vaxes next) : Ops' t (target t paxes vaxes) next :=
  ⟨Pat.of_struct h.st, h.patU, h.post, h.posp, h.disj, h.below⟩

theorem Req.ops' (h : Req t paxes vaxes next) : Ops' (target t paxes vaxes) t next :=
  ⟨h.patU, Pat.of_struct h.st, h.posp, h.post, fun p hp q hq e => h.disj q hq p hp e.symm, fun p hp => h.below p (by
    rcases List.mem_append.1 hp with hp | hp
    · exact List.mem_append_right _ hp
    · exact List.mem_append_left _ hp)⟩

end

/-- the facts about a successful unification do not depend on the order of the operands -/
theorem succ_swap {t u : PT} {next : Nat} {st : St} {sz : Nat → Nat} (S : Succ' t u next st sz) :
    Succ' u t next st sz :=
  ⟨S.sized, S.le, fun k hk => S.szt k (by
      rcases List.mem_append.1 hk with hk | hk
      · exact List.mem_append_right _ hk
      · exact List.mem_append_left _ hk),
    fun τ hs => (S.sound τ hs).symm,
    fun ρ h1 h2 he => S.mgu ρ h2 h1 he.symm, S.nodup, S.good, S.reachU, S.reachT⟩

/-- the copy loop of `projectPT` -/
def copyOut (t : PT) (n : Nat) (r : View × List (Nat × Nat)) (w : View) : List Ext :=
  ((assigns (r.2.map (·.2))).foldl (fun (arr : Array Ext) (idx : List Nat) =>
    arr.setIfInBounds (r.1.addr idx) (t.physical[w.addr idx]?.getD t.default))
    (List.replicate n t.default).toArray).toList

theorem copyOut_length (t : PT) (n : Nat) (r : View × List (Nat × Nat)) (w : View) : (copyOut t n r w).length = n := by
  unfold copyOut
  rw [Array.length_toList, fold_size]
  simp

/-- the cell of the dense tensor of a tensor with duplicate-free, in-range keys -/
theorem cell_eq_valueAt {T : PT} (hT : Sem T) {c : List Nat} (hc : c ∈ assigns T.vshape) :
    T.dense[flat T.vshape c]?.getD T.default = valueAt T c := by
  rw [dense_cell_keys T hT.keys_nodup hT.keys_range c hc]
  rfl

/-- **the copy loop, cell by cell**: after a successful, fully resolved unification `projectOnto` does not raise and
every element of the result is the value of the tensor at the cell the requested pattern denotes -/
theorem copy_cells {t : PT} {paxes : List (Nat × Nat)} {vaxes : List Axis} {next : Nat} {st : St} {sz : Nat → Nat}
    (h : Req t paxes vaxes next) (S : Succ' t (target t paxes vaxes) next st sz) :
    ∃ w, projectOnto (contiguous (t.paxes.map (·.2)))
        (project (contiguous (paxes.map (·.2))) (paxes.map (fun k => Axis.phys k.1 k.2)) st.subst).2
        (t.paxes.map (fun k => Axis.phys k.1 k.2)) st.subst = some w ∧
      ∀ idx ∈ assigns (paxes.map (·.2)),
        (copyOut t (numel (paxes.map (·.2)))
          (project (contiguous (paxes.map (·.2))) (paxes.map (fun k => Axis.phys k.1 k.2)) st.subst) w)[
            flat (paxes.map (·.2)) idx]? = some (valueAt t (vaxes.map (Axis.eval (envOf paxes idx)))) := by
  have O' := h.ops'
  have S' := succ_swap S
  have FA := S'.freeAx O'
  obtain ⟨w, hw⟩ := S'.projectOnto_some O'
  refine ⟨w, hw, ?_⟩
  intro idx hidx
  -- the fold in terms of the pairs of positions
  have hfold : copyOut t (numel (paxes.map (·.2)))
      (project (contiguous (paxes.map (·.2))) (paxes.map (fun k => Axis.phys k.1 k.2)) st.subst) w =
      ((assigns ((subaxes (target t paxes vaxes) st.subst).map (·.2))).foldl (fun (arr : Array Ext) (x : List Nat) =>
        arr.setIfInBounds (ppos st.subst (target t paxes vaxes) (envOf (subaxes (target t paxes vaxes) st.subst) x))
          (t.physical[ppos st.subst t (envOf (subaxes (target t paxes vaxes) st.subst) x)]?.getD t.default))
        (List.replicate (numel (paxes.map (·.2))) t.default).toArray).toList := by
    unfold copyOut
    congr 1
    apply fold_congr
    intro x hx
    have hl : x.length = (subaxes (target t paxes vaxes) st.subst).length := by
      rw [mem_assigns_length hx, List.length_map]; rfl
    constructor
    · exact project_addr_ppos st.subst (target t paxes vaxes) x hl
    · rw [projectOnto_addr_ppos st.subst t _ FA.nodup hw x hl]
  rw [hfold, Array.getElem?_toList]
  -- the cell of the target
  have hi : flat (paxes.map (·.2)) idx < (target t paxes vaxes).cells.length := by
    rw [cells_length]; exact flat_lt hidx
  have hci : (target t paxes vaxes).cells[flat (paxes.map (·.2)) idx]? =
      some (vaxes.map (Axis.eval (envOf paxes idx)),
        (target t paxes vaxes).physical[flat (paxes.map (·.2)) idx]?.getD t.default) :=
    cells_at_flat (target t paxes vaxes) hidx
  obtain ⟨_, hci'⟩ := List.getElem?_eq_some_iff.1 hci
  have hkeyU : ((target t paxes vaxes).cells[flat (paxes.map (·.2)) idx]).1 =
      vaxes.map (Axis.eval (envOf paxes idx)) := by rw [hci']
  have hsize : flat (paxes.map (·.2)) idx <
      ((List.replicate (numel (paxes.map (·.2))) t.default).toArray).size := by
    simpa using flat_lt hidx
  -- every enumerated assignment that addresses this position reads a position of `t` backing the cell
  have hread : ∀ x ∈ assigns ((subaxes (target t paxes vaxes) st.subst).map (·.2)),
      ppos st.subst (target t paxes vaxes) (envOf (subaxes (target t paxes vaxes) st.subst) x) =
        flat (paxes.map (·.2)) idx →
      ∃ (hj : ppos st.subst t (envOf (subaxes (target t paxes vaxes) st.subst) x) < t.cells.length),
        (t.cells[ppos st.subst t (envOf (subaxes (target t paxes vaxes) st.subst) x)]).1 =
          vaxes.map (Axis.eval (envOf paxes idx)) := by
    intro x hx e
    have hm : (flat (paxes.map (·.2)) idx, ppos st.subst t (envOf (subaxes (target t paxes vaxes) st.subst) x)) ∈
        pairs st.subst (target t paxes vaxes) t (subaxes (target t paxes vaxes) st.subst) :=
      List.mem_map.2 ⟨x, hx, by rw [e]⟩
    obtain ⟨_, hj, hk⟩ := (S'.pairs_mem O' FA _ _).1 hm
    exact ⟨hj, hk.symm.trans hkeyU⟩
  by_cases hc : vaxes.map (Axis.eval (envOf paxes idx)) ∈ keys t
  · -- backed: the position of `t` is unique
    obtain ⟨p, hp, hpc⟩ := List.mem_map.1 hc
    obtain ⟨j, hj, hjp⟩ := List.getElem_of_mem hp
    have hval : valueAt t (vaxes.map (Axis.eval (envOf paxes idx))) = t.physical[j]?.getD t.default := by
      rw [← hpc, valueAt_of_mem t h.st.sem.keys_nodup p hp]
      have := cells_getElem? t j
      rw [List.getElem?_eq_getElem hj, hjp] at this
      cases ha : (assigns (t.paxes.map (·.2)))[j]? with
      | none => rw [ha] at this; simp at this
      | some a =>
        rw [ha] at this
        simp only [Option.map_some, Option.some.injEq] at this
        rw [this]
    rw [hval]
    apply fold_same
    · intro x hx e
      obtain ⟨hj', hk'⟩ := hread x hx e
      have : ppos st.subst t (envOf (subaxes (target t paxes vaxes) st.subst) x) = j := by
        apply key_inj t.cells h.st.sem.keys_nodup _ _ hj' hj
        rw [hk', hjp, hpc]
      rw [this]
    · exact hsize
    · right
      have hm : (flat (paxes.map (·.2)) idx, j) ∈
          pairs st.subst (target t paxes vaxes) t (subaxes (target t paxes vaxes) st.subst) :=
        (S'.pairs_mem O' FA _ _).2 ⟨hi, hj, by rw [hkeyU, hjp, hpc]⟩
      obtain ⟨x, hx, e⟩ := List.mem_map.1 hm
      exact ⟨x, hx, congrArg Prod.fst e⟩
  · -- unbacked: nothing is written
    rw [valueAt_of_not_mem t _ hc, fold_other]
    · rw [List.getElem?_toArray, List.getElem?_replicate, if_pos (flat_lt hidx)]
    · intro x hx e
      obtain ⟨hj', hk'⟩ := hread x hx e
      exact hc (hk' ▸ List.mem_map_of_mem (List.getElem_mem hj'))

end C06pL
