/-
C07dAlgLemmas — semiring laws RELATIVE TO A CARRIER (`C07.CarrierLaws`): the library's semirings on `Ext` are
commutative semirings only on their carriers (C08, C11).  The sum/product toolkit of C07bAlgLemmas for lists of carrier
elements, and the fact that every entry of a dense tensor is the default or a physical element.
-/
import FggsModel.Sem
import FggsModel.Axis
import FggsProofs.Props.C01
import FggsProofs.C06dBaseLemmas
import FggsProofs.C07bAlgLemmas

set_option linter.unusedSimpArgs false
set_option linter.unusedVariables false
set_option linter.unusedSectionVars false

namespace C07
open Fggs Fggs.Sem

/-- `S` is a commutative semiring on the carrier `C`: the constants are in `C`, the operations are closed on `C`, and
the laws of `C01.SRLaws` hold for arguments in `C` -/
structure CarrierLaws (S : SR Ext) (C : Ext → Prop) : Prop where
  zero : C S.zero
  one : C S.one
  add : ∀ a b, C a → C b → C (S.add a b)
  mul : ∀ a b, C a → C b → C (S.mul a b)
  add_assoc : ∀ a b c, C a → C b → C c → S.add (S.add a b) c = S.add a (S.add b c)
  add_comm : ∀ a b, C a → C b → S.add a b = S.add b a
  zero_add : ∀ a, C a → S.add S.zero a = a
  mul_assoc : ∀ a b c, C a → C b → C c → S.mul (S.mul a b) c = S.mul a (S.mul b c)
  mul_comm : ∀ a b, C a → C b → S.mul a b = S.mul b a
  one_mul : ∀ a, C a → S.mul S.one a = a
  zero_mul : ∀ a, C a → S.mul S.zero a = S.zero
  left_distrib : ∀ a b c, C a → C b → C c → S.mul a (S.add b c) = S.add (S.mul a b) (S.mul a c)

end C07

namespace C07dL
open Fggs Fggs.Sem C07

section alg
variable {S : SR Ext} {C : Ext → Prop} (hC : CarrierLaws S C)
include hC

theorem foldl_add_mem : ∀ (l : List Ext) (a : Ext), C a → (∀ x ∈ l, C x) → C (l.foldl S.add a)
  | [], a, ha, _ => ha
  | b :: l, a, ha, hl => by
    rw [List.foldl_cons]
    exact foldl_add_mem l _ (hC.add a b ha (hl b (by simp))) (fun x hx => hl x (by simp [hx]))

theorem sum_mem (l : List Ext) (hl : ∀ x ∈ l, C x) : C (S.sum l) := foldl_add_mem hC l _ hC.zero hl

theorem foldl_mul_mem : ∀ (l : List Ext) (a : Ext), C a → (∀ x ∈ l, C x) → C (l.foldl S.mul a)
  | [], a, ha, _ => ha
  | b :: l, a, ha, hl => by
    rw [List.foldl_cons]
    exact foldl_mul_mem l _ (hC.mul a b ha (hl b (by simp))) (fun x hx => hl x (by simp [hx]))

theorem prod_mem (l : List Ext) (hl : ∀ x ∈ l, C x) : C (S.prod l) := foldl_mul_mem hC l _ hC.one hl

theorem foldl_add_on : ∀ (l : List Ext) (a : Ext), C a → (∀ x ∈ l, C x) → l.foldl S.add a = S.add a (S.sum l)
  | [], a, ha, _ => by
    show a = S.add a S.zero
    rw [hC.add_comm a _ ha hC.zero, hC.zero_add a ha]
  | b :: l, a, ha, hl => by
    have hb := hl b (by simp)
    have hl' : ∀ x ∈ l, C x := fun x hx => hl x (by simp [hx])
    show l.foldl S.add (S.add a b) = S.add a (l.foldl S.add (S.add S.zero b))
    rw [foldl_add_on l _ (hC.add a b ha hb) hl', hC.zero_add b hb, foldl_add_on l b hb hl',
      hC.add_assoc a b _ ha hb (sum_mem hC l hl')]

theorem sum_cons_on (a : Ext) (l : List Ext) (ha : C a) (hl : ∀ x ∈ l, C x) :
    S.sum (a :: l) = S.add a (S.sum l) := by
  show l.foldl S.add (S.add S.zero a) = _
  rw [hC.zero_add a ha, foldl_add_on hC l a ha hl]

theorem foldl_mul_on : ∀ (l : List Ext) (a : Ext), C a → (∀ x ∈ l, C x) → l.foldl S.mul a = S.mul a (S.prod l)
  | [], a, ha, _ => by
    show a = S.mul a S.one
    rw [hC.mul_comm a _ ha hC.one, hC.one_mul a ha]
  | b :: l, a, ha, hl => by
    have hb := hl b (by simp)
    have hl' : ∀ x ∈ l, C x := fun x hx => hl x (by simp [hx])
    show l.foldl S.mul (S.mul a b) = S.mul a (l.foldl S.mul (S.mul S.one b))
    rw [foldl_mul_on l _ (hC.mul a b ha hb) hl', hC.one_mul b hb, foldl_mul_on l b hb hl',
      hC.mul_assoc a b _ ha hb (prod_mem hC l hl')]

theorem prod_cons_on (a : Ext) (l : List Ext) (ha : C a) (hl : ∀ x ∈ l, C x) :
    S.prod (a :: l) = S.mul a (S.prod l) := by
  show l.foldl S.mul (S.mul S.one a) = _
  rw [hC.one_mul a ha, foldl_mul_on hC l a ha hl]

theorem sum_all_zero_on : ∀ (l : List Ext), (∀ x ∈ l, x = S.zero) → S.sum l = S.zero
  | [], _ => rfl
  | a :: l, h => by
    have hl : ∀ x ∈ l, x = S.zero := fun x hx => h x (by simp [hx])
    rw [sum_cons_on hC a l (by rw [h a (by simp)]; exact hC.zero) (fun x hx => by rw [hl x hx]; exact hC.zero),
      h a (by simp), sum_all_zero_on l hl, hC.zero_add _ hC.zero]

theorem prod_zero_of_mem_on : ∀ (l : List Ext), (∀ x ∈ l, C x) → S.zero ∈ l → S.prod l = S.zero
  | [], _, h => by simp at h
  | a :: l, hl, h => by
    have ha := hl a (by simp)
    have hl' : ∀ x ∈ l, C x := fun x hx => hl x (by simp [hx])
    rw [prod_cons_on hC a l ha hl']
    rcases List.mem_cons.1 h with h | h
    · rw [← h, hC.zero_mul _ (prod_mem hC l hl')]
    · rw [prod_zero_of_mem_on l hl' h, hC.mul_comm a _ ha hC.zero, hC.zero_mul a ha]

theorem sum_perm_on {l l' : List Ext} (h : l.Perm l') : (∀ x ∈ l, C x) → S.sum l = S.sum l' := by
  induction h with
  | nil => intro _; rfl
  | @cons x l l' hp ih =>
    intro hl
    have hx := hl x (by simp)
    have h1 : ∀ y ∈ l, C y := fun y hy => hl y (by simp [hy])
    have h2 : ∀ y ∈ l', C y := fun y hy => h1 y (hp.mem_iff.2 hy)
    rw [sum_cons_on hC x l hx h1, sum_cons_on hC x l' hx h2, ih h1]
  | swap x y l =>
    intro hl
    have hy := hl y (by simp)
    have hx := hl x (by simp)
    have h1 : ∀ z ∈ l, C z := fun z hz => hl z (by simp [hz])
    have hs := sum_mem hC l h1
    rw [sum_cons_on hC y (x :: l) hy (fun z hz => hl z (by simp at hz ⊢; tauto)),
      sum_cons_on hC x l hx h1,
      sum_cons_on hC x (y :: l) hx (fun z hz => hl z (by simp at hz ⊢; tauto)),
      sum_cons_on hC y l hy h1,
      ← hC.add_assoc y x _ hy hx hs, hC.add_comm y x hy hx, hC.add_assoc x y _ hx hy hs]
  | @trans l₁ l₂ l₃ h12 h23 ih1 ih2 =>
    intro hl
    rw [ih1 hl, ih2 (fun x hx => hl x (h12.mem_iff.2 hx))]

theorem sum_filter_of_zero_on {α : Type} : ∀ (l : List α) (p : α → Bool) (g : α → Ext), (∀ a ∈ l, C (g a)) →
    (∀ a ∈ l, p a = false → g a = S.zero) → S.sum (l.map g) = S.sum ((l.filter p).map g)
  | [], _, _, _, _ => rfl
  | a :: l, p, g, hg, h => by
    have hg' : ∀ x ∈ l, C (g x) := fun x hx => hg x (by simp [hx])
    have ih := sum_filter_of_zero_on l p g hg' (fun x hx => h x (by simp [hx]))
    have hm : ∀ y ∈ l.map g, C y := by
      intro y hy
      obtain ⟨x, hx, rfl⟩ := List.mem_map.1 hy
      exact hg' x hx
    have hm' : ∀ y ∈ (l.filter p).map g, C y := by
      intro y hy
      obtain ⟨x, hx, rfl⟩ := List.mem_map.1 hy
      exact hg' x (List.mem_filter.1 hx).1
    rw [List.map_cons, sum_cons_on hC _ _ (hg a (by simp)) hm, List.filter_cons]
    cases hp : p a with
    | true =>
      simp only [if_true, List.map_cons]
      rw [sum_cons_on hC _ _ (hg a (by simp)) hm', ih]
    | false =>
      simp only [Bool.false_eq_true, if_false]
      rw [h a (by simp) hp, hC.zero_add _ (sum_mem hC _ hm), ih]

/-- re-indexing a sum of carrier elements along an injection (cf. `C07bL.sum_reindex`) -/
theorem sum_reindex_on {α β : Type} (A : List α) (B : List β) (f : β → α)
    (g : α → Ext) (h : β → Ext) (hA : A.Nodup) (hB : B.Nodup) (hgC : ∀ a ∈ A, C (g a)) (hf : ∀ b ∈ B, f b ∈ A)
    (hinj : ∀ b ∈ B, ∀ b' ∈ B, f b = f b' → b = b') (hgh : ∀ b ∈ B, g (f b) = h b)
    (hz : ∀ a ∈ A, g a ≠ S.zero → ∃ b ∈ B, f b = a) : S.sum (A.map g) = S.sum (B.map h) := by
  classical
  let p : α → Bool := fun a => decide (∃ b ∈ B, f b = a)
  have h1 : S.sum (A.map g) = S.sum ((A.filter p).map g) := by
    apply sum_filter_of_zero_on hC _ _ _ hgC
    intro a ha hp
    by_contra hne
    have := hz a ha hne
    simp only [p, decide_eq_false_iff_not] at hp
    exact hp this
  have h2 : (A.filter p).Perm (B.map f) := by
    rw [List.perm_ext_iff_of_nodup (hA.filter _) (List.Nodup.map_on hinj hB)]
    intro a
    simp only [List.mem_filter, List.mem_map, p, decide_eq_true_eq]
    constructor
    · rintro ⟨_, b, hb, rfl⟩; exact ⟨b, hb, rfl⟩
    · rintro ⟨b, hb, rfl⟩; exact ⟨hf b hb, b, hb, rfl⟩
  have hm : ∀ y ∈ (A.filter p).map g, C y := by
    intro y hy
    obtain ⟨x, hx, rfl⟩ := List.mem_map.1 hy
    exact hgC x (List.mem_filter.1 hx).1
  rw [h1, sum_perm_on hC (h2.map g) hm, List.map_map]
  congr 1
  apply List.map_congr_left
  intro b hb
  exact hgh b hb

end alg

/-! ### the entries of a dense tensor -/

open Fggs.Ax in
theorem foldl_set_mem (P : Ext → Prop) {β : Type} (pos : β → Nat) (val : β → Ext) :
    ∀ (L : List β) (arr : Array Ext), (∀ x ∈ arr.toList, P x) → (∀ b ∈ L, P (val b)) →
      ∀ x ∈ (L.foldl (fun a b => a.setIfInBounds (pos b) (val b)) arr).toList, P x
  | [], arr, h, _ => h
  | b :: L, arr, h, hL => by
    rw [List.foldl_cons]
    apply foldl_set_mem P pos val L
    · intro x hx
      rw [Array.toList_setIfInBounds] at hx
      rcases List.mem_or_eq_of_mem_set hx with hx | hx
      · exact h x hx
      · rw [hx]; exact hL b (by simp)
    · exact fun b' hb' => hL b' (by simp [hb'])

open Fggs.Ax in
/-- every entry of the dense tensor is the default or a physical element -/
theorem dense_mem (T : PT) : ∀ c ∈ T.dense, c = T.default ∨ c ∈ T.physical := by
  rw [C06dL.dense_eq_fold]
  apply foldl_set_mem (fun c => c = T.default ∨ c ∈ T.physical)
  · intro x hx
    simp only [Array.toList_replicate, List.mem_replicate] at hx
    exact .inl hx.2
  · intro kv hkv
    unfold PT.cells at hkv
    obtain ⟨p, _, rfl⟩ := List.mem_map.1 hkv
    simp only
    cases hp : T.physical[p.2]? with
    | none => exact .inl rfl
    | some x => exact .inr (List.mem_of_getElem? hp)

end C07dL
