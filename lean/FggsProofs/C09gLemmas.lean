/-
C09gLemmas — helpers for Props/C09g.lean: the rows in the image of the axis `e` of the growth loop of `Ps.solve`
(distinct, in range), the full dense system of the operands as tabulated matrices, `Ms.blockSolve` column by column,
the image `Un.image e` as a set, the cells of `dense` in a carrier.
-/
import FggsModel.PatSolve
import FggsProofs.Props.C08
import FggsProofs.Props.C09d
import FggsProofs.Props.C09e
import FggsProofs.Props.C09f
import FggsProofs.C06dBaseLemmas
import FggsProofs.C09eLemmas
import FggsProofs.C09dMainLemmas
import Mathlib.Tactic.Linarith
import Mathlib.Data.List.Basic
import Mathlib.Data.List.Nodup

set_option linter.unusedSimpArgs false
set_option linter.unusedVariables false

namespace C09gL
open Fggs Fggs.Ax Fggs.Un Fggs.Sem Fggs.Sv Fggs.Ps C06dL C09dL C06b

/-! ### copies of the definitions of Props/C09g.lean -/

def fullA (a : PT) (N : Nat) : List (List Ext) :=
  (List.range N).map (fun i => (List.range N).map (fun j => C09d.cell a [i, j]))
def fullB (b : PT) (N : Nat) (rest : List Nat) : List Ext := (List.range N).map (fun i => C09d.cell b (i :: rest))
def colOf (r : PT) (N : Nat) (rest : List Nat) : List Ext := (List.range N).map (fun i => C09d.cell r (i :: rest))
def rowsI (e : Axis) : List Nat := (C09d.idxs [e]).map (fun ip => (C09d.virt [e] ip).headD 0)

/-- the row an index tuple of the physical axes of `e` denotes -/
def row (e : Axis) (ip : List Nat) : Nat := e.eval (envOf (firstOcc [e]) ip)

theorem virt_one (e : Axis) (ip : List Nat) : C09d.virt [e] ip = [row e ip] := rfl

theorem rowsI_eq (e : Axis) : rowsI e = (C09d.idxs [e]).map (row e) := rfl

/-! ### tabulated matrices -/

theorem getM_tab (S : SR Ext) (n m : Nat) (f : Nat → Nat → Ext) (i j : Nat) (hi : i < n) (hj : j < m) :
    getM S ((List.range n).map (fun i => (List.range m).map (fun j => f i j))) i j = f i j := by
  simp [getM, hi, hj]

theorem getV_tab (S : SR Ext) (n : Nat) (f : Nat → Ext) (i : Nat) (hi : i < n) :
    getV S ((List.range n).map f) i = f i := by
  simp [getV, hi]

theorem getM_fullA (S : SR Ext) (a : PT) (N i j : Nat) (hi : i < N) (hj : j < N) :
    getM S (fullA a N) i j = C09d.cell a [i, j] := getM_tab S N N _ i j hi hj

theorem getV_fullB (S : SR Ext) (b : PT) (N : Nat) (rest : List Nat) (i : Nat) (hi : i < N) :
    getV S (fullB b N rest) i = C09d.cell b (i :: rest) := getV_tab S N _ i hi

theorem getV_colOf (S : SR Ext) (b : PT) (N : Nat) (rest : List Nat) (i : Nat) (hi : i < N) :
    getV S (colOf b N rest) i = C09d.cell b (i :: rest) := getV_tab S N _ i hi

theorem length_fullA (a : PT) (N : Nat) : (fullA a N).length = N := by simp [fullA]

theorem square_full (a b : PT) (N : Nat) (rest : List Nat) : C09.Square (fullA a N) (fullB b N rest) := by
  refine ⟨?_, by simp [fullA, fullB]⟩
  intro r hr
  simp only [fullA, List.mem_map] at hr
  obtain ⟨i, _, rfl⟩ := hr
  simp [fullA]

/-- re-tabulating a mapped matrix -/
theorem retab {α β : Type} (S : SR Ext) (L : List α) (M : List β) (f : α → β → Ext) :
    (List.range L.length).map (fun i => (List.range M.length).map (fun j =>
      Ms.matGet S (L.map (fun p => M.map (fun q => f p q))) i j)) = L.map (fun p => M.map (fun q => f p q)) := by
  apply List.ext_getElem
  · simp
  · intro i h1 h2
    have hi : i < L.length := by simpa using h1
    simp only [List.getElem_map, List.getElem_range]
    apply List.ext_getElem
    · simp
    · intro j h3 h4
      have hj : j < M.length := by simpa using h3
      simp [Ms.matGet, getM, hi, hj]

theorem retab_col {α β : Type} (S : SR Ext) (L : List α) (M : List β) (f : α → β → Ext) (c : Nat) (hc : c < M.length) :
    (List.range L.length).map (fun i => Ms.matGet S (L.map (fun p => M.map (fun q => f p q))) i c) =
      L.map (fun p => f p M[c]) := by
  apply List.ext_getElem
  · simp
  · intro i h1 h2
    have hi : i < L.length := by simpa using h1
    simp [Ms.matGet, getM, hi, hc]

/-- an entry of `Ms.blockSolve` is an entry of the solution of the column -/
theorem matGet_blockSolve (S : SR Ext) (star : Ext → Ext) (n c : Nat) (A B : Ms.Mat Ext) (p j : Nat) (hp : p < n)
    (hj : j < c) :
    Ms.matGet S (Ms.blockSolve S star n c A B) p j =
      getV S (solveLoop S star ((List.range n).map (fun i => (List.range n).map (fun j => Ms.matGet S A i j)))
        ((List.range n).map (fun i => Ms.matGet S B i j))) p := by
  unfold Ms.blockSolve
  simp [Ms.matGet, getM, hp, hj]

/-! ### the rows of `e` -/

section rows
variable {a b : PT} {a0 a1 b0 e : Axis} {brest : List Axis} {next nx : Nat}

theorem env_inRange (E : EOK b0 e next nx) {ip : List Nat} (hip : ip ∈ C09d.idxs [e]) :
    InRange (envOf (firstOcc [e]) ip) e := by
  intro q hq
  exact envOf_inRange (firstOcc [e]) ip E.fv_nodup ((mem_assigns_iff _ _).1 hip) q (mem_firstOcc_one.2 hq)

theorem row_lt (E : EOK b0 e next nx) {ip : List Nat} (hip : ip ∈ C09d.idxs [e]) : row e ip < b0.numel := by
  rw [← E.numel]
  exact C06.eval_lt_numel e _ (env_inRange E hip)

theorem row_inj (E : EOK b0 e next nx) {ip iq : List Nat} (hip : ip ∈ C09d.idxs [e]) (hiq : iq ∈ C09d.idxs [e])
    (h : row e ip = row e iq) : ip = iq := by
  have hxy := eval_inj _ _ e (env_inRange E hip) (env_inRange E hiq) h
  have lx : ip.length = (firstOcc [e]).length := by rw [mem_assigns_length hip, List.length_map]
  have ly : iq.length = (firstOcc [e]).length := by rw [mem_assigns_length hiq, List.length_map]
  rw [← pidx_envOf (firstOcc [e]) ip E.fv_nodup lx, ← pidx_envOf (firstOcc [e]) iq E.fv_nodup ly]
  exact pidx_congr (fun p hp => hxy p (mem_firstOcc_one.1 hp))

theorem rowsI_nodup (E : EOK b0 e next nx) : (rowsI e).Nodup := by
  rw [rowsI_eq]
  exact List.Nodup.map_on (fun x hx y hy h => row_inj E hx hy h) (nodup_assigns _)

theorem rowsI_lt (E : EOK b0 e next nx) : ∀ i ∈ rowsI e, i < b0.numel := by
  intro i hi
  rw [rowsI_eq] at hi
  obtain ⟨ip, hip, rfl⟩ := List.mem_map.1 hi
  exact row_lt E hip

theorem virt_mem (O : Ops a b a0 a1 b0 brest next) {ic : List Nat} (hic : ic ∈ C09d.idxs brest) :
    C09d.virt brest ic ∈ Ax.assigns (brest.map Axis.numel) := by
  rw [mem_assigns_iff, C09d.virt, List.forall₂_map_left_iff, List.forall₂_map_right_iff, List.forall₂_same]
  intro x hx
  apply C06.eval_lt_numel
  intro q hq
  exact envOf_inRange (firstOcc brest) ic O.fvb_nodup ((mem_assigns_iff _ _).1 hic) q (mem_firstOcc.2 ⟨x, hx, hq⟩)

theorem vshape_b (O : Ops a b a0 a1 b0 brest next) : b.vshape = b0.numel :: brest.map Axis.numel := by
  unfold PT.vshape
  rw [O.vb]; rfl

theorem vshape_a (O : Ops a b a0 a1 b0 brest next) : a.vshape = [b0.numel, b0.numel] := by
  unfold PT.vshape
  rw [O.va, List.map_cons, List.map_cons, List.map_nil, ← O.sq1, O.sq2]

theorem cons_mem_assigns {n i : Nat} {s r : List Nat} (hi : i < n) (hr : r ∈ Ax.assigns s) : i :: r ∈ Ax.assigns (n :: s) := by
  rw [mem_assigns_iff] at hr ⊢
  exact List.Forall₂.cons hi hr

theorem ops_of {S : SR Ext} (h : C09d.OperandsOK S a b a0 a1 b0 brest next) : Ops a b a0 a1 b0 brest next :=
  ⟨(wf_iff_struct a).1 h.wfa, (wf_iff_struct b).1 h.wfb, h.va, h.vb, h.square.1, h.square.2, h.pos, h.disj, h.below⟩

theorem restrictA_eq (S : SR Ext) (E : EOK b0 e next nx) (a : PT) :
    C09e.restrictA S (fullA a b0.numel) (rowsI e) =
      (List.range (C09d.idxs [e]).length).map (fun i => (List.range (C09d.idxs [e]).length).map (fun j =>
        Ms.matGet S (C09d.relA a e) i j)) := by
  unfold C09d.relA
  rw [retab]
  unfold C09e.restrictA
  rw [rowsI_eq, List.map_map]
  apply List.map_congr_left
  intro ip hip
  simp only [Function.comp_def]
  rw [List.map_map]
  apply List.map_congr_left
  intro iq hiq
  simp only [Function.comp_def]
  rw [getM_fullA S a _ _ _ (row_lt E hip) (row_lt E hiq)]
  rfl

theorem restrictB_eq (S : SR Ext) (E : EOK b0 e next nx) (b : PT) (brest : List Axis) (c : Nat)
    (hc : c < (C09d.idxs brest).length) :
    C09e.restrictB S (fullB b b0.numel (C09d.virt brest (C09d.idxs brest)[c])) (rowsI e) =
      (List.range (C09d.idxs [e]).length).map (fun i => Ms.matGet S (C09d.relB b e brest) i c) := by
  unfold C09d.relB
  rw [retab_col S _ _ _ c hc]
  unfold C09e.restrictB
  rw [rowsI_eq, List.map_map]
  apply List.map_congr_left
  intro ip hip
  simp only [Function.comp_def]
  rw [getV_fullB S b _ _ _ (row_lt E hip)]
  rfl

/-- **every column of the result is the solution of the restricted system, extended by zero** -/
theorem patsolve_column (S : SR Ext) (star : Ext → Ext) (fuel loopFuel : Nat) (a b : PT) (a0 a1 b0 : Axis)
    (brest : List Axis) (next : Nat) (h : C09d.OperandsOK S a b a0 a1 b0 brest next)
    (e : Axis) (nx : Nat) (hg : grow fuel a0 a1 loopFuel b0 next = some (some (e, nx)))
    (r : PT) (hr : solve S star fuel loopFuel a b next = .ok r)
    (hres : C09d.Resolved fuel e nx a0 a1 b0 brest)
    (ic : List Nat) (hic : ic ∈ C09d.idxs brest) :
    colOf r b0.numel (C09d.virt brest ic) =
      C09e.extend S b0.numel (rowsI e)
        (solveLoop S star (C09e.restrictA S (fullA a b0.numel) (rowsI e))
          (C09e.restrictB S (fullB b b0.numel (C09d.virt brest ic)) (rowsI e))) := by
  have O := ops_of h
  have E := grow_eok O hg
  obtain ⟨_, hvs, H3⟩ := C09d.patsolve_cells S star fuel loopFuel a b a0 a1 b0 brest next h e nx hg r hr hres
  simp only at H3
  obtain ⟨hin, hout⟩ := H3
  obtain ⟨c, hc, rfl⟩ := List.getElem_of_mem hic
  rw [restrictA_eq S E a, restrictB_eq S E b brest c hc]
  unfold colOf C09e.extend
  apply List.map_congr_left
  intro i hi
  have hi' : i < b0.numel := List.mem_range.1 hi
  by_cases hiI : i ∈ rowsI e
  · obtain ⟨p, hp, hpi, eq⟩ := C09eL.idxOf?_of_mem (rowsI e) i hiI
    rw [eq]
    have hp' : p < (C09d.idxs [e]).length := by simpa [rowsI_eq] using hp
    have hrow : row e (C09d.idxs [e])[p] = i := by
      rw [← hpi]; simp [rowsI_eq]
    have := hin p c (C09d.idxs [e])[p] (C09d.idxs brest)[c] (List.getElem?_eq_getElem hp') (List.getElem?_eq_getElem hc)
    rw [virt_one, hrow] at this
    show C09d.cell r (i :: _) = getV S _ p
    rw [← matGet_blockSolve S star _ _ _ _ p c hp' hc]
    exact this
  · have eq : (rowsI e).idxOf? i = none := List.idxOf?_eq_none_iff.2 hiI
    rw [eq]
    apply hout
    · rw [hvs, vshape_b O]
      exact cons_mem_assigns hi' (virt_mem O (List.getElem_mem hc))
    · intro ip hip ic' _ heq
      rw [virt_one] at heq
      apply hiI
      rw [rowsI_eq]
      have : i = row e ip := by simpa using (List.cons.inj heq).1
      exact this ▸ List.mem_map_of_mem hip

/-! ### `Ps.closed` -/

theorem mem_image (e : Axis) (x : Nat) : x ∈ Un.image e ↔ x ∈ rowsI e := by
  have hf : firstOcc [e] = e.fv.eraseDups := by simp [firstOcc]
  unfold Un.image
  rw [List.mem_eraseDups, List.mem_mergeSort, rowsI_eq]
  unfold row C09d.idxs
  rw [hf]

/-- an in-range cell that is not the key of a physical element holds the default -/
theorem cell_of_no_key {T : PT} (hs : C06dL.Sem T) {c : List Nat} (hc : c ∈ Ax.assigns T.vshape)
    (hk : ∀ kv ∈ T.cells, kv.1 ≠ c) : C09d.cell T c = T.default := by
  unfold C09d.cell
  rw [dense_unbacked hs hc]
  · rfl
  · intro ρ hb
    exact hk _ (mem_cells_of_backs hs hb) rfl

/-- what `Ps.closed` says about the dense tensors (for in-range further indices `rest`) -/
theorem closed_rows (S : SR Ext) (fuel loopFuel : Nat) (a b : PT) (a0 a1 b0 : Axis) (brest : List Axis)
    (next : Nat) (h : C09d.OperandsOK S a b a0 a1 b0 brest next)
    (e : Axis) (nx : Nat) (hg : grow fuel a0 a1 loopFuel b0 next = some (some (e, nx)))
    (hcl : closed a b e = true) :
    (∀ i, i < b0.numel → i ∉ rowsI e → ∀ rest, rest ∈ Ax.assigns (brest.map Axis.numel) →
      C09d.cell b (i :: rest) = S.zero) ∧
    (∀ i, i < b0.numel → i ∉ rowsI e → ∀ j ∈ rowsI e, C09d.cell a [i, j] = S.zero) := by
  have O := ops_of h
  have E := grow_eok O hg
  unfold closed img at hcl
  simp only [Bool.and_eq_true, List.all_eq_true, Bool.or_eq_true, Bool.not_eq_true', List.contains_iff_mem] at hcl
  obtain ⟨hb, ha⟩ := hcl
  refine ⟨?_, ?_⟩
  · intro i hi hiI rest hrest
    rw [← h.db]
    apply cell_of_no_key O.sb.sem
    · rw [vshape_b O]; exact cons_mem_assigns hi hrest
    · intro kv hkv e'
      have := hb kv hkv
      rw [e', mem_image] at this
      exact hiI this
  · intro i hi hiI j hj
    rw [← h.da]
    apply cell_of_no_key O.sa.sem
    · rw [vshape_a O]
      exact cons_mem_assigns hi (cons_mem_assigns (rowsI_lt E j hj) (by simp [Ax.assigns]))
    · intro kv hkv e'
      have := ha kv hkv
      rw [e'] at this
      rcases this with h1 | h1
      · have : j ∈ Un.image e := (mem_image e j).2 hj
        simp only [List.getD_eq_getElem?_getD, List.getElem?_cons_succ, List.getElem?_cons_zero, Option.getD_some] at h1
        have h2 : (Un.image e).contains j = true := List.contains_iff_mem.2 this
        rw [h2] at h1
        cases h1
      · rw [mem_image] at h1
        exact hiI h1

/-! ### cells in a carrier -/

theorem foldl_set_all (P : Ext → Prop) (pos : List Nat × Ext → Nat) : ∀ (L : List (List Nat × Ext)) (arr : Array Ext),
    (∀ kv ∈ L, P kv.2) → (∀ (k : Nat) (x : Ext), arr[k]? = some x → P x) →
    ∀ (k : Nat) (x : Ext), (L.foldl (fun a kv => a.setIfInBounds (pos kv) kv.2) arr)[k]? = some x → P x
  | [], arr, _, h => h
  | kv :: L, arr, hL, h => by
    rw [List.foldl_cons]
    apply foldl_set_all P pos L _ (fun x hx => hL x (List.mem_cons_of_mem _ hx))
    intro k x hk
    rw [Array.getElem?_setIfInBounds] at hk
    split at hk
    · split at hk
      · cases hk
        exact hL kv List.mem_cons_self
      · cases hk
    · exact h k x hk

theorem cell_carrier (P : Ext → Prop) (T : PT) (hd : P T.default) (hp : ∀ x ∈ T.physical, P x) (idx : List Nat) :
    P (C09d.cell T idx) := by
  unfold C09d.cell
  cases hk : T.dense[Ax.flat T.vshape idx]? with
  | none => exact hd
  | some x =>
    show P x
    rw [dense_eq_fold, Array.getElem?_toList] at hk
    refine foldl_set_all P (fun kv => Ax.flat T.vshape kv.1) T.cells _ ?_ ?_ _ x hk
    · intro kv hkv
      unfold PT.cells at hkv
      obtain ⟨q, _, rfl⟩ := List.mem_map.1 hkv
      show P (T.physical[q.2]?.getD T.default)
      cases hq : T.physical[q.2]? with
      | none => exact hd
      | some y => exact hp y (List.mem_of_getElem? hq)
    · intro k y hy
      have hy' := hy
      rw [Array.getElem?_replicate] at hy'
      split at hy'
      · cases hy'; exact hd
      · cases hy'

/-! ### the end-to-end statement, for a semiring whose restricted system theorem (C09e) is given -/

theorem patsolve_isLeast_of (S : SR Ext) (star : Ext → Ext) (P : Ext → Prop) (hP0 : P S.zero)
    (Hres : ∀ (A : List (List Ext)) (bc : List Ext), C09.Square A bc → (∀ r ∈ A, ∀ x ∈ r, P x) → (∀ x ∈ bc, P x) →
      ∀ (I : List Nat), I.Nodup → (∀ i ∈ I, i < A.length) →
      (∀ i, i < A.length → i ∉ I → getV S bc i = S.zero) →
      (∀ i, i < A.length → i ∉ I → ∀ j ∈ I, getM S A i j = S.zero) →
      let x := C09e.extend S A.length I (solveLoop S star (C09e.restrictA S A I) (C09e.restrictB S bc I))
      affine S A bc x = x ∧
      ∀ y : List Ext, (∀ v ∈ y, P v) →
        (∀ i, i < A.length → (getV S (affine S A bc y) i).le (getV S y i) = true) →
        ∀ i, i < A.length → (getV S x i).le (getV S y i) = true)
    (fuel loopFuel : Nat) (a b : PT) (a0 a1 b0 : Axis) (brest : List Axis)
    (next : Nat) (h : C09d.OperandsOK S a b a0 a1 b0 brest next)
    (hca : ∀ x ∈ a.physical, P x) (hcb : ∀ x ∈ b.physical, P x)
    (e : Axis) (nx : Nat) (hg : grow fuel a0 a1 loopFuel b0 next = some (some (e, nx)))
    (r : PT) (hr : solve S star fuel loopFuel a b next = .ok r)
    (hres : Ps.resolved fuel e nx a0 a1 b0 brest = true) (hcl : closed a b e = true)
    (ic : List Nat) (hic : ic ∈ C09d.idxs brest) :
    let A := fullA a b0.numel
    let bc := fullB b b0.numel (C09d.virt brest ic)
    let x := colOf r b0.numel (C09d.virt brest ic)
    affine S A bc x = x ∧
    ∀ y : List Ext, (∀ v ∈ y, P v) →
      (∀ i, i < b0.numel → (getV S (affine S A bc y) i).le (getV S y i) = true) →
      ∀ i, i < b0.numel → (getV S x i).le (getV S y i) = true := by
  intro A bc x
  have O := ops_of h
  have E := grow_eok O hg
  have hx : x = _ := patsolve_column S star fuel loopFuel a b a0 a1 b0 brest next h e nx hg r hr
    (C09f.resolved_sound fuel e nx a0 a1 b0 brest hres) ic hic
  obtain ⟨hb, ha⟩ := closed_rows S fuel loopFuel a b a0 a1 b0 brest next h e nx hg hcl
  have hlen : A.length = b0.numel := length_fullA a b0.numel
  have hA : ∀ r ∈ A, ∀ x ∈ r, P x := by
    intro r hr x hx
    simp only [A, fullA, List.mem_map] at hr
    obtain ⟨i, _, rfl⟩ := hr
    obtain ⟨j, _, rfl⟩ := List.mem_map.1 hx
    exact cell_carrier P a (h.da ▸ hP0) hca _
  have hB : ∀ x ∈ bc, P x := by
    intro x hx
    obtain ⟨i, _, rfl⟩ := List.mem_map.1 hx
    exact cell_carrier P b (h.db ▸ hP0) hcb _
  have := Hres A bc (square_full a b b0.numel _) hA hB (rowsI e) (rowsI_nodup E)
    (by rw [hlen]; exact rowsI_lt E)
    (by
      intro i hi hiI
      rw [hlen] at hi
      rw [getV_fullB S b _ _ i hi]
      exact hb i hi hiI _ (virt_mem O hic))
    (by
      intro i hi hiI j hj
      rw [hlen] at hi
      rw [getM_fullA S a _ i j hi (rowsI_lt E j hj)]
      exact ha i hi hiI j hj)
  simp only [hlen] at this
  rw [hx]
  exact this

end rows

end C09gL
