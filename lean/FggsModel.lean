import FggsModel.Basic
import FggsModel.Semiring
