import FggsModel.Basic
import FggsModel.Semiring
import FggsModel.Scc
import FggsModel.Interp
import FggsModel.Graph
import FggsModel.Replace
import FggsModel.Json
import FggsModel.Conj
