import FggsProofs.Props.C08
