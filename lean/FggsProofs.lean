import FggsProofs.Props.C08
import FggsProofs.Props.C19
import FggsProofs.Props.C20
import FggsProofs.Props.C16
import FggsProofs.Props.C15
import FggsProofs.Props.C14
import FggsProofs.Props.C17
import FggsProofs.Props.C10
