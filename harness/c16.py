"""C16 — graphs and grammars stay well formed under any sequence of public API calls.
Every call of a sequence is executed on real fggs objects and on the Lean store model
(`Fggs.G.step`); compared after every call: exception class, after the sequence: the full
observable state of every live object and the == matrix.  The property itself (invariant,
failure atomicity, copy independence) is evaluated on the implementation by a direct oracle."""
import itertools
import fggs
from fggs import NodeLabel, EdgeLabel, Node, Edge, Graph, HRG, HRGRule
from .common import enc_list, enc_bool, Toks

RULE = ('universe: 2 node labels, 5 node objects (explicit ids u,v incl. two different nodes sharing id u; 2 implicit), 6 edge labels '
        '(same name with different types / terminality), 3 edge ids, <=4 graphs, <=2 grammars; all sequences of length 2 over the op '
        'instances + seeded random sequences of length 3..10 (thorough: more and longer); non-trivial = at least one call raised or a '
        'copy/alias was mutated afterwards')
ASSUMPTIONS = ['id() uniqueness among live objects (implicit ids) is trusted; implicit ids are coded by pool position',
               'direct mutation of private attributes is outside the public API']

# the second node label is NAMED 'A,A': a type check that compares comma-joined label names instead of the labels cannot tell the type
# (A, A) from the type ('A,A',)
NLS = [NodeLabel('A'), NodeLabel('A,A')]
NODES = [Node(NLS[0], 'u'), Node(NLS[1], 'u'), Node(NLS[0], 'v'), Node(NLS[0]), Node(NLS[1])]
NODE_ID = ['e0', 'e0', 'e1', 'i0', 'i1']
NODE_LAB = [0, 1, 0, 0, 1]
# (name code, type as label indices, terminal)
ELS = [(0, (0,), True), (0, (0, 0), True), (1, (0,), False), (2, (0, 1), True), (1, (), False), (3, (), True), (4, (0, 0), False), (5, (1,), False)]
ELNAME = ['p', 'X', 'q', 'z', 'W', 'V']
EIDS = [('e', 'e0'), ('f', 'e1'), (None, 'i7')]
_IMPL_EDGE = {}     # (label index, node indices) -> (code, Edge object kept alive so that its id stays unique)


def impl_edge(key):
    if key not in _IMPL_EDGE:
        try:
            e = Edge(mk_label(key[0]), [NODES[i] for i in key[1]])
        except ValueError:
            e = None
        _IMPL_EDGE[key] = (f'i{100 + len(_IMPL_EDGE)}', e)
    return _IMPL_EDGE[key]


def mk_label(k):
    name, ty, term = ELS[k]
    return EdgeLabel(ELNAME[name], [NLS[i] for i in ty], is_terminal=term, is_nonterminal=not term)


def enc_node(k):
    return f'{NODE_LAB[k]} {NODE_ID[k]}'


def enc_el(k):
    name, ty, term = ELS[k]
    return f'{name} {enc_list(ty)} {enc_bool(term)}'


def node_code(n):
    for k, m in enumerate(NODES):
        if m is n or (m == n):
            return enc_node(k)
    raise KeyError(n)


def el_code(el):
    name = ELNAME.index(el.name)
    ty = [0 if l.name == 'A' else 1 for l in el.type]
    return f'{name} {enc_list(ty)} {enc_bool(el.is_terminal)}'


def op_instances(n_graphs=3, n_hrgs=2):
    ops = [('newGraph',)]
    for g in range(n_graphs):
        for k in range(len(NODES)):
            ops.append(('addNode', g, k))
            ops.append(('removeNode', g, k))
        for l in range(len(ELS)):
            ar = len(ELS[l][1])
            for ns in itertools.product(range(len(NODES)), repeat=ar):
                for e in range(len(EIDS)):
                    ops.append(('addEdge', g, l, ns, e))
        for l in (0, 2):
            for e in range(len(EIDS)):
                ops.append(('removeEdge', g, l, (0,) if l == 0 else (2,), e))
        for ns in [(), (0,), (2,), (0, 2), (1,), (3, 3), (0, 1), (4,)]:
            ops.append(('setExt', g, ns))
        ops.append(('copyGraph', g))
    ops.append(('newHRG', None)); ops.append(('newHRG', 2)); ops.append(('newHRG', 0)); ops.append(('newHRG', 4))
    for h in range(n_hrgs):
        for l in (2, 4, 0):
            ops.append(('setStart', h, l))
        for nm in (1, 4, 0):
            ops.append(('setStartName', h, nm))
        for g in range(n_graphs):
            for l in (2, 4, 0, 6, 7):
                ops.append(('addRule', h, l, g))
            for nm in (1, 5):
                ops.append(('newRule', h, nm, g))
        ops.append(('addNodeLabel', h, 1))
        for l in range(len(ELS)):
            ops.append(('addEdgeLabel', h, l))
        ops.append(('copyHRG', h))
    return ops


def enc_op(op):
    k = op[0]
    if k == 'newGraph': return 'newGraph'
    if k in ('addNode', 'removeNode'): return f'{k} {op[1]} {enc_node(op[2])}'
    if k in ('addEdge', 'removeEdge'):
        eid = EIDS[op[4]][1] if EIDS[op[4]][0] is not None else impl_edge((op[2], op[3]))[0]
        return f'{k} {op[1]} {enc_el(op[2])} {enc_list(op[3], enc_node)} {eid}'
    if k == 'setExt': return f'setExt {op[1]} {enc_list(op[2], enc_node)}'
    if k == 'copyGraph': return f'copyGraph {op[1]}'
    if k == 'newHRG': return 'newHRG ' + ('none' if op[1] is None else 'some ' + enc_el(op[1]))
    if k == 'setStart': return f'setStart {op[1]} {enc_el(op[2])}'
    if k == 'setStartName': return f'setStartName {op[1]} {op[2]}'
    if k == 'addRule': return f'addRule {op[1]} {enc_el(op[2])} {op[3]}'
    if k == 'newRule': return f'newRule {op[1]} {op[2]} {op[3]}'
    if k == 'addNodeLabel': return f'addNodeLabel {op[1]} {op[2]}'
    if k == 'addEdgeLabel': return f'addEdgeLabel {op[1]} {enc_el(op[2])}'
    if k == 'copyHRG': return f'copyHRG {op[1]}'
    raise ValueError(op)


class World:
    def __init__(self):
        self.graphs, self.hrgs = [], []
        self.implicit_edges = {}

    def edge_id(self, e):
        if e.persist_id:
            return {'e': 'e0', 'f': 'e1'}[e.id]
        for code, obj in _IMPL_EDGE.values():
            if obj is not None and obj.id == e.id:
                return code
        raise KeyError(e)

    def apply(self, op):
        """returns the name of the exception class raised, or 'ok'"""
        k = op[0]
        try:
            if k == 'newGraph':
                self.graphs.append(Graph())
            elif k in ('addNode', 'removeNode', 'addEdge', 'removeEdge', 'setExt', 'copyGraph'):
                if op[1] >= len(self.graphs):
                    return 'KeyError'
                g = self.graphs[op[1]]
                if k == 'addNode': g.add_node(NODES[op[2]])
                elif k == 'removeNode': g.remove_node(NODES[op[2]])
                elif k in ('addEdge', 'removeEdge'):
                    eid = EIDS[op[4]][0]
                    key = (op[2], op[3])
                    if eid is None:
                        # one implicit-id Edge object per (label, nodes): it stays alive, so its id is stable
                        e = impl_edge(key)[1]
                        if e is None:
                            return 'ValueError'   # Edge(...) itself raises
                    else:
                        e = Edge(mk_label(op[2]), [NODES[i] for i in op[3]], id=eid)
                    (g.add_edge if k == 'addEdge' else g.remove_edge)(e)
                elif k == 'setExt': g.ext = [NODES[i] for i in op[2]]
                else: self.graphs.append(g.copy())
            elif k == 'newHRG':
                self.hrgs.append(HRG(None if op[1] is None else mk_label(op[1])))
            else:
                if op[1] >= len(self.hrgs):
                    return 'KeyError'
                h = self.hrgs[op[1]]
                if k == 'setStart': h.start = mk_label(op[2])
                elif k == 'setStartName': h.start = ELNAME[op[2]]
                elif k == 'addRule':
                    if op[3] >= len(self.graphs): return 'KeyError'
                    h.add_rule(HRGRule(mk_label(op[2]), self.graphs[op[3]]))
                elif k == 'newRule':
                    if op[3] >= len(self.graphs): return 'KeyError'
                    h.new_rule(ELNAME[op[2]], self.graphs[op[3]])
                elif k == 'addNodeLabel': h.add_node_label(NLS[op[2]])
                elif k == 'addEdgeLabel': h.add_edge_label(mk_label(op[2]))
                elif k == 'copyHRG':
                    c = h.copy()
                    self.hrgs.append(c)
                    for r in c.all_rules():
                        self.graphs.append(r.rhs)
            return 'ok'
        except ValueError: return 'ValueError'
        except TypeError: return 'TypeError'
        except KeyError: return 'KeyError'
        except AttributeError: return 'AttributeError'
        except Exception as e:
            return 'Exception' if type(e) is Exception else type(e).__name__

    # ---- observation through public accessors only
    def obs_graph(self, g):
        def enc_edge(e):
            return f'{el_code(e.label)} {enc_list(e.nodes, node_code)} {self.edge_id(e)}'
        return (f'{enc_list(g.nodes(), node_code)} {enc_list(g.edges(), enc_edge)} {enc_list(g.ext, node_code)} '
                f'{enc_list([0 if l.name == "A" else 1 for l in g.node_labels()])} {enc_list(g.edge_labels(), el_code)}')

    def obs_hrg(self, h):
        groups = []
        for r in h.all_rules():
            if groups and groups[-1][0] == r.lhs:
                groups[-1][1].append(r)
            else:
                groups.append((r.lhs, [r]))
        st = 'none' if h.start is None else 'some ' + el_code(h.start)
        return (f'{st} {enc_list([0 if l.name == "A" else 1 for l in h.node_labels()])} {enc_list(h.edge_labels(), el_code)} ' +
                enc_list(groups, lambda p: f'{el_code(p[0])} {enc_list(p[1], lambda r: self.obs_graph(r.rhs))}'))

    def observe(self):
        return enc_list(self.graphs, self.obs_graph) + ' ' + enc_list(self.hrgs, self.obs_hrg)

    def eq_matrix(self):
        return ''.join(enc_bool(a == b) for a in self.graphs for b in self.graphs)

    # ---- the property, evaluated directly
    def invariant_failures(self):
        out = []
        for gi, g in enumerate(self.graphs):
            nodes = list(g.nodes())
            for e in g.edges():
                if any(n not in nodes for n in e.nodes):
                    out.append((f'graph {gi}: an attachment node of an edge is not a node of the graph', 'dangling-attachment'))
                if e.label.type != tuple(n.label for n in e.nodes):
                    out.append((f'graph {gi}: edge nodes do not carry the labels the edge label demands', 'edge-typing'))
                if not g.has_edge_label_name(e.label.name) or g.get_edge_label(e.label.name) != e.label:
                    out.append((f'graph {gi}: edge label name does not denote the edge\'s label', 'label-table'))
            if any(n not in nodes for n in g.ext):
                out.append((f'graph {gi}: an external node is not a node of the graph', 'dangling-ext'))
            if len({n.id for n in nodes}) != len(nodes) or len({e.id for e in g.edges()}) != len(list(g.edges())):
                out.append((f'graph {gi}: duplicate ids', 'dup-id'))
            names = [l.name for l in g.edge_labels()]
            if len(set(names)) != len(names):
                out.append((f'graph {gi}: an edge label name denotes two labels', 'label-table'))
        for hi, h in enumerate(self.hrgs):
            for r in h.all_rules():
                if r.lhs.type != r.rhs.type:
                    out.append((f'grammar {hi}: a rule\'s left-hand side does not have the type of its right-hand side', 'rule-typing'))
                if r.lhs.is_terminal:
                    out.append((f'grammar {hi}: terminal lhs', 'rule-lhs'))
            names = [l.name for l in h.edge_labels()]
            if len(set(names)) != len(names):
                out.append((f'grammar {hi}: an edge label name denotes two labels', 'label-table'))
            if h.start is not None and (h.start.is_terminal or not h.has_edge_label_name(h.start.name)):
                out.append((f'grammar {hi}: bad start symbol', 'start'))
        return out


def run_sequence(ctx, seq):
    w = World()
    errs = []
    rule_graphs = set()      # indices of graphs aliased by some rule
    mutated_alias = False
    for step, op in enumerate(seq):
        before = w.observe()
        r = w.apply(op)
        errs.append(r)
        after = w.observe()
        if r != 'ok' and after != before:
            ctx.fail(f'a call that raised {r} changed the object', dict(ops=[list(map(_js, o)) for o in seq], step=step),
                     after, before, tags=['non-atomic', op[0]])
        if r == 'ok':
            if op[0] in ('addRule', 'newRule'):
                rule_graphs.add(op[3])
            if op[0] in ('addNode', 'removeNode', 'addEdge', 'removeEdge', 'setExt') and op[1] in rule_graphs:
                mutated_alias = True
        for msg, tag in w.invariant_failures():
            tags = ['invariant', tag] + (['mutation-after-rule'] if mutated_alias else [])
            ctx.fail(msg, dict(ops=[list(map(_js, o)) for o in seq], step=step), msg, 'invariant of C16', tags=tags)
    # == is reflexive, symmetric; copies are equal right after the copy (checked by the model comparison too)
    m = w.eq_matrix()
    n = len(w.graphs)
    for i in range(n):
        if m[i * n + i] != 'T':
            ctx.fail('== is not reflexive', dict(ops=[list(map(_js, o)) for o in seq]), m, None, tags=['eq'])
        for j in range(n):
            if m[i * n + j] != m[j * n + i]:
                ctx.fail('== is not symmetric', dict(ops=[list(map(_js, o)) for o in seq]), m, None, tags=['eq'])
    return w, errs, mutated_alias


def _js(x):
    return list(x) if isinstance(x, tuple) else x


def run_copy_tables(ctx):
    """copies carry the WHOLE label tables of their originals (and domains / factors): also labels that were registered
    (add_node_label / add_edge_label / add_domain / add_factor / new_finite_factor) but are used by no node, edge or rule"""
    from fggs import FactorGraph, FGG, FiniteDomain, FiniteFactor
    def tables(o):
        t = dict(node_labels=sorted(l.name for l in o.node_labels()), edge_labels=sorted((l.name, l.is_terminal) for l in o.edge_labels()),
                 terminals=sorted(l.name for l in o.terminals()), nonterminals=sorted(l.name for l in o.nonterminals()))
        if hasattr(o, 'domains'):
            t['domains'] = sorted(o.domains)
            t['factors'] = sorted(o.factors)
        return t
    n = 30 if ctx.quick else 400
    for k in range(n):
        for cls in ('Graph', 'HRG', 'FactorGraph', 'FGG'):
            A, B, U = NodeLabel('A'), NodeLabel('B'), NodeLabel('Unused%d' % (k % 3))
            ta = EdgeLabel('ta', [A], is_terminal=True)
            tu = EdgeLabel('t_unused', [A, B], is_terminal=True)
            X = EdgeLabel('X', [A], is_nonterminal=True)
            xu = EdgeLabel('X_unused', [], is_nonterminal=True)
            g = Graph() if cls in ('Graph', 'HRG', 'FGG') else FactorGraph()
            v = Node(A, 'v')
            g.add_node(v)
            if ctx.rng.random() < 0.8:
                g.add_edge(Edge(ta, [v], id='e'))
            if cls in ('Graph', 'FactorGraph'):
                o = g
            else:
                o = HRG(X) if cls == 'HRG' else FGG(X)
                g.ext = [v]
                o.add_rule(HRGRule(X, g))
            regs = []
            for what, fn in [('node-label', lambda: o.add_node_label(U)), ('edge-label', lambda: o.add_edge_label(tu)),
                             ('nonterminal-label', lambda: o.add_edge_label(xu))]:
                if ctx.rng.random() < 0.7:
                    fn(); regs.append(what)
            if cls in ('FactorGraph', 'FGG'):
                if ctx.rng.random() < 0.7:
                    o.add_domain(A, FiniteDomain([0, 1])); regs.append('domain-used')
                    if ctx.rng.random() < 0.7:
                        o.add_domain(B, FiniteDomain(['p'])); regs.append('domain-unused')
                        if 'edge-label' in regs and ctx.rng.random() < 0.8:
                            o.add_factor(tu, FiniteFactor([o.domains['A'], o.domains['B']], [[1.0], [2.0]])); regs.append('factor-unused')
            cp = o.copy()
            case = dict(host=cls, registered=regs)
            ctx.case(case, ('copy-tables', cls, tuple(regs)), sample_every=60)
            ctx.count(f'copy-tables.{cls}')
            a, b = tables(o), tables(cp)
            ctx.evaluations += 1
            if a != b:
                diff = {key: (a[key], b[key]) for key in a if a[key] != b[key]}
                ctx.fail(f'a copy of a {cls} does not carry the label tables / interpretation of its original: ' + repr(diff)[:300], case, b, a,
                         tags=['copy', 'label-tables', cls])
            if not (cp == o) or (cp != o):
                ctx.fail(f'a copy of a {cls} is not equal to its original', case, None, None, tags=['copy', 'not-equal', cls])
            # a label declared on the original resolves on the copy as well
            if 'factor-unused' in regs:
                try:
                    if cp.factors['t_unused'] != o.factors['t_unused']:
                        ctx.fail('the factor of an unused label differs on the copy', case, None, None, tags=['copy', 'label-tables', cls])
                except KeyError:
                    ctx.fail('the factor of an unused label is missing on the copy', case, None, None, tags=['copy', 'label-tables', cls])


def run(ctx):
    run_edge_arity(ctx)
    run_edge_iterables(ctx)
    run_fgg_copies(ctx)
    run_copy_tables(ctx)
    ops = op_instances()
    seqs = []
    # exhaustive length 2 over a reduced op list (graph 0 / grammar 0 only) after a fixed prologue
    base = [o for o in ops if (len(o) < 2 or o[1] in (0, None, 2, 4)) and o[0] not in ('newGraph',)]
    pro = [('newGraph',), ('newHRG', 2)]
    small = [o for o in base if o[0] != 'addEdge' or (o[4] == 0 and o[2] in (0, 1, 2, 3))]
    pairs = list(itertools.product(small, repeat=2))
    if ctx.quick:
        pairs = ctx.rng.sample(pairs, min(len(pairs), 2500))
    seqs += [pro + list(p) for p in pairs]
    nrand = 1500 if ctx.quick else 20000
    for _ in range(nrand):
        L = ctx.rng.randint(3, 10 if ctx.quick else 14)
        s = [('newGraph',), ctx.rng.choice([('newHRG', 2), ('newHRG', None), ('newGraph',)])]
        # bias towards sequences that build something and then break/alias it
        for _ in range(L):
            s.append(ctx.rng.choice(ops))
        seqs.append(s)
    # corpus: the minimal history of the recorded finding D13d runs first on every run
    seqs.insert(0, [('newGraph',), ('newHRG', 2), ('newRule', 0, 5, 0), ('setExt', 0, (0,))])
    reqs, meta = [], []
    for seq in seqs:
        w, errs, mutated_alias = run_sequence(ctx, seq)
        nontriv = any(e != 'ok' for e in errs) or mutated_alias or any(o[0] in ('copyGraph', 'copyHRG') for o in seq)
        ctx.case(dict(ops=[enc_op(o) for o in seq], outcomes=errs), tuple(map(str, seq)) if nontriv else None, sample_every=700)
        for e in errs:
            ctx.count('outcome.' + e)
        reqs.append(f'C16.run {len(seq)} ' + ' '.join(enc_op(o) for o in seq))
        meta.append((seq, errs, w.observe(), w.eq_matrix(), mutated_alias))
    for (seq, errs, obs, eqm, mutated_alias), rep in zip(meta, ctx.driver.ask_many(reqs)):
        if isinstance(rep, Exception): raise rep
        outs, mstate, meq = rep.split(' | ')
        toks = outs.split()
        merrs = toks[0::3]
        minv = toks[1::3]
        mtyp = toks[2::3]
        case = dict(ops=[enc_op(o) for o in seq])
        if merrs != errs:
            ctx.disagree('G.step: exception classes', case, errs, merrs)
        elif mstate.split() != obs.split():
            ctx.disagree('G.step: observable state after the sequence', case, obs, mstate)
        elif meq.strip() != eqm:
            ctx.disagree('G.Graph.eq: == matrix', case, eqm, meq)
        if 'F' in minv:
            ctx.disagree('G.storeInv is false on a reachable model state (theorem C16.step_preserves_inv would be contradicted)', case, None, minv)
        if 'F' in mtyp and not mutated_alias:
            ctx.disagree('G.ruleTyping false without mutation of an aliased graph', case, None, mtyp)


def run_edge_arity(ctx):
    """Edge(label, nodes) with a number of nodes different from the label's arity (the nodes present carrying the right
    labels) must be rejected: otherwise an ill-typed edge can be put into a graph"""
    for li in range(len(ELS)):
        ty = ELS[li][1]
        by_lab = {0: [k for k in range(len(NODES)) if NODE_LAB[k] == 0], 1: [k for k in range(len(NODES)) if NODE_LAB[k] == 1]}
        full = [by_lab[l][0] for l in ty]
        variants = [full[:n] for n in range(len(ty))] + [full + [by_lab[l][-1]] for l in (0, 1)] + [full + [by_lab[0][0], by_lab[1][0]]]
        for ns in variants:
            case = dict(label=el_code(mk_label(li)), nodes=[enc_node(k) for k in ns])
            ctx.case(case, ('edge-arity', li, tuple(ns)))
            ctx.count('edge-arity')
            try:
                e = Edge(mk_label(li), [NODES[k] for k in ns], id='arity')
            except ValueError:
                continue
            except Exception as ex:  # noqa
                ctx.fail(f'Edge() with {len(ns)} nodes for a label of arity {len(ty)} raised {type(ex).__name__}, not ValueError', case, repr(ex), 'ValueError',
                         tags=['edge-arity', 'other-exception'])
                continue
            g = Graph()
            try:
                g.add_edge(e)
                inside = True
            except Exception:
                inside = False
            ctx.fail(f'Edge() accepts {len(ns)} nodes for a label of arity {len(ty)}' + (' and add_edge puts it into a graph' if inside else ''),
                     case, 'accepted', 'ValueError', tags=['edge-arity', 'accepted'])


def run_edge_iterables(ctx):
    """Edge(label, nodes) is declared for any Iterable of nodes: a one-shot iterable (generator, iterator, map) must give the same edge as
    the list of its elements (D48: the label check consumed the iterator and the edge was stored with nodes == ())"""
    for li in range(len(ELS)):
        ty = ELS[li][1]
        by_lab = {0: [k for k in range(len(NODES)) if NODE_LAB[k] == 0], 1: [k for k in range(len(NODES)) if NODE_LAB[k] == 1]}
        ns = [by_lab[l][0] for l in ty]
        want = tuple(NODES[k] for k in ns)
        forms = {'generator': lambda: (NODES[k] for k in ns), 'iterator': lambda: iter([NODES[k] for k in ns]),
                 'map': lambda: map(lambda k: NODES[k], ns), 'tuple': lambda: tuple(NODES[k] for k in ns)}
        for fname, mk in forms.items():
            case = dict(label=el_code(mk_label(li)), nodes=[enc_node(k) for k in ns], form=fname)
            ctx.case(case, ('edge-iterable', li, fname) if ty else None)
            ctx.count('edge-iterable')
            try:
                e = Edge(mk_label(li), mk(), id='it')
            except Exception as ex:  # noqa
                ctx.fail(f'Edge() given its nodes as a {fname} raised {type(ex).__name__}', case, repr(ex), 'an edge', tags=['edge-iterable', 'raises', fname])
                continue
            if e.nodes != want:
                ctx.fail(f'Edge() given its {len(want)} nodes as a {fname} stores nodes == {e.nodes!r}: the edge does not carry the nodes its label demands',
                         case, [str(v) for v in e.nodes], [str(v) for v in want], tags=['edge-iterable', 'nodes-lost', fname])


def run_fgg_copies(ctx):
    """copies of FGGs / FactorGraphs are equal to and independent of their originals, including domains and factor WEIGHTS:
    mutations of either side (in place on the weight tensors, through setters, through add/new calls) leave the other unchanged"""
    import copy as _copy, math as _math, torch as _torch
    from . import gen as _gen
    from .c18 import snap_fgg
    n = 40 if ctx.quick else 600
    for k in range(n):
        shape = _gen.random_shape(ctx.rng, recursive=ctx.rng.random() < 0.3, n_nts=(1, 3), rules_per_nt=(1, 2), start_arity=(0, 1),
                                  weights=lambda r: r.choice([0.5, 1.0, 2.0, 3.0]))
        fgg, info = _gen.build_fgg(shape, ids=ctx.rng.choice(['implicit', 'explicit']), domain_kind=ctx.rng.choice(['finite', 'range']),
                                   dtype=_torch.get_default_dtype())
        for direction in ('mutate-copy', 'mutate-original'):
            orig = fgg.copy() if direction == 'mutate-original' else fgg
            cp = orig.copy()
            case = dict(shape=shape, direction=direction)
            ctx.case(case, ('fgg-copy', repr(shape), direction), sample_every=40)
            ctx.count('fgg-copy')
            if not (cp == orig) or not (orig == cp):
                ctx.fail('a copy of an FGG is not equal to its original', case, None, None, tags=['copy', 'not-equal'])
            victim, other = (cp, orig) if direction == 'mutate-copy' else (orig, cp)
            before = snap_fgg(other)
            muts = []
            facs = list(victim.factors.values())
            if facs:
                f = ctx.rng.choice(facs)
                m = ctx.rng.choice(['imul', 'itruediv', 'log_', 'physical-neg_', 'setter'])
                muts.append(m)
                try:
                    if m == 'imul': f.weights *= 3.0
                    elif m == 'itruediv': f.weights /= 2.0
                    elif m == 'log_': f.weights.log_()
                    elif m == 'physical-neg_': f.weights.physical.neg_()
                    else: f.weights = (f.weights.to_dense() + 1.0)
                except Exception as ex:  # noqa
                    muts.append('raised ' + type(ex).__name__)
            try:
                nl = NodeLabel('Q%d' % k)
                victim.add_node_label(nl)
                victim.new_finite_domain(nl.name, ['u', 'v'])
                muts.append('new-domain')
            except Exception as ex:  # noqa
                muts.append('domain raised ' + type(ex).__name__)
            try:
                rhs = Graph()
                victim.new_rule(victim.start.name, rhs) if victim.start.arity == 0 else None
                muts.append('new-rule')
            except Exception as ex:  # noqa
                muts.append('rule raised ' + type(ex).__name__)
            after = snap_fgg(other)
            ctx.evaluations += 1
            if after != before:
                from .c18 import diff_snap
                ctx.fail(f'mutating {"the copy" if direction == "mutate-copy" else "the original"} of an FGG ({", ".join(muts)}) changed the other one: '
                         + diff_snap(before, after), case, muts, None, tags=['copy', 'not-independent'])


def replay(ctx, rep):
    run(ctx)
    return bool(ctx.failures or ctx.disagreements)
