"""Grammar shapes: plain-data descriptions of HRGs/FGGs that can be (a) built through the public
fggs API in many presentations, (b) encoded for the Lean driver, (c) shrunk.

shape = dict(
  nls   = [size, ...]                      node label i is named f'N{i}', domain range(size)
  terms = [[nl, ...], ...]                 terminal i is named f't{i}', type = node-label indices
  nts   = [[nl, ...], ...]                 nonterminal i is named f'X{i}'
  start = nonterminal index
  rules = [dict(lhs=nt, nodes=[nl,...], ext=[node,...], edges=[(kind, idx, [node,...]), ...])]
          kind 't' | 'n'
  weights = {terminal index: flat row-major list of python floats}   (FGG only)
)
Edge-label numbering for the driver: terminals 0..T-1, then nonterminals T..T+N-1.
"""
from __future__ import annotations
import itertools, math, random
import torch
import fggs
from fggs import NodeLabel, EdgeLabel, Node, Edge, Graph, HRG, HRGRule, FGG, FiniteDomain, RangeDomain, FiniteFactor
from .common import enc_ext, enc_list


def prod(xs):
    r = 1
    for x in xs:
        r *= x
    return r


def random_shape(rng: random.Random, *, recursive=False, n_nls=(1, 2), dom_sizes=(1, 2, 3), n_terms=(1, 3),
                 n_nts=(1, 3), rules_per_nt=(0, 2), n_nodes=(0, 4), n_edges=(0, 3), max_arity=2,
                 start_arity=(0, 1), p_isolated=0.25, p_repeat_att=0.15, p_ruleless=0.1, p_rep_ext=0.0,
                 linear=False, weights=None, max_cells=4000):
    """Sample a grammar shape.  Non-recursive shapes use rank order: a rule of X_i only uses X_j, j > i."""
    while True:
        nls = [rng.choice(dom_sizes) for _ in range(rng.randint(*n_nls))]
        def rtype(maxar):
            return [rng.randrange(len(nls)) for _ in range(rng.randint(0, maxar))]
        terms = [rtype(max_arity) for _ in range(rng.randint(*n_terms))]
        nts = [rtype(max_arity) for _ in range(rng.randint(*n_nts))]
        nts[0] = [rng.randrange(len(nls)) for _ in range(rng.randint(*start_arity))]
        rules = []
        for i, ty in enumerate(nts):
            k = rng.randint(*rules_per_nt)
            if i == 0:
                k = max(k, 1)
            if rng.random() < p_ruleless and i > 0:
                k = 0
            for _ in range(k):
                rules.append(random_rule(rng, i, ty, nls, terms, nts, recursive, n_nodes, n_edges,
                                         p_isolated, p_repeat_att, p_rep_ext, linear))
        shape = dict(nls=nls, terms=terms, nts=nts, start=0, rules=rules)
        if cells(shape) <= max_cells:
            break
    if weights is not None:
        shape['weights'] = {i: [weights(rng) for _ in range(prod(nls[l] for l in ty))] for i, ty in enumerate(terms)}
    return shape


def random_rule(rng, lhs, ty, nls, terms, nts, recursive, n_nodes, n_edges, p_isolated, p_repeat_att, p_rep_ext, linear):
    # external nodes first (types must match lhs), then internal ones
    nodes = list(ty)
    ext = list(range(len(ty)))
    if p_rep_ext and len(ty) >= 2 and rng.random() < p_rep_ext:
        # repeat an external node where the type allows it
        i, j = rng.sample(range(len(ty)), 2)
        if ty[i] == ty[j]:
            ext[j] = ext[i]
    for _ in range(rng.randint(*n_nodes)):
        nodes.append(rng.randrange(len(nls)))
    rng_nodes = list(range(len(nodes)))
    edges = []
    usable_nts = list(range(len(nts))) if recursive else list(range(lhs + 1, len(nts)))
    n_nt_edges = 0
    for _ in range(rng.randint(*n_edges)):
        if usable_nts and rng.random() < 0.45 and not (linear and n_nt_edges >= 1):
            kind, idx = 'n', rng.choice(usable_nts)
            lty = nts[idx]
            n_nt_edges += 1
        else:
            kind, idx = 't', rng.randrange(len(terms))
            lty = terms[idx]
        att = []
        ok = True
        for l in lty:
            cands = [v for v in rng_nodes if nodes[v] == l]
            if not cands or rng.random() < 0.2:
                nodes.append(l)
                rng_nodes.append(len(nodes) - 1)
                cands = [len(nodes) - 1]
            if att and rng.random() < p_repeat_att:
                same = [v for v in att if nodes[v] == l]
                if same:
                    cands = same
            att.append(rng.choice(cands))
        edges.append((kind, idx, att))
    if rng.random() > p_isolated:
        # drop isolated internal nodes (keep externals): renumber
        used = set(ext) | {v for _, _, att in edges for v in att}
        keep = [v for v in range(len(nodes)) if v in used]
        ren = {v: i for i, v in enumerate(keep)}
        nodes = [nodes[v] for v in keep]
        ext = [ren[v] for v in ext]
        edges = [(k, i, [ren[v] for v in att]) for k, i, att in edges]
    return dict(lhs=lhs, nodes=nodes, ext=ext, edges=edges)


def cells(shape):
    """a bound on the work of brute force: max over rules of the assignment space"""
    nls = shape['nls']
    return max([prod(nls[l] for l in r['nodes']) for r in shape['rules']] + [1])


# ------------------------------------------------------------------ building through the public API

def nl_name(i): return f'N{i}'
def t_name(i): return f't{i}'
def nt_name(i): return f'X{i}'


def build_hrg(shape, *, ids='implicit', rule_order=None, node_perm=None, edge_perm=None, names=None, cls=HRG, rng=None):
    """Build through the public API.  ids: 'implicit' | 'explicit' | 'mixed'.  Returns (grammar, info)
    where info maps shape positions to the created objects."""
    nm = names or {}
    NL = [NodeLabel(nm.get(('nl', i), nl_name(i))) for i in range(len(shape['nls']))]
    TL = [EdgeLabel(nm.get(('t', i), t_name(i)), [NL[l] for l in ty], is_terminal=True) for i, ty in enumerate(shape['terms'])]
    XL = [EdgeLabel(nm.get(('n', i), nt_name(i)), [NL[l] for l in ty], is_nonterminal=True) for i, ty in enumerate(shape['nts'])]
    g = cls(XL[shape['start']])
    info = dict(NL=NL, TL=TL, XL=XL, rules=[])
    order = rule_order if rule_order is not None else list(range(len(shape['rules'])))
    for ri in order:
        r = shape['rules'][ri]
        rhs = Graph()
        nperm = node_perm[ri] if node_perm else list(range(len(r['nodes'])))
        eperm = edge_perm[ri] if edge_perm else list(range(len(r['edges'])))
        nodes = {}
        # ids == 'derived': external nodes are called a, b, c, ...; every other node gets a DECORATION of the name of an earlier node with
        # the same label (a', a'', a_1, a1, a copy, ...): the names a piece of code that invents a "fresh" id by decorating an existing
        # one would produce
        dnames = {}
        if ids == 'derived':
            R = rng or random
            used = set()
            for j, v in enumerate(dict.fromkeys(r['ext'])):
                dnames[v] = 'abcdefgh'[j % 8] + ('' if j < 8 else str(j)); used.add(dnames[v])
            for v in range(len(r['nodes'])):
                if v in dnames:
                    continue
                same = [u for u in dnames if r['nodes'][u] == r['nodes'][v]] or list(dnames) or None
                base = dnames[R.choice(same)] if same else 'v'
                for dec in R.sample(["'", "''", "_1", "1", " copy", "_", "'1", "_2"], 8):
                    if base + dec not in used:
                        break
                dnames[v] = base + dec if base + dec not in used else f'{base}#{v}'
                used.add(dnames[v])
        for v in nperm:
            explicit = ids in ('explicit', 'derived') or (ids == 'mixed' and (rng or random).random() < 0.5)
            nid = dnames[v] if ids == 'derived' else (f'r{ri}v{v}' if explicit else None)
            nodes[v] = Node(NL[r['nodes'][v]], id=nid)
            rhs.add_node(nodes[v])
        edges = {}
        for ei in eperm:
            kind, idx, att = r['edges'][ei]
            explicit = ids in ('explicit', 'derived') or (ids == 'mixed' and (rng or random).random() < 0.5)
            eid = (("e" + "'" * ei) if ids == 'derived' else f'r{ri}e{ei}') if explicit else None
            edges[ei] = Edge(TL[idx] if kind == 't' else XL[idx], [nodes[v] for v in att], id=eid)
            rhs.add_edge(edges[ei])
        rhs.ext = [nodes[v] for v in r['ext']]
        rule = HRGRule(XL[r['lhs']], rhs)
        g.add_rule(rule)
        info['rules'].append(dict(index=ri, rule=rule, nodes=nodes, edges=edges))
    # labels that occur in no rule still belong to the grammar
    for el in TL + XL:
        g.add_edge_label(el)
    for nl in NL:
        g.add_node_label(nl)
    return g, info


def build_fgg(shape, *, dtype=torch.float64, semiring='real', domain_kind='finite', weight_map=None, **kw):
    g, info = build_hrg(shape, cls=FGG, **kw)
    for i, size in enumerate(shape['nls']):
        dom = FiniteDomain([f'v{j}' for j in range(size)]) if domain_kind == 'finite' else RangeDomain(size)
        g.add_domain(info['NL'][i], dom)
    for i, ty in enumerate(shape['terms']):
        w = shape['weights'][i]
        if weight_map:
            w = [weight_map(x) for x in w]
        shp = [shape['nls'][l] for l in ty]
        if semiring == 'bool':
            t = torch.tensor(w, dtype=torch.bool).reshape(shp)
        else:
            t = torch.tensor(w, dtype=dtype).reshape(shp)
        g.add_factor(info['TL'][i], FiniteFactor([g.domains[info['NL'][l].name] for l in ty], t))
    return g, info


# ------------------------------------------------------------------ encoding for the driver

def enc_shape(shape, weights=True, wenc=enc_ext) -> str:
    """`nls terms nts start rules [weights]` in the driver's token format"""
    T = len(shape['terms'])
    out = [enc_list(shape['nls'])]
    out.append(enc_list(shape['terms'], lambda ty: enc_list(ty)))
    out.append(enc_list(shape['nts'], lambda ty: enc_list(ty)))
    out.append(str(shape['start']))
    def enc_rule(r):
        es = enc_list(r['edges'], lambda e: f"{e[1] if e[0] == 't' else T + e[1]} {enc_list(e[2])}")
        return f"{r['lhs']} {enc_list(r['nodes'])} {enc_list(r['ext'])} {es}"
    out.append(enc_list(shape['rules'], enc_rule))
    if weights:
        out.append(enc_list(range(T), lambda i: enc_list(shape['weights'][i], wenc)))
    return ' '.join(out)


def ntview(shape):
    """what nonterminal_graph sees, for `C19.ntgraph`: nonterminals in label-table order, rules in
    all_rules() order (grouped by lhs in order of first rule)"""
    return shape


def shrink_candidates(shape):
    """smaller shapes: drop a rule, drop an edge, drop an isolated node"""
    for i in range(len(shape['rules'])):
        s = dict(shape, rules=shape['rules'][:i] + shape['rules'][i + 1:])
        if any(r['lhs'] == shape['start'] for r in s['rules']):
            yield s
    for i, r in enumerate(shape['rules']):
        for j in range(len(r['edges'])):
            r2 = dict(r, edges=r['edges'][:j] + r['edges'][j + 1:])
            yield dict(shape, rules=shape['rules'][:i] + [r2] + shape['rules'][i + 1:])


def shrink(shape, still_fails, budget=200):
    cur = shape
    changed = True
    while changed and budget > 0:
        changed = False
        for cand in shrink_candidates(cur):
            budget -= 1
            if budget <= 0:
                break
            try:
                if still_fails(cand):
                    cur = cand
                    changed = True
                    break
            except Exception:
                continue
    return cur
