"""C10 — tree decompositions.  Every output of tree_decomposition (min_fill, quickbb, acb) is fed to
the Lean decider `TD.validTD`; widths of quickbb/acb are compared with the treewidth computed in Lean
by exhaustive minimisation over elimination orders; min_fill and tree_decomposition_from_order are
compared exactly with their literal models."""
import itertools, os
from fggs import factorize as F
from .common import enc_list, Toks

RULE = ('all labelled simple graphs on <= 4 vertices in one insertion order + all on 5 vertices (quick: a seeded sample of 300; '
        'thorough: all 1024 and a sample of 6-vertex graphs) + random graphs on 6..8 vertices incl. disconnected, isolated vertices, '
        'cliques, trees, cycles, grids; x {min_fill, quickbb, acb} x 2 insertion orders; non-trivial = at least one edge')
ASSUMPTIONS = ['acb_connected soundness/completeness and quickbb optimality are not proved: decided per output by validTD and the exhaustive treewidth (<= 8 vertices)',
               'set iteration order inside factorize.py is not modelled (it never influences the compared results)']


HARD = [
    (9, [(0, 3), (0, 5), (0, 6), (0, 8), (1, 5), (1, 7), (2, 4), (2, 5), (2, 6), (3, 5), (3, 7), (3, 8), (4, 5), (4, 8), (5, 6), (5, 8), (6, 8), (7, 8)]),
    (9, [(0, 1), (0, 3), (0, 7), (1, 2), (1, 4), (1, 8), (2, 4), (2, 6), (2, 8), (3, 4), (3, 6), (3, 8), (4, 5), (4, 8), (5, 7), (5, 8), (6, 7), (6, 8), (7, 8)]),
    (9, [(0, 2), (0, 4), (0, 5), (0, 8), (1, 3), (1, 4), (1, 6), (2, 6), (2, 7), (3, 8), (4, 7), (5, 6), (5, 7), (7, 8)]),
    (9, [(0, 1), (0, 4), (0, 7), (1, 2), (1, 6), (1, 8), (2, 3), (2, 7), (2, 8), (3, 4), (3, 5), (4, 8), (5, 6), (5, 7), (5, 8), (6, 8), (7, 8)]),
    (10, [(0, 2), (0, 6), (0, 7), (0, 8), (1, 6), (1, 7), (1, 8), (2, 4), (2, 5), (2, 7), (3, 4), (3, 5), (3, 6), (3, 8), (3, 9), (4, 5), (4, 7), (5, 9), (6, 9), (7, 9), (8, 9)]),
    (10, [(0, 2), (0, 3), (0, 4), (0, 5), (0, 7), (0, 8), (0, 9), (1, 5), (1, 7), (1, 8), (2, 8), (2, 9), (3, 4), (3, 5), (3, 6), (4, 5), (4, 9), (5, 6), (6, 7), (6, 8), (6, 9), (7, 9)]),
    (10, [(0, 5), (0, 6), (0, 7), (1, 2), (1, 4), (1, 7), (1, 9), (2, 3), (2, 9), (3, 4), (3, 6), (3, 8), (4, 5), (4, 6), (4, 9), (5, 8), (5, 9), (6, 8), (7, 9), (8, 9)]),
    # found by tools/find_hard_graphs.py (32000 random graphs on 8..11 vertices, exact treewidth by subset DP; quickbb and acb of the
    # current tree were optimal on all of them): graphs on which flawed variants of quickbb's reduction / bound rules (almost-simplicial
    # test replaced by a fill-in count, "simplicial" widened to almost simplicial, lower bound off by one) lose the optimum
    (9, [(0, 1), (0, 2), (0, 3), (0, 6), (0, 8), (1, 3), (1, 4), (1, 5), (2, 5), (2, 7), (3, 4), (3, 6), (3, 7), (4, 5), (4, 6), (4, 7), (5, 6), (6, 7)]),
    (9, [(0, 1), (0, 2), (0, 5), (0, 7), (0, 8), (1, 2), (1, 3), (1, 4), (2, 4), (2, 5), (2, 6), (2, 7), (2, 8), (3, 5), (3, 7), (3, 8), (4, 6), (4, 7), (5, 6), (6, 8)]),
    (9, [(0, 2), (0, 7), (0, 8), (1, 2), (1, 3), (1, 4), (1, 5), (1, 6), (1, 8), (2, 3), (2, 4), (2, 5), (3, 4), (3, 6), (3, 7), (3, 8), (4, 5), (4, 6), (4, 8), (5, 6), (5, 7), (6, 7), (6, 8)]),
]


def graphs_n(n):
    pairs = list(itertools.combinations(range(n), 2))
    for m in range(2 ** len(pairs)):
        adj = {i: set() for i in range(n)}
        for b, (i, j) in enumerate(pairs):
            if m >> b & 1:
                adj[i].add(j); adj[j].add(i)
        yield adj


def enc_ug(order, adj):
    return enc_list(order, lambda v: f'{v} {enc_list(sorted(adj[v]))}')


def enc_tree(t):
    bags = list(t)
    return enc_list(bags, lambda b: f'{enc_list(sorted(b))} {enc_list(list(t[b]), lambda c: enc_list(sorted(c)))}')


def parse_tree(t):
    return t.list(lambda: (t.list(t.nat), t.list(lambda: t.list(t.nat))))


def run(ctx):
    cases = []
    for n in range(0, 5):
        for adj in graphs_n(n):
            cases.append((list(range(n)), adj))
    g5 = list(graphs_n(5))
    if ctx.quick:
        g5 = ctx.rng.sample(g5, 300)
    cases += [(list(range(5)), a) for a in g5]
    if not ctx.quick:
        g6 = list(graphs_n(6))
        cases += [(list(range(6)), a) for a in ctx.rng.sample(g6, 3000)]
    for _ in range(60 if ctx.quick else 1500):
        n = ctx.rng.randint(6, 8)
        p = ctx.rng.choice([0.15, 0.3, 0.5, 0.8])
        adj = {i: set() for i in range(n)}
        for i, j in itertools.combinations(range(n), 2):
            if ctx.rng.random() < p:
                adj[i].add(j); adj[j].add(i)
        cases.append((list(range(n)), adj))
    # structured: grid 2x3/3x3, cycle, star, clique, path + isolated vertex
    def from_edges(n, es):
        adj = {i: set() for i in range(n)}
        for a, b in es:
            adj[a].add(b); adj[b].add(a)
        return (list(range(n)), adj)
    cases.append(from_edges(6, [(0, 1), (1, 2), (3, 4), (4, 5), (0, 3), (1, 4), (2, 5)]))
    cases.append(from_edges(8, [(0, 1), (1, 2), (3, 4), (4, 5), (0, 3), (1, 4), (2, 5), (6, 3), (7, 6)]))
    cases.append(from_edges(7, [(i, (i + 1) % 7) for i in range(7)]))
    cases.append(from_edges(7, [(0, i) for i in range(1, 7)]))
    cases.append(from_edges(6, list(itertools.combinations(range(6), 2))))
    cases.append(from_edges(4, [(0, 1), (1, 2)]))          # path + isolated vertex (D10 corpus)
    # corpus: graphs on which min_fill is NOT optimal (found by an offline search), so that the exact methods
    # are only right if their search/chart really improves on the upper bound
    for nn, es in HARD:
        cases.append(from_edges(nn, es))
    # the same graphs with an ISOLATED vertex (minor_min_width stops at a degree-0 vertex, so the global lower bound is 0 and the
    # search is not cut short by lb == ub) and with a pendant vertex: the branch and bound has to find the optimum by itself
    for nn, es in HARD[:4 if ctx.quick else len(HARD)]:
        cases.append(from_edges(nn + 1, es))
        cases.append(from_edges(nn + 1, list(es) + [(0, nn)]))
    reqs, meta = [], []
    for order0, adj in cases:
        orders = [order0]
        if len(order0) >= 2:
            o2 = order0[:]; ctx.rng.shuffle(o2); orders.append(o2)
        for order in orders:
            g = {v: set(adj[v]) for v in order}
            nontriv = any(adj[v] for v in order)
            ctx.case(dict(order=order, adj={str(v): sorted(adj[v]) for v in order}),
                     (tuple(order), tuple(tuple(sorted(adj[v])) for v in order)) if nontriv else None, sample_every=400)
            ctx.count(f'n={len(order)}')
            e = enc_ug(order, adj)
            case = dict(order=order, adj={str(v): sorted(adj[v]) for v in order})
            # min_fill: exact model + reported width
            dmax, mf_order = F.min_fill({v: set(adj[v]) for v in order})
            t_mf = F.tree_decomposition_from_order({v: set(adj[v]) for v in order}, mf_order)
            reqs.append(f'C10.minfill {e}'); meta.append(('minfill', case, (dmax, mf_order, t_mf)))
            for method in ('min_fill', 'quickbb', 'acb'):
                gg = {v: set(adj[v]) for v in order}
                try:
                    t = F.tree_decomposition(gg, method=method)
                except Exception as ex:  # noqa
                    ctx.fail(f'tree_decomposition(method={method}) raised {type(ex).__name__}', case, repr(ex), None, tags=['raises', method])
                    continue
                reqs.append(f'C10.check {e} {enc_tree(t)}'); meta.append((method, case, t))
            # bounds bracket the treewidth (checked against the model's tw below)
            lb = F.lower_bound({v: set(adj[v]) for v in order})
            ub = F.upper_bound({v: set(adj[v]) for v in order})[0]
            meta[-1] = meta[-1] + ((lb, ub),)
    tws = {}
    for m, rep in zip(meta, ctx.driver.ask_many(reqs)):
        if isinstance(rep, Exception): raise rep
        kind, case = m[0], m[1]
        if kind == 'minfill':
            dmax, mf_order, t_mf = m[2]
            t = Toks(rep)
            md = t.nat(); mo = t.list(t.nat); mt = parse_tree(t)
            impl_t = [(sorted(b), [sorted(c) for c in t_mf[b]]) for b in t_mf]
            if (md, mo) != (dmax, mf_order):
                ctx.disagree('TD.minFill vs factorize.min_fill', case, (dmax, mf_order), (md, mo))
            elif [(b, sorted(cs)) for b, cs in mt] != [(b, sorted(cs)) for b, cs in impl_t]:
                ctx.disagree('TD.fromOrder vs tree_decomposition_from_order', case, impl_t, mt)
            w = max(len(b) for b in t_mf) - 1
            ctx.evaluations += 1
            if case['order'] and w != dmax:
                ctx.fail('min_fill reports a width that is not the width of its order\'s decomposition', case, dmax, w, tags=['minfill-width'])
            continue
        valid, w, tw = rep.split()
        t = m[2]
        if valid != 'T':
            ctx.fail(f'tree_decomposition(method={kind}) is not a valid tree decomposition', dict(case, tree=enc_tree(t)), enc_tree(t), 'validTD = false',
                     tags=['invalid-td', kind])
            continue
        wi = max(len(b) for b in t) - 1
        if case['order'] and kind in ('quickbb', 'acb') and wi != int(tw):
            ctx.fail(f'width of the {kind} decomposition ({wi}) is not the treewidth ({tw})', case, wi, int(tw), tags=['not-optimal', kind])
        if case['order'] and kind == 'min_fill' and wi < int(tw):
            ctx.disagree('TD.tw is larger than the width of a valid decomposition (model bug)', case, wi, tw)
        if len(m) > 3:
            lb, ub = m[3]
            ctx.evaluations += 1
            if case['order'] and not (lb <= int(tw) <= ub):
                ctx.fail(f'bounds do not bracket the treewidth: {lb} <= {tw} <= {ub}', case, (lb, ub), int(tw), tags=['bounds'])


def replay(ctx, rep):
    run(ctx)
    return bool(ctx.failures or ctx.disagreements)
