"""C01 — sum-product of non-recursive FGGs.  For every generated grammar, every entry of
sum_products (x semiring x method x dtype) is compared with (a) the model of the code
`Impl.sumProductsNonrec` (sum_product_edges step by step, SCC order as used by the implementation),
(b) the specification `derivSum` = explicit sum over derivations and assignments, (c) Kleene."""
import math, warnings
import torch
import fggs
from . import gen, semgen
from .common import enc_ext, enc_list, Toks

RULE = ('non-recursive grammar shapes by rank: <= 4 nonterminals, <= 2 rules each, <= 4+ nodes, <= 3 edges per rule, arities 0..2, '
        'domain sizes 0..3, start arity 0..2, isolated internal nodes, externals without edges, repeated attachments, nullary factors, '
        'rule-less and unreachable nonterminals, repeated externals (rare); weights {0,1,2,3,1/2,1/4,inf} (Viterbi: {-inf,0,-1,-2,1,3,inf}); '
        'x {Real, Log, Viterbi, Bool} x {fixed-point, newton, linear} x float64 (thorough: float32 too); non-trivial = >= 2 rules and >= 1 edge')
ASSUMPTIONS = ['Real/Viterbi/Bool are compared exactly (all intermediate values representable), Log through exp within 1e-9 (float64)',
               'torch_semiring_einsum and the patterned einsum are exercised, their Lean model is C07']

METHODS = ['fixed-point', 'newton', 'linear']


def gen_shape(rng, dom_sizes=(1, 2, 3, 2, 0)):
    wr = lambda r: r.choice(semgen.REAL_W)
    if rng.random() < 0.3:
        # tiny weights (powers of two, so every value stays exactly representable): sum-products far below the default tolerance 1e-5
        # of the iterative solvers — a non-recursive nonterminal is computed in ONE step and must not be cut off by a stopping test
        tiny = [2.0 ** -12, 2.0 ** -14, 2.0 ** -10, 1.0, 0.5, 2.0 ** -16]
        wr = lambda r: r.choice(tiny)
    shape = gen.random_shape(rng, recursive=False, n_nts=(1, 4), rules_per_nt=(0, 2), n_nodes=(0, 2), n_edges=(0, 3), max_arity=2,
                             start_arity=(0, 2), dom_sizes=dom_sizes, p_isolated=0.3, p_repeat_att=0.2, p_ruleless=0.15,
                             p_rep_ext=0.05, weights=wr, max_cells=600)
    shape['vweights'] = {i: [rng.choice(semgen.VIT_W) for _ in w] for i, w in shape['weights'].items()}
    return shape


def bcast_shape(rng):
    """the broadcast family: nonterminals whose value is constant along some dimensions (an external node attached to no edge, so the
    value is a stride-0 expansion) used with PERMUTED attachments in rules that have no internal node and a left-hand side of arity 2..4:
    a sum-free einsum whose broadcast output dimensions the no-grad path removes and must put back at the right positions"""
    nls = [rng.choice([2, 3, 2])] * 1 if rng.random() < 0.7 else [2, 3]
    terms = [[], [rng.randrange(len(nls))]]
    ar = rng.choice([2, 3, 3, 4])
    sty = [rng.randrange(len(nls)) for _ in range(ar)]
    nts = [sty]
    rules = []
    edges = []
    covered = set()
    for _ in range(rng.choice([1, 1, 2])):
        m = rng.choice([2, 2, 3])
        att = rng.sample(range(ar), min(m, ar))
        yty = [sty[v] for v in att]
        nts.append(yty)
        yi = len(nts) - 1
        edges.append(['n', yi, att])
        covered |= set(att)
        # Y -> c()  with all / all but one external node attached to nothing
        yedges = [['t', 0, []]]
        if rng.random() < 0.4:
            j = rng.randrange(len(yty))
            cand = [i for i, ty in enumerate(terms) if ty == [yty[j]]]
            if cand:
                yedges.append(['t', cand[0], [j]])
        rules.append(dict(lhs=yi, nodes=list(yty), ext=list(range(len(yty))), edges=yedges))
    for v in range(ar):
        cand = [i for i, ty in enumerate(terms) if ty == [sty[v]]]
        if cand and (v not in covered or rng.random() < 0.3):
            edges.append(['t', cand[0], [v]])
    rng.shuffle(edges)
    rules.insert(0, dict(lhs=0, nodes=list(sty), ext=list(range(ar)), edges=edges))
    shape = dict(nls=nls, terms=terms, nts=nts, start=0, rules=rules)
    shape['weights'] = {i: [rng.choice([1.0, 2.0, 3.0, 0.5]) for _ in range(math.prod(nls[l] for l in ty))] for i, ty in enumerate(terms)}
    shape['vweights'] = {i: [rng.choice([0.0, -1.0, -2.0, 1.0]) for _ in w] for i, w in shape['weights'].items()}
    return shape


def run_case(ctx, shape, dtypes, reqs, meta, preqs):
    case = dict(shape={k: v for k, v in shape.items() if k != 'vweights'}, vweights=shape['vweights'])
    nontriv = len(shape['rules']) >= 2 and any(r['edges'] for r in shape['rules'])
    ctx.case(case, repr(shape) if nontriv else None, sample_every=60)
    n = len(shape['nts']) + 1
    order = None
    for name in ('real', 'log', 'viterbi', 'bool'):
        sh = dict(shape, weights=shape['vweights']) if name == 'viterbi' else shape
        for dtype in (dtypes if name != 'bool' else [None]):
            fgg, info = semgen.build(sh, name, dtype or torch.float64)
            if order is None:
                order = semgen.order_of(fgg, info)
            for method in METHODS:
                try:
                    with warnings.catch_warnings():
                        warnings.simplefilter('ignore')
                        res = fggs.sum_products(fgg, method=method, semiring=semgen.semiring_of(name, dtype))
                    out = [semgen.dense_list(res[x]) if x in res else None for x in info['XL']]
                    if any(o is None for o in out):
                        ctx.fail('sum_products has no entry for some nonterminal', case, [o is None for o in out], None, tags=['missing-entry', name])
                    zs = semgen.dense_list(fggs.sum_product(fgg, method=method, semiring=semgen.semiring_of(name, dtype)))
                    if out[shape['start']] is not None and not _same(zs, out[shape['start']]):
                        ctx.fail('sum_product differs from sum_products[start]', case, zs, out[shape['start']], tags=['start-entry', name])
                except Exception as e:  # noqa
                    out = e
                ctx.count(f'{name}.{method}')
                meta_key = (name, str(dtype), method)
                meta.append((case, meta_key, out, dtype))
                op = {'real': 'real', 'log': 'real', 'viterbi': 'viterbi', 'bool': 'bool'}[name]
                reqs.append(f'C01.{op} {gen.enc_shape(sh)} {semgen.enc_order(order)} {n}')
                # the model of the whole driver loop (its own SCC order from the Tarjan model; `Pipe.sumProducts`, the subject of
                # C01.sumProducts_nonrecursive) for the same method
                preqs.append((f'P.sumProducts {op} {gen.enc_shape(sh)} {method} 1000', case, meta_key, out, dtype))


def pipeline(ctx, preqs):
    """`Pipe.sumProducts` (driver loop model) against sum_products: no exception, no warning, same tensors"""
    uniq = {}
    for r in preqs:
        uniq.setdefault(r[0], None)
    for r, rep in zip(list(uniq), ctx.driver.ask_many(list(uniq))):
        uniq[r] = rep
    for req, case, key, out, dtype in preqs:
        rep = uniq[req]
        if isinstance(rep, Exception):
            raise rep
        name, _, method = key
        t = Toks(rep)
        ctx.evaluations += 1
        if t.next() != 'ok':
            ctx.disagree('Pipe.sumProducts raises on a non-recursive grammar', dict(case, config=key), repr(out)[:200], rep[:200])
            continue
        warned, unmodelled = t.bool(), t.bool()
        val = semgen.parse_val(t, (lambda: t.next() == 'T') if name == 'bool' else None)
        if warned or unmodelled:
            ctx.disagree('Pipe.sumProducts warns / leaves the model on a non-recursive grammar', dict(case, config=key), None, rep[:200])
        if isinstance(out, Exception):
            continue          # reported by the main comparison
        for X, (o, m) in enumerate(zip(out, val)):
            if o is not None and not semgen.val_matches(o, m, name, dtype or torch.float64):
                ctx.disagree('Pipe.sumProducts vs sum_products', dict(case, config=key, nonterminal=X), o, repr(m))
                break


def _same(a, b):
    return len(a) == len(b) and all(x == y or (x != x and y != y) for x, y in zip(a, b))


def run(ctx):
    dtypes = [torch.float64] if ctx.quick else [torch.float64, torch.float32]
    reqs, meta, preqs = [], [], []
    n = 60 if ctx.quick else 1200
    for k in range(n):
        run_case(ctx, gen_shape(ctx.rng), dtypes, reqs, meta, preqs)
    for k in range(12 if ctx.quick else 240):
        ctx.count('broadcast-family')
        run_case(ctx, bcast_shape(ctx.rng), dtypes, reqs, meta, preqs)
    pipeline(ctx, preqs)
    # de-duplicate identical requests (same grammar/semiring model) to save driver time
    uniq = {}
    for r in reqs:
        uniq.setdefault(r, None)
    for r, rep in zip(list(uniq), ctx.driver.ask_many(list(uniq))):
        uniq[r] = rep
    for (case, key, out, dtype), req in zip(meta, reqs):
        rep = uniq[req]
        if isinstance(rep, Exception): raise rep
        name, _, method = key
        t = Toks(rep)
        f = (lambda: t.next() == 'T') if name == 'bool' else None
        impl_model = semgen.parse_val(t, f)
        spec = semgen.parse_val(t, f)
        kle = semgen.parse_val(t, f)
        # model-internal: the model of the code equals the specification (what the theorems state)
        def norm(v):
            return [x for x in v]
        if [x if x is not None else None for x in impl_model] != spec and not _val_eq_mod_none(impl_model, spec, name):
            ctx.disagree('Impl.sumProductsNonrec differs from derivSum on this grammar (the C01 theorem would be false)', case, repr(impl_model), repr(spec))
        if isinstance(out, Exception):
            ctx.fail(f'sum_products raised {type(out).__name__}: {out}', dict(case, config=key), repr(out), None,
                     tags=['raises', name, method, type(out).__name__])
            continue
        for X, (o, s, m) in enumerate(zip(out, spec, impl_model)):
            if o is None:
                continue
            if not semgen.val_matches(o, s, name, dtype or torch.float64):
                tags = ['value', name, method]
                ctx.fail(f'sum_products[X{X}] differs from the sum over derivations and assignments', dict(case, config=key, nonterminal=X),
                         o, [str(c) for c in s] if s is not None else None, tags=tags,
                         python=f'# semiring={name} method={method} dtype={dtype}; shape above')
            elif not semgen.val_matches(o, m, name, dtype or torch.float64):
                ctx.disagree('Impl.sumProductsNonrec vs sum_products', dict(case, config=key, nonterminal=X), o, repr(m))


def _val_eq_mod_none(a, b, name):
    """`none` (no value) and an all-zero tensor denote the same value"""
    zero = {'real': '0', 'viterbi': None, 'bool': False}
    for x, y in zip(a, b):
        if x == y:
            continue
        if x is None and y is not None and all(_is_zero(c, name) for c in y):
            continue
        return False
    return len(a) == len(b)


def _is_zero(c, name):
    if name == 'bool':
        return c is False
    if name == 'viterbi':
        return isinstance(c, float) and c == -math.inf
    return c == 0


def replay(ctx, rep):
    run(ctx)
    return bool(ctx.failures or ctx.disagreements)
