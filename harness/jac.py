"""Jacobian correspondence (C03, C11): `fggs.sum_product.J` and `J_precompute_products`, called directly on a MultiTensor of
random small-integer nonterminal values (not necessarily a fixed point), against the model `Pipe.jac` (sum over rules and
edges of the sum-product of the remaining edges, `Impl.sumProductEdges` with the edge's nodes as extra externals), block by
block and cell by cell, exactly (Real on integers/dyadics, Viterbi on integer log-weights)."""
import math
import torch
import fggs
from fggs.sum_product import J, J_precompute_products, FGGMultiShape
from fggs.multi import MultiTensor
from fggs.indices import PatternedTensor
from . import gen, semgen
from .common import enc_ext, enc_list, Toks


def _vals(rng, fgg, info, name, absent_p=0.15):
    """a value per nonterminal: small integers (Real) / integer log-weights and -inf (Viterbi); some nonterminals have no value"""
    out = []
    for X in info['XL']:
        shp = tuple(fgg.shape(X))
        n = 1
        for s in shp:
            n *= s
        if rng.random() < absent_p:
            out.append(None)
        elif name == 'real':
            out.append([float(rng.choice([0, 1, 1, 2, 3])) for _ in range(n)])
        else:
            out.append([rng.choice([-math.inf, 0.0, -1.0, -2.0, 1.0]) for _ in range(n)])
    return out


def enc_val(vals):
    return enc_list(vals, lambda v: 'none' if v is None else 'some ' + enc_list(v, enc_ext))


def early_internal(rule):
    """trigger of the open findings D8b/D8c in J_precompute_products (see c11): a rule with m >= 3 edges and an internal node that
    is isolated or whose edges all lie among the first m-2 or among the last m-2 edges"""
    m = len(rule['edges'])
    if m < 3:
        return False
    for v in range(len(rule['nodes'])):
        if v in rule['ext']:
            continue
        idx = [i for i, (_, _, att) in enumerate(rule['edges']) if v in att]
        if not idx or max(idx) <= m - 3 or min(idx) >= 2:
            return True
    return False


def repeated_attachment(rule):
    """trigger of the open finding D8e in J_precompute_products: an edge attached twice to one node (t(v, v)); the block for that
    edge is built over the de-duplicated nodes and expanded back, so off-diagonal entries get the diagonal's derivative"""
    return any(len(set(att)) < len(att) for _, _, att in rule['edges'])


def jpp_tags(shape):
    return (['jpp-internal-node-outside-some-step'] if any(early_internal(r) for r in shape['rules']) else []) + \
           (['jpp-edge-attached-twice'] if any(repeated_attachment(r) for r in shape['rules']) else [])


def stream(ctx, shape, name, which, case):
    """compare J (which='J') or J_precompute_products (which='JPP') with Pipe.jac on one grammar shape"""
    sh = dict(shape, weights=shape['vweights']) if name == 'viterbi' else shape
    fgg, info = semgen.build(sh, name, torch.float64)
    sr = semgen.semiring_of(name, torch.float64)
    vals = _vals(ctx.rng, fgg, info, name)
    x = MultiTensor(FGGMultiShape(fgg, info['XL']), sr)
    for X, v in zip(info['XL'], vals):
        if v is not None:
            x[X] = PatternedTensor(torch.tensor(v, dtype=torch.float64).reshape(tuple(fgg.shape(X))))
    inputs = {t: fgg.factors[t.name].weights for t in fgg.terminals()}
    fn = J if which == 'J' else J_precompute_products
    cfg = dict(semiring=name, function=fn.__name__, x=[None if v is None else [str(c) for c in v] for v in vals])
    tags_shape = jpp_tags(shape)
    ctx.evaluations += 1
    try:
        with torch.no_grad():
            Jx = fn(fgg, x, inputs, sr)
    except Exception as e:  # noqa
        import traceback
        where = [f.name for f in traceback.extract_tb(e.__traceback__)]
        ctx.count(f'jac.{which}.{name}.raise')
        ctx.fail(f'{fn.__name__} raised {type(e).__name__}: {e}', dict(case, config=cfg), repr(e), None,
                 tags=['jacobian', which, name, type(e).__name__] + (['j_precompute=True', 'in:J_precompute_products'] if which == 'JPP' else []) + tags_shape)
        return
    rep = ctx.driver.ask(f'P.jac {name} {gen.enc_shape(sh)} {enc_val(vals)}')
    t = Toks(rep)
    model = t.list(lambda: t.list(lambda: t.opt(lambda: t.list(t.ext))))
    zero = 0.0 if name == 'real' else -math.inf
    bad = None
    nonzero = False
    for i, X in enumerate(info['XL']):
        for j, Y in enumerate(info['XL']):
            m = model[i][j]
            got = semgen.dense_list(Jx[(X, Y)]) if (X, Y) in Jx else None
            if m is not None and any(not semgen.exact_eq(zero, c, torch.float64) for c in m):
                nonzero = True
            if got is None:
                ok = m is None or all(semgen.exact_eq(zero, c, torch.float64) for c in m)
            elif m is None:
                ok = all(g == zero for g in got)
            else:
                ok = len(got) == len(m) and all(semgen.exact_eq(g, c, torch.float64) for g, c in zip(got, m))
            if not ok and bad is None:
                bad = (i, j, got, None if m is None else [str(c) for c in m])
    ctx.count(f'jac.{which}.{name}.' + ('nonzero' if nonzero else 'zero'))
    if bad is not None:
        i, j, got, m = bad
        ctx.fail(f'{fn.__name__}[X{i}, X{j}] is not the partial derivative of F[X{i}] with respect to X{j} (the sum over rules and '
                 f'edges of the sum-product of the remaining edges)', dict(case, config=cfg, block=[i, j]), got, m,
                 tags=['jacobian', which, name, 'value'] + (['j_precompute=True'] if which == 'JPP' else []) + tags_shape)


def stream_jlog(ctx, shape, case):
    """compare J_log — the Jacobian of F in the Log semiring, "computed in the real semiring": both blocks, Jx over the nonterminals
    and J_inputs over the terminals — with the model Jl.jlogLabel (the two softmaxes as divisions by slice sums over Rat) on one
    grammar shape; values are logarithms of small dyadic rationals, some zero (-inf), some nonterminals without a value"""
    from fggs.sum_product import J_log
    from fggs import RealSemiring
    from fractions import Fraction
    fgg, info = semgen.build(shape, 'log', torch.float64)
    sr = semgen.semiring_of('log', torch.float64)
    vals = []
    for X in info['XL']:
        n = 1
        for s_ in fgg.shape(X): n *= s_
        vals.append(None if ctx.rng.random() < 0.12 else [ctx.rng.choice([0.0, 0.5, 1.0, 1.0, 2.0, 0.25, 3.0]) for _ in range(n)])
    x = MultiTensor(FGGMultiShape(fgg, info['XL']), sr)
    for X, v in zip(info['XL'], vals):
        if v is not None:
            x[X] = PatternedTensor(torch.tensor([math.log(c) if c > 0 else -math.inf for c in v], dtype=torch.float64).reshape(tuple(fgg.shape(X))))
    inputs = {t: fgg.factors[t.name].weights for t in fgg.terminals()}
    terms = info['TL']
    jin = MultiTensor((FGGMultiShape(fgg, info['XL']), FGGMultiShape(fgg, terms)), RealSemiring(dtype=torch.float64))
    cfg = dict(function='J_log', x=[None if v is None else [str(c) for c in v] for v in vals])
    ctx.evaluations += 1
    try:
        with torch.no_grad():
            Jx = J_log(fgg, x, inputs, sr, jin)
    except Exception as e:  # noqa
        ctx.count('jac.JLOG.raise')
        ctx.fail(f'J_log raised {type(e).__name__}: {e}', dict(case, config=cfg), repr(e), None, tags=['jacobian', 'JLOG', type(e).__name__])
        return
    renc = lambda c: str(Fraction(c))
    xenc = enc_list(vals, lambda v: 'none' if v is None else 'some ' + enc_list(v, renc))
    rep = ctx.driver.ask(f'C03.jlog {gen.enc_shape(shape, wenc=renc)} {xenc}')
    t = Toks(rep)
    model = t.list(lambda: t.list(lambda: t.opt(lambda: t.list(lambda: Fraction(t.next())))))
    T = len(terms)
    bad = None
    nonzero = False
    for i, X in enumerate(info['XL']):
        for l in range(T + len(info['XL'])):
            m = model[i][l]
            L = terms[l] if l < T else info['XL'][l - T]
            src = jin if l < T else Jx
            got = semgen.dense_list(src[(X, L)]) if (X, L) in src else None
            mf = None if m is None else [float(c) for c in m]
            if mf is not None and any(c != 0 for c in mf):
                nonzero = True
            if got is None:
                ok = mf is None or all(c == 0 for c in mf)
            elif mf is None:
                ok = all(g == 0 for g in got)
            else:
                ok = len(got) == len(mf) and all((g == c) or abs(g - c) <= 1e-9 * max(1.0, abs(c)) for g, c in zip(got, mf))
            if not ok and bad is None:
                bad = (i, l, got, None if m is None else [str(c) for c in m])
    ctx.count('jac.JLOG.' + ('nonzero' if nonzero else 'zero'))
    if bad is not None:
        i, l, got, m = bad
        ctx.fail(f'J_log[X{i}, label {l}] is not the logarithmic derivative of F[X{i}] (softmax over the rules times softmax over the '
                 f'edge\'s assignments)', dict(case, config=cfg, block=[i, l]), got, m, tags=['jacobian', 'JLOG', 'value'])


def stream_backward(ctx, shape, case, recursive):
    """compare the reverse-mode derivative computed by SumProduct.backward (autograd through fggs.sum_products, Real semiring,
    all components chained) with the model Bw.backward: y = J^T y + f and g = Jin^T y, evaluated EXACTLY over Rat at the values the
    library computed (all nonterminals), for a random cotangent f of the start nonterminal's cells"""
    import warnings
    from fractions import Fraction
    fgg, info = semgen.build(shape, 'real', torch.float64)
    leaves = []
    for el in info['TL']:
        w = fgg.factors[el.name].weights
        w.physical.requires_grad_(True)
        leaves.append(w)
    method = ctx.rng.choice(['fixed-point', 'newton'])
    try:
        with warnings.catch_warnings(record=True) as ws:
            warnings.simplefilter('always')
            sp = fggs.sum_products(fgg, method=method, semiring=semgen.semiring_of('real', torch.float64), tol=1e-13, kmax=5000)
        if any('converge' in str(w_.message) for w_ in ws):
            ctx.count('backward-model.not-converged-skipped')
            return
        vals = []
        for X in info['XL']:
            v = semgen.dense_list(sp[X])
            vals.append(v)
        if not all(math.isfinite(c) for v in vals for c in v):
            ctx.count('backward-model.infinite-skipped')
            return
        S = info['XL'][shape['start']]
        zd = sp[S].to_dense().reshape(-1)
        cot_start = [float(ctx.rng.choice([1, 2, -1, 3, 0])) for _ in range(zd.numel())]
        obj = (zd * torch.tensor(cot_start, dtype=torch.float64)).sum()
        if not obj.requires_grad:
            ctx.count('backward-model.constant-skipped')
            return
        obj.backward()
    except Exception as e:  # noqa
        ctx.count('backward-model.raise-skipped')     # raised failures are reported by the gradient stream of the C03 check
        return
    got = []
    for w in leaves:
        g = w.physical.grad
        got += [0.0] * w.to_dense().numel() if g is None else w.nonphysical().reincarnate(g).to_dense().reshape(-1).tolist()
    # cotangent over ALL nonterminal cells (zero except the start)
    f = []
    for i, X in enumerate(info['XL']):
        n = len(vals[i])
        f += cot_start if i == shape['start'] else [0.0] * n
    renc = lambda c: str(Fraction(c))
    xenc = enc_list(vals, lambda v: 'some ' + enc_list(v, renc))
    rep = ctx.driver.ask(f"C03.backward {gen.enc_shape(shape, wenc=renc)} {xenc} {enc_list(f, renc)}")
    t = Toks(rep)
    y = t.list(lambda: Fraction(t.next()))
    g = t.list(lambda: Fraction(t.next()))
    solves = t.next() == 'T'
    ctx.evaluations += 1
    cfg = dict(method=method, cotangent=cot_start)
    if not solves:
        ctx.count('backward-model.singular-skipped')        # a pivot equal to 1: infinite derivative, outside the model
        return
    ctx.count('backward-model.' + ('recursive' if recursive else 'nonrecursive'))
    scale = max([1.0] + [abs(float(c)) for c in g])
    tol = (1e-6 if recursive else 1e-10) * scale
    if len(got) != len(g) or not all(abs(a - float(b)) <= tol for a, b in zip(got, g)):
        ctx.fail('the gradient computed by SumProduct.backward is not J_in^T y with y = J^T y + f at the computed values (model Bw.backward)',
                 dict(case, config=cfg), got, [str(c) for c in g], tags=['backward-model', method])
