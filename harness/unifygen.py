"""Axis.unify (fggs/indices.py) against the Lean model `Un.unifyAll` and against its specification:
unification computes the intersection of two sparsity patterns.

Lists of axes (the virtual axes of two tensors over a common typed index list) are unified pairwise with one
substitution, as `all(e.unify(f, subst) for e, f in zip(es, fs))` in mul/where/equal/solve/einsum.
(a) correspondence: Python's verdict and `clone(subst)` of every axis equal the model's, up to the names of fresh axes;
(b) property, evaluated with an independent evaluator of axes: on success the joint image of the unified axes is the
    intersection of the joint images of the two lists; on failure (typed operands) the intersection is empty."""
import itertools, math
from fggs.indices import PhysicalAxis, ProductAxis, SumAxis, productAxis, unitAxis
from . import ptgen
from .common import enc_list, Toks


def ev(e, rho):
    if isinstance(e, PhysicalAxis):
        return rho[id(e)]
    if isinstance(e, ProductAxis):
        acc = 0
        for f in e.factors:
            acc = acc * f.numel() + ev(f, rho)
        return acc
    return e.before + ev(e.term, rho)


def fvs(e, out):
    if isinstance(e, PhysicalAxis):
        out.setdefault(id(e), e)
    elif isinstance(e, ProductAxis):
        for f in e.factors:
            fvs(f, out)
    else:
        fvs(e.term, out)
    return out


def joint_image(es):
    ks = {}
    for e in es:
        fvs(e, ks)
    ks = list(ks.values())
    out = set()
    for idx in itertools.product(*[range(k._numel) for k in ks]):
        rho = {id(k): i for k, i in zip(ks, idx)}
        out.add(tuple(ev(e, rho) for e in es))
    return out


def canon(tokens):
    """rename physical ids by order of first occurrence"""
    ren, out, i = {}, [], 0
    while i < len(tokens):
        if tokens[i] == 'P':
            out += ['P', str(ren.setdefault(tokens[i + 1], len(ren))), tokens[i + 2]]; i += 3
        else:
            out.append(tokens[i]); i += 1
    return out


def run_unify(ctx, n):
    reqs, meta = [], []
    for k in range(n):
        nd = ctx.rng.choice([1, 1, 2, 2, 3])
        types = [ptgen.random_type(ctx.rng, depth=ctx.rng.choice([1, 2, 2, 3]), sizes=[1, 2, 3, 2, 4], p_unit_sum=0.12 if k % 3 == 0 else 0.0)
                 for _ in range(nd)]
        if math.prod(ptgen.ty_numel(t) for t in types) > 3000:
            continue
        pool1, pool2 = [], []
        es = [ptgen.axis_for(ctx.rng, ty, pool1, p_dense=0.2, p_share=0.35) for ty in types]
        if ctx.rng.random() < 0.15:
            pool2 = pool1         # the two lists share physical axes (an operand used twice, `t.isdisjoint(u)` false)
        fs = [ptgen.axis_for(ctx.rng, ty, pool2, p_dense=0.2, p_share=0.35) for ty in types]
        ids = {}
        enc = f'{enc_list(es, lambda e: ptgen.enc_axis(e, ids))} {enc_list(fs, lambda e: ptgen.enc_axis(e, ids))}'
        case = dict(es=enc_list(es, lambda e: ptgen.enc_axis(e, dict(ids))), fs=enc_list(fs, lambda e: ptgen.enc_axis(e, dict(ids))))
        subst = {}
        try:
            ok = all(e.unify(f, subst) for e, f in zip(es, fs))
            ces = [e.clone(subst) for e in es]
            cfs = [f.clone(subst) for f in fs]
        except Exception as ex:  # noqa
            # tags computed from the input: a one-element factor that is not the unit axis inside a product; a physical axis in several positions
            def one_el(a):
                from fggs.indices import ProductAxis, SumAxis
                if isinstance(a, ProductAxis):
                    return any((x.numel() == 1) or one_el(x) for x in a.factors)
                return isinstance(a, SumAxis) and one_el(a.term)
            occ = [k_ for a in es + fs for k_ in a.fv({})]
            tags = ['unify', 'raises', type(ex).__name__] + (['one-element-factor'] if any(one_el(a) for a in es + fs) else []) + \
                (['shared-axis'] if len(set(map(id, occ))) < len(occ) else [])
            ctx.fail(f'Axis.unify raised {type(ex).__name__}: {str(ex)[:80]}', case, repr(ex), None, tags=tags)
            continue
        nontriv = any(not isinstance(e, PhysicalAxis) for e in es + fs)
        ctx.case(dict(case, ok=ok), ('unify', enc) if nontriv else None, sample_every=400)
        ctx.count('unify.' + ('ok' if ok else 'fail'))
        # (b) the property on the implementation
        ie, if_ = joint_image(es), joint_image(fs)
        if len(ie) * 1 > 200000:
            continue
        inter = ie & if_
        if pool2 is pool1:
            pass      # operands sharing physical axes: the library freshens one of them before asking for the intersection
        elif ok:
            ic, icf = joint_image(ces), joint_image(cfs)
            if ic != inter or icf != inter:
                ctx.fail('Axis.unify succeeded but the unified axes do not denote the intersection of the two patterns', case,
                         sorted(ic)[:20], sorted(inter)[:20], tags=['unify', 'not-intersection'])
        elif inter:
            ctx.fail('Axis.unify failed on well-typed operands whose patterns intersect', case, None, sorted(inter)[:20], tags=['unify', 'spurious-failure'])
        ids2 = dict(ids)
        out = f'{enc_list(ces, lambda e: ptgen.enc_axis(e, ids2))} {enc_list(cfs, lambda e: ptgen.enc_axis(e, ids2))}'
        reqs.append(f'C06.unify {enc} {len(ids)}')
        meta.append((case, ok, out))
    for (case, ok, out), rep in zip(meta, ctx.driver.ask_many(reqs)):
        if isinstance(rep, Exception):
            raise rep
        toks = rep.split()
        mok = toks[0] == 'T'
        if mok != ok:
            ctx.disagree('Un.unifyAll verdict', case, ok, mok)
            continue
        if ok and canon(toks[1:]) != canon(out.split()):
            ctx.disagree('Un.unifyAll: clone(subst) of the operands', case, out, ' '.join(toks[1:]))


def norm1(e):
    from fggs.indices import ProductAxis, SumAxis, unitAxis, productAxis
    if e.numel() == 1:
        return unitAxis
    if isinstance(e, ProductAxis):
        return productAxis([norm1(f) for f in e.factors])
    if isinstance(e, SumAxis):
        return SumAxis(e.before, norm1(e.term), e.after)
    return e


def run_antiunify(ctx, n):
    """Axis.antiunify against `Un.antiunifyAll`, and its specification: the result g with the anti-substitution
    (theta1, theta2) satisfies g[theta1] = e and g[theta2] = f, hence covers the union of the two patterns"""
    reqs, meta = [], []
    for k in range(n):
        nd = ctx.rng.choice([1, 1, 2, 2, 3])
        types = [ptgen.random_type(ctx.rng, depth=ctx.rng.choice([1, 2, 2, 3]), sizes=[1, 2, 3, 2, 4], p_unit_sum=0.12 if k % 3 == 0 else 0.0)
                 for _ in range(nd)]
        if math.prod(ptgen.ty_numel(t) for t in types) > 3000:
            continue
        pool1, pool2 = [], []
        es = [ptgen.axis_for(ctx.rng, ty, pool1, p_dense=0.2, p_share=0.35) for ty in types]
        if ctx.rng.random() < 0.15:
            pool2 = pool1
        fs = [ptgen.axis_for(ctx.rng, ty, pool2, p_dense=0.2, p_share=0.35) for ty in types]
        if ctx.rng.random() < 0.1:
            fs = list(es)       # identical operands
        ids = {}
        enc = f'{enc_list(es, lambda e: ptgen.enc_axis(e, ids))} {enc_list(fs, lambda e: ptgen.enc_axis(e, ids))}'
        case = dict(operands=enc)
        anti = ({}, {})
        try:
            gs = [e.antiunify(f, anti) for e, f in zip(es, fs)]
        except Exception as ex:  # noqa
            ctx.fail(f'Axis.antiunify raised {type(ex).__name__}: {str(ex)[:80]}', case, repr(ex), None, tags=['antiunify', 'raises'])
            continue
        nontriv = any(not isinstance(e, PhysicalAxis) for e in es + fs)
        ctx.case(case, ('antiunify', enc) if nontriv else None, sample_every=400)
        ctx.count(f'antiunify.fresh={min(len(anti[1]), 5)}')
        # the property: instantiating the generalisation gives the operands back
        th1 = {k_: v[0] for k_, v in anti[1].items()}
        th2 = {k_: v[1] for k_, v in anti[1].items()}
        i1, i2 = dict(ids), dict(ids)
        # (an axis with ONE element denotes the constant index 0 however it is spelt: compared as the unit axis)
        back_e = enc_list([norm1(g.clone(th1)) for g in gs], lambda e: ptgen.enc_axis(e, i1))
        back_f = enc_list([norm1(g.clone(th2)) for g in gs], lambda e: ptgen.enc_axis(e, i2))
        want_e = enc_list([norm1(e) for e in es], lambda e: ptgen.enc_axis(e, i1))
        want_f = enc_list([norm1(e) for e in fs], lambda e: ptgen.enc_axis(e, i2))
        if back_e != want_e or back_f != want_f:
            ctx.fail('Axis.antiunify: instantiating the generalisation with the anti-substitution does not give the operands back', case,
                     [back_e, back_f], [want_e, want_f], tags=['antiunify', 'not-generalisation'])
        ie = joint_image(es)
        if len(ie) <= 50000:
            ig = joint_image(gs)
            if not (ie <= ig and joint_image(fs) <= ig):
                ctx.fail('Axis.antiunify: the generalisation does not cover the union of the two patterns', case, None, None, tags=['antiunify', 'not-cover'])
        ids2 = dict(ids)
        out = enc_list(gs, lambda e: ptgen.enc_axis(e, ids2)) + ' ' + \
            enc_list(list(anti[1].items()), lambda kv: f'{ptgen.enc_axis(kv[0], ids2)} {ptgen.enc_axis(kv[1][0], ids2)} {ptgen.enc_axis(kv[1][1], ids2)}')
        reqs.append(f'C06.antiunify {enc} {len(ids)}')
        meta.append((case, out))
    for (case, out), rep in zip(meta, ctx.driver.ask_many(reqs)):
        if isinstance(rep, Exception):
            raise rep
        if canon(rep.split()) != canon(out.split()):
            ctx.disagree('Un.antiunifyAll: generalisation and anti-substitution', case, out, rep)
