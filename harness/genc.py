"""Encoding of real fggs objects (Graph, Edge, EdgeLabel, Node, HRG) in the driver's token format
(FggsModel.Graph.parse*), with explicit string ids and implicit ids coded as e<k> / i<k>."""
from .common import enc_list, enc_bool


class Coder:
    def __init__(self):
        self.expl, self.impl, self.nl, self.el = {}, {}, {}, {}

    def id(self, x):
        if isinstance(x, str):
            return f'e{self.expl.setdefault(x, len(self.expl))}'
        return f'i{self.impl.setdefault(x, len(self.impl))}'

    def nlabel(self, l):
        return self.nl.setdefault(l.name, len(self.nl))

    def elname(self, name):
        return self.el.setdefault(name, len(self.el))

    def node(self, n):
        return f'{self.nlabel(n.label)} {self.id(n.id)}'

    def elabel(self, el):
        return f'{self.elname(el.name)} {enc_list([self.nlabel(l) for l in el.type])} {enc_bool(el.is_terminal)}'

    def edge(self, e):
        return f'{self.elabel(e.label)} {enc_list(e.nodes, self.node)} {self.id(e.id)}'

    def graph(self, g):
        return (f'{enc_list(g.nodes(), self.node)} {enc_list(g.edges(), self.edge)} {enc_list(g.ext, self.node)} '
                f'{enc_list([self.nlabel(l) for l in g.node_labels()])} {enc_list(g.edge_labels(), self.elabel)}')


def canon_ids(tokens, known_impl_max=None, start=0):
    """rename implicit-id tokens i<k> with k >= known_impl_max by order of first appearance"""
    ren = {}
    out = []
    for t in tokens:
        if len(t) > 1 and t[0] == 'i' and t[1:].isdigit() and (known_impl_max is None or int(t[1:]) >= known_impl_max):
            if t not in ren:
                ren[t] = f'I{start + len(ren)}'
            out.append(ren[t])
        else:
            out.append(t)
    return out
