"""C05 — factorization.  factorize_rule's output depends on Python set iteration order, so it is
compared with the *relational* Lean model `Fz.factorizationOf` (membership), the tree decomposition
it used is read off the output and checked by the C10 decider; the property itself (inline = original
up to isomorphism, fresh names, no wider, method honoured, same start/terminals/factors, equal
sum_product) is evaluated directly."""
import itertools, math
import torch
import fggs
from fggs import NodeLabel, EdgeLabel, Node, Edge, Graph, HRG, HRGRule, FGG, FiniteDomain, FiniteFactor
from fggs.factorize import factorize_rule, factorize_hrg, factorize_fgg
from . import gen
from .common import enc_list
from .c14 import tok
from .c17 import enc_rule
from .c10 import HARD

RULE = ('random rules: 1..7 nodes over 2 node labels, 0..6 edges of arity 0..3 (nullary, repeated attachments), several components, '
        'isolated nodes, 0..3 externals anywhere, label names colliding with the X_1, X_2 scheme; x {min_fill, quickbb, acb} x '
        'labels in {None, explicit set}; rules whose primal graph is one of the min_fill-suboptimal corpus graphs; non-recursive FGGs '
        'for factorize_hrg/factorize_fgg with sum_product before/after; non-trivial = factorization with >= 2 rules')
ASSUMPTIONS = ['set iteration order inside factorize_rule is not modelled: the model is a relation (any order)',
               'inline-isomorphism and sum_product preservation are evaluated on the implementation, they are not Lean theorems yet']

METHODS = ['min_fill', 'quickbb', 'acb']


def random_rule(rng, k):
    NL = [NodeLabel('A'), NodeLabel('B')]
    n = rng.randint(1, 7)
    nodes = [Node(rng.choice(NL), f'v{i}') for i in range(n)]
    lhs_name = rng.choice(['X', 'X_1', 'Y'])
    ext = rng.sample(nodes, rng.randint(0, min(3, n)))
    lhs = EdgeLabel(lhs_name, [v.label for v in ext], is_nonterminal=True)
    rhs = Graph()
    for v in nodes:
        rhs.add_node(v)
    names = ['a', 'b', 'X_1', 'X_2', 'X_1_1', 'Y_1', 'Z']
    labels = {}
    for i in range(rng.randint(0, 6)):
        ar = rng.choice([0, 1, 2, 2, 2, 3])
        att = [rng.choice(nodes) for _ in range(ar)]
        if ar >= 2 and rng.random() < 0.8:
            att = rng.sample(nodes, min(ar, n))
        nm = rng.choice(names)
        term = nm not in ('Z',) and not (nm == lhs_name)
        key = nm
        el = EdgeLabel(nm, [v.label for v in att], is_terminal=term, is_nonterminal=not term)
        if key in labels and labels[key] != el:
            continue
        labels[key] = el
        rhs.add_edge(Edge(el, att, id=f'e{i}'))
    rhs.ext = ext
    return HRGRule(lhs, rhs)


def hard_rule(nn, es):
    A = NodeLabel('A')
    nodes = [Node(A, f'v{i}') for i in range(nn)]
    t = EdgeLabel('t', [A, A], is_terminal=True)
    rhs = Graph()
    for v in nodes:
        rhs.add_node(v)
    for i, (a, b) in enumerate(es):
        rhs.add_edge(Edge(t, [nodes[a], nodes[b]], id=f'e{i}'))
    return HRGRule(EdgeLabel('X', [], is_nonterminal=True), rhs)


def check_rule(ctx, rule, method, labels_mode, reqs, meta, expect_opt=False):
    orig_edges = list(rule.rhs.edges())
    orig_nodes = list(rule.rhs.nodes())
    avoid_labels = None if labels_mode == 'none' else set(rule.rhs.edge_labels()) | {EdgeLabel('X_3', [], is_terminal=True)}
    avoid_before = None if avoid_labels is None else set(avoid_labels)
    case = dict(rule=enc_rule(rule), method=method, labels=labels_mode)
    try:
        out = factorize_rule(rule, method=method, labels=avoid_labels)
    except Exception as e:  # noqa
        ctx.fail(f'factorize_rule raised {type(e).__name__}', case, repr(e), None, tags=['raises', method])
        return
    ctx.case(case, (case['rule'], method, labels_mode) if len(out) >= 2 else None, sample_every=150)
    ctx.count(f'{method}.rules={min(len(out), 6)}')
    # ---- the property, directly
    avoid_names = {l.name for l in (avoid_before if avoid_before is not None else set())} | {l.name for l in rule.rhs.edge_labels()} | {rule.lhs.name}
    new = [r.lhs for r in out if r.lhs != rule.lhs]
    bad = []
    if len({l.name for l in new}) != len(new) or any(l.name in avoid_names for l in new):
        bad.append(('fresh nonterminal names collide with an existing label or with each other', 'names'))
    if any(len(list(r.rhs.nodes())) > len(orig_nodes) for r in out):
        bad.append(('a new rule has more nodes than the rule it came from', 'wider'))
    if list(rule.rhs.edges()) != orig_edges or list(rule.rhs.nodes()) != orig_nodes:
        bad.append(('factorize_rule mutated its input rule', 'mutated'))
    # inline: since bags share the original Node objects, inlining is the union of nodes and of non-new edges,
    # provided every new edge is attached exactly to its child's externals
    roots = [r for r in out if r.lhs == rule.lhs]
    newset = set(new)
    if len(roots) != 1:
        bad.append(('not exactly one rule for the original left-hand side', 'root'))
    else:
        root = roots[0]
        if root.rhs.ext != rule.rhs.ext:
            bad.append(('the root rule does not keep the externals', 'root-ext'))
        by_lhs = {r.lhs: r for r in out}
        used = []
        def inline(r, seen):
            nodes, edges = set(r.rhs.nodes()), []
            for e in r.rhs.edges():
                if e.label in newset:
                    child = by_lhs[e.label]
                    used.append(e.label)
                    if e.nodes != child.rhs.ext:
                        bad.append(('a new nonterminal edge is not attached to its rule\'s externals in order', 'attach'))
                    if e.label in seen:
                        bad.append(('fresh nonterminals are recursive', 'cycle')); continue
                    n2, e2 = inline(child, seen | {e.label})
                    nodes |= n2; edges += e2
                else:
                    edges.append(e)
            return nodes, edges
        nodes, edges = inline(root, set())
        if nodes != set(orig_nodes):
            bad.append(('inlining loses or invents nodes', 'inline-nodes'))
        if sorted(map(str, edges)) != sorted(map(str, orig_edges)) or any(e not in orig_edges for e in edges):
            bad.append(('inlining loses, duplicates or re-attaches edges', 'inline-edges'))
        if sorted(l.name for l in used) != sorted(l.name for l in new):
            bad.append(('a fresh nonterminal is unused or used twice', 'unused'))
    for msg, tag in bad:
        ctx.fail('factorize_rule: ' + msg, case, None, None, tags=['factorize', tag, method])
    avoid_enc = enc_list(sorted(avoid_names), tok)
    reqs.append(f'C05.check {enc_rule(rule)} {avoid_enc} {enc_list(out, enc_rule)}')
    meta.append((case, method, expect_opt, max(len(list(r.rhs.nodes())) for r in out) - 1))


def run(ctx):
    reqs, meta = [], []
    n = 150 if ctx.quick else 2500
    for k in range(n):
        rule = random_rule(ctx.rng, k)
        for method in METHODS:
            check_rule(ctx, rule, method, ctx.rng.choice(['none', 'set']), reqs, meta)
    for nn, es in (HARD[:3] if ctx.quick else HARD):
        rule = hard_rule(nn, es)
        for method in METHODS:
            check_rule(ctx, rule, method, 'none', reqs, meta, expect_opt=method != 'min_fill')
    for (case, method, expect_opt, wimpl), rep in zip(meta, ctx.driver.ask_many(reqs)):
        if isinstance(rep, Exception): raise rep
        rel, valid, w, tw = rep.split()
        if valid != 'T':
            ctx.fail('the bags of the new rules do not form a valid tree decomposition of the rule\'s primal graph', case, rep, None,
                     tags=['factorize', 'invalid-td', method])
        elif rel != 'T':
            ctx.disagree('Fz.factorizationOf (relational model of factorize_rule) rejects the implementation\'s output', case, None, rep)
        if method in ('quickbb', 'acb') and valid == 'T' and int(w) != int(tw):
            ctx.fail(f'method={method} is not honoured: width {w}, treewidth {tw}', case, int(w), int(tw), tags=['factorize', 'method', method])
    run_shared_labels(ctx)
    run_grammars(ctx)
    run_grammar_label_clash(ctx)


def run_shared_labels(ctx):
    """the documented contract of the `labels` argument ("the set of EdgeLabel names to avoid; new EdgeLabels are added to the
    set"): several rules factorized one after the other with ONE caller-owned set - initially empty, or pre-filled - must get
    fresh nonterminals that are pairwise distinct across all the calls, and the set must afterwards hold every label in use"""
    n = 40 if ctx.quick else 600
    for k in range(n):
        rules = [random_rule(ctx.rng, k) for _ in range(ctx.rng.choice([2, 2, 3]))]
        method = ctx.rng.choice(METHODS)
        mode = ctx.rng.choice(['empty', 'empty', 'prefilled'])
        shared = set() if mode == 'empty' else {EdgeLabel('X_2', [], is_terminal=True)}
        case = dict(rules=[enc_rule(r) for r in rules], method=method, shared_labels=mode)
        fresh_all, in_use = [], {l.name for l in shared}
        ok = True
        for r in rules:
            try:
                out = factorize_rule(r, method=method, labels=shared)
            except Exception as e:  # noqa
                ctx.fail(f'factorize_rule raised {type(e).__name__}', case, repr(e), None, tags=['raises', method]); ok = False; break
            # names a fresh label of THIS call must avoid: what the set held before the call plus the rule's own labels
            # (labels of rules factorized later are unknown to the call unless the caller put them into the set)
            in_use |= {r.lhs.name} | {l.name for l in r.rhs.edge_labels()}
            fresh = [q.lhs for q in out if q.lhs != r.lhs]
            if any(l.name in in_use for l in fresh):
                ctx.fail('factorize_rule with a shared label set: a fresh nonterminal name collides with a label that was in the set or in the rule',
                         case, [l.name for l in fresh], sorted(in_use), tags=['factorize', 'names', 'shared-set', method])
            in_use |= {l.name for l in fresh}
            fresh_all += fresh
        if not ok:
            continue
        ctx.case(case, ('shared', k, method, mode) if len(fresh_all) >= 2 else None, sample_every=200)
        ctx.count(f'shared-labels.{mode}.fresh={min(len(fresh_all), 6)}')
        names = [l.name for l in fresh_all]
        if len(set(names)) != len(names):
            ctx.fail('factorize_rule with a shared label set: the same fresh nonterminal name was handed out to two different rules',
                     case, names, None, tags=['factorize', 'names', 'shared-set', method])
        missing = (in_use | set(names)) - {l.name for l in shared}
        if missing:
            ctx.fail('factorize_rule did not add the labels in use / the new labels to the caller\'s label set', case, sorted(missing), None,
                     tags=['factorize', 'labels-not-extended', method])


def run_grammar_label_clash(ctx):
    """factorize_hrg / factorize_fgg know the WHOLE input grammar: a fresh nonterminal must avoid every label of it, also one that only
    occurs in rules that come LATER in all_rules() order.  Grammars  S -> chain of binary factors + Y,  Y -> S_i,  S_i -> unary factor,
    whose user nonterminals S_1, S_2, ... have exactly the names (and, in half the cases, the types) of the fresh nonterminals the rule
    of S would get: every input nonterminal keeps its number of rules, the others are fresh with one rule each, sum_product unchanged"""
    A = NodeLabel('A')
    n = 12 if ctx.quick else 120
    for k in range(n):
        rng = ctx.rng
        method = rng.choice(METHODS)
        m = rng.randint(3, 5)                      # nodes of the chain in the rule of S
        dom = rng.choice([2, 3])
        clash = sorted(rng.sample(range(1, 5), rng.randint(1, 3)))
        ar = rng.choice([0, 1, 1])                 # type of the clashing user nonterminals: () or (A,)
        g = FGG(EdgeLabel('S', [], is_nonterminal=True))
        g.add_domain(A, FiniteDomain(list(range(dom))))
        t2 = EdgeLabel('t', [A, A], is_terminal=True); t1 = EdgeLabel('u', [A], is_terminal=True)
        w2 = torch.tensor([[float(rng.choice([1, 2, 3])) for _ in range(dom)] for _ in range(dom)], dtype=torch.float64)
        w1 = torch.tensor([float(rng.choice([1, 2, 5])) for _ in range(dom)], dtype=torch.float64)
        g.add_factor(t2, FiniteFactor([g.domains['A']] * 2, w2)); g.add_factor(t1, FiniteFactor([g.domains['A']], w1))
        Y = EdgeLabel('Y', [A] * ar, is_nonterminal=True)
        users = [EdgeLabel(f'S_{i}', [A] * ar, is_nonterminal=True) for i in clash]
        # S -> t(v0,v1) t(v1,v2) ... Y(v_{m-1})
        rhs = Graph(); vs = [Node(A, f'v{i}') for i in range(m)]
        for v in vs: rhs.add_node(v)
        for i in range(m - 1): rhs.add_edge(Edge(t2, [vs[i], vs[i + 1]], id=f'e{i}'))
        rhs.add_edge(Edge(Y, [vs[-1]] * ar, id='eY'))
        g.add_rule(HRGRule(g.start, rhs))
        # Y -> S_i1 S_i2 ...   (the first appearance of the clashing labels: after the rule of S)
        rhs = Graph(); v = Node(A, 'y'); rhs.add_node(v); rhs.ext = [v] * ar
        for j, ul in enumerate(users): rhs.add_edge(Edge(ul, [v] * ar, id=f'y{j}'))
        if ar == 0: rhs.add_edge(Edge(t1, [v], id='yu'))
        g.add_rule(HRGRule(Y, rhs))
        for ul in users:
            rhs = Graph(); v = Node(A, 'z'); rhs.add_node(v); rhs.ext = [v] * ar
            rhs.add_edge(Edge(t1, [v], id='zu'))
            g.add_rule(HRGRule(ul, rhs))
        case = dict(chain=m, dom=dom, clash=[u.name for u in users], arity=ar, method=method, w2=w2.tolist(), w1=w1.tolist())
        ctx.case(case, ('clash', k, method, m, tuple(clash), ar))
        ctx.count(f'grammar-label-clash.{method}')
        before = {nt.name: len(g.rules(nt)) for nt in g.nonterminals()}
        z1 = fggs.sum_product(g, semiring=fggs.RealSemiring(dtype=torch.float64)).to_dense()
        for fn in (factorize_hrg, factorize_fgg):
            try:
                out = fn(g, method=method)
            except Exception as e:  # noqa
                ctx.fail(f'{fn.__name__} raised {type(e).__name__} on a grammar whose later rules use labels named like fresh nonterminals', case,
                         repr(e), None, tags=['factorize-grammar', 'label-clash', 'raises', method])
                continue
            after = {nt.name: len(out.rules(nt)) for nt in out.nonterminals()}
            for nm, c in before.items():
                if after.get(nm) != c:
                    ctx.fail(f'{fn.__name__}: the input nonterminal {nm} had {c} rule(s) and has {after.get(nm)} after factorization (a fresh '
                             'nonterminal took the name of a label of the input grammar)', case, after, before, tags=['factorize-grammar', 'label-clash', 'names', method])
            for nm, c in after.items():
                if nm not in before and c != 1:
                    ctx.fail(f'{fn.__name__}: the fresh nonterminal {nm} has {c} rules', case, after, before, tags=['factorize-grammar', 'label-clash', 'fresh-rules', method])
            if fn is factorize_fgg:
                try:
                    z2 = fggs.sum_product(out, semiring=fggs.RealSemiring(dtype=torch.float64)).to_dense()
                except Exception as e:  # noqa
                    ctx.fail(f'sum_product of the factorized grammar raised {type(e).__name__}', case, repr(e), None, tags=['factorize-grammar', 'label-clash', 'raises', method])
                    continue
                if z1.shape != z2.shape or not bool((z1 == z2).all()):
                    ctx.fail(f'factorize_fgg changed the sum_product: {z1.tolist()} -> {z2.tolist()}', case, z2.tolist(), z1.tolist(),
                             tags=['factorize-grammar', 'label-clash', 'value', method])


def run_grammars(ctx):
    n = 40 if ctx.quick else 500
    for k in range(n):
        shape = gen.random_shape(ctx.rng, recursive=False, n_nts=(1, 3), rules_per_nt=(1, 2), n_nodes=(0, 4), n_edges=(1, 4),
                                 start_arity=(0, 1), weights=lambda r: float(r.choice([0, 1, 2, 3])), dom_sizes=(1, 2))
        fgg, info = gen.build_fgg(shape, ids='explicit', dtype=torch.float64)
        method = ctx.rng.choice(METHODS)
        case = dict(shape=shape, method=method)
        ctx.case(case, ('fgg', k, method), sample_every=40)
        ctx.count(f'grammar.{method}')
        try:
            f2 = factorize_fgg(fgg, method=method)
            h2 = factorize_hrg(fgg, method=method)
        except Exception as e:  # noqa
            ctx.fail(f'factorize_fgg/factorize_hrg raised {type(e).__name__}', case, repr(e), None, tags=['raises', method])
            continue
        bad = []
        if f2.start != fgg.start or h2.start != fgg.start: bad.append('start symbol changed')
        if set(f2.terminals()) - set(fgg.terminals()) or {t for t in fgg.terminals() if any(t == e.label for r in fgg.all_rules() for e in r.rhs.edges())} - set(f2.terminals()):
            bad.append('terminal labels changed')
        if f2.factors is not fgg.factors and f2.factors != fgg.factors: bad.append('factors changed')
        if f2.domains is not fgg.domains and f2.domains != fgg.domains: bad.append('domains changed')
        if len(f2.all_rules()) != len(h2.all_rules()): bad.append('factorize_fgg and factorize_hrg disagree on the number of rules')
        z1 = fggs.sum_product(fgg, semiring=fggs.RealSemiring(dtype=torch.float64)).to_dense()
        z2 = fggs.sum_product(f2, semiring=fggs.RealSemiring(dtype=torch.float64)).to_dense()
        if z1.shape != z2.shape or not bool((z1 == z2).all()):
            bad.append(f'sum_product changed: {z1.tolist()} -> {z2.tolist()}')
        for b in bad:
            ctx.fail('factorize_fgg: ' + b, case, None, None, tags=['factorize-grammar', method])
    # the method argument reaches factorize_hrg and factorize_fgg: a grammar whose rule is min_fill-suboptimal
    for nn, es in HARD[:2]:
        rule = hard_rule(nn, es)
        g = FGG(rule.lhs)
        g.add_rule(rule)
        g.add_domain(NodeLabel('A'), FiniteDomain([0]))
        g.add_factor(rule.rhs.get_edge_label('t'), FiniteFactor([g.domains['A']] * 2, [[1.]]))
        widths = {}
        for fn in (factorize_hrg, factorize_fgg):
            for m in METHODS:
                out = fn(g, method=m)
                widths[fn.__name__, m] = max(len(list(r.rhs.nodes())) for r in out.all_rules()) - 1
        ctx.evaluations += 1
        for fn in ('factorize_hrg', 'factorize_fgg'):
            if not (widths[fn, 'quickbb'] == widths[fn, 'acb'] < widths[fn, 'min_fill']):
                ctx.fail(f'{fn} does not honour its method argument (widths {widths})', dict(graph=[nn, es]), widths, None,
                         tags=['factorize-grammar', 'method', fn])


def replay(ctx, rep):
    run(ctx)
    return bool(ctx.failures or ctx.disagreements)
