"""Shared machinery of the correspondence harness: driver process, token encoders, run context,
evidence writer, known-findings matcher.  Run with /venv/bin/python (fggs = editable install of
/repo; PYTHONPATH=/repo is set by ./check as well)."""
from __future__ import annotations
import json, math, os, random, subprocess, sys, time, hashlib
from fractions import Fraction
from pathlib import Path

VERIF = Path(__file__).resolve().parent.parent
LEAN = VERIF / 'lean'
DRIVER = LEAN / '.lake' / 'build' / 'bin' / 'fggsdriver'
REPO = Path(os.environ.get('FGGS_REPO', '/repo'))
ALLOWED_AXIOMS = {'propext', 'Classical.choice', 'Quot.sound'}


def log(*a):
    print(*a, file=sys.stderr, flush=True)


# ------------------------------------------------------------------ token encoders

def enc_ext(x) -> str:
    """A python number as a model scalar token (exact: every finite float is a rational)."""
    if isinstance(x, bool):
        return '1' if x else '0'
    if isinstance(x, int):
        return str(x)
    if isinstance(x, Fraction):
        return str(x.numerator) if x.denominator == 1 else f'{x.numerator}/{x.denominator}'
    x = float(x)
    if math.isnan(x):
        return 'nan'
    if math.isinf(x):
        return 'inf' if x > 0 else '-inf'
    f = Fraction(x)
    return str(f.numerator) if f.denominator == 1 else f'{f.numerator}/{f.denominator}'


def dec_ext(t: str):
    """A model scalar token as Fraction | float('inf'/'-inf'/'nan')."""
    if t == 'nan':
        return math.nan
    if t == 'inf':
        return math.inf
    if t == '-inf':
        return -math.inf
    return Fraction(t)


def enc_list(xs, f=str) -> str:
    xs = list(xs)
    return ' '.join([str(len(xs))] + [f(x) for x in xs])


def enc_bool(b) -> str:
    return 'T' if b else 'F'


class Toks:
    """cursor over reply tokens"""
    def __init__(self, s: str):
        self.t = s.split()
        self.i = 0

    def next(self):
        x = self.t[self.i]
        self.i += 1
        return x

    def nat(self):
        return int(self.next())

    def ext(self):
        return dec_ext(self.next())

    def bool(self):
        return self.next() == 'T'

    def list(self, f):
        n = self.nat()
        return [f() for _ in range(n)]

    def opt(self, f):
        t = self.next()
        return None if t == 'none' else f()

    def done(self):
        return self.i == len(self.t)


def same_scalar(impl, model) -> bool:
    """exact comparison of an implementation float with a model scalar (Fraction or special)"""
    if isinstance(model, float):
        if math.isnan(model):
            return isinstance(impl, float) and math.isnan(impl)
        return impl == model
    if isinstance(impl, float) and (math.isnan(impl) or math.isinf(impl)):
        return False
    return Fraction(impl) == model


def close_scalar(impl, model, rtol=1e-9, atol=0.0) -> bool:
    if isinstance(model, float):
        return same_scalar(impl, model)
    if isinstance(impl, float) and (math.isnan(impl) or math.isinf(impl)):
        return False
    m = float(model)
    return abs(float(impl) - m) <= atol + rtol * abs(m)


# ------------------------------------------------------------------ driver

class Driver:
    def __init__(self):
        if not DRIVER.exists():
            raise RuntimeError(f'driver not built: {DRIVER}')
        self.p = subprocess.Popen([str(DRIVER)], stdin=subprocess.PIPE, stdout=subprocess.PIPE,
                                  text=True, bufsize=1)
        self.requests = 0

    def ask(self, line: str) -> str:
        """one request; returns payload; raises DriverError on 'err'"""
        assert '\n' not in line
        self.p.stdin.write(line + '\n')
        self.p.stdin.flush()
        r = self.p.stdout.readline()
        self.requests += 1
        if not r:
            raise RuntimeError('driver died on: ' + line[:200])
        r = r.rstrip('\n')
        if r.startswith('ok'):
            return r[3:]
        raise DriverError(r[4:], line)

    def ask_many(self, lines):
        """pipelined requests; a writer thread feeds stdin while this thread reads the replies (long
        requests/replies would otherwise deadlock on the pipe buffers); returns payload | DriverError"""
        import threading
        lines = list(lines)
        for ln in lines:
            assert '\n' not in ln
        def feed():
            try:
                for i in range(0, len(lines), 100):
                    self.p.stdin.write('\n'.join(lines[i:i + 100]) + '\n')
                    self.p.stdin.flush()
            except BrokenPipeError:
                pass
        th = threading.Thread(target=feed, daemon=True)
        th.start()
        out = []
        for ln in lines:
            r = self.p.stdout.readline()
            self.requests += 1
            if not r:
                raise RuntimeError('driver died on: ' + ln[:200])
            r = r.rstrip('\n')
            out.append(r[3:] if r.startswith('ok') else DriverError(r[4:], ln))
        th.join()
        return out

    def close(self):
        try:
            self.p.stdin.close()
            self.p.wait(timeout=5)
        except Exception:
            self.p.kill()


class DriverError(Exception):
    def __init__(self, msg, line):
        super().__init__(f'{msg} [request: {line[:300]}]')
        self.msg = msg
        self.line = line


# ------------------------------------------------------------------ known findings

def load_findings():
    p = VERIF / 'known_findings.json'
    if not p.exists():
        return []
    return json.loads(p.read_text())['findings']


# ------------------------------------------------------------------ run context

class Ctx:
    """Accumulates what a run covered and what it found."""

    def __init__(self, prop: str, tier: str, seed: int):
        self.prop, self.tier, self.seed = prop, tier, seed
        self.rng = random.Random(f'{prop}:{seed}')
        self.t0 = time.time()
        self.evaluations = 0
        self.nontrivial = set()
        self.samples = []
        self.hist = {}
        self.disagreements = []      # model vs implementation (correspondence)
        self.failures = []           # property fails on the implementation (spec oracle)
        self.known_hits = {}
        self.notes = []
        self.extra = {}
        self.findings = [f for f in load_findings() if f['property'] == prop and f['status'] == 'open']
        self._driver = None

    @property
    def quick(self):
        return self.tier == 'quick'

    @property
    def driver(self) -> Driver:
        if self._driver is None:
            self._driver = Driver()
        return self._driver

    def count(self, key, n=1):
        self.hist[key] = self.hist.get(key, 0) + n

    def case(self, desc, nontrivial_key=None, sample_every=None):
        """register one evaluated case; `nontrivial_key` (hashable/str) if it is non-trivial"""
        self.evaluations += 1
        if nontrivial_key is not None:
            self.nontrivial.add(hashlib.sha1(repr(nontrivial_key).encode()).hexdigest()[:16])
        if len(self.samples) < 8 and (sample_every is None or self.evaluations % sample_every == 1):
            self.samples.append(desc if isinstance(desc, (str, dict, list)) else repr(desc))

    def disagree(self, what: str, case, impl, model, python: str = ''):
        """the model of the code and the code differ on `case` (a broken correspondence; the
        property itself may still hold there)"""
        self.disagreements.append(dict(correspondence=what, input=case, impl_outcome=_js(impl),
                                       model_outcome=_js(model), python=python))

    def fail(self, what: str, case, impl, expected, python: str = '', tags=()):
        """the property itself fails on the implementation for `case` (spec oracle verdict)"""
        rec = dict(what=what, input=case, impl_outcome=_js(impl), spec_verdict=_js(expected),
                   python=python, tags=list(tags))
        for f in self.findings:
            if finding_matches(f, rec):
                self.known_hits.setdefault(f['id'], []).append(rec)
                return
        self.failures.append(rec)

    def time_left(self, budget_s: float) -> bool:
        return time.time() - self.t0 < budget_s


def finding_matches(f, rec) -> bool:
    """A finding matches a failure record when all its `match.tags` are among the record's tags
    (tags are computed by the harness from the *input and outcome*, never from the property id)."""
    need = set(f.get('match', {}).get('tags', []))
    return bool(need) and need.issubset(set(rec.get('tags', [])))


def _js(x):
    try:
        json.dumps(x)
        return x
    except TypeError:
        return repr(x)


def fmt_float(x):
    return repr(float(x))
