"""C11 — solver options change cost, never the answer.  For every generated grammar with finite value:
the cross product method x j_precompute x dtype x semiring in-process, and the same requests replayed
through subprocesses `python`, `python -O`, `python -OO` (harness/o_server.py).  Values and gradients
must agree (bit-identical across interpreter modes; tolerance across methods/dtypes), Log = log(Real),
Bool = support(Real), Viterbi <= Log."""
import itertools, json, math, os, subprocess, sys, warnings
import torch
from . import gen, semgen
from .c02 import sccs_and_linearity
from .common import VERIF

RULE = ('grammars from the C01/C02 generators with emphasis on rules with >= 3 edges (nodes private to the first/last edges, edgeless nodes '
        'beside the differentiated edge, repeated labels); configurations: {fixed-point, newton, linear if linearly recursive} x j_precompute '
        '{False, True} x {float64, float32} x {real, log, viterbi, bool}, gradients for real/log; interpreter modes: in-process, python, '
        'python -O, python -OO; non-trivial = grammar with a rule of >= 3 edges or recursive')
ASSUMPTIONS = ['CPython -O/-OO semantics observed, not modelled', 'float32 vs float64 compared within 1e-4 relative, methods within 1e-6 (float64)']


class Server:
    def __init__(self, flags):
        env = dict(os.environ, PYTHONPATH=os.environ.get('FGGS_REPO', '/repo'), FGGS_VERIF=os.environ.get('FGGS_VERIF', '1'))
        self.p = subprocess.Popen([sys.executable, *flags, str(VERIF / 'harness' / 'o_server.py'), str(VERIF)],
                                  stdin=subprocess.PIPE, stdout=subprocess.PIPE, stderr=subprocess.DEVNULL, text=True, bufsize=1, env=env)

    def ask(self, req):
        self.p.stdin.write(json.dumps(req) + '\n')
        self.p.stdin.flush()
        line = self.p.stdout.readline()
        if not line:
            raise RuntimeError('o_server died')
        return json.loads(line)

    def close(self):
        try:
            self.p.stdin.close(); self.p.wait(timeout=10)
        except Exception:
            self.p.kill()


def gen_shape(rng, recursive):
    if recursive:
        from .c02 import gen_shape as g2
        return g2(rng)
    wr = lambda r: r.choice([0.0, 1.0, 2.0, 0.5, 0.25, 3.0])
    shape = gen.random_shape(rng, recursive=False, n_nts=(1, 3), rules_per_nt=(1, 2), n_nodes=(0, 2), n_edges=(2, 5), max_arity=2,
                             start_arity=(0, 1), dom_sizes=(1, 2, 2, 3), p_isolated=0.35, p_repeat_att=0.2, p_ruleless=0.1,
                             weights=wr, max_cells=600)
    shape['vweights'] = {i: [rng.choice([-math.inf, 0.0, -1.0, -2.0, 1.0]) for _ in w] for i, w in shape['weights'].items()}
    return shape


def multi_linear_shape(rng):
    """linearly recursive grammars in which ONE nonterminal has several rules that recurse on the SAME nonterminal
    (X -> a X | b X | c, possibly through a second nonterminal): the block of the linear system for (X, X) is a SUM over rules"""
    d = rng.choice([1, 2, 2, 3])
    ar = rng.choice([0, 1])
    nls = [d]
    terms = [[0] * ar, [0] * ar, [0] * ar, [0, 0] if ar else []]
    nts = [[0] * ar] + ([[0] * ar] if rng.random() < 0.4 else [])
    rules = []
    k = rng.choice([2, 2, 3])
    for j in range(k):
        tgt = rng.randrange(len(nts))
        if ar:
            # X(v) -> t_j(v) Y(w) m(v, w)
            rules.append(dict(lhs=0, nodes=[0, 0], ext=[0], edges=[['t', j % 3, [0]], ['n', tgt, [1]], ['t', 3, [0, 1]]]))
        else:
            rules.append(dict(lhs=0, nodes=[], ext=[], edges=[['t', j % 3, []], ['n', tgt, []]]))
    rules.append(dict(lhs=0, nodes=[0] * ar, ext=list(range(ar)), edges=[['t', 2, list(range(ar))]]))
    if len(nts) == 2:
        rules.append(dict(lhs=1, nodes=[0] * ar, ext=list(range(ar)), edges=[['n', 0, list(range(ar))], ['t', 1, list(range(ar))]]))
        rules.append(dict(lhs=1, nodes=[0] * ar, ext=list(range(ar)), edges=[['n', 0, list(range(ar))], ['t', 0, list(range(ar))]]))
    shape = dict(nls=nls, terms=terms, nts=nts, start=0, rules=rules)
    import math as _m
    shape['weights'] = {i: [rng.choice([0.125, 0.25, 0.0625, 0.5]) if i != 2 else rng.choice([1.0, 2.0, 0.5])
                            for _ in range(_m.prod(nls[l] for l in ty))] for i, ty in enumerate(terms)}
    if ar:
        shape['weights'][3] = [rng.choice([0.125, 0.25, 0.0]) for _ in shape['weights'][3]]
    shape['vweights'] = {i: [rng.choice([-1.0, -2.0, -0.5]) for _ in w] for i, w in shape['weights'].items()}
    return shape


def mutual_linear_shape(rng):
    """two mutually AND self-recursive nonterminals over a domain of 2..3 values with sparse binary weights:
    S -> c(v) X(v);  X(v) -> f(v) | p(v,w) X(w) | q(v,w) Y(w);  Y(v) -> g(v) | r(v,w) Y(w) | s(v,w) X(w).
    The block elimination of `linear` / `newton` then solves with a MATRIX right-hand side (the block (Y, X) when X is eliminated
    first) whose rows are partly zero"""
    d = rng.choice([2, 2, 3])
    terms = [[0], [0], [0], [0, 0], [0, 0], [0, 0], [0, 0]]
    nts = [[], [0], [0]]
    def rec(lhs, t, child):
        return dict(lhs=lhs, nodes=[0, 0], ext=[0], edges=[['t', t, [0, 1]], ['n', child, [1]]])
    rules = [dict(lhs=0, nodes=[0], ext=[], edges=[['t', 0, [0]], ['n', 1, [0]]]),
             dict(lhs=1, nodes=[0], ext=[0], edges=[['t', 1, [0]]]), dict(lhs=2, nodes=[0], ext=[0], edges=[['t', 2, [0]]]),
             rec(1, 3, 1), rec(1, 4, 2), rec(2, 5, 2), rec(2, 6, 1)]
    rng.shuffle(rules)
    w = {i: [rng.choice([1.0, 2.0, 0.5, 0.25]) for _ in range(d)] for i in range(3)}
    for i in range(3, 7):
        w[i] = [rng.choice([0.0, 0.0, 0.125, 0.0625, 0.03125]) for _ in range(d * d)]
    shape = dict(nls=[d], terms=terms, nts=nts, start=0, rules=rules, weights=w)
    shape['vweights'] = {i: [rng.choice([-1.0, -2.0, -0.5, -math.inf]) if i >= 3 else rng.choice([0.0, -1.0]) for _ in ws] for i, ws in w.items()}
    return shape


def same_reply(a, b, rtol):
    """replies of two interpreter modes: same keys, same error kind, numbers equal within floating-point
    tolerance (the reduction order of the BLAS kernels may differ between processes by an ulp)"""
    if isinstance(a, dict) and isinstance(b, dict):
        return a.keys() == b.keys() and all(same_reply(a[k], b[k], rtol) for k in a)
    if isinstance(a, list) and isinstance(b, list):
        return len(a) == len(b) and all(same_reply(x, y, rtol) for x, y in zip(a, b))
    if isinstance(a, float) and isinstance(b, float):
        return close(a, b, rtol)
    return a == b


def close(a, b, rtol):
    if a == b or (a != a and b != b):
        return True
    if math.isinf(a) or math.isinf(b) or a != a or b != b:
        return False
    return abs(a - b) <= rtol * max(1.0, abs(a), abs(b))


def near_critical(ctx):
    """corpus: a loop whose weight is just below 1, S -> a S | b with log a = -10^-e (NOT a dyadic weight: 1 - exp(log a) must be
    computed, not looked up), Z = b / (1 - a): finite, large, and solved by `linear` / `newton` through star(a).  In the Log semiring
    star must stay accurate as log a -> 0 (the library evaluates -log(-expm1(x)) there): the result is compared with the closed form
    log b - log(-expm1(x)), x being the log-weight as the dtype holds it — to the dtype's precision, far from the 1e-2 of the test suite"""
    import numpy as np
    from . import o_server
    for e, dt, tol in ((3, 'float32', 4e-6), (4, 'float32', 4e-6), (4.5, 'float32', 4e-6), (5, 'float32', 4e-6),
                       (8, 'float64', 1e-13), (9.5, 'float64', 1e-13), (10, 'float64', 1e-13), (11.3, 'float64', 1e-13), (12, 'float64', 1e-13)):
        a, b = math.exp(-10.0 ** -e), 0.5
        shape = dict(nls=[1], terms=[[], []], nts=[[]], start=0,
                     rules=[dict(lhs=0, nodes=[], ext=[], edges=[('t', 0, []), ('n', 0, [])]), dict(lhs=0, nodes=[], ext=[], edges=[('t', 1, [])])],
                     weights={0: [a], 1: [b]}, vweights={0: [0.0], 1: [0.0]}, bweights={0: [1.0], 1: [1.0]})
        x = math.log(a)                                  # what the harness hands to the Log semiring (semgen.weight_map)
        xd = float(np.float32(x)) if dt == 'float32' else x
        want_log = math.log(b) - math.log(-math.expm1(xd))
        ad = float(np.float32(a)) if dt == 'float32' else a
        want_real = math.log(b) - math.log1p(-ad) if ad < 1 else math.inf
        for method in ('linear', 'newton'):
            for name in ('log', 'real'):
                req = dict(shape=json.loads(json.dumps(shape)), semiring=name, method=method, j_precompute=False, dtype=dt, grad=False)
                case = dict(shape=shape, config=[name, method, False, dt], family='near-critical-loop')
                ctx.evaluations += 1
                ctx.count('near-critical-loop')
                ctx.case(case, ('near-critical', e, dt, method, name), sample_every=6)
                try:
                    rep = o_server.evaluate(req)
                except Exception as ex:  # noqa
                    ctx.fail(f'{name}/{method}/{dt}: raised {type(ex).__name__} on a loop of log-weight -1e-{e}', case, repr(ex), want_log,
                             tags=['near-critical', name, method, dt, 'raises'])
                    continue
                v = rep['value'][0]
                if name == 'log':
                    got, want, err = v, want_log, abs(v - want_log) / max(1.0, abs(want_log))
                else:
                    # Real: 1 - a is a subtraction of nearly equal numbers, exact in floating point; Z = b / (1 - a) to a few ulps
                    got = math.log(v) if v > 0 else -math.inf
                    want, err = want_real, abs(got - want_real)
                if rep.get('warned') or not err <= 8 * tol:
                    ctx.fail(f'{name}/{method}/{dt}: log Z = {got!r} for the loop of log-weight -1e-{e}; the closed form is {want!r}', case, got, want,
                             tags=['near-critical', name, method, dt, 'value'])


def run(ctx):
    from . import o_server
    modes = {'python': Server([]), 'python -O': Server(['-O'])}
    if not ctx.quick:
        modes['python -OO'] = Server(['-OO'])
    else:
        modes['python -OO'] = Server(['-OO'])
    try:
        near_critical(ctx)
        n = 40 if ctx.quick else 250
        done = 0
        while done < n:
            recursive = ctx.rng.random() < 0.4
            shape = gen_shape(ctx.rng, recursive)
            if done == 2:
                # corpus: a finite Z over a DIVERGENT component that the start symbol weighs with zero:  S -> X(v) g(v),
                # X(v) -> a(v) | X(v) c(v)  with c = [2, 1/2], g = [0, 1]: X(0) is infinite, Z = a(1) / (1 - 1/2) is finite, dZ/dg(0) = X(0).
                # The solvers must treat the divergent cell alike in every interpreter mode (a guard written as an assertion vanishes
                # under python -O)
                recursive = True
                shape = dict(nls=[2], terms=[[0], [0], [0]], nts=[[], [0]], start=0,
                             rules=[dict(lhs=0, nodes=[0], ext=[], edges=[('n', 1, [0]), ('t', 2, [0])]),
                                    dict(lhs=1, nodes=[0], ext=[0], edges=[('t', 0, [0])]),
                                    dict(lhs=1, nodes=[0], ext=[0], edges=[('n', 1, [0]), ('t', 1, [0])])],
                             weights={0: [1.0, 1.0], 1: [2.0, 0.5], 2: [0.0, 1.0]},
                             vweights={0: [0.0, 0.0], 1: [-1.0, -1.0], 2: [-math.inf, 0.0]},
                             bweights={0: [1.0, 1.0], 1: [1.0, 1.0], 2: [0.0, 1.0]})
                ctx.count('corpus.divergent-component-weighed-zero')
            if done % 8 == 5:
                recursive = True
                shape = multi_linear_shape(ctx.rng)
                ctx.count('multi-rule-linear-family')
            if done % 8 == 3:
                recursive = True
                shape = mutual_linear_shape(ctx.rng)
                ctx.count('mutual-linear-family')
            rec, lin = sccs_and_linearity(shape)
            if recursive and not rec:
                continue
            if recursive and ctx.rng.random() < 0.3:
                from .c03 import add_dead_rule
                extra = {k_: shape[k_] for k_ in ('vweights', 'bweights') if k_ in shape}
                shape = add_dead_rule(ctx.rng, shape)
                shape.update(extra)
                rec, lin = sccs_and_linearity(shape)
                ctx.count('with-dead-rule')
            if 'vweights' in shape and recursive:
                shape['vweights'] = {i: [min(x, 0.0) for x in w] for i, w in shape['vweights'].items()}
            done += 1
            one_grammar(ctx, shape, rec, lin, modes)
            if done % (10 if ctx.quick else 5) == 1:
                cli(ctx, shape, rec, lin)
    finally:
        for s in modes.values():
            s.close()


def cli(ctx, shape, recursive, linear):
    """the command-line program as shipped (`#!/usr/bin/env -S python3 -OO`): bin/sum_product.py on the JSON of the
    grammar must print the value (and, with -G, the gradients) that sum_product returns in-process; with one factor
    removed from the file and passed with -w instead, the same again"""
    import os, subprocess, sys, tempfile
    from fggs import formats
    from . import o_server
    jshape = json.loads(json.dumps(shape))
    # weights that are NOT exactly representable in float32 (0.1, 0.3, 0.7 ...): `-d` must really compute in double precision
    # (the in-process reference below does), which dyadic weights cannot tell apart from single precision
    wkey = 'weights'
    jshape[wkey] = {k: [w * ctx.rng.choice([0.1, 0.3, 0.7, 1.1]) if w not in (0.0,) and w == w and abs(w) != math.inf else w for w in ws]
                    for k, ws in jshape[wkey].items()}
    method = ctx.rng.choice(['fixed-point', 'newton'] + (['linear'] if linear else []))
    jp = ctx.rng.random() < 0.3
    try:
        ref = o_server.evaluate(dict(shape=json.loads(json.dumps(jshape)), semiring='real', method=method, j_precompute=jp, dtype='float64', grad=True))
    except Exception:
        return
    if ref.get('warned') or not all(math.isfinite(v) for v in ref['value']):
        return
    fgg, info = semgen.build(o_server.fix(json.loads(json.dumps(jshape))), 'real', torch.float64)
    j = formats.fgg_to_json(fgg)
    names = [el.name for el in info['TL']]
    case = dict(shape=jshape, cli=dict(method=method, j_precompute=jp))
    for variant in ('file', 'w-option'):
        jj = json.loads(json.dumps(j))
        extra = []
        if variant == 'w-option':
            if not names:
                continue
            nm = ctx.rng.choice(names)
            w = jj['interpretation']['factors'].pop(nm)['weights']
            extra = ['-w', nm, json.dumps(w)]
        with tempfile.TemporaryDirectory(prefix='fggs-verif-cli-') as d:
            f = os.path.join(d, 'g.json')
            with open(f, 'w') as fh:
                json.dump(jj, fh)
            cmd = [sys.executable, '-OO', os.environ.get('FGGS_REPO', '/repo') + '/bin/sum_product.py', f, '-d', '-m', method, '-l', '1e-10', '-k', '3000', '-G'] + (['-j'] if jp else []) + extra
            env = dict(os.environ, PYTHONPATH=os.environ.get('FGGS_REPO', '/repo'))
            r = subprocess.run(cmd, capture_output=True, text=True, env=env, timeout=600)
        ctx.evaluations += 1
        ctx.count(f'cli.{variant}')
        ctx.case(dict(case, variant=variant), ('cli', repr(shape), variant), sample_every=3)
        if r.returncode != 0:
            tags = ['cli', 'cli-error'] + (['in:J_precompute_products'] if 'J_precompute_products' in r.stderr else [])
            ctx.fail(f'bin/sum_product.py ({variant}) exited with {r.returncode}: {r.stderr.strip().splitlines()[-1][:120] if r.stderr.strip() else ""}',
                     dict(case, variant=variant, cmd=cmd[3:]), r.stderr[-400:], ref['value'], tags=tags + ['real', method, f'j_precompute={jp}'])
            continue
        lines = [l for l in r.stdout.splitlines() if l.strip()]
        try:
            val = json.loads(lines[0])
            flatv = torch.tensor(val, dtype=torch.float64).reshape(-1).tolist()
            grads = {l.split(':', 1)[0][5:-1]: torch.tensor(json.loads(l.split(':', 1)[1]), dtype=torch.float64).reshape(-1).tolist()
                     for l in lines[1:] if l.startswith('grad[')}
        except Exception as e:  # noqa
            ctx.fail(f'bin/sum_product.py ({variant}) printed something unreadable', dict(case, variant=variant), r.stdout[-300:], None, tags=['cli', 'cli-output'])
            continue
        rtol = 1e-6 if recursive else 1e-9
        if len(flatv) != len(ref['value']) or not all(close(a, b, rtol) for a, b in zip(flatv, ref['value'])):
            ctx.fail(f'bin/sum_product.py ({variant}) prints a value different from sum_product in-process', dict(case, variant=variant), flatv, ref['value'],
                     tags=['cli', 'cli-value', 'real', method, f'j_precompute={jp}'])
        if ref.get('grads') is not None:
            for nm, g in zip(names, ref['grads']):
                got = grads.get(nm)
                want = g if g is not None else None
                if want is None:
                    continue
                if got is None or len(got) != len(want) or not all(close(a, b, 10 * rtol) for a, b in zip(got, want)):
                    ctx.fail(f'bin/sum_product.py ({variant}) prints a gradient for {nm} different from backward() in-process', dict(case, variant=variant), got, want,
                             tags=['cli', 'cli-grad', 'real', method, f'j_precompute={jp}'])
                    break


def one_grammar(ctx, shape, recursive, linear, modes):
    case = dict(shape=shape)
    nontriv = recursive or any(len(r['edges']) >= 3 for r in shape['rules'])
    ctx.case(case, repr(shape) if nontriv else None, sample_every=8)
    ctx.count('recursive' if recursive else 'nonrecursive')
    methods = ['fixed-point', 'newton'] + (['linear'] if linear else [])
    # the two Jacobian implementations selected by j_precompute, called directly at a random point, against the model `Pipe.jac`
    from . import jac
    for name in ('real', 'viterbi'):
        for which in ('J', 'JPP'):
            jac.stream(ctx, shape, name, which, case)
    results = {}
    jshape = json.loads(json.dumps(shape))
    for name in ('real', 'log', 'viterbi', 'bool'):
        for method, jp, dt in itertools.product(methods, (False, True), ('float64', 'float32')):
            if name == 'bool' and dt == 'float32':
                continue
            req = dict(shape=jshape, semiring=name, method=method, j_precompute=jp, dtype=dt, grad=name in ('real', 'log'))
            from . import o_server
            try:
                rep = o_server.evaluate(json.loads(json.dumps(req)))
            except Exception as e:  # noqa
                rep = dict(error=type(e).__name__, message=str(e)[:200], where=o_server.where(e))
            ctx.evaluations += 1
            ctx.count(f'{name}.' + ('error.' + rep['error'] if 'error' in rep else 'ok'))
            results[(name, method, jp, dt)] = rep
            # interpreter modes: a sample of the configurations (all of them in the thorough tier)
            if not ctx.quick or ctx.rng.random() < 0.25:
                for mode, srv in modes.items():
                    r2 = srv.ask(req)
                    ctx.evaluations += 1
                    want_debug = mode == 'python'
                    if r2.get('debug') != want_debug:
                        raise RuntimeError(f'o_server under {mode} reports __debug__={r2.get("debug")}')
                    a = {k: v for k, v in rep.items() if k not in ('debug', 'message', 'where')}
                    b = {k: v for k, v in r2.items() if k not in ('debug', 'message', 'where')}
                    # the property speaks of FGGs with a FINITE sum-product: a run that hit kmax (warned) or returned a non-finite value
                    # is outside it; its gradients come from a singular / ill-conditioned linear system and need not agree between
                    # processes (false alarm of vp check 5, seed 1: a divergent grammar, gradients inf vs 4.5e15)
                    def _outside(r_):
                        v_ = r_.get('value')
                        return bool(r_.get('warned')) or (isinstance(v_, list) and any(isinstance(x_, float) and not math.isfinite(x_) for x_ in v_))
                    if _outside(rep) or _outside(r2):
                        ctx.count('interpreter-modes.outside-property(non-finite or not converged)')
                        if ('error' in rep) != ('error' in r2):
                            jpp = ['in:J_precompute_products'] if 'J_precompute_products' in (rep.get('where') or []) + (r2.get('where') or []) else []
                            ctx.fail(f'result under {mode}: one interpreter mode raises, the other does not', dict(case, config=[name, method, jp, dt]), b, a,
                                     tags=['interpreter-mode', mode, 'error-kind', name, method, f'j_precompute={jp}'] + jpp)
                        continue
                    if not same_reply(a, b, 1e-4 if dt == 'float32' else 1e-12):
                        jpp = ['in:J_precompute_products'] if 'J_precompute_products' in (rep.get('where') or []) + (r2.get('where') or []) else []
                        ctx.fail(f'result under {mode} differs from the in-process result', dict(case, config=[name, method, jp, dt]), b, a,
                                 tags=['interpreter-mode', mode, name, method, f'j_precompute={jp}'] + jpp)
    # ---- all admissible configurations agree
    if any(isinstance(v, float) and not math.isfinite(v) for v in results[('real', 'fixed-point', False, 'float64')].get('value', [math.inf])):
        ctx.count('infinite-skipped')
        return
    if results[('real', 'fixed-point', False, 'float64')].get('warned'):
        # the monotone iteration had not converged after kmax steps (e.g. X -> X | c, whose least solution is
        # infinite while the iterates grow linearly): Z is not known to be finite, outside the property's scope
        ctx.count('fixed-point-not-converged-skipped')
        return
    ref = results[('real', 'fixed-point', False, 'float64')]
    for (name, method, jp, dt), rep in results.items():
        base = results[(name, 'fixed-point', False, 'float64' if name != 'bool' else 'float64')]
        cfg = [name, method, jp, dt]
        if 'error' in rep:
            tags = ['option-error', rep['error'], name, method, f'j_precompute={jp}'] + \
                (['in:J_precompute_products'] if 'J_precompute_products' in (rep.get('where') or []) else [])
            ctx.fail(f'{name}/{method}/j_precompute={jp}/{dt} raised {rep["error"]}: {rep.get("message")}', dict(case, config=cfg), rep, None, tags=tags)
            continue
        if 'error' in base:
            continue
        rtol = 1e-3 if dt == 'float32' else (1e-6 if recursive else 1e-9)
        # the trigger of findings D8b/D8c: J_precompute_products multiplies in, at EVERY later prefix/suffix step, the domain size of
        # an internal node that is no longer (or not yet) among the step's nodes: a rule with m >= 3 edges and an internal node that is
        # isolated, or whose edges all lie among the first m-2 or among the last m-2 edges
        def _early(r):
            m = len(r['edges'])
            if m < 3:
                return False
            for v in range(len(r['nodes'])):
                if v in r['ext']:
                    continue
                idx = [i for i, (_, _, att) in enumerate(r['edges']) if v in att]
                if not idx or max(idx) <= m - 3 or min(idx) >= 2:
                    return True
            return False
        iso = (['jpp-internal-node-outside-some-step'] if any(_early(r) for r in shape['rules']) else []) + \
              (['jpp-edge-attached-twice'] if any(len(set(att)) < len(att) for r in shape['rules'] for _, _, att in r['edges']) else [])
        if len(rep['value']) != len(base['value']) or not all(close(a, b, rtol) for a, b in zip(rep['value'], base['value'])):
            ctx.fail(f'{name}: value depends on the options ({method}, j_precompute={jp}, {dt})', dict(case, config=cfg), rep['value'], base['value'],
                     tags=['option-value', name, method, f'j_precompute={jp}', dt] + iso)
        if rep.get('grads') is not None and base.get('grads') is not None:
            for ga, gb in zip(rep['grads'], base['grads']):
                if (ga is None) != (gb is None) or (ga is not None and not all(close(a, b, 10 * rtol) for a, b in zip(ga, gb))):
                    ctx.fail(f'{name}: gradient depends on the options ({method}, j_precompute={jp}, {dt})', dict(case, config=cfg), ga, gb,
                             tags=['option-grad', name, method, f'j_precompute={jp}', dt] + iso)
                    break
    # ---- semiring relations
    real = results[('real', 'fixed-point', False, 'float64')].get('value')
    logv = results[('log', 'fixed-point', False, 'float64')].get('value')
    boolv = results[('bool', 'fixed-point', False, 'float64')].get('value')
    if real and logv:
        ctx.evaluations += 1
        # the Real iteration stops on an ABSOLUTE tolerance (1e-10 here, so its result is within about 1e-8 of the limit), the Log
        # iteration on an absolute tolerance of the LOG value: for a tiny Z (1e-6) the Real result has a relative error of 1e-5 and its
        # logarithm differs accordingly; the comparison therefore also accepts |exp(log-result) - real-result| <= 1e-8
        # (false alarm of sweep 12, thorough tier, seed 5: Z = 1.0177e-06)
        if not all(close(l, math.log(r) if r > 0 else -math.inf, 1e-6) or (math.isfinite(l) and abs(math.exp(l) - r) <= 1e-8)
                   for l, r in zip(logv, real)):
            ctx.fail('the Log result is not the logarithm of the Real result', case, logv, real, tags=['log-vs-real'])
    # ... and so are the gradients (scalar start): d log Z / d log w = (w / Z) dZ/dw, entry by entry
    rg = results[('real', 'fixed-point', False, 'float64')].get('grads')
    lg = results[('log', 'fixed-point', False, 'float64')].get('grads')
    if real and logv and len(real) == 1 and rg is not None and lg is not None and real[0] > 0 and math.isfinite(real[0]):
        ctx.evaluations += 1
        for i, (gr, gl) in enumerate(zip(rg, lg)):
            w = shape['weights'][i] if i in shape['weights'] else shape['weights'][str(i)]
            if gr is None or gl is None:
                if (gr is None) != (gl is None) and any(x != 0 for x in (gr or gl)):
                    ctx.fail('a factor has a gradient in one of Real/Log and none in the other', dict(case, factor=i), gl, gr, tags=['log-vs-real-grad'])
                continue
            want = [wv * g / real[0] for wv, g in zip(w, gr)]
            tz = 1e-5 + 2e-8 / real[0]          # (w / Z) dZ/dw inherits the relative error of the Real result: about 1e-8 / Z
            if not all(wv == 0 or close(a, b, tz) for a, b, wv in zip(gl, want, w)):
                ctx.fail('the Log-semiring gradient is not (w / Z) times the Real-semiring gradient', dict(case, factor=i), gl, want, tags=['log-vs-real-grad'])
                break
    if real and boolv is not None:
        ctx.evaluations += 1
        if [bool(b) for b in boolv] != [r != 0 for r in real]:
            ctx.fail('the Boolean result is not the support of the Real result', case, boolv, real, tags=['bool-vs-real'])
    # Viterbi <= Log on the same (log-space) weights: evaluate Log on the viterbi weights
    vshape = dict(jshape, weights={str(k): [math.exp(x) if x > -math.inf else 0.0 for x in v] for k, v in shape['vweights'].items()})
    try:
        from . import o_server
        lv = o_server.evaluate(dict(shape=json.loads(json.dumps(vshape)), semiring='log', method='fixed-point', j_precompute=False, dtype='float64', grad=False))
        vv = results[('viterbi', 'fixed-point', False, 'float64')].get('value')
        if vv and 'value' in lv and all(math.isfinite(x) or x == -math.inf for x in lv['value']):
            ctx.evaluations += 1
            if not all(v <= l + 1e-9 * max(1.0, abs(l)) or (v == l) for v, l in zip(vv, lv['value'])):
                ctx.fail('the Viterbi result exceeds the Log result', case, vv, lv['value'], tags=['viterbi-vs-log'])
    except Exception:
        pass


def replay(ctx, rep):
    run(ctx)
    return bool(ctx.failures or ctx.disagreements)
