"""C12 — presentation independence.  Every generated grammar is built in several presentations
(rule / node / edge insertion orders shuffled, implicit vs explicit ids, ids and label names renamed,
domain values permuted together with the corresponding axes of all factors); sum_product (all
methods and semirings), its gradients and the weight of the viterbi derivation must agree across
presentations (the start tensor permuted accordingly) and with the Lean model's value, which is
computed once from the canonical presentation."""
import itertools, math, warnings
import torch
import fggs
from . import gen, semgen
from .c02 import sccs_and_linearity
from .common import enc_list, Toks

RULE = ('grammars from the C01/C02 generators (non-recursive and recursive with finite value); k = 4 (quick) / 10 (thorough) presentations '
        'each: shuffled rule order, node order, edge order, ids implicit/explicit/mixed, renamed node labels / edge labels, permuted domain '
        'values with factor axes and start assignment permuted accordingly; x {Real, Log, Viterbi, Bool} x methods; gradients per weight entry (Real, Log); grammars with a non-terminating nonterminal inside a recursive SCC; '
        'viterbi weight; non-trivial = grammar with >= 2 rules and a domain of size >= 2')
ASSUMPTIONS = ['exact regime (small integer / dyadic weights) so that different summation orders give bit-identical results; '
               'recursive Real/Log grammars are compared within 1e-6 relative instead']


def permute_shape(rng, shape):
    """a shape denoting the same grammar up to a permutation of each domain's values; returns the
    permuted shape and the permutation per node label"""
    perms = [rng.sample(range(n), n) for n in shape['nls']]      # new index i holds old value perms[l][i]
    def perm_weights(ty, w):
        sizes = [shape['nls'][l] for l in ty]
        if not sizes:
            return list(w)
        t = torch.tensor(w, dtype=torch.float64).reshape(sizes)
        for ax, l in enumerate(ty):
            t = t.index_select(ax, torch.tensor(perms[l], dtype=torch.long))
        return t.reshape(-1).tolist()
    s2 = dict(shape)
    for key in ('weights', 'vweights'):
        if key in shape:
            s2[key] = {i: perm_weights(shape['terms'][i], w) for i, w in shape[key].items()}
    return s2, perms


def presentation(rng, shape, which):
    """build kwargs for gen.build_fgg"""
    nr = len(shape['rules'])
    kw = {}
    if which % 2 == 1:
        order = list(range(nr)); rng.shuffle(order); kw['rule_order'] = order
    kw['node_perm'] = {ri: rng.sample(range(len(r['nodes'])), len(r['nodes'])) for ri, r in enumerate(shape['rules'])}
    kw['edge_perm'] = {ri: rng.sample(range(len(r['edges'])), len(r['edges'])) for ri, r in enumerate(shape['rules'])}
    kw['ids'] = ['implicit', 'explicit', 'mixed', 'derived', 'derived'][which % 5]
    if which % 4 >= 2:
        kw['names'] = {**{('nl', i): f'q{7 - i}' for i in range(len(shape['nls']))},
                       **{('t', i): f'Z{i}z' for i in range(len(shape['terms']))},
                       **{('n', i): f'<{i},{i}>' for i in range(len(shape['nts']))}}
    kw['rng'] = rng
    return kw


def start_perm(shape, perms, flat):
    """undo the domain permutation on a flat start tensor"""
    return unperm(shape, perms, shape['nts'][shape['start']], flat)


def unperm(shape, perms, ty, flat):
    """undo the domain permutation on a flat tensor of type ty"""
    sizes = [shape['nls'][l] for l in ty]
    if not sizes:
        return flat
    t = torch.tensor(flat, dtype=torch.float64).reshape(sizes)
    for ax, l in enumerate(ty):
        inv = [0] * len(perms[l])
        for new, old in enumerate(perms[l]):
            inv[old] = new
        t = t.index_select(ax, torch.tensor(inv, dtype=torch.long))
    return t.reshape(-1).tolist()


def run(ctx):
    n = 80 if ctx.quick else 400
    kpres = 4 if ctx.quick else 10
    done = 0
    while done < n:
        recursive = ctx.rng.random() < 0.35
        if recursive:
            from .c02 import gen_shape as g2
            shape = g2(ctx.rng)
            rec, lin = sccs_and_linearity(shape)
            if not rec:
                continue
            shape['vweights'] = {i: [min(x, 0.0) for x in w] for i, w in shape['vweights'].items()}
            if ctx.rng.random() < 0.3:
                # a nonterminal without terminating derivation inside the SCC: per-rule sum-products that are
                # structurally absent, at a position that depends on the rule order
                from .c03 import add_dead_rule
                shape = add_dead_rule(ctx.rng, shape)
                rec, lin = sccs_and_linearity(shape)
                ctx.count('with-dead-rule')
        else:
            from .c01 import gen_shape as g1
            shape = g1(ctx.rng, dom_sizes=(1, 2, 3, 2))
            lin = True
        done += 1
        case = dict(shape={k: v for k, v in shape.items()})
        nontriv = len(shape['rules']) >= 2 and max(shape['nls']) >= 2
        ctx.case(case, repr(shape) if nontriv else None, sample_every=15)
        ctx.count('recursive' if recursive else 'nonrecursive')
        results = {}
        for p in range(kpres):
            sh, perms = (shape, None) if p == 0 else permute_shape(ctx.rng, shape)
            kw = {} if p == 0 else presentation(ctx.rng, sh, p)
            for name in ('real', 'log', 'viterbi', 'bool'):
                shn = dict(sh, weights=sh['vweights']) if name == 'viterbi' else sh
                methods = ['fixed-point', 'newton'] + (['linear'] if lin else [])
                for method in methods:
                    try:
                        fgg, info = semgen.build(shn, name, torch.float64, **kw)
                        with warnings.catch_warnings(record=True) as wlist:
                            warnings.simplefilter('always')
                            if name in ('real', 'log'):
                                for el in info['TL']:
                                    fgg.factors[el.name].weights.physical.requires_grad_(True)
                            z = fggs.sum_product(fgg, method=method, semiring=semgen.semiring_of(name, torch.float64), tol=1e-12, kmax=2000)
                            zd = z.to_dense()
                            val = zd.reshape(-1).tolist()
                            grads = None
                            if name in ('real', 'log') and zd.requires_grad and bool(torch.isfinite(zd).any()):
                                zd[torch.isfinite(zd)].sum().backward()
                                grads = []
                                for i, el in enumerate(info['TL']):
                                    w = fgg.factors[el.name].weights
                                    g = w.physical.grad
                                    gl = [0.0] * len(sh['weights'][i]) if g is None else w.nonphysical().reincarnate(g).to_dense().reshape(-1).tolist()
                                    if name == 'log':   # the derivative w.r.t. a log-weight of -inf is not claimed
                                        gl = [0.0 if wv == 0 else x for x, wv in zip(gl, sh['weights'][i])]
                                    grads += gl if perms is None else unperm(shape, perms, shape['terms'][i], gl)
                        if perms is not None:
                            val = start_perm(shape, perms, val)
                        out = (val, grads)
                        if any('converge' in str(w_.message) or 'kmax' in str(w_.message) or 'iteration' in str(w_.message) for w_ in wlist):
                            # the iteration hit kmax: the grammar has no finite sum-product within reach (divergent or too slow); what is
                            # returned is a partial sum and its gradient comes from an ill-conditioned system: outside the comparison
                            # (false alarm of sweep 6, seed 42: a divergent grammar, gradients inf vs 7e13)
                            out = ('not-converged',)
                            ctx.count('not-converged')
                    except Exception as e:  # noqa
                        out = ('raise', type(e).__name__)
                    key = (name, method)
                    ctx.evaluations += 1
                    if out == ('not-converged',) or results.get(key) == ('not-converged',):
                        results.setdefault(key, out)
                        continue
                    if key not in results:
                        results[key] = out
                    # Real results are compared within 1e-12 also for non-recursive grammars: with the tiny weights of the C01 generator
                    # (products of four and more powers of two next to 1) a sum is no longer exactly representable and its last bit
                    # depends on the order of the terms (false alarm of sweep 10, seed 71: 5.626516854840602 against 5.6265168548406015)
                    elif not same(results[key], out, exact=(name in ('viterbi', 'bool')),
                              rtol=1e-6 if recursive else 1e-12):
                        ctx.fail(f'{name}/{method}: result depends on how the grammar is written down (presentation {p})',
                                 dict(case, presentation=p, kwargs={k: v for k, v in kw.items() if k != 'rng'}), out, results[key],
                                 tags=['presentation', name, method])
            # viterbi weight (non-recursive, finite): weight of the returned derivation is presentation independent
            if not recursive:
                try:
                    shn = dict(sh, weights=sh['vweights'])
                    fgg, info = semgen.build(shn, 'viterbi', torch.float64, **kw)
                    z = fggs.sum_product(fgg, semiring=fggs.ViterbiSemiring(dtype=torch.float64)).to_dense()
                    if z.ndim == 0 and math.isfinite(z.item()):
                        d = fggs.viterbi(fgg, (), semiring=fggs.ViterbiSemiring(dtype=torch.float64))
                        g, asst = d.derive()
                        w = sum(g.factors[e.label.name].apply([g.domains[v.label.name].denumberize(asst[v]) for v in e.nodes]).item() for e in g.edges())
                        ctx.evaluations += 1
                        # the property: the weight does not depend on the presentation (that it is the maximum is C04's claim;
                        # with +inf log-weights meeting -inf ones it is not: finding D35 there)
                        if 'viterbi-weight' not in results:
                            results['viterbi-weight'] = w
                        elif not (w == results['viterbi-weight'] or (w != w and results['viterbi-weight'] != results['viterbi-weight'])):
                            # +inf log-weights meeting -inf ones give NaN in the kernel's plain addition and NaN wins or loses the argmax
                            # depending on the order of the candidates: finding D35 (recorded under C04) seen from C12
                            pn = any(x == math.inf for wv in sh['vweights'].values() for x in wv) and \
                                any(x == -math.inf for wv in sh['vweights'].values() for x in wv)
                            ctx.fail('weight of the viterbi derivation depends on how the grammar is written down',
                                     dict(case, presentation=p), w, results['viterbi-weight'],
                                     tags=['presentation', 'viterbi-weight'] + (['posinf-meets-neginf'] if pn else []))
                        posinf = any(x == math.inf for wv in sh['vweights'].values() for x in wv)
                        if w != z.item() and not posinf:
                            ctx.fail('weight of the viterbi derivation differs from the Viterbi sum_product in this presentation',
                                     dict(case, presentation=p), w, z.item(), tags=['presentation', 'viterbi-weight', 'not-maximal'])
                except RecursionError:
                    pass
                except Exception as e:  # noqa
                    ctx.fail(f'viterbi raised {type(e).__name__} in presentation {p}', dict(case, presentation=p), repr(e), None, tags=['raises'])


def same(a, b, exact, rtol=1e-6):
    # Log-semiring values go through exp/log, whose roundings depend on the summation order: the property
    # asks for equality 'within floating-point tolerance', so log is never compared bit-for-bit
    if a[0] == 'raise' or b[0] == 'raise':
        return a == b
    def eq(x, y):
        if x == y or (x != x and y != y):
            return True
        if exact or math.isinf(x) or math.isinf(y):
            return False
        return abs(x - y) <= rtol * max(1.0, abs(x), abs(y))
    va, ga = a
    vb, gb = b
    if len(va) != len(vb) or not all(eq(x, y) for x, y in zip(va, vb)):
        return False
    if (ga is None) != (gb is None):
        return False
    if ga is not None:
        # a NEARLY CRITICAL grammar (derivatives of the order 1e6 next to Z of the order 1) is ill-conditioned: an iterate within delta of
        # the solution has a gradient within about g^2 * delta of the true one (g ~ 1/(1 - rho), dg/dx ~ g^2), so the relative error the
        # solver's own tolerance allows grows with the size of the gradient; with delta ~ 1e-9 that is 1e-9 * gmax relative
        # (false alarm of sweep 11, seed 82: log/newton on S -> S' | S S t | t at the double root, gradients 1048787.7 against 1048643.3)
        gmax = max([1.0] + [abs(x) for x in list(ga) + list(gb) if x == x and not math.isinf(x)])
        if not all(eq(x, y) or abs(x - y) <= 1e-9 * max(1.0, abs(x)) or abs(x - y) <= 1e-9 * gmax * max(abs(x), abs(y)) for x, y in zip(ga, gb)):
            return False
    return True


def replay(ctx, rep):
    run(ctx)
    return bool(ctx.failures or ctx.disagreements)
