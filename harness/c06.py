"""C06 — patterned tensors behave like the dense tensors they denote.  Every public operation of
PatternedTensor is applied to typed random patterns and compared with the corresponding torch operation
on to_dense(); with FGGS_VERIF=1 every PatternedTensor constructed inside the library passes the
representation-invariant hook; and the meaning of the representation itself is tied to the Lean model:
`Ax.PT.dense` (and `wf`, `strideOk`) of the (physical, paxes, vaxes, default) must equal to_dense()."""
import math, itertools
import torch
from fggs.indices import PatternedTensor, PhysicalAxis, stack, VerifInvariantError
from . import ptgen
from .ptgen import random_type, random_pt, same_dense, ty_numel
from .common import enc_list, Toks, dec_ext

RULE = ('index types of depth <= 2 over sizes {1,2,3,4} (atoms, products, sums), 0..3 dimensions, shared physical axes (diagonals), dense '
        'covers, defaults in {0,1,-inf,inf,2}, physical values in {0,1,2,-1,3,1/2,+-inf}; every operation of the reviewed op table on '
        '1/2/3 operands over a common type list, plus a structural op followed by a second op; non-trivial = an operand that is not dense '
        '(some virtual axis is not a plain physical axis); representation-level streams (the result compared token by token with the Lean '
        'model, up to renaming of axes): binary operations, reshape/view, __getitem__, permute/transpose/T/flatten/unsqueeze/expand/any, '
        'stack of 1..3 operands, dim_to_dense/__iter__/tolist/default_to/clone, where, log_softmax (pattern exactly, values in floating '
        'point); float32 stream (exact unary operations, infinite/NaN defaults); zero-size stream (dimensions of size 0); unit-factor family')
ASSUMPTIONS = ['transcendental pointwise ops (exp, log, expm1, log1p, logaddexp, log_softmax) are compared within 1e-12 relative',
               'grad/requires_grad_/detach (autograd plumbing) are exercised elsewhere, not here']

# every public attribute of PatternedTensor must be classified here: tested below, or excluded with a reason
EXCLUDED = {'physical', 'paxes', 'vaxes', 'default', 'depict', 'nonphysical', 'freshen', 'isdisjoint', 'requires_grad', 'requires_grad_', 'grad',
            'detach', 'is_complex', 'item', 'expansion', 'commutative', 'binary', 'solve', 'mv', 'mm', 'from_int',
            'eye', 'full', 'equal', 'allclose', 'equal_default', 'allclose_default', 'dtype', 'shape', 'size', 'numel', 'dim', 'ndim',
            'ndimension'}
TESTED = {'add', 'sub', 'mul', 'div', 'logaddexp', 'maximum', 'logical_and', 'logical_or', 'logical_not', 'lt', 'le', 'gt', 'ge', 'eq',
          'abs', 'exp', 'expm1', 'log', 'neg_', 'log_', 'log1p_', 'relu_', 'abs_', 'nan_to_num_', 'clamp_min', 'clamp_max', 'to', 'where', 'any',
          'log_softmax', 'permute', 'transpose', 't', 'T', 'flatten', 'unsqueeze', 'expand', 'reshape', 'view', 'clone', 'copy_', 'default_to',
          'project', 'dim_to_dense', 'tolist', 'to_dense', 'stack', 'norm', 'masked_fill_into', 'expand_as', 'repeat'}


def is_dense(t):
    return all(isinstance(e, PhysicalAxis) or e.numel() == 1 for e in t.vaxes) and len({id(e) for e in t.vaxes if isinstance(e, PhysicalAxis)}) == \
        sum(1 for e in t.vaxes if isinstance(e, PhysicalAxis))


def unary_ops():
    U = []
    def u(name, f, g, exact=True, pre=None):
        U.append((name, f, g, exact, pre))
    u('abs', lambda t: t.abs(), lambda d: d.abs())
    u('exp', lambda t: t.exp(), lambda d: d.exp(), False)
    u('expm1', lambda t: t.expm1(), lambda d: d.expm1(), False)
    u('log', lambda t: t.log(), lambda d: d.log(), False)
    u('neg_', lambda t: t.clone().neg_(), lambda d: -d)
    u('log_', lambda t: t.clone().log_(), lambda d: d.log(), False)
    u('log1p_', lambda t: t.clone().log1p_(), lambda d: d.log1p(), False)
    u('relu_', lambda t: t.clone().relu_(), lambda d: d.relu())
    u('abs_', lambda t: t.clone().abs_(), lambda d: d.abs())
    for kw in (dict(nan=0., posinf=math.inf), dict(nan=-math.inf, posinf=math.inf, neginf=-math.inf), dict(nan=0.), dict(nan=1., neginf=-5.)):
        u(f'nan_to_num_{sorted(kw)}', lambda t, kw=kw: t.clone().nan_to_num_(**kw), lambda d, kw=kw: d.nan_to_num(**kw))
    u('clamp_min', lambda t: t.clamp_min(1.0), lambda d: d.clamp_min(1.0))
    u('clamp_max', lambda t: t.clamp_max(1.0), lambda d: d.clamp_max(1.0))
    u('to_float32', lambda t: t.to(torch.float32), lambda d: d.to(torch.float32))
    for s in (1.0, 0.0, -math.inf, 2.0):
        u(f'lt_{s}', lambda t, s=s: t.lt(s), lambda d, s=s: d.lt(s))
        u(f'le_{s}', lambda t, s=s: t.le(s), lambda d, s=s: d.le(s))
        u(f'gt_{s}', lambda t, s=s: t.gt(s), lambda d, s=s: d.gt(s))
        u(f'ge_{s}', lambda t, s=s: t.ge(s), lambda d, s=s: d.ge(s))
        u(f'eq_{s}', lambda t, s=s: t.eq(s), lambda d, s=s: d.eq(s))
    for s in (2.0, 0.0, 0.5):
        u(f'add_{s}', lambda t, s=s: t.add(s), lambda d, s=s: d + s)
        u(f'sub_{s}', lambda t, s=s: t.sub(s), lambda d, s=s: d - s)
        u(f'mul_{s}', lambda t, s=s: t.mul(s), lambda d, s=s: d * s)
        u(f'div_{s}', lambda t, s=s: t.div(s), lambda d, s=s: d / s)
        u(f'imul_{s}', lambda t, s=s: _imul(t.clone(), s), lambda d, s=s: d * s)
        u(f'itruediv_{s}', lambda t, s=s: _idiv(t.clone(), s), lambda d, s=s: d / s)
    u('clone', lambda t: t.clone(), lambda d: d.clone())
    u('default_to_0', lambda t: t.default_to(0.), lambda d: d)
    u('default_to_same', lambda t: t.default_to(t.default), lambda d: d)
    u('T', lambda t: t.T, lambda d: d.permute(*reversed(range(d.ndim))))
    u('t', lambda t: t.t(), lambda d: d.t(), True, lambda t: t.ndim <= 2)
    u('flatten', lambda t: t.flatten(), lambda d: d.flatten(), True, lambda t: t.ndim >= 1)
    u('tolist', lambda t: torch.tensor(t.tolist(), dtype=t.dtype).reshape(t.shape), lambda d: d)
    u('copy_', lambda t: _copy(t), lambda d: d)
    return U


def _imul(t, s):
    t *= s
    return t


def _idiv(t, s):
    t /= s
    return t


def _copy(t):
    dst = PatternedTensor(torch.zeros(t.physical.shape, dtype=t.dtype).contiguous() if t.physical.ndim else torch.zeros((), dtype=t.dtype))
    dst.copy_(t)
    return dst


def binary_ops():
    B = []
    def b(name, f, g, exact=True):
        B.append((name, f, g, exact))
    b('add', lambda t, u: t.add(u), lambda a, c: a + c)
    b('sub', lambda t, u: t.sub(u), lambda a, c: a - c)
    b('mul', lambda t, u: t.mul(u), lambda a, c: a * c)
    b('div', lambda t, u: t.div(u), lambda a, c: a / c, False)
    b('logaddexp', lambda t, u: t.logaddexp(u), lambda a, c: torch.logaddexp(a, c), False)
    b('maximum', lambda t, u: t.maximum(u), lambda a, c: torch.maximum(a, c))
    b('lt', lambda t, u: t.lt(u), lambda a, c: a.lt(c))
    b('le', lambda t, u: t.le(u), lambda a, c: a.le(c))
    b('gt', lambda t, u: t.gt(u), lambda a, c: a.gt(c))
    b('ge', lambda t, u: t.ge(u), lambda a, c: a.ge(c))
    b('eq', lambda t, u: t.eq(u), lambda a, c: a.eq(c))
    b('imul', lambda t, u: _imul(t.clone(), u), lambda a, c: a * c)
    b('itruediv', lambda t, u: _idiv(t.clone(), u), lambda a, c: a / c, False)
    b('stack0', lambda t, u: stack([t, u.default_to(t.default)] if False else [t, t.clone()], 0), lambda a, c: torch.stack([a, a], 0))
    return B


EXTRA_TAGS = []     # appended to the tags of every failure `check` reports (set by the stream that calls it)


def check(ctx, name, operands, impl_fn, torch_fn, exact, reqs, meta):
    case = dict(op=name, operands=[ptgen.enc_pt(t) for t in operands])
    nontriv = any(not is_dense(t) for t in operands)
    ctx.case(dict(op=name, operands=[t.depict(lambda k: f'k{id(k) % 997}') for t in operands]), (name, tuple(case['operands'])) if nontriv else None,
             sample_every=400)
    ctx.count(name.split('_')[0] if not name.startswith('nan_to_num') else 'nan_to_num_')
    denses = [t.to_dense() for t in operands]
    try:
        want = torch_fn(*denses)
    except Exception as e:  # noqa
        want = e
    try:
        got = impl_fn(*operands)
    except VerifInvariantError as e:
        ctx.fail(f'{name}: the library constructed a PatternedTensor that violates the representation invariant: {e}', case, repr(e), None,
                 tags=['invariant', name.split('_')[0]] + EXTRA_TAGS)
        return
    except Exception as e:  # noqa
        got = e
    if isinstance(want, Exception):
        if not isinstance(got, Exception):
            ctx.count('torch-raises-only')
        return
    if isinstance(got, Exception):
        if name.startswith(('reshape', 'view')) and isinstance(got, RuntimeError):
            ctx.count('reshape-refused')
            return
        ctx.fail(f'{name} raised {type(got).__name__}: {str(got)[:100]} where torch returns a tensor', case, repr(got), None,
                 tags=['raises', name.split('_')[0], type(got).__name__] + EXTRA_TAGS)
        return
    try:
        gd = got.to_dense() if isinstance(got, PatternedTensor) else got
    except Exception as e:  # noqa
        ctx.fail(f'{name}: to_dense() of the result raised {type(e).__name__}: {str(e)[:100]}', case, repr(e), None,
                 tags=['raises', 'result-to_dense', name.split('_')[0], type(e).__name__] + EXTRA_TAGS)
        return
    if not same_dense(gd, want, 0.0 if exact else 1e-12):
        ctx.fail(f'{name}: result does not denote torch\'s result on the dense operands', case, gd.tolist(), want.tolist(),
                 tags=['value', name.split('_')[0]] + EXTRA_TAGS)
    if isinstance(got, PatternedTensor) and got.dtype != torch.bool and got.physical.numel() <= 300:
        reqs.append(f'C06.dense {ptgen.enc_pt(got)}'); meta.append((case, name, gd))


def run_float32(ctx, n):
    """the operations whose result is exact in any floating dtype, on float32 tensors with infinite / NaN defaults and entries: the default
    of the result must be computed in the tensor's dtype (D47: nan_to_num_ replaced an infinite default by the float64 maximum, which a
    float32 tensor cannot hold, so the following to_dense() raised)"""
    U = [u_ for u_ in unary_ops() if u_[3] and u_[0].split('_')[0] in ('abs', 'neg', 'relu', 'nan', 'clamp', 'lt', 'le', 'gt', 'ge', 'eq')]
    reqs, meta = [], []
    for k in range(n):
        nd = ctx.rng.choice([0, 1, 1, 2, 2])
        types = [random_type(ctx.rng) for _ in range(nd)]
        if math.prod(ty_numel(t) for t in types) > 200:
            continue
        t = random_pt(ctx.rng, types, dtype=torch.float32, defaults=[math.inf, -math.inf, math.nan, 0.0, 1.0, -1.0],
                      special_values=(math.inf, -math.inf, 0.0, math.nan))
        ctx.count('float32')
        for name, f, g, exact, pre in U:
            if pre is None or pre(t):
                check(ctx, name + '_f32', [t], f, g, True, reqs, meta)
        if k % 2 == 0:
            # binary operations whose float32 result overflows although the float64 result does not (operands with entries and defaults
            # that are powers of two near the float32 limit: exactly representable, so there is no double rounding): the default of the
            # result must overflow to +-inf as torch's elements do (D54, fixed: it is computed with Python floats and stayed finite, which
            # a float32 tensor cannot hold: to_dense() of the result raised)
            huge = [2.0 ** 127, -2.0 ** 127, 2.0 ** 100, -2.0 ** 100, 1.0, 0.0, 2.0]
            a = random_pt(ctx.rng, types, dtype=torch.float32, values=huge, defaults=huge, specials=0.0)
            b_ = random_pt(ctx.rng, types, dtype=torch.float32, values=huge, defaults=huge, specials=0.0)
            ctx.count('float32-huge')
            overflow = lambda x: math.isinf(torch.tensor(x, dtype=torch.float64).to(torch.float32).item())
            for name, f, g, exact in binary_ops():
                if name in ('add', 'sub', 'mul', 'maximum', 'imul'):
                    try:
                        dd = g(torch.tensor(a.default, dtype=torch.float64), torch.tensor(b_.default, dtype=torch.float64)).item()
                    except Exception:  # noqa
                        dd = 0.0
                    EXTRA_TAGS[:] = ['float32-default-overflow'] if math.isfinite(dd) and overflow(dd) else []
                    check(ctx, name + '_f32huge', [a, b_], f, g, True, reqs, meta)
            EXTRA_TAGS[:] = []


def run_zero_size(ctx, n):
    """tensors with a dimension of size 0 (an empty domain; well typed): the op table on operands whose index types contain the atom 0.
    Failures carry the tag `zero-size-axis-nested` when some operand has a zero-size PhysicalAxis inside a ProductAxis or SumAxis
    (finding D50: Axis.unify answers True for a zero product without binding anything, and the caller's project() then raises)"""
    from fggs.indices import ProductAxis, SumAxis
    def nested_zero(e, inside=False):
        if isinstance(e, PhysicalAxis):
            return inside and e._numel == 0
        if isinstance(e, ProductAxis):
            return any(nested_zero(f, True) for f in e.factors)
        return nested_zero(e.term, True)
    U, B = unary_ops(), binary_ops()
    reqs, meta = [], []
    for k in range(n):
        nd = ctx.rng.choice([1, 2, 2, 3])
        types = [random_type(ctx.rng, depth=ctx.rng.choice([0, 1, 2]), sizes=[0, 1, 2, 3, 0]) for _ in range(nd)]
        if math.prod(ty_numel(t) for t in types) != 0:
            continue
        t = random_pt(ctx.rng, types); u = random_pt(ctx.rng, types)
        tb, ub = random_pt(ctx.rng, types, bool_=True), random_pt(ctx.rng, types, bool_=True)
        ctx.count('zero-size')
        EXTRA_TAGS[:] = ['zero-size-axis-nested'] if any(nested_zero(e) for x in (t, u, tb, ub) for e in x.vaxes) else []
        for name, f, g, exact, pre in ctx.rng.sample(U, 12):
            if pre is None or pre(t):
                check(ctx, name, [t], f, g, exact, reqs, meta)
        for name, f, g, exact in B:
            check(ctx, name, [t, u], f, g, exact, reqs, meta)
        check(ctx, 'where', [t, tb, u], lambda a, c, b_: a.where(c, b_), lambda a, c, b_: a.where(c, b_), True, reqs, meta)
        check(ctx, 'logical_and', [tb, ub], lambda a, c: a.logical_and(c), lambda a, c: a.logical_and(c), True, reqs, meta)
        for dim in range(nd):
            for keep in (False, True):
                check(ctx, f'any_{dim}_{keep}', [tb], lambda a, dim=dim, keep=keep: a.any(dim, keepdim=keep),
                      lambda a, dim=dim, keep=keep: a.any(dim, keepdim=keep), True, reqs, meta)
        perm = list(range(nd)); ctx.rng.shuffle(perm)
        check(ctx, 'permute', [t], lambda a: a.permute(perm), lambda a: a.permute(perm), True, reqs, meta)
        check(ctx, 'flatten', [t], lambda a: a.flatten(), lambda a: a.flatten(), True, reqs, meta)
        check(ctx, 'clone', [t], lambda a: a.clone(), lambda a: a.clone(), True, reqs, meta)
        EXTRA_TAGS[:] = []


def run_binary_representation(ctx):
    """the model `Bn.binary` of expansion + the generic binary operation predicts the REPRESENTATION of the result (fresh physical axes,
    generalised virtual axes, the physical values over them, the default), not only the dense tensor it denotes: compared token by
    token up to a renaming of the fresh axes, for the operations built on `binary` and on its sparsity shortcuts"""
    from .unifygen import canon
    from .common import enc_ext
    OPS = {'add': lambda a, b: a.add(b), 'sub': lambda a, b: a.sub(b), 'mul': lambda a, b: a.mul(b), 'maximum': lambda a, b: a.maximum(b),
           'lt': lambda a, b: a.lt(b), 'le': lambda a, b: a.le(b), 'eq': lambda a, b: a.eq(b), 'gt': lambda a, b: a.gt(b), 'ge': lambda a, b: a.ge(b)}
    reqs, meta = [], []
    for k in range(60 if ctx.quick else 1500):
        nd = ctx.rng.choice([1, 1, 2, 2, 3])
        types = [ptgen.random_type(ctx.rng, depth=ctx.rng.choice([1, 2, 2]), sizes=[1, 2, 3, 2], p_unit_sum=0.1 if k % 3 == 0 else 0.0) for _ in range(nd)]
        if math.prod(ty_numel(t) for t in types) > 300:
            continue
        ttypes = utypes = types
        if k % 3 == 1:
            nd = ctx.rng.choice([2, 2, 3])
            types = [ptgen.random_type(ctx.rng, depth=ctx.rng.choice([0, 1, 1]), sizes=[2, 3, 2]) for _ in range(nd)]
            if math.prod(ty_numel(t) for t in types) > 300:
                continue
            # BROADCAST: one operand has the unit axis in some dimensions where the other has a pattern — in particular the SAME axis
            # twice (a diagonal): every broadcast dimension gets its own fresh axis, the other operand's pattern is densified there
            unit = [ctx.rng.random() < 0.5 for _ in types]
            if ctx.rng.random() < 0.8:
                i, j = ctx.rng.sample(range(nd), 2)
                types[j] = types[i]
                if ctx.rng.random() < 0.6:
                    unit[i] = unit[j] = True         # both dimensions of a (possible) diagonal are broadcast
            if not any(unit): unit[ctx.rng.randrange(nd)] = True
            bt = [('atom', 1) if b_ else ty for b_, ty in zip(unit, types)]
            ttypes, utypes = (bt, types) if ctx.rng.random() < 0.5 else (types, bt)
            ctx.count('binary-representation.broadcast')
        t = random_pt(ctx.rng, ttypes, defaults=[0.0, 1.0, 2.0], specials=0.0, p_share=0.6 if ttypes is not utypes else 0.3)
        u = random_pt(ctx.rng, utypes, defaults=[0.0, 1.0, 3.0], specials=0.0, p_share=0.6 if ttypes is not utypes else 0.3) \
            if ctx.rng.random() < 0.9 or ttypes is not utypes else t
        for name, f in OPS.items():
            ids = {}
            def enc(p_):
                pa = enc_list(p_.paxes, lambda k_: f'{ids.setdefault(id(k_), len(ids))} {k_._numel}')
                va = enc_list(p_.vaxes, lambda e: ptgen.enc_axis(e, ids))
                return f'{enc_list(p_.physical.contiguous().reshape(-1).tolist(), enc_ext)} {pa} {va} {enc_ext(p_.default)}'
            et, eu = enc(t), enc(u)
            case = dict(op=name, operands=[et, eu])
            try:
                r = f(t, u)
            except Exception as e:  # noqa
                ctx.fail(f'{name} raised {type(e).__name__}: {str(e)[:100]} on operands of the same shape', case, repr(e), None, tags=['raises', name, type(e).__name__])
                continue
            # the property itself: the result denotes torch's (broadcasting) result on the dense operands
            TOPS = {'add': torch.add, 'sub': torch.sub, 'mul': torch.mul, 'maximum': torch.maximum, 'lt': torch.lt, 'le': torch.le,
                    'eq': torch.eq, 'gt': torch.gt, 'ge': torch.ge}
            try:
                wd = TOPS[name](t.to_dense(), u.to_dense())
                rd = r.to_dense()
                if list(rd.shape) != list(wd.shape) or not same_dense(rd.to(torch.float64), wd.to(torch.float64), 0.0):
                    ctx.fail(f'{name}: result does not denote torch\'s result on the dense operands', case, rd.tolist(), wd.tolist(),
                             tags=['value', name])
                    continue
            except Exception as e:  # noqa
                ctx.fail(f'{name}: to_dense() of the result raised {type(e).__name__}: {str(e)[:100]}', case, repr(e), None,
                         tags=['raises', 'result-to_dense', name, type(e).__name__])
                continue
            ids2 = dict(ids)
            pa = enc_list(r.paxes, lambda k_: f'P {ids2.setdefault(id(k_), len(ids2))} {k_._numel}')
            va = enc_list(r.vaxes, lambda e: ptgen.enc_axis(e, ids2))
            want = f'{enc_list(r.physical.to(torch.float64).contiguous().reshape(-1).tolist(), enc_ext)} {pa} {va} {enc_ext(float(r.default))}'
            reqs.append(f'C06.binary {name} {et} {eu} {len(ids) + 5}')
            meta.append((case, want))
            ctx.count('binary-representation')
            # add / mul / maximum go through `commutative` (the sparsity shortcut): its transcription Bn.commutative must give the same
            # representation — and the same as Bn.binary (theorem C06s.commutative_eq_binary)
            IDENT = {'add': 0.0, 'mul': 1.0, 'maximum': -math.inf}
            if name in IDENT:
                reqs.append(f'C06.commutative {name} {et} {eu} {enc_ext(IDENT[name])} {len(ids) + 5}')
                meta.append((dict(case, via='commutative'), want))
                ctx.count('commutative-representation')
            if name == 'sub':
                # sub has its own shortcut ((-u) + t in the last branch): transcription Bn.shortcut2 (theorem C06t.shortcut2_eq_binary)
                reqs.append(f'C06.shortcut2 sub {et} {eu} {len(ids) + 5}')
                meta.append((dict(case, via='commutative'), want))
                ctx.count('shortcut2-representation')
    for (case, want), rep in zip(meta, ctx.driver.ask_many(reqs)):
        if isinstance(rep, Exception):
            raise rep
        toks = rep.split()
        i = 0; L = int(toks[i]); phys = toks[i + 1:i + 1 + L]; i += 1 + L
        P = int(toks[i]); pax = toks[i + 1:i + 1 + 2 * P]; i += 1 + 2 * P
        if case.get('via') == 'commutative':
            if toks[-1] != 'T':
                ctx.disagree('Bn.commutative differs from Bn.binary (the theorem C06s.commutative_eq_binary would be false)', case, 'T', toks[-1])
            toks = toks[:-1]
        mp = [str(L)] + phys + [str(P)] + sum((['P', pax[2 * j], pax[2 * j + 1]] for j in range(P)), []) + toks[i:-1]
        ctx.evaluations += 1
        if canon(mp) != canon(want.split()):
            ctx.disagree('Bn.binary / Bn.commutative: representation of the result', case, want, ' '.join(mp))
        elif toks[-1] != 'T':
            ctx.disagree('Bn.binary: the model\'s result is not well formed (PT.wf)', case, want, rep)


def run_reshape_representation(ctx):
    """the model `Rs.reshape` of reshape_or_view (fresh axes for the target sizes, unification of the two products, re-dimensioning of
    the physical tensor along the prime factors) predicts the outcome — RuntimeError or the REPRESENTATION of the result — for merges,
    splits, inserted/removed size-1 dimensions and arbitrary factorisations of the number of elements"""
    from .unifygen import canon
    from .common import enc_ext
    reqs, meta = [], []
    for k in range(80 if ctx.quick else 1500):
        nd = ctx.rng.choice([0, 1, 1, 2, 2, 3])
        types = [ptgen.random_type(ctx.rng, depth=ctx.rng.choice([1, 2, 2]), sizes=[1, 2, 3, 2, 4]) for _ in range(nd)]
        if math.prod(ty_numel(t) for t in types) > 300:
            continue
        t = random_pt(ctx.rng, types, defaults=[0.0, 1.0], specials=0.0)
        N = math.prod(t.shape)
        shp, cands = list(t.shape), []
        if nd >= 2:
            i = ctx.rng.randrange(nd - 1); cands.append(shp[:i] + [shp[i] * shp[i + 1]] + shp[i + 2:])
        cands += [[1] + shp, shp + [1], [x for x in shp if x != 1], [N]]
        if N > 1:
            facs = [q for q in range(1, N + 1) if N % q == 0]
            a, b = ctx.rng.choice(facs), ctx.rng.choice(facs)
            cands += [[a, N // a], [N // b, b]]
        for s in cands:
            ids = {}
            pa = enc_list(t.paxes, lambda k_: f'{ids.setdefault(id(k_), len(ids))} {k_._numel}')
            va = enc_list(t.vaxes, lambda e: ptgen.enc_axis(e, ids))
            et = f'{enc_list(t.physical.contiguous().reshape(-1).tolist(), enc_ext)} {pa} {va} {enc_ext(t.default)}'
            case = dict(op='reshape', operand=et, shape=s)
            try:
                r = t.reshape(*s); out = 'ok'
            except RuntimeError:
                out = 'RuntimeError'
            except AssertionError:
                out = 'AssertionError'
            except Exception as e:  # noqa
                ctx.fail(f'reshape raised {type(e).__name__} (neither a tensor nor RuntimeError)', case, repr(e), None, tags=['raises', 'reshape', type(e).__name__])
                continue
            want = None
            if out == 'ok':
                ids2 = dict(ids)
                pa2 = enc_list(r.paxes, lambda k_: f'P {ids2.setdefault(id(k_), len(ids2))} {k_._numel}')
                va2 = enc_list(r.vaxes, lambda e: ptgen.enc_axis(e, ids2))
                want = f'{enc_list(r.physical.contiguous().reshape(-1).tolist(), enc_ext)} {pa2} {va2} {enc_ext(float(r.default))}'
            reqs.append(f'C06.reshape {et} {enc_list(s)} {len(ids) + 5}')
            meta.append((case, out, want))
            ctx.count('reshape-representation.' + out)
    for (case, out, want), rep in zip(meta, ctx.driver.ask_many(reqs)):
        if isinstance(rep, Exception):
            raise rep
        ctx.evaluations += 1
        if out != 'ok' or not rep.startswith('ok'):
            if rep.split()[0] != out:
                ctx.disagree('Rs.reshape: outcome (tensor / RuntimeError / AssertionError)', case, out, rep[:120])
            continue
        toks = rep.split()[1:]
        # last field: `Rs.resolved`, the decidable side condition of the theorem C06e.reshape_dense (soundness: C06f.resolved_sound)
        ctx.count('reshape-representation.theorem-applies' if toks[-1] == 'T' else 'reshape-representation.fuel-exhausted')
        if toks[-1] != 'T':
            ctx.disagree('Rs.reshape: the job is outside the hypothesis Resolved of C06e.reshape_dense (the fuel of the model was exhausted)', case, 'T', toks[-1])
        toks = toks[:-1]
        i = 0; L = int(toks[i]); phys = toks[i + 1:i + 1 + L]; i += 1 + L
        P = int(toks[i]); pax = toks[i + 1:i + 1 + 2 * P]; i += 1 + 2 * P
        mp = [str(L)] + phys + [str(P)] + sum((['P', pax[2 * j], pax[2 * j + 1]] for j in range(P)), []) + toks[i:-1]
        if canon(mp) != canon(want.split()) or toks[-1] != 'T':
            ctx.disagree('Rs.reshape: representation of the result', case, want, ' '.join(mp))


def run_shape_representation(ctx):
    """the model `Sh.*` (FggsModel/ShapeOps.lean) of __getitem__ (Axis.index), permute, transpose, T, flatten, unsqueeze, expand and any
    predicts the REPRESENTATION of the result (or that the call raises), compared token by token up to a renaming of the physical axes;
    the dense meaning of every result is compared with torch by the op table above"""
    from .unifygen import canon
    from .common import enc_ext
    reqs, meta = [], []
    def enc(p_, ids):
        pa = enc_list(p_.paxes, lambda k_: f'{ids.setdefault(id(k_), len(ids))} {k_._numel}')
        va = enc_list(p_.vaxes, lambda e: ptgen.enc_axis(e, ids))
        ph = p_.physical.to(torch.float64) if p_.physical.dtype == torch.bool else p_.physical
        return f'{enc_list(ph.contiguous().reshape(-1).tolist() if ph.numel() else [], enc_ext)} {pa} {va} {enc_ext(float(p_.default))}'
    def job(name, t, args, f):
        ids = {}
        et = enc(t, ids)
        case = dict(op=name, operand=et, args=args)
        try:
            r = f(t); out = 'ok'
        except VerifInvariantError as e:
            ctx.fail(f'{name}: the library constructed a PatternedTensor that violates the representation invariant: {e}', case, repr(e), None,
                     tags=['invariant', name])
            return
        except Exception as e:  # noqa
            r = None; out = 'raises'
        want = None
        if out == 'ok':
            ids2 = dict(ids)
            pa2 = enc_list(r.paxes, lambda k_: f'P {ids2.setdefault(id(k_), len(ids2))} {k_._numel}')
            va2 = enc_list(r.vaxes, lambda e: ptgen.enc_axis(e, ids2))
            ph = r.physical.to(torch.float64) if r.physical.dtype == torch.bool else r.physical
            want = f'{enc_list(ph.contiguous().reshape(-1).tolist() if ph.numel() else [], enc_ext)} {pa2} {va2} {enc_ext(float(r.default))}'
        reqs.append(f'C06.{name} {et} {args} {len(ids) + 5}'.replace('  ', ' '))
        meta.append((case, out, want, name))
        ctx.count(f'shape-representation.{name}.{out}')
    for k in range(60 if ctx.quick else 1200):
        nd = ctx.rng.choice([1, 1, 2, 2, 3])
        types = [ptgen.random_type(ctx.rng, depth=ctx.rng.choice([1, 2, 2]), sizes=[1, 2, 3, 2, 4]) for _ in range(nd)]
        if math.prod(ty_numel(t) for t in types) > 300 or any(ty_numel(t) == 0 for t in types):
            continue
        t = random_pt(ctx.rng, types, defaults=[0.0, 1.0, -math.inf], specials=0.0)
        if any(k_._numel == 0 for k_ in t.paxes):
            continue
        shp = list(t.shape)
        # __getitem__: a prefix of the index, in range
        for _ in range(3):
            m = ctx.rng.randint(1, nd)
            vis = [ctx.rng.randrange(n) for n in shp[:m]]
            job('getitem', t, enc_list(vis), lambda x, vis=vis: x[tuple(vis)])
        perm = list(range(nd)); ctx.rng.shuffle(perm)
        job('permute', t, enc_list(perm), lambda x, perm=perm: x.permute(perm))
        d0, d1 = ctx.rng.randrange(nd), ctx.rng.randrange(nd)
        job('transpose', t, f'{d0} {d1}', lambda x: x.transpose(d0, d1))
        job('T', t, '', lambda x: x.T)
        job('flatten', t, '', lambda x: x.flatten())
        d = ctx.rng.randint(0, nd)
        job('unsqueeze', t, f'{d}', lambda x: x.unsqueeze(d))
        # expand: leading new dimensions, size-1 dimensions grown, occasionally an impossible target
        sizes = [ctx.rng.choice([2, 3]) for _ in range(ctx.rng.choice([0, 1, 2]))] + \
                [(ctx.rng.choice([2, 3]) if n == 1 and ctx.rng.random() < 0.6 else n) for n in shp]
        if ctx.rng.random() < 0.1 and sizes:
            sizes[-1] += 1
        job('expand', t, enc_list(sizes), lambda x, sizes=sizes: x.expand(*sizes))
        tb = random_pt(ctx.rng, types, bool_=True)
        if not any(k_._numel == 0 for k_ in tb.paxes):
            dim = ctx.rng.randrange(nd); keep = ctx.rng.random() < 0.5
            job('any', tb, f'{dim} {"T" if keep else "F"}', lambda x: x.any(dim, keepdim=keep))
    fix = {'permute': 0, 'transpose': 0, 'T': 0, 'flatten': 0, 'unsqueeze': 0, 'any': 0}
    reqs = [' '.join(r.split()[:-1]) if r.split()[0][4:] in fix else r for r in reqs]
    for (case, out, want, name), rep in zip(meta, ctx.driver.ask_many(reqs)):
        if isinstance(rep, Exception):
            raise rep
        ctx.evaluations += 1
        if out != 'ok' or not rep.startswith('ok'):
            if rep.split()[0] != out:
                ctx.disagree(f'Sh.{name}: outcome (tensor / raises)', case, out, rep[:120])
            continue
        toks = rep.split()[1:]
        i = 0; L = int(toks[i]); phys = toks[i + 1:i + 1 + L]; i += 1 + L
        P = int(toks[i]); pax = toks[i + 1:i + 1 + 2 * P]; i += 1 + 2 * P
        mp = [str(L)] + phys + [str(P)] + sum((['P', pax[2 * j], pax[2 * j + 1]] for j in range(P)), []) + toks[i:-1]
        if canon(mp) != canon(want.split()):
            ctx.disagree(f'Sh.{name}: representation of the result', case, want, ' '.join(mp))
        elif toks[-1] != 'T':
            ctx.disagree(f'Sh.{name}: the model\'s result is not well formed (PT.wf)', case, want, rep)


def run_stack_representation(ctx):
    """the model `Sh.stack` (anti-unification of all operands' axes, one slice per operand filled through a unification with the
    generalised axes) predicts the REPRESENTATION of stack(tensors, dim) for 1..3 operands of one shape and default"""
    from .unifygen import canon
    from .common import enc_ext
    reqs, meta = [], []
    def enc(p_, ids):
        pa = enc_list(p_.paxes, lambda k_: f'{ids.setdefault(id(k_), len(ids))} {k_._numel}')
        va = enc_list(p_.vaxes, lambda e: ptgen.enc_axis(e, ids))
        return f'{enc_list(p_.physical.contiguous().reshape(-1).tolist() if p_.physical.numel() else [], enc_ext)} {pa} {va} {enc_ext(float(p_.default))}'
    for k in range(60 if ctx.quick else 1200):
        nd = ctx.rng.choice([0, 1, 1, 2, 2, 3])
        types = [ptgen.random_type(ctx.rng, depth=ctx.rng.choice([1, 2, 2]), sizes=[1, 2, 3, 2, 4]) for _ in range(nd)]
        if math.prod(ty_numel(t) for t in types) > 200:
            continue
        d0 = ctx.rng.choice([0.0, 1.0, -math.inf])
        m = ctx.rng.choice([1, 2, 2, 3])
        ts = [random_pt(ctx.rng, types, defaults=[d0], specials=0.0) for _ in range(m)]
        if m >= 2 and ctx.rng.random() < 0.2:
            ts[1] = ts[0].clone() if ctx.rng.random() < 0.5 else ts[0]
        if any(k_._numel == 0 for t in ts for k_ in t.paxes):
            continue
        dim = ctx.rng.randint(0, nd)
        ids = {}
        encs = [enc(t, ids) for t in ts]
        case = dict(op='stack', operands=encs, dim=dim)
        try:
            r = stack(ts, dim); out = 'ok'
        except VerifInvariantError as e:
            ctx.fail(f'stack: the library constructed a PatternedTensor that violates the representation invariant: {e}', case, repr(e), None, tags=['invariant', 'stack'])
            continue
        except Exception as e:  # noqa
            ctx.fail(f'stack raised {type(e).__name__}: {str(e)[:80]} on operands of one shape and default', case, repr(e), None, tags=['raises', 'stack', type(e).__name__])
            continue
        want_dense = torch.stack([t.to_dense() for t in ts], dim)
        if not same_dense(r.to_dense(), want_dense, 0.0):
            ctx.fail('stack: result does not denote torch.stack of the dense operands', case, r.to_dense().tolist(), want_dense.tolist(), tags=['value', 'stack'])
        ids2 = dict(ids)
        pa2 = enc_list(r.paxes, lambda k_: f'P {ids2.setdefault(id(k_), len(ids2))} {k_._numel}')
        va2 = enc_list(r.vaxes, lambda e: ptgen.enc_axis(e, ids2))
        want = f'{enc_list(r.physical.contiguous().reshape(-1).tolist(), enc_ext)} {pa2} {va2} {enc_ext(float(r.default))}'
        reqs.append(f'C06.stack {enc_list(encs, lambda x: x)} {dim} {len(ids) + 5}')
        meta.append((case, want))
        ctx.count(f'stack-representation.{m}')
    for (case, want), rep in zip(meta, ctx.driver.ask_many(reqs)):
        if isinstance(rep, Exception):
            raise rep
        ctx.evaluations += 1
        if not rep.startswith('ok'):
            ctx.disagree('Sh.stack: the model raises where the library returns a tensor', case, want, rep[:120])
            continue
        toks = rep.split()[1:]
        ctx.count('stack-representation.' + ('theorem-applies' if toks[-1] == 'T' else 'fuel-exhausted'))
        if toks[-1] != 'T':
            ctx.disagree('Sh.stackResolved: the job is outside the hypothesis StackResolved of C06j.stack_dense', case, 'T', toks[-1])
        toks = toks[:-1]
        i = 0; L = int(toks[i]); phys = toks[i + 1:i + 1 + L]; i += 1 + L
        P = int(toks[i]); pax = toks[i + 1:i + 1 + 2 * P]; i += 1 + 2 * P
        mp = [str(L)] + phys + [str(P)] + sum((['P', pax[2 * j], pax[2 * j + 1]] for j in range(P)), []) + toks[i:-1]
        if canon(mp) != canon(want.split()):
            ctx.disagree('Sh.stack: representation of the result', case, want, ' '.join(mp))
        elif toks[-1] != 'T':
            ctx.disagree('Sh.stack: the model\'s result is not well formed (PT.wf)', case, want, rep)


def run_iter_representation(ctx):
    """the model `It.*` (FggsModel/Iter.lean) of dim_to_dense, __iter__ and tolist predicts the REPRESENTATION of dim_to_dense(dim) and of
    every element of list(iter(t)), and the flattened tolist(); compared token by token up to a renaming of the physical axes"""
    from .unifygen import canon
    from .common import enc_ext, dec_ext
    reqs, meta = [], []
    def enc(p_, ids, pfx=''):
        pa = enc_list(p_.paxes, lambda k_: f'{pfx}{ids.setdefault(id(k_), len(ids))} {k_._numel}')
        def ea(e):
            if isinstance(e, PhysicalAxis): return f'P {ids.setdefault(id(e), len(ids))} {e._numel}'
            from fggs.indices import ProductAxis as _X
            if isinstance(e, _X): return 'X ' + enc_list(e.factors, ea)
            return f'S {e.before} {ea(e.term)} {e.after}'
        return f'{enc_list(p_.physical.contiguous().reshape(-1).tolist() if p_.physical.numel() else [], enc_ext)} {pa} {enc_list(p_.vaxes, ea)} {enc_ext(float(p_.default))}'
    def flat(x):
        return [y for z in x for y in flat(z)] if isinstance(x, list) else [x]
    for k in range(50 if ctx.quick else 1000):
        nd = ctx.rng.choice([1, 1, 2, 2, 3])
        types = [ptgen.random_type(ctx.rng, depth=ctx.rng.choice([1, 2, 2]), sizes=[1, 2, 3, 2, 4]) for _ in range(nd)]
        if math.prod(ty_numel(t) for t in types) > 200:
            continue
        t = random_pt(ctx.rng, types, defaults=[0.0, 1.0, -math.inf], specials=0.0)
        if any(k_._numel == 0 for k_ in t.paxes):
            continue
        ids = {}
        et = enc(t, ids)
        nxt = len(ids) + 5
        dim = ctx.rng.randrange(nd)
        nd_ = ctx.rng.choice([0.0, 1.0, -math.inf, t.default])
        for op, f, arg in (('dimToDense', lambda x: [x.dim_to_dense(dim)], f'{dim} '), ('iter', lambda x: list(iter(x)), ''),
                           ('tolist', lambda x: x.tolist(), ''), ('defaultTo', lambda x: [x.default_to(nd_)], f'{enc_ext(nd_)} '),
                           ('clone', lambda x: [x.clone()], '')):
            case = dict(op=op, operand=et, dim=dim)
            try:
                r = f(t)
            except VerifInvariantError as e:
                ctx.fail(f'{op}: the library constructed a PatternedTensor that violates the representation invariant: {e}', case, repr(e), None, tags=['invariant', op])
                continue
            except Exception as e:  # noqa
                ctx.fail(f'{op} raised {type(e).__name__}: {str(e)[:80]}', case, repr(e), None, tags=['raises', op, type(e).__name__])
                continue
            if op == 'tolist':
                want = ' '.join(enc_ext(float(v)) for v in flat(r))
                if flat(r) != t.to_dense().reshape(-1).tolist() and not all(a == b or (a != a and b != b) for a, b in zip(flat(r), t.to_dense().reshape(-1).tolist())):
                    ctx.fail('tolist() is not the nested list of the dense tensor', case, flat(r), t.to_dense().reshape(-1).tolist(), tags=['value', 'tolist'])
            else:
                dense_want = list(t.to_dense()) if op == 'iter' else [t.to_dense()]
                if len(r) != len(dense_want) or not all(same_dense(a.to_dense(), b, 0.0) for a, b in zip(r, dense_want)):
                    ctx.fail(f'{op}: the result does not denote the dense tensor / its slices', case, None, None, tags=['value', op])
                wants = []
                for x in r:
                    ids2 = dict(ids)
                    wants.append(enc(x, ids2, 'P '))
                want = wants
            reqs.append(f'C06.{op} {et} {arg}{nxt}')
            meta.append((case, op, want))
            ctx.count(f'iter-representation.{op}')
    def split_pt(toks, i):
        L = int(toks[i]); phys = toks[i + 1:i + 1 + L]; i += 1 + L
        P = int(toks[i]); pax = toks[i + 1:i + 1 + 2 * P]; i += 1 + 2 * P
        out = [str(L)] + phys + [str(P)] + sum((['P', pax[2 * j], pax[2 * j + 1]] for j in range(P)), [])
        # vaxes list and default follow: copy tokens until the wf flag (a single T/F after the default)
        return out, i
    for (case, op, want), rep in zip(meta, ctx.driver.ask_many(reqs)):
        if isinstance(rep, Exception):
            raise rep
        ctx.evaluations += 1
        if not rep.startswith('ok'):
            ctx.disagree(f'It.{op}: the model raises where the library returns', case, 'ok', rep[:80])
            continue
        toks = rep.split()[1:]
        if op == 'tolist':
            n = int(toks[0]); vals = toks[1:1 + n]
            if vals != want.split() or toks[-1] != 'T':
                ctx.disagree('It.tolist: flattened list (and its equality with PT.dense)', case, want, ' '.join(toks))
            continue
        if op in ('dimToDense', 'defaultTo', 'clone'):
            head, i = split_pt(toks, 0)
            mp = head + toks[i:-1]
            if canon(mp) != canon(want[0].split()) or toks[-1] != 'T':
                ctx.disagree(f'{op} (model It.dimToDense / Jw.defaultTo / Jw.cloneT): representation of the result', case, want[0], ' '.join(mp))
            continue
        # iter: a list of tensors, each followed by its wf flag
        cnt = int(toks[0]); i = 1; ok = cnt == len(want)
        for w in want:
            if not ok:
                break
            head, j = split_pt(toks, i)
            # the vaxes list + default: read until the wf flag; lengths are known from the expected encoding
            wl = w.split()
            body = toks[j:j + (len(wl) - len(head))]
            flag = toks[j + (len(wl) - len(head))] if j + (len(wl) - len(head)) < len(toks) else 'F'
            ok = ok and canon(head + body) == canon(wl) and flag == 'T'
            i = j + (len(wl) - len(head)) + 1
        if not ok:
            ctx.disagree('It.iter: representation of the elements of list(iter(t))', case, want, ' '.join(toks)[:600])


def run_where_representation(ctx):
    """the model `Wh.whereOp` of PatternedTensor.where (swap when c.default, anti-unification of c and u, u laid out over the fresh axes,
    the selected cells overwritten with t's dense cells) predicts the REPRESENTATION of t.where(c, u) for operands of one shape"""
    from .unifygen import canon
    from .common import enc_ext
    reqs, meta = [], []
    for k in range(50 if ctx.quick else 1000):
        nd = ctx.rng.choice([0, 1, 1, 2, 2, 3])
        types = [ptgen.random_type(ctx.rng, depth=ctx.rng.choice([1, 2, 2]), sizes=[1, 2, 3, 2, 4]) for _ in range(nd)]
        if math.prod(ty_numel(t) for t in types) > 200:
            continue
        t = random_pt(ctx.rng, types, defaults=[0.0, 1.0, -math.inf], specials=0.0)
        u = random_pt(ctx.rng, types, defaults=[0.0, 2.0, 3.0], specials=0.0)
        c = random_pt(ctx.rng, types, bool_=True)
        if ctx.rng.random() < 0.15:
            u = t if ctx.rng.random() < 0.5 else t.clone()
        if any(k_._numel == 0 for x in (t, c, u) for k_ in x.paxes):
            continue
        ids = {}
        def enc(p_, tag):
            def key(k_):
                return ids.setdefault((tag, id(k_)), len(ids))
            from fggs.indices import ProductAxis as _X
            def ea(e):
                if isinstance(e, PhysicalAxis): return f'P {key(e)} {e._numel}'
                if isinstance(e, _X): return 'X ' + enc_list(e.factors, ea)
                return f'S {e.before} {ea(e.term)} {e.after}'
            ph = p_.physical.to(torch.float64) if p_.physical.dtype == torch.bool else p_.physical
            return (f'{enc_list(ph.contiguous().reshape(-1).tolist() if ph.numel() else [], enc_ext)} '
                    f'{enc_list(p_.paxes, lambda k_: str(key(k_)) + " " + str(k_._numel))} {enc_list(p_.vaxes, ea)} {enc_ext(float(p_.default))}')
        et, ec, eu = enc(t, 't'), enc(c, 'c'), enc(u, 'u')
        case = dict(op='where', t=et, c=ec, u=eu)
        try:
            r = t.where(c, u)
        except VerifInvariantError as e:
            ctx.fail(f'where: the library constructed a PatternedTensor that violates the representation invariant: {e}', case, repr(e), None, tags=['invariant', 'where'])
            continue
        except Exception as e:  # noqa
            ctx.fail(f'where raised {type(e).__name__}: {str(e)[:80]}', case, repr(e), None, tags=['raises', 'where', type(e).__name__])
            continue
        want_dense = torch.where(c.to_dense(), t.to_dense(), u.to_dense())
        if not same_dense(r.to_dense(), want_dense, 0.0):
            ctx.fail('where: result does not denote torch.where of the dense operands', case, r.to_dense().tolist(), want_dense.tolist(), tags=['value', 'where'])
        ids2 = {}
        from fggs.indices import ProductAxis as _X2
        def ea2(e):
            if isinstance(e, PhysicalAxis): return f'P {ids2.setdefault(id(e), len(ids2))} {e._numel}'
            if isinstance(e, _X2): return 'X ' + enc_list(e.factors, ea2)
            return f'S {e.before} {ea2(e.term)} {e.after}'
        want = (f'{enc_list(r.physical.contiguous().reshape(-1).tolist() if r.physical.numel() else [], enc_ext)} '
                f'{enc_list(r.paxes, lambda k_: "P " + str(ids2.setdefault(id(k_), len(ids2))) + " " + str(k_._numel))} {enc_list(r.vaxes, ea2)} {enc_ext(float(r.default))}')
        reqs.append(f'C06.where {et} {ec} {eu} {len(ids) + 3}')
        meta.append((case, want))
        ctx.count('where-representation.' + ('c-default-true' if c.default else 'c-default-false'))
    for (case, want), rep in zip(meta, ctx.driver.ask_many(reqs)):
        if isinstance(rep, Exception):
            raise rep
        ctx.evaluations += 1
        toks = rep.split()[1:]
        i = 0; L = int(toks[i]); phys = toks[i + 1:i + 1 + L]; i += 1 + L
        P = int(toks[i]); pax = toks[i + 1:i + 1 + 2 * P]; i += 1 + 2 * P
        mp = [str(L)] + phys + [str(P)] + sum((['P', pax[2 * j], pax[2 * j + 1]] for j in range(P)), []) + toks[i:-1]
        if canon(mp) != canon(want.split()):
            ctx.disagree('Wh.whereOp: representation of the result', case, want, ' '.join(mp))
        elif toks[-1] != 'T':
            ctx.disagree('Wh.whereOp: the model\'s result is not well formed (PT.wf)', case, want, rep)


def run_log_softmax_representation(ctx):
    """log_softmax(dim): the model `It.alongDense` (dim_to_dense, then the function along the physical axis that carries the dimension,
    unbacked cells = the function of a constant fibre of defaults) predicts the PATTERN of the result exactly and its physical values
    and default through a floating-point log_softmax (1e-9 relative)"""
    from .unifygen import canon
    from .common import enc_ext
    import struct
    reqs, meta = [], []
    def fl(bits):
        return struct.unpack('<d', struct.pack('<Q', int(bits)))[0]
    def close(a, b):
        return (a != a and b != b) or a == b or (math.isfinite(a) and math.isfinite(b) and abs(a - b) <= 1e-9 * max(1.0, abs(a), abs(b)))
    for k in range(40 if ctx.quick else 800):
        nd = ctx.rng.choice([1, 1, 2, 2, 3])
        types = [ptgen.random_type(ctx.rng, depth=ctx.rng.choice([1, 2, 2]), sizes=[1, 2, 3, 2, 4]) for _ in range(nd)]
        if math.prod(ty_numel(t) for t in types) > 200:
            continue
        t = random_pt(ctx.rng, types, defaults=[0.0, 1.0, -math.inf, -1.0], specials=0.05)
        if any(k_._numel == 0 for k_ in t.paxes):
            continue
        dim = ctx.rng.randrange(nd)
        ids = {}
        from fggs.indices import ProductAxis as _X
        def ea(e, ids_):
            if isinstance(e, PhysicalAxis): return f'P {ids_.setdefault(id(e), len(ids_))} {e._numel}'
            if isinstance(e, _X): return 'X ' + enc_list(e.factors, lambda f: ea(f, ids_))
            return f'S {e.before} {ea(e.term, ids_)} {e.after}'
        et = (f'{enc_list(t.physical.contiguous().reshape(-1).tolist() if t.physical.numel() else [], enc_ext)} '
              f'{enc_list(t.paxes, lambda k_: str(ids.setdefault(id(k_), len(ids))) + " " + str(k_._numel))} {enc_list(t.vaxes, lambda e: ea(e, ids))} {enc_ext(float(t.default))}')
        case = dict(op='log_softmax', operand=et, dim=dim)
        try:
            r = t.log_softmax(dim)
        except Exception as e:  # noqa
            ctx.fail(f'log_softmax raised {type(e).__name__}: {str(e)[:80]}', case, repr(e), None, tags=['raises', 'log_softmax', type(e).__name__])
            continue
        ids2 = {}
        pat = f'{enc_list(r.paxes, lambda k_: "P " + str(ids2.setdefault(id(k_), len(ids2))) + " " + str(k_._numel))} {enc_list(r.vaxes, lambda e: ea(e, ids2))}'
        reqs.append(f'C06.logSoftmaxPattern {et} {dim} {len(ids) + 5}')
        meta.append((case, pat, r.physical.contiguous().reshape(-1).tolist() if r.physical.numel() else [], float(r.default)))
        ctx.count('log-softmax-representation')
        # norm(p, dim, keepdim): the model It.reduceDense (pattern exactly, values through a floating-point p-norm)
        pn, keep = ctx.rng.choice([1, 2]), ctx.rng.random() < 0.5
        try:
            rn = t.norm(pn, dim, keepdim=keep)
        except Exception as e:  # noqa
            ctx.fail(f'norm raised {type(e).__name__}: {str(e)[:80]}', dict(case, op='norm'), repr(e), None, tags=['raises', 'norm', type(e).__name__])
            continue
        ids3 = {}
        patn = f'{enc_list(rn.paxes, lambda k_: "P " + str(ids3.setdefault(id(k_), len(ids3))) + " " + str(k_._numel))} {enc_list(rn.vaxes, lambda e: ea(e, ids3))}'
        reqs.append(f'C06.normPattern {et} {dim} {"T" if keep else "F"} {pn} {len(ids) + 5}')
        meta.append((dict(case, op=f'norm p={pn} keepdim={keep}'), patn, rn.physical.contiguous().reshape(-1).tolist() if rn.physical.numel() else [], float(rn.default)))
        ctx.count('norm-representation')
    for (case, pat, vals, dflt), rep in zip(meta, ctx.driver.ask_many(reqs)):
        if isinstance(rep, Exception):
            raise rep
        ctx.evaluations += 1
        if not rep.startswith('ok'):
            ctx.disagree('It.alongDense: the model raises where log_softmax returns a tensor', case, 'ok', rep[:80]); continue
        toks = rep.split()[1:]
        L = int(toks[0]); mv = [fl(x) for x in toks[1:1 + L]]; i = 1 + L
        P = int(toks[i]); pax = toks[i + 1:i + 1 + 2 * P]; i += 1 + 2 * P
        is_norm = case['op'].startswith('norm')
        tail = toks[i:-1] if is_norm else toks[i:-2]
        dbits = toks[-1] if is_norm else toks[-2]
        mp = [str(P)] + sum((['P', pax[2 * j], pax[2 * j + 1]] for j in range(P)), []) + tail
        if canon(mp) != canon(pat.split()) or (not is_norm and toks[-1] != 'T'):
            ctx.disagree('It.alongDense / It.reduceDense: pattern of ' + case['op'], case, pat, ' '.join(mp)); continue
        if len(mv) != len(vals) or not all(close(a, b) for a, b in zip(mv, vals)) or not close(fl(dbits), dflt):
            ctx.disagree('It.alongDense / It.reduceDense with a floating-point function: physical values / default of ' + case['op'], case,
                         dict(vals=vals, default=dflt), dict(vals=mv, default=fl(dbits)))


def run_unit_factors(ctx, reqs, meta):
    """index types with a factor of ONE element that is not the unit axis (a one-component sum `0 + () + 0`, as patterned JSON
    weights can spell it) at the start, in the middle or at the END of a product, each operand representing the same type in its own
    way: factor by factor, or with neighbouring factors merged into one dense physical axis.  Binary operations, where, stack and
    equal/allclose walk the two factor lists in parallel (anti-unification / unification) and must cope with one list running out
    while only one-element factors remain in the other."""
    from fggs.indices import ProductAxis, SumAxis, unitAxis, productAxis
    one = lambda: SumAxis(0, unitAxis, 0)
    def reps(nc, na, where):
        # the type  C(nc) x A(na)  with a one-element sum factor U inserted at `where` (0 = front, 1 = middle, 2 = end)
        out = []
        for merge in ('none', 'A+U', 'all'):
            c, a = PhysicalAxis(nc), PhysicalAxis(na)
            fac = [c, a]
            fac.insert(where, one())
            if merge == 'none':
                out.append((productAxis(fac), (c, a), (nc, na)))
            elif merge == 'A+U':
                # A and its neighbour U as one dense axis of |A| elements
                out.append((productAxis([c, a]), (c, a), (nc, na)))
            else:
                m = PhysicalAxis(nc * na)
                out.append((m, (m,), (nc * na,)))
        return out
    n = 6 if ctx.quick else 40
    for _ in range(n):
        nc, na = ctx.rng.choice([(2, 2), (2, 3), (3, 2)])
        where = ctx.rng.choice([0, 1, 2, 2])
        R = reps(nc, na, where)
        for (e, pe, she), (f, pf, shf) in itertools.product(R, repeat=2):
            t = PatternedTensor(torch.tensor([float(ctx.rng.choice([1, 2, 3, 5])) for _ in range(nc * na)]).reshape(she), pe, (e,), ctx.rng.choice([0.0, 1.0]))
            u = PatternedTensor(torch.tensor([float(ctx.rng.choice([1, 2, 4, 7])) for _ in range(nc * na)]).reshape(shf), pf, (f,), ctx.rng.choice([0.0, 1.0]))
            ctx.count('unit-factor-family')
            for name, fn, g in [('add', lambda a, b: a.add(b), lambda a, b: a + b), ('mul', lambda a, b: a.mul(b), lambda a, b: a * b),
                                ('maximum', lambda a, b: a.maximum(b), lambda a, b: torch.maximum(a, b)),
                                ('sub', lambda a, b: a.sub(b), lambda a, b: a - b),
                                ('equal', lambda a, b: torch.tensor(a.equal(b)), lambda a, b: torch.tensor(torch.equal(a, b))),
                                ('stack', lambda a, b: stack([a, b.default_to(a.default)], 0) if a.default == b.default else a, lambda a, b: torch.stack([a, b], 0) if True else a)]:
                if name == 'stack' and t.default != u.default:
                    continue
                check(ctx, name + '_unitfactor', [t, u], fn, g, True, reqs, meta)


def project_checks(ctx, t, types):
    """t.project(paxes, vaxes)[idx] must be the element of t.to_dense() at the virtual index that (paxes, vaxes) assigns to idx"""
    import itertools
    from .unifygen import ev
    from fggs.indices import ProductAxis, SumAxis
    dense = t.to_dense()
    targets = []
    u = random_pt(ctx.rng, types)
    targets.append(('fresh', tuple(u.paxes), tuple(u.vaxes)))
    same = [(a, b) for a in t.paxes for b in t.paxes if a is not b and a._numel == b._numel]
    if same:
        a, b = ctx.rng.choice(same)
        def ren(e):
            if isinstance(e, PhysicalAxis):
                return b if e is a else a if e is b else e
            if isinstance(e, ProductAxis):
                return ProductAxis(tuple(ren(f) for f in e.factors))
            return SumAxis(e.before, ren(e.term), e.after)
        targets.append(('own-axes-swapped', tuple(t.paxes), tuple(ren(e) for e in t.vaxes)))
    for kind, paxes, vaxes in targets:
        if math.prod([k._numel for k in paxes] + [1]) > 2000:
            continue
        case = dict(op='project', kind=kind, operand=ptgen.enc_pt(t))
        ctx.case(case, ('project', kind, case['operand']) if not is_dense(t) else None, sample_every=200)
        ctx.count('project.' + kind)
        try:
            r = t.project(paxes, vaxes)
        except Exception as e:  # noqa
            ctx.fail(f'project ({kind}) raised {type(e).__name__}: {str(e)[:80]}', case, repr(e), None, tags=['project', 'raises'])
            continue
        ok = list(r.shape) == [k._numel for k in paxes]
        if ok:
            for idx in itertools.product(*[range(k._numel) for k in paxes]):
                rho = {id(k): i for k, i in zip(paxes, idx)}
                want = dense[tuple(ev(e, rho) for e in vaxes)] if vaxes else dense
                got = r[idx] if paxes else r
                if not (bool(got == want) or (bool(got != got) and bool(want != want))):
                    ok = False; break
        if not ok:
            ctx.fail(f'project ({kind}): the result does not hold the elements of the tensor at the requested pattern', case, r.tolist(), None, tags=['project', kind])
        # the model `Pj.projectPT` of the method (unification of the tensor's axes with the requested ones, two strided views, copy): flat result
        if t.dtype != torch.bool and not any(k_._numel == 0 for k_ in tuple(t.paxes) + tuple(paxes)) and r.numel() <= 400:
            from .common import enc_ext
            ids = {}
            def key(tag, k_):
                return ids.setdefault((tag, id(k_)), len(ids))
            def ea(e, tag):
                if isinstance(e, PhysicalAxis): return f'P {key(tag, e)} {e._numel}'
                if isinstance(e, ProductAxis): return 'X ' + enc_list(e.factors, lambda f_: ea(f_, tag))
                return f'S {e.before} {ea(e.term, tag)} {e.after}'
            et = (f'{enc_list(t.physical.contiguous().reshape(-1).tolist() if t.physical.numel() else [], enc_ext)} '
                  f'{enc_list(t.paxes, lambda k_: str(key("t", k_)) + " " + str(k_._numel))} {enc_list(t.vaxes, lambda e: ea(e, "t"))} {enc_ext(float(t.default))}')
            ep = enc_list(paxes, lambda k_: str(key('p', k_)) + ' ' + str(k_._numel))
            ev_ = enc_list(vaxes, lambda e: ea(e, 'p'))
            ctx.extra.setdefault('_pj_reqs', []).append(f'C06.projectPT {et} {ep} {ev_} {len(ids) + 3}')
            ctx.extra.setdefault('_pj_meta', []).append((dict(case, stream='projectPT-model'), r.contiguous().reshape(-1).tolist()))


def run_projectpt_model(ctx):
    from .common import dec_ext
    for (case, flat), rep in zip(ctx.extra.pop('_pj_meta', []), ctx.driver.ask_many(ctx.extra.pop('_pj_reqs', []))):
        if isinstance(rep, Exception):
            raise rep
        ctx.evaluations += 1
        if not rep.startswith('ok'):
            ctx.disagree('Pj.projectPT: the model raises where PatternedTensor.project returns a tensor', case, 'ok', rep[:80]); continue
        toks = rep.split()[1:]
        n = int(toks[0]); mv = [dec_ext(x) for x in toks[1:1 + n]]
        ctx.count('projectPT-model.' + ('theorem-applies' if toks[-1] == 'T' else 'outside-hypothesis'))
        if len(mv) != len(flat) or not all(a == b or (a != a and b != b) for a, b in zip(mv, flat)):
            ctx.disagree('Pj.projectPT: elements of the projected tensor', case, flat, mv)
        if toks[-1] != 'T':
            ctx.disagree('Pj.faithful: the job is outside the hypotheses of C06p.projectPT_cells', case, 'T', toks[-1])


def run(ctx):
    from .unifygen import run_unify, run_antiunify
    run_unify(ctx, 400 if ctx.quick else 8000)
    run_antiunify(ctx, 400 if ctx.quick else 8000)
    from .c18 import run_copy_noncontiguous      # copy_ followed by in-place operations: both tensors keep denoting the right values
    run_copy_noncontiguous(ctx, 40 if ctx.quick else 400)
    # the op table must classify every public attribute
    public = {a for a in dir(PatternedTensor) if not a.startswith('_')}
    unclassified = public - EXCLUDED - TESTED
    if unclassified:
        ctx.fail('PatternedTensor has public operations that the check does not classify', sorted(unclassified), None, None, tags=['unclassified-op'])
    run_float32(ctx, 60 if ctx.quick else 600)
    run_zero_size(ctx, 80 if ctx.quick else 1200)
    run_binary_representation(ctx)
    run_reshape_representation(ctx)
    run_shape_representation(ctx)
    run_stack_representation(ctx)
    run_iter_representation(ctx)
    run_where_representation(ctx)
    run_log_softmax_representation(ctx)
    reqs, meta = [], []
    run_unit_factors(ctx, reqs, meta)
    U, B = unary_ops(), binary_ops()
    n = 150 if ctx.quick else 1500
    for k in range(n):
        nd = ctx.rng.choice([0, 1, 1, 2, 2, 3])
        types = [random_type(ctx.rng) for _ in range(nd)]
        if math.prod(ty_numel(t) for t in types) > 500:
            continue
        # a fifth of the cases: NaN and negative defaults / NaN physical entries ("any default")
        odd = dict(defaults=[math.nan, -1.0, math.nan, 0.0, -math.inf], special_values=(math.inf, -math.inf, 0.0, math.nan)) if k % 5 == 4 else {}
        if odd:
            ctx.count('nan-or-negative-defaults')
        t = random_pt(ctx.rng, types, **odd)
        u = random_pt(ctx.rng, types, **odd)
        # representation semantics
        reqs.append(f'C06.dense {ptgen.enc_pt(t)}'); meta.append((dict(pt=ptgen.enc_pt(t)), 'to_dense', t.to_dense()))
        for name, f, g, exact, pre in (U if not ctx.quick else ctx.rng.sample(U, 25)):
            if pre is None or pre(t):
                check(ctx, name, [t], f, g, exact, reqs, meta)
        for name, f, g, exact in B:
            check(ctx, name, [t, u], f, g, exact, reqs, meta)
        # broadcasting binary ops: an operand with fewer dimensions / size-1 dimensions
        if nd >= 1:
            u2 = random_pt(ctx.rng, types[1:])
            for name, f, g, exact in B[:6]:
                check(ctx, name + '_bcast', [t, u2], f, g, exact, reqs, meta)
        # boolean operands
        tb, ub = random_pt(ctx.rng, types, bool_=True), random_pt(ctx.rng, types, bool_=True)
        check(ctx, 'logical_and', [tb, ub], lambda a, c: a.logical_and(c), lambda a, c: a.logical_and(c), True, reqs, meta)
        check(ctx, 'logical_or', [tb, ub], lambda a, c: a.logical_or(c), lambda a, c: a.logical_or(c), True, reqs, meta)
        check(ctx, 'logical_not', [tb], lambda a: a.logical_not(), lambda a: a.logical_not(), True, reqs, meta)
        check(ctx, 'where', [t, tb, u], lambda a, c, b_: a.where(c, b_), lambda a, c, b_: a.where(c, b_), True, reqs, meta)
        for dim in range(nd):
            for keep in (False, True):
                check(ctx, f'any_{dim}_{keep}', [tb], lambda a, dim=dim, keep=keep: a.any(dim, keepdim=keep),
                      lambda a, dim=dim, keep=keep: a.any(dim, keepdim=keep), True, reqs, meta)
            check(ctx, f'log_softmax_{dim}', [t], lambda a, dim=dim: a.log_softmax(dim), lambda a, dim=dim: a.log_softmax(dim), False, reqs, meta)
            for pn in (1, 2):
                keep = ctx.rng.random() < 0.5
                check(ctx, f'norm_{pn}_{dim}_{keep}', [t], lambda a, dim=dim, pn=pn, keep=keep: a.norm(pn, dim, keepdim=keep),
                      lambda a, dim=dim, pn=pn, keep=keep: a.norm(pn, dim, keepdim=keep), False, reqs, meta)
            check(ctx, f'dim_to_dense_{dim}', [t], lambda a, dim=dim: a.dim_to_dense(dim), lambda a: a, True, reqs, meta)
            check(ctx, f'unsqueeze_{dim}', [t], lambda a, dim=dim: a.unsqueeze(dim), lambda a, dim=dim: a.unsqueeze(dim), True, reqs, meta)
            check(ctx, f'getitem_{dim}', [t], lambda a: a[0] if a.shape[0] else a, lambda a: a[0] if a.shape[0] else a, True, reqs, meta)
        check(ctx, 'unsqueeze_-1', [t], lambda a: a.unsqueeze(-1), lambda a: a.unsqueeze(-1), True, reqs, meta)
        # negative dimension arguments (torch counts from the end) for every operation that takes a dimension
        for dim in range(-nd, 0):
            for keep in (False, True):
                check(ctx, f'any_neg_{keep}', [tb], lambda a, dim=dim, keep=keep: a.any(dim, keepdim=keep),
                      lambda a, dim=dim, keep=keep: a.any(dim, keepdim=keep), True, reqs, meta)
            check(ctx, 'log_softmax_neg', [t], lambda a, dim=dim: a.log_softmax(dim), lambda a, dim=dim: a.log_softmax(dim), False, reqs, meta)
            check(ctx, 'dim_to_dense_neg', [t], lambda a, dim=dim: a.dim_to_dense(dim), lambda a: a, True, reqs, meta)
        for dim in range(-nd - 1, 0):
            check(ctx, 'unsqueeze_neg', [t], lambda a, dim=dim: a.unsqueeze(dim), lambda a, dim=dim: a.unsqueeze(dim), True, reqs, meta)
        if nd >= 1 and all(s > 0 for s in t.shape):
            idx = tuple(ctx.rng.randrange(s) for s in t.shape[:ctx.rng.randint(1, nd)])
            check(ctx, 'getitem_tuple', [t], lambda a, idx=idx: a[idx], lambda a, idx=idx: a[idx], True, reqs, meta)
            check(ctx, 'iter', [t], lambda a: torch.stack([x.to_dense() for x in a]), lambda a: a, True, reqs, meta)
        if nd >= 2:
            perm = list(range(nd)); ctx.rng.shuffle(perm)
            check(ctx, 'permute', [t], lambda a, perm=perm: a.permute(perm), lambda a, perm=perm: a.permute(*perm), True, reqs, meta)
            i, j = ctx.rng.sample(range(nd), 2)
            check(ctx, 'transpose', [t], lambda a, i=i, j=j: a.transpose(i, j), lambda a, i=i, j=j: a.transpose(i, j), True, reqs, meta)
            ni, nj = ctx.rng.choice([(i - nd, j), (i, j - nd), (i - nd, j - nd)])
            check(ctx, 'transpose_neg', [t], lambda a, i=ni, j=nj: a.transpose(i, j), lambda a, i=ni, j=nj: a.transpose(i, j), True, reqs, meta)
            nperm = [q - nd if ctx.rng.random() < 0.5 else q for q in perm]
            check(ctx, 'permute_neg', [t], lambda a, perm=nperm: a.permute(perm), lambda a, perm=nperm: a.permute(*perm), True, reqs, meta)
        # expand: from fewer dimensions / size-1 dimensions
        ext_shape = [ctx.rng.choice([2, 3])] + list(t.shape)
        check(ctx, 'expand', [t], lambda a, s=ext_shape: a.expand(*s), lambda a, s=ext_shape: a.expand(*s), True, reqs, meta)
        t1 = t.unsqueeze(0)
        check(ctx, 'expand_unit', [t1], lambda a, s=ext_shape: a.expand(*s), lambda a, s=ext_shape: a.expand(*s), True, reqs, meta)
        check(ctx, 'repeat', [t1], lambda a, s=ext_shape: a.repeat(*s), lambda a, s=ext_shape: a.expand(*s).clone(), True, reqs, meta)
        tgt = random_pt(ctx.rng, types) if nd else t
        check(ctx, 'expand_as', [t1, tgt.unsqueeze(0).expand(*ext_shape)], lambda a, b_: a.expand_as(b_), lambda a, b_: a.expand_as(b_), True, reqs, meta)
        # masked_fill_into (used by F_viterbi to record rule indices): dest[i] = value where the Boolean tensor is true
        def _mfi(a):
            dest = torch.arange(float(max(1, a.numel())), dtype=torch.float64)[:a.numel()].reshape(a.shape).clone() if a.numel() else torch.zeros(a.shape, dtype=torch.float64)
            a.masked_fill_into(dest, -7.0)
            return dest
        def _mfi_dense(a):
            dest = torch.arange(float(max(1, a.numel())), dtype=torch.float64)[:a.numel()].reshape(a.shape).clone() if a.numel() else torch.zeros(a.shape, dtype=torch.float64)
            return torch.where(a, torch.tensor(-7.0, dtype=torch.float64), dest)
        check(ctx, 'masked_fill_into', [tb], _mfi, _mfi_dense, True, reqs, meta)
        # reshape / view: merging adjacent dimensions and inserting/removing size-1 dimensions must succeed
        shp = list(t.shape)
        merges = []
        if nd >= 2:
            i = ctx.rng.randrange(nd - 1)
            merges.append(shp[:i] + [shp[i] * shp[i + 1]] + shp[i + 2:])
        merges.append([1] + shp); merges.append(shp + [1]); merges.append([s for s in shp if s != 1]); merges.append([-1] if nd else [1])
        for m in merges:
            if 0 in shp and -1 in m:
                continue
            for which in ('reshape', 'view'):
                must = 'must'
                check(ctx, f'{which}_{must}', [t], lambda a, m=m, which=which: getattr(a, which)(*m), lambda a, m=m: a.reshape(*m), True, reqs, meta)
                # merging adjacent dimensions or inserting/removing size-1 dimensions may not be refused
                try:
                    getattr(t, which)(*m)
                except RuntimeError as e:
                    if which == 'reshape':
                        ctx.fail('reshape refused a merge of adjacent dimensions / insertion or removal of size-1 dimensions',
                                 dict(pt=ptgen.enc_pt(t), shape=m), repr(e), None, tags=['reshape-refused-merge'])
                except Exception:
                    pass
        # arbitrary reshape: either denotes torch's reshape or raises RuntimeError
        num = math.prod(shp)
        if num > 1:
            facs = [d for d in range(1, num + 1) if num % d == 0]
            a = ctx.rng.choice(facs)
            check(ctx, 'reshape_any', [t], lambda x, a=a, num=num: x.reshape(a, num // a), lambda x, a=a, num=num: x.reshape(a, num // a), True, reqs, meta)
        # project onto own pattern
        check(ctx, 'project', [t], lambda a: PatternedTensor(a.project(a.paxes, a.vaxes), a.paxes, a.vaxes, a.default), lambda a: a, True, reqs, meta)
        # project onto other patterns of the same shape: a fresh one, and the tensor's OWN physical axes in swapped roles
        project_checks(ctx, t, types)
        # stack of several tensors with equal defaults
        us = [random_pt(ctx.rng, types, defaults=[t.default]) for _ in range(2)]
        check(ctx, 'stack', [t] + us, lambda *a: stack(list(a), 0), lambda *a: torch.stack(list(a), 0), True, reqs, meta)
        if nd >= 1:
            check(ctx, 'stack_1', [t] + us, lambda *a: stack(list(a), 1), lambda *a: torch.stack(list(a), 1), True, reqs, meta)
        sd = ctx.rng.randrange(-nd - 1, 0)
        check(ctx, 'stack_neg', [t] + us, lambda *a, sd=sd: stack(list(a), sd), lambda *a, sd=sd: torch.stack(list(a), sd), True, reqs, meta)
        check(ctx, 'stack_single_neg', [t], lambda a, sd=sd: stack([a], sd), lambda a, sd=sd: torch.stack([a], sd), True, reqs, meta)
        # two-step compositions
        s1 = ctx.rng.choice([lambda a: a.T, lambda a: a.flatten() if a.ndim else a, lambda a: a.unsqueeze(0), lambda a: a.clone(),
                             lambda a: a.dim_to_dense(0) if a.ndim else a])
        d1 = None
        try:
            t2 = s1(t)
            check(ctx, 'compose_add', [t2, t2.clone()], lambda a, c: a.add(c), lambda a, c: a + c, True, reqs, meta)
            check(ctx, 'compose_abs', [t2], lambda a: a.abs(), lambda a: a.abs(), True, reqs, meta)
        except Exception:
            pass
    run_projectpt_model(ctx)
    # ---- representation semantics against the Lean model
    for (case, name, gd), rep in zip(meta, ctx.driver.ask_many(reqs)):
        if isinstance(rep, Exception): raise rep
        t = Toks(rep)
        wf, sok = t.bool(), t.bool()
        shape = t.list(t.nat)
        dense = t.list(t.ext)
        impl = gd.reshape(-1).tolist()
        ok = list(gd.shape) == shape and len(impl) == len(dense) and all(
            (isinstance(m, float) and ((math.isnan(m) and math.isnan(i)) or m == i)) or (not isinstance(m, float) and float(m) == i)
            for i, m in zip(impl, dense))
        if not wf:
            ctx.fail(f'{name}: the resulting PatternedTensor violates the representation invariant (Ax.PT.wf)', case, None, None, tags=['invariant', name.split('_')[0]])
        elif not ok:
            ctx.disagree('Ax.PT.dense vs PatternedTensor.to_dense', case, impl, [str(x) for x in dense])
        elif not sok:
            ctx.disagree('Ax.Axis.stride does not agree with Ax.Axis.eval', case, None, None)


def replay(ctx, rep):
    run(ctx)
    return bool(ctx.failures or ctx.disagreements)
